import GtirbProofs.Props.C01
import GtirbProofs.Props.C17
import GtirbProofs.Props.C07
/-! C01, the domain of the round trip made explicit (review `msg`, findings F-C and the
"AuxData decoded values" gap).

* `C01_version_rejected`: `wfir` contains `v.version = protobufVersion`. An IR built
  through the public API with another version (`IR(version=3)`) is *written* (`toMsg` is
  total and copies the field) and then *rejected* by the reader with `ValueError`. The
  hypothesis is not an artefact of the proof: it is a genuine restriction of the domain.
* `C01_wfir_iff`, `C01_wfir_iff'`: apart from two named side conditions (no interval
  shares the UUID of one of its own blocks; map keys pairwise distinct) `wfir` is
  *exactly* the set of IRs that survive save-then-load. `wfir` hides no further
  restriction.
* `C01_aux_tables`, `C01_aux_values`, `C01_aux_values_module`: the AuxData tables of the IR
  and of every module come back entry for entry (key, type name, bytes), for *every* IR
  the reader accepts again (no `wfir` needed), and composing with `C07_roundtrip` the
  decoded *value* of an entry comes back. -/
namespace Gtirb.Msg
open Gtirb

/-! ### the version hypothesis (F-C) -/

/-- an IR whose `version` differs from the current protobuf version is written (the
writer is total and copies the field, first conjunct) and what is written is rejected by
the reader with `ValueError`. Python: `IR(version=3).save_protobuf(f)` succeeds,
`IR.load_protobuf(f)` raises `ValueError` (ir.py:97-101). -/
theorem C01_version_rejected (v : IRV) (hv : v.version ≠ Generated.protobufVersion) :
    (toMsg v).version = v.version ∧ fromMsg (toMsg v) = .error .valueError :=
  ⟨rfl, C17_version_field (toMsg v) hv⟩

/-- hence such an IR is outside the domain of the round trip whatever else holds -/
theorem C01_version_necessary (v : IRV) (h : fromMsg (toMsg v) = .ok v) :
    v.version = Generated.protobufVersion := by
  apply Classical.byContradiction
  intro hv
  rw [(C01_version_rejected v hv).2] at h
  cases h

/-- lifted through the header: the file is produced and rejected with the message-level
`ValueError`, for any `parse` inverting `serialize` -/
theorem C01_version_rejected_bytes (serialize : MIR → Bytes) (parse : Bytes → Option MIR)
    (hps : ∀ m, parse (serialize m) = some m) (v : IRV)
    (hv : v.version ≠ Generated.protobufVersion) :
    loadBytes parse (saveBytes serialize v) = .error (.msg .valueError) :=
  loadBytes_msg_error (hps _) (C01_version_rejected v hv).2

/-- `exIR` with the version field set to 3 (an `IR(version=3)` of the public API) -/
def exVersion3 : IRV := { exIR with version := 3 }

/-- non-vacuity: the version is the *only* thing wrong with `exVersion3` -/
example : wfir exVersion3 = false ∧ wfir { exVersion3 with version := Generated.protobufVersion } = true := by
  decide
example : fromMsg (toMsg exVersion3) = .error .valueError :=
  (C01_version_rejected exVersion3 (by decide)).2

/-! ### `wfir` is exactly the domain -/

/-- the two side conditions under which "accepted again" implies `wfir`:
no interval shares the UUID of one of its own blocks (the one duplicate the staged reader
lets through, `C17_accepted_dup_counterexample`) ... -/
def NoIntervalBlockClash (v : IRV) : Prop :=
  ∀ mod ∈ v.modules, ∀ s ∈ mod.sections, ∀ x ∈ s.intervals, x.uuid ∉ x.blockUuids

/-- ... and map keys are pairwise distinct (AuxData names per IR / module, expression
offsets per interval: Python dicts, always so) -/
def MapKeysDistinct (v : IRV) : Prop :=
  (v.aux.map (·.key)).Nodup ∧ ∀ mod ∈ v.modules, (mod.aux.map (·.key)).Nodup ∧
    ∀ s ∈ mod.sections, ∀ x ∈ s.intervals, (x.exprs.map (·.key)).Nodup

instance (v : IRV) : Decidable (NoIntervalBlockClash v) := by
  unfold NoIntervalBlockClash; infer_instance
instance (v : IRV) : Decidable (MapKeysDistinct v) := by
  unfold MapKeysDistinct; infer_instance

private theorem sublist_flatMap_of_mem {α β : Type} (f : α → List β) {l : List α} {a : α} (h : a ∈ l) :
    (f a).Sublist (l.flatMap f) := by
  induction l with
  | nil => cases h
  | cons b l ih =>
    rw [List.flatMap_cons]
    rcases List.mem_cons.1 h with rfl | h
    · exact List.sublist_append_left _ _
    · exact (ih h).trans (List.sublist_append_right _ _)

theorem wfir_noClash {v : IRV} (h : wfir v = true) : NoIntervalBlockClash v := by
  simp only [wfir, Bool.and_eq_true, nodupB_iff] at h
  have hnd : v.nodeUuids.Nodup := h.1.1.1.1.1.2
  intro mod hmod s hs x hx hmem
  -- `x.blockUuids ++ [x.uuid]` is a sublist of the IR's node UUIDs
  have s1 : (x.blockUuids ++ [x.uuid]).Sublist s.nodeUuids :=
    (sublist_flatMap_of_mem (fun x : IntervalV => x.blockUuids ++ [x.uuid]) hx).trans
      (List.sublist_cons_self _ _)
  have s2 : s.nodeUuids.Sublist mod.nodeUuids := by
    have := sublist_flatMap_of_mem (fun s : SectionV => s.nodeUuids) hs
    simp only [ModuleV.nodeUuids]
    exact ((this.trans (List.sublist_append_right _ _)).trans
      (List.sublist_append_left _ _)).trans (List.sublist_cons_self _ _)
  have s3 : mod.nodeUuids.Sublist v.nodeUuids :=
    (sublist_flatMap_of_mem (fun m : ModuleV => m.nodeUuids) hmod).trans (List.sublist_cons_self _ _)
  have hn := ((s1.trans s2).trans s3).nodup hnd
  rw [List.nodup_append] at hn
  exact hn.2.2 x.uuid hmem x.uuid (by simp) rfl

theorem wfir_keysDistinct {v : IRV} (h : wfir v = true) : MapKeysDistinct v := by
  simp only [wfir, Bool.and_eq_true, nodupB_iff] at h
  obtain ⟨⟨⟨⟨_, hmods⟩, haux⟩, _⟩, _⟩ := h
  refine ⟨haux, ?_⟩
  have key : ∀ (ms earlier : List ModuleV), modulesOK earlier ms = true →
      ∀ mod ∈ ms, (mod.aux.map (·.key)).Nodup ∧
        ∀ s ∈ mod.sections, ∀ x ∈ s.intervals, (x.exprs.map (·.key)).Nodup := by
    intro ms
    induction ms with
    | nil => intro _ _ mod hm; cases hm
    | cons m ms ih =>
      intro earlier hok mod hm
      simp only [modulesOK, Bool.and_eq_true] at hok
      rcases List.mem_cons.1 hm with rfl | hm
      · have h1 := hok.1
        simp only [moduleOK, Bool.and_eq_true, List.all_eq_true, nodupB_iff] at h1
        refine ⟨h1.1.2, ?_⟩
        intro s hs x hx
        exact ((h1.2 s hs).2 x hx).1.2
      · exact ih _ hok.2 mod hm
  exact key v.modules [] hmods

/-- apart from the two named side conditions, `wfir` is exactly the domain on which
save-then-load reproduces the IR -/
theorem C01_wfir_iff (v : IRV) (hside : NoIntervalBlockClash v) (hkeys : MapKeysDistinct v) :
    fromMsg (toMsg v) = .ok v ↔ wfir v = true :=
  ⟨fun h => C17_accepted_wfir_partial (toMsg v) v h hside hkeys, C01_roundtrip v⟩

/-- the same without hypotheses: the side conditions are themselves consequences of `wfir` -/
theorem C01_wfir_iff' (v : IRV) :
    wfir v = true ↔
      (fromMsg (toMsg v) = .ok v ∧ NoIntervalBlockClash v ∧ MapKeysDistinct v) :=
  ⟨fun h => ⟨C01_roundtrip v h, wfir_noClash h, wfir_keysDistinct h⟩,
   fun h => (C01_wfir_iff v h.2.1 h.2.2).1 h.1⟩

/-- non-vacuity, both ways -/
example : fromMsg (toMsg exIR) = .ok exIR ∧ NoIntervalBlockClash exIR ∧ MapKeysDistinct exIR :=
  (C01_wfir_iff' exIR).1 (by decide)
example : ¬ (fromMsg (toMsg exDangling) = .ok exDangling) := by
  intro h
  have hw : wfir exDangling = true :=
    (C01_wfir_iff exDangling (by decide) (by decide)).1 h
  exact absurd hw (by decide)

/-! ### AuxData tables and decoded values -/

/-- whatever the reader makes of what the writer emitted, the AuxData tables (IR level
and per module, in order) come back entry for entry: key, type name and bytes. No
self-containedness is needed. -/
theorem C01_aux_tables (v v' : IRV) (hl : fromMsg (toMsg v) = .ok v') :
    v'.aux = v.aux ∧ v'.modules.map (·.aux) = v.modules.map (·.aux)
      ∧ v'.modules.map (·.uuid) = v.modules.map (·.uuid) := by
  obtain ⟨_, _, _, _, h5, _, h7, _⟩ := fromMsg_ok hl
  refine ⟨by rw [h5]; exact decodeAux_toMsg v.aux, ?_⟩
  have hm : (toMsg v).modules = v.modules.map moduleToMsg := rfl
  rw [hm] at h7
  generalize v'.modules = l' at h7
  generalize v.modules = l at h7
  induction l generalizing l' with
  | nil => cases h7; exact ⟨rfl, rfl⟩
  | cons m ms ih =>
    cases h7 with
    | cons hr hrest =>
      obtain ⟨e, hr⟩ := hr
      obtain ⟨i1, i2⟩ := ih _ hrest
      have ha := hr.2.2.2.2.2.2.2.2.2.2.1
      have hu := hr.1
      simp only [List.map_cons, i1, i2, ha, hu]
      exact ⟨by rw [show (moduleToMsg m).auxData = m.aux.map auxToMsg from rfl, decodeAux_toMsg], rfl⟩

/-- the decoded *value* of an IR-level AuxData entry survives save-then-load: if `x` is a
value of type `t` (`hasType`) whose encoding is the stored bytes, then the loaded IR has
an entry with the same key and type name whose bytes decode to `x` (all bytes consumed) -/
theorem C01_aux_values (lookup : Bytes → Option Nat) (nodeUuid : Nat → Bytes)
    (t : Codec.Ty) (x : Codec.Val) (ht : Codec.hasType lookup nodeUuid t x = true)
    (v v' : IRV) (a : AuxV) (ha : a ∈ v.aux) (henc : Codec.encode nodeUuid t x = some a.data)
    (hl : fromMsg (toMsg v) = .ok v') :
    ∃ a' ∈ v'.aux, a'.key = a.key ∧ a'.typeName = a.typeName
      ∧ Codec.decode lookup t a'.data = .ok (x, []) := by
  obtain ⟨bs, hb, hd⟩ := Codec.C07_roundtrip lookup nodeUuid t x ht
  rw [henc] at hb
  cases hb
  refine ⟨a, (C01_aux_tables v v' hl).1 ▸ ha, rfl, rfl, ?_⟩
  simpa using hd []

/-- the module-level twin: the module is found again by its UUID at the same position -/
theorem C01_aux_values_module (lookup : Bytes → Option Nat) (nodeUuid : Nat → Bytes)
    (t : Codec.Ty) (x : Codec.Val) (ht : Codec.hasType lookup nodeUuid t x = true)
    (v v' : IRV) (mod : ModuleV) (hmod : mod ∈ v.modules) (a : AuxV) (ha : a ∈ mod.aux)
    (henc : Codec.encode nodeUuid t x = some a.data)
    (hl : fromMsg (toMsg v) = .ok v') :
    ∃ mod' ∈ v'.modules, mod'.uuid = mod.uuid ∧ ∃ a' ∈ mod'.aux, a'.key = a.key
      ∧ a'.typeName = a.typeName ∧ Codec.decode lookup t a'.data = .ok (x, []) := by
  obtain ⟨bs, hb, hd⟩ := Codec.C07_roundtrip lookup nodeUuid t x ht
  rw [henc] at hb
  cases hb
  obtain ⟨_, h2, h3⟩ := C01_aux_tables v v' hl
  obtain ⟨i, hi, rfl⟩ := List.getElem_of_mem hmod
  have hlen : v'.modules.length = v.modules.length := by
    simpa using congrArg List.length h2
  have hi' : i < v'.modules.length := hlen ▸ hi
  have e2 : v'.modules[i].aux = v.modules[i].aux := by
    have := congrArg (fun l => l[i]?) h2
    simpa [hi, hi'] using this
  have e3 : v'.modules[i].uuid = v.modules[i].uuid := by
    have := congrArg (fun l => l[i]?) h3
    simpa [hi, hi'] using this
  exact ⟨v'.modules[i], List.getElem_mem hi', e3, a, e2 ▸ ha, rfl, rfl, by simpa using hd []⟩

/-- non-vacuity: `exIR`'s module table `k1 : mapping<UUID,uint64_t>` holds the encoding of
the empty mapping; it comes back as the empty mapping -/
example : ∃ mod' ∈ exIR.modules, mod'.uuid = exU 2 ∧ ∃ a' ∈ mod'.aux, a'.key = "k1"
    ∧ a'.typeName = "mapping<UUID,uint64_t>"
    ∧ Codec.decode Codec.exLookup (.map (.leaf .uuid) (.leaf .u64)) a'.data = .ok (.map [] [], []) :=
  C01_aux_values_module Codec.exLookup Codec.exNodeUuid (.map (.leaf .uuid) (.leaf .u64)) (.map [] [])
    (by decide) exIR exIR _ (List.mem_cons_self) ⟨"k1", "mapping<UUID,uint64_t>", [0, 0, 0, 0, 0, 0, 0, 0]⟩
    (by simp) (by decide) (C01_roundtrip exIR (by decide))

/-- an IR-level table `n : int32_t` holding -5 -/
def exAuxIR : IRV := { exIR with aux := [⟨"n", "int32_t", [0xfb, 0xff, 0xff, 0xff]⟩] }

example : ∃ a' ∈ exAuxIR.aux, a'.key = "n" ∧ a'.typeName = "int32_t"
    ∧ Codec.decode Codec.exLookup (.leaf .i32) a'.data = .ok (.int (-5), []) :=
  C01_aux_values Codec.exLookup Codec.exNodeUuid (.leaf .i32) (.int (-5)) (by decide) exAuxIR exAuxIR
    ⟨"n", "int32_t", [0xfb, 0xff, 0xff, 0xff]⟩ (by simp [exAuxIR]) (by decide)
    (C01_roundtrip exAuxIR (by decide))

end Gtirb.Msg
