import GtirbProofs.Lemmas.Codec
/-! C07: AuxData values of every supported type survive encode-then-decode.

`hasType lookup nodeUuid t v` (GtirbModel/CodecTyping.lean) is the value set of
the type `t`: integers in range, float bit patterns of the right width, strings
whose UTF-8 length fits a uint64, UUID-typed elements that are either a plain
16-byte UUID naming no node of the IR or a node whose uuid the lookup table
maps back to it, sets/mapping keys pairwise distinct under Python `==`,
tuples of the right arity, variants with an index in range.
The proof (mutual induction over `Ty`/`List Ty`) is `roundtrip` in
`GtirbProofs/Lemmas/Codec.lean`. -/
namespace Gtirb.Codec

/-- Every value of every supported type survives encode-then-decode, and the
decoder consumes exactly the bytes the encoder produced (`rest` is returned
untouched). -/
theorem C07_roundtrip (lookup : Bytes → Option Nat) (nodeUuid : Nat → Bytes) (t : Ty) (v : Val)
    (h : hasType lookup nodeUuid t v = true) :
    ∃ bs, encode nodeUuid t v = some bs ∧ ∀ rest, decode lookup t (bs ++ rest) = .ok (v, rest) :=
  roundtrip lookup nodeUuid t v h

/-- the encoder accepts every value of the type -/
theorem C07_encode_total (lookup : Bytes → Option Nat) (nodeUuid : Nat → Bytes) (t : Ty) (v : Val)
    (h : hasType lookup nodeUuid t v = true) :
    (encode nodeUuid t v).isSome = true := by
  obtain ⟨bs, hb, _⟩ := C07_roundtrip lookup nodeUuid t v h
  simp [hb]

/-- a UUID naming a node of the IR comes back as that node ... -/
theorem C07_uuid_resolution_node (lookup : Bytes → Option Nat) (u : Bytes) (id : Nat)
    (rest : Bytes) (hu : u.length = 16) (hl : lookup u = some id) :
    decode lookup (.leaf .uuid) (u ++ rest) = .ok (.node id, rest) := by
  simp [decode, decodeLeaf, decodeElem, splitAt?_append 16 u rest hu, hl]

/-- ... and any other UUID as a plain UUID -/
theorem C07_uuid_resolution_plain (lookup : Bytes → Option Nat) (u : Bytes)
    (rest : Bytes) (hu : u.length = 16) (hl : lookup u = none) :
    decode lookup (.leaf .uuid) (u ++ rest) = .ok (.uuid u, rest) := by
  simp [decode, decodeLeaf, decodeElem, splitAt?_append 16 u rest hu, hl]

/-- an Offset whose element id names a node of the IR comes back holding that node ... -/
theorem C07_offset_resolution_node (lookup : Bytes → Option Nat) (u : Bytes) (id d : Nat)
    (rest : Bytes) (hu : u.length = 16) (hd : d < 2 ^ 64) (hl : lookup u = some id) :
    decode lookup (.leaf .offset) (u ++ leBytes 8 d ++ rest) = .ok (.offset (.node id) d, rest) := by
  simp [decode, decodeLeaf, decodeElem, List.append_assoc,
    splitAt?_append 16 u (leBytes 8 d ++ rest) hu, hl,
    splitAt?_append 8 (leBytes 8 d) rest (leBytes_length 8 d),
    leNat_leBytes_of_lt 8 d (by simpa using hd)]

/-- ... and any other element id as a plain UUID -/
theorem C07_offset_resolution_plain (lookup : Bytes → Option Nat) (u : Bytes) (d : Nat)
    (rest : Bytes) (hu : u.length = 16) (hd : d < 2 ^ 64) (hl : lookup u = none) :
    decode lookup (.leaf .offset) (u ++ leBytes 8 d ++ rest) = .ok (.offset (.uuid u) d, rest) := by
  simp [decode, decodeLeaf, decodeElem, List.append_assoc,
    splitAt?_append 16 u (leBytes 8 d ++ rest) hu, hl,
    splitAt?_append 8 (leBytes 8 d) rest (leBytes_length 8 d),
    leNat_leBytes_of_lt 8 d (by simpa using hd)]

/-! ### the hypothesis is met by non-trivial values (non-vacuity) -/

section Examples

/-- an IR with two nodes, whose uuids are 16 bytes `01` and 16 bytes `02` -/
def exNodeUuid (id : Nat) : Bytes := List.replicate 16 (UInt8.ofNat id)
def exLookup (u : Bytes) : Option Nat :=
  if u = List.replicate 16 1 then some 1 else if u = List.replicate 16 2 then some 2 else none

/-- a negative `int32_t`, the extremes of `int8_t`, and the top of `uint64_t` -/
example : hasType exLookup exNodeUuid (.leaf .i32) (.int (-5)) = true := by decide
example : hasType exLookup exNodeUuid (.seq (.leaf .i8)) (.seq [.int (-128), .int 127]) = true := by
  decide
example : hasType exLookup exNodeUuid (.leaf .u64) (.int 18446744073709551615) = true := by decide
/-- out-of-range values are *not* in the type (the predicate is not trivially true) -/
example : hasType exLookup exNodeUuid (.leaf .i8) (.int 128) = false := by decide
example : hasType exLookup exNodeUuid (.set (.leaf .i32)) (.set [.int 1, .int 1]) = false := by decide
/-- a plain UUID that names a node is not a value (it would come back as the node) -/
example : hasType exLookup exNodeUuid (.leaf .uuid) (.uuid (List.replicate 16 1)) = false := by decide

/-- `mapping<UUID,set<int32_t>>` with a node key and a plain-UUID key -/
example : hasType exLookup exNodeUuid (.map (.leaf .uuid) (.set (.leaf .i32)))
    (.map [.node 1, .uuid (List.replicate 16 7)] [.set [.int (-5), .int 3], .set []]) = true := by
  decide

/-- `sequence<tuple<Offset,variant<bool,tuple<double,Addr>>>>`: nested tuple and variant -/
example : hasType exLookup exNodeUuid
    (.seq (.tuple [.leaf .offset, .variant [.leaf .bool, .tuple [.leaf .f64, .leaf .addr]]]))
    (.seq [.tuple [.offset (.node 2) 40, .variant 1 (.tuple [.f64 0x7ff8000000000000, .int 4096])],
           .tuple [.offset (.uuid (List.replicate 16 9)) 0, .variant 0 (.bool true)]]) = true := by
  decide

/-- a set holding two NaNs with the same bit pattern (NaN ≠ NaN in Python) -/
example : hasType exLookup exNodeUuid (.set (.leaf .f32)) (.set [.f32 0x7fc00000, .f32 0x7fc00000])
    = true := by decide

/-- a non-ASCII string (6 UTF-8 bytes for 5 characters), alone and as a mapping key -/
example : hasType exLookup exNodeUuid (.leaf .string) (.str "héllo") = true := by
  simp only [hasType, leafHasType, utf8_length_eq, decide_eq_true_eq]
  decide
example : hasType exLookup exNodeUuid (.map (.leaf .string) (.leaf .u8))
    (.map [.str "héllo", .str "日本"] [.int 1, .int 255]) = true := by
  simp only [hasType, leafHasType, allMany, utf8_length_eq, Bool.and_eq_true, decide_eq_true_eq]
  decide

/-- the theorem applied: the wire bytes of a concrete mapping and their decoding -/
example : encode exNodeUuid (.map (.leaf .uuid) (.seq (.leaf .i16)))
    (.map [.node 1] [.seq [.int (-2)]]) =
    some ([1, 0, 0, 0, 0, 0, 0, 0] ++ List.replicate 16 1 ++ [1, 0, 0, 0, 0, 0, 0, 0, 0xfe, 0xff]) := by
  decide
example (rest : Bytes) : decode exLookup (.map (.leaf .uuid) (.seq (.leaf .i16)))
    ([1, 0, 0, 0, 0, 0, 0, 0] ++ List.replicate 16 1 ++ [1, 0, 0, 0, 0, 0, 0, 0, 0xfe, 0xff] ++ rest)
    = .ok (.map [.node 1] [.seq [.int (-2)]], rest) := by
  obtain ⟨bs, hb, hd⟩ := C07_roundtrip exLookup exNodeUuid (.map (.leaf .uuid) (.seq (.leaf .i16)))
    (.map [.node 1] [.seq [.int (-2)]]) (by decide)
  have : bs = [1, 0, 0, 0, 0, 0, 0, 0] ++ List.replicate 16 1 ++
      [1, 0, 0, 0, 0, 0, 0, 0, 0xfe, 0xff] := by
    have e : encode exNodeUuid (.map (.leaf .uuid) (.seq (.leaf .i16)))
        (.map [.node 1] [.seq [.int (-2)]]) = some ([1, 0, 0, 0, 0, 0, 0, 0] ++
          List.replicate 16 1 ++ [1, 0, 0, 0, 0, 0, 0, 0, 0xfe, 0xff]) := by decide
    rw [e] at hb
    exact (Option.some.inj hb).symm
  subst this
  exact hd rest

end Examples

end Gtirb.Codec
