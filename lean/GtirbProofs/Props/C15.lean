import GtirbModel.TypeName
namespace Gtirb.TypeName
end Gtirb.TypeName
