import GtirbProofs.Props.C17
import GtirbProofs.Props.C02Accepts
/-! C17, lifted from messages to *byte strings* (review `msg`, C17 proposals 2 and 3).

The `C17_accepted_*` theorems of Props/C17.lean talk about `fromMsg m`. The property talks
about files. `C17_accepted_bytes_inv` inverts `loadBytes`: whatever byte string is accepted,
with whatever `parse` (protobuf's `ParseFromString`, opaque), has the 8-byte header and its
remainder parses to a message the value-level reader accepts with the same result. So
every guarantee about accepted messages is a guarantee about accepted files
(`C17_accepted_lift` and the restated corollaries `C17_accepted_*_bytes`).

`C17_accepted_enums(_bytes)`: every enum number of an accepted IR is a member of its Python
enum (ISA, FileFormat, ByteOrder, DecodeMode, SectionFlag, EdgeType), without side
conditions. -/
namespace Gtirb.Msg
open Gtirb

/-! ### inversion of `loadBytes` -/

/-- what an accepted byte string looks like: magic, two arbitrary bytes, the version byte,
and a remainder that parses to an accepted message -/
theorem C17_accepted_bytes_inv (parse : Bytes → Option MIR) (bs : Bytes) (v : IRV)
    (h : loadBytes parse bs = .ok v) :
    bs.take 5 = Generated.magic ∧ (bs.drop 7).take 1 = [UInt8.ofNat Generated.protobufVersion]
      ∧ ∃ m, parse (bs.drop 8) = some m ∧ fromMsg m = .ok v := by
  unfold loadBytes at h
  split at h
  · cases h
  · next h1 =>
    split at h
    · cases h
    · next h2 =>
      split at h
      · cases h
      · next m hp =>
        split at h
        · next v' hm =>
          cases h
          exact ⟨Classical.not_not.1 h1, Classical.not_not.1 h2, m, hp, hm⟩
        · cases h

/-- the same with the file written out: `bs = magic ++ [a, b, version] ++ rest` -/
theorem C17_accepted_bytes_shape (parse : Bytes → Option MIR) (bs : Bytes) (v : IRV)
    (h : loadBytes parse bs = .ok v) :
    ∃ a b rest m, bs = Generated.magic ++ [a, b, UInt8.ofNat Generated.protobufVersion] ++ rest
      ∧ parse rest = some m ∧ fromMsg m = .ok v := by
  obtain ⟨h1, h2, m, hp, hm⟩ := C17_accepted_bytes_inv parse bs v h
  rcases bs with _ | ⟨b0, _ | ⟨b1, _ | ⟨b2, _ | ⟨b3, _ | ⟨b4, _ | ⟨b5, _ | ⟨b6, _ | ⟨b7, rest⟩⟩⟩⟩⟩⟩⟩⟩
  all_goals try (simp [Generated.magic] at h1; done)
  all_goals try (simp at h2; done)
  simp only [List.take_succ_cons, List.take_zero, Generated.magic, List.cons.injEq, and_true] at h1
  simp only [List.drop_succ_cons, List.drop_zero, List.take_succ_cons, List.take_zero,
    List.cons.injEq, and_true] at h2
  obtain ⟨rfl, rfl, rfl, rfl, rfl⟩ := h1
  subst h2
  exact ⟨b5, b6, rest, m, rfl, hp, hm⟩

/-- and conversely: the three conditions are exactly acceptance -/
theorem C17_accepted_bytes_iff (parse : Bytes → Option MIR) (bs : Bytes) (v : IRV) :
    loadBytes parse bs = .ok v ↔
      (bs.take 5 = Generated.magic ∧ (bs.drop 7).take 1 = [UInt8.ofNat Generated.protobufVersion]
        ∧ ∃ m, parse (bs.drop 8) = some m ∧ fromMsg m = .ok v) := by
  constructor
  · exact C17_accepted_bytes_inv parse bs v
  · rintro ⟨h1, h2, m, hp, hm⟩
    unfold loadBytes
    simp only [h1, h2, ne_eq, not_true_eq_false, if_false, hp, hm]

/-- every property of IRs accepted from a *message* is a property of IRs accepted from a
*byte string*, whatever `parse` is -/
theorem C17_accepted_lift (P : IRV → Prop) (hP : ∀ m v, fromMsg m = .ok v → P v)
    (parse : Bytes → Option MIR) (bs : Bytes) (v : IRV) (h : loadBytes parse bs = .ok v) : P v := by
  obtain ⟨_, _, m, _, hm⟩ := C17_accepted_bytes_inv parse bs v h
  exact hP m v hm

/-! ### enum numbers of an accepted IR -/

/-- every enum number of an accepted IR is a member of its Python enum: ISA, FileFormat,
ByteOrder per module, DecodeMode per code block, SectionFlag per section, EdgeType per
labelled edge. No side conditions. -/
theorem C17_accepted_enums (m : MIR) (v : IRV) (h : fromMsg m = .ok v) :
    (∀ mod ∈ v.modules,
      pyEnumHas "ISA" mod.isa = true ∧ pyEnumHas "FileFormat" mod.fileFormat = true
      ∧ pyEnumHas "ByteOrder" mod.byteOrder = true
      ∧ ∀ s ∈ mod.sections, (∀ f ∈ s.flags, pyEnumHas "SectionFlag" f = true) ∧
          ∀ x ∈ s.intervals, ∀ b ∈ x.blocks,
            match b with
            | .code _ _ _ dm => pyEnumHas "DecodeMode" dm = true
            | .data _ _ _ => True)
    ∧ (∀ e ∈ v.edges, ∀ l, e.label = some l → pyEnumHas "EdgeType" l.type = true) := by
  obtain ⟨_, _, _, _, _, _, h7, h8⟩ := fromMsg_ok h
  refine ⟨?_, fun e he => (h8 e he).2.2⟩
  intro mv hmv
  obtain ⟨mm, _, env, hr⟩ := h7.mem_left hmv
  have hgood := hr.sectionsGood
  have hen := hr.2.2.2.2.2.2.2.2.2.2.2.1
  refine ⟨hen.1, hen.2.1, hen.2.2, ?_⟩
  intro s hs
  refine ⟨((C17_accepted_sets m v h).2 mv hmv s hs).2.1, ?_⟩
  intro x hx b hb
  have := ((hgood s hs).2 x hx).2.2.2 b hb
  cases b with
  | code _ _ _ _ => exact this
  | data _ _ _ => trivial

/-! ### the `C17_accepted_*` theorems over byte strings -/

theorem C17_accepted_wf_bytes (parse : Bytes → Option MIR) (bs : Bytes) (v : IRV)
    (h : loadBytes parse bs = .ok v) :
    (∀ u ∈ v.nodeUuids, u.length = 16) ∧ v.version = Generated.protobufVersion ∧
    (∀ mod ∈ v.modules, ∀ s ∈ mod.sections, ∀ x ∈ s.intervals, x.contents.length ≤ x.size) :=
  C17_accepted_lift _ C17_accepted_wf_partial parse bs v h

theorem C17_accepted_refs_bytes (parse : Bytes → Option MIR) (bs : Bytes) (v : IRV)
    (h : loadBytes parse bs = .ok v) :
    (∀ pre mod post, v.modules = pre ++ mod :: post →
      (∀ u, mod.entryPoint = some u → u ∈ pre.flatMap (·.codeUuids) ++ mod.codeUuids)
      ∧ (∀ s ∈ mod.symbols, ∀ u, s.payload = .referent u →
          u ∈ pre.flatMap (·.blockUuids) ++ mod.blockUuids)
      ∧ (∀ s ∈ mod.sections, ∀ x ∈ s.intervals, ∀ e ∈ x.exprs, ∀ u ∈ exprSyms e.expr,
          u ∈ (pre.flatMap fun e => e.symbols.map (·.uuid)) ++ mod.symbols.map (·.uuid)))
    ∧ (∀ e ∈ v.edges,
        e.src ∈ (v.modules.flatMap fun m => m.codeUuids ++ m.proxies)
        ∧ e.dst ∈ (v.modules.flatMap fun m => m.codeUuids ++ m.proxies)
        ∧ (∀ l, e.label = some l → pyEnumHas "EdgeType" l.type = true)) :=
  C17_accepted_lift _ C17_accepted_refs parse bs v h

theorem C17_accepted_sets_bytes (parse : Bytes → Option MIR) (bs : Bytes) (v : IRV)
    (h : loadBytes parse bs = .ok v) :
    v.edges.Nodup
    ∧ (∀ mod ∈ v.modules, ∀ s ∈ mod.sections, s.flags.Nodup ∧
        (∀ f ∈ s.flags, pyEnumHas "SectionFlag" f = true) ∧
        ∀ x ∈ s.intervals, ∀ e ∈ x.exprs, e.attrs.Nodup) :=
  C17_accepted_lift _ C17_accepted_sets parse bs v h

theorem C17_accepted_enums_bytes (parse : Bytes → Option MIR) (bs : Bytes) (v : IRV)
    (h : loadBytes parse bs = .ok v) :
    (∀ mod ∈ v.modules,
      pyEnumHas "ISA" mod.isa = true ∧ pyEnumHas "FileFormat" mod.fileFormat = true
      ∧ pyEnumHas "ByteOrder" mod.byteOrder = true
      ∧ ∀ s ∈ mod.sections, (∀ f ∈ s.flags, pyEnumHas "SectionFlag" f = true) ∧
          ∀ x ∈ s.intervals, ∀ b ∈ x.blocks,
            match b with
            | .code _ _ _ dm => pyEnumHas "DecodeMode" dm = true
            | .data _ _ _ => True)
    ∧ (∀ e ∈ v.edges, ∀ l, e.label = some l → pyEnumHas "EdgeType" l.type = true) :=
  C17_accepted_lift _ C17_accepted_enums parse bs v h

/-- node UUIDs of an IR accepted from a byte string are pairwise distinct, with the one
exception the staged reader lets through excluded (see `C17_accepted_nodup_partial`) -/
theorem C17_accepted_nodup_bytes_partial (parse : Bytes → Option MIR) (bs : Bytes) (v : IRV)
    (h : loadBytes parse bs = .ok v)
    (hside : ∀ mod ∈ v.modules, ∀ s ∈ mod.sections, ∀ x ∈ s.intervals, x.uuid ∉ x.blockUuids) :
    v.nodeUuids.Nodup :=
  C17_accepted_lift (fun v => (∀ mod ∈ v.modules, ∀ s ∈ mod.sections, ∀ x ∈ s.intervals,
      x.uuid ∉ x.blockUuids) → v.nodeUuids.Nodup) C17_accepted_nodup_partial parse bs v h hside

theorem C17_accepted_wfir_bytes_partial (parse : Bytes → Option MIR) (bs : Bytes) (v : IRV)
    (h : loadBytes parse bs = .ok v)
    (hside : ∀ mod ∈ v.modules, ∀ s ∈ mod.sections, ∀ x ∈ s.intervals, x.uuid ∉ x.blockUuids)
    (hkeys : (v.aux.map (·.key)).Nodup ∧ ∀ mod ∈ v.modules, (mod.aux.map (·.key)).Nodup ∧
      ∀ s ∈ mod.sections, ∀ x ∈ s.intervals, (x.exprs.map (·.key)).Nodup) :
    wfir v = true := by
  obtain ⟨_, _, m, _, hm⟩ := C17_accepted_bytes_inv parse bs v h
  exact C17_accepted_wfir_partial m v hm hside hkeys

/-- "the IR can be saved again": what was accepted from a byte string, saved with any
serializer that `parse` inverts, is accepted again and reproduces itself -/
theorem C17_accepted_reload_bytes_partial (serialize : MIR → Bytes) (parse : Bytes → Option MIR)
    (hps : ∀ m, parse (serialize m) = some m) (bs : Bytes) (v : IRV)
    (h : loadBytes parse bs = .ok v)
    (hside : ∀ mod ∈ v.modules, ∀ s ∈ mod.sections, ∀ x ∈ s.intervals, x.uuid ∉ x.blockUuids)
    (hkeys : (v.aux.map (·.key)).Nodup ∧ ∀ mod ∈ v.modules, (mod.aux.map (·.key)).Nodup ∧
      ∀ s ∈ mod.sections, ∀ x ∈ s.intervals, (x.exprs.map (·.key)).Nodup) :
    loadBytes parse (saveBytes serialize v) = .ok v :=
  loadBytes_ok (hps _)
    (fromMsg_toMsg_of_wfir v (C17_accepted_wfir_bytes_partial parse bs v h hside hkeys))

/-! ### non-vacuity -/

section Examples

/-- a toy wire format: the remainder `[k]` parses to `dupMsg` for `k = 7`, nothing else parses -/
def exParse (bs : Bytes) : Option MIR := if bs = [7] then some dupMsg else none

/-- a 9-byte file with non-zero reserved bytes -/
def exFile : Bytes := [71, 84, 73, 82, 66, 0xAA, 0xBB, 4, 7]

example : ∃ v, loadBytes exParse exFile = .ok v := ⟨_, rfl⟩

example : ∃ v, loadBytes exParse exFile = .ok v ∧ fromMsg dupMsg = .ok v
    ∧ (∀ u ∈ v.nodeUuids, u.length = 16) := by
  refine ⟨_, rfl, rfl, ?_⟩
  exact (C17_accepted_wf_bytes exParse exFile _ rfl).1

example : ∃ a b rest m, exFile = Generated.magic ++ [a, b, UInt8.ofNat Generated.protobufVersion] ++ rest
    ∧ exParse rest = some m ∧ ∃ v, fromMsg m = .ok v := by
  obtain ⟨a, b, rest, m, h1, h2, h3⟩ := C17_accepted_bytes_shape exParse exFile _ rfl
  exact ⟨a, b, rest, m, h1, h2, _, h3⟩

/-- the enum theorem applied to `exClosedMsg` (two modules, code block with decode mode 1,
flags 1 and 3, labelled edges of types 0 and 5) -/
example : ∃ v, fromMsg exClosedMsg = .ok v ∧ v.modules.length = 2
    ∧ (∀ mod ∈ v.modules, pyEnumHas "ISA" mod.isa = true)
    ∧ (∀ e ∈ v.edges, ∀ l, e.label = some l → pyEnumHas "EdgeType" l.type = true) := by
  obtain ⟨v, hv⟩ := C02_reader_accepts exClosedMsg (by decide)
  have := C17_accepted_enums _ _ hv
  exact ⟨v, hv, by rw [(C02_reader_ir _ _ hv).2.2.1]; rfl, fun mod hm => (this.1 mod hm).1, this.2⟩

end Examples

end Gtirb.Msg
