import GtirbModel.LoaderX
import GtirbProofs.Lemmas.LoaderXProofs
import GtirbProofs.Props.C17Loader
import GtirbProofs.Props.C03Load
import GtirbProofs.Props.C01Link
import GtirbProofs.Props.C09Identity
/-! Property C17 on the staged decoder with the symbolic-expression pass as the code runs it
(`GtirbModel/LoaderX.lean`, `loadX`): at the end of `Module._decode_protobuf` the loader walks the interval
*objects* under the module and lets each one resolve the symbols of the message it was created from
(`_proto_interval`); `Loader.load` checks one flat list per module *message* instead.

1. **Projection** (`C17_loadX_load`): whatever `loadX` accepts, `load` accepts on the same skeleton with
   the expression symbols erased (`XIR.core`), with the same resulting state. Hence every theorem about
   accepted loads transfers: `C17_loadX_coherent`, `C17_loadX_all_attached`, `C17_loadX_referents`,
   `C17_loadX_edges`, `C03_loadX`.
2. **Agreement** where the two models should agree (`C17_loadX_agrees`, `C17_loadX_agrees_of_miss`): when no
   table lookup hits - in particular for pairwise distinct node UUIDs, and for every message the value-level
   reader accepts - `loadX g mx = liftR (load g mx.flat)`: same state when accepted, same error otherwise, no
   `AttributeError`. Hence the value-level link carries over: `C01_skelOfX_flat`, `C01_linkX_accepts`,
   `C01_linkX_shape`.
3. **The difference, decided**: `C17_loadX_skipped_example` (accepted by `loadX` = by the code, rejected by
   `load` on the flat skeleton), `C17_loadX_attribute_example` (`AttributeError`).
4. **What the pass resolved** (`loadXR`, `C17_loadXR_loadX`, `C17_loadXR_sound`): every symbol UUID the pass
   checked resolved to a symbol node created by this load and attached to the loaded IR, for an interval node
   created by this load from the interval message that lists the UUID. -/
namespace Gtirb.Loader
open Gtirb.Forest

/-! ### 1. projection -/

/-- the skeleton `loadX` projects to carries no expression symbols: its `checkAll` is vacuous -/
theorem XIR.core_exprSyms (mx : XIR) : ∀ md, md ∈ mx.core.modules → md.exprSyms = [] := by
  intro md hmd
  obtain ⟨m, _, rfl⟩ := List.mem_map.1 hmd
  rfl

/-- **projection**: an accepted `loadX` is an accepted `load` of the skeleton without expression symbols,
with the same state and the same IR node -/
theorem C17_loadX_load (g g' : G) (mx : XIR) (ir : Nat) (hl : loadX g mx = .ok (g', ir)) :
    load g mx.core = .ok (g', ir) := loadX_ok_load hl

/-- the loaded IR is coherent, whatever the message (duplicates included), in any process state -/
theorem C17_loadX_coherent (g g' : G) (mx : XIR) (ir : Nat) (hf : ForestInv g)
    (hl : loadX g mx = .ok (g', ir)) :
    ir = g.n ∧ g'.kind ir = .ir ∧ ForestInv g' ∧ CacheCoherent g' ir ∧
    -- frame: nothing that existed before is touched, and no other IR's table changes
    (∀ x, x < g.n → g'.par x = g.par x ∧ g'.kind x = g.kind x ∧ g'.uuid x = g.uuid x ∧
      ∀ s, g'.kids x s = g.kids x s) ∧
    (∀ j, j ≠ ir → ∀ u, g'.cache j u = g.cache j u) :=
  C17_load_coherent' g g' mx.core ir hf (loadX_ok_load hl)

/-- fully linked: every node the load created is attached to the new IR -/
theorem C17_loadX_all_attached (g g' : G) (mx : XIR) (ir : Nat) (hf : ForestInv g)
    (hl : loadX g mx = .ok (g', ir)) : ∀ x, g.n ≤ x → x < g'.n → irOf g' x = some ir :=
  C17_load_all_attached g g' mx.core ir hf (loadX_ok_load hl)

/-- typed references: every symbol of the new IR with a referent refers to a block/proxy node that is
attached to the new IR -/
theorem C17_loadX_referents (g g' : G) (mx : XIR) (ir : Nat) (hf : ForestInv g)
    (hl : loadX g mx = .ok (g', ir)) :
    ∀ y, g.n ≤ y → y < g'.n → g'.kind y = .symbol → ∀ b, g'.payload y = .block b →
      (g'.kind b = .code ∨ g'.kind b = .data ∨ g'.kind b = .proxy) ∧ irOf g' b = some ir :=
  C17_load_referents g g' mx.core ir hf (loadX_ok_load hl)

/-- the CFG check, in the final state -/
theorem C17_loadX_edges (g g' : G) (mx : XIR) (ir : Nat) (hf : ForestInv g)
    (hl : loadX g mx = .ok (g', ir)) :
    ∀ e, e ∈ mx.edges → ∀ u, u ∈ [e.1, e.2] →
      ∃ n, g'.cache ir u = some n ∧ (g'.kind n = .code ∨ g'.kind n = .proxy) ∧ irOf g' n = some ir ∧
        g'.uuid n = u :=
  C17_load_edges g g' mx.core ir hf (loadX_ok_load hl)

/-- C03 for loaded IRs (`C03_load`): a message with pairwise distinct node UUIDs, loaded into a state
satisfying the invariants, gives a state satisfying them - for all IRs of the process -/
theorem C03_loadX (g g' : G) (mx : XIR) (ir : Nat) (hf : ForestInv g) (hc : CacheInv g)
    (hl : loadX g mx = .ok (g', ir)) (hnd : mx.core.nodeUuids.Nodup) :
    ForestInv g' ∧ CacheInv g' ∧ (Distinct g → Distinct g') ∧ (IndexInv g → IndexInv g') :=
  C03_load g g' mx.core ir hf hc (loadX_ok_load hl) hnd

/-! ### 3. the difference, decided -/

inductive Outcome where
  | ok | deser | forest | attribute
  deriving DecidableEq, Repr

def outcomeX (r : Except XErr (G × Nat)) : Outcome :=
  match r with
  | .ok _ => .ok
  | .error (.core .deser) => .deser
  | .error (.core (.forest _)) => .forest
  | .error .attribute => .attribute

def outcome (r : Except LErr (G × Nat)) : Outcome :=
  match r with
  | .ok _ => .ok
  | .error .deser => .deser
  | .error (.forest _) => .forest

def coreResult (r : Except XErr (G × Nat)) : Except LErr (G × Nat) :=
  match r with
  | .ok x => .ok x
  | .error (.core e) => .error e
  | .error .attribute => .error .deser

/-- two modules; the section message of the second one re-uses the UUID (3) of the (empty) section of
the first one and contains an interval message whose expression mentions UUID 99, which names nothing -/
def xSkipped : XIR :=
  { uuid := 1, edges := [],
    modules := [{ uuid := 2, proxies := [], symbols := [], entry := none,
                  sections := [{ uuid := 3, intervals := [] }] },
                { uuid := 5, proxies := [], symbols := [], entry := none,
                  sections := [{ uuid := 3, intervals := [{ core := { uuid := 6, blocks := [] }, exprSyms := [99] }] }] }] }

/-- the code (and `loadX`) accepts `xSkipped`: section node 2 is re-used and moved to module 2 (node 3), the
message of the re-used section - its interval 6 with the dangling symbol 99 included - is never looked at, no
node is created for it. The old model `load` on the flat skeleton checks 99 and raises
`DeserializationError`. -/
theorem C17_loadX_skipped_example :
    loadSummary (coreResult (loadX {} xSkipped)) 6 =
      some ⟨0, 4, none, [.ir, .module, .section, .module], [1, 2, 3, 5], [none, some 0, some 3, some 0], [1, 3]⟩ ∧
    outcomeX (loadX {} xSkipped) = .ok ∧
    xSkipped.flat.modules.map (·.exprSyms) = [[], [99]] ∧
    outcome (load {} xSkipped.flat) = .deser := by decide

/-- the same inside one module: the section (3) listed twice -/
def xSkippedTwice : XIR :=
  { uuid := 1, edges := [],
    modules := [{ uuid := 2, proxies := [], symbols := [], entry := none,
                  sections := [{ uuid := 3, intervals := [{ core := { uuid := 4, blocks := [] }, exprSyms := [] }] },
                               { uuid := 3, intervals := [{ core := { uuid := 6, blocks := [] }, exprSyms := [99] }] }] }] }

theorem C17_loadX_skipped_twice_example :
    outcomeX (loadX {} xSkippedTwice) = .ok ∧ outcome (load {} xSkippedTwice.flat) = .deser := by decide

/-- an interval (4) decoded - and processed - under module 1 is re-used under module 2 (in the fresh
section 7): at the end of module 2 the interval object has no `_proto_interval` any more -/
def xStolen : XIR :=
  { uuid := 1, edges := [],
    modules := [{ uuid := 2, proxies := [], symbols := [], entry := none,
                  sections := [{ uuid := 3, intervals := [{ core := { uuid := 4, blocks := [] }, exprSyms := [] }] }] },
                { uuid := 5, proxies := [], symbols := [], entry := none,
                  sections := [{ uuid := 7, intervals := [{ core := { uuid := 4, blocks := [] }, exprSyms := [] }] }] }] }

/-- `AttributeError` in the code and in `loadX`; the old model accepts -/
theorem C17_loadX_attribute_example :
    outcomeX (loadX {} xStolen) = .attribute ∧ outcome (load {} xStolen.flat) = .ok := by decide

/-- a re-used section that is not empty brings its (processed) intervals along: `AttributeError` as well -/
def xStolenSection : XIR :=
  { uuid := 1, edges := [],
    modules := [{ uuid := 2, proxies := [], symbols := [], entry := none,
                  sections := [{ uuid := 3, intervals := [{ core := { uuid := 4, blocks := [] }, exprSyms := [] }] }] },
                { uuid := 5, proxies := [], symbols := [], entry := none,
                  sections := [{ uuid := 3, intervals := [] }] }] }

theorem C17_loadX_attribute_section_example :
    outcomeX (loadX {} xStolenSection) = .attribute ∧ outcome (load {} xStolenSection.flat) = .ok := by decide

/-- non-vacuity of the projection theorems: they apply to `xSkipped` -/
example : ∃ g' ir, loadX {} xSkipped = .ok (g', ir) ∧ load {} xSkipped.core = .ok (g', ir) ∧
    ForestInv g' ∧ CacheCoherent g' ir := by
  cases h : loadX {} xSkipped with
  | error e =>
    have := C17_loadX_skipped_example.2.1
    rw [h] at this
    cases e with
    | core e => cases e <;> cases this
    | «attribute» => cases this
  | ok r =>
    have hf : ForestInv ({} : G) :=
      ⟨(by intro c p s; simp), (by intro p s; simp), (by intro c p h; cases h), (by intro c p h; cases h)⟩
    have hc := C17_loadX_coherent {} r.1 xSkipped r.2 hf h
    exact ⟨r.1, r.2, rfl, C17_loadX_load _ _ _ _ h, hc.2.2.1, hc.2.2.2.1⟩

/-! ### 2. agreement with `load` on the flat skeleton

`MissIR sk` (`Lemmas/LoaderXProofs.lean`): no table lookup of `Node._from_protobuf` hits during the load of
`sk` - every UUID of a module, proxy, section, interval, block or symbol message is new to the table when the
message is decoded (a block may carry the UUID of its own interval: the interval registers itself after its
blocks). Then no message is skipped and no node is re-used or moved, every interval object sits under the
module whose message it came from when that module's pass runs, and the pass checks exactly the flat list. -/

/-- `load`'s result, as a result of `loadX` -/
example (r : Except LErr (G × Nat)) : liftR r = match r with | .ok a => .ok a | .error e => .error (.core e) := by
  cases r <;> rfl

/-- the node UUIDs do not depend on the expression symbols -/
theorem XIR.flat_nodeUuids (mx : XIR) : mx.flat.nodeUuids = mx.core.nodeUuids := by
  unfold SkIR.nodeUuids XIR.flat XIR.core
  simp only [List.flatMap_map]
  rfl

/-- **agreement, hit-free loads**: when no lookup hits, `loadX` is `load` on the flat skeleton - same state
when accepted, same error otherwise, and `AttributeError` does not occur -/
theorem C17_loadX_agrees_of_miss (g : G) (mx : XIR) (hm : MissIR mx.core) :
    loadX g mx = liftR (load g mx.flat) := loadX_fresh g mx hm

/-- **agreement**: for a message with pairwise distinct node UUIDs, `loadX` is `load` on the flat skeleton
(in any process state) -/
theorem C17_loadX_agrees (g : G) (mx : XIR) (hnd : mx.core.nodeUuids.Nodup) :
    loadX g mx = liftR (load g mx.flat) := loadX_fresh g mx (missIR_of_nodup _ hnd)

theorem C17_loadX_agrees_ok (g : G) (mx : XIR) (hnd : mx.core.nodeUuids.Nodup) (r : G × Nat) :
    loadX g mx = .ok r ↔ load g mx.flat = .ok r := by
  rw [C17_loadX_agrees g mx hnd]
  cases load g mx.flat with
  | error e => simp [liftR]
  | ok r' => simp [liftR]

theorem C17_loadX_agrees_error (g : G) (mx : XIR) (hnd : mx.core.nodeUuids.Nodup) (e : LErr) :
    loadX g mx = .error (.core e) ↔ load g mx.flat = .error e := by
  rw [C17_loadX_agrees g mx hnd]
  cases load g mx.flat with
  | error e' => simp [liftR]
  | ok r' => simp [liftR]

theorem C17_loadX_no_attribute (g : G) (mx : XIR) (hnd : mx.core.nodeUuids.Nodup) :
    loadX g mx ≠ .error .attribute := by
  rw [C17_loadX_agrees g mx hnd]
  cases load g mx.flat with
  | error e' => simp [liftR]
  | ok r' => simp [liftR]

/-- one module with a proxy, a section with two intervals (the first with a code and a data block and two
expression symbols, the second with one), two symbols, an entry point, an edge -/
def xFull : XIR :=
  { uuid := 1, edges := [(5, 3)],
    modules := [{ uuid := 2, proxies := [3], entry := some 5,
                  sections := [{ uuid := 4, intervals :=
                    [{ core := { uuid := 9, blocks := [(5, true), (7, false)] }, exprSyms := [11, 10] },
                     { core := { uuid := 12, blocks := [] }, exprSyms := [10] }] }],
                  symbols := [⟨10, 0, .int 0⟩, ⟨11, 1, .ref 5⟩] }] }

/-- the same with a dangling expression symbol in the second interval -/
def xFullBad : XIR :=
  { xFull with modules := xFull.modules.map fun md => { md with sections := md.sections.map fun s =>
      { s with intervals := s.intervals.map fun x => if x.core.uuid = 12 then { x with exprSyms := [10, 99] } else x } } }

/-- non-vacuity: the agreement theorem applies to `xFull` (accepted by both) and `xFullBad` (rejected by both
with `DeserializationError`) -/
example : xFull.core.nodeUuids.Nodup ∧ xFullBad.core.nodeUuids.Nodup ∧
    outcomeX (loadX {} xFull) = .ok ∧ outcome (load {} xFull.flat) = .ok ∧
    (xFull.flat.modules.map (·.exprSyms)) = [[11, 10, 10]] ∧
    outcomeX (loadX {} xFullBad) = .deser ∧ outcome (load {} xFullBad.flat) = .deser := by decide

/-! ### the value-level link (C01) for `skelOfX` / `loadX`

`skelOfX m` is the skeleton of the message with the expression symbols kept per interval message; its flat
projection is `skelOf m` (`C01_skelOfX_flat`). A message the value-level reader `Proto.fromMsg` accepts is
loaded without a single table hit (`missIR_of_fromMsg`: `fromMsg` checks every node UUID against its
environment exactly where `Node._from_protobuf` looks it up), so on such a message `loadX` is `load` on the
flat skeleton (`C01_linkX_agrees`) and `C01_link_accepts` / `C01_link_shape` carry over. -/

open Gtirb.Msg (MIR IRV fromMsg)

/-- `skelOf` is the flat projection of `skelOfX` -/
theorem C01_skelOfX_flat (m : MIR) : (skelOfX m).map XIR.flat = skelOf m := (skelOf_eq_X m).symm

/-- forget the expression symbols of a skeleton -/
def SkIR.eraseExprSyms (sk : SkIR) : SkIR :=
  { sk with modules := sk.modules.map fun md => { md with exprSyms := [] } }

/-- `(skelOfX m).map XIR.core` and `skelOf m` are equal up to the modules' `exprSyms` field -/
theorem C01_skelOfX_core (m : MIR) : (skelOfX m).map XIR.core = (skelOf m).map SkIR.eraseExprSyms := by
  rw [← C01_skelOfX_flat]
  cases skelOfX m with
  | none => rfl
  | some mx =>
    simp only [Option.map_some]
    congr 1
    unfold XIR.core XIR.flat SkIR.eraseExprSyms
    simp only [List.map_map]
    rfl

/-- the per-interval lists, concatenated, are the module's `exprSyms` of `skelOf` -/
theorem C01_skelOfX_exprSyms (m : MIR) (mx : XIR) (h : skelOfX m = some mx) :
    ∃ sk, skelOf m = some sk ∧ sk.modules.map (·.exprSyms) = mx.modules.map XModule.flatSyms := by
  refine ⟨mx.flat, by rw [← C01_skelOfX_flat, h]; rfl, ?_⟩
  unfold XIR.flat
  simp only [List.map_map]
  rfl

theorem skelOfX_of_skelOf {m : MIR} {sk : SkIR} (hs : skelOf m = some sk) : ∃ mx, skelOfX m = some mx ∧ mx.flat = sk := by
  rw [← C01_skelOfX_flat] at hs
  cases hx : skelOfX m with
  | none => rw [hx] at hs; cases hs
  | some mx => rw [hx] at hs; cases hs; exact ⟨mx, rfl, rfl⟩

/-- a message the value-level reader accepts has a skeleton -/
theorem C01_linkX_skeleton (m : MIR) (v : IRV) (h : fromMsg m = .ok v) : ∃ mx, skelOfX m = some mx := by
  obtain ⟨sk, hs⟩ := C01_link_skeleton m v h
  obtain ⟨mx, hx, _⟩ := skelOfX_of_skelOf hs
  exact ⟨mx, hx⟩

/-- on a message the value-level reader accepts, no table lookup hits, and `loadX` is `load` on the flat
skeleton (in any process state) -/
theorem C01_linkX_agrees (m : MIR) (v : IRV) (h : fromMsg m = .ok v) (mx : XIR) (hs : skelOfX m = some mx) (g : G) :
    MissIR mx.core ∧ loadX g mx = liftR (load g mx.flat) := by
  have hsk : skelOf m = some mx.flat := by rw [← C01_skelOfX_flat, hs]; rfl
  have hm : MissIR mx.flat := missIR_of_fromMsg h hsk
  have hm' : MissIR mx.core := by
    unfold MissIR XIR.core at *
    unfold XIR.flat at hm
    simp only [] at hm ⊢
    have : ∀ (ms : List XModule) (K : Nat → Prop), MissList MissM SkModule.nodeUuids K (ms.map XModule.flat) →
        MissList MissM SkModule.nodeUuids K (ms.map XModule.core) := by
      intro ms
      induction ms with
      | nil => intro K hh; exact hh
      | cons a as ih => intro K hh; exact ⟨hh.1, ih _ hh.2⟩
    exact this _ _ hm
  exact ⟨hm', loadX_fresh g mx hm'⟩

/-- (A) acceptance: whenever `fromMsg` accepts a message, the message has a skeleton and `loadX` accepts it
(no `DeserializationError`, no `AttributeError`, no exception out of the object graph) -/
theorem C01_linkX_accepts (m : MIR) (v : IRV) (h : fromMsg m = .ok v) :
    ∃ mx, skelOfX m = some mx ∧ ∃ g ir, loadX {} mx = .ok (g, ir) := by
  obtain ⟨sk, hs, g, ir, hl⟩ := C01_link_accepts m v h
  obtain ⟨mx, hx, rfl⟩ := skelOfX_of_skelOf hs
  refine ⟨mx, hx, g, ir, ?_⟩
  rw [(C01_linkX_agrees m v h mx hx {}).2, hl]
  rfl

/-- contrapositive: what `loadX` rejects, the value-level reader rejects -/
theorem C01_linkX_rejects (m : MIR) (mx : XIR) (e : XErr) (hs : skelOfX m = some mx)
    (hl : loadX {} mx = .error e) : ∃ e', fromMsg m = .error e' := by
  cases hf : fromMsg m with
  | error e' => exact ⟨e', rfl⟩
  | ok v =>
    obtain ⟨mx', hx', g, ir, hl'⟩ := C01_linkX_accepts m v hf
    rw [hs] at hx'
    cases hx'
    rw [hl] at hl'
    cases hl'

/-- (B) shape: the graph `loadX` builds is the structure the message states, read back from the IR node
through the owning collections, in message order at every level -/
theorem C01_linkX_shape (m : MIR) (v : IRV) (h : fromMsg m = .ok v) (mx : XIR) (hs : skelOfX m = some mx)
    (g : G) (ir : Nat) (hl : loadX {} mx = .ok (g, ir)) :
    g.uuid ir = mx.uuid ∧ (g.kids ir .mods).map (readModule g) = mx.modules.map fun md => skShape md.core := by
  have hsk : skelOf m = some mx.flat := by rw [← C01_skelOfX_flat, hs]; rfl
  have hl' : load {} mx.flat = .ok (g, ir) := by
    have := (C01_linkX_agrees m v h mx hs {}).2
    rw [hl] at this
    cases hf : load {} mx.flat with
    | error e => rw [hf] at this; cases this
    | ok r => rw [hf] at this; simp only [liftR] at this; cases this; rfl
  obtain ⟨h1, h2⟩ := C01_link_shape m v h mx.flat hsk g ir hl'
  refine ⟨h1, ?_⟩
  rw [h2]
  unfold XIR.flat
  simp only [List.map_map]
  rfl

deriving instance DecidableEq for XInterval
deriving instance DecidableEq for XSection
deriving instance DecidableEq for XModule
deriving instance DecidableEq for XIR

/-- both models run on `exLinkMsg`: its skeleton with per-interval expression symbols, and `loadX` accepts it -/
example : skelOfX exLinkMsg = some
    { uuid := 1,
      modules := [{ uuid := 2, proxies := [3],
                    sections := [⟨4, [⟨⟨9, [(5, true), (7, false)]⟩, [11]⟩]⟩],
                    symbols := [⟨10, 0, .int 0⟩, ⟨11, 1, .ref 5⟩],
                    entry := some 5 }],
      edges := [(5, 3)] } ∧
    ((skelOfX exLinkMsg).map fun mx => outcomeX (loadX {} mx)) = some .ok := by decide

/-- non-vacuity: the link theorems apply to `exLinkMsg`, and to `dupMsg` (a block carrying the UUID of its
own interval: node UUIDs not pairwise distinct, still no table hit) -/
example : ∃ v mx g ir, fromMsg exLinkMsg = .ok v ∧ skelOfX exLinkMsg = some mx ∧ loadX {} mx = .ok (g, ir) ∧
    g.uuid ir = mx.uuid ∧ (g.kids ir .mods).map (readModule g) = mx.modules.map fun md => skShape md.core := by
  cases hf : fromMsg exLinkMsg with
  | error e => have := exLinkMsg_accepted; rw [hf] at this; cases this
  | ok v =>
    obtain ⟨mx, hs, g, ir, hl⟩ := C01_linkX_accepts _ v hf
    obtain ⟨h1, h2⟩ := C01_linkX_shape _ v hf mx hs g ir hl
    exact ⟨v, mx, g, ir, rfl, hs, hl, h1, h2⟩

example : (fromMsg dupMsg).toOption.isSome = true ∧
    ((skelOfX dupMsg).map fun mx => (decide mx.core.nodeUuids.Nodup, outcomeX (loadX {} mx))) = some (false, .ok) := by
  decide

/-! ### 4. what the pass resolved

`loadX` checks the expression symbols and drops what the table answered; the Python loader stores the
answers in `interval.symbolic_expressions`. `loadXR` performs exactly the steps of `loadX`
(`C17_loadXR_loadX`) and returns, for every check of the pass, the interval node, the symbol UUID and the
node the table answered at that moment (cf. `loadR`, `C09_loadR_sound`). -/

/-- a record of the pass: (interval node, symbol UUID, symbol node) -/
abbrev XRec := Nat × Nat × Nat

/-- `symExprs`, returning what the table answered -/
def symExprsR (g : G) (ir : Nat) : Pend → List Nat → Except XErr (Pend × List XRec)
  | pend, [] => .ok (pend, [])
  | pend, x :: xs =>
    match pend.lookup x with
    | none => .error .attribute
    | some syms =>
      match resolveAll g ir (fun k => k == Kind.symbol) syms with
      | .error e => .error (.core e)
      | .ok ns =>
        match symExprsR g ir (pend.filter fun e => e.1 != x) xs with
        | .error e => .error e
        | .ok (pend', rs) => .ok (pend', (syms.zip ns).map (fun p => (x, p.1, p.2)) ++ rs)

/-- `decodeModuleX` (in the form `decodeModuleX_eq_build`), recording -/
def decodeModuleXR (g : G) (pend : Pend) (ir : Nat) (m : XModule) : Except XErr (G × Nat × Pend × List XRec) :=
  match moduleBuildX g pend ir m with
  | .error e => .error (.core e)
  | .ok (g8, v, pend6, fresh) =>
    if fresh then
      match symExprsR g8 ir pend6 (intervalsUnder g8 v) with
      | .error e => .error e
      | .ok (pend8, rs) => .ok (g8, v, pend8, rs)
    else .ok (g8, v, pend6, [])

def decodeModulesXR (ir : Nat) : G → Pend → List XModule → Except XErr (G × List XRec)
  | g, _, [] => .ok (g, [])
  | g, pend, m :: ms =>
    match decodeModuleXR g pend ir m with
    | .error e => .error e
    | .ok (g1, v, pend1, rs1) =>
      match liftE (modAppend g1 ir v) with
      | .error e => .error (.core e)
      | .ok g2 =>
        match decodeModulesXR ir g2 pend1 ms with
        | .error e => .error e
        | .ok (g3, rs2) => .ok (g3, rs1 ++ rs2)

/-- `loadX`, returning what the expression-symbol passes resolved -/
def loadXR (g : G) (m : XIR) : Except XErr (G × Nat × List XRec) :=
  let ir := g.n
  let g1 := mkIR g m.uuid
  match decodeModulesXR ir g1 [] m.modules with
  | .error e => .error e
  | .ok (g2, rs) =>
    match checkAll g2 ir (fun k => k == Kind.code || k == Kind.proxy) (m.edges.flatMap fun e => [e.1, e.2]) with
    | .error e => .error (.core e)
    | .ok _ => .ok (g2, ir, rs)

def dropRecs {α : Type} (r : Except XErr (α × List XRec)) : Except XErr α :=
  match r with
  | .ok (a, _) => .ok a
  | .error e => .error e

theorem symExprsR_proj (g : G) (ir : Nat) : ∀ (xs : List Nat) (pend : Pend),
    dropRecs (symExprsR g ir pend xs) = symExprs g ir pend xs
  | [], _ => rfl
  | x :: xs, pend => by
    simp only [symExprsR, symExprs]
    cases pend.lookup x with
    | none => rfl
    | some syms =>
      simp only []
      rcases resolveAll_cases g ir (fun k => k == Kind.symbol) syms with ⟨ns, a1, a2, _⟩ | ⟨a1, a2, _⟩
      · rw [a1, a2]
        simp only []
        rw [← symExprsR_proj g ir xs]
        cases symExprsR g ir (pend.filter fun e => e.1 != x) xs with
        | error e => rfl
        | ok r => rfl
      · rw [a1, a2]; rfl

theorem decodeModuleXR_proj (g : G) (pend : Pend) (ir : Nat) (m : XModule) :
    (match decodeModuleXR g pend ir m with
     | .ok (g', v, pend', _) => .ok (g', v, pend')
     | .error e => .error e) = decodeModuleX g pend ir m := by
  rw [decodeModuleX_eq_build]
  unfold decodeModuleXR
  cases moduleBuildX g pend ir m with
  | error e => rfl
  | ok r =>
    obtain ⟨g8, v, pend6, fresh⟩ := r
    cases fresh with
    | false => rfl
    | true =>
      simp only [if_true]
      rw [← symExprsR_proj]
      cases symExprsR g8 ir pend6 (intervalsUnder g8 v) with
      | error e => rfl
      | ok r2 => rfl

theorem decodeModulesXR_proj (ir : Nat) : ∀ (ms : List XModule) (g : G) (pend : Pend),
    dropRecs (decodeModulesXR ir g pend ms) = decodeModulesX ir g pend ms
  | [], _, _ => rfl
  | m :: ms, g, pend => by
    simp only [decodeModulesXR, decodeModulesX]
    rw [← decodeModuleXR_proj]
    cases decodeModuleXR g pend ir m with
    | error e => rfl
    | ok r =>
      obtain ⟨g1, v, pend1, rs1⟩ := r
      simp only []
      cases liftE (modAppend g1 ir v) with
      | error e => rfl
      | ok g2 =>
        simp only []
        rw [← decodeModulesXR_proj ir ms g2 pend1]
        cases decodeModulesXR ir g2 pend1 ms with
        | error e => rfl
        | ok r2 => rfl

/-- `loadXR` projects onto `loadX` -/
theorem C17_loadXR_loadX (g : G) (mx : XIR) :
    (match loadXR g mx with
     | .ok (g', ir, _) => .ok (g', ir)
     | .error e => .error e) = loadX g mx := by
  unfold loadXR loadX
  simp only []
  rw [← decodeModulesXR_proj]
  cases decodeModulesXR g.n (mkIR g mx.uuid) [] mx.modules with
  | error e => rfl
  | ok r =>
    obtain ⟨g2, rs⟩ := r
    simp only [dropRecs]
    cases checkAll g2 g.n (fun k => k == Kind.code || k == Kind.proxy) (mx.edges.flatMap fun e => [e.1, e.2]) with
    | error e => rfl
    | ok _ => rfl

theorem loadXR_ok_loadX {g g' : G} {mx : XIR} {ir : Nat} {rs : List XRec} (h : loadXR g mx = .ok (g', ir, rs)) :
    loadX g mx = .ok (g', ir) := by
  rw [← C17_loadXR_loadX, h]

/-- all interval messages of the message -/
def XIR.intervals (mx : XIR) : List XInterval := mx.modules.flatMap fun m => m.sections.flatMap (·.intervals)

/-- every pending entry belongs to an interval node this load created from one of the interval messages `L`,
and holds that message's expression symbols -/
def PendOK (g0 g : G) (L : List XInterval) (pend : Pend) : Prop :=
  ∀ e, e ∈ pend → ∃ xm, xm ∈ L ∧ New g0 g (· = Kind.interval) xm.core.uuid e.1 ∧ e.2 = xm.exprSyms

theorem PendOK.of_grows {g0 g g' : G} {L : List XInterval} {pend : Pend} (h : PendOK g0 g L pend) (hg : Grows g g') :
    PendOK g0 g' L pend := fun e he => by
  obtain ⟨xm, h1, h2, h3⟩ := h e he
  exact ⟨xm, h1, h2.of_grows hg, h3⟩

/-- one decoding step: the state grows, the pending map stays well-founded in the messages -/
def PStep (g0 : G) (L : List XInterval) (g : G) (pend : Pend) (g' : G) (pend' : Pend) : Prop :=
  Grows g g' ∧ (PendOK g0 g L pend → PendOK g0 g' L pend')

theorem intervalX_pstep {g0 g g' : G} {L : List XInterval} {pend pend' : Pend} {x : XInterval} {v : Nat}
    (hx : x ∈ L) (h0 : g0.n ≤ g.n) (h : decodeIntervalX g pend g0.n x = .ok (g', v, pend')) :
    PStep g0 L g pend g' pend' := by
  have hgr : Grows g g' := (decodeInterval_made (by rw [← decodeIntervalX_erase, h]; rfl)).1
  refine ⟨hgr, fun hp => ?_⟩
  unfold decodeIntervalX at h
  cases hfp : fromProto g g0.n .interval x.core.uuid with
  | error e => rw [hfp] at h; cases h
  | ok r =>
    obtain ⟨g1, v1, fresh⟩ := r
    rw [hfp] at h
    rcases fromProto_cases hfp with ⟨rfl, rfl, _, _⟩ | ⟨rfl, rfl, rfl, _⟩
    · simp only [Bool.not_false, if_true] at h
      cases h
      exact hp.of_grows hgr
    · simp only [Bool.not_true, Bool.false_eq_true, if_false] at h
      cases hb : decodeBlocks g0.n (alloc g .interval x.core.uuid).1 x.core.blocks with
      | error e => rw [hb] at h; cases h
      | ok r2 =>
        obtain ⟨g2, bs⟩ := r2
        rw [hb] at h
        simp only [] at h
        cases hu : liftE (blkUpdate g2 g.n bs) with
        | error e => rw [hu] at h; cases h
        | ok g3 =>
          rw [hu] at h
          cases h
          rw [decodeBlocks_eq] at hb
          have g12 : Grows (alloc g .interval x.core.uuid).1 g2 :=
            (decodeList_made (c := 4) (fun _ _ _ _ hh => decodeBlock_made hh) _ _ _ _ hb).1
          have g23 : Grows g2 g3 := (blkUpdate_stable (liftE_ok hu)).grows
          have g34 : Grows g3 (cacheAddInterval g3 g0.n g.n) :=
            (stable_of_onlyCache (onlyCache_cacheAddInterval _ _ _)).grows
          have g14 := (g12.trans g23).trans g34
          intro e he
          rcases List.mem_cons.1 he with rfl | he
          · refine ⟨x, hx, ⟨h0, Nat.lt_of_lt_of_le (Nat.lt_succ_self _) g14.1, ?_, ?_⟩, rfl⟩
            · show (cacheAddInterval g3 g0.n g.n).kind g.n = _
              rw [(g14.2 g.n (Nat.lt_succ_self _)).1]; simp
            · show (cacheAddInterval g3 g0.n g.n).uuid g.n = _
              rw [(g14.2 g.n (Nat.lt_succ_self _)).2]; simp
          · exact (hp.of_grows hgr) e he

theorem attachX_pstep {α : Type} {g0 : G} {L : List XInterval}
    {dec : G → Pend → Nat → α → Except LErr (G × Nat × Pend)} {p : Nat} {slot : Slot} :
    ∀ (as : List α) (g : G) (pend : Pend) (g' : G) (pend' : Pend),
      (∀ a, a ∈ as → ∀ g pend g' v pend', g0.n ≤ g.n → dec g pend g0.n a = .ok (g', v, pend') →
        PStep g0 L g pend g' pend') →
      g0.n ≤ g.n → decodeAttachX dec g0.n p slot g pend as = .ok (g', pend') → PStep g0 L g pend g' pend'
  | [], g, pend, g', pend', _, _, h => by
    simp only [decodeAttachX] at h
    cases h
    exact ⟨(Stable.refl _).grows, fun hp => hp⟩
  | a :: as, g, pend, g', pend', hdec, h0, h => by
    simp only [decodeAttachX] at h
    cases hd : dec g pend g0.n a with
    | error e => rw [hd] at h; cases h
    | ok r =>
      obtain ⟨g1, v, pend1⟩ := r
      rw [hd] at h
      simp only [] at h
      cases hs : liftE (setAdd g1 p slot v) with
      | error e => rw [hs] at h; cases h
      | ok g2 =>
        rw [hs] at h
        simp only [] at h
        obtain ⟨a1, a2⟩ := hdec a List.mem_cons_self g pend g1 v pend1 h0 hd
        have a12 : Grows g1 g2 := (setAdd_stable (liftE_ok hs)).grows
        obtain ⟨b1, b2⟩ := attachX_pstep as g2 pend1 g' pend' (fun a' ha' => hdec a' (List.mem_cons_of_mem _ ha'))
          (Nat.le_trans h0 (a1.trans a12).1) h
        exact ⟨(a1.trans a12).trans b1, fun hp => b2 ((a2 hp).of_grows a12)⟩

theorem sectionX_pstep {g0 g g' : G} {L : List XInterval} {pend pend' : Pend} {s : XSection} {v : Nat}
    (hs : ∀ x, x ∈ s.intervals → x ∈ L) (h0 : g0.n ≤ g.n) (h : decodeSectionX g pend g0.n s = .ok (g', v, pend')) :
    PStep g0 L g pend g' pend' := by
  unfold decodeSectionX at h
  cases hfp : fromProto g g0.n .section s.uuid with
  | error e => rw [hfp] at h; cases h
  | ok r =>
    obtain ⟨g1, v1, fresh⟩ := r
    rw [hfp] at h
    rcases fromProto_cases hfp with ⟨rfl, rfl, _, _⟩ | ⟨rfl, rfl, rfl, _⟩
    · simp only [Bool.not_false, if_true] at h
      cases h
      exact ⟨(Stable.refl _).grows, fun hp => hp⟩
    · simp only [Bool.not_true, Bool.false_eq_true, if_false] at h
      cases ha : decodeAttachX decodeIntervalX g0.n g.n .bis (cacheSet (alloc g .section s.uuid).1 g0.n s.uuid g.n) pend
          s.intervals with
      | error e => rw [ha] at h; cases h
      | ok r2 =>
        obtain ⟨g4, pend4⟩ := r2
        rw [ha] at h
        cases h
        have g02 : Grows g (cacheSet (alloc g .section s.uuid).1 g0.n s.uuid g.n) :=
          (grows_alloc g _ _).trans (stable_cacheSet _ _ _ _).grows
        obtain ⟨b1, b2⟩ := attachX_pstep (L := L) s.intervals _ pend _ _
          (fun x hx g pend g' v pend' hg hd => intervalX_pstep (hs x hx) hg hd)
          (Nat.le_trans h0 g02.1) ha
        exact ⟨g02.trans b1, fun hp => b2 (hp.of_grows g02)⟩

theorem moduleBuildX_pstep {g0 g g8 : G} {L : List XInterval} {pend pend6 : Pend} {m : XModule} {v : Nat} {fresh : Bool}
    (hm : ∀ s, s ∈ m.sections → ∀ x, x ∈ s.intervals → x ∈ L) (h0 : g0.n ≤ g.n)
    (h : moduleBuildX g pend g0.n m = .ok (g8, v, pend6, fresh)) : PStep g0 L g pend g8 pend6 := by
  unfold moduleBuildX at h
  cases hfp : fromProto g g0.n .module m.uuid with
  | error e => rw [hfp] at h; cases h
  | ok r =>
    obtain ⟨g1, v1, fr⟩ := r
    rw [hfp] at h
    rcases fromProto_cases hfp with ⟨rfl, rfl, _, _⟩ | ⟨rfl, rfl, rfl, _⟩
    · simp only [Bool.not_false, if_true] at h
      cases h
      exact ⟨(Stable.refl _).grows, fun hp => hp⟩
    · simp only [Bool.not_true, Bool.false_eq_true, if_false] at h
      have g02 : Grows g (cacheSet (alloc g .module m.uuid).1 g0.n m.uuid g.n) :=
        (grows_alloc g _ _).trans (stable_cacheSet _ _ _ _).grows
      cases hp4 : decodeAttach decodeProxy g0.n g.n .proxies (cacheSet (alloc g .module m.uuid).1 g0.n m.uuid g.n)
          m.proxies with
      | error e => rw [hp4] at h; cases h
      | ok g4 =>
        rw [hp4] at h
        simp only [] at h
        have g24 : Grows _ g4 := (decodeAttach_made (c := 2) (fun _ _ _ _ hh => decodeProxy_made hh) _ _ _ hp4).1
        cases hp6 : decodeAttachX decodeSectionX g0.n g.n .secs g4 pend m.sections with
        | error e => rw [hp6] at h; cases h
        | ok r6 =>
          obtain ⟨g6, p6⟩ := r6
          rw [hp6] at h
          simp only [] at h
          have g04 := g02.trans g24
          obtain ⟨b1, b2⟩ := attachX_pstep (L := L) m.sections g4 pend g6 p6
            (fun s hs g pend g' v pend' hg hd => sectionX_pstep (hm s hs) hg hd) (Nat.le_trans h0 g04.1) hp6
          have key : ∀ g8', decodeAttach decodeSymbol g0.n g.n .syms g6 m.symbols = .ok g8' →
              PStep g0 L g pend g8' p6 := by
            intro g8' hp8
            have g68 : Grows g6 g8' := (decodeAttach_made (c := 2) (fun _ _ _ _ hh => decodeSymbol_made hh) _ _ _ hp8).1
            exact ⟨(g04.trans b1).trans g68, fun hp => (b2 (hp.of_grows g04)).of_grows g68⟩
          cases hme : m.entry with
          | none =>
            rw [hme] at h
            simp only [] at h
            cases hp8 : decodeAttach decodeSymbol g0.n g.n .syms g6 m.symbols with
            | error e => rw [hp8] at h; cases h
            | ok g8' => rw [hp8] at h; cases h; exact key _ hp8
          | some ue =>
            rw [hme] at h
            simp only [] at h
            cases hrk : refKind g6 g0.n (fun k => k == Kind.code) ue with
            | error e => rw [hrk] at h; cases h
            | ok _ =>
              rw [hrk] at h
              simp only [] at h
              cases hp8 : decodeAttach decodeSymbol g0.n g.n .syms g6 m.symbols with
              | error e => rw [hp8] at h; cases h
              | ok g8' => rw [hp8] at h; cases h; exact key _ hp8

theorem lookup_mem : ∀ (pend : Pend) {x : Nat} {l : List Nat}, pend.lookup x = some l → (x, l) ∈ pend
  | [], _, _, h => by cases h
  | (k, l') :: rest, x, l, h => by
    simp only [List.lookup] at h
    by_cases hk : x = k
    · subst hk
      simp only [beq_self_eq_true] at h
      cases h
      exact List.mem_cons_self
    · have : (x == k) = false := by simp [hk]
      rw [this] at h
      exact List.mem_cons_of_mem _ (lookup_mem rest h)

theorem forall2_zip {α β : Type} {R : α → β → Prop} {as : List α} {bs : List β} (h : Forall2 R as bs) :
    ∀ p, p ∈ as.zip bs → p.1 ∈ as ∧ R p.1 p.2 := by
  induction h with
  | nil => intro p hp; cases hp
  | cons hr _ ih =>
    intro p hp
    simp only [List.zip_cons_cons, List.mem_cons] at hp
    rcases hp with rfl | hp
    · exact ⟨List.mem_cons_self, hr⟩
    · exact ⟨List.mem_cons_of_mem _ (ih p hp).1, (ih p hp).2⟩

/-- the pass in a state in the middle of a load: every record is a symbol the table answered for a UUID of the
interval's pending entry; what remains pending was pending -/
theorem symExprsR_sound {g0 g : G} (hm : Mid g0 g) : ∀ (xs : List Nat) (pend pend' : Pend) (rs : List XRec),
    symExprsR g g0.n pend xs = .ok (pend', rs) →
    (∀ e, e ∈ pend' → e ∈ pend) ∧
    ∀ r, r ∈ rs → (∃ syms, (r.1, syms) ∈ pend ∧ r.2.1 ∈ syms) ∧ New g0 g (· = Kind.symbol) r.2.1 r.2.2
  | [], pend, pend', rs, h => by
    simp only [symExprsR] at h
    cases h
    exact ⟨fun e he => he, fun r hr => by cases hr⟩
  | x :: xs, pend, pend', rs, h => by
    simp only [symExprsR] at h
    cases hl : pend.lookup x with
    | none => rw [hl] at h; cases h
    | some syms =>
      rw [hl] at h
      simp only [] at h
      rcases resolveAll_cases g g0.n (fun k => k == Kind.symbol) syms with ⟨ns, a1, _, a3⟩ | ⟨a1, _, _⟩
      · rw [a1] at h
        simp only [] at h
        cases hr : symExprsR g g0.n (pend.filter fun e => e.1 != x) xs with
        | error e => rw [hr] at h; cases h
        | ok r2 =>
          obtain ⟨p2, rs2⟩ := r2
          rw [hr] at h
          cases h
          obtain ⟨i1, i2⟩ := symExprsR_sound hm xs _ _ _ hr
          refine ⟨fun e he => (List.mem_filter.1 (i1 e he)).1, ?_⟩
          intro r hr'
          rcases List.mem_append.1 hr' with hr' | hr'
          · obtain ⟨q, hq, rfl⟩ := List.mem_map.1 hr'
            obtain ⟨q1, q2, q3⟩ := forall2_zip a3 q hq
            refine ⟨⟨syms, lookup_mem pend hl, q1⟩, ?_⟩
            exact (New.of_entry hm (ok := fun k => k == Kind.symbol) q2 q3).imp (fun k hk => by simpa using hk)
          · obtain ⟨⟨syms', s1, s2⟩, n2⟩ := i2 r hr'
            exact ⟨⟨syms', (List.mem_filter.1 s1).1, s2⟩, n2⟩
      · rw [a1] at h; cases h

/-- what a record says, in state `g`: the interval node was created by this load from an interval message
`xm` of the list, the symbol UUID is one of that message's expression symbols, the symbol node is a symbol
created by this load carrying that UUID -/
def RecOK (g0 g : G) (L : List XInterval) (r : XRec) : Prop :=
  ∃ xm, xm ∈ L ∧ r.2.1 ∈ xm.exprSyms ∧ New g0 g (· = Kind.interval) xm.core.uuid r.1 ∧
    New g0 g (· = Kind.symbol) r.2.1 r.2.2

theorem decodeModuleXR_ok_X {g g' : G} {pend pend' : Pend} {ir v : Nat} {m : XModule} {rs : List XRec}
    (h : decodeModuleXR g pend ir m = .ok (g', v, pend', rs)) : decodeModuleX g pend ir m = .ok (g', v, pend') := by
  rw [← decodeModuleXR_proj, h]

theorem decodeModulesXR_sound {g0 : G} {L : List XInterval} : ∀ (ms : List XModule) (g g' : G) (pend : Pend)
    (rs : List XRec), (∀ m, m ∈ ms → ∀ s, s ∈ m.sections → ∀ x, x ∈ s.intervals → x ∈ L) →
    Mid g0 g → AllAtt g0 g → PendOK g0 g L pend → decodeModulesXR g0.n g pend ms = .ok (g', rs) →
    Grows g g' ∧ Mid g0 g' ∧ AllAtt g0 g' ∧ ∀ r, r ∈ rs → RecOK g0 g' L r
  | [], g, g', pend, rs, _, hm, ha, _, h => by
    simp only [decodeModulesXR] at h
    cases h
    exact ⟨(Stable.refl _).grows, hm, ha, fun r hr => by cases hr⟩
  | m :: ms, g, g', pend, rs, hL, hm, ha, hp, h => by
    simp only [decodeModulesXR] at h
    cases hd : decodeModuleXR g pend g0.n m with
    | error e => rw [hd] at h; cases h
    | ok r =>
      obtain ⟨g1, v, pend1, rs1⟩ := r
      rw [hd] at h
      simp only [] at h
      cases hap : liftE (modAppend g1 g0.n v) with
      | error e => rw [hap] at h; cases h
      | ok g2 =>
        rw [hap] at h
        simp only [] at h
        cases hr : decodeModulesXR g0.n g2 pend1 ms with
        | error e => rw [hr] at h; cases h
        | ok r2 =>
          obtain ⟨g3, rs2⟩ := r2
          rw [hr] at h
          cases h
          -- the module
          have hcore := decodeModuleX_ok_core (decodeModuleXR_ok_X hd)
          have d := decodeModule_ok _ g m.core g1 v hm (ha.cov hm) hcore
          obtain ⟨m2, a2⟩ := modAppend_outer d.mid d.new d.lt d.kind d.cov (liftE_ok hap)
          have g12 : Grows g1 g2 := (modAppend_stable (liftE_ok hap)).grows
          -- its records and its pending map
          have hrec1 : Grows g g1 ∧ PendOK g0 g1 L pend1 ∧ ∀ r, r ∈ rs1 → RecOK g0 g1 L r := by
            unfold decodeModuleXR at hd
            cases hb : moduleBuildX g pend g0.n m with
            | error e => rw [hb] at hd; cases hd
            | ok rb =>
              obtain ⟨g8, v8, pend6, fresh⟩ := rb
              rw [hb] at hd
              obtain ⟨s1, s2⟩ := moduleBuildX_pstep (L := L) (hL m List.mem_cons_self) (Nat.le_of_lt hm.lt) hb
              cases fresh with
              | false =>
                simp only [Bool.false_eq_true, if_false] at hd
                cases hd
                exact ⟨s1, s2 hp, fun r hr => by cases hr⟩
              | true =>
                simp only [if_true] at hd
                cases hse : symExprsR g8 g0.n pend6 (intervalsUnder g8 v8) with
                | error e => rw [hse] at hd; cases hd
                | ok rse =>
                  obtain ⟨p8, rs8⟩ := rse
                  rw [hse] at hd
                  cases hd
                  obtain ⟨t1, t2⟩ := symExprsR_sound d.mid _ _ _ _ hse
                  refine ⟨s1, fun e he => s2 hp e (t1 e he), ?_⟩
                  intro r hr'
                  obtain ⟨⟨syms, u1, u2⟩, n2⟩ := t2 r hr'
                  obtain ⟨xm, x1, x2, x3⟩ := s2 hp _ u1
                  exact ⟨xm, x1, by rw [← x3]; exact u2, x2, n2⟩
          obtain ⟨g01, hp1, hrs1⟩ := hrec1
          obtain ⟨g23, m3, a3, hrs2⟩ := decodeModulesXR_sound ms g2 g' pend1 rs2
            (fun m' hm' => hL m' (List.mem_cons_of_mem _ hm')) m2 a2 (hp1.of_grows g12) hr
          refine ⟨(g01.trans g12).trans g23, m3, a3, ?_⟩
          intro r hr'
          rcases List.mem_append.1 hr' with hr' | hr'
          · obtain ⟨xm, x1, x2, x3, x4⟩ := hrs1 r hr'
            exact ⟨xm, x1, x2, x3.of_grows (g12.trans g23), x4.of_grows (g12.trans g23)⟩
          · exact hrs2 r hr'

/-- **what the pass resolved, any message** (duplicated UUIDs included): every record names an interval node
created by this load from an interval message `xm` of the message (kind interval, UUID of `xm`) and a symbol
node created by this load (kind symbol, carrying the recorded UUID, which is one of `xm`'s expression
symbols); both are allocated in the final state and attached to the loaded IR. (With duplicated UUIDs the
final table may answer another node for that UUID; kind and UUID were fixed at resolution time.) -/
theorem C17_loadXR_sound (g g' : G) (mx : XIR) (ir : Nat) (rs : List XRec) (hf : ForestInv g)
    (hl : loadXR g mx = .ok (g', ir, rs)) :
    ir = g.n ∧ ∀ r, r ∈ rs → ∃ xm, xm ∈ mx.intervals ∧ r.2.1 ∈ xm.exprSyms ∧
      IsLoaded g g' (· = Kind.interval) xm.core.uuid r.1 ∧ IsLoaded g g' (· = Kind.symbol) r.2.1 r.2.2 := by
  unfold loadXR at hl
  simp only [] at hl
  cases hd : decodeModulesXR g.n (mkIR g mx.uuid) [] mx.modules with
  | error e => rw [hd] at hl; cases hl
  | ok r =>
    obtain ⟨g2, rs2⟩ := r
    rw [hd] at hl
    simp only [] at hl
    cases hc : checkAll g2 g.n (fun k => k == Kind.code || k == Kind.proxy) (mx.edges.flatMap fun e => [e.1, e.2]) with
    | error e => rw [hc] at hl; cases hl
    | ok _ =>
      rw [hc] at hl
      cases hl
      obtain ⟨m1, a1⟩ := mid_mkIR hf mx.uuid
      obtain ⟨_, _, a2, hrs⟩ := decodeModulesXR_sound (g0 := g) (L := mx.intervals) mx.modules _ _ [] rs
        (fun m hm s hs x hx => List.mem_flatMap.2 ⟨m, hm, List.mem_flatMap.2 ⟨s, hs, hx⟩⟩) m1 a1
        (fun e he => by cases he) hd
      refine ⟨rfl, fun r hr => ?_⟩
      obtain ⟨xm, x1, x2, x3, x4⟩ := hrs r hr
      exact ⟨xm, x1, x2, IsLoaded.of_new a2 x3, IsLoaded.of_new a2 x4⟩

/-- on `xFull`: three checks, in pass order - interval node 4 (UUID 9) resolves 11 to symbol node 9 and 10 to
symbol node 8, interval node 7 (UUID 12) resolves 10 to symbol node 8 -/
theorem C17_loadXR_example : (match loadXR {} xFull with
    | .ok (g, _, rs) => some (rs, [4, 7].map g.uuid, [9, 8].map g.uuid, [9, 8].map g.kind)
    | .error _ => none) =
    some ([(4, 11, 9), (4, 10, 8), (7, 10, 8)], [9, 12], [11, 10], [.symbol, .symbol]) := by decide

/-- non-vacuity: `C17_loadXR_sound` applies to `xFull` -/
example : ∃ g' ir rs, loadXR {} xFull = .ok (g', ir, rs) ∧ rs.length = 3 ∧
    ∀ r, r ∈ rs → ∃ xm, xm ∈ xFull.intervals ∧ r.2.1 ∈ xm.exprSyms ∧
      IsLoaded {} g' (· = Kind.interval) xm.core.uuid r.1 ∧ IsLoaded {} g' (· = Kind.symbol) r.2.1 r.2.2 := by
  cases h : loadXR {} xFull with
  | error e => have := C17_loadXR_example; rw [h] at this; cases this
  | ok r =>
    obtain ⟨g', ir, rs⟩ := r
    have hf : ForestInv ({} : G) :=
      ⟨(by intro c p s; simp), (by intro p s; simp), (by intro c p h; cases h), (by intro c p h; cases h)⟩
    refine ⟨g', ir, rs, rfl, ?_, (C17_loadXR_sound {} g' xFull ir rs hf h).2⟩
    have := C17_loadXR_example
    rw [h] at this
    simp only [Option.some.injEq, Prod.mk.injEq] at this
    rw [this.1]
    rfl

end Gtirb.Loader
