import GtirbModel.IndexKinds
import GtirbProofs.Props.C06Sections
import GtirbProofs.Props.C05Kinds
/-! C12, composed: schedules of ARBITRARY lookups, every lookup also as the final
query, histories that start from the empty state.

`C12_schedule` (Props/C12.lean) quantifies over `Act`, whose lookups are the nine
constructors of `Query`. Here

* a lookup step is any state transformer that keeps the invariant and the
  structure (`Lookup`); the module / IR chains (`scopeLookup...`), the section
  scans `sections_on/at` (`sectionsLookup...`), the `code_/data_` variants
  (`scopeKindLookup`), the nine queries (`queryLookup`; the section-level
  `symbolic_expressions_at` calls `byte_intervals_on`, i.e. it is
  `queryLookup (.sbison s r)`) and any sequence of lookups (`Lookup.seq`) are
  instances;
* a structural step is an `EditC` (GtirbModel/IndexKinds.lean): one of the four
  edits of `Edit` or the creation of a block / interval / section. Creation of
  an id that is already in use does nothing, so the invariant is kept without
  any side condition and every history from the empty state `{}` is well formed
  (`C12_reachableG`, `C12_reachable`). No "created inside an existing interval"
  condition is needed: the constructors of the code create the node detached
  and then attach it through the parent setter (block.py:84-88,
  byteinterval.py:172-185, section.py:110-118), which is `newBlk` followed by
  `blkMove` (`newBI` ... `biMove`) here;
* the final observation is any of the nine queries (`C12_scheduleG`), a module /
  IR chain (`C12_schedule_scopeG...`, set equality), a section scan
  (`C12_schedule_sectionsG`, LIST equality) or a `code_/data_` variant
  (`C12_schedule_kindG`).

`C12_schedule_none` / `C12_schedule_noneG` are the property's sentence verbatim:
any schedule of lookups gives the same final answers as no lookups at all. -/
namespace Gtirb.Index

/-! ### creation keeps the invariant -/

theorem not_mem_ids_of_find?_none {α : Type} (key : α → Nat) {l : List α} {i : Nat}
    (h : l.find? (fun y => key y == i) = none) : i ∉ l.map key := by
  intro hm
  rcases List.mem_map.1 hm with ⟨a, ha, hk⟩
  exact (kfind_none key).1 h a ha hk

theorem newBlk_inv (d : D) (i : Nat) (c : Bool) (o z : Nat) (h : DInv d) : DInv (newBlk d i c o z) := by
  unfold newBlk
  split
  · exact h
  · rename_i hn
    have hn' : d.blk? i = none := by simpa using hn
    exact dinv_add_blk h i c o z (not_mem_ids_of_find?_none Blk.id hn')

theorem newBI_inv (d : D) (i : Nat) (a : Option Nat) (z : Nat) (h : DInv d) : DInv (newBI d i a z) := by
  unfold newBI
  split
  · exact h
  · rename_i hn
    have hn' : d.bi? i = none := by simpa using hn
    exact dinv_add_bi h i a z (not_mem_ids_of_find?_none BI.id hn')

theorem newSec_inv (d : D) (i : Nat) (h : DInv d) : DInv (newSec d i) := by
  unfold newSec
  split
  · exact h
  · rename_i hn
    have hn' : d.sec? i = none := by simpa using hn
    exact dinv_add_sec h i (not_mem_ids_of_find?_none Sec.id hn')

theorem applyEditC_inv (d : D) (e : EditC) (h : DInv d) : DInv (applyEditC d e) := by
  cases e with
  | base e => exact applyEdit_inv d e h
  | newBlk i c o z => exact newBlk_inv d i c o z h
  | newBI i a z => exact newBI_inv d i a z h
  | newSec i => exact newSec_inv d i h

/-! ### the structural effect of a creation is a function of the structure -/

theorem applyEditC_strip_congr {d d' : D} (e : EditC) (h : strip d = strip d') :
    strip (applyEditC d e) = strip (applyEditC d' e) := by
  cases e with
  | base e => exact applyEdit_strip_congr e h
  | newBlk i c o z =>
    show strip (newBlk d i c o z) = strip (newBlk d' i c o z)
    unfold newBlk
    rw [blk?_of_strip h]
    split
    · exact h
    · rw [strip_eq_iff] at h ⊢
      exact ⟨by rw [h.1], h.2.1, h.2.2⟩
  | newBI i a z =>
    show strip (newBI d i a z) = strip (newBI d' i a z)
    unfold newBI
    rw [bi?_isSome_of_strip h]
    split
    · exact h
    · rw [strip_eq_iff] at h ⊢
      refine ⟨h.1, ?_, h.2.2⟩
      show List.map projBI (d.bis ++ _) = List.map projBI (d'.bis ++ _)
      rw [List.map_append, List.map_append, h.2.1]
  | newSec i =>
    show strip (newSec d i) = strip (newSec d' i)
    unfold newSec
    rw [sec?_of_strip h]
    split
    · exact h
    · rw [strip_eq_iff] at h ⊢
      refine ⟨h.1, h.2.1, ?_⟩
      show List.map Sec.id (d.secs ++ _) = List.map Sec.id (d'.secs ++ _)
      rw [List.map_append, List.map_append, h.2.2]

/-! ### generic lookups -/

/-- a lookup step of a history: whatever it does to the lazy state, it keeps
the invariant and the structure. (The answer is thrown away.) -/
structure Lookup where
  run : D → D
  keeps : ∀ d, DInv d → DInv (run d) ∧ strip (run d) = strip d

/-- a step of a general history: a structural step (edit or creation), or a lookup -/
inductive ActG where
  | edit (e : EditC)
  | look (l : Lookup)

def execG (d : D) (acts : List ActG) : D :=
  acts.foldl (fun d a => match a with | .edit e => applyEditC d e | .look l => l.run d) d

def editsOfG (acts : List ActG) : List EditC :=
  acts.filterMap fun a => match a with | .edit e => some e | .look _ => none

theorem execG_nil (d : D) : execG d [] = d := rfl
theorem execG_edit (d : D) (e : EditC) (as : List ActG) :
    execG d (.edit e :: as) = execG (applyEditC d e) as := rfl
theorem execG_look (d : D) (l : Lookup) (as : List ActG) :
    execG d (.look l :: as) = execG (l.run d) as := rfl

/-- running a general history = running its structural steps only, as far as
invariant and structure go -/
theorem execG_spec (as : List ActG) : ∀ (d d' : D), DInv d → strip d = strip d' →
    DInv (execG d as) ∧ strip (execG d as) = strip ((editsOfG as).foldl applyEditC d') := by
  induction as with
  | nil => intro d d' h hs; exact ⟨h, hs⟩
  | cons a as ih =>
    intro d d' h hs
    cases a with
    | edit e =>
      rw [execG_edit]
      show _ ∧ _ = strip (List.foldl applyEditC (applyEditC d' e) (editsOfG as))
      exact ih _ _ (applyEditC_inv d e h) (applyEditC_strip_congr e hs)
    | look l =>
      rw [execG_look]
      show _ ∧ _ = strip (List.foldl applyEditC d' (editsOfG as))
      have := l.keeps d h
      exact ih _ _ this.1 (this.2.trans hs)

theorem foldl_applyEditC_inv (es : List EditC) (d : D) (h : DInv d) : DInv (es.foldl applyEditC d) := by
  induction es generalizing d with
  | nil => exact h
  | cons e es ih => exact ih _ (applyEditC_inv d e h)

theorem foldl_applyEdit_inv (es : List Edit) (d : D) (h : DInv d) : DInv (es.foldl applyEdit d) := by
  induction es generalizing d with
  | nil => exact h
  | cons e es ih => exact ih _ (applyEdit_inv d e h)

theorem C12_execG_inv (d0 : D) (h0 : DInv d0) (a : List ActG) : DInv (execG d0 a) :=
  (execG_spec a d0 d0 h0 rfl).1

theorem C12_execG_strip (d0 : D) (h0 : DInv d0) (a : List ActG) :
    strip (execG d0 a) = strip ((editsOfG a).foldl applyEditC d0) :=
  (execG_spec a d0 d0 h0 rfl).2

/-- the core of every schedule theorem: two general histories with the same
structural steps end in well-formed states with the same structure -/
theorem C12_scheduleG_strip (d0 : D) (h0 : DInv d0) (a1 a2 : List ActG)
    (he : editsOfG a1 = editsOfG a2) :
    DInv (execG d0 a1) ∧ DInv (execG d0 a2) ∧ strip (execG d0 a1) = strip (execG d0 a2) := by
  have h1 := execG_spec a1 d0 d0 h0 rfl
  have h2 := execG_spec a2 d0 d0 h0 rfl
  exact ⟨h1.1, h2.1, by rw [h1.2, h2.2, he]⟩

/-- schedule independence with arbitrary lookups (and creations) interleaved:
the nine queries as final query -/
theorem C12_scheduleG (d0 : D) (h0 : DInv d0) (a1 a2 : List ActG) (he : editsOfG a1 = editsOfG a2)
    (q : Query) : sameAnswer (runQuery (execG d0 a1) q).2 (runQuery (execG d0 a2) q).2 := by
  obtain ⟨h1, h2, hs⟩ := C12_scheduleG_strip d0 h0 a1 a2 he
  exact answer_of_strip q h1 h2 hs

/-! ### the instances -/

/-- any chain of structure-preserving lookups -/
def chainLookup (f : D → Nat → D × List Nat)
    (hf : ∀ d x, DInv d → DInv (f d x).1 ∧ strip (f d x).1 = strip d) (xs : List Nat) : Lookup :=
  ⟨fun d => (chain f d xs).1, fun d h => C05_chain_inv_strip f hf d xs h⟩

/-- `Module.byte_blocks_on` / `IR.byte_blocks_on` over the sections `ss` -/
def scopeLookup (r : Rng) (ss : List Nat) : Lookup :=
  chainLookup (fun d s => secBlocksOn d s r) (secBlocksOn_keeps r) ss
/-- `Module.byte_blocks_at` / `IR.byte_blocks_at` -/
def scopeLookupAt (r : Rng) (ss : List Nat) : Lookup :=
  chainLookup (fun d s => secBlocksAt d s r) (secBlocksAt_keeps r) ss
/-- `Module.byte_intervals_on` / `IR.byte_intervals_on` -/
def scopeBisLookup (r : Rng) (ss : List Nat) : Lookup :=
  chainLookup (fun d s => secBisOn d s r) (secBisOn_keeps r) ss
/-- `Module.byte_intervals_at` / `IR.byte_intervals_at` -/
def scopeBisLookupAt (r : Rng) (ss : List Nat) : Lookup :=
  chainLookup (fun d s => secBisAt d s r) (secBisAt_keeps r) ss
/-- `Module.code_blocks_on` / `data_blocks_on` (filter inside the chain, as in the code) -/
def scopeKindLookup (code : Bool) (r : Rng) (ss : List Nat) : Lookup :=
  chainLookup (kinded (fun d s => secBlocksOn d s r) code) (kinded_keeps _ (secBlocksOn_keeps r) code) ss
/-- `Module.code_blocks_at` / `data_blocks_at` -/
def scopeKindLookupAt (code : Bool) (r : Rng) (ss : List Nat) : Lookup :=
  chainLookup (kinded (fun d s => secBlocksAt d s r) code) (kinded_keeps _ (secBlocksAt_keeps r) code) ss
/-- `Module.sections_on` / `IR.sections_on` -/
def sectionsLookup (r : Rng) (ss : List Nat) : Lookup :=
  ⟨fun d => (secsOn d ss r).1, fun d h => C06_sections_keep d ss r h⟩
/-- `Module.sections_at` / `IR.sections_at` -/
def sectionsLookupAt (r : Rng) (ss : List Nat) : Lookup :=
  ⟨fun d => (secsAt d ss r).1, fun d h => C06_sections_at_keep d ss r h⟩
/-- the nine lookups of `Query` (interval scope x4, `Section.byte_intervals_on/at`,
`Section.byte_blocks_on/at`, `Section.address/size`) -/
def queryLookup (q : Query) : Lookup := ⟨fun d => (runQuery d q).1, fun _ h => runQuery_inv_strip h q⟩
/-- no lookup at all -/
def Lookup.nop : Lookup := ⟨fun d => d, fun _ h => ⟨h, rfl⟩⟩
/-- one lookup after another is a lookup -/
def Lookup.seq (l1 l2 : Lookup) : Lookup :=
  ⟨fun d => l2.run (l1.run d), fun d h =>
    ⟨(l2.keeps _ (l1.keeps d h).1).1, (l2.keeps _ (l1.keeps d h).1).2.trans (l1.keeps d h).2⟩⟩

/-! ### histories of `Act` / `ActC` are general histories -/

def ActC.toG : ActC → ActG
  | .edit e => .edit e
  | .look q => .look (queryLookup q)

def Act.toG (a : Act) : ActG := a.toC.toG

theorem execC_eq_execG (acts : List ActC) : ∀ d : D, execC d acts = execG d (acts.map ActC.toG) := by
  induction acts with
  | nil => intro d; rfl
  | cons a as ih =>
    intro d
    cases a with
    | edit e => exact ih (applyEditC d e)
    | look q => exact ih (runQuery d q).1

theorem exec_eq_execC (acts : List Act) : ∀ d : D, exec d acts = execC d (acts.map Act.toC) := by
  induction acts with
  | nil => intro d; rfl
  | cons a as ih =>
    intro d
    cases a with
    | edit e => exact ih (applyEdit d e)
    | look q => exact ih (runQuery d q).1

theorem exec_eq_execG (acts : List Act) (d : D) : exec d acts = execG d (acts.map Act.toG) := by
  rw [exec_eq_execC, execC_eq_execG, List.map_map]; rfl

theorem editsOfC_eq (acts : List ActC) : editsOfG (acts.map ActC.toG) = editsOfC acts := by
  induction acts with
  | nil => rfl
  | cons a as ih =>
    cases a with
    | edit e => show e :: editsOfG (as.map ActC.toG) = e :: editsOfC as; rw [ih]
    | look q => exact ih

theorem editsOf_eq (acts : List Act) : editsOfG (acts.map Act.toG) = (editsOf acts).map EditC.base := by
  induction acts with
  | nil => rfl
  | cons a as ih =>
    cases a with
    | edit e => show EditC.base e :: editsOfG (as.map Act.toG) = EditC.base e :: (editsOf as).map EditC.base; rw [ih]
    | look q => exact ih

/-- a schedule without lookups has the structural steps it was made of -/
theorem editsOfG_map_edit (es : List EditC) : editsOfG (es.map .edit) = es := by
  induction es with
  | nil => rfl
  | cons e es ih => show e :: editsOfG (es.map .edit) = e :: es; rw [ih]

theorem editsOf_map_edit (es : List Edit) : editsOf (es.map .edit) = es := by
  induction es with
  | nil => rfl
  | cons e es ih => show e :: editsOf (es.map .edit) = e :: es; rw [ih]

theorem execG_map_edit (es : List EditC) (d : D) : execG d (es.map .edit) = es.foldl applyEditC d := by
  induction es generalizing d with
  | nil => rfl
  | cons e es ih => exact ih (applyEditC d e)

/-! ### reachable states -/

/-- every general history from the empty state - creations, edits, arbitrary
lookups, in any order - ends in a well-formed state: `DInv` is not an assumption
about reachable states but a fact -/
theorem C12_reachableG (acts : List ActG) : DInv (execG {} acts) :=
  C12_execG_inv {} dinv_init acts

/-- the same for the data-only histories of the model (`ActC`: the nine `Query` lookups) -/
theorem C12_reachable (acts : List ActC) : DInv (execC {} acts) := by
  rw [execC_eq_execG]; exact C12_reachableG _

theorem C12_execC_inv (d0 : D) (h0 : DInv d0) (a : List ActC) : DInv (execC d0 a) := by
  rw [execC_eq_execG]; exact C12_execG_inv d0 h0 _

/-- schedule independence for histories with creation -/
theorem C12_scheduleC (d0 : D) (h0 : DInv d0) (a1 a2 : List ActC) (he : editsOfC a1 = editsOfC a2)
    (q : Query) : sameAnswer (runQuery (execC d0 a1) q).2 (runQuery (execC d0 a2) q).2 := by
  rw [execC_eq_execG, execC_eq_execG]
  exact C12_scheduleG d0 h0 _ _ (by rw [editsOfC_eq, editsOfC_eq, he]) q

/-! ### scope lookups as the FINAL query -/

/-- answers of a chain are a function of the structure -/
theorem chain_answer_of_strip (f : D → Nat → D × List Nat)
    (hinv : ∀ d x, DInv d → DInv (f d x).1 ∧ strip (f d x).1 = strip d)
    (hans : ∀ d d' x, DInv d → DInv d' → strip d = strip d' → ∀ b, b ∈ (f d x).2 ↔ b ∈ (f d' x).2)
    {d d' : D} (h : DInv d) (h' : DInv d') (hs : strip d = strip d') (xs : List Nat) (b : Nat) :
    b ∈ (chain f d xs).2 ↔ b ∈ (chain f d' xs).2 := by
  rw [C05_chain_mem f hinv hans d xs h b, C05_chain_mem f hinv hans d' xs h' b]
  constructor
  · rintro ⟨x, hx, hb⟩; exact ⟨x, hx, (hans d d' x h h' hs b).1 hb⟩
  · rintro ⟨x, hx, hb⟩; exact ⟨x, hx, (hans d d' x h h' hs b).2 hb⟩

/-- generic: any chain of structure-determined lookups as final query of two
general schedules -/
theorem C12_schedule_chainG (f : D → Nat → D × List Nat)
    (hinv : ∀ d x, DInv d → DInv (f d x).1 ∧ strip (f d x).1 = strip d)
    (hans : ∀ d d' x, DInv d → DInv d' → strip d = strip d' → ∀ b, b ∈ (f d x).2 ↔ b ∈ (f d' x).2)
    (d0 : D) (h0 : DInv d0) (a1 a2 : List ActG) (he : editsOfG a1 = editsOfG a2)
    (xs : List Nat) (b : Nat) :
    b ∈ (chain f (execG d0 a1) xs).2 ↔ b ∈ (chain f (execG d0 a2) xs).2 := by
  obtain ⟨h1, h2, hs⟩ := C12_scheduleG_strip d0 h0 a1 a2 he
  exact chain_answer_of_strip f hinv hans h1 h2 hs xs b

/-- `Module/IR.byte_blocks_on` as final query -/
theorem C12_schedule_scopeG (d0 : D) (h0 : DInv d0) (a1 a2 : List ActG) (he : editsOfG a1 = editsOfG a2)
    (ss : List Nat) (r : Rng) (b : Nat) :
    b ∈ (chain (fun d s => secBlocksOn d s r) (execG d0 a1) ss).2 ↔
    b ∈ (chain (fun d s => secBlocksOn d s r) (execG d0 a2) ss).2 :=
  C12_schedule_chainG _ (secBlocksOn_keeps r) (fun d d' => secBlocksOn_congr r d d') d0 h0 a1 a2 he ss b

/-- `Module/IR.byte_blocks_at` as final query -/
theorem C12_schedule_scopeG_at (d0 : D) (h0 : DInv d0) (a1 a2 : List ActG) (he : editsOfG a1 = editsOfG a2)
    (ss : List Nat) (r : Rng) (b : Nat) :
    b ∈ (chain (fun d s => secBlocksAt d s r) (execG d0 a1) ss).2 ↔
    b ∈ (chain (fun d s => secBlocksAt d s r) (execG d0 a2) ss).2 :=
  C12_schedule_chainG _ (secBlocksAt_keeps r) (fun d d' => secBlocksAt_congr r d d') d0 h0 a1 a2 he ss b

/-- `Module/IR.byte_intervals_on` as final query -/
theorem C12_schedule_scopeG_bis_on (d0 : D) (h0 : DInv d0) (a1 a2 : List ActG)
    (he : editsOfG a1 = editsOfG a2) (ss : List Nat) (r : Rng) (x : Nat) :
    x ∈ (chain (fun d s => secBisOn d s r) (execG d0 a1) ss).2 ↔
    x ∈ (chain (fun d s => secBisOn d s r) (execG d0 a2) ss).2 :=
  C12_schedule_chainG _ (secBisOn_keeps r) (fun d d' => secBisOn_congr r d d') d0 h0 a1 a2 he ss x

/-- `Module/IR.byte_intervals_at` as final query -/
theorem C12_schedule_scopeG_bis_at (d0 : D) (h0 : DInv d0) (a1 a2 : List ActG)
    (he : editsOfG a1 = editsOfG a2) (ss : List Nat) (r : Rng) (x : Nat) :
    x ∈ (chain (fun d s => secBisAt d s r) (execG d0 a1) ss).2 ↔
    x ∈ (chain (fun d s => secBisAt d s r) (execG d0 a2) ss).2 :=
  C12_schedule_chainG _ (secBisAt_keeps r) (fun d d' => secBisAt_congr r d d') d0 h0 a1 a2 he ss x

/-- the `code_/data_` variant of ANY id-list answer that is schedule independent
is schedule independent (the filter reads the structure only) -/
theorem C12_schedule_kindG (d0 : D) (h0 : DInv d0) (a1 a2 : List ActG) (he : editsOfG a1 = editsOfG a2)
    (code : Bool) (l1 l2 : List Nat) (hl : ∀ b, b ∈ l1 ↔ b ∈ l2) (b : Nat) :
    b ∈ kindOnly (execG d0 a1) code l1 ↔ b ∈ kindOnly (execG d0 a2) code l2 := by
  obtain ⟨_, _, hs⟩ := C12_scheduleG_strip d0 h0 a1 a2 he
  rw [C05_kind_of_strip hs, mem_kindOnly_raw, mem_kindOnly_raw, hl b]

/-- e.g. `Module/IR.code_blocks_on` / `data_blocks_on` as final query -/
theorem C12_schedule_scopeG_kind (d0 : D) (h0 : DInv d0) (a1 a2 : List ActG)
    (he : editsOfG a1 = editsOfG a2) (code : Bool) (ss : List Nat) (r : Rng) (b : Nat) :
    b ∈ kindOnly (execG d0 a1) code (chain (fun d s => secBlocksOn d s r) (execG d0 a1) ss).2 ↔
    b ∈ kindOnly (execG d0 a2) code (chain (fun d s => secBlocksOn d s r) (execG d0 a2) ss).2 :=
  C12_schedule_kindG d0 h0 a1 a2 he code _ _ (C12_schedule_scopeG d0 h0 a1 a2 he ss r) b

/-- answers of the section scans are a function of the structure, as LISTS -/
theorem secs_answer_of_strip {d d' : D} (h : DInv d) (h' : DInv d') (hs : strip d = strip d')
    (ss : List Nat) (r : Rng) :
    (secsOn d ss r).2 = (secsOn d' ss r).2 ∧ (secsAt d ss r).2 = (secsAt d' ss r).2 := by
  rw [secsOn_snd d ss r h, secsOn_snd d' ss r h', secsAt_snd d ss r h, secsAt_snd d' ss r h']
  have : ∀ s, codeExtent d s = codeExtent d' s := fun s => codeExtent_of_strip hs s
  simp only [this, and_self]

/-- `sections_on` / `sections_at` as final query: list equality, not just sets -/
theorem C12_schedule_sectionsG (d0 : D) (h0 : DInv d0) (a1 a2 : List ActG)
    (he : editsOfG a1 = editsOfG a2) (ss : List Nat) (r : Rng) :
    (secsOn (execG d0 a1) ss r).2 = (secsOn (execG d0 a2) ss r).2 ∧
    (secsAt (execG d0 a1) ss r).2 = (secsAt (execG d0 a2) ss r).2 := by
  obtain ⟨h1, h2, hs⟩ := C12_scheduleG_strip d0 h0 a1 a2 he
  exact secs_answer_of_strip h1 h2 hs ss r

/-! ### the same for the histories of `Act` (the statements of the review) -/

theorem C12_schedule_strip (d0 : D) (h0 : DInv d0) (a1 a2 : List Act) (he : editsOf a1 = editsOf a2) :
    DInv (exec d0 a1) ∧ DInv (exec d0 a2) ∧ strip (exec d0 a1) = strip (exec d0 a2) := by
  have h1 := exec_spec a1 d0 d0 h0 rfl
  have h2 := exec_spec a2 d0 d0 h0 rfl
  exact ⟨h1.1, h2.1, by rw [h1.2, h2.2, he]⟩

/-- scope lookups as final queries of two schedules: `byte_blocks_on` at module / IR scope ... -/
theorem C12_schedule_scope (d0 : D) (h0 : DInv d0) (a1 a2 : List Act) (he : editsOf a1 = editsOf a2)
    (ss : List Nat) (r : Rng) (b : Nat) :
    b ∈ (chain (fun d s => secBlocksOn d s r) (exec d0 a1) ss).2 ↔
    b ∈ (chain (fun d s => secBlocksOn d s r) (exec d0 a2) ss).2 := by
  obtain ⟨h1, h2, hs⟩ := C12_schedule_strip d0 h0 a1 a2 he
  exact chain_answer_of_strip _ (secBlocksOn_keeps r) (fun d d' => secBlocksOn_congr r d d') h1 h2 hs ss b

/-- ... `byte_blocks_at` ... -/
theorem C12_schedule_scope_at (d0 : D) (h0 : DInv d0) (a1 a2 : List Act) (he : editsOf a1 = editsOf a2)
    (ss : List Nat) (r : Rng) (b : Nat) :
    b ∈ (chain (fun d s => secBlocksAt d s r) (exec d0 a1) ss).2 ↔
    b ∈ (chain (fun d s => secBlocksAt d s r) (exec d0 a2) ss).2 := by
  obtain ⟨h1, h2, hs⟩ := C12_schedule_strip d0 h0 a1 a2 he
  exact chain_answer_of_strip _ (secBlocksAt_keeps r) (fun d d' => secBlocksAt_congr r d d') h1 h2 hs ss b

/-- ... `byte_intervals_on` ... -/
theorem C12_schedule_scope_bis_on (d0 : D) (h0 : DInv d0) (a1 a2 : List Act) (he : editsOf a1 = editsOf a2)
    (ss : List Nat) (r : Rng) (x : Nat) :
    x ∈ (chain (fun d s => secBisOn d s r) (exec d0 a1) ss).2 ↔
    x ∈ (chain (fun d s => secBisOn d s r) (exec d0 a2) ss).2 := by
  obtain ⟨h1, h2, hs⟩ := C12_schedule_strip d0 h0 a1 a2 he
  exact chain_answer_of_strip _ (secBisOn_keeps r) (fun d d' => secBisOn_congr r d d') h1 h2 hs ss x

/-- ... `byte_intervals_at` -/
theorem C12_schedule_scope_bis_at (d0 : D) (h0 : DInv d0) (a1 a2 : List Act) (he : editsOf a1 = editsOf a2)
    (ss : List Nat) (r : Rng) (x : Nat) :
    x ∈ (chain (fun d s => secBisAt d s r) (exec d0 a1) ss).2 ↔
    x ∈ (chain (fun d s => secBisAt d s r) (exec d0 a2) ss).2 := by
  obtain ⟨h1, h2, hs⟩ := C12_schedule_strip d0 h0 a1 a2 he
  exact chain_answer_of_strip _ (secBisAt_keeps r) (fun d d' => secBisAt_congr r d d') h1 h2 hs ss x

theorem C12_schedule_sections (d0 : D) (h0 : DInv d0) (a1 a2 : List Act) (he : editsOf a1 = editsOf a2)
    (ss : List Nat) (r : Rng) :
    (secsOn (exec d0 a1) ss r).2 = (secsOn (exec d0 a2) ss r).2 ∧
    (secsAt (exec d0 a1) ss r).2 = (secsAt (exec d0 a2) ss r).2 := by
  obtain ⟨h1, h2, hs⟩ := C12_schedule_strip d0 h0 a1 a2 he
  exact secs_answer_of_strip h1 h2 hs ss r

/-! ### the property's sentence: any schedule of lookups = no lookups at all -/

/-- any schedule of lookups gives the same final answers as no lookups at all
(`(editsOf a).foldl applyEdit d0`: the edits of the history applied with no
lookup in between, so every index that was stale in `d0` is still stale and has
all the events of the history pending) -/
theorem C12_schedule_none (d0 : D) (h0 : DInv d0) (a : List Act) (q : Query) :
    sameAnswer (runQuery (exec d0 a) q).2 (runQuery ((editsOf a).foldl applyEdit d0) q).2 := by
  have h1 := exec_spec a d0 d0 h0 rfl
  exact answer_of_strip q h1.1 (foldl_applyEdit_inv _ d0 h0) h1.2

/-- the same for general histories (arbitrary lookups, creation) -/
theorem C12_schedule_noneG (d0 : D) (h0 : DInv d0) (a : List ActG) (q : Query) :
    sameAnswer (runQuery (execG d0 a) q).2 (runQuery ((editsOfG a).foldl applyEditC d0) q).2 := by
  have h1 := execG_spec a d0 d0 h0 rfl
  exact answer_of_strip q h1.1 (foldl_applyEditC_inv _ d0 h0) h1.2

/-- from the empty state, every final query: nine queries, scope chains, section scans -/
theorem C12_schedule_noneG_all (a : List ActG) :
    (∀ q, sameAnswer (runQuery (execG {} a) q).2 (runQuery ((editsOfG a).foldl applyEditC {}) q).2) ∧
    (∀ ss r b, (b ∈ (chain (fun d s => secBlocksOn d s r) (execG {} a) ss).2 ↔
        b ∈ (chain (fun d s => secBlocksOn d s r) ((editsOfG a).foldl applyEditC {}) ss).2) ∧
      (b ∈ (chain (fun d s => secBlocksAt d s r) (execG {} a) ss).2 ↔
        b ∈ (chain (fun d s => secBlocksAt d s r) ((editsOfG a).foldl applyEditC {}) ss).2) ∧
      (b ∈ (chain (fun d s => secBisOn d s r) (execG {} a) ss).2 ↔
        b ∈ (chain (fun d s => secBisOn d s r) ((editsOfG a).foldl applyEditC {}) ss).2) ∧
      (b ∈ (chain (fun d s => secBisAt d s r) (execG {} a) ss).2 ↔
        b ∈ (chain (fun d s => secBisAt d s r) ((editsOfG a).foldl applyEditC {}) ss).2)) ∧
    (∀ ss r, (secsOn (execG {} a) ss r).2 = (secsOn ((editsOfG a).foldl applyEditC {}) ss r).2 ∧
      (secsAt (execG {} a) ss r).2 = (secsAt ((editsOfG a).foldl applyEditC {}) ss r).2) := by
  have h1 := execG_spec a {} {} dinv_init rfl
  have h2 := foldl_applyEditC_inv (editsOfG a) {} dinv_init
  refine ⟨fun q => answer_of_strip q h1.1 h2 h1.2, fun ss r b => ⟨?_, ?_, ?_, ?_⟩,
    fun ss r => secs_answer_of_strip h1.1 h2 h1.2 ss r⟩
  · exact chain_answer_of_strip _ (secBlocksOn_keeps r) (fun d d' => secBlocksOn_congr r d d') h1.1 h2 h1.2 ss b
  · exact chain_answer_of_strip _ (secBlocksAt_keeps r) (fun d d' => secBlocksAt_congr r d d') h1.1 h2 h1.2 ss b
  · exact chain_answer_of_strip _ (secBisOn_keeps r) (fun d d' => secBisOn_congr r d d') h1.1 h2 h1.2 ss b
  · exact chain_answer_of_strip _ (secBisAt_keeps r) (fun d d' => secBisAt_congr r d d') h1.1 h2 h1.2 ss b

/-! ### concrete examples (non-vacuity) -/

/-- the structure of `exS` (two sections, three intervals, five blocks) built
from NOTHING: creations, attachments, attribute edits, with lookups of every
kind in between (a module-scope chain, a section scan, a `code_` variant, one of
the nine queries) -/
def exGActs : List ActG :=
  [.edit (.newSec 20), .edit (.newSec 21),
   .edit (.newBI 10 (some 100) 32), .edit (.base (.biMove 10 (some 20) true)),
   .look (sectionsLookup ⟨0, 1000, 1⟩ [20, 21]),
   .edit (.newBlk 1 true 0 8), .edit (.base (.blkMove 1 (some 10) true)),
   .edit (.newBlk 2 false 4 8), .edit (.base (.blkMove 2 (some 10) true)),
   .look (scopeLookup ⟨0, 1000, 1⟩ [20, 21]),
   .edit (.newBI 11 (some 200) 16), .edit (.base (.biMove 11 (some 21) true)),
   .edit (.newBlk 3 true 0 4), .edit (.base (.blkMove 3 (some 11) true)),
   .edit (.newBlk 4 true 2 0), .edit (.base (.blkMove 4 (some 11) true)),
   .look (scopeKindLookup true ⟨0, 1000, 1⟩ [20, 21]),
   .edit (.newBI 12 none 16), .edit (.base (.biMove 12 (some 21) true)),
   .edit (.newBlk 5 false 0 4), .edit (.base (.blkMove 5 (some 12) true)),
   .look (queryLookup (.sbon 20 ⟨0, 1000, 1⟩)),
   .edit (.base (.blkSet 1 1 8)), .edit (.base (.biSet 11 (some 204) 16)),
   .edit (.newBlk 1 false 99 99)]   -- id in use: nothing happens

/-- the same structural steps, no lookup at all -/
def exGActs' : List ActG := (editsOfG exGActs).map .edit

def exG : D := execG {} exGActs
def exG' : D := execG {} exGActs'

theorem exG_inv : DInv exG := C12_reachableG exGActs

/-- the lazy states differ (built trees with pending events vs. no tree at all) ... -/
example : (exG.sec? 20).map (fun s => (s.lz.tree.isSome, s.lz.events.length)) = some (true, 0) ∧
    (exG'.sec? 20).map (fun s => (s.lz.tree.isSome, s.lz.events.length)) = some (false, 1) ∧
    (exG.sec? 21).map (fun s => (s.lz.tree.isSome, s.lz.events.length)) = some (true, 2) ∧
    (exG'.sec? 21).map (fun s => (s.lz.tree.isSome, s.lz.events.length)) = some (false, 3) ∧
    (exG.bi? 10).map (fun x => (x.lz.tree.isSome, x.lz.events.length)) = some (true, 2) ∧
    (exG'.bi? 10).map (fun x => (x.lz.tree.isSome, x.lz.events.length)) = some (false, 4) := by decide

/-- ... the structure is that of `exS`, and the answers are those of `exS` -/
example : strip exG = strip exS ∧ strip exG' = strip exS := ⟨by rfl, by rfl⟩
set_option maxRecDepth 8000 in
example : (chain (fun d s => secBlocksOn d s ⟨0, 1000, 1⟩) exG [20, 21]).2 = [1, 2, 3] ∧
    (chain (fun d s => secBlocksOn d s ⟨0, 1000, 1⟩) exG' [20, 21]).2 = [1, 2, 3] ∧
    (secsOn exG [20, 21] ⟨0, 1000, 1⟩).2 = [20] ∧ (secsOn exG' [20, 21] ⟨0, 1000, 1⟩).2 = [20] := by
  decide

example (b : Nat) : b ∈ (chain (fun d s => secBlocksOn d s ⟨0, 1000, 1⟩) exG [20, 21]).2 ↔
    b ∈ (chain (fun d s => secBlocksOn d s ⟨0, 1000, 1⟩) exG' [20, 21]).2 :=
  C12_schedule_scopeG {} dinv_init exGActs exGActs' (editsOfG_map_edit _).symm [20, 21] _ b

example : sameAnswer (runQuery exG (.bat 10 ⟨100, 107, 1⟩)).2 (runQuery exG' (.bat 10 ⟨100, 107, 1⟩)).2 :=
  C12_scheduleG {} dinv_init exGActs exGActs' (editsOfG_map_edit _).symm _

example : (secsOn exG [20, 21] ⟨0, 1000, 1⟩).2 = (secsOn exG' [20, 21] ⟨0, 1000, 1⟩).2 :=
  (C12_schedule_sectionsG {} dinv_init exGActs exGActs' (editsOfG_map_edit _).symm [20, 21] _).1

/-- the histories of `Act` of Props/C05Scopes.lean: `exSActs` against its edits alone -/
example (b : Nat) : b ∈ (chain (fun d s => secBlocksAt d s ⟨0, 1000, 1⟩) exS [20, 21]).2 ↔
    b ∈ (chain (fun d s => secBlocksAt d s ⟨0, 1000, 1⟩)
      (exec exS0 ((editsOf exSActs).map .edit)) [20, 21]).2 :=
  C12_schedule_scope_at exS0 exS0_inv exSActs ((editsOf exSActs).map .edit) (editsOf_map_edit _).symm [20, 21] _ b

example : (secsOn exS [20, 21] ⟨0, 1000, 1⟩).2 =
    (secsOn (exec exS0 ((editsOf exSActs).map .edit)) [20, 21] ⟨0, 1000, 1⟩).2 :=
  (C12_schedule_sections exS0 exS0_inv exSActs ((editsOf exSActs).map .edit) (editsOf_map_edit _).symm [20, 21] _).1

example : sameAnswer (runQuery exS (.sbat 21 ⟨200, 210, 1⟩)).2
    (runQuery ((editsOf exSActs).foldl applyEdit exS0) (.sbat 21 ⟨200, 210, 1⟩)).2 :=
  C12_schedule_none exS0 exS0_inv exSActs _

/-- the data-only histories with creation -/
def exCActs : List ActC :=
  [.edit (.newSec 20), .edit (.newBI 10 (some 100) 32), .edit (.base (.biMove 10 (some 20) true)),
   .look (.ext 20), .edit (.newBlk 1 true 0 8), .edit (.base (.blkMove 1 (some 10) true)),
   .look (.sbon 20 ⟨0, 1000, 1⟩), .edit (.newBlk 2 false 4 8), .edit (.base (.blkMove 2 (some 10) true))]

example : DInv (execC {} exCActs) := C12_reachable exCActs
example : (secBlocksOn (execC {} exCActs) 20 ⟨0, 1000, 1⟩).2 = [1, 2] ∧
    kindOnly (execC {} exCActs) false (secBlocksOn (execC {} exCActs) 20 ⟨0, 1000, 1⟩).2 = [2] := by
  decide

/-- creation of an id that is in use is a no-op -/
example : newBlk exD 1 false 99 99 = exD ∧ (newBlk exD 7 false 99 99).blks.length = 4 := by
  constructor
  · rfl
  · decide

end Gtirb.Index
