import GtirbModel.CfgKeyed
import GtirbProofs.Props.C11
/-! C11, mechanism level: the keyed multigraph store of `GtirbModel/CfgKeyed.lean`
(`_edge_key` search, networkx key allocation, `remove_edge` by key) refines the
duplicate-free edge list of `GtirbModel/Cfg.lean` operation by operation. -/
namespace Gtirb.Cfg

/-! ### the representation invariant -/

/-- the `(source, target, key)` triples in use -/
def keyTriples (g : MStore) : List (Nat × Nat × Nat) := g.map fun m => (m.src, m.dst, m.key)

/-- `keys`: within one `(source, target)` key dict every key occurs once (a Python dict);
`labels`: no two parallel edges carry equal labels (`abs g` is duplicate-free) -/
structure MInv (g : MStore) : Prop where
  keys : (keyTriples g).Nodup
  labels : (abs g).Nodup

instance (g : MStore) : Decidable (MInv g) :=
  decidable_of_iff ((keyTriples g).Nodup ∧ (abs g).Nodup)
    ⟨fun h => ⟨h.1, h.2⟩, fun h => ⟨h.1, h.2⟩⟩

theorem MInv.nil : MInv [] := ⟨List.nodup_nil, List.nodup_nil⟩

/-! ### `_edge_key` -/

theorem toEdge_eq_iff (m : MEdge) (e : Edge) :
    m.toEdge = e ↔ m.src = e.src ∧ m.dst = e.dst ∧ m.label = e.label := by
  cases e; simp [MEdge.toEdge]

theorem edgeKey_nil (e : Edge) : edgeKey [] e = none := rfl

theorem edgeKey_cons (m : MEdge) (g : MStore) (e : Edge) :
    edgeKey (m :: g) e = if m.toEdge = e then some m.key else edgeKey g e := by
  unfold edgeKey keydict
  simp only [toEdge_eq_iff]
  by_cases h1 : m.src = e.src <;> by_cases h2 : m.dst = e.dst <;> by_cases h3 : m.label = e.label <;>
    simp [h1, h2, h3]

/-- the key found belongs to an entry of that very edge -/
theorem edgeKey_some (g : MStore) (e : Edge) (k : Nat) (h : edgeKey g e = some k) :
    ∃ m, m ∈ g ∧ m.toEdge = e ∧ m.key = k := by
  induction g with
  | nil => cases h
  | cons m g ih =>
    rw [edgeKey_cons] at h
    split at h
    next hm =>
      cases h
      exact ⟨m, List.mem_cons_self, hm, rfl⟩
    next hm =>
      obtain ⟨m', hm', h1, h2⟩ := ih h
      exact ⟨m', List.mem_cons_of_mem _ hm', h1, h2⟩

theorem mContains_iff (g : MStore) (e : Edge) : mContains g e = true ↔ e ∈ abs g := by
  induction g with
  | nil => simp [mContains, edgeKey_nil, abs]
  | cons m g ih =>
    unfold mContains at *
    rw [edgeKey_cons]
    by_cases h : m.toEdge = e
    · simp [h, abs]
    · have h' : ¬ e = m.toEdge := fun h' => h h'.symm
      simp only [h, if_false, ih]
      simp [abs, h']

/-- `__contains__` (the `_edge_key` search) is membership of the abstract store -/
theorem C11_refine_contains (g : MStore) (e : Edge) :
    (edgeKey g e).isSome = contains (abs g) e := by
  have h := mContains_iff g e
  rw [← C11_contains] at h
  unfold mContains at h
  cases h1 : (edgeKey g e).isSome <;> cases h2 : contains (abs g) e <;> simp_all

theorem mContains_eq (g : MStore) (e : Edge) : mContains g e = contains (abs g) e :=
  C11_refine_contains g e

theorem edgeKey_eq_none (g : MStore) (e : Edge) : edgeKey g e = none ↔ e ∉ abs g := by
  rw [← mContains_iff]; unfold mContains
  cases edgeKey g e <;> simp

/-! ### key allocation -/

theorem countP_ge_succ_le (ks : List Nat) (k : Nat) :
    ks.countP (fun x => decide (k + 1 ≤ x)) ≤ ks.countP (fun x => decide (k ≤ x)) := by
  induction ks with
  | nil => simp
  | cons a ks ih =>
    simp only [List.countP_cons]
    by_cases h1 : k + 1 ≤ a <;> by_cases h2 : k ≤ a <;> simp [h1, h2] <;> omega

theorem countP_ge_succ_lt (ks : List Nat) (k : Nat) (h : k ∈ ks) :
    ks.countP (fun x => decide (k + 1 ≤ x)) < ks.countP (fun x => decide (k ≤ x)) := by
  induction ks with
  | nil => cases h
  | cons a ks ih =>
    simp only [List.countP_cons]
    rcases List.mem_cons.1 h with rfl | h'
    · have := countP_ge_succ_le ks k
      have h1 : ¬ k + 1 ≤ k := by omega
      simp [h1]; omega
    · have := ih h'
      by_cases h1 : k + 1 ≤ a <;> by_cases h2 : k ≤ a <;> simp [h1, h2] <;> omega

theorem bumpKey_fresh (ks : List Nat) (fuel k : Nat)
    (h : ks.countP (fun x => decide (k ≤ x)) < fuel) : bumpKey ks fuel k ∉ ks := by
  induction fuel generalizing k with
  | zero => omega
  | succ fuel ih =>
    unfold bumpKey
    split
    next hc =>
      have hm : k ∈ ks := by simpa using hc
      apply ih
      have := countP_ge_succ_lt ks k hm
      omega
    next hc => simpa using hc

theorem newKey_not_mem (g : MStore) (s d : Nat) :
    newKey g s d ∉ (keydict g s d).map (·.key) := by
  unfold newKey
  apply bumpKey_fresh
  have := List.countP_le_length (p := fun x => decide (((keydict g s d).map (·.key)).length ≤ x))
    (l := (keydict g s d).map (·.key))
  omega

/-- the allocated key is not in use between that ordered pair -/
theorem C11_newKey_fresh (g : MStore) (s d : Nat) :
    ∀ m, m ∈ g → m.src = s → m.dst = d → m.key ≠ newKey g s d := by
  intro m hm hs hd hk
  apply newKey_not_mem g s d
  rw [← hk]
  apply List.mem_map.2
  refine ⟨m, ?_, rfl⟩
  unfold keydict
  simp [hm, hs, hd]

/-- when the number of parallel edges is itself free (no discard has left a hole below),
it is the key -/
theorem newKey_eq_length (g : MStore) (s d : Nat)
    (h : (keydict g s d).length ∉ (keydict g s d).map (·.key)) :
    newKey g s d = (keydict g s d).length := by
  have hc : ((keydict g s d).map (·.key)).contains ((keydict g s d).map (·.key)).length
      = false := by
    simpa using h
  unfold newKey
  show bumpKey _ (_ + 1) _ = _
  unfold bumpKey
  rw [if_neg (by rw [hc]; simp)]
  simp

/-! ### add -/

theorem abs_mAdd (g : MStore) (e : Edge) : abs (mAdd g e) = add (abs g) e := by
  unfold mAdd add
  rw [mContains_eq]
  split
  · rfl
  · simp [nxAddEdge, abs, MEdge.toEdge]

theorem C11_refine_add (g : MStore) (e : Edge) (h : MInv g) :
    MInv (mAdd g e) ∧ abs (mAdd g e) = add (abs g) e := by
  refine ⟨⟨?_, by rw [abs_mAdd]; exact add_inv _ _ h.labels⟩, abs_mAdd g e⟩
  unfold mAdd
  split
  · exact h.keys
  · unfold nxAddEdge keyTriples
    rw [List.map_append, List.nodup_append]
    refine ⟨h.keys, by simp, ?_⟩
    intro a ha b hb
    simp only [List.map_cons, List.map_nil, List.mem_singleton] at hb
    subst hb
    intro hab
    subst hab
    obtain ⟨m, hm, hmeq⟩ := List.mem_map.1 ha
    simp only [Prod.mk.injEq] at hmeq
    exact C11_newKey_fresh g _ _ m hm hmeq.1 hmeq.2.1 hmeq.2.2

/-! ### discard -/

theorem mDiscard_of_some (g : MStore) (e : Edge) (k : Nat) (h : edgeKey g e = some k) :
    mDiscard g e = nxRemoveEdge g e.src e.dst k := by
  simp [mDiscard, h]

theorem mDiscard_of_none (g : MStore) (e : Edge) (h : edgeKey g e = none) :
    mDiscard g e = g := by
  simp [mDiscard, h]

theorem mDiscard_sublist (g : MStore) (e : Edge) : (mDiscard g e).Sublist g := by
  unfold mDiscard
  split
  · exact List.filter_sublist
  · exact List.Sublist.refl g

theorem keyTriples_cons (m : MEdge) (g : MStore) :
    keyTriples (m :: g) = (m.src, m.dst, m.key) :: keyTriples g := rfl

/-- only key uniqueness is needed: `remove_edge` by key deletes the one entry that
`_edge_key` found, which is the first occurrence of the edge -/
theorem abs_mDiscard (g : MStore) (e : Edge) (h : (keyTriples g).Nodup) :
    abs (mDiscard g e) = discard (abs g) e := by
  induction g with
  | nil => rfl
  | cons m g ih =>
    rw [keyTriples_cons, List.nodup_cons] at h
    obtain ⟨hm, hg⟩ := h
    have ih := ih hg
    by_cases hme : m.toEdge = e
    · have hk : edgeKey (m :: g) e = some m.key := by rw [edgeKey_cons]; simp [hme]
      rw [mDiscard_of_some _ _ _ hk]
      obtain ⟨h1, h2, _⟩ := (toEdge_eq_iff m e).1 hme
      have hfil : nxRemoveEdge (m :: g) e.src e.dst m.key = g := by
        unfold nxRemoveEdge
        rw [List.filter_cons]
        simp only [h1, h2, beq_self_eq_true, Bool.and_self, Bool.not_true, Bool.false_eq_true,
          if_false]
        apply List.filter_eq_self.2
        intro x hx
        simp only [Bool.not_eq_eq_eq_not, Bool.not_true, Bool.and_eq_false_imp, Bool.and_eq_true,
          beq_iff_eq, beq_eq_false_iff_ne, ne_eq, and_imp]
        intro hxs hxd hxk
        apply hm
        apply List.mem_map.2
        exact ⟨x, hx, by simp [hxs, hxd, hxk, h1, h2]⟩
      rw [hfil]
      unfold discard abs
      rw [List.map_cons, hme, List.erase_cons_head]
    · have hk : edgeKey (m :: g) e = edgeKey g e := by rw [edgeKey_cons]; simp [hme]
      have herase : discard (abs (m :: g)) e = m.toEdge :: discard (abs g) e := by
        unfold discard abs
        rw [List.map_cons, List.erase_cons_tail]
        simpa using hme
      rw [herase, ← ih]
      cases hk' : edgeKey g e with
      | none =>
        rw [mDiscard_of_none _ _ (hk.trans hk'), mDiscard_of_none _ _ hk']
        rfl
      | some k =>
        rw [mDiscard_of_some _ _ _ (hk.trans hk'), mDiscard_of_some _ _ _ hk']
        obtain ⟨m', hm', hm'e, hm'k⟩ := edgeKey_some g e k hk'
        obtain ⟨h1, h2, _⟩ := (toEdge_eq_iff m' e).1 hm'e
        unfold nxRemoveEdge
        rw [List.filter_cons]
        have hkeep : (!(m.src == e.src && m.dst == e.dst && m.key == k)) = true := by
          simp only [Bool.not_eq_eq_eq_not, Bool.not_true, Bool.and_eq_false_imp, Bool.and_eq_true,
            beq_iff_eq, beq_eq_false_iff_ne, ne_eq, and_imp]
          intro hs hd hkk
          apply hm
          apply List.mem_map.2
          exact ⟨m', hm', by simp [hs, hd, hkk, h1, h2, hm'k]⟩
        rw [if_pos hkeep]
        rfl

theorem C11_refine_discard (g : MStore) (e : Edge) (h : MInv g) :
    MInv (mDiscard g e) ∧ abs (mDiscard g e) = discard (abs g) e := by
  have ha := abs_mDiscard g e h.keys
  refine ⟨⟨?_, by rw [ha]; exact discard_inv _ _ h.labels⟩, ha⟩
  exact List.Nodup.sublist ((mDiscard_sublist g e).map _) h.keys

/-! ### clear, iteration, length, adjacency views -/

theorem C11_refine_clear (g : MStore) : MInv (mClear g) ∧ abs (mClear g) = clear (abs g) :=
  ⟨MInv.nil, rfl⟩

/-- iteration enumerates exactly the abstract store; under the invariant every edge once -/
theorem C11_refine_iter (g : MStore) : mEdges g = abs g ∧ mLen g = (abs g).length ∧
    (MInv g → (mEdges g).Nodup) :=
  ⟨rfl, by simp [mLen, abs], fun h => h.labels⟩

theorem C11_refine_out (g : MStore) (n : Nat) :
    mOutEdges g n = outEdges (abs g) n ∧ abs (g.filter (·.src == n)) = outEdges (abs g) n := by
  have : abs (g.filter (·.src == n)) = outEdges (abs g) n := by
    unfold abs outEdges
    rw [List.filter_map]
    rfl
  exact ⟨this, this⟩

theorem C11_refine_in (g : MStore) (n : Nat) :
    mInEdges g n = inEdges (abs g) n ∧ abs (g.filter (·.dst == n)) = inEdges (abs g) n := by
  have : abs (g.filter (·.dst == n)) = inEdges (abs g) n := by
    unfold abs inEdges
    rw [List.filter_map]
    rfl
  exact ⟨this, this⟩

/-! ### the `MutableSet` mixins: loops over `add` / `discard` -/

theorem refine_foldl {α : Type} (f : MStore → α → MStore) (f' : Store → α → Store)
    (hf : ∀ g a, MInv g → MInv (f g a) ∧ abs (f g a) = f' (abs g) a)
    (xs : List α) (g : MStore) (h : MInv g) :
    MInv (xs.foldl f g) ∧ abs (xs.foldl f g) = xs.foldl f' (abs g) := by
  induction xs generalizing g with
  | nil => exact ⟨h, rfl⟩
  | cons a xs ih =>
    obtain ⟨h1, h2⟩ := hf g a h
    rw [List.foldl_cons, List.foldl_cons, ← h2]
    exact ih _ h1

theorem refine_update (g : MStore) (es : List Edge) (h : MInv g) :
    MInv (mUpdate g es) ∧ abs (mUpdate g es) = update (abs g) es :=
  refine_foldl mAdd add C11_refine_add es g h

theorem refine_isub (g : MStore) (es : List Edge) (h : MInv g) :
    MInv (mIsub g es) ∧ abs (mIsub g es) = isub (abs g) es :=
  refine_foldl mDiscard discard C11_refine_discard es g h

theorem refine_iand (g : MStore) (es : List Edge) (h : MInv g) :
    MInv (mIand g es) ∧ abs (mIand g es) = iand (abs g) es :=
  refine_foldl mDiscard discard C11_refine_discard _ g h

theorem refine_ixor (g : MStore) (es : List Edge) (h : MInv g) :
    MInv (mIxor g es) ∧ abs (mIxor g es) = ixor (abs g) es := by
  refine refine_foldl (fun g e => if mContains g e then mDiscard g e else mAdd g e)
    (fun g e => if contains g e then discard g e else add g e) ?_ es g h
  intro g e hg
  simp only [mContains_eq]
  split
  · exact C11_refine_discard g e hg
  · exact C11_refine_add g e hg

/-! ### one operation: the commuting square -/

/-- `mStep` and `Cfg.step` commute through `abs` (same successor store, same failures), and
the representation invariant is preserved -/
theorem C11_refine_step (g : MStore) (op : Op) (h : MInv g) :
    (mStep g op).map abs = step (abs g) op ∧ ∀ g', mStep g op = some g' → MInv g' := by
  cases op with
  | add e =>
    refine ⟨congrArg some (C11_refine_add g e h).2, ?_⟩
    intro g' hg'; cases hg'; exact (C11_refine_add g e h).1
  | discard e =>
    refine ⟨congrArg some (C11_refine_discard g e h).2, ?_⟩
    intro g' hg'; cases hg'; exact (C11_refine_discard g e h).1
  | remove e =>
    simp only [mStep, step, mRemove, remove, mContains_eq]
    split
    · refine ⟨congrArg some (C11_refine_discard g e h).2, ?_⟩
      intro g' hg'; cases hg'; exact (C11_refine_discard g e h).1
    · exact ⟨rfl, fun g' hg' => by cases hg'⟩
  | pop e =>
    simp only [mStep, step, mPopReported, popReported, mContains_eq]
    split
    · refine ⟨congrArg some (C11_refine_discard g e h).2, ?_⟩
      intro g' hg'; cases hg'; exact (C11_refine_discard g e h).1
    · exact ⟨rfl, fun g' hg' => by cases hg'⟩
  | clear =>
    refine ⟨rfl, ?_⟩
    intro g' hg'; cases hg'; exact MInv.nil
  | update es =>
    refine ⟨congrArg some (refine_update g es h).2, ?_⟩
    intro g' hg'; cases hg'; exact (refine_update g es h).1
  | ior es =>
    refine ⟨congrArg some (refine_update g es h).2, ?_⟩
    intro g' hg'; cases hg'; exact (refine_update g es h).1
  | iand es =>
    refine ⟨congrArg some (refine_iand g es h).2, ?_⟩
    intro g' hg'; cases hg'; exact (refine_iand g es h).1
  | isub es =>
    refine ⟨congrArg some (refine_isub g es h).2, ?_⟩
    intro g' hg'; cases hg'; exact (refine_isub g es h).1
  | ixor es =>
    refine ⟨congrArg some (refine_ixor g es h).2, ?_⟩
    intro g' hg'; cases hg'; exact (refine_ixor g es h).1

/-- the keyed store fails exactly when the set-level store does -/
theorem C11_refine_step_error (g : MStore) (op : Op) (h : MInv g) :
    mStep g op = none ↔ step (abs g) op = none := by
  rw [← (C11_refine_step g op h).1]
  cases mStep g op <;> simp

/-! ### histories -/

theorem C11_refine_run (g : MStore) (ops : List Op) (h : MInv g) :
    MInv (mRun g ops) ∧ abs (mRun g ops) = run (abs g) ops := by
  unfold mRun run
  induction ops generalizing g with
  | nil => exact ⟨h, rfl⟩
  | cons op ops ih =>
    rw [List.foldl_cons, List.foldl_cons]
    obtain ⟨hsq, hinv⟩ := C11_refine_step g op h
    cases hs : mStep g op with
    | none =>
      rw [hs] at hsq
      rw [← hsq]
      exact ih g h
    | some g' =>
      rw [hs] at hsq
      rw [← hsq]
      exact ih g' (hinv g' hs)

/-- every store reachable through the public operations from the empty CFG satisfies the
representation invariant and abstracts to the set-level store reached by the same history -/
theorem C11_refine_history (ops : List Op) :
    MInv (mRun [] ops) ∧ abs (mRun [] ops) = run [] ops :=
  C11_refine_run [] ops MInv.nil

/-- all observations of a reachable keyed store are those of the set-level store -/
theorem C11_keyed_history (ops : List Op) :
    MInv (mRun [] ops) ∧ mEdges (mRun [] ops) = run [] ops ∧
    mLen (mRun [] ops) = (run [] ops).length ∧
    (∀ e, mContains (mRun [] ops) e = contains (run [] ops) e) ∧
    (∀ n, mOutEdges (mRun [] ops) n = outEdges (run [] ops) n) ∧
    (∀ n, mInEdges (mRun [] ops) n = inEdges (run [] ops) n) := by
  obtain ⟨hi, ha⟩ := C11_refine_history ops
  refine ⟨hi, ha, ?_, ?_, ?_, ?_⟩
  · rw [← ha]; exact (C11_refine_iter _).2.1
  · intro e; rw [← ha]; exact mContains_eq _ e
  · intro n; rw [← ha]; exact (C11_refine_out _ n).1
  · intro n; rw [← ha]; exact (C11_refine_in _ n).1

/-! ### P8: one spec-level statement over set membership -/

/-- the mathematical-set transformer of every operation -/
def specStep (S : Edge → Prop) : Op → Edge → Prop
  | .add e => fun x => S x ∨ x = e
  | .discard e => fun x => S x ∧ x ≠ e
  | .remove e => fun x => S x ∧ x ≠ e
  | .pop e => fun x => S x ∧ x ≠ e
  | .clear => fun _ => False
  | .update es => fun x => S x ∨ x ∈ es
  | .ior es => fun x => S x ∨ x ∈ es
  | .iand es => fun x => S x ∧ x ∈ es
  | .isub es => fun x => S x ∧ x ∉ es
  | .ixor es => fun x => (S x ∧ x ∉ es) ∨ (¬ S x ∧ x ∈ es)

/-- when the operation fails: `remove` / reported `pop` of a non-member -/
def specFails (S : Edge → Prop) : Op → Prop
  | .remove e => ¬ S e
  | .pop e => ¬ S e
  | _ => False

theorem C11_step_refines (g g' : Store) (op : Op) (hg : CfgInv g)
    (hx : ∀ es, op = .ixor es → es.Nodup) (hs : step g op = some g') :
    ∀ x, x ∈ g' ↔ specStep (· ∈ g) op x := by
  intro x
  cases op with
  | add e => cases hs; exact C11_add_mem g e x
  | discard e => cases hs; exact C11_discard_mem g e x hg
  | remove e =>
    simp only [step, C11_remove] at hs
    split at hs
    · cases hs; exact C11_discard_mem g e x hg
    · cases hs
  | pop e =>
    simp only [step, C11_pop] at hs
    split at hs
    · cases hs; exact C11_discard_mem g e x hg
    · cases hs
  | clear => cases hs; simp [specStep]
  | update es => cases hs; exact C11_update_mem g es x
  | ior es => cases hs; exact C11_ior_mem g es x
  | iand es => cases hs; exact C11_iand_mem g es x hg
  | isub es => cases hs; exact C11_isub_mem g es x hg
  | ixor es => cases hs; exact C11_ixor_mem g es x hg (hx es rfl)

theorem C11_step_fails (g : Store) (op : Op) : step g op = none ↔ specFails (· ∈ g) op := by
  cases op with
  | remove e => simp only [step, C11_remove, specFails]; by_cases h : e ∈ g <;> simp [h]
  | pop e => simp only [step, C11_pop, specFails]; by_cases h : e ∈ g <;> simp [h]
  | _ => simp [step, specFails]

/-- the same statement for the mechanism: what `__contains__` answers after an operation of
the keyed store is the set transformer applied to what it answered before -/
theorem C11_keyed_step_refines (g g' : MStore) (op : Op) (hg : MInv g)
    (hx : ∀ es, op = .ixor es → es.Nodup) (hs : mStep g op = some g') :
    MInv g' ∧ ∀ x, mContains g' x = true ↔ specStep (fun y => mContains g y = true) op x := by
  obtain ⟨hsq, hinv⟩ := C11_refine_step g op hg
  refine ⟨hinv g' hs, ?_⟩
  rw [hs] at hsq
  have h := C11_step_refines (abs g) (abs g') op hg.labels hx hsq.symm
  intro x
  rw [mContains_iff, h x]
  have hS : (fun y => mContains g y = true) = (· ∈ abs g) := by
    funext y; exact propext (mContains_iff g y)
  rw [hS]

theorem C11_keyed_step_fails (g : MStore) (op : Op) (hg : MInv g) :
    mStep g op = none ↔ specFails (fun y => mContains g y = true) op := by
  have hS : (fun y => mContains g y = true) = (· ∈ abs g) := by
    funext y; exact propext (mContains_iff g y)
  rw [C11_refine_step_error g op hg, C11_step_fails, hS]

/-! ### `pop` with separate outcomes -/

/-- `pop()` raising `KeyError` is a valid observation exactly of the empty CFG -/
theorem C11_pop_keyError (g : MStore) :
    (kStep g .popKeyError = .keyError ↔ g = []) ∧
    (kStep g .popKeyError = .invalid ↔ g ≠ []) ∧ ∀ g', kStep g .popKeyError ≠ .ok g' := by
  cases g <;> simp [kStep]

/-- `pop()` returning `e` is a valid observation exactly when `e` is a member; then the
successor is the store with `e` discarded; it is never a `KeyError` -/
theorem C11_pop_reported (g : MStore) (e : Edge) :
    kStep g (.base (.pop e)) = if e ∈ abs g then .ok (mDiscard g e) else .invalid := by
  unfold kStep
  by_cases h : e ∈ abs g
  · simp [h, (mContains_iff g e).2 h]
  · have : mContains g e = false := by
      cases hc : mContains g e
      · rfl
      · exact absurd ((mContains_iff g e).1 hc) h
    simp [h, this]

theorem C11_kStep_ok (g g' : MStore) (op : Op) :
    kStep g (.base op) = .ok g' ↔ mStep g op = some g' := by
  cases op with
  | pop e =>
    simp only [kStep, mStep, mPopReported]
    split <;> simp
  | _ =>
    simp only [kStep]
    split <;> simp_all

/-- `KeyError` is raised by `remove` of a non-member and by `pop` of the empty CFG only -/
theorem C11_kStep_keyError (g : MStore) (kop : KOp) :
    kStep g kop = .keyError ↔
      (kop = .popKeyError ∧ g = []) ∨ (∃ e, kop = .base (.remove e) ∧ e ∉ abs g) := by
  cases kop with
  | popKeyError =>
    simp only [(C11_pop_keyError g).1, true_and, reduceCtorEq, false_and, exists_false, or_false]
  | base op =>
    cases op with
    | pop e => rw [C11_pop_reported]; split <;> simp
    | remove e =>
      simp only [kStep, mStep, mRemove]
      by_cases h : e ∈ abs g
      · simp [h, (mContains_iff g e).2 h]
      · have : mContains g e = false := by
          cases hc : mContains g e
          · rfl
          · exact absurd ((mContains_iff g e).1 hc) h
        simp [h, this]
    | _ => simp [kStep, mStep]

/-- an observation is rejected as impossible only for `pop`: a `KeyError` from a non-empty
CFG, or a returned edge that was not a member -/
theorem C11_kStep_invalid (g : MStore) (kop : KOp) :
    kStep g kop = .invalid ↔
      (kop = .popKeyError ∧ g ≠ []) ∨ (∃ e, kop = .base (.pop e) ∧ e ∉ abs g) := by
  cases kop with
  | popKeyError =>
    simp only [(C11_pop_keyError g).2.1, true_and, reduceCtorEq, false_and, exists_false, or_false]
  | base op =>
    cases op with
    | pop e => rw [C11_pop_reported]; split <;> simp_all
    | remove e =>
      simp only [kStep, mStep, mRemove]
      split <;> simp_all
    | _ => simp [kStep, mStep]

/-! ### the multigraph's grouped enumeration is a permutation of the store -/

theorem filter_append_perm {α : Type} (p q : α → Bool) (l : List α)
    (hpq : ∀ x, x ∈ l → ¬ (p x = true ∧ q x = true)) :
    (l.filter p ++ l.filter q).Perm (l.filter fun x => p x || q x) := by
  induction l with
  | nil => simp
  | cons a l ih =>
    have ih := ih fun x hx => hpq x (List.mem_cons_of_mem _ hx)
    have ha := hpq a List.mem_cons_self
    cases hp : p a <;> cases hq : q a
    · simpa [List.filter_cons, hp, hq] using ih
    · simp only [List.filter_cons, hp, hq, Bool.false_eq_true, if_false, if_true, Bool.or_true]
      exact List.perm_middle.trans (ih.cons a)
    · simp only [List.filter_cons, hp, hq, Bool.false_eq_true, if_false, if_true, Bool.or_false,
        List.cons_append]
      exact ih.cons a
    · exact absurd ⟨hp, hq⟩ ha

theorem flatMap_filter_perm {α : Type} (f : α → Nat) (l : List α) (ns : List Nat)
    (hns : ns.Nodup) :
    (ns.flatMap fun n => l.filter fun x => f x == n).Perm (l.filter fun x => ns.contains (f x)) := by
  induction ns with
  | nil => simp
  | cons n ns ih =>
    rw [List.nodup_cons] at hns
    rw [List.flatMap_cons]
    refine ((ih hns.2).append_left _).trans ?_
    refine (filter_append_perm _ _ l ?_).trans ?_
    · intro x _ ⟨h1, h2⟩
      have h1 : f x = n := by simpa using h1
      have h2 : f x ∈ ns := by simpa using h2
      exact hns.1 (h1 ▸ h2)
    · apply List.Perm.of_eq
      apply List.filter_congr
      intro x _
      by_cases hx : f x = n
      · simp [hx]
      · simp [hx]

/-- `MultiDiGraph.edges()` enumerates node by node; whatever the (duplicate-free) node order,
provided it covers the sources, the result is the store up to order -/
theorem C11_refine_iter_grouped (g : MStore) (ns : List Nat) (hns : ns.Nodup)
    (hall : ∀ m, m ∈ g → m.src ∈ ns) : (mEdgesBy ns g).Perm (abs g) := by
  have h := (flatMap_filter_perm (fun m : MEdge => m.src) g ns hns).map MEdge.toEdge
  have hfil : (g.filter fun x => ns.contains x.src) = g := by
    apply List.filter_eq_self.2
    intro m hm
    simpa using hall m hm
  rw [hfil, List.map_flatMap] at h
  exact h

/-! ### concrete instances

`kF` is the all-false label (`Branch`, not conditional, not direct), which is a label and not
a missing label. `kOps`: three parallel edges `0 -> 1` (no label, all-false label, another
label), two parallel self-loops, a discard that leaves a hole in the keys of `(0, 1)`, two
more adds on that pair, a failing `remove`, `^=`, `&=`, `-=`. -/

def kF : Label := ⟨0, false, false⟩
def kL1 : Label := ⟨1, false, true⟩
def kL2 : Label := ⟨1, true, false⟩
def kL3 : Label := ⟨2, false, true⟩

def kOps : List Op :=
  [.add ⟨0, 1, none⟩, .add ⟨0, 1, some kF⟩, .add ⟨0, 1, some kL2⟩, .add ⟨0, 1, some kF⟩,
   .add ⟨2, 2, none⟩, .add ⟨2, 2, some kF⟩, .discard ⟨0, 1, none⟩, .add ⟨0, 1, some kL3⟩,
   .add ⟨0, 1, none⟩, .remove ⟨3, 3, none⟩, .add ⟨1, 0, none⟩]

def kG : MStore := mRun [] kOps

/-- the keys: `(0,1)` lost key 0 and received 3 and 4 (the count of parallel edges, 2 and then
3, was taken both times); the self-loop pair and `(1,0)` have their own key spaces -/
example : kG = [⟨0, 1, 1, some kF⟩, ⟨0, 1, 2, some kL2⟩, ⟨2, 2, 0, none⟩, ⟨2, 2, 1, some kF⟩,
    ⟨0, 1, 3, some kL3⟩, ⟨0, 1, 4, none⟩, ⟨1, 0, 0, none⟩] := by decide

example : MInv kG ∧ abs kG = run [] kOps := C11_refine_history kOps

example : MInv kG := by decide

-- `C11_refine_contains`: the all-false label and the missing label are different members
example : mContains kG ⟨0, 1, none⟩ = true ∧ mContains kG ⟨0, 1, some kF⟩ = true ∧
    mContains kG ⟨1, 0, some kF⟩ = false ∧ mContains kG ⟨1, 0, none⟩ = true ∧
    mContains kG ⟨2, 2, some kF⟩ = true ∧ mContains kG ⟨2, 2, some kL1⟩ = false ∧
    edgeKey kG ⟨0, 1, none⟩ = some 4 ∧ edgeKey kG ⟨2, 2, some kF⟩ = some 1 ∧
    contains (abs kG) ⟨0, 1, none⟩ = true ∧ contains (abs kG) ⟨1, 0, some kF⟩ = false := by
  decide

-- `C11_refine_add` / `C11_newKey_fresh`: adding a fourth and a fifth label to `(0, 1)`
example : newKey kG 0 1 = 5 ∧ newKey kG 2 2 = 2 ∧ newKey kG 1 0 = 1 ∧ newKey kG 1 1 = 0 ∧
    mAdd kG ⟨0, 1, some kL1⟩ = kG ++ [⟨0, 1, 5, some kL1⟩] ∧ mAdd kG ⟨0, 1, none⟩ = kG ∧
    abs (mAdd kG ⟨0, 1, some kL1⟩) = add (abs kG) ⟨0, 1, some kL1⟩ ∧
    MInv (mAdd kG ⟨0, 1, some kL1⟩) := by decide

-- `C11_refine_discard`: `remove_edge` by key takes out one of the parallel edges
example : mDiscard kG ⟨0, 1, some kL2⟩ = [⟨0, 1, 1, some kF⟩, ⟨2, 2, 0, none⟩,
      ⟨2, 2, 1, some kF⟩, ⟨0, 1, 3, some kL3⟩, ⟨0, 1, 4, none⟩, ⟨1, 0, 0, none⟩] ∧
    abs (mDiscard kG ⟨0, 1, some kL2⟩) = discard (abs kG) ⟨0, 1, some kL2⟩ ∧
    mDiscard kG ⟨2, 2, some kL2⟩ = kG ∧
    newKey (mDiscard kG ⟨0, 1, some kL2⟩) 0 1 = 5 ∧
    newKey (mDiscard (mDiscard kG ⟨0, 1, some kL2⟩) ⟨0, 1, some kF⟩) 0 1 = 2 := by decide

/-- the `keys` half of the invariant is needed for `C11_refine_discard`: with a repeated
key (impossible in a dict) `remove_edge` by key would take out two edges -/
example :
    let bad : MStore := [⟨0, 1, 0, none⟩, ⟨0, 1, 0, some kF⟩]
    (abs bad).Nodup ∧ ¬ MInv bad ∧ abs (mDiscard bad ⟨0, 1, none⟩) = [] ∧
    discard (abs bad) ⟨0, 1, none⟩ = [⟨0, 1, some kF⟩] := by decide

-- `C11_refine_out` / `C11_refine_in` / `C11_refine_iter`: the self-loops are in both views of 2
example : mOutEdges kG 2 = [⟨2, 2, none⟩, ⟨2, 2, some kF⟩] ∧
    mInEdges kG 2 = [⟨2, 2, none⟩, ⟨2, 2, some kF⟩] ∧
    mInEdges kG 1 = [⟨0, 1, some kF⟩, ⟨0, 1, some kL2⟩, ⟨0, 1, some kL3⟩, ⟨0, 1, none⟩] ∧
    mOutEdges kG 1 = [⟨1, 0, none⟩] ∧ mOutEdges kG 3 = [] ∧ mLen kG = 7 ∧
    mOutEdges kG 0 = outEdges (abs kG) 0 ∧ mInEdges kG 0 = inEdges (abs kG) 0 := by decide

-- `C11_refine_iter_grouped`: node order 2, 0, 1 (any order of the node dict)
example : mEdgesBy [2, 0, 1] kG = [⟨2, 2, none⟩, ⟨2, 2, some kF⟩, ⟨0, 1, some kF⟩,
      ⟨0, 1, some kL2⟩, ⟨0, 1, some kL3⟩, ⟨0, 1, none⟩, ⟨1, 0, none⟩] ∧
    (mEdgesBy [2, 0, 1] kG).Perm (abs kG) :=
  ⟨by decide, C11_refine_iter_grouped kG [2, 0, 1] (by decide) (by decide)⟩

-- `C11_refine_step` on the mixins, from a store with parallel edges and holes in the keys
example :
    (mStep kG (.ixor [⟨0, 1, none⟩, ⟨0, 1, some kL1⟩, ⟨2, 2, some kF⟩, ⟨1, 1, none⟩])).map abs
      = step (abs kG) (.ixor [⟨0, 1, none⟩, ⟨0, 1, some kL1⟩, ⟨2, 2, some kF⟩, ⟨1, 1, none⟩]) ∧
    mStep kG (.ixor [⟨0, 1, none⟩, ⟨0, 1, some kL1⟩, ⟨2, 2, some kF⟩, ⟨1, 1, none⟩]) =
      some [⟨0, 1, 1, some kF⟩, ⟨0, 1, 2, some kL2⟩, ⟨2, 2, 0, none⟩, ⟨0, 1, 3, some kL3⟩,
        ⟨1, 0, 0, none⟩, ⟨0, 1, 4, some kL1⟩, ⟨1, 1, 0, none⟩] ∧
    mStep kG (.iand [⟨0, 1, none⟩, ⟨2, 2, some kF⟩, ⟨3, 3, none⟩]) =
      some [⟨2, 2, 1, some kF⟩, ⟨0, 1, 4, none⟩] ∧
    mStep kG (.isub [⟨0, 1, none⟩, ⟨2, 2, some kF⟩, ⟨3, 3, none⟩]) =
      some [⟨0, 1, 1, some kF⟩, ⟨0, 1, 2, some kL2⟩, ⟨2, 2, 0, none⟩, ⟨0, 1, 3, some kL3⟩,
        ⟨1, 0, 0, none⟩] ∧
    mStep kG (.update [⟨1, 0, some kF⟩, ⟨1, 0, some kF⟩, ⟨1, 0, none⟩]) =
      some (kG ++ [⟨1, 0, 1, some kF⟩]) ∧
    mStep kG (.remove ⟨1, 0, some kF⟩) = none ∧ step (abs kG) (.remove ⟨1, 0, some kF⟩) = none ∧
    mStep kG .clear = some [] := by decide

-- `C11_keyed_step_refines` / `C11_step_refines`: hypotheses are satisfiable
example : ∀ x, mContains (mIxor kG [⟨0, 1, none⟩, ⟨1, 1, none⟩]) x = true ↔
    (mContains kG x = true ∧ x ∉ [⟨0, 1, none⟩, ⟨1, 1, none⟩]) ∨
    (¬ mContains kG x = true ∧ x ∈ [(⟨0, 1, none⟩ : Edge), ⟨1, 1, none⟩]) :=
  (C11_keyed_step_refines kG _ (.ixor [⟨0, 1, none⟩, ⟨1, 1, none⟩])
    (C11_refine_history kOps).1 (fun es h => by cases h; decide) rfl).2

-- `pop`: the three outcomes are different
example : kStep [] .popKeyError = .keyError ∧ kStep kG .popKeyError = .invalid ∧
    kStep kG (.base (.pop ⟨1, 0, none⟩)) = .ok (mDiscard kG ⟨1, 0, none⟩) ∧
    kStep kG (.base (.pop ⟨1, 0, some kF⟩)) = .invalid ∧
    kStep [] (.base (.pop ⟨1, 0, none⟩)) = .invalid ∧
    kStep kG (.base (.remove ⟨1, 0, some kF⟩)) = .keyError := by decide

/-! ### the shortcut "key = number of parallel edges" (seeded change C11-m3)

After `add(a,b,L1); add(a,b,L2); discard(a,b,L1)` the key dict of `(a,b)` is `{1: L2}`. The
shortcut allocates `len = 1` again: in the list model the `keys` invariant breaks (and with
it `C11_refine_discard`, see the example above); in networkx `add_edge(a, b, key=1,
label=L3)` overwrites the attributes of the existing key 1, so the edge labelled `L2`
silently becomes `L3`. `newKey` allocates 2. -/

def badKey (g : MStore) (s d : Nat) : Nat := (keydict g s d).length

def badAdd (g : MStore) (e : Edge) : MStore :=
  if mContains g e then g else g ++ [⟨e.src, e.dst, badKey g e.src e.dst, e.label⟩]

example :
    let g := mDiscard (badAdd (badAdd [] ⟨0, 1, some kL1⟩) ⟨0, 1, some kL2⟩) ⟨0, 1, some kL1⟩
    let g' := mDiscard (mAdd (mAdd [] ⟨0, 1, some kL1⟩) ⟨0, 1, some kL2⟩) ⟨0, 1, some kL1⟩
    g = [⟨0, 1, 1, some kL2⟩] ∧ g' = g ∧ MInv g ∧
    badKey g 0 1 = 1 ∧ newKey g 0 1 = 2 ∧
    badAdd g ⟨0, 1, some kL3⟩ = [⟨0, 1, 1, some kL2⟩, ⟨0, 1, 1, some kL3⟩] ∧
    ¬ (keyTriples (badAdd g ⟨0, 1, some kL3⟩)).Nodup ∧ ¬ MInv (badAdd g ⟨0, 1, some kL3⟩) ∧
    mAdd g ⟨0, 1, some kL3⟩ = [⟨0, 1, 1, some kL2⟩, ⟨0, 1, 2, some kL3⟩] ∧
    MInv (mAdd g ⟨0, 1, some kL3⟩) ∧
    -- the collision is observable one step later: discarding L3 takes L2 with it
    abs (mDiscard (badAdd g ⟨0, 1, some kL3⟩) ⟨0, 1, some kL3⟩) = [] ∧
    abs (mDiscard (mAdd g ⟨0, 1, some kL3⟩) ⟨0, 1, some kL3⟩) = [⟨0, 1, some kL2⟩] := by
  decide

/-- no allocator that can return a key in use preserves the invariant -/
theorem C11_key_collision_breaks (g : MStore) (s d k : Nat) (l : Option Label)
    (h : ∃ m, m ∈ g ∧ m.src = s ∧ m.dst = d ∧ m.key = k) : ¬ MInv (g ++ [⟨s, d, k, l⟩]) := by
  intro hi
  obtain ⟨m, hm, hs, hd, hk⟩ := h
  have hk' := hi.keys
  unfold keyTriples at hk'
  rw [List.map_append, List.nodup_append] at hk'
  exact hk'.2.2 (m.src, m.dst, m.key) (List.mem_map.2 ⟨m, hm, rfl⟩) (s, d, k) (by simp)
    (by rw [hs, hd, hk])

end Gtirb.Cfg
