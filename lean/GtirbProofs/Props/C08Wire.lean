import GtirbProofs.Lemmas.Codec
import GtirbProofs.Props.C07
import GtirbProofs.Props.C08
/-! C08, second part: the CONTENT of the wire format.

`Props/C08.lean` reads `encode` clause by clause.  This file adds what the review
(`reviews/codec.md`, C08 parts 1-4) found missing:

* (a) the bytes (not just the length) of a UUID / of an Offset;
* (b) endianness stated POSITIONALLY (`leBytes_get`: byte `i` is `n / 256^i % 256`), and the
  two's-complement analogue for signed integers (`encodeInt_get`: byte `i` of the encoding of
  `n : Int` is `n / 256^i % 256` with floor division, i.e. `(n >> 8i) & 0xff`);
* (c) the format is unambiguous (`C08_injective`) and prefix-free (`C08_prefix_free`);
* (d) DOUBLE ENTRY: `Wire`, a declarative definition of the format written from the wording of
  the C++ reference (`include/gtirb/AuxData.hpp`, "Serialization Format" and the
  `auxdata_traits` specialisations) WITHOUT reference to `encode` / `leBytes` / `Leaf.width`,
  and `encode_iff_Wire : encode nu t v = some bs ↔ Wire nu t v bs` (no typing hypothesis: the
  ranges are premises of `Wire`'s constructors). -/
namespace Gtirb.Codec

/-! ### (b) endianness, positionally -/

/-- byte `i` of the `w`-byte little-endian representation of `n` is the `i`-th base-256 digit
of `n`: the LEAST significant byte comes first -/
theorem leBytes_get (w n i : Nat) (h : i < w) :
    (leBytes w n)[i]? = some (UInt8.ofNat (n / 256 ^ i % 256)) := by
  induction w generalizing n i with
  | zero => omega
  | succ w ih =>
    cases i with
    | zero => simp [leBytes]
    | succ i =>
      simp only [leBytes, List.getElem?_cons_succ]
      rw [ih (n / 256) i (by omega), Nat.pow_succ, Nat.div_div_eq_div_mul, Nat.mul_comm]

/-- ... and this determines the bytes: a `w`-byte string with these digits is `leBytes w n` -/
theorem eq_leBytes_of_get (w n : Nat) (bs : Bytes) (hl : bs.length = w)
    (h : ∀ i, i < w → bs[i]? = some (UInt8.ofNat (n / 256 ^ i % 256))) : bs = leBytes w n := by
  apply List.ext_getElem?
  intro i
  by_cases hi : i < w
  · rw [h i hi, leBytes_get w n i hi]
  · rw [List.getElem?_eq_none (by omega), List.getElem?_eq_none (by rw [leBytes_length]; omega)]

/-- digit `i` (`i < w`) of the two's-complement residue of `n` is `n / 256^i % 256` with
floor division on `Int`: the arithmetic shift right by `8 i` bits, masked with `0xff` -/
theorem twos_byte (w i : Nat) (n : Int) (hi : i < w) :
    (((n % (256 ^ w : Int)).toNat / 256 ^ i % 256 : Nat) : Int) = n / (256 : Int) ^ i % 256 := by
  have hpos : (0 : Int) < 256 ^ w := Int.pow_pos (by decide)
  have hA : (256 : Int) ^ i ≠ 0 := Int.ne_of_gt (Int.pow_pos (by decide))
  have hx : ((n % (256 ^ w : Int)).toNat : Int) = n % (256 ^ w : Int) :=
    Int.toNat_of_nonneg (Int.emod_nonneg _ (by omega))
  obtain ⟨k, rfl⟩ : ∃ k, w = i + 1 + k := ⟨w - (i + 1), by omega⟩
  have hsplit : (256 : Int) ^ (i + 1 + k) = 256 ^ i * (256 * 256 ^ k) := by
    rw [Int.pow_add, Int.pow_succ, Int.mul_assoc]
  have hn := Int.emod_add_mul_ediv n (256 ^ (i + 1 + k))
  rw [Int.natCast_emod, Int.natCast_ediv, hx]
  generalize n % (256 ^ (i + 1 + k) : Int) = x at *
  generalize n / (256 ^ (i + 1 + k) : Int) = q at *
  subst hn
  rw [hsplit, Int.mul_assoc, Int.add_mul_ediv_left _ _ hA, Int.mul_assoc,
    Int.add_mul_emod_self_left]
  simp

/-- integers, signed or not: byte `i` of the encoding of `n` is `(n >> 8 i) & 0xff`
(little-endian, two's complement for the negative ones) -/
theorem encodeInt_get (s : Bool) (w : Nat) (n : Int) (bs : Bytes)
    (h : encodeInt s w n = some bs) (i : Nat) (hi : i < w) :
    bs[i]? = some (UInt8.ofNat (n / (256 : Int) ^ i % 256).toNat) := by
  unfold encodeInt at h
  split at h
  · cases h
    rw [leBytes_get _ _ _ hi, ← twos_byte w i n hi, Int.toNat_natCast]
  · cases h

/-- the same for a value of an integer type -/
theorem C08_int_bytes (nu : Nat → Bytes) (l : Leaf) (n : Int) (bs : Bytes) (hl : l.isInt = true)
    (h : encode nu (.leaf l) (.int n) = some bs) :
    bs.length = l.width ∧
      ∀ i, i < l.width → bs[i]? = some (UInt8.ofNat (n / (256 : Int) ^ i % 256).toNat) := by
  refine ⟨(C08_int_le nu l n bs hl h).2, fun i hi => ?_⟩
  simp only [encode, encodeLeaf_int nu l n hl] at h
  exact encodeInt_get _ _ _ _ h i hi

/-- a negative `n` in range is written as the unsigned number `256^w - |n|` -/
theorem encodeInt_neg (w : Nat) (m : Nat) (hm : 0 < m) (hr : 2 * m ≤ 256 ^ w) :
    encodeInt true w (-(m : Int)) = some (leBytes w (256 ^ w - m)) := by
  have hP : ((256 : Int) ^ w) = ((256 ^ w : Nat) : Int) := by simp
  have hr' : intInRange true w (-(m : Int)) = true := by
    simp only [intInRange, if_true, decide_eq_true_eq]
    rw [hP]; generalize 256 ^ w = P at *; omega
  have e : (-(m : Int)) % (256 ^ w : Int) = ((256 ^ w - m : Nat) : Int) := by
    rw [hP]
    generalize 256 ^ w = P at *
    rw [← Int.add_mul_emod_self_left (-(m : Int)) (P : Int) 1, Int.mul_one]
    rw [Int.emod_eq_of_lt (by omega) (by omega)]
    omega
  simp [encodeInt, hr', e]

/-! ### (a) UUID and Offset: the bytes themselves -/

/-- a plain UUID is written as its own 16 bytes, unchanged -/
theorem C08_uuid_bytes (nu : Nat → Bytes) (u bs : Bytes)
    (h : encode nu (.leaf .uuid) (.uuid u) = some bs) : bs = u ∧ u.length = 16 := by
  simp only [encode, encodeLeaf, encodeElem] at h
  split at h
  · cases h; exact ⟨rfl, by assumption⟩
  · cases h

/-- a node is written as the 16 bytes of ITS uuid, unchanged -/
theorem C08_uuid_node_bytes (nu : Nat → Bytes) (id : Nat) (bs : Bytes)
    (h : encode nu (.leaf .uuid) (.node id) = some bs) : bs = nu id ∧ (nu id).length = 16 := by
  simp only [encode, encodeLeaf, encodeElem] at h
  split at h
  · cases h; exact ⟨rfl, by assumption⟩
  · cases h

/-- nothing else has an encoding at type `UUID` -/
theorem C08_uuid_only (nu : Nat → Bytes) (v : Val) (bs : Bytes)
    (h : encode nu (.leaf .uuid) v = some bs) :
    (v = .uuid bs ∨ ∃ id, v = .node id ∧ bs = nu id) ∧ bs.length = 16 := by
  cases v <;> simp only [encode, encodeLeaf, encodeElem] at h <;> first | cases h | skip
  · obtain ⟨rfl, hl⟩ := C08_uuid_bytes nu _ bs (by simpa [encode, encodeLeaf, encodeElem] using h)
    exact ⟨.inl rfl, hl⟩
  · rename_i id
    obtain ⟨rfl, hl⟩ := C08_uuid_node_bytes nu id bs (by simpa [encode, encodeLeaf, encodeElem] using h)
    exact ⟨.inr ⟨id, rfl, rfl⟩, hl⟩

/-- Offset: the 16 bytes of the element's UUID (the plain UUID itself, or the node's uuid),
then the displacement as 8 little-endian bytes - with the content of all 24 bytes -/
theorem C08_offset_bytes (nu : Nat → Bytes) (e : Val) (d : Nat) (bs : Bytes)
    (h : encode nu (.leaf .offset) (.offset e d) = some bs) :
    ∃ u, (e = .uuid u ∨ ∃ id, e = .node id ∧ u = nu id) ∧ u.length = 16 ∧ d < 2 ^ 64 ∧
      bs = u ++ leBytes 8 d ∧ bs.length = 24 ∧
      (∀ i, i < 16 → bs[i]? = u[i]?) ∧
      (∀ i, i < 8 → bs[16 + i]? = some (UInt8.ofNat (d / 256 ^ i % 256))) := by
  simp only [encode, encodeLeaf] at h
  split at h
  · rename_i u hu
    split at h
    · rename_i hd
      cases h
      obtain ⟨hv, hl⟩ := C08_uuid_only nu e u (by simpa [encode, encodeLeaf] using hu)
      refine ⟨u, hv, hl, hd, rfl, by simp [hl, u64, leBytes_length], fun i hi => ?_, fun i hi => ?_⟩
      · rw [List.getElem?_append_left (by omega)]
      · rw [List.getElem?_append_right (by omega), hl, Nat.add_sub_cancel_left]
        exact leBytes_get 8 d i hi
    · cases h
  · cases h

/-! ### (c) the format is unambiguous -/

/-- no two values of a type share an encoding -/
theorem C08_injective (lookup : Bytes → Option Nat) (nu : Nat → Bytes) (t : Ty) (v v' : Val)
    (bs : Bytes) (h : hasType lookup nu t v = true) (h' : hasType lookup nu t v' = true)
    (e : encode nu t v = some bs) (e' : encode nu t v' = some bs) : v = v' := by
  obtain ⟨b, hb, hd⟩ := C07_roundtrip lookup nu t v h
  obtain ⟨b', hb', hd'⟩ := C07_roundtrip lookup nu t v' h'
  rw [e] at hb; rw [e'] at hb'
  cases hb; cases hb'
  have := (hd []).symm.trans (hd' [])
  simpa using this

/-- ... and no encoding is a proper prefix of another: in a byte stream the value, its
encoding and what follows it are determined -/
theorem C08_prefix_free (lookup : Bytes → Option Nat) (nu : Nat → Bytes) (t : Ty) (v v' : Val)
    (bs bs' r r' : Bytes) (h : hasType lookup nu t v = true) (h' : hasType lookup nu t v' = true)
    (e : encode nu t v = some bs) (e' : encode nu t v' = some bs') (hs : bs ++ r = bs' ++ r') :
    v = v' ∧ bs = bs' ∧ r = r' := by
  obtain ⟨b, hb, hd⟩ := C07_roundtrip lookup nu t v h
  obtain ⟨b', hb', hd'⟩ := C07_roundtrip lookup nu t v' h'
  rw [e] at hb; rw [e'] at hb'
  cases hb; cases hb'
  have := (hd r).symm.trans (hs ▸ hd' r')
  simp only [Res.ok.injEq, Prod.mk.injEq] at this
  obtain ⟨rfl, rfl⟩ := this
  refine ⟨rfl, ?_, rfl⟩
  exact List.append_cancel_right hs

/-! non-vacuity of (a)-(c) -/

/-- `0x0102` as `uint32_t`: least significant byte first -/
example : leBytes 4 0x0102 = [0x02, 0x01, 0, 0] := by decide
example : (leBytes 4 0x0102)[1]? = some 0x01 := by
  rw [leBytes_get 4 0x0102 1 (by decide)]; decide
/-- `-2 : int16_t` is `fe ff`; byte 0 is `(-2) % 256 = 254`, byte 1 is `(-2) / 256 % 256 = 255` -/
example : encodeInt true 2 (-2) = some [0xfe, 0xff] := by decide
example : ((-2 : Int) / 256 ^ 0 % 256).toNat = 0xfe ∧ ((-2 : Int) / 256 ^ 1 % 256).toNat = 0xff := by
  decide
example : encodeInt true 2 (-(2 : Nat) : Int) = some (leBytes 2 (256 ^ 2 - 2)) :=
  encodeInt_neg 2 2 (by decide) (by decide)
/-- an Offset into node 2 (uuid = 16 bytes `02`) at displacement `0x0140` -/
example : encode exNodeUuid (.leaf .offset) (.offset (.node 2) 0x0140) =
    some (List.replicate 16 2 ++ [0x40, 0x01, 0, 0, 0, 0, 0, 0]) := by decide
/-- `C08_prefix_free` on a stream: `uint16_t 258` then the byte `09` cannot also be read as
another `uint16_t` followed by something else -/
example (v' : Val) (bs' r' : Bytes) (h' : hasType exLookup exNodeUuid (.leaf .u16) v' = true)
    (e' : encode exNodeUuid (.leaf .u16) v' = some bs') (hs : [0x02, 0x01] ++ [0x09] = bs' ++ r') :
    Val.int 258 = v' ∧ [0x02, 0x01] = bs' ∧ [0x09] = r' :=
  C08_prefix_free exLookup exNodeUuid (.leaf .u16) (.int 258) v' [0x02, 0x01] bs' [0x09] r'
    (by decide) h' (by decide) e' hs

/-! ### (d) double entry: the format, declaratively

Nothing below refers to `encode`, `encodeInt`, `leBytes`, `u64`, `Leaf.width` or `Leaf.signed`
until the comparison theorems: little-endian is the positional relation `LE`, the integer
widths are the table `intFmt`, two's complement is `IntLE`. -/

/-- `LE w n bs`: `bs` is the `w`-byte little-endian representation of the unsigned number `n`
("swapping their bytes to little-endian order and writing them directly to the byte array"):
exactly `w` bytes, `n` fits, and byte `i` is the `i`-th base-256 digit of `n`. -/
def LE (w n : Nat) (bs : Bytes) : Prop :=
  bs.length = w ∧ n < 256 ^ w ∧ ∀ i, i < w → bs[i]? = some (UInt8.ofNat (n / 256 ^ i % 256))

instance (w n : Nat) (bs : Bytes) : Decidable (LE w n bs) := by unfold LE; infer_instance

/-- fixed-size integers of either signedness: `uintN_t` as is; `intN_t` in two's complement -/
inductive IntLE : Bool → Nat → Int → Bytes → Prop
  /-- unsigned: the number itself -/
  | unsigned {w n bs} : LE w n bs → IntLE false w (n : Int) bs
  /-- signed, not negative: the number itself, which must leave the top bit clear -/
  | nonneg {w n bs} : 2 * n < 256 ^ w → LE w n bs → IntLE true w (n : Int) bs
  /-- signed, negative: `2^(8w) - |n|` (two's complement), down to `-2^(8w-1)` -/
  | neg {w n bs} : 0 < n → 2 * n ≤ 256 ^ w → LE w (256 ^ w - n) bs → IntLE true w (-(n : Int)) bs

/-- the integer type names: signedness and `sizeof` (`Addr` is serialised as its `uint64_t`) -/
def intFmt : Leaf → Option (Bool × Nat)
  | .u8 => some (false, 1) | .u16 => some (false, 2) | .u32 => some (false, 4)
  | .u64 => some (false, 8) | .addr => some (false, 8)
  | .i8 => some (true, 1) | .i16 => some (true, 2) | .i32 => some (true, 4)
  | .i64 => some (true, 8)
  | _ => none

mutual
/-- THE WIRE FORMAT, one constructor per sentence of the reference (AuxData.hpp: "Serialization
Format" and the `auxdata_traits` specialisations). `Wire nu t v bs`: `bs` is the serialisation
of the value `v` at type `t` (`nu` gives the UUID of a node). -/
inductive Wire (nu : Nat → Bytes) : Ty → Val → Bytes → Prop
  /-- "Fixed-size types such as integers, Addr, etc are packed by swapping their bytes to
  little-endian order and writing them directly to the byte array." -/
  | int {l s w n bs} : intFmt l = some (s, w) → IntLE s w n bs → Wire nu (.leaf l) (.int n) bs
  /-- `bool`: one byte, 1 for true ... -/
  | boolTrue : Wire nu (.leaf .bool) (.bool true) [1]
  /-- ... 0 for false -/
  | boolFalse : Wire nu (.leaf .bool) (.bool false) [0]
  /-- `float`: the 4 bytes of the IEEE-754 bit pattern, little-endian -/
  | float {bits bs} : LE 4 bits bs → Wire nu (.leaf .f32) (.f32 bits) bs
  /-- `double`: the 8 bytes of the IEEE-754 bit pattern, little-endian -/
  | double {bits bs} : LE 8 bits bs → Wire nu (.leaf .f64) (.f64 bits) bs
  /-- `string`: the number of bytes as `uint64_t`, then the (UTF-8) bytes -/
  | string {s cnt} : LE 8 s.toUTF8.toList.length cnt →
      Wire nu (.leaf .string) (.str s) (cnt ++ s.toUTF8.toList)
  /-- `UUID`: its 16 bytes, as they are -/
  | uuid {u} : u.length = 16 → Wire nu (.leaf .uuid) (.uuid u) u
  /-- a node stands for its UUID -/
  | node {id} : (nu id).length = 16 → Wire nu (.leaf .uuid) (.node id) (nu id)
  /-- `Offset`: the `ElementId` as a UUID, then the `Displacement` as `uint64_t` -/
  | offset {e d ub db} : Wire nu (.leaf .uuid) e ub → LE 8 d db →
      Wire nu (.leaf .offset) (.offset e d) (ub ++ db)
  /-- "Containers first write out the number of elements (as a uint64_t), then write each
  element one after another." - sequences ... -/
  | seq {t xs cnt body} : LE 8 xs.length cnt → WireMany nu t xs body →
      Wire nu (.seq t) (.seq xs) (cnt ++ body)
  /-- ... sets ... -/
  | set {t xs cnt body} : LE 8 xs.length cnt → WireMany nu t xs body →
      Wire nu (.set t) (.set xs) (cnt ++ body)
  /-- ... and mappings, whose elements are pairs: the key, then the value -/
  | map {kt vt ks vs cnt body} : LE 8 ks.length cnt → WirePairs nu kt vt ks vs body →
      Wire nu (.map kt vt) (.map ks vs) (cnt ++ body)
  /-- "Tuples are similar but omit the size, since it can be inferred from the type." -/
  | tuple {ts xs bs} : WireFields nu ts xs bs → Wire nu (.tuple ts) (.tuple xs) bs
  /-- `variant`: the index of the alternative as `uint64_t`, then the value at the type of
  that alternative -/
  | variant {ts i t v idx body} : LE 8 i idx → ts[i]? = some t → Wire nu t v body →
      Wire nu (.variant ts) (.variant i v) (idx ++ body)
/-- the elements of a sequence / set, one after another -/
inductive WireMany (nu : Nat → Bytes) : Ty → List Val → Bytes → Prop
  | nil {t} : WireMany nu t [] []
  | cons {t x xs a b} : Wire nu t x a → WireMany nu t xs b → WireMany nu t (x :: xs) (a ++ b)
/-- the pairs of a mapping, one after another: key, value -/
inductive WirePairs (nu : Nat → Bytes) : Ty → Ty → List Val → List Val → Bytes → Prop
  | nil {kt vt} : WirePairs nu kt vt [] [] []
  | cons {kt vt k v ks vs a b c} : Wire nu kt k a → Wire nu vt v b → WirePairs nu kt vt ks vs c →
      WirePairs nu kt vt (k :: ks) (v :: vs) (a ++ b ++ c)
/-- the fields of a tuple, one after another, each at its own type -/
inductive WireFields (nu : Nat → Bytes) : List Ty → List Val → Bytes → Prop
  | nil : WireFields nu [] [] []
  | cons {t ts x xs a b} : Wire nu t x a → WireFields nu ts xs b →
      WireFields nu (t :: ts) (x :: xs) (a ++ b)
end

/-! #### the comparison -/

theorem LE_iff (w n : Nat) (bs : Bytes) : LE w n bs ↔ n < 256 ^ w ∧ bs = leBytes w n := by
  constructor
  · rintro ⟨hl, hn, hg⟩
    exact ⟨hn, eq_leBytes_of_get w n bs hl hg⟩
  · rintro ⟨hn, rfl⟩
    exact ⟨leBytes_length w n, hn, fun i hi => leBytes_get w n i hi⟩

theorem LE_u64 (n : Nat) (bs : Bytes) : LE 8 n bs ↔ n < 2 ^ 64 ∧ bs = u64 n := by
  rw [LE_iff]; rfl

theorem encodeInt_natCast (s : Bool) (w n : Nat) (h : intInRange s w (n : Int) = true) :
    encodeInt s w (n : Int) = some (leBytes w n) := by
  have hP : ((256 : Int) ^ w) = ((256 ^ w : Nat) : Int) := by simp
  have hlt : n < 256 ^ w := by
    unfold intInRange at h
    rw [hP] at h
    generalize 256 ^ w = P at *
    cases s <;> simp at h <;> omega
  have e : ((n : Int) % (256 ^ w : Int)).toNat = n := by
    rw [hP, ← Int.natCast_emod, Int.toNat_natCast, Nat.mod_eq_of_lt hlt]
  simp [encodeInt, h, e]

theorem encodeInt_iff_IntLE (s : Bool) (w : Nat) (n : Int) (bs : Bytes) (hw : 0 < w) :
    encodeInt s w n = some bs ↔ IntLE s w n bs := by
  obtain ⟨w', rfl⟩ : ∃ w', w = w' + 1 := ⟨w - 1, by omega⟩
  have hP : ((256 : Int) ^ (w' + 1)) = ((256 ^ (w' + 1) : Nat) : Int) := by simp
  have hP' : (256 : Nat) ^ (w' + 1) = 256 ^ w' * 256 := Nat.pow_succ _ _
  constructor
  · intro h
    have hr : intInRange s (w' + 1) n = true := by
      unfold encodeInt at h
      split at h
      · assumption
      · cases h
    by_cases hn : 0 ≤ n
    · obtain ⟨m, rfl⟩ : ∃ m : Nat, n = m := ⟨n.toNat, by omega⟩
      rw [encodeInt_natCast s _ m hr] at h
      cases h
      unfold intInRange at hr
      rw [hP, hP'] at hr
      cases s
      · refine .unsigned ((LE_iff _ _ _).2 ⟨?_, rfl⟩)
        rw [hP']; generalize 256 ^ w' = P at *
        simp at hr; omega
      · have : 2 * m < 256 ^ (w' + 1) := by
          rw [hP']; generalize 256 ^ w' = P at *
          simp at hr; omega
        exact .nonneg this ((LE_iff _ _ _).2 ⟨by omega, rfl⟩)
    · obtain ⟨m, rfl, hm⟩ : ∃ m : Nat, n = -(m : Int) ∧ 0 < m := ⟨n.natAbs, by omega, by omega⟩
      have hs : s = true := by
        cases s
        · unfold intInRange at hr; simp at hr; omega
        · rfl
      subst hs
      have h2 : 2 * m ≤ 256 ^ (w' + 1) := by
        unfold intInRange at hr
        rw [hP, hP'] at hr
        rw [hP']; generalize 256 ^ w' = P at *
        simp at hr; omega
      rw [encodeInt_neg _ m hm h2] at h
      cases h
      exact .neg hm h2 ((LE_iff _ _ _).2 ⟨by have := Nat.pow_pos (n := w' + 1) (by decide : 0 < 256); omega, rfl⟩)
  · intro h
    cases h with
    | unsigned hle =>
      obtain ⟨hn, rfl⟩ := (LE_iff _ _ _).1 hle
      apply encodeInt_natCast
      unfold intInRange
      rw [hP]
      simp; omega
    | nonneg h2 hle =>
      obtain ⟨hn, rfl⟩ := (LE_iff _ _ _).1 hle
      apply encodeInt_natCast
      unfold intInRange
      rw [hP, hP'] at *
      generalize 256 ^ w' = P at *
      simp; omega
    | neg hm h2 hle =>
      obtain ⟨hn, rfl⟩ := (LE_iff _ _ _).1 hle
      exact encodeInt_neg _ _ hm h2
theorem intFmt_eq (l : Leaf) :
    intFmt l = if l.isInt then some (l.signed, l.width) else none := by
  cases l <;> rfl

theorem intFmt_pos {l : Leaf} {s : Bool} {w : Nat} (h : intFmt l = some (s, w)) :
    l.isInt = true ∧ s = l.signed ∧ w = l.width ∧ 0 < w := by
  cases l <;> simp [intFmt] at h <;> (obtain ⟨rfl, rfl⟩ := h; simp [Leaf.isInt, Leaf.signed, Leaf.width])

/-! inversion of `encode` at each container head (the range of the count included) -/

theorem encode_seq_iff (nu : Nat → Bytes) (t : Ty) (xs : List Val) (bs : Bytes) :
    encode nu (.seq t) (.seq xs) = some bs ↔
      ∃ body, encodeMany (encode nu t) xs = some body ∧ xs.length < 2 ^ 64 ∧
        bs = u64 xs.length ++ body := by
  simp only [encode]
  constructor
  · intro h
    split at h
    · rename_i body hb
      split at h
      · cases h; exact ⟨body, hb, by assumption, rfl⟩
      · cases h
    · cases h
  · rintro ⟨body, hb, hl, rfl⟩
    simp [hb, hl]

theorem encode_set_iff (nu : Nat → Bytes) (t : Ty) (xs : List Val) (bs : Bytes) :
    encode nu (.set t) (.set xs) = some bs ↔
      ∃ body, encodeMany (encode nu t) xs = some body ∧ xs.length < 2 ^ 64 ∧
        bs = u64 xs.length ++ body := by
  simp only [encode]
  constructor
  · intro h
    split at h
    · rename_i body hb
      split at h
      · cases h; exact ⟨body, hb, by assumption, rfl⟩
      · cases h
    · cases h
  · rintro ⟨body, hb, hl, rfl⟩
    simp [hb, hl]

theorem encode_map_iff (nu : Nat → Bytes) (kt vt : Ty) (ks vs : List Val) (bs : Bytes) :
    encode nu (.map kt vt) (.map ks vs) = some bs ↔
      ∃ body, encodeManyPairs (encode nu kt) (encode nu vt) ks vs = some body ∧
        ks.length < 2 ^ 64 ∧ bs = u64 ks.length ++ body := by
  simp only [encode]
  constructor
  · intro h
    split at h
    · rename_i body hb
      split at h
      · cases h; exact ⟨body, hb, by assumption, rfl⟩
      · cases h
    · cases h
  · rintro ⟨body, hb, hl, rfl⟩
    simp [hb, hl]

theorem encode_variant_iff (nu : Nat → Bytes) (ts : List Ty) (i : Nat) (v : Val) (bs : Bytes) :
    encode nu (.variant ts) (.variant i v) = some bs ↔
      ∃ body, encodeNth nu ts i v = some body ∧ i < 2 ^ 64 ∧ bs = u64 i ++ body := by
  simp only [encode]
  constructor
  · intro h
    split at h
    · rename_i body hb
      split at h
      · cases h; exact ⟨body, hb, by assumption, rfl⟩
      · cases h
    · cases h
  · rintro ⟨body, hb, hl, rfl⟩
    simp [hb, hl]

section
variable (nu : Nat → Bytes)

/-! `encode` produces only what the format allows ... -/

theorem encodeElem_Wire (e : Val) (u : Bytes) (h : encodeElem nu e = some u) :
    Wire nu (.leaf .uuid) e u := by
  cases e <;> simp only [encodeElem] at h <;> first | cases h | skip
  all_goals
    split at h
    · cases h
      first | exact .uuid (by assumption) | exact .node (by assumption)
    · cases h

theorem encodeLeaf_Wire (l : Leaf) (v : Val) (bs : Bytes) (h : encodeLeaf nu l v = some bs) :
    Wire nu (.leaf l) v bs := by
  cases v with
  | int n =>
    have h' : l.isInt = true ∧ encodeInt l.signed l.width n = some bs := by
      cases l <;> simp [encodeLeaf, Leaf.isInt, encodeElem] at h ⊢ <;> exact h
    have hf : intFmt l = some (l.signed, l.width) := by rw [intFmt_eq, h'.1]; rfl
    exact .int hf ((encodeInt_iff_IntLE _ _ _ _ (Leaf.width_pos_of_isInt l h'.1)).1 h'.2)
  | bool b =>
    cases l <;> simp [encodeLeaf, encodeElem] at h
    subst h
    cases b
    · exact .boolFalse
    · exact .boolTrue
  | f32 bits =>
    cases l <;> simp [encodeLeaf, encodeElem] at h
    obtain ⟨hb, rfl⟩ := h
    exact .float ((LE_iff _ _ _).2 ⟨by simpa using hb, rfl⟩)
  | f64 bits =>
    cases l <;> simp [encodeLeaf, encodeElem] at h
    obtain ⟨hb, rfl⟩ := h
    exact .double ((LE_iff _ _ _).2 ⟨by simpa using hb, rfl⟩)
  | str s =>
    cases l <;> simp [encodeLeaf, encodeElem] at h
    obtain ⟨hb, rfl⟩ := h
    exact .string ((LE_u64 _ _).2 ⟨hb, rfl⟩)
  | uuid u =>
    cases l <;> simp only [encodeLeaf] at h <;> first | cases h | skip
    exact encodeElem_Wire nu _ _ h
  | node id =>
    cases l <;> simp only [encodeLeaf] at h <;> first | cases h | skip
    exact encodeElem_Wire nu _ _ h
  | offset e d =>
    cases l <;> simp only [encodeLeaf, encodeElem] at h <;> first | cases h | skip
    split at h
    · rename_i u hu
      split at h
      · cases h
        exact .offset (encodeElem_Wire nu _ _ hu) ((LE_u64 _ _).2 ⟨by assumption, rfl⟩)
      · cases h
    · cases h
  | seq xs => cases l <;> simp [encodeLeaf, encodeElem] at h
  | set xs => cases l <;> simp [encodeLeaf, encodeElem] at h
  | map ks vs => cases l <;> simp [encodeLeaf, encodeElem] at h
  | tuple xs => cases l <;> simp [encodeLeaf, encodeElem] at h
  | variant i v => cases l <;> simp [encodeLeaf, encodeElem] at h

theorem encodeMany_Wire (t : Ty) (ih : ∀ x a, encode nu t x = some a → Wire nu t x a) :
    ∀ (xs : List Val) (body : Bytes), encodeMany (encode nu t) xs = some body →
      WireMany nu t xs body
  | [], body, h => by
    simp only [encodeMany] at h; cases h; exact .nil
  | x :: xs, body, h => by
    obtain ⟨a, b, ha, hb, rfl⟩ := (C08_many_cons _ x xs body).1 h
    exact .cons (ih x a ha) (encodeMany_Wire t ih xs b hb)

theorem encodeManyPairs_Wire (kt vt : Ty) (ihk : ∀ x a, encode nu kt x = some a → Wire nu kt x a)
    (ihv : ∀ x a, encode nu vt x = some a → Wire nu vt x a) :
    ∀ (ks vs : List Val) (body : Bytes),
      encodeManyPairs (encode nu kt) (encode nu vt) ks vs = some body →
      WirePairs nu kt vt ks vs body
  | [], [], body, h => by
    simp only [encodeManyPairs] at h; cases h; exact .nil
  | [], _ :: _, body, h => by simp [encodeManyPairs] at h
  | _ :: _, [], body, h => by simp [encodeManyPairs] at h
  | k :: ks, v :: vs, body, h => by
    obtain ⟨a, b, c, ha, hb, hc, rfl⟩ := (C08_manyPairs_cons _ _ k v ks vs body).1 h
    exact .cons (ihk k a ha) (ihv v b hb) (encodeManyPairs_Wire kt vt ihk ihv ks vs c hc)

mutual
theorem encode_Wire : ∀ (t : Ty) (v : Val) (bs : Bytes), encode nu t v = some bs → Wire nu t v bs
  | .leaf l, v, bs, h => encodeLeaf_Wire nu l v bs (by simpa only [encode] using h)
  | .seq t, v, bs, h => by
    cases v with
    | seq xs =>
      obtain ⟨body, hb, hl, rfl⟩ := (encode_seq_iff nu t xs bs).1 h
      exact .seq ((LE_u64 _ _).2 ⟨hl, rfl⟩)
        (encodeMany_Wire nu t (fun x a hx => encode_Wire t x a hx) xs body hb)
    | _ => simp [encode] at h
  | .set t, v, bs, h => by
    cases v with
    | set xs =>
      obtain ⟨body, hb, hl, rfl⟩ := (encode_set_iff nu t xs bs).1 h
      exact .set ((LE_u64 _ _).2 ⟨hl, rfl⟩)
        (encodeMany_Wire nu t (fun x a hx => encode_Wire t x a hx) xs body hb)
    | _ => simp [encode] at h
  | .map kt vt, v, bs, h => by
    cases v with
    | map ks vs =>
      obtain ⟨body, hb, hl, rfl⟩ := (encode_map_iff nu kt vt ks vs bs).1 h
      exact .map ((LE_u64 _ _).2 ⟨hl, rfl⟩)
        (encodeManyPairs_Wire nu kt vt (fun x a hx => encode_Wire kt x a hx)
          (fun x a hx => encode_Wire vt x a hx) ks vs body hb)
    | _ => simp [encode] at h
  | .tuple ts, v, bs, h => by
    cases v with
    | tuple xs => exact .tuple (encodeTuple_Wire ts xs bs (by simpa only [encode] using h))
    | _ => simp [encode] at h
  | .variant ts, v, bs, h => by
    cases v with
    | variant i x =>
      obtain ⟨body, hb, hl, rfl⟩ := (encode_variant_iff nu ts i x bs).1 h
      obtain ⟨t, ht, hw⟩ := encodeNth_Wire ts i x body hb
      exact .variant ((LE_u64 _ _).2 ⟨hl, rfl⟩) ht hw
    | _ => simp [encode] at h
  | .unknown _ _, v, bs, h => by cases v <;> simp [encode] at h
  | .badArity _ _, v, bs, h => by cases v <;> simp [encode] at h
theorem encodeTuple_Wire : ∀ (ts : List Ty) (xs : List Val) (bs : Bytes),
    encodeTuple nu ts xs = some bs → WireFields nu ts xs bs
  | [], [], bs, h => by
    simp only [encodeTuple] at h; cases h; exact .nil
  | [], _ :: _, bs, h => by simp [encodeTuple] at h
  | _ :: _, [], bs, h => by simp [encodeTuple] at h
  | t :: ts, x :: xs, bs, h => by
    simp only [encodeTuple] at h
    split at h
    · rename_i a b ha hb
      cases h
      exact .cons (encode_Wire t x a ha) (encodeTuple_Wire ts xs b hb)
    · cases h
theorem encodeNth_Wire : ∀ (ts : List Ty) (i : Nat) (v : Val) (bs : Bytes),
    encodeNth nu ts i v = some bs → ∃ t, ts[i]? = some t ∧ Wire nu t v bs
  | [], i, v, bs, h => by simp [encodeNth] at h
  | t :: _, 0, v, bs, h => ⟨t, rfl, encode_Wire t v bs (by simpa only [encodeNth] using h)⟩
  | _ :: ts, i + 1, v, bs, h => by
    obtain ⟨t, ht, hw⟩ := encodeNth_Wire ts i v bs (by simpa only [encodeNth] using h)
    exact ⟨t, by simpa using ht, hw⟩
end

/-! ... and everything the format allows -/

theorem Wire_encodeElem (e : Val) (u : Bytes) (h : Wire nu (.leaf .uuid) e u) :
    encodeElem nu e = some u ∧ u.length = 16 := by
  cases h with
  | int hf _ => simp [intFmt] at hf
  | uuid hl => simp [encodeElem, hl]
  | node hl => simp [encodeElem, hl]

theorem Wire_encodeLeaf (l : Leaf) (v : Val) (bs : Bytes) (h : Wire nu (.leaf l) v bs) :
    encodeLeaf nu l v = some bs := by
  cases h with
  | int hf hi =>
    obtain ⟨hl, rfl, rfl, hw⟩ := intFmt_pos hf
    rw [encodeLeaf_int nu l _ hl]
    exact (encodeInt_iff_IntLE _ _ _ _ hw).2 hi
  | boolTrue => rfl
  | boolFalse => rfl
  | float hle =>
    obtain ⟨hn, rfl⟩ := (LE_iff _ _ _).1 hle
    simp only [encodeLeaf]
    rw [if_pos (by simpa using hn)]
  | double hle =>
    obtain ⟨hn, rfl⟩ := (LE_iff _ _ _).1 hle
    simp only [encodeLeaf]
    rw [if_pos (by simpa using hn)]
  | string hle =>
    obtain ⟨hn, rfl⟩ := (LE_u64 _ _).1 hle
    simp only [encodeLeaf]
    rw [if_pos hn]
  | uuid hl => simp [encodeLeaf, encodeElem, hl]
  | node hl => simp [encodeLeaf, encodeElem, hl]
  | offset he hle =>
    obtain ⟨hn, rfl⟩ := (LE_u64 _ _).1 hle
    obtain ⟨hu, _⟩ := Wire_encodeElem nu _ _ he
    simp [encodeLeaf, hu, hn]

theorem WireMany_encode (t : Ty) (ih : ∀ x a, Wire nu t x a → encode nu t x = some a) :
    ∀ (xs : List Val) (body : Bytes), WireMany nu t xs body →
      encodeMany (encode nu t) xs = some body
  | [], body, h => by cases h; rfl
  | x :: xs, body, h => by
    cases h with
    | cons hx hxs => simp [encodeMany, ih _ _ hx, WireMany_encode t ih xs _ hxs]

theorem WirePairs_encode (kt vt : Ty) (ihk : ∀ x a, Wire nu kt x a → encode nu kt x = some a)
    (ihv : ∀ x a, Wire nu vt x a → encode nu vt x = some a) :
    ∀ (ks vs : List Val) (body : Bytes), WirePairs nu kt vt ks vs body →
      encodeManyPairs (encode nu kt) (encode nu vt) ks vs = some body
  | [], vs, body, h => by cases h; rfl
  | k :: ks, vs, body, h => by
    cases h with
    | cons hk hv hr =>
      simp [encodeManyPairs, ihk _ _ hk, ihv _ _ hv, WirePairs_encode kt vt ihk ihv ks _ _ hr]

mutual
theorem Wire_encode : ∀ (t : Ty) (v : Val) (bs : Bytes), Wire nu t v bs → encode nu t v = some bs
  | .leaf l, v, bs, h => by rw [encode]; exact Wire_encodeLeaf nu l v bs h
  | .seq t, v, bs, h => by
    cases h with
    | seq hle hm =>
      obtain ⟨hn, rfl⟩ := (LE_u64 _ _).1 hle
      exact (encode_seq_iff nu t _ _).2
        ⟨_, WireMany_encode nu t (fun x a hx => Wire_encode t x a hx) _ _ hm, hn, rfl⟩
  | .set t, v, bs, h => by
    cases h with
    | set hle hm =>
      obtain ⟨hn, rfl⟩ := (LE_u64 _ _).1 hle
      exact (encode_set_iff nu t _ _).2
        ⟨_, WireMany_encode nu t (fun x a hx => Wire_encode t x a hx) _ _ hm, hn, rfl⟩
  | .map kt vt, v, bs, h => by
    cases h with
    | map hle hm =>
      obtain ⟨hn, rfl⟩ := (LE_u64 _ _).1 hle
      exact (encode_map_iff nu kt vt _ _ _).2
        ⟨_, WirePairs_encode nu kt vt (fun x a hx => Wire_encode kt x a hx)
          (fun x a hx => Wire_encode vt x a hx) _ _ _ hm, hn, rfl⟩
  | .tuple ts, v, bs, h => by
    cases h with
    | tuple hf => rw [encode]; exact WireFields_encode ts _ _ hf
  | .variant ts, v, bs, h => by
    cases h with
    | variant hle ht hw =>
      obtain ⟨hn, rfl⟩ := (LE_u64 _ _).1 hle
      exact (encode_variant_iff nu ts _ _ _).2 ⟨_, WireNth_encode ts _ _ _ _ ht hw, hn, rfl⟩
  | .unknown _ _, v, bs, h => by cases h
  | .badArity _ _, v, bs, h => by cases h
theorem WireFields_encode : ∀ (ts : List Ty) (xs : List Val) (bs : Bytes),
    WireFields nu ts xs bs → encodeTuple nu ts xs = some bs
  | [], xs, bs, h => by cases h; rfl
  | t :: ts, xs, bs, h => by
    cases h with
    | cons hx hr => simp [encodeTuple, Wire_encode t _ _ hx, WireFields_encode ts _ _ hr]
theorem WireNth_encode : ∀ (ts : List Ty) (i : Nat) (t : Ty) (v : Val) (bs : Bytes),
    ts[i]? = some t → Wire nu t v bs → encodeNth nu ts i v = some bs
  | [], i, t, v, bs, ht, _ => by simp at ht
  | t' :: _, 0, t, v, bs, ht, hw => by
    simp only [List.getElem?_cons_zero, Option.some.injEq] at ht
    subst ht
    rw [encodeNth]; exact Wire_encode t' v bs hw
  | _ :: ts, i + 1, t, v, bs, ht, hw => by
    rw [encodeNth]
    exact WireNth_encode ts i t v bs (by simpa using ht) hw
end

end

/-- DOUBLE ENTRY: the model's encoder and the declarative format are the same relation -
for every type, value and byte string, with no typing hypothesis (the ranges of integers,
counts and indices and the 16 bytes of a UUID are premises of `Wire`'s constructors). -/
theorem encode_iff_Wire (nu : Nat → Bytes) (t : Ty) (v : Val) (bs : Bytes) :
    encode nu t v = some bs ↔ Wire nu t v bs :=
  ⟨encode_Wire nu t v bs, Wire_encode nu t v bs⟩

/-- functional: a value has at most one serialisation -/
theorem Wire_functional (nu : Nat → Bytes) (t : Ty) (v : Val) (bs bs' : Bytes)
    (h : Wire nu t v bs) (h' : Wire nu t v bs') : bs = bs' := by
  have e := (encode_iff_Wire nu t v bs).2 h
  have e' := (encode_iff_Wire nu t v bs').2 h'
  rw [e] at e'; exact Option.some.inj e'

/-- `C08_foreign_bytes` with content: whatever bytes an independent producer emits for a typed
value, IF they follow the format as the reference states it (`Wire`), the decoder reads the
value back from them, whatever follows. (`C08_foreign_bytes` said this of `encode`'s own
output only.) -/
theorem C08_foreign_bytes_Wire (lookup : Bytes → Option Nat) (nu : Nat → Bytes) (t : Ty) (v : Val)
    (bs : Bytes) (h : hasType lookup nu t v = true) (hw : Wire nu t v bs) :
    ∀ rest, decode lookup t (bs ++ rest) = .ok (v, rest) := by
  obtain ⟨b, hb, hd⟩ := C07_roundtrip lookup nu t v h
  rw [(encode_iff_Wire nu t v bs).2 hw] at hb
  cases hb
  exact hd

/-- every value of a type has a serialisation in the format -/
theorem Wire_total (lookup : Bytes → Option Nat) (nu : Nat → Bytes) (t : Ty) (v : Val)
    (h : hasType lookup nu t v = true) : ∃ bs, Wire nu t v bs := by
  obtain ⟨b, hb, _⟩ := C07_roundtrip lookup nu t v h
  exact ⟨b, (encode_iff_Wire nu t v b).1 hb⟩

/-! #### non-vacuity: concrete values and their exact bytes, by the rules of `Wire` alone -/

section WireExamples

/-- `Wire.string` with the UTF-8 bytes spelled out -/
theorem Wire.string' {nu : Nat → Bytes} {s : String} {cnt payload : Bytes}
    (hp : s.toUTF8.toList = payload) (hc : LE 8 payload.length cnt) :
    Wire nu (.leaf .string) (.str s) (cnt ++ payload) := by
  subst hp; exact .string hc

/-- `mapping<string,sequence<tuple<UUID,int16_t>>>`: `{"hé": [(node 1, -2), (UUID 07.., 258)]}` -/
example : Wire exNodeUuid
    (.map (.leaf .string) (.seq (.tuple [.leaf .uuid, .leaf .i16])))
    (.map [.str "hé"]
      [.seq [.tuple [.node 1, .int (-2)], .tuple [.uuid (List.replicate 16 7), .int 258]]])
    ([1, 0, 0, 0, 0, 0, 0, 0] ++                       -- one pair
      (([3, 0, 0, 0, 0, 0, 0, 0] ++ [0x68, 0xc3, 0xa9]) ++   -- key: 3 bytes of UTF-8
       ([2, 0, 0, 0, 0, 0, 0, 0] ++                     -- value: two elements
         ((List.replicate 16 1 ++ ([0xfe, 0xff] ++ [])) ++      -- node 1's uuid, -2
          ((List.replicate 16 7 ++ ([0x02, 0x01] ++ [])) ++ []))) ++ [])) :=   -- the UUID, 258
  .map (by decide)
    (.cons (.string' (by decide +kernel) (by decide))
      (.seq (by decide)
        (.cons (.tuple (.cons (.node (by decide))
            (.cons (.int (s := true) (w := 2) rfl (.neg (n := 2) (by decide) (by decide) (by decide)))
              .nil)))
          (.cons (.tuple (.cons (.uuid (by decide))
              (.cons (.int (s := true) (w := 2) rfl (.nonneg (n := 258) (by decide) (by decide)))
                .nil)))
            .nil)))
      .nil)

/-- the same bytes, flat -/
example : ([1, 0, 0, 0, 0, 0, 0, 0] ++
      (([3, 0, 0, 0, 0, 0, 0, 0] ++ [0x68, 0xc3, 0xa9]) ++
       ([2, 0, 0, 0, 0, 0, 0, 0] ++
         ((List.replicate 16 1 ++ ([0xfe, 0xff] ++ [])) ++
          ((List.replicate 16 7 ++ ([0x02, 0x01] ++ [])) ++ []))) ++ []) : Bytes) =
    [1, 0, 0, 0, 0, 0, 0, 0, 3, 0, 0, 0, 0, 0, 0, 0, 0x68, 0xc3, 0xa9, 2, 0, 0, 0, 0, 0, 0, 0,
     1, 1, 1, 1, 1, 1, 1, 1, 1, 1, 1, 1, 1, 1, 1, 1, 0xfe, 0xff,
     7, 7, 7, 7, 7, 7, 7, 7, 7, 7, 7, 7, 7, 7, 7, 7, 0x02, 0x01] := by decide

/-- `variant<bool,tuple<double,Addr>>`, alternative 1: `(1.0, 0x1000)` -/
example : Wire exNodeUuid
    (.variant [.leaf .bool, .tuple [.leaf .f64, .leaf .addr]])
    (.variant 1 (.tuple [.f64 0x3ff0000000000000, .int 4096]))
    ([1, 0, 0, 0, 0, 0, 0, 0] ++
      ([0, 0, 0, 0, 0, 0, 0xf0, 0x3f] ++ ([0, 0x10, 0, 0, 0, 0, 0, 0] ++ []))) :=
  .variant (t := .tuple [.leaf .f64, .leaf .addr]) (by decide) rfl
    (.tuple (.cons (.double (by decide))
      (.cons (.int (s := false) (w := 8) rfl (.unsigned (n := 4096) (by decide))) .nil)))

/-- `set<Offset>`: an offset into node 2 at 0x140 and one into a non-node UUID at 0 -/
example : Wire exNodeUuid (.set (.leaf .offset))
    (.set [.offset (.node 2) 0x140, .offset (.uuid (List.replicate 16 9)) 0])
    ([2, 0, 0, 0, 0, 0, 0, 0] ++
      ((List.replicate 16 2 ++ [0x40, 0x01, 0, 0, 0, 0, 0, 0]) ++
       ((List.replicate 16 9 ++ [0, 0, 0, 0, 0, 0, 0, 0]) ++ []))) :=
  .set (by decide)
    (.cons (.offset (.node (by decide)) (by decide))
      (.cons (.offset (.uuid (by decide)) (by decide)) .nil))

/-- and `encode` produces exactly these bytes (an instance of `encode_iff_Wire`) -/
example : encode exNodeUuid (.set (.leaf .offset))
    (.set [.offset (.node 2) 0x140, .offset (.uuid (List.replicate 16 9)) 0]) =
    some ([2, 0, 0, 0, 0, 0, 0, 0] ++
      ((List.replicate 16 2 ++ [0x40, 0x01, 0, 0, 0, 0, 0, 0]) ++
       ((List.replicate 16 9 ++ [0, 0, 0, 0, 0, 0, 0, 0]) ++ []))) := by decide

/-- `Wire` is not trivially true: big-endian bytes, an out-of-range value, a wrong count
and a 15-byte UUID are not in the format -/
example : ¬ Wire exNodeUuid (.leaf .u16) (.int 258) [0x01, 0x02] :=
  fun h => absurd ((encode_iff_Wire _ _ _ _).2 h) (by decide)
example : ∀ bs, ¬ Wire exNodeUuid (.leaf .u8) (.int 256) bs := fun bs h => by
  have e : encode exNodeUuid (.leaf .u8) (.int 256) = none := by decide
  rw [(encode_iff_Wire _ _ _ _).2 h] at e; cases e
example : ¬ Wire exNodeUuid (.seq (.leaf .u8)) (.seq [.int 1]) ([2, 0, 0, 0, 0, 0, 0, 0] ++ [1]) :=
  fun h => absurd ((encode_iff_Wire _ _ _ _).2 h) (by decide)
example : ∀ bs, ¬ Wire exNodeUuid (.leaf .uuid) (.uuid (List.replicate 15 7)) bs := fun bs h => by
  have e : encode exNodeUuid (.leaf .uuid) (.uuid (List.replicate 15 7)) = none := by decide
  rw [(encode_iff_Wire _ _ _ _).2 h] at e; cases e
/-- ... directly from the definition: a little-endian relation that a big-endian string fails -/
example : LE 2 258 [0x02, 0x01] ∧ ¬ LE 2 258 [0x01, 0x02] := by decide

end WireExamples

end Gtirb.Codec
