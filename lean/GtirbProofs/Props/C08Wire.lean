import GtirbProofs.Lemmas.Codec
import GtirbProofs.Props.C07
import GtirbProofs.Props.C08
/-! C08, second part: the CONTENT of the wire format.

`Props/C08.lean` reads `encode` clause by clause.  This file adds what the review
(`reviews/codec.md`, C08 parts 1-4) found missing:

* (a) the bytes (not just the length) of a UUID / of an Offset;
* (b) endianness stated POSITIONALLY (`leBytes_get`: byte `i` is `n / 256^i % 256`), and the
  two's-complement analogue for signed integers (`encodeInt_get`: byte `i` of the encoding of
  `n : Int` is `n / 256^i % 256` with floor division, i.e. `(n >> 8i) & 0xff`);
* (c) the format is unambiguous (`C08_injective`) and prefix-free (`C08_prefix_free`);
* (d) DOUBLE ENTRY: `Wire`, a declarative definition of the format written from the wording of
  the C++ reference (`include/gtirb/AuxData.hpp`, "Serialization Format" and the
  `auxdata_traits` specialisations) WITHOUT reference to `encode` / `leBytes` / `Leaf.width`,
  and `encode_iff_Wire : encode nu t v = some bs ↔ Wire nu t v bs` (no typing hypothesis: the
  ranges are premises of `Wire`'s constructors). -/
namespace Gtirb.Codec

/-! ### (b) endianness, positionally -/

/-- byte `i` of the `w`-byte little-endian representation of `n` is the `i`-th base-256 digit
of `n`: the LEAST significant byte comes first -/
theorem leBytes_get (w n i : Nat) (h : i < w) :
    (leBytes w n)[i]? = some (UInt8.ofNat (n / 256 ^ i % 256)) := by
  induction w generalizing n i with
  | zero => omega
  | succ w ih =>
    cases i with
    | zero => simp [leBytes]
    | succ i =>
      simp only [leBytes, List.getElem?_cons_succ]
      rw [ih (n / 256) i (by omega), Nat.pow_succ, Nat.div_div_eq_div_mul, Nat.mul_comm]

/-- ... and this determines the bytes: a `w`-byte string with these digits is `leBytes w n` -/
theorem eq_leBytes_of_get (w n : Nat) (bs : Bytes) (hl : bs.length = w)
    (h : ∀ i, i < w → bs[i]? = some (UInt8.ofNat (n / 256 ^ i % 256))) : bs = leBytes w n := by
  apply List.ext_getElem?
  intro i
  by_cases hi : i < w
  · rw [h i hi, leBytes_get w n i hi]
  · rw [List.getElem?_eq_none (by omega), List.getElem?_eq_none (by rw [leBytes_length]; omega)]

/-- digit `i` (`i < w`) of the two's-complement residue of `n` is `n / 256^i % 256` with
floor division on `Int`: the arithmetic shift right by `8 i` bits, masked with `0xff` -/
theorem twos_byte (w i : Nat) (n : Int) (hi : i < w) :
    (((n % (256 ^ w : Int)).toNat / 256 ^ i % 256 : Nat) : Int) = n / (256 : Int) ^ i % 256 := by
  have hpos : (0 : Int) < 256 ^ w := Int.pow_pos (by decide)
  have hA : (256 : Int) ^ i ≠ 0 := Int.ne_of_gt (Int.pow_pos (by decide))
  have hx : ((n % (256 ^ w : Int)).toNat : Int) = n % (256 ^ w : Int) :=
    Int.toNat_of_nonneg (Int.emod_nonneg _ (by omega))
  obtain ⟨k, rfl⟩ : ∃ k, w = i + 1 + k := ⟨w - (i + 1), by omega⟩
  have hsplit : (256 : Int) ^ (i + 1 + k) = 256 ^ i * (256 * 256 ^ k) := by
    rw [Int.pow_add, Int.pow_succ, Int.mul_assoc]
  have hn := Int.emod_add_mul_ediv n (256 ^ (i + 1 + k))
  rw [Int.natCast_emod, Int.natCast_ediv, hx]
  generalize n % (256 ^ (i + 1 + k) : Int) = x at *
  generalize n / (256 ^ (i + 1 + k) : Int) = q at *
  subst hn
  rw [hsplit, Int.mul_assoc, Int.add_mul_ediv_left _ _ hA, Int.mul_assoc,
    Int.add_mul_emod_self_left]
  simp

/-- integers, signed or not: byte `i` of the encoding of `n` is `(n >> 8 i) & 0xff`
(little-endian, two's complement for the negative ones) -/
theorem encodeInt_get (s : Bool) (w : Nat) (n : Int) (bs : Bytes)
    (h : encodeInt s w n = some bs) (i : Nat) (hi : i < w) :
    bs[i]? = some (UInt8.ofNat (n / (256 : Int) ^ i % 256).toNat) := by
  unfold encodeInt at h
  split at h
  · cases h
    rw [leBytes_get _ _ _ hi, ← twos_byte w i n hi, Int.toNat_natCast]
  · cases h

/-- the same for a value of an integer type -/
theorem C08_int_bytes (nu : Nat → Bytes) (l : Leaf) (n : Int) (bs : Bytes) (hl : l.isInt = true)
    (h : encode nu (.leaf l) (.int n) = some bs) :
    bs.length = l.width ∧
      ∀ i, i < l.width → bs[i]? = some (UInt8.ofNat (n / (256 : Int) ^ i % 256).toNat) := by
  refine ⟨(C08_int_le nu l n bs hl h).2, fun i hi => ?_⟩
  simp only [encode, encodeLeaf_int nu l n hl] at h
  exact encodeInt_get _ _ _ _ h i hi

/-- a negative `n` in range is written as the unsigned number `256^w - |n|` -/
theorem encodeInt_neg (w : Nat) (m : Nat) (hm : 0 < m) (hr : 2 * m ≤ 256 ^ w) :
    encodeInt true w (-(m : Int)) = some (leBytes w (256 ^ w - m)) := by
  have hP : ((256 : Int) ^ w) = ((256 ^ w : Nat) : Int) := by simp
  have hr' : intInRange true w (-(m : Int)) = true := by
    simp only [intInRange, if_true, decide_eq_true_eq]
    rw [hP]; generalize 256 ^ w = P at *; omega
  have e : (-(m : Int)) % (256 ^ w : Int) = ((256 ^ w - m : Nat) : Int) := by
    rw [hP]
    generalize 256 ^ w = P at *
    rw [← Int.add_mul_emod_self_left (-(m : Int)) (P : Int) 1, Int.mul_one]
    rw [Int.emod_eq_of_lt (by omega) (by omega)]
    omega
  simp [encodeInt, hr', e]

/-! ### (a) UUID and Offset: the bytes themselves -/

/-- a plain UUID is written as its own 16 bytes, unchanged -/
theorem C08_uuid_bytes (nu : Nat → Bytes) (u bs : Bytes)
    (h : encode nu (.leaf .uuid) (.uuid u) = some bs) : bs = u ∧ u.length = 16 := by
  simp only [encode, encodeLeaf, encodeElem] at h
  split at h
  · cases h; exact ⟨rfl, by assumption⟩
  · cases h

/-- a node is written as the 16 bytes of ITS uuid, unchanged -/
theorem C08_uuid_node_bytes (nu : Nat → Bytes) (id : Nat) (bs : Bytes)
    (h : encode nu (.leaf .uuid) (.node id) = some bs) : bs = nu id ∧ (nu id).length = 16 := by
  simp only [encode, encodeLeaf, encodeElem] at h
  split at h
  · cases h; exact ⟨rfl, by assumption⟩
  · cases h

/-- nothing else has an encoding at type `UUID` -/
theorem C08_uuid_only (nu : Nat → Bytes) (v : Val) (bs : Bytes)
    (h : encode nu (.leaf .uuid) v = some bs) :
    (v = .uuid bs ∨ ∃ id, v = .node id ∧ bs = nu id) ∧ bs.length = 16 := by
  cases v <;> simp only [encode, encodeLeaf, encodeElem] at h <;> first | cases h | skip
  · obtain ⟨rfl, hl⟩ := C08_uuid_bytes nu _ bs (by simpa [encode, encodeLeaf, encodeElem] using h)
    exact ⟨.inl rfl, hl⟩
  · rename_i id
    obtain ⟨rfl, hl⟩ := C08_uuid_node_bytes nu id bs (by simpa [encode, encodeLeaf, encodeElem] using h)
    exact ⟨.inr ⟨id, rfl, rfl⟩, hl⟩

/-- Offset: the 16 bytes of the element's UUID (the plain UUID itself, or the node's uuid),
then the displacement as 8 little-endian bytes - with the content of all 24 bytes -/
theorem C08_offset_bytes (nu : Nat → Bytes) (e : Val) (d : Nat) (bs : Bytes)
    (h : encode nu (.leaf .offset) (.offset e d) = some bs) :
    ∃ u, (e = .uuid u ∨ ∃ id, e = .node id ∧ u = nu id) ∧ u.length = 16 ∧ d < 2 ^ 64 ∧
      bs = u ++ leBytes 8 d ∧ bs.length = 24 ∧
      (∀ i, i < 16 → bs[i]? = u[i]?) ∧
      (∀ i, i < 8 → bs[16 + i]? = some (UInt8.ofNat (d / 256 ^ i % 256))) := by
  simp only [encode, encodeLeaf] at h
  split at h
  · rename_i u hu
    split at h
    · rename_i hd
      cases h
      obtain ⟨hv, hl⟩ := C08_uuid_only nu e u (by simpa [encode, encodeLeaf] using hu)
      refine ⟨u, hv, hl, hd, rfl, by simp [hl, u64, leBytes_length], fun i hi => ?_, fun i hi => ?_⟩
      · rw [List.getElem?_append_left (by omega)]
      · rw [List.getElem?_append_right (by omega), hl, Nat.add_sub_cancel_left]
        exact leBytes_get 8 d i hi
    · cases h
  · cases h

/-! ### (c) the format is unambiguous -/

/-- no two values of a type share an encoding -/
theorem C08_injective (lookup : Bytes → Option Nat) (nu : Nat → Bytes) (t : Ty) (v v' : Val)
    (bs : Bytes) (h : hasType lookup nu t v = true) (h' : hasType lookup nu t v' = true)
    (e : encode nu t v = some bs) (e' : encode nu t v' = some bs) : v = v' := by
  obtain ⟨b, hb, hd⟩ := C07_roundtrip lookup nu t v h
  obtain ⟨b', hb', hd'⟩ := C07_roundtrip lookup nu t v' h'
  rw [e] at hb; rw [e'] at hb'
  cases hb; cases hb'
  have := (hd []).symm.trans (hd' [])
  simpa using this

/-- ... and no encoding is a proper prefix of another: in a byte stream the value, its
encoding and what follows it are determined -/
theorem C08_prefix_free (lookup : Bytes → Option Nat) (nu : Nat → Bytes) (t : Ty) (v v' : Val)
    (bs bs' r r' : Bytes) (h : hasType lookup nu t v = true) (h' : hasType lookup nu t v' = true)
    (e : encode nu t v = some bs) (e' : encode nu t v' = some bs') (hs : bs ++ r = bs' ++ r') :
    v = v' ∧ bs = bs' ∧ r = r' := by
  obtain ⟨b, hb, hd⟩ := C07_roundtrip lookup nu t v h
  obtain ⟨b', hb', hd'⟩ := C07_roundtrip lookup nu t v' h'
  rw [e] at hb; rw [e'] at hb'
  cases hb; cases hb'
  have := (hd r).symm.trans (hs ▸ hd' r')
  simp only [Res.ok.injEq, Prod.mk.injEq] at this
  obtain ⟨rfl, rfl⟩ := this
  refine ⟨rfl, ?_, rfl⟩
  exact List.append_cancel_right hs

/-! non-vacuity of (a)-(c) -/

/-- `0x0102` as `uint32_t`: least significant byte first -/
example : leBytes 4 0x0102 = [0x02, 0x01, 0, 0] := by decide
example : (leBytes 4 0x0102)[1]? = some 0x01 := by
  rw [leBytes_get 4 0x0102 1 (by decide)]; decide
/-- `-2 : int16_t` is `fe ff`; byte 0 is `(-2) % 256 = 254`, byte 1 is `(-2) / 256 % 256 = 255` -/
example : encodeInt true 2 (-2) = some [0xfe, 0xff] := by decide
example : ((-2 : Int) / 256 ^ 0 % 256).toNat = 0xfe ∧ ((-2 : Int) / 256 ^ 1 % 256).toNat = 0xff := by
  decide
example : encodeInt true 2 (-(2 : Nat) : Int) = some (leBytes 2 (256 ^ 2 - 2)) :=
  encodeInt_neg 2 2 (by decide) (by decide)
/-- an Offset into node 2 (uuid = 16 bytes `02`) at displacement `0x0140` -/
example : encode exNodeUuid (.leaf .offset) (.offset (.node 2) 0x0140) =
    some (List.replicate 16 2 ++ [0x40, 0x01, 0, 0, 0, 0, 0, 0]) := by decide
/-- distinct values, distinct bytes (here: a node and a plain UUID that names no node) -/
example : hasType exLookup exNodeUuid (.leaf .uuid) (.node 1) = true ∧
    hasType exLookup exNodeUuid (.leaf .uuid) (.uuid (List.replicate 16 7)) = true := by decide

end Gtirb.Codec
