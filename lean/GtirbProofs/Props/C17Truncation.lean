import GtirbProofs.Lemmas.PbWireProofs
/-! Truncation at the wire level (C17: a file cut short inside a varint or inside the payload
of a length-delimited field does not read as a field). -/
namespace Gtirb.Pb
open Gtirb

/-- a varint cut short (any proper prefix of its encoding) does not read -/
theorem decVarintAux_truncated (n : Nat) : ∀ (fuel k : Nat), k < (encVarint n).length →
    decVarintAux fuel ((encVarint n).take k) = none := by
  induction n using Nat.strongRecOn with
  | _ n ih =>
    intro fuel k hk
    by_cases h' : n < 128
    · rw [encVarint_lt n h'] at hk ⊢
      have : k = 0 := by simpa using hk
      subst this
      cases fuel <;> simp [decVarintAux]
    · rw [encVarint_ge n h'] at hk ⊢
      cases k with
      | zero => cases fuel <;> simp [decVarintAux]
      | succ k =>
        have hk' : k < (encVarint (n / 128)).length := by simpa using hk
        have hb : (UInt8.ofNat (n % 128 + 128)).toNat = n % 128 + 128 :=
          toNat_ofNat_lt _ (by omega)
        cases fuel with
        | zero => simp [decVarintAux]
        | succ fuel =>
          simp only [List.take_succ_cons]
          rw [decVarintAux]
          have : ¬ (n % 128 + 128 < 128) := by omega
          simp only [hb, this, if_false, ih (n / 128) (by omega) fuel k hk']

theorem decVarint_truncated (n k : Nat) (hk : k < (encVarint n).length) :
    decVarint ((encVarint n).take k) = none := by
  unfold decVarint
  rw [decVarintAux_truncated n 10 k hk]

end Gtirb.Pb

namespace Gtirb.Pb
open Gtirb

/-- a length-delimited field whose payload is cut short is rejected -/
theorem decField_len_truncated (k : Nat) (bs : Bytes) (j : Nat) (hj : j < bs.length)
    (hk : 0 < k ∧ k < 2 ^ 29) (hl : bs.length < 2 ^ 64) :
    decField (encVarint (k * 8 + 2) ++ (encVarint bs.length ++ bs.take j)) = none := by
  unfold decField
  rw [decVarint_encVarint (k * 8 + 2) (by omega)]
  have h1 : (k * 8 + 2) / 8 = k := by omega
  have h2 : (k * 8 + 2) % 8 = 2 := by omega
  simp only [h1, h2]
  have hk0 : ¬ k = 0 := by omega
  simp only [hk0, if_false]
  rw [decVarint_encVarint bs.length hl]
  have hm : min j bs.length < bs.length := by omega
  simp [List.length_take, hm]

end Gtirb.Pb
