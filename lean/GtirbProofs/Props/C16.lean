import GtirbProofs.Lemmas.WrapperProofs
import GtirbProofs.Props.C03
import GtirbProofs.Props.C04
/-! Property C16: the owning collections refine the built-in list and set.

`ir.modules` supports the full mutable-sequence interface, the node sets (sections, symbols, proxies,
byte_intervals, blocks) the full mutable-set interface, with the resulting contents and exception
types of the corresponding built-in operation on the same elements, except that a node inserted while
owned elsewhere is moved rather than duplicated; a failed operation leaves the collection and its
elements consistent.

`g.kids p s` is the content of collection `s` of parent `p` (`.mods`: the ordered module list; the
other slots are sets, kept as duplicate-free lists whose order has no meaning). Operation by
operation: the content after the wrapper operation is the built-in operation applied to the content
after removing the inserted nodes from their previous owners. For the sets the statements are about
membership, for the module list about the list itself. In the model an operation that raises returns
no new state (`Except.error`): the state is the one before the call, so "a failed operation leaves
the collection consistent" is the statement that the built-in's exceptions are decided by a guard on
the content alone (`C16_builtin_errors_pure`) and that nothing else can be raised
(`C16_error_kinds`). Helpers: `Lemmas/WrapperProofs.lean`. -/
namespace Gtirb.Forest

/-! ### the node sets -/

/-- `add`: the element is in the set afterwards, moved (removed from every other collection), nothing
else changes -/
theorem C16_add_content (g g' : G) (p : Nat) (s : Slot) (v : Nat) (h : ForestInv g) (hop : OpOK g (.add p s v))
    (hs : step g (.add p s v) = .ok g') :
    (∀ x, x ∈ g'.kids p s ↔ x ∈ g.kids p s ∨ x = v) ∧
    (∀ q s', (q ≠ p ∨ s' ≠ s) → ∀ x, x ∈ g'.kids q s' ↔ x ∈ g.kids q s' ∧ x ≠ v) :=
  wr_nodeSetAdd_content h hop.2 hs

/-- `discard` -/
theorem C16_discard_content (g g' : G) (p : Nat) (s : Slot) (v : Nat) (h : ForestInv g)
    (hs : step g (.discard p s v) = .ok g') :
    (∀ x, x ∈ g'.kids p s ↔ x ∈ g.kids p s ∧ x ≠ v) ∧
    (∀ q s', (q ≠ p ∨ s' ≠ s) → g'.kids q s' = g.kids q s') := by
  have hk := wr_setDiscard_kids (g := g) (g' := g') (p := p) (s := s) (v := v) hs
  constructor
  · intro x
    rw [hk p s, if_pos ⟨rfl, rfl⟩, mem_erase_nodup (h.nodup p s)]
  · intro q s' hne
    rw [hk q s', if_neg (wr_not_at hne)]

/-- discarding an absent element changes nothing (and does not raise) -/
theorem C16_discard_absent (g : G) (p : Nat) (s : Slot) (v : Nat) (hv : v ∉ g.kids p s) :
    step g (.discard p s v) = .ok g := by
  show setDiscard g p s v = .ok g
  unfold setDiscard
  rw [if_neg hv]

/-- `remove` = `discard` with `KeyError` for an absent element -/
theorem C16_remove_error (g : G) (p : Nat) (s : Slot) (v : Nat) :
    (v ∉ g.kids p s → step g (.remove p s v) = .error .keyError) ∧
    (v ∈ g.kids p s → step g (.remove p s v) = step g (.discard p s v)) := by
  constructor
  · intro hv; simp only [step, if_neg hv]
  · intro hv; simp only [step, if_pos hv]

/-- `pop` on an empty set: `KeyError` -/
theorem C16_pop_empty (g : G) (p : Nat) (s : Slot) (v : Nat) (he : g.kids p s = []) :
    step g (.pop p s v) = .error .keyError := by
  simp [step, he]

/-- `pop` that yields the member `v` = `discard v` -/
theorem C16_pop_member (g : G) (p : Nat) (s : Slot) (v : Nat) (hv : v ∈ g.kids p s) :
    step g (.pop p s v) = step g (.discard p s v) := by
  have hne : ¬ ((g.kids p s).isEmpty = true) := by
    intro hh
    rw [List.isEmpty_iff] at hh
    rw [hh] at hv
    cases hv
  simp only [step, if_neg hne, if_pos hv]

/-- `clear` -/
theorem C16_clear_content (g g' : G) (p : Nat) (s : Slot) (order : List Nat) (h : ForestInv g)
    (hs : step g (.clear p s order) = .ok g') :
    g'.kids p s = [] ∧ (∀ q s', (q ≠ p ∨ s' ≠ s) → g'.kids q s' = g.kids q s') := by
  simp only [step] at hs
  split at hs
  · rename_i hsm
    obtain ⟨c1, c2⟩ := wr_foldE_discard_content (h.nodup p s) hs
    refine ⟨?_, c2⟩
    rw [List.eq_nil_iff_forall_not_mem]
    intro x hx
    have := (c1 x).1 hx
    exact this.2 ((wr_sameMembers_mem hsm x).2 this.1)
  · cases hs

/-- `update` / `|=`: union; the arguments are moved, not duplicated -/
theorem C16_update_content (g g' : G) (p : Nat) (s : Slot) (vs : List Nat) (h : ForestInv g)
    (hop : OpOK g (.update p s vs)) (hs : step g (.update p s vs) = .ok g') :
    (∀ x, x ∈ g'.kids p s ↔ x ∈ g.kids p s ∨ x ∈ vs) ∧
    (∀ q s', (q ≠ p ∨ s' ≠ s) → ∀ x, x ∈ g'.kids q s' ↔ x ∈ g.kids q s' ∧ x ∉ vs) := by
  refine wr_moved_content (fun c => c ∈ vs) h (C04_step g g' _ h hop hs) (wr_update_stable hs).kind
    (fun c hc => (hop.2.2 c hc).2.2.1) ?_
  intro c
  rw [wr_update_par h hs]
  constructor
  · intro hc; rw [if_pos hc]
  · intro hc; rw [if_neg hc]

/-- `-=`: difference -/
theorem C16_isub_content (g g' : G) (p : Nat) (s : Slot) (vs : List Nat) (h : ForestInv g)
    (hs : step g (.isub p s vs) = .ok g') :
    (∀ x, x ∈ g'.kids p s ↔ x ∈ g.kids p s ∧ x ∉ vs) ∧
    (∀ q s', (q ≠ p ∨ s' ≠ s) → g'.kids q s' = g.kids q s') :=
  wr_foldE_discard_content (h.nodup p s) hs

/-- `&=`: intersection -/
theorem C16_iand_content (g g' : G) (p : Nat) (s : Slot) (vs order : List Nat) (h : ForestInv g)
    (hs : step g (.iand p s vs order) = .ok g') :
    (∀ x, x ∈ g'.kids p s ↔ x ∈ g.kids p s ∧ x ∈ vs) ∧
    (∀ q s', (q ≠ p ∨ s' ≠ s) → g'.kids q s' = g.kids q s') := by
  simp only [step] at hs
  split at hs
  · rename_i hsm
    obtain ⟨c1, c2⟩ := wr_foldE_discard_content (h.nodup p s) hs
    refine ⟨?_, c2⟩
    intro x
    rw [c1 x, wr_sameMembers_mem hsm x, List.mem_filter]
    by_cases hx : x ∈ vs <;> simp [hx]
  · cases hs

/-- `^=`: symmetric difference (the argument is a set: no duplicates); the added elements are moved -/
theorem C16_ixor_content (g g' : G) (p : Nat) (s : Slot) (vs : List Nat) (h : ForestInv g)
    (hop : OpOK g (.ixor p s vs)) (hvs : vs.Nodup) (hs : step g (.ixor p s vs) = .ok g') :
    (∀ x, x ∈ g'.kids p s ↔ (x ∈ g.kids p s ∧ x ∉ vs) ∨ (x ∉ g.kids p s ∧ x ∈ vs)) ∧
    (∀ q s', (q ≠ p ∨ s' ≠ s) → ∀ x, x ∈ g'.kids q s' ↔ x ∈ g.kids q s' ∧ x ∉ vs) :=
  wr_ixor_content vs g g' h hvs hop.2.2 hs

/-- no operation ever duplicates an element (corollary of C04) -/
theorem C16_nodup (g g' : G) (op : Op) (h : ForestInv g) (hop : OpOK g op) (hs : step g op = .ok g')
    (p : Nat) (s : Slot) : (g'.kids p s).Nodup :=
  (C04_step g g' op h hop hs).nodup p s

/-! ### the module list: built-in list semantics on the content after removing `v` from its previous owner -/

/-- `insert(k, v)` -/
theorem C16_insert_content (g g' : G) (i : Nat) (k : Int) (v : Nat) (h : ForestInv g)
    (hop : OpOK g (.insert i k v)) (hs : step g (.insert i k v) = .ok g') :
    g'.kids i .mods = pyInsert ((g.kids i .mods).erase v) k v ∧
    (∀ j, j ≠ i → g'.kids j .mods = (g.kids j .mods).erase v) ∧
    (∀ q s', s' ≠ .mods → g'.kids q s' = g.kids q s') := by
  have hk := wr_modInsert_kids (k := k) h hop.2.2.1 hs
  refine ⟨?_, ?_, ?_⟩
  · rw [hk i .mods, if_pos ⟨rfl, rfl⟩]
  · intro j hj
    rw [hk j .mods, if_neg (fun hh => hj hh.1)]
  · intro q s' hne
    rw [hk q s', if_neg (fun hh => hne hh.2), wr_erase_other_slot h hop.2.2.1 q hne]

/-- `append(v)` -/
theorem C16_append_content (g g' : G) (i v : Nat) (h : ForestInv g)
    (hop : OpOK g (.append i v)) (hs : step g (.append i v) = .ok g') :
    g'.kids i .mods = (g.kids i .mods).erase v ++ [v] ∧
    (∀ j, j ≠ i → g'.kids j .mods = (g.kids j .mods).erase v) ∧
    (∀ q s', s' ≠ .mods → g'.kids q s' = g.kids q s') := by
  have hk := wr_modAppend_kids h hop.2.2.1 hs
  refine ⟨?_, ?_, ?_⟩
  · rw [hk i .mods, if_pos ⟨rfl, rfl⟩]
  · intro j hj
    rw [hk j .mods, if_neg (fun hh => hj hh.1)]
  · intro q s' hne
    rw [hk q s', if_neg (fun hh => hne hh.2), wr_erase_other_slot h hop.2.2.1 q hne]

/-- `extend(vs)` / `+=` with pairwise different arguments: the list is the old list without the
arguments, followed by the arguments in their order; every other list loses the arguments -/
theorem C16_extend_content (g g' : G) (i : Nat) (vs : List Nat) (h : ForestInv g)
    (hop : OpOK g (.extend i vs)) (hvs : vs.Nodup) (hs : step g (.extend i vs) = .ok g') :
    g'.kids i .mods = (g.kids i .mods).filter (fun x => !(x ∈ vs)) ++ vs ∧
    (∀ j, j ≠ i → g'.kids j .mods = (g.kids j .mods).filter (fun x => !(x ∈ vs))) ∧
    (∀ x, x ∈ g'.kids i .mods ↔ x ∈ g.kids i .mods ∨ x ∈ vs) := by
  have hk := wr_extend_kids vs g g' h hvs hop.2.2 hs
  have h1 : g'.kids i .mods = (g.kids i .mods).filter (fun x => !(x ∈ vs)) ++ vs := by
    rw [hk i .mods, if_pos ⟨rfl, rfl⟩]
  refine ⟨h1, ?_, ?_⟩
  · intro j hj
    rw [hk j .mods, if_neg (fun hh => hj hh.1)]
  · intro x
    rw [h1, List.mem_append, List.mem_filter]
    by_cases hx : x ∈ vs <;> simp [hx]

/-- `del self[k]`: the element at Python index `k` is removed and detached -/
theorem C16_delItem_content (g g' : G) (i : Nat) (k : Int) (hs : step g (.delItem i k) = .ok g') :
    ∃ idx old, pyIndex (g.kids i .mods).length k = some idx ∧ (g.kids i .mods)[idx]? = some old ∧
      g'.kids i .mods = (g.kids i .mods).eraseIdx idx ∧ g'.par old = none ∧
      (∀ c, c ≠ old → g'.par c = g.par c) ∧
      (∀ q s', (q ≠ i ∨ s' ≠ .mods) → g'.kids q s' = g.kids q s') :=
  wr_modDelItem_content hs

/-- `pop(k)` = `del self[k]` when the index is valid -/
theorem C16_listPop_content (g g' : G) (i : Nat) (k : Int) (hs : step g (.listPop i k) = .ok g') :
    ∃ idx old, pyIndex (g.kids i .mods).length k = some idx ∧ (g.kids i .mods)[idx]? = some old ∧
      g'.kids i .mods = (g.kids i .mods).eraseIdx idx ∧ g'.par old = none ∧
      (∀ c, c ≠ old → g'.par c = g.par c) ∧
      (∀ q s', (q ≠ i ∨ s' ≠ .mods) → g'.kids q s' = g.kids q s') := by
  simp only [step] at hs
  split at hs
  · cases hs
  · exact wr_modDelItem_content hs

/-- `IndexError` of `del self[k]`, `pop(k)`, `self[k] = v` -/
theorem C16_delItem_error (g : G) (i : Nat) (k : Int) (hk : pyIndex (g.kids i .mods).length k = none) :
    step g (.delItem i k) = .error .indexError := by
  show modDelItem g i k = _
  unfold modDelItem
  rw [hk]

theorem C16_listPop_error (g : G) (i : Nat) (k : Int) (hk : pyIndex (g.kids i .mods).length k = none) :
    step g (.listPop i k) = .error .indexError := by
  simp only [step]
  rw [hk]

theorem C16_setItem_error (g : G) (i : Nat) (k : Int) (v : Nat) (hk : pyIndex (g.kids i .mods).length k = none) :
    step g (.setItem i k v) = .error .indexError := by
  show modSetItem g i k v = _
  unfold modSetItem
  rw [hk]

/-- Python's index rule: `-len <= k < len`, negative indexes count from the end -/
theorem C16_pyIndex_spec (len : Nat) (k : Int) :
    pyIndex len k = if -(len : Int) ≤ k ∧ k < len then some (k % len).toNat else none :=
  wr_pyIndex_spec len k

/-- every index is out of range for the empty list -/
theorem C16_pyIndex_empty (k : Int) : pyIndex 0 k = none := by
  rw [wr_pyIndex_spec, if_neg]
  intro hh; omega

/-- a valid index is below the length -/
theorem C16_pyIndex_lt (len : Nat) (k : Int) (idx : Nat) (hk : pyIndex len k = some idx) : idx < len :=
  wr_pyIndex_lt hk

/-- `self[k] = v`: the element at Python index `k` is replaced by `v` (moved from its previous owner)
and the replaced element is detached -/
theorem C16_setItem_content (g g' : G) (i : Nat) (k : Int) (v : Nat) (h : ForestInv g)
    (hop : OpOK g (.setItem i k v)) (hs : step g (.setItem i k v) = .ok g') :
    ∃ idx old, pyIndex (g.kids i .mods).length k = some idx ∧ (g.kids i .mods)[idx]? = some old ∧
      g'.kids i .mods = (g.kids i .mods).set idx v ∧
      (∀ j, j ≠ i → g'.kids j .mods = (g.kids j .mods).erase v) ∧
      g'.par v = some i ∧ (old ≠ v → g'.par old = none) := by
  obtain ⟨idx, old, h1, h2, _, h4, h5, h6⟩ := wr_modSetItem_content h hop hs
  refine ⟨idx, old, h1, h2, h4, fun j hj => h5 j .mods (.inl hj), ?_, ?_⟩
  · rw [h6 v, if_pos rfl]
  · intro hne
    rw [h6 old, if_neg hne, if_pos rfl]

/-- `self[k] = v` is outside the model exactly in the pattern of the known finding K1: `v` is already
in this list at another position -/
theorem C16_setItem_outside_iff (g : G) (i : Nat) (k : Int) (v : Nat) :
    step g (.setItem i k v) = .error .outside ↔
      ∃ idx old, pyIndex (g.kids i .mods).length k = some idx ∧ (g.kids i .mods)[idx]? = some old ∧
        v ∈ g.kids i .mods ∧ v ≠ old := by
  constructor
  · intro hs
    rcases wr_modSetItem_err (g := g) (i := i) (k := k) (v := v) hs with h1 | h1 | h1 | h1
    · cases h1.1
    · exact h1.2
    · cases h1
    · cases h1
  · rintro ⟨idx, old, h1, h2, h3, h4⟩
    show modSetItem g i k v = _
    unfold modSetItem
    rw [h1]
    simp only
    rw [h2]
    simp only
    rw [if_pos ⟨h3, h4⟩]

/-- `remove(v)`: `ValueError` for an absent element -/
theorem C16_listRemove_error (g : G) (i v : Nat) (hv : v ∉ g.kids i .mods) :
    step g (.listRemove i v) = .error .valueError := by
  show modListRemove g i v = _
  unfold modListRemove
  rw [if_neg hv]

/-- `remove(v)` -/
theorem C16_listRemove_content (g g' : G) (i v : Nat) (hs : step g (.listRemove i v) = .ok g') :
    g'.kids i .mods = (g.kids i .mods).erase v ∧ g'.par v = none ∧
    (∀ q s', (q ≠ i ∨ s' ≠ .mods) → g'.kids q s' = g.kids q s') := by
  have hk := wr_modListRemove_kids (g := g) (g' := g') (i := i) (v := v) hs
  refine ⟨?_, ?_, ?_⟩
  · rw [hk i .mods, if_pos ⟨rfl, rfl⟩]
  · rw [modListRemove_par hs, if_pos rfl]
  · intro q s' hne
    rw [hk q s', if_neg (wr_not_at hne)]

/-- `reverse()` -/
theorem C16_reverse_content (g : G) (i : Nat) :
    step g (.reverse i) = .ok (modReverse g i) ∧
    (modReverse g i).kids i .mods = (g.kids i .mods).reverse ∧
    ∀ p s, (p ≠ i ∨ s ≠ .mods) → (modReverse g i).kids p s = g.kids p s := by
  refine ⟨rfl, ?_, ?_⟩
  · unfold modReverse
    rw [kidsSet_kids, if_pos ⟨rfl, rfl⟩]
  · intro p s hne
    unfold modReverse
    rw [kidsSet_kids, if_neg (wr_not_at hne)]

/-- `clear()` -/
theorem C16_listClear_content (g g' : G) (i : Nat) (hs : step g (.listClear i) = .ok g') :
    g'.kids i .mods = [] ∧ (∀ q s', (q ≠ i ∨ s' ≠ .mods) → g'.kids q s' = g.kids q s') :=
  wr_modClear_kids (g.kids i .mods) g g' rfl hs

/-! ### failures -/

/-- the exceptions an operation can raise: the built-in's `KeyError` / `ValueError` / `IndexError`,
"outside the model" (K1), "ill-formed test input" - never the `KeyError` of `del cache[uuid]` -/
theorem C16_error_kinds (g : G) (op : Op) (e : Exc) (h : ForestInv g) (hc : CacheInv g) (hd : Distinct g)
    (hop : OpOK g op) (hfine : DistinctFine g op) (he : step g op = .error e) :
    e = .keyError ∨ e = .valueError ∨ e = .indexError ∨ e = .outside ∨ e = .badOp := by
  cases e with
  | keyError => exact .inl rfl
  | valueError => exact .inr (.inl rfl)
  | indexError => exact .inr (.inr (.inl rfl))
  | outside => exact .inr (.inr (.inr (.inl rfl)))
  | badOp => exact .inr (.inr (.inr (.inr rfl)))
  | cacheKeyError => exact absurd he (C03_no_cache_keyerror_fine g op h hc hd hop hfine)

/-- the built-in's exceptions are decided by a guard on the content alone (so they are raised before
any mutation): `KeyError` of `remove`/`pop`, `ValueError` of the list's `remove`, `IndexError` of
`del self[k]` / `pop(k)` / `self[k] = v` -/
theorem C16_builtin_errors_pure (g : G) :
    (∀ p s v, step g (.remove p s v) = .error .keyError ↔ v ∉ g.kids p s) ∧
    (∀ p s v, step g (.pop p s v) = .error .keyError ↔ g.kids p s = []) ∧
    (∀ i v, step g (.listRemove i v) = .error .valueError ↔ v ∉ g.kids i .mods) ∧
    (∀ i k, step g (.delItem i k) = .error .indexError ↔ pyIndex (g.kids i .mods).length k = none) ∧
    (∀ i k, step g (.listPop i k) = .error .indexError ↔ pyIndex (g.kids i .mods).length k = none) ∧
    (∀ i k v, step g (.setItem i k v) = .error .indexError ↔ pyIndex (g.kids i .mods).length k = none) := by
  refine ⟨?_, ?_, ?_, ?_, ?_, ?_⟩
  · intro p s v
    refine ⟨?_, (C16_remove_error g p s v).1⟩
    intro hs hv
    rw [(C16_remove_error g p s v).2 hv] at hs
    cases wr_setDiscard_err (g := g) (p := p) (s := s) (v := v) hs
  · intro p s v
    refine ⟨?_, C16_pop_empty g p s v⟩
    intro hs
    simp only [step] at hs
    split at hs
    · rename_i he; exact List.isEmpty_iff.1 he
    · split at hs
      · cases wr_setDiscard_err hs
      · cases hs
  · intro i v
    refine ⟨?_, C16_listRemove_error g i v⟩
    intro hs
    rcases wr_modListRemove_err (g := g) (i := i) (v := v) hs with h1 | h1
    · exact h1.2
    · cases h1
  · intro i k
    refine ⟨?_, C16_delItem_error g i k⟩
    intro hs
    rcases wr_modDelItem_err (g := g) (i := i) (k := k) hs with h1 | h1
    · exact h1.2
    · cases h1
  · intro i k
    refine ⟨?_, C16_listPop_error g i k⟩
    intro hs
    simp only [step] at hs
    split at hs
    · assumption
    · rcases wr_modDelItem_err hs with h1 | h1
      · exact h1.2
      · cases h1
  · intro i k v
    refine ⟨?_, C16_setItem_error g i k v⟩
    intro hs
    rcases wr_modSetItem_err (g := g) (i := i) (k := k) (v := v) hs with h1 | h1 | h1 | h1
    · exact h1.2
    · cases h1.1
    · cases h1
    · cases h1

/-- every exception of a collection operation in a consistent forest is either the `KeyError` of
`del cache[uuid]` (excluded by C03) or exactly the built-in's exception on the same content
(`wr_builtinError`: `KeyError` of `remove`/`pop`, `ValueError` of the list's `remove`, `IndexError`,
the markers `outside`/`badOp`); in particular `add`, `discard`, `update`, `-=`, `^=`, `insert`,
`append`, `extend`, `reverse`, `clear` of the list raise nothing else -/
theorem C16_error_exact (g : G) (op : Op) (e : Exc) (h : ForestInv g) (hop : OpOK g op)
    (he : step g op = .error e) : e = .cacheKeyError ∨ wr_builtinError g op e := by
  cases op with
  | mkIR u => exact .inr trivial
  | mk k u kids parent => exact .inr trivial
  | mkSym u nm pl parent => exact .inr trivial
  | setParent c p => exact .inr trivial
  | setName v nm => exact .inr trivial
  | setPayload v pl => exact .inr trivial
  | add p s v => exact .inl (wr_nodeSetAdd_err he)
  | discard p s v => exact .inl (wr_setDiscard_err he)
  | remove p s v =>
    simp only [step] at he
    split at he
    · exact .inl (wr_setDiscard_err he)
    · rename_i hv; cases he; exact .inr ⟨rfl, hv⟩
  | pop p s v =>
    simp only [step] at he
    split at he
    · rename_i hemp; cases he; exact .inr (.inl ⟨rfl, List.isEmpty_iff.1 hemp⟩)
    · rename_i hemp
      split at he
      · exact .inl (wr_setDiscard_err he)
      · rename_i hv; cases he
        exact .inr (.inr ⟨rfl, fun hh => hemp (List.isEmpty_iff.2 hh), hv⟩)
  | clear p s order =>
    simp only [step] at he
    split at he
    · exact .inl (wr_foldE_err (P := fun e => e = .cacheKeyError) (fun _ _ _ h => wr_setDiscard_err h) _ _ _ he)
    · rename_i hsm; cases he; exact .inr ⟨rfl, Bool.eq_false_iff.2 hsm⟩
  | update p s vs =>
    simp only [step] at he
    split at he
    · exact .inl (wr_blkUpdate_err he)
    · exact .inl (wr_foldE_err (P := fun e => e = .cacheKeyError) (fun _ _ _ h => wr_setAdd_err h) _ _ _ he)
  | isub p s vs =>
    simp only [step] at he
    exact .inl (wr_foldE_err (P := fun e => e = .cacheKeyError) (fun _ _ _ h => wr_setDiscard_err h) _ _ _ he)
  | iand p s vs order =>
    simp only [step] at he
    split at he
    · exact .inl (wr_foldE_err (P := fun e => e = .cacheKeyError) (fun _ _ _ h => wr_setDiscard_err h) _ _ _ he)
    · rename_i hsm; cases he; exact .inr ⟨rfl, Bool.eq_false_iff.2 hsm⟩
  | ixor p s vs =>
    simp only [step] at he
    refine .inl (wr_foldE_err (P := fun e => e = .cacheKeyError) ?_ _ _ _ he)
    intro g1 x e1 h1
    split at h1
    · exact wr_setDiscard_err h1
    · exact wr_nodeSetAdd_err h1
  | insert i k v => exact .inl (wr_modInsert_err h hop.2.2.1 he)
  | append i v => exact .inl (wr_modInsert_err h hop.2.2.1 he)
  | extend i vs => exact .inl (wr_extend_err h hop.2.2 he)
  | delItem i k =>
    rcases wr_modDelItem_err (g := g) (i := i) (k := k) he with h1 | h1
    · exact .inr h1
    · exact .inl h1
  | setItem i k v =>
    rcases wr_modSetItem_err_inv (i := i) (k := k) h hop.2.2.1 he with h1 | h1 | h1
    · exact .inr (.inl h1)
    · exact .inr (.inr h1)
    · exact .inl h1
  | listRemove i v =>
    rcases wr_modListRemove_err (g := g) (i := i) (v := v) he with h1 | h1
    · exact .inr h1
    · exact .inl h1
  | listPop i k =>
    simp only [step] at he
    split at he
    · rename_i hn; cases he; exact .inr ⟨rfl, hn⟩
    · rcases wr_modDelItem_err he with h1 | h1
      · exact .inr h1
      · exact .inl h1
  | reverse i => cases he
  | listClear i => exact .inl (wr_modClear_err (g.kids i .mods) g e rfl he)

/-- where the built-in never raises, the wrapper never raises (under the hypothesis of C03: UUIDs
distinct per IR, also at the moments inside the loops `update`/`extend`/`^=`) -/
theorem C16_never_raises (g : G) (op : Op) (h : ForestInv g) (hc : CacheInv g) (hd : Distinct g)
    (hop : OpOK g op) (hfine : DistinctFine g op) (hnr : wr_neverRaises op = true) :
    ∃ g', step g op = .ok g' := by
  cases hs : step g op with
  | ok g' => exact ⟨g', rfl⟩
  | error e =>
    exfalso
    rcases C16_error_exact g op e h hop hs with h1 | h1
    · rw [h1] at hs
      exact C03_no_cache_keyerror_fine g op h hc hd hop hfine hs
    · cases op <;> first | exact h1 | cases hnr

end Gtirb.Forest
