import GtirbProofs.Props.C01Wire
import GtirbProofs.Props.C17Bytes
/-! C17 on files, with the protobuf layer instantiated by the wire model (`Pb.parseMIR`,
`Pb.serMIR`): the positive clause (every saved file is accepted) and the inversion of an
accepted file down to its wire-level field list. -/
namespace Gtirb.Msg
open Gtirb Gtirb.Pb

/-- every file written by save for a self-contained IR is accepted by load -/
theorem C17_accepts_saved_file (v : IRV) (h : wfir v = true) (hw : wfW (toMsg v) = true) :
    ∃ v', loadBytes parseMIR (saveBytes serMIR v) = .ok v' :=
  ⟨v, C01_roundtrip_bytes v h hw⟩

/-- what an accepted file looks like, wire format included: the header, then a body that is
a sequence of well-delimited fields (`decodeW`), which reads as a message (`parseIRW`) that
the value-level reader accepts with the same result -/
theorem C17_accepted_file_inv (bs : Bytes) (v : IRV) (h : loadBytes parseMIR bs = .ok v) :
    bs.take 5 = Generated.magic ∧ (bs.drop 7).take 1 = [UInt8.ofNat Generated.protobufVersion]
      ∧ ∃ w m, decodeW (bs.drop 8) = some w ∧ parseIRW w = some m ∧ fromMsg m = .ok v := by
  obtain ⟨h1, h2, m, hp, hm⟩ := C17_accepted_bytes_inv parseMIR bs v h
  refine ⟨h1, h2, ?_⟩
  unfold parseMIR asMsg at hp
  split at hp
  · next w hw => exact ⟨w, m, hw, hp, hm⟩
  · cases hp

/-- a body that is not a well-delimited field sequence (truncated inside a field, a length
running past the end, a group, field number 0) is rejected, whatever the header -/
theorem C17_malformed_wire_rejected (bs : Bytes) (h : decodeW (bs.drop 8) = none) :
    ∀ v, loadBytes parseMIR bs ≠ .ok v := by
  intro v hv
  obtain ⟨_, _, w, _, hw, _, _⟩ := C17_accepted_file_inv bs v hv
  rw [h] at hw
  cases hw

/-- the outcome of loading a file is a function of its bytes alone (no state is consulted):
stated as totality of `loadBytes parseMIR` -/
theorem C17_file_total (bs : Bytes) :
    (∃ e, loadBytes parseMIR bs = .error e) ∨ (∃ v, loadBytes parseMIR bs = .ok v) := by
  cases loadBytes parseMIR bs with
  | error e => exact Or.inl ⟨e, rfl⟩
  | ok v => exact Or.inr ⟨v, rfl⟩

end Gtirb.Msg
