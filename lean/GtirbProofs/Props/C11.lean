import GtirbModel.Cfg
/-! C11: `gtirb.CFG` behaves as a mathematical set of `(source, target, label)` edges.

The store is a list of entries; the invariant `CfgInv` says that every edge is stored
once, so that membership (`contains`), length (`List.length`) and iteration (the list
itself) are those of the finite set `{e | e ∈ g}`. Every public operation preserves the
invariant and has the set-theoretic membership specification. -/
namespace Gtirb.Cfg

/-- every edge stored once -/
def CfgInv (g : Store) : Prop := g.Nodup

instance (g : Store) : Decidable (CfgInv g) := inferInstanceAs (Decidable g.Nodup)

/-! ### membership -/

theorem C11_contains (g : Store) (e : Edge) : contains g e = true ↔ e ∈ g := by
  simp [contains]

theorem contains_eq_false (g : Store) (e : Edge) : contains g e = false ↔ e ∉ g := by
  rw [← C11_contains]; simp

/-! ### add -/

theorem C11_add_mem (g : Store) (e e' : Edge) : e' ∈ add g e ↔ e' ∈ g ∨ e' = e := by
  unfold add
  split
  next h =>
    have := (C11_contains g e).1 h
    constructor
    · intro h'; exact Or.inl h'
    · rintro (h' | rfl)
      · exact h'
      · exact this
  next h => simp

theorem C11_add_present (g : Store) (e : Edge) (h : e ∈ g) : add g e = g := by
  simp [add, (C11_contains g e).2 h]

theorem C11_add_len (g : Store) (e : Edge) (h : e ∉ g) : (add g e).length = g.length + 1 := by
  simp [add, (contains_eq_false g e).2 h]

theorem add_inv (g : Store) (e : Edge) (hg : CfgInv g) : CfgInv (add g e) := by
  unfold add CfgInv at *
  split
  · exact hg
  next h =>
    have h' : e ∉ g := fun hm => h ((C11_contains g e).2 hm)
    rw [List.nodup_append]
    refine ⟨hg, by simp, ?_⟩
    intro a ha b hb
    simp at hb
    subst hb
    intro hab; subst hab; exact h' ha

/-! ### discard -/

theorem C11_discard_mem (g : Store) (e e' : Edge) (hg : CfgInv g) :
    e' ∈ discard g e ↔ e' ∈ g ∧ e' ≠ e := by
  unfold discard
  rw [List.Nodup.mem_erase_iff hg]
  exact And.comm

theorem C11_discard_absent (g : Store) (e : Edge) (h : e ∉ g) : discard g e = g :=
  List.erase_of_not_mem h

theorem C11_discard_len (g : Store) (e : Edge) (h : e ∈ g) :
    (discard g e).length + 1 = g.length := by
  unfold discard
  rw [List.length_erase_of_mem h]
  have : 0 < g.length := List.length_pos_of_mem h
  omega

theorem discard_inv (g : Store) (e : Edge) (hg : CfgInv g) : CfgInv (discard g e) :=
  List.Nodup.erase e hg

/-! ### remove / pop (KeyError exactly when absent) -/

theorem C11_remove (g : Store) (e : Edge) :
    remove g e = if e ∈ g then some (discard g e) else none := by
  unfold remove
  by_cases h : e ∈ g
  · simp [h, (C11_contains g e).2 h]
  · simp [h, (contains_eq_false g e).2 h]

theorem C11_pop (g : Store) (e : Edge) :
    popReported g e = if e ∈ g then some (discard g e) else none := by
  unfold popReported
  by_cases h : e ∈ g
  · simp [h, (C11_contains g e).2 h]
  · simp [h, (contains_eq_false g e).2 h]

/-! ### update / `|=` -/

theorem C11_update_mem (g : Store) (es : List Edge) (e' : Edge) :
    e' ∈ update g es ↔ e' ∈ g ∨ e' ∈ es := by
  unfold update
  induction es generalizing g with
  | nil => simp
  | cons e es ih =>
    rw [List.foldl_cons, ih, C11_add_mem, List.mem_cons, or_assoc]

theorem C11_ior_mem (g : Store) (es : List Edge) (e' : Edge) :
    e' ∈ ior g es ↔ e' ∈ g ∨ e' ∈ es := C11_update_mem g es e'

theorem update_inv (g : Store) (es : List Edge) (hg : CfgInv g) : CfgInv (update g es) := by
  unfold update
  induction es generalizing g with
  | nil => exact hg
  | cons e es ih => exact ih _ (add_inv g e hg)

/-! ### `-=` -/

theorem isub_inv (g : Store) (es : List Edge) (hg : CfgInv g) : CfgInv (isub g es) := by
  unfold isub
  induction es generalizing g with
  | nil => exact hg
  | cons e es ih => exact ih _ (discard_inv g e hg)

theorem C11_isub_mem (g : Store) (es : List Edge) (e' : Edge) (hg : CfgInv g) :
    e' ∈ isub g es ↔ e' ∈ g ∧ e' ∉ es := by
  unfold isub
  induction es generalizing g with
  | nil => simp
  | cons e es ih =>
    rw [List.foldl_cons, ih _ (discard_inv g e hg), C11_discard_mem g e e' hg, List.mem_cons,
      not_or, and_assoc]

/-! ### `&=` -/

theorem iand_eq_isub (g : Store) (es : List Edge) :
    iand g es = isub g (g.filter fun e => !(es.any (· == e))) := rfl

theorem iand_inv (g : Store) (es : List Edge) (hg : CfgInv g) : CfgInv (iand g es) := by
  rw [iand_eq_isub]; exact isub_inv g _ hg

theorem C11_iand_mem (g : Store) (es : List Edge) (e' : Edge) (hg : CfgInv g) :
    e' ∈ iand g es ↔ e' ∈ g ∧ e' ∈ es := by
  rw [iand_eq_isub, C11_isub_mem g _ e' hg]
  simp only [List.mem_filter, Bool.not_eq_eq_eq_not, Bool.not_true]
  constructor
  · rintro ⟨hm, hn⟩
    refine ⟨hm, ?_⟩
    apply Classical.byContradiction
    intro hne
    apply hn
    refine ⟨hm, ?_⟩
    cases hany : es.any (· == e') with
    | false => rfl
    | true =>
      rw [List.any_eq_true] at hany
      obtain ⟨x, hx, hxe⟩ := hany
      rw [beq_iff_eq] at hxe
      subst hxe
      exact absurd hx hne
  · rintro ⟨hm, hes⟩
    refine ⟨hm, ?_⟩
    rintro ⟨_, hf⟩
    have : es.any (· == e') = true := List.any_eq_true.2 ⟨e', hes, by simp⟩
    rw [this] at hf
    cases hf

/-! ### `^=` -/

/-- toggling one edge -/
def toggle (g : Store) (e : Edge) : Store := if contains g e then discard g e else add g e

theorem ixor_eq (g : Store) (es : List Edge) : ixor g es = es.foldl toggle g := rfl

theorem toggle_inv (g : Store) (e : Edge) (hg : CfgInv g) : CfgInv (toggle g e) := by
  unfold toggle
  split
  · exact discard_inv g e hg
  · exact add_inv g e hg

theorem toggle_mem (g : Store) (e e' : Edge) (hg : CfgInv g) :
    e' ∈ toggle g e ↔ (e' ∈ g ∧ e' ≠ e) ∨ (e' ∉ g ∧ e' = e) := by
  unfold toggle
  split
  next h =>
    have hm := (C11_contains g e).1 h
    rw [C11_discard_mem g e e' hg]
    constructor
    · intro h'; exact Or.inl h'
    · rintro (h' | ⟨hn, rfl⟩)
      · exact h'
      · exact absurd hm hn
  next h =>
    have hm : e ∉ g := fun hm => h ((C11_contains g e).2 hm)
    rw [C11_add_mem]
    constructor
    · rintro (h' | rfl)
      · refine Or.inl ⟨h', ?_⟩
        intro heq; subst heq; exact hm h'
      · exact Or.inr ⟨hm, rfl⟩
    · rintro (⟨h', _⟩ | ⟨_, rfl⟩)
      · exact Or.inl h'
      · exact Or.inr rfl

theorem ixor_inv (g : Store) (es : List Edge) (hg : CfgInv g) : CfgInv (ixor g es) := by
  rw [ixor_eq]
  induction es generalizing g with
  | nil => exact hg
  | cons e es ih => exact ih _ (toggle_inv g e hg)

theorem C11_ixor_mem (g : Store) (es : List Edge) (e' : Edge) (hg : CfgInv g) (hes : es.Nodup) :
    e' ∈ ixor g es ↔ (e' ∈ g ∧ e' ∉ es) ∨ (e' ∉ g ∧ e' ∈ es) := by
  rw [ixor_eq]
  induction es generalizing g with
  | nil => simp
  | cons e es ih =>
    rw [List.nodup_cons] at hes
    obtain ⟨hne, hes⟩ := hes
    rw [List.foldl_cons, ih _ (toggle_inv g e hg) hes, toggle_mem g e e' hg, List.mem_cons]
    by_cases h1 : e' ∈ g <;> by_cases h2 : e' = e <;> by_cases h3 : e' ∈ es <;>
      simp_all

/-! ### every operation preserves the invariant; errors -/

theorem C11_step_inv (g : Store) (op : Op) (g' : Store) (hg : CfgInv g)
    (h : step g op = some g') : CfgInv g' := by
  cases op with
  | add e => simp only [step, Option.some.injEq] at h; subst h; exact add_inv g e hg
  | discard e => simp only [step, Option.some.injEq] at h; subst h; exact discard_inv g e hg
  | remove e =>
    simp only [step, C11_remove] at h
    split at h
    · simp only [Option.some.injEq] at h; subst h; exact discard_inv g e hg
    · cases h
  | pop e =>
    simp only [step, C11_pop] at h
    split at h
    · simp only [Option.some.injEq] at h; subst h; exact discard_inv g e hg
    · cases h
  | clear => simp only [step, Option.some.injEq] at h; subst h; exact List.nodup_nil
  | update es => simp only [step, Option.some.injEq] at h; subst h; exact update_inv g es hg
  | ior es => simp only [step, Option.some.injEq] at h; subst h; exact update_inv g es hg
  | iand es => simp only [step, Option.some.injEq] at h; subst h; exact iand_inv g es hg
  | isub es => simp only [step, Option.some.injEq] at h; subst h; exact isub_inv g es hg
  | ixor es => simp only [step, Option.some.injEq] at h; subst h; exact ixor_inv g es hg

theorem C11_step_error (g : Store) (op : Op) :
    step g op = none ↔ (∃ e, (op = .remove e ∨ op = .pop e) ∧ e ∉ g) := by
  cases op with
  | remove e =>
    simp only [step, C11_remove]
    by_cases h : e ∈ g <;> simp [h]
  | pop e =>
    simp only [step, C11_pop]
    by_cases h : e ∈ g <;> simp [h]
  | _ => simp [step]

/-- every reachable store: run any list of operations from the empty CFG, skipping failed
ones (KeyError leaves the state unchanged) -/
def run (g : Store) (ops : List Op) : Store := ops.foldl (fun g op => (step g op).getD g) g

theorem run_inv (g : Store) (ops : List Op) (hg : CfgInv g) : CfgInv (run g ops) := by
  unfold run
  induction ops generalizing g with
  | nil => exact hg
  | cons op ops ih =>
    rw [List.foldl_cons]
    apply ih
    cases h : step g op with
    | none => exact hg
    | some g' => exact C11_step_inv g op g' hg h

theorem C11_history (ops : List Op) : CfgInv (run [] ops) := run_inv [] ops List.nodup_nil

/-! ### length and iteration count each member once -/

theorem C11_len_card (g : Store) (hg : CfgInv g) (e : Edge) :
    g.count e = if e ∈ g then 1 else 0 := by
  split
  next h =>
    have h1 : g.count e ≤ 1 := List.nodup_iff_count.1 hg e
    have h2 : 0 < g.count e := List.count_pos_iff.2 h
    omega
  next h => exact List.count_eq_zero.2 h

/-- length and iteration are functions of the edge set: two stores with the same members
iterate the same edges (up to order) and have the same length -/
theorem C11_iteration_set (g g' : Store) (hg : CfgInv g) (hg' : CfgInv g')
    (h : ∀ e, e ∈ g ↔ e ∈ g') : g.Perm g' ∧ g.length = g'.length := by
  have hp : g.Perm g' := (List.perm_ext_iff_of_nodup hg hg').2 h
  exact ⟨hp, hp.length_eq⟩

theorem C11_clear_mem (g : Store) (e : Edge) : e ∉ clear g := by
  simp [clear]

/-! ### labels by value; a missing label is distinct from every label -/

theorem C11_none_label_distinct (s d : Nat) (l : Label) :
    (⟨s, d, none⟩ : Edge) ≠ ⟨s, d, some l⟩ := by
  intro h; cases h

set_option linter.unusedVariables false in
/-- (the hypothesis `h` is not needed for membership; it is what makes the two edges
distinct members, see `C11_parallel_len`) -/
theorem C11_parallel (g : Store) (s d : Nat) (l l' : Option Label) (h : l ≠ l') :
    let g' := add (add g ⟨s, d, l⟩) ⟨s, d, l'⟩
    (⟨s, d, l⟩ : Edge) ∈ g' ∧ (⟨s, d, l'⟩ : Edge) ∈ g' := by
  intro g'
  refine ⟨?_, ?_⟩
  · exact (C11_add_mem _ _ _).2 (Or.inl ((C11_add_mem _ _ _).2 (Or.inr rfl)))
  · exact (C11_add_mem _ _ _).2 (Or.inr rfl)

/-- the two parallel edges are distinct members: both are counted by `len` -/
theorem C11_parallel_len (g : Store) (s d : Nat) (l l' : Option Label) (h : l ≠ l')
    (h1 : (⟨s, d, l⟩ : Edge) ∉ g) (h2 : (⟨s, d, l'⟩ : Edge) ∉ g) :
    (add (add g ⟨s, d, l⟩) ⟨s, d, l'⟩).length = g.length + 2 := by
  rw [C11_add_len, C11_add_len _ _ h1]
  rw [C11_add_mem]
  rintro (h' | h')
  · exact h2 h'
  · exact h (by cases h'; rfl)

/-! ### adjacency views -/

theorem C11_out_edges (g : Store) (n : Nat) (e : Edge) :
    e ∈ outEdges g n ↔ e ∈ g ∧ e.src = n := by
  simp [outEdges]

theorem C11_in_edges (g : Store) (n : Nat) (e : Edge) :
    e ∈ inEdges g n ↔ e ∈ g ∧ e.dst = n := by
  simp [inEdges]

theorem C11_out_nodup (g : Store) (n : Nat) (hg : CfgInv g) : (outEdges g n).Nodup :=
  List.Pairwise.filter _ hg

theorem C11_in_nodup (g : Store) (n : Nat) (hg : CfgInv g) : (inEdges g n).Nodup :=
  List.Pairwise.filter _ hg

/-! ### a concrete reachable store: two parallel edges with different labels, a self-loop,
a re-added edge, a removed edge, a failed `remove` -/

def exLabel : Label := ⟨1, true, false⟩

def exOps : List Op :=
  [.add ⟨0, 1, none⟩, .add ⟨0, 1, some exLabel⟩, .add ⟨2, 2, none⟩, .add ⟨0, 1, none⟩,
   .add ⟨1, 2, none⟩, .remove ⟨1, 2, none⟩, .remove ⟨3, 3, none⟩,
   .ixor [⟨2, 2, none⟩, ⟨2, 0, none⟩], .update [⟨2, 2, none⟩, ⟨2, 2, none⟩]]

example : run [] exOps = [⟨0, 1, none⟩, ⟨0, 1, some exLabel⟩, ⟨2, 0, none⟩, ⟨2, 2, none⟩] := by
  decide

example :
    ∀ g, g = run [] exOps →
    CfgInv g ∧ g.length = 4 ∧
    contains g ⟨0, 1, none⟩ = true ∧ contains g ⟨0, 1, some exLabel⟩ = true ∧
    contains g ⟨2, 2, none⟩ = true ∧ contains g ⟨1, 2, none⟩ = false ∧
    contains g ⟨0, 1, some ⟨1, true, true⟩⟩ = false ∧
    outEdges g 0 = [⟨0, 1, none⟩, ⟨0, 1, some exLabel⟩] ∧
    inEdges g 2 = [⟨2, 2, none⟩] ∧ outEdges g 2 = [⟨2, 0, none⟩, ⟨2, 2, none⟩] ∧
    step g (.remove ⟨3, 3, none⟩) = none := by
  intro g hg; subst hg; decide

end Gtirb.Cfg
