import GtirbProofs.Lemmas.AcceptProofs
import GtirbProofs.Props.C02
/-! C02, reader direction, acceptance half: loading any schema-valid, referentially closed
message (`closedMsg`, GtirbModel/MsgWF.lean), whoever wrote it, succeeds. Together with the
`C02_reader_*` field lemmas: the load yields an IR whose every attribute equals the
corresponding message field. `closedMsg` is linked to `wfir` (the image of the writer on a
self-contained IR is closed), and the one thing it excludes beyond plain closure, a forward
reference to a later module, is shown to be rejected by the reader (known finding K5). -/
namespace Gtirb.Msg
open Gtirb

/-- every schema-valid, referentially closed message is accepted -/
theorem C02_reader_accepts (m : MIR) (h : closedMsg m = true) : ∃ v, fromMsg m = .ok v :=
  fromMsg_acc_of_closed m h

/-- and what it yields carries the message's fields -/
theorem C02_reader_accepts_fields (m : MIR) (h : closedMsg m = true) :
    ∃ v, fromMsg m = .ok v ∧ v.uuid = m.uuid ∧ v.version = m.version
      ∧ v.modules.length = m.modules.length := by
  obtain ⟨v, hv⟩ := C02_reader_accepts m h
  obtain ⟨h1, h2, h3, _⟩ := C02_reader_ir m v hv
  exact ⟨v, hv, h1, h2, h3⟩

/-! ### the image of the writer -/

theorem blockToMsg_uuid? (b : BlockV) : (blockToMsg b).uuid? = some b.uuid := by
  cases b <;> rfl

theorem blockToMsg_codeUuid? (b : BlockV) :
    (blockToMsg b).codeUuid? = (match b with | .code u _ _ _ => some u | .data _ _ _ => none) := by
  cases b <;> rfl

theorem intervalToMsg_blockUuids (x : IntervalV) : (intervalToMsg x).blockUuids = x.blockUuids := by
  simp only [MByteInterval.blockUuids, intervalToMsg, IntervalV.blockUuids, List.filterMap_map]
  rw [← List.filterMap_eq_map]
  congr 1
  funext b
  exact blockToMsg_uuid? b

theorem sectionToMsg_nodeUuids (s : SectionV) : (sectionToMsg s).nodeUuids = s.nodeUuids := by
  simp only [MSection.nodeUuids, SectionV.nodeUuids, sectionToMsg, List.flatMap_map,
    intervalToMsg_blockUuids]
  rfl

theorem moduleToMsg_nodeUuids (m : ModuleV) : (moduleToMsg m).nodeUuids = m.nodeUuids := by
  simp [MModule.nodeUuids, ModuleV.nodeUuids, moduleToMsg, List.flatMap_map,
    sectionToMsg_nodeUuids, symbolToMsg, Function.comp_def]

theorem toMsg_nodeUuids (v : IRV) : (toMsg v).nodeUuids = v.nodeUuids := by
  simp [MIR.nodeUuids, IRV.nodeUuids, toMsg, List.flatMap_map, moduleToMsg_nodeUuids]

theorem moduleToMsg_codeUuids (m : ModuleV) : (moduleToMsg m).codeUuids = m.codeUuids := by
  simp only [MModule.codeUuids, ModuleV.codeUuids, moduleToMsg, sectionToMsg, intervalToMsg,
    List.flatMap_map, List.filterMap_map]
  congr 1; funext s; congr 1; funext x; congr 1; funext b
  exact blockToMsg_codeUuid? b

theorem moduleToMsg_blockUuids (m : ModuleV) : (moduleToMsg m).blockUuids = m.blockUuids := by
  simp only [MModule.blockUuids, ModuleV.blockUuids]
  congr 1
  simp only [moduleToMsg, sectionToMsg, List.flatMap_map]
  congr 1; funext s; congr 1; funext x
  exact intervalToMsg_blockUuids x

theorem moduleToMsg_symbolUuids (m : ModuleV) :
    (moduleToMsg m).symbolUuids = m.symbols.map (·.uuid) := by
  simp [MModule.symbolUuids, moduleToMsg, symbolToMsg, Function.comp_def]

theorem mexprSyms_exprToMsg (e : ExprEntryV) : mexprSyms (exprToMsg e).2 = exprSyms e.expr := by
  obtain ⟨k, ex, at_⟩ := e
  cases ex <;> rfl

theorem flatMap_map_moduleToMsg {α : Type} (f : MModule → List α) (g : ModuleV → List α)
    (hfg : ∀ m, f (moduleToMsg m) = g m) (l : List ModuleV) :
    (l.map moduleToMsg).flatMap f = l.flatMap g := by
  simp [List.flatMap_map, hfg]

theorem mmoduleOK_toMsg (earlier : List ModuleV) (m : ModuleV) (h : moduleOK earlier m = true) :
    mmoduleOK (earlier.map moduleToMsg) (moduleToMsg m) = true := by
  simp only [moduleOK, Bool.and_eq_true, List.all_eq_true, decide_eq_true_eq] at h
  obtain ⟨⟨⟨⟨⟨⟨hisa, hff⟩, hbo⟩, hentry⟩, hrefs⟩, _⟩, hsecs⟩ := h
  simp only [mmoduleOK, Bool.and_eq_true, List.all_eq_true, decide_eq_true_eq, Bool.or_eq_true,
    flatMap_map_moduleToMsg _ _ moduleToMsg_codeUuids,
    flatMap_map_moduleToMsg _ _ moduleToMsg_blockUuids,
    flatMap_map_moduleToMsg _ _ moduleToMsg_symbolUuids,
    moduleToMsg_codeUuids, moduleToMsg_blockUuids, moduleToMsg_symbolUuids]
  refine ⟨⟨⟨⟨⟨hisa, hff⟩, hbo⟩, ?_⟩, ?_⟩, ?_⟩
  · cases hep : m.entryPoint with
    | none => exact .inl (by simp [moduleToMsg, hep])
    | some u =>
      rw [hep] at hentry
      exact .inr (by simpa [moduleToMsg, hep] using hentry)
  · intro ms hms
    simp only [moduleToMsg, List.mem_map] at hms
    obtain ⟨s, hs, rfl⟩ := hms
    have := hrefs s hs
    obtain ⟨su, sn, sp, sa⟩ := s
    cases sp with
    | none => rfl
    | value n => rfl
    | referent u => simpa [symbolToMsg] using this
  · intro ms hms
    simp only [moduleToMsg, List.mem_map] at hms
    obtain ⟨s, hs, rfl⟩ := hms
    have hS := hsecs s hs
    refine ⟨fun f hf => hS.1.1 f hf, ?_⟩
    intro mx hmx
    simp only [sectionToMsg, List.mem_map] at hmx
    obtain ⟨x, hx, rfl⟩ := hmx
    have hX := hS.2 x hx
    refine ⟨⟨hX.1.1.1, ?_⟩, ?_⟩
    · intro mb hmb
      simp only [intervalToMsg, List.mem_map] at hmb
      obtain ⟨b, hb, rfl⟩ := hmb
      have := hX.1.1.2 b hb
      cases b with
      | code _ _ _ _ => exact this
      | data _ _ _ => rfl
    · intro kv hkv
      simp only [intervalToMsg, List.mem_map] at hkv
      obtain ⟨e, he, rfl⟩ := hkv
      refine ⟨rfl, ?_⟩
      rw [mexprSyms_exprToMsg]
      simpa [List.all_eq_true] using (hX.2 e he).2

theorem mmodulesOK_toMsg : ∀ (ms earlier : List ModuleV), modulesOK earlier ms = true →
    mmodulesOK (earlier.map moduleToMsg) (ms.map moduleToMsg) = true := by
  intro ms
  induction ms with
  | nil => intro _ _; rfl
  | cons m ms ih =>
    intro earlier h
    simp only [modulesOK, Bool.and_eq_true] at h
    have := ih (earlier ++ [m]) h.2
    simp only [List.map_append, List.map_cons, List.map_nil] at this
    simp only [List.map_cons, mmodulesOK, Bool.and_eq_true]
    exact ⟨mmoduleOK_toMsg earlier m h.1, this⟩

/-- the image of the writer on a self-contained IR is closed (links `closedMsg` to `wfir`) -/
theorem C02_toMsg_closed (v : IRV) (h : wfir v = true) : closedMsg (toMsg v) = true := by
  simp only [wfir, Bool.and_eq_true, List.all_eq_true, beq_iff_eq, nodupB_iff,
    decide_eq_true_eq] at h
  obtain ⟨⟨⟨⟨⟨⟨h16, hnd⟩, hver⟩, hmods⟩, _⟩, _⟩, hedges⟩ := h
  simp only [closedMsg, Bool.and_eq_true, List.all_eq_true, beq_iff_eq, nodupM_iff,
    decide_eq_true_eq, toMsg_nodeUuids]
  refine ⟨⟨⟨⟨h16, hnd⟩, hver⟩, ?_⟩, ?_⟩
  · exact mmodulesOK_toMsg v.modules [] hmods
  · intro me hme
    simp only [toMsg, List.mem_map] at hme
    obtain ⟨e, he, rfl⟩ := hme
    have := hedges e he
    have hcfg : ((toMsg v).modules.flatMap fun mm => mm.codeUuids ++ mm.proxies)
        = v.modules.flatMap fun m => m.codeUuids ++ m.proxies := by
      simp only [toMsg, List.flatMap_map]
      congr 1; funext m
      rw [moduleToMsg_codeUuids]; rfl
    rw [hcfg]
    refine ⟨this.1, ?_⟩
    obtain ⟨s, d, l⟩ := e
    cases l with
    | none => rfl
    | some l => exact this.2

/-- with `C01_roundtrip`'s hypothesis the acceptance theorem applies to what the writer emits -/
theorem C02_reader_accepts_writer (v : IRV) (h : wfir v = true) : ∃ v', fromMsg (toMsg v) = .ok v' :=
  C02_reader_accepts _ (C02_toMsg_closed v h)

/-! ### a concrete closed message that no `toMsg` produces -/

/-- 16-byte UUID number `k` -/
def accU (k : UInt8) : U := List.replicate 15 0 ++ [k]

/-- two modules; an interval (`has_address` false with a stale `address`) holding a code and a
data block and two expressions; duplicate section flags; symbols with value 0, a referent
and no payload; a symbol of the second module referring to a proxy of the first; an entry
point; edges with and without label, one of them listed twice; a vertex list that names
nothing -/
def exClosedMsg : MIR :=
  { uuid := accU 1, version := Generated.protobufVersion, auxData := [("k", ⟨"string", []⟩), ("k", ⟨"x", [1]⟩)],
    cfg := ⟨[], [⟨accU 5, accU 3, none⟩, ⟨accU 5, accU 5, some ⟨false, false, 0⟩⟩,
                 ⟨accU 5, accU 3, none⟩, ⟨accU 3, accU 23, some ⟨true, true, 5⟩⟩]⟩,
    modules := [
      { uuid := accU 2, binaryPath := "/bin/x", preferredAddr := 0, rebaseDelta := -4,
        fileFormat := 2, isa := 3, name := "m1", byteOrder := 2, entryPoint := accU 5,
        proxies := [accU 3], auxData := [],
        sections := [
          { uuid := accU 4, name := ".text", sectionFlags := [1, 3, 1],
            byteIntervals := [
              { uuid := accU 9, hasAddress := false, address := 77, size := 8, contents := [1, 2, 3, 4],
                blocks := [⟨0, some (.code ⟨accU 5, 4, 1⟩)⟩, ⟨0, some (.data ⟨accU 7, 8⟩)⟩],
                symbolicExpressions := [(0, ⟨some (.addrConst (-8) (accU 11)), [1, 9999, 1]⟩),
                                        (4, ⟨some (.addrAddr 2 0 (accU 10) (accU 11)), []⟩)] }] }],
        symbols := [⟨accU 10, some (.value 0), "zero", false⟩,
                    ⟨accU 11, some (.referentUuid (accU 7)), "blk", true⟩,
                    ⟨accU 13, none, "nothing", false⟩] },
      { uuid := accU 20, binaryPath := "", preferredAddr := 4096, rebaseDelta := 0,
        fileFormat := 0, isa := 0, name := "", byteOrder := 0, entryPoint := [],
        proxies := [accU 23], auxData := [], sections := [],
        symbols := [⟨accU 21, some (.referentUuid (accU 3)), "cross", false⟩] }] }

example : closedMsg exClosedMsg = true := by decide

/-- the hypothesis is satisfiable: the theorem applies to `exClosedMsg` -/
example : ∃ v, fromMsg exClosedMsg = .ok v := C02_reader_accepts exClosedMsg (by decide)

/-! ### forward references (known finding K5) -/

/-- two modules; module 0's symbol refers to a data block of module 1 -/
def k5Msg : MIR :=
  { uuid := accU 1, version := Generated.protobufVersion, auxData := [], cfg := ⟨[], []⟩,
    modules := [
      { uuid := accU 2, binaryPath := "", preferredAddr := 0, rebaseDelta := 0,
        fileFormat := 0, isa := 0, name := "m0", byteOrder := 0, entryPoint := [],
        proxies := [], auxData := [], sections := [],
        symbols := [⟨accU 3, some (.referentUuid (accU 7)), "forward", false⟩] },
      { uuid := accU 4, binaryPath := "", preferredAddr := 0, rebaseDelta := 0,
        fileFormat := 0, isa := 0, name := "m1", byteOrder := 0, entryPoint := [],
        proxies := [], auxData := [],
        sections := [
          { uuid := accU 5, name := "s", sectionFlags := [],
            byteIntervals := [
              { uuid := accU 6, hasAddress := false, address := 0, size := 0, contents := [],
                symbolicExpressions := [], blocks := [⟨0, some (.data ⟨accU 7, 0⟩)⟩] }] }],
        symbols := [] }] }

/-- forward references are exactly what `closedMsg` excludes beyond plain closure: in `k5Msg`
every reference names a node of the message (and everything else `closedMsg` asks for holds:
swapping the two modules gives a closed message), yet the staged reader rejects it -/
theorem C02_forward_reference_rejected :
    ∃ m : MIR, (∀ u ∈ m.refUuids, u ∈ m.nodeUuids) ∧ m.refUuids ≠ []
      ∧ closedMsg m = false
      ∧ closedMsg { m with modules := m.modules.reverse } = true
      ∧ fromMsg m = .error .deserializationError :=
  ⟨k5Msg, by decide, by decide, by decide, by decide, by rfl⟩

end Gtirb.Msg
