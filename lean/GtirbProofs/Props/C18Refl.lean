import GtirbProofs.Props.C18
import GtirbProofs.Props.C01DeepEq
/-! C18, reflexivity pinned down (review `msg`, finding F-F).

The model's `deepEq` resolves a reference (symbol referent, entry point, expression symbol,
edge endpoint) by looking the UUID up *inside the IR* (`findBlock` / `findSymbol`) and
comparing what it finds. A reference that does not resolve inside the IR makes the
comparison `false`, even of an IR with itself.

**This is a deviation of the model from the code, not a property of the code.** Python's
`deep_eq` follows the object reference: `Symbol.deep_eq` compares `self.referent` with
`other.referent` as objects, wherever they live. `Symbol(referent=free_block)` with a
block that belongs to no IR (or to another IR) is legal through the public API, and
`ir.deep_eq(ir)` is `True` for such an IR: the Python `deep_eq` is reflexive on *every*
IR. (The docstring of `C18_refl`, "cannot occur through the API", is wrong.)

`C18_refl_iff` makes the deviation exact: the model's `deepEq v v` is `false` **iff** some
reference of `v` does not resolve inside `v` (`RefsResolve v` fails). Hence the model's
`deepEq` can coincide with the code's only on IRs whose references all resolve inside
them, the self-contained IRs; every completeness / reflexivity theorem of C18 and the
`deep_eq` clause of C01 assume exactly that (`SelfContained`, implied by `wfir`). For IRs
with references to foreign nodes nothing is proved about `deep_eq` (and the harness does
not generate them for this property). -/
namespace Gtirb.Msg

/-- every reference of `v` resolves inside `v`: symbol referents, entry points and edge
endpoints to a block or proxy of `v`, expression symbols to a symbol of `v`. This is
`SelfContained` without the two uniqueness clauses. -/
def RefsResolve (v : IRV) : Prop :=
  (∀ m ∈ v.modules, ModuleOk v m) ∧
  ∀ e ∈ v.edges, (v.findBlock e.src).isSome = true ∧ (v.findBlock e.dst).isSome = true

instance (v : IRV) : Decidable (RefsResolve v) := by unfold RefsResolve; infer_instance

theorem SelfContained.refsResolve {v : IRV} (h : SelfContained v) : RefsResolve v := h.2.2

/-- "resolves inside `v`", spelled out: the UUID is that of a block of `v` or one of its proxies -/
theorem findBlock_isSome_iff (v : IRV) (u : U) :
    (v.findBlock u).isSome = true ↔ u ∈ v.blocks.map (·.uuid) ∨ u ∈ v.proxies := by
  unfold IRV.findBlock
  cases hf : v.blocks.find? (·.uuid == u) with
  | some b =>
    simp only [Option.isSome_some, true_iff]
    have h1 := List.mem_of_find?_eq_some hf
    have h2 := List.find?_some hf
    exact .inl (List.mem_map.2 ⟨b, h1, by simpa using h2⟩)
  | none =>
    rw [List.find?_eq_none] at hf
    have hno : u ∉ v.blocks.map (·.uuid) := by
      intro hm
      obtain ⟨b, hb, e⟩ := List.mem_map.1 hm
      exact hf b hb (by simpa using e)
    by_cases hp : u ∈ v.proxies
    · simp [hp]
    · simp [hp, hno]

/-- ... respectively that of a symbol of `v` -/
theorem findSymbol_isSome_iff (v : IRV) (u : U) :
    (v.findSymbol u).isSome = true ↔ u ∈ v.symbols.map (·.uuid) := by
  unfold IRV.findSymbol
  rw [List.find?_isSome]
  simp only [beq_iff_eq, List.mem_map]

/-! ### `RefsResolve v → deepEq v v` (no uniqueness needed) -/

theorem deepEq_self_of_refsResolve {v : IRV} (h : RefsResolve v) : deepEq v v = true := by
  have hs : ∀ s ∈ v.symbols, SymbolOk v s := by
    intro s hs
    obtain ⟨m, hm, hs⟩ := List.mem_flatMap.1 hs
    exact (h.1 m hm).2.1 s hs
  have h1 : sameKeys v.aux v.aux = true := sameKeys_of_canonAux_eq rfl
  have h2 : allZip (moduleDeepEq v v) (sortBy (fun x y => bytesLe x.uuid y.uuid) v.modules)
      (sortBy (fun x y => bytesLe x.uuid y.uuid) v.modules) = true :=
    allZip_self (fun m hm =>
      moduleDeepEq_of_canon (agree_refl v) hs (h.1 m ((mem_sortBy _).1 hm)) rfl)
  have h3 : cfgDeepEq v v = true := cfgDeepEq_of_edges (agree_refl v) h.2 rfl
  simp [deepEq, h1, h2, h3]

/-! ### `deepEq v v → RefsResolve v` -/

theorem allZip_diag {α : Type} {f : α → α → Bool} : ∀ {l : List α}, allZip f l l = true →
    ∀ x ∈ l, f x x = true := by
  intro l
  induction l with
  | nil => intro _ x hx; cases hx
  | cons a l ih =>
    intro h x hx
    simp only [allZip, Bool.and_eq_true] at h
    rcases List.mem_cons.1 hx with rfl | hx
    · exact h.1
    · exact ih h.2 x hx

theorem refDeepEq_self_isSome {x : Option RefNode} (h : refDeepEq x x = true) : x.isSome = true :=
  ((refDeepEq_iff x x).1 h).2

theorem symbolOk_of_self {v : IRV} {s : SymbolV} (h : symbolDeepEq v v s s = true) : SymbolOk v s := by
  intro u hu
  obtain ⟨su, sn, sp, sa⟩ := s
  cases sp with
  | none => simp [PayloadV.refs] at hu
  | value n => simp [PayloadV.refs] at hu
  | referent r =>
    simp only [PayloadV.refs, List.mem_singleton] at hu
    subst hu
    simp only [symbolDeepEq, Bool.and_eq_true] at h
    exact refDeepEq_self_isSome h.1.1.1

theorem symRef_isSome_of_self {v : IRV} {u : U} (h : symRefDeepEq v v u u = true) :
    (v.findSymbol u).isSome = true := by
  unfold symRefDeepEq at h
  cases hf : v.findSymbol u with
  | none => simp [hf] at h
  | some s => rfl

theorem exprOk_of_self {v : IRV} {e : ExprEntryV} (h : exprDeepEq v v e e = true) : ExprOk v e := by
  obtain ⟨k, x, at1⟩ := e
  simp only [exprDeepEq, Bool.and_eq_true] at h
  have hx := h.1.2
  intro u hu
  cases x with
  | addrConst o s =>
    simp only [SymExprV.syms, List.mem_singleton] at hu
    subst hu
    simp only [Bool.and_eq_true] at hx
    exact symRef_isSome_of_self hx.2
  | addrAddr c o s1 s2 =>
    simp only [SymExprV.syms, List.mem_cons, List.not_mem_nil, or_false] at hu
    simp only [Bool.and_eq_true] at hx
    rcases hu with rfl | rfl
    · exact symRef_isSome_of_self hx.1.2
    · exact symRef_isSome_of_self hx.2

theorem intervalOk_of_self {v : IRV} {i : IntervalV} (h : intervalDeepEq v v i i = true) :
    IntervalOk v i := by
  simp only [intervalDeepEq, Bool.and_eq_true] at h
  intro e he
  exact exprOk_of_self (allZip_diag h.2 e ((mem_sortBy _).2 he))

theorem sectionOk_of_self {v : IRV} {s : SectionV} (h : sectionDeepEq v v s s = true) :
    SectionOk v s := by
  simp only [sectionDeepEq, Bool.and_eq_true] at h
  intro i hi
  exact intervalOk_of_self (allZip_diag h.1.2 i ((mem_sortBy _).2 hi))

theorem moduleOk_of_self {v : IRV} {m : ModuleV} (h : moduleDeepEq v v m m = true) : ModuleOk v m := by
  simp only [moduleDeepEq, Bool.and_eq_true] at h
  obtain ⟨⟨⟨⟨_, hsec⟩, _⟩, hsym⟩, hep⟩ := h
  refine ⟨?_, ?_, ?_⟩
  · intro s hs
    exact sectionOk_of_self (allZip_diag hsec s ((mem_sortBy _).2 hs))
  · intro s hs
    exact symbolOk_of_self (allZip_diag hsym s ((mem_sortBy _).2 hs))
  · intro u hu
    cases he : m.entryPoint with
    | none => simp [he] at hu
    | some w =>
      simp only [he, Option.toList_some, List.mem_singleton] at hu
      subst hu
      simp only [he] at hep
      exact refDeepEq_self_isSome hep

theorem refsResolve_of_deepEq_self {v : IRV} (h : deepEq v v = true) : RefsResolve v := by
  simp only [deepEq, Bool.and_eq_true] at h
  obtain ⟨⟨⟨_, hmods⟩, _⟩, hcfg⟩ := h
  refine ⟨?_, ?_⟩
  · intro m hm
    exact moduleOk_of_self (allZip_diag hmods m ((mem_sortBy _).2 hm))
  · intro e he
    simp only [cfgDeepEq, Bool.and_eq_true] at hcfg
    have := allZip_diag hcfg.2 e ((mem_sortBy _).2 he)
    simp only [Bool.and_eq_true] at this
    exact ⟨refDeepEq_self_isSome this.1.2, refDeepEq_self_isSome this.2⟩

/-! ### the theorem -/

/-- The model's `deepEq v v` holds exactly when every reference of `v` resolves inside `v`.

Read it as a statement about the *model*: the Python `deep_eq` follows object references
and is reflexive also on IRs with references to nodes outside the IR (`ir.deep_eq(ir)` is
`True` with `Symbol(referent=free_block)`), where the model's `deepEq v v` is `false`. The
model's `deepEq` therefore coincides with the code's only on IRs satisfying `RefsResolve`
(in particular on self-contained IRs), which is what every theorem about it assumes. -/
theorem C18_refl_iff (v : IRV) :
    deepEq v v = true ↔
      ((∀ m ∈ v.modules, ModuleOk v m) ∧
        ∀ e ∈ v.edges, (v.findBlock e.src).isSome = true ∧ (v.findBlock e.dst).isSome = true) :=
  ⟨refsResolve_of_deepEq_self, deepEq_self_of_refsResolve⟩

/-- the negative form: `deepEq v v` is false iff some reference does not resolve inside `v` -/
theorem C18_not_refl_iff (v : IRV) : deepEq v v = false ↔ ¬ RefsResolve v := by
  rw [← Bool.not_eq_true]
  exact not_congr (C18_refl_iff v)

/-- ... and "some reference does not resolve" spelled out, reference kind by reference kind:
a symbol referent or entry point or edge endpoint that is no block or proxy of `v`, or an
expression symbol that is no symbol of `v` -/
theorem C18_not_refl_witness (v : IRV) (h : deepEq v v = false) :
    (∃ m ∈ v.modules, ∃ s ∈ m.symbols, ∃ u, s.payload = .referent u
        ∧ u ∉ v.blocks.map (·.uuid) ∧ u ∉ v.proxies)
    ∨ (∃ m ∈ v.modules, ∃ u, m.entryPoint = some u ∧ u ∉ v.blocks.map (·.uuid) ∧ u ∉ v.proxies)
    ∨ (∃ m ∈ v.modules, ∃ s ∈ m.sections, ∃ i ∈ s.intervals, ∃ e ∈ i.exprs, ∃ u ∈ e.expr.syms,
        u ∉ v.symbols.map (·.uuid))
    ∨ (∃ e ∈ v.edges, ∃ u, (u = e.src ∨ u = e.dst) ∧ u ∉ v.blocks.map (·.uuid) ∧ u ∉ v.proxies) := by
  have hn := (C18_not_refl_iff v).1 h
  apply Classical.byContradiction
  intro hc
  simp only [not_or, not_exists, not_and] at hc
  obtain ⟨c1, c2, c3, c4⟩ := hc
  have hb : ∀ u, (u ∉ v.blocks.map (·.uuid) → ¬ u ∉ v.proxies) → (v.findBlock u).isSome = true := by
    intro u hu
    rw [findBlock_isSome_iff]
    by_cases h1 : u ∈ v.blocks.map (·.uuid)
    · exact .inl h1
    · exact .inr (Classical.not_not.1 (hu h1))
  apply hn
  refine ⟨fun m hm => ⟨?_, ?_, ?_⟩, fun e he => ⟨?_, ?_⟩⟩
  · intro s hs i hi e he u hu
    rw [findSymbol_isSome_iff]
    exact Classical.not_not.1 (c3 m hm s hs i hi e he u hu)
  · intro s hs u hu
    cases hp : s.payload with
    | none => simp [hp, PayloadV.refs] at hu
    | value n => simp [hp, PayloadV.refs] at hu
    | referent r =>
      simp only [hp, PayloadV.refs, List.mem_singleton] at hu
      subst hu
      exact hb u (c1 m hm s hs u hp)
  · intro u hu
    cases he : m.entryPoint with
    | none => simp [he] at hu
    | some w =>
      simp only [he, Option.toList_some, List.mem_singleton] at hu
      subst hu
      exact hb u (c2 m hm u he)
  · exact hb _ (c4 e he e.src (.inl rfl))
  · exact hb _ (c4 e he e.dst (.inr rfl))

/-- `C18_refl` with the hypothesis actually needed -/
theorem C18_refl' (v : IRV) (h : RefsResolve v) : deepEq v v = true := deepEq_self_of_refsResolve h

/-! ### non-vacuity -/

/-- both sides true: the self-contained `exIR` of Props/C01.lean -/
example : RefsResolve exIR ∧ deepEq exIR exIR = true := by
  have h : RefsResolve exIR := (C01_wfir_selfContained exIR (by decide)).refsResolve
  exact ⟨h, C18_refl' exIR h⟩

/-- both sides false: `exDangling` (a symbol whose referent is no node of the IR: legal in
Python, where `deep_eq` of that IR with itself is `True`) -/
example : ¬ RefsResolve exDangling ∧ deepEq exDangling exDangling = false := by
  have h : deepEq exDangling exDangling = false := by decide
  exact ⟨(C18_not_refl_iff _).1 h, h⟩

/-- `RefsResolve` is strictly weaker than `SelfContained`: an IR with the same block UUID
twice is reflexive under the model's `deepEq` but not self-contained -/
def exTwice : IRV :=
  { uuid := exU 1, version := 4, edges := [], aux := [],
    modules := [
      { uuid := exU 2, name := "m", binaryPath := "", preferredAddr := 0, rebaseDelta := 0,
        fileFormat := 0, isa := 0, byteOrder := 0, entryPoint := none, proxies := [], aux := [],
        sections := [
          { uuid := exU 3, name := "s", flags := [],
            intervals := [
              { uuid := exU 4, addr := none, size := 0, contents := [], exprs := [],
                blocks := [.data (exU 5) 0 0, .data (exU 5) 0 0] }] }],
        symbols := [⟨exU 6, "sym", .referent (exU 5), false⟩] }] }

example : RefsResolve exTwice ∧ ¬ SelfContained exTwice ∧ deepEq exTwice exTwice = true := by
  have h : RefsResolve exTwice := by decide
  exact ⟨h, by decide, C18_refl' _ h⟩

end Gtirb.Msg
