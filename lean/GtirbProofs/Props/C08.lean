import GtirbProofs.Lemmas.Codec
import GtirbProofs.Props.C07
/-! C08: the clauses of the documented AuxData wire format, each stated about
`encode` (include/gtirb/AuxData.hpp, "Serialization Format"), and
prefix-decodability of what any producer following the format emits. -/
namespace Gtirb.Codec

/-- integers: fixed width, little-endian, two's complement -/
theorem C08_int_le (nu : Nat → Bytes) (l : Leaf) (n : Int) (bs : Bytes) (hl : l.isInt = true)
    (h : encode nu (.leaf l) (.int n) = some bs) :
    bs = leBytes l.width (n % (256 ^ l.width : Int)).toNat ∧ bs.length = l.width := by
  simp only [encode, encodeLeaf_int nu l n hl, encodeInt] at h
  split at h
  · cases h
    exact ⟨rfl, leBytes_length _ _⟩
  · cases h

/-- the integer widths: 1, 2, 4, 8 bytes; `Addr` is a uint64 -/
theorem C08_int_widths :
    Leaf.width .u8 = 1 ∧ Leaf.width .i8 = 1 ∧ Leaf.width .u16 = 2 ∧ Leaf.width .i16 = 2 ∧
    Leaf.width .u32 = 4 ∧ Leaf.width .i32 = 4 ∧ Leaf.width .u64 = 8 ∧ Leaf.width .i64 = 8 ∧
    Leaf.width .addr = 8 ∧ Leaf.signed .addr = false := by
  simp [Leaf.width, Leaf.signed]

/-- bool: one byte, 1 or 0 -/
theorem C08_bool_1 (nu : Nat → Bytes) (b : Bool) :
    encode nu (.leaf .bool) (.bool b) = some [if b then 1 else 0] := by
  simp [encode, encodeLeaf]

/-- float: the 4 bytes of the IEEE bit pattern, little-endian -/
theorem C08_float_le (nu : Nat → Bytes) (bits : Nat) (bs : Bytes)
    (h : encode nu (.leaf .f32) (.f32 bits) = some bs) :
    bs = leBytes 4 bits ∧ bs.length = 4 := by
  simp only [encode, encodeLeaf] at h
  split at h
  · cases h
    exact ⟨rfl, leBytes_length _ _⟩
  · cases h

/-- double: the 8 bytes of the IEEE bit pattern, little-endian -/
theorem C08_double_le (nu : Nat → Bytes) (bits : Nat) (bs : Bytes)
    (h : encode nu (.leaf .f64) (.f64 bits) = some bs) :
    bs = leBytes 8 bits ∧ bs.length = 8 := by
  simp only [encode, encodeLeaf] at h
  split at h
  · cases h
    exact ⟨rfl, leBytes_length _ _⟩
  · cases h

/-- UUID: 16 raw bytes -/
theorem C08_uuid_16 (nu : Nat → Bytes) (v : Val) (bs : Bytes)
    (h : encode nu (.leaf .uuid) v = some bs) : bs.length = 16 := by
  simp only [encode, encodeLeaf] at h
  cases v <;> simp only [encodeElem] at h <;> first | cases h | skip
  all_goals
    split at h
    · cases h; assumption
    · cases h

/-- Offset: the element id's UUID (16 bytes) then the displacement as uint64 -/
theorem C08_offset (nu : Nat → Bytes) (e : Val) (d : Nat) (bs : Bytes)
    (h : encode nu (.leaf .offset) (.offset e d) = some bs) :
    ∃ u, encodeElem nu e = some u ∧ u.length = 16 ∧ bs = u ++ leBytes 8 d := by
  simp only [encode, encodeLeaf] at h
  split at h
  · rename_i u hu
    split at h
    · cases h
      exact ⟨u, hu, C08_uuid_16 nu e u (by simpa [encode, encodeLeaf] using hu), rfl⟩
    · cases h
  · cases h

/-- string: uint64 count of UTF-8 bytes, then the bytes -/
theorem C08_string_bytecount (nu : Nat → Bytes) (s : String) (bs : Bytes)
    (h : encode nu (.leaf .string) (.str s) = some bs) :
    bs = leBytes 8 s.toUTF8.toList.length ++ s.toUTF8.toList := by
  simp only [encode, encodeLeaf] at h
  split at h
  · cases h; rfl
  · cases h

/-- sequence: uint64 element count, then the elements -/
theorem C08_seq_count (nu : Nat → Bytes) (t : Ty) (xs : List Val) (bs : Bytes)
    (h : encode nu (.seq t) (.seq xs) = some bs) :
    ∃ body, encodeMany (encode nu t) xs = some body ∧ bs = leBytes 8 xs.length ++ body := by
  simp only [encode] at h
  split at h
  · rename_i body hb
    split at h
    · cases h; exact ⟨body, hb, rfl⟩
    · cases h
  · cases h

/-- set: uint64 element count, then the elements -/
theorem C08_set_count (nu : Nat → Bytes) (t : Ty) (xs : List Val) (bs : Bytes)
    (h : encode nu (.set t) (.set xs) = some bs) :
    ∃ body, encodeMany (encode nu t) xs = some body ∧ bs = leBytes 8 xs.length ++ body := by
  simp only [encode] at h
  split at h
  · rename_i body hb
    split at h
    · cases h; exact ⟨body, hb, rfl⟩
    · cases h
  · cases h

/-- mapping: uint64 pair count, then key, value, key, value, ... -/
theorem C08_map_count (nu : Nat → Bytes) (kt vt : Ty) (ks vs : List Val) (bs : Bytes)
    (h : encode nu (.map kt vt) (.map ks vs) = some bs) :
    ∃ body, encodeManyPairs (encode nu kt) (encode nu vt) ks vs = some body ∧
      bs = leBytes 8 ks.length ++ body := by
  simp only [encode] at h
  split at h
  · rename_i body hb
    split at h
    · cases h; exact ⟨body, hb, rfl⟩
    · cases h
  · cases h

/-- the elements of a sequence/set are laid out one after another, each in its
own encoding, with nothing in between -/
theorem C08_many_concat (f : Val → Option Bytes) (xs : List Val) (body : Bytes) :
    encodeMany f xs = some body ↔
      ∃ parts : List Bytes, xs.map f = parts.map some ∧ body = parts.flatten :=
  encodeMany_eq_some_iff f xs body

theorem C08_many_nil (f : Val → Option Bytes) : encodeMany f [] = some [] := rfl

theorem C08_many_cons (f : Val → Option Bytes) (x : Val) (xs : List Val) (body : Bytes) :
    encodeMany f (x :: xs) = some body ↔
      ∃ a b, f x = some a ∧ encodeMany f xs = some b ∧ body = a ++ b := by
  simp only [encodeMany]
  constructor
  · intro h
    split at h
    · rename_i a b ha hb
      exact ⟨a, b, ha, hb, (Option.some.inj h).symm⟩
    · cases h
  · rintro ⟨a, b, ha, hb, rfl⟩
    simp [ha, hb]

/-- the pairs of a mapping: key then value, pairs one after another -/
theorem C08_manyPairs_nil (f g : Val → Option Bytes) : encodeManyPairs f g [] [] = some [] := rfl

theorem C08_manyPairs_cons (f g : Val → Option Bytes) (k v : Val) (ks vs : List Val)
    (body : Bytes) :
    encodeManyPairs f g (k :: ks) (v :: vs) = some body ↔
      ∃ a b c, f k = some a ∧ g v = some b ∧ encodeManyPairs f g ks vs = some c ∧
        body = a ++ b ++ c := by
  simp only [encodeManyPairs]
  constructor
  · intro h
    split at h
    · rename_i a b c ha hb hc
      exact ⟨a, b, c, ha, hb, hc, (Option.some.inj h).symm⟩
    · cases h
  · rintro ⟨a, b, c, ha, hb, hc, rfl⟩
    simp [ha, hb, hc]

/-- a mapping with differing numbers of keys and values has no encoding -/
theorem C08_manyPairs_length (f g : Val → Option Bytes) (ks vs : List Val) (body : Bytes)
    (h : encodeManyPairs f g ks vs = some body) : ks.length = vs.length := by
  induction ks generalizing vs body with
  | nil => cases vs <;> simp_all [encodeManyPairs]
  | cons k ks ih =>
    cases vs with
    | nil => simp [encodeManyPairs] at h
    | cons v vs =>
      obtain ⟨_, _, c, _, _, hc, _⟩ := (C08_manyPairs_cons f g k v ks vs body).1 h
      simp [ih vs c hc]

/-- tuple: the fields one after another, nothing else -/
theorem C08_tuple_nil (nu : Nat → Bytes) : encode nu (.tuple []) (.tuple []) = some [] := by
  simp [encode, encodeTuple]

theorem C08_tuple_fields (nu : Nat → Bytes) (t : Ty) (ts : List Ty) (x : Val) (xs : List Val)
    (bs : Bytes) :
    encode nu (.tuple (t :: ts)) (.tuple (x :: xs)) = some bs ↔
      ∃ a b, encode nu t x = some a ∧ encode nu (.tuple ts) (.tuple xs) = some b ∧
        bs = a ++ b := by
  simp only [encode, encodeTuple]
  constructor
  · intro h
    split at h
    · rename_i a b ha hb
      exact ⟨a, b, ha, hb, (Option.some.inj h).symm⟩
    · cases h
  · rintro ⟨a, b, ha, hb, rfl⟩
    simp [ha, hb]

/-- variant: uint64 index of the alternative, then the alternative's encoding -/
theorem C08_variant_index (nu : Nat → Bytes) (ts : List Ty) (i : Nat) (v : Val) (bs : Bytes)
    (h : encode nu (.variant ts) (.variant i v) = some bs) :
    ∃ t body, ts[i]? = some t ∧ encode nu t v = some body ∧ bs = leBytes 8 i ++ body := by
  simp only [encode] at h
  split at h
  · rename_i body hb
    split at h
    · cases h
      rw [encodeNth_eq] at hb
      split at hb
      · rename_i t ht
        exact ⟨t, body, ht, hb, rfl⟩
      · cases hb
    · cases h
  · cases h

/-- prefix-decodability: the bytes that any producer following the format emits
for a typed value decode to that value, whatever follows them -/
theorem C08_foreign_bytes (lookup : Bytes → Option Nat) (nodeUuid : Nat → Bytes) (t : Ty) (v : Val)
    (h : hasType lookup nodeUuid t v = true) :
    ∃ bs, encode nodeUuid t v = some bs ∧ ∀ rest, decode lookup t (bs ++ rest) = .ok (v, rest) :=
  C07_roundtrip lookup nodeUuid t v h

end Gtirb.Codec
