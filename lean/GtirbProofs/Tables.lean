import GtirbModel.Expected
import GtirbModel.Generated.CodecTable
import GtirbModel.Generated.Version
import GtirbModel.Codec
/-! Table theorems, re-checked on every run against the tables regenerated
from /repo's current source. -/
namespace Gtirb.Tables
open Gtirb

/-- The implementation registers exactly the documented heads with the
documented width / signedness / struct format. -/
theorem C08_codec_table : Generated.codecTable = Expected.codecTable := rfl

/-- the model's head table agrees with the codec table row by row -/
def codecRowOk : String × String × Nat × Bool × String → Bool
  | (name, _, bs, sg, fmt) =>
    match Codec.leafOfName name with
    | some l =>
      if l.isInt then l.width == bs && l.signed == sg && fmt == ""
      else if l == .f32 then bs == 4 && fmt == "<f"
      else if l == .f64 then bs == 8 && fmt == "<d"
      else bs == 0 && fmt == ""
    | none => Codec.isContainerName name && bs == 0

theorem C08_model_heads : Expected.codecTable.all codecRowOk = true ∧
    Expected.codecTable.length = 20 := by decide +kernel

end Gtirb.Tables
