import GtirbModel.Slices
import GtirbProofs.Props.C16
/-! Helpers for `Props/C16Slices.lean`: `slice.indices` arithmetic, the pure list operations the
slice operations are compared with, and the runs of `delItem` / `insert` sequences. -/
namespace Gtirb.Forest

/-! ### specification-side list functions -/

/-- the elements of `l` whose position (the head has position `k`) is not in `sel`, in order -/
def dropAt (sel : List Nat) : List Nat → Nat → List Nat
  | [], _ => []
  | x :: xs, k => if k ∈ sel then dropAt sel xs (k + 1) else x :: dropAt sel xs (k + 1)

/-- `l` with position `p` replaced by `w` for every pair `(p, w)`, left to right -/
def setAll (l : List Nat) (pairs : List (Nat × Nat)) : List Nat :=
  pairs.foldl (fun acc pw => acc.set pw.1 pw.2) l

theorem dropAt_eq_filter (sel : List Nat) : ∀ (l : List Nat) (k : Nat),
    dropAt sel l k = ((l.zipIdx k).filter (fun p => !(decide (p.2 ∈ sel)))).map (fun p => p.1)
  | [], k => rfl
  | x :: xs, k => by
    rw [dropAt, List.zipIdx_cons, List.filter_cons]
    by_cases h : k ∈ sel
    · simp only [h, if_true, decide_true, Bool.not_true, Bool.false_eq_true, if_false]
      exact dropAt_eq_filter sel xs (k + 1)
    · simp only [h, if_false, decide_false, Bool.not_false, if_true, List.map_cons]
      rw [dropAt_eq_filter sel xs (k + 1)]

theorem dropAt_congr {s s' : List Nat} : ∀ (l : List Nat) (k : Nat), (∀ j, k ≤ j → (j ∈ s ↔ j ∈ s')) →
    dropAt s l k = dropAt s' l k
  | [], _, _ => rfl
  | x :: xs, k, h => by
    have ih := dropAt_congr (s := s) (s' := s') xs (k + 1) (fun j hj => h j (by omega))
    rw [dropAt, dropAt, ih]
    by_cases hk : k ∈ s
    · rw [if_pos hk, if_pos ((h k (Nat.le_refl k)).1 hk)]
    · rw [if_neg hk, if_neg (fun hh => hk ((h k (Nat.le_refl k)).2 hh))]

theorem dropAt_none {s : List Nat} : ∀ (l : List Nat) (k : Nat), (∀ j, k ≤ j → j ∉ s) → dropAt s l k = l
  | [], _, _ => rfl
  | x :: xs, k, h => by
    rw [dropAt, if_neg (h k (Nat.le_refl k)), dropAt_none xs (k + 1) (fun j hj => h j (by omega))]

theorem mem_dropAt {s : List Nat} {x : Nat} : ∀ (l : List Nat) (k : Nat), x ∈ dropAt s l k →
    ∃ p, k ≤ p ∧ p ∉ s ∧ l[p - k]? = some x
  | [], _, h => by cases h
  | y :: ys, k, h => by
    rw [dropAt] at h
    have hrec : x ∈ dropAt s ys (k + 1) → ∃ p, k ≤ p ∧ p ∉ s ∧ (y :: ys)[p - k]? = some x := by
      intro h1
      obtain ⟨p, hp1, hp2, hp3⟩ := mem_dropAt ys (k + 1) h1
      refine ⟨p, by omega, hp2, ?_⟩
      have : p - k = (p - (k + 1)) + 1 := by omega
      rw [this, List.getElem?_cons_succ]
      exact hp3
    by_cases hk : k ∈ s
    · rw [if_pos hk] at h
      exact hrec h
    · rw [if_neg hk] at h
      rcases List.mem_cons.1 h with h1 | h1
      · refine ⟨k, Nat.le_refl k, hk, ?_⟩
        rw [Nat.sub_self, h1]; rfl
      · exact hrec h1

theorem dropAt_mem_of_getElem {s : List Nat} {x : Nat} : ∀ (l : List Nat) (k p : Nat), k ≤ p → p ∉ s →
    l[p - k]? = some x → x ∈ dropAt s l k
  | [], _, _, _, _, h => by cases h
  | y :: ys, k, p, hkp, hps, h => by
    rw [dropAt]
    by_cases hpk : p = k
    · subst hpk
      rw [if_neg hps]
      rw [Nat.sub_self] at h
      cases h
      exact List.mem_cons_self
    · have hp : p - k = (p - (k + 1)) + 1 := by omega
      rw [hp, List.getElem?_cons_succ] at h
      have ih := dropAt_mem_of_getElem (s := s) ys (k + 1) p (by omega) hps h
      split
      · exact ih
      · exact List.mem_cons_of_mem _ ih

/-- erasing the highest selected position first -/
theorem dropAt_eraseIdx {rest : List Nat} {d : Nat} (hd : ∀ j ∈ rest, j < d) : ∀ (l : List Nat) (k : Nat), k ≤ d →
    dropAt rest (l.eraseIdx (d - k)) k = dropAt (d :: rest) l k
  | [], _, _ => rfl
  | x :: xs, k, hk => by
    by_cases hdk : d = k
    · subst hdk
      rw [Nat.sub_self, List.eraseIdx_cons_zero, dropAt, if_pos List.mem_cons_self]
      rw [dropAt_none xs d (fun j hj hm => by have := hd j hm; omega)]
      rw [dropAt_none xs (d + 1)]
      intro j hj hm
      rcases List.mem_cons.1 hm with h1 | h1
      · omega
      · have := hd j h1; omega
    · have hp : d - k = (d - (k + 1)) + 1 := by omega
      rw [hp, List.eraseIdx_cons_succ, dropAt, dropAt, dropAt_eraseIdx hd xs (k + 1) (by omega)]
      by_cases hkr : k ∈ rest
      · rw [if_pos hkr, if_pos (List.mem_cons_of_mem _ hkr)]
      · rw [if_neg hkr, if_neg]
        intro hm
        rcases List.mem_cons.1 hm with h1 | h1
        · exact hdk h1.symm
        · exact hkr h1

theorem foldl_eraseIdx_eq_dropAt : ∀ (ds : List Nat) (l : List Nat), ds.Pairwise (fun a b => b < a) →
    ds.foldl List.eraseIdx l = dropAt ds l 0
  | [], l, _ => by rw [List.foldl_nil, dropAt_none l 0 (fun j _ hm => by cases hm)]
  | d :: rest, l, h => by
    rw [List.pairwise_cons] at h
    rw [List.foldl_cons, foldl_eraseIdx_eq_dropAt rest _ h.2]
    exact dropAt_eraseIdx h.1 l 0 (Nat.zero_le d)

/-- a contiguous block of positions: `l[a:a+n]` removed -/
theorem dropAt_range' : ∀ (l : List Nat) (a n k : Nat), k ≤ a →
    dropAt (List.range' a n) l k = l.take (a - k) ++ l.drop (a - k + n)
  | [], _, _, _, _ => by simp [dropAt]
  | x :: xs, a, n, k, hk => by
    rw [dropAt]
    by_cases hka : k = a
    · subst hka
      cases n with
      | zero =>
        rw [if_neg (by simp), dropAt_none xs (k + 1) (fun j _ hm => by simp at hm)]
        simp
      | succ n =>
        rw [if_pos (by simp [List.mem_range'_1])]
        rw [dropAt_congr (s' := List.range' (k + 1) n) xs (k + 1)
          (fun j hj => by simp only [List.mem_range'_1]; omega)]
        rw [dropAt_range' xs (k + 1) n (k + 1) (Nat.le_refl _)]
        simp
    · have hm : k ∉ List.range' a n := by simp only [List.mem_range'_1]; omega
      rw [if_neg hm, dropAt_range' xs a n (k + 1) (by omega)]
      have h1 : a - k = (a - (k + 1)) + 1 := by omega
      have h2 : a - k + n = (a - (k + 1) + n) + 1 := by omega
      rw [h2, h1, List.take_succ_cons, List.drop_succ_cons]
      rfl

/-! ### sorting the positions -/

theorem sortDesc_mem (sel : List Nat) (x : Nat) : x ∈ sortDesc sel ↔ x ∈ sel :=
  (List.mergeSort_perm sel _).mem_iff

theorem sortDesc_pairwise (sel : List Nat) (hnd : sel.Nodup) : (sortDesc sel).Pairwise (fun a b => b < a) := by
  have h1 : (sortDesc sel).Pairwise (fun a b => decide (b ≤ a) = true) :=
    List.pairwise_mergeSort (le := fun a b => decide (b ≤ a))
      (fun a b c h1 h2 => by simp only [decide_eq_true_eq] at *; omega)
      (fun a b => by simp only [Bool.or_eq_true, decide_eq_true_eq]; omega) sel
  have h2 : (sortDesc sel).Nodup := (List.mergeSort_perm sel _).nodup_iff.2 hnd
  have h3 := List.Pairwise.and h1 h2
  refine h3.imp ?_
  intro a b hab
  simp only [decide_eq_true_eq] at hab
  omega

/-! ### `slice.indices` and `range` -/

theorem sliceIndices_getD (len : Nat) (start stop step : Option Int) :
    sliceIndices len start stop step =
      if step.getD 1 = 0 then none
      else some (
        (match start with
          | none => if step.getD 1 < 0 then (if step.getD 1 < 0 then (len : Int) - 1 else (len : Int))
                    else (if step.getD 1 < 0 then -1 else 0)
          | some x => sliceAdjust len (if step.getD 1 < 0 then -1 else 0)
                        (if step.getD 1 < 0 then (len : Int) - 1 else (len : Int)) x),
        (match stop with
          | none => if step.getD 1 < 0 then (if step.getD 1 < 0 then -1 else 0)
                    else (if step.getD 1 < 0 then (len : Int) - 1 else (len : Int))
          | some x => sliceAdjust len (if step.getD 1 < 0 then -1 else 0)
                        (if step.getD 1 < 0 then (len : Int) - 1 else (len : Int)) x),
        step.getD 1) := by
  cases step <;> rfl

theorem sliceIndices_bounds {len : Nat} {start stop step : Option Int} {a b st : Int}
    (h : sliceIndices len start stop step = some (a, b, st)) :
    st ≠ 0 ∧ step.getD 1 = st ∧
    (0 < st → 0 ≤ a ∧ a ≤ len ∧ 0 ≤ b ∧ b ≤ len) ∧
    (st < 0 → -1 ≤ a ∧ a ≤ (len : Int) - 1 ∧ -1 ≤ b ∧ b ≤ (len : Int) - 1) := by
  rw [sliceIndices_getD] at h
  generalize step.getD 1 = st0 at h
  split at h
  · cases h
  · rename_i hst
    simp only [Option.some.injEq, Prod.mk.injEq] at h
    obtain ⟨ha, hb, hs⟩ := h
    subst hs
    refine ⟨hst, rfl, ?_, ?_⟩
    · intro hpos
      have hn : ¬ (st0 < 0) := by omega
      simp only [hn, if_false] at ha hb
      have hA : 0 ≤ a ∧ a ≤ len := by
        cases start with
        | none => simp only at ha; omega
        | some x => simp only [sliceAdjust] at ha; split at ha <;> split at ha <;> omega
      have hB : 0 ≤ b ∧ b ≤ len := by
        cases stop with
        | none => simp only at hb; omega
        | some x => simp only [sliceAdjust] at hb; split at hb <;> split at hb <;> omega
      exact ⟨hA.1, hA.2, hB.1, hB.2⟩
    · intro hneg
      simp only [hneg, if_true] at ha hb
      have hA : -1 ≤ a ∧ a ≤ (len : Int) - 1 := by
        cases start with
        | none => simp only at ha; omega
        | some x => simp only [sliceAdjust] at ha; split at ha <;> split at ha <;> omega
      have hB : -1 ≤ b ∧ b ≤ (len : Int) - 1 := by
        cases stop with
        | none => simp only at hb; omega
        | some x => simp only [sliceAdjust] at hb; split at hb <;> split at hb <;> omega
      exact ⟨hA.1, hA.2, hB.1, hB.2⟩

theorem mul_le_of_lt_div {k : Nat} {d st : Int} (hst : 0 < st) (hd : 0 ≤ d) (hk : k < (d / st + 1).toNat) :
    (k : Int) * st ≤ d := by
  have hq : 0 ≤ d / st := Int.ediv_nonneg hd (Int.le_of_lt hst)
  have h1 : (k : Int) ≤ d / st := by omega
  have h2 : (k : Int) * st ≤ d / st * st := Int.mul_le_mul_of_nonneg_right h1 (Int.le_of_lt hst)
  have h3 : d / st * st ≤ d := Int.ediv_mul_le d (Int.ne_of_gt hst)
  omega

/-- `range` with a positive step: increasing, within `[start, stop)` -/
theorem rangeList_pos {a b st : Int} (hst : 0 < st) (ha : 0 ≤ a) :
    (rangeList a b st).Pairwise (fun x y => x < y) ∧ ∀ p ∈ rangeList a b st, a ≤ (p : Int) ∧ (p : Int) < b := by
  unfold rangeList
  constructor
  · rw [List.pairwise_map]
    refine List.pairwise_lt_range.imp ?_
    intro k k' hkk
    have h1 : (k : Int) * st < (k' : Int) * st := Int.mul_lt_mul_of_pos_right (by omega) hst
    have h2 : 0 ≤ (k : Int) * st := Int.mul_nonneg (by omega) (Int.le_of_lt hst)
    omega
  · intro p hp
    rw [List.mem_map] at hp
    obtain ⟨k, hk, rfl⟩ := hp
    rw [List.mem_range] at hk
    unfold rangeLen at hk
    have h2 : 0 ≤ (k : Int) * st := Int.mul_nonneg (by omega) (Int.le_of_lt hst)
    split at hk
    · rename_i hc
      have := mul_le_of_lt_div hst (by omega) hk
      omega
    · rw [if_neg (by omega)] at hk
      omega

/-- `range` with a negative step: decreasing, within `(stop, start]` -/
theorem rangeList_neg {a b st : Int} (hst : st < 0) (hb : -1 ≤ b) :
    (rangeList a b st).Pairwise (fun x y => y < x) ∧ ∀ p ∈ rangeList a b st, b < (p : Int) ∧ (p : Int) ≤ a := by
  have hmem : ∀ k, k < rangeLen a b st → b < a + (k : Int) * st ∧ a + (k : Int) * st ≤ a := by
    intro k hk
    unfold rangeLen at hk
    rw [if_neg (by omega)] at hk
    have h2 : 0 ≤ (k : Int) * (-st) := Int.mul_nonneg (by omega) (by omega)
    rw [Int.mul_neg] at h2
    split at hk
    · have := mul_le_of_lt_div (st := -st) (by omega) (by omega) hk
      rw [Int.mul_neg] at this
      omega
    · omega
  unfold rangeList
  constructor
  · rw [List.pairwise_map]
    refine List.pairwise_lt_range.imp_of_mem ?_
    intro k k' hk hk' hkk
    rw [List.mem_range] at hk hk'
    have h1 : (k : Int) * (-st) < (k' : Int) * (-st) := Int.mul_lt_mul_of_pos_right (by omega) (by omega)
    rw [Int.mul_neg, Int.mul_neg] at h1
    have := hmem k' hk'
    omega
  · intro p hp
    rw [List.mem_map] at hp
    obtain ⟨k, hk, rfl⟩ := hp
    rw [List.mem_range] at hk
    have := hmem k hk
    omega

theorem pairwise_lt_nodup {l : List Nat} (h : l.Pairwise (fun x y => x < y)) : l.Nodup :=
  h.imp (fun hxy => by omega)

theorem pairwise_gt_nodup {l : List Nat} (h : l.Pairwise (fun x y => y < x)) : l.Nodup :=
  h.imp (fun hxy => by omega)

/-- step 1: the positions are `start, start+1, ..., stop-1` -/
theorem rangeList_one {a b : Int} (ha : 0 ≤ a) : rangeList a b 1 = List.range' a.toNat (b - a).toNat := by
  unfold rangeList
  rw [List.range'_eq_map_range]
  have hl : rangeLen a b 1 = (b - a).toNat := by
    unfold rangeLen
    split
    · rw [Int.ediv_one]; omega
    · rw [if_neg (by omega)]; omega
  rw [hl]
  apply List.map_congr_left
  intro k _
  omega

/-! ### insertion of several values: pure list side -/

/-- insert `w` before position `p` for every pair `(p, w)`, left to right -/
def insAll (L : List Nat) (pairs : List (Nat × Nat)) : List Nat :=
  pairs.foldl (fun L pv => L.take pv.1 ++ pv.2 :: L.drop pv.1) L

theorem pyInsert_nat (l : List Nat) (p w : Nat) : pyInsert l (p : Int) w = l.take p ++ w :: l.drop p := by
  unfold pyInsert
  simp only
  rw [if_neg (by omega)]
  split
  · have hl : l.length ≤ p := by omega
    rw [Int.toNat_natCast, List.take_of_length_le hl, List.drop_of_length_le hl]
    simp
  · rw [Int.toNat_natCast]

/-- filling the hole at the lowest selected position -/
theorem dropAt_insert {ps : List Nat} {p w : Nat} (hps : ∀ q ∈ ps, p < q) : ∀ (L : List Nat) (k : Nat), k ≤ p →
    p - k < L.length →
    (dropAt (p :: ps) L k).take (p - k) ++ w :: (dropAt (p :: ps) L k).drop (p - k) = dropAt ps (L.set (p - k) w) k
  | [], _, _, h => absurd h (by simp)
  | x :: xs, k, hk, hlen => by
    by_cases hpk : p = k
    · subst hpk
      have hp : p ∉ ps := fun hm => by have := hps p hm; omega
      rw [Nat.sub_self, dropAt, if_pos List.mem_cons_self, List.set_cons_zero, dropAt, if_neg hp]
      rw [List.take_zero, List.drop_zero, List.nil_append]
      rw [dropAt_congr (s := p :: ps) (s' := ps) xs (p + 1)]
      intro j hj
      rw [List.mem_cons]
      constructor
      · rintro (h1 | h1)
        · omega
        · exact h1
      · exact .inr
    · have hsub : p - k = (p - (k + 1)) + 1 := by omega
      have hk1 : k ∉ p :: ps := by
        intro hm
        rcases List.mem_cons.1 hm with h1 | h1
        · exact hpk h1.symm
        · have := hps k h1; omega
      have hk2 : k ∉ ps := fun hm => hk1 (List.mem_cons_of_mem _ hm)
      rw [dropAt, if_neg hk1, hsub, List.take_succ_cons, List.drop_succ_cons, List.set_cons_succ, dropAt, if_neg hk2]
      rw [List.cons_append, dropAt_insert hps xs (k + 1) (by omega)]
      rw [hsub] at hlen
      simpa using hlen

theorem length_setAll : ∀ (pairs : List (Nat × Nat)) (L : List Nat), (setAll L pairs).length = L.length
  | [], _ => rfl
  | pw :: rest, L => by
    show (setAll (L.set pw.1 pw.2) rest).length = _
    rw [length_setAll rest, List.length_set]

/-- extended-slice assignment on plain lists: deleting the selected positions and re-inserting values at
these positions in increasing order replaces the elements at these positions -/
theorem insAll_dropAt : ∀ (pairs : List (Nat × Nat)) (L : List Nat),
    (pairs.map (fun pv => pv.1)).Pairwise (fun x y => x < y) → (∀ pv ∈ pairs, pv.1 < L.length) →
    insAll (dropAt (pairs.map (fun pv => pv.1)) L 0) pairs = setAll L pairs
  | [], L, _, _ => by
    show dropAt [] L 0 = L
    exact dropAt_none L 0 (fun j _ hm => by cases hm)
  | (p, w) :: rest, L, hpw, hlt => by
    rw [List.map_cons, List.pairwise_cons] at hpw
    show insAll ((dropAt (p :: rest.map (fun pv => pv.1)) L 0).take p ++
      w :: (dropAt (p :: rest.map (fun pv => pv.1)) L 0).drop p) rest = setAll (L.set p w) rest
    have hp : p < L.length := hlt (p, w) List.mem_cons_self
    have := dropAt_insert (w := w) hpw.1 L 0 (Nat.zero_le p) (by simpa using hp)
    rw [Nat.sub_zero] at this
    rw [this]
    apply insAll_dropAt rest (L.set p w) hpw.2
    intro pv hm
    rw [List.length_set]
    exact hlt pv (List.mem_cons_of_mem _ hm)

/-- plain-slice assignment on plain lists: inserting the values one after the other at `a, a+1, ...` -/
theorem insAll_seq : ∀ (vs : List Nat) (L : List Nat) (a : Nat), a ≤ L.length →
    insAll L ((List.range' a vs.length).zip vs) = L.take a ++ vs ++ L.drop a
  | [], L, a, _ => by
    show L = _
    simp
  | v :: vs, L, a, ha => by
    rw [List.length_cons, List.range'_succ, List.zip_cons_cons]
    show insAll (L.take a ++ v :: L.drop a) ((List.range' (a + 1) vs.length).zip vs) = _
    rw [insAll_seq vs _ (a + 1) (by simp; omega)]
    have h1 : (L.take a ++ v :: L.drop a).take (a + 1) = L.take a ++ [v] := by
      rw [List.take_append, List.length_take, Nat.min_eq_left ha]
      have : a + 1 - a = 1 := by omega
      rw [this, List.take_of_length_le (by simp; omega)]
      simp
    have h2 : (L.take a ++ v :: L.drop a).drop (a + 1) = L.drop a := by
      rw [List.drop_append, List.length_take, Nat.min_eq_left ha]
      have : a + 1 - a = 1 := by omega
      rw [this, List.drop_of_length_le (by simp; omega)]
      simp
    rw [h1, h2]
    simp

theorem insSeqOps_eq (i : Nat) : ∀ (vs : List Nat) (a : Nat),
    insSeqOps i a vs = insAtOps i ((List.range' a vs.length).zip vs)
  | [], _ => rfl
  | v :: vs, a => by
    rw [insSeqOps, insSeqOps_eq i vs (a + 1), List.length_cons, List.range'_succ, List.zip_cons_cons]
    rfl

/-- what `setAll` does position by position (positions pairwise different) -/
theorem getElem?_setAll : ∀ (pairs : List (Nat × Nat)) (L : List Nat),
    (pairs.map (fun pv => pv.1)).Nodup → (∀ pv ∈ pairs, pv.1 < L.length) →
    (∀ pv ∈ pairs, (setAll L pairs)[pv.1]? = some pv.2) ∧
    (∀ p, p ∉ pairs.map (fun pv => pv.1) → (setAll L pairs)[p]? = L[p]?)
  | [], L, _, _ => ⟨fun _ hm => (by cases hm), fun _ _ => rfl⟩
  | (p, w) :: rest, L, hnd, hlt => by
    rw [List.map_cons, List.nodup_cons] at hnd
    have hlt' : ∀ pv ∈ rest, pv.1 < (L.set p w).length := by
      intro pv hm
      rw [List.length_set]
      exact hlt pv (List.mem_cons_of_mem _ hm)
    obtain ⟨ih1, ih2⟩ := getElem?_setAll rest (L.set p w) hnd.2 hlt'
    have hp : p < L.length := hlt (p, w) List.mem_cons_self
    constructor
    · intro pv hm
      rcases List.mem_cons.1 hm with h1 | h1
      · subst h1
        show (setAll (L.set p w) rest)[p]? = some w
        rw [ih2 p hnd.1, List.getElem?_set, if_pos rfl, if_pos hp]
      · exact ih1 pv h1
    · intro q hq
      rw [List.map_cons, List.mem_cons, not_or] at hq
      show (setAll (L.set p w) rest)[q]? = L[q]?
      rw [ih2 q hq.2, List.getElem?_set, if_neg (fun hh => hq.1 hh.symm)]

/-! ### runs of operations -/

theorem runE_append {g' : G} : ∀ (xs ys : List Op) (g : G),
    runE g (xs ++ ys) = .ok g' ↔ ∃ g1, runE g xs = .ok g1 ∧ runE g1 ys = .ok g'
  | [], ys, g => by
    constructor
    · intro h; exact ⟨g, rfl, h⟩
    · rintro ⟨g1, h1, h2⟩
      cases h1
      exact h2
  | x :: xs, ys, g => by
    rw [List.cons_append]
    simp only [runE]
    cases step g x with
    | ok g0 => exact runE_append xs ys g0
    | error e =>
      constructor
      · intro h; cases h
      · rintro ⟨g1, h1, _⟩; cases h1

theorem runE_eq_run : ∀ (ops : List Op) (g g' : G), runE g ops = .ok g' → run g ops = g'
  | [], g, g', h => by cases h; rfl
  | op :: ops, g, g', h => by
    simp only [runE] at h
    show run (match step g op with | .ok g' => g' | .error _ => g) ops = g'
    cases hs : step g op with
    | ok g1 =>
      rw [hs] at h
      exact runE_eq_run ops g1 g' h
    | error e =>
      rw [hs] at h
      cases h

theorem pyIndex_nat {len d : Nat} (h : d < len) : pyIndex len (d : Int) = some d := by
  unfold pyIndex
  rw [if_pos ⟨by omega, by omega⟩, Int.toNat_natCast]

/-- a run of `del self[d]` for decreasing positions `d` -/
theorem runE_dels {i : Nat} : ∀ (ds : List Nat) (g g' : G), ds.Pairwise (fun a b => b < a) →
    (∀ d ∈ ds, d < (g.kids i .mods).length) →
    runE g (ds.map (fun (k : Nat) => Op.delItem i (k : Int))) = .ok g' →
    g'.kids i .mods = ds.foldl List.eraseIdx (g.kids i .mods) ∧
    (∀ d ∈ ds, ∀ c, (g.kids i .mods)[d]? = some c → g'.par c = none) ∧
    (∀ c, (∀ d ∈ ds, (g.kids i .mods)[d]? ≠ some c) → g'.par c = g.par c) ∧
    (∀ q s', (q ≠ i ∨ s' ≠ .mods) → g'.kids q s' = g.kids q s') ∧ Stable g g'
  | [], g, g', _, _, h => by
    cases h
    exact ⟨rfl, fun _ hm => (by cases hm), fun _ _ => rfl, fun _ _ _ => rfl, Stable.refl g⟩
  | d :: rest, g, g', hpw, hlt, h => by
    rw [List.pairwise_cons] at hpw
    simp only [List.map_cons, runE] at h
    cases h1 : step g (.delItem i (d : Int)) with
    | error e => rw [h1] at h; cases h
    | ok g1 =>
      rw [h1] at h
      obtain ⟨idx, old, hidx, hold, hk, hpo, hpn, hoth⟩ := C16_delItem_content g g1 i d h1
      have hd : d < (g.kids i .mods).length := hlt d List.mem_cons_self
      rw [pyIndex_nat hd] at hidx
      cases hidx
      have hget : ∀ r ∈ rest, (g1.kids i .mods)[r]? = (g.kids i .mods)[r]? := by
        intro r hr
        rw [hk, List.getElem?_eraseIdx_of_lt (hpw.1 r hr)]
      have hlt1 : ∀ r ∈ rest, r < (g1.kids i .mods).length := by
        intro r hr
        rw [hk, List.length_eraseIdx, if_pos hd]
        have := hpw.1 r hr
        omega
      obtain ⟨ih1, ih2, ih3, ih4, ih5⟩ := runE_dels rest g1 g' hpw.2 hlt1 h
      refine ⟨?_, ?_, ?_, ?_, ?_⟩
      · rw [ih1, hk]; rfl
      · intro d' hd' c hc
        rcases List.mem_cons.1 hd' with h2 | h2
        · subst h2
          rw [hold] at hc
          cases hc
          by_cases hex : ∃ r ∈ rest, (g1.kids i .mods)[r]? = some old
          · obtain ⟨r, hr, hr2⟩ := hex
            exact ih2 r hr old hr2
          · rw [ih3 old (fun r hr hh => hex ⟨r, hr, hh⟩)]
            exact hpo
        · exact ih2 d' h2 c (by rw [hget d' h2]; exact hc)
      · intro c hc
        have hne : c ≠ old := by
          intro hh
          subst hh
          exact hc d List.mem_cons_self hold
        rw [ih3 c (fun r hr => by rw [hget r hr]; exact hc r (List.mem_cons_of_mem _ hr)), hpn c hne]
      · intro q s' hne
        rw [ih4 q s' hne, hoth q s' hne]
      · exact (modDelItem_stable (i := i) (k := (d : Int)) h1).trans ih5

theorem runE_dels_inv {i : Nat} : ∀ (ks : List Nat) (g g' : G), ForestInv g → i < g.n ∧ g.kind i = .ir →
    runE g (ks.map (fun (k : Nat) => Op.delItem i (k : Int))) = .ok g' → ForestInv g'
  | [], g, g', h, _, hs => by cases hs; exact h
  | k :: ks, g, g', h, hi, hs => by
    simp only [List.map_cons, runE] at hs
    cases h1 : step g (.delItem i (k : Int)) with
    | error e => rw [h1] at hs; cases hs
    | ok g1 =>
      rw [h1] at hs
      have hst : Stable g g1 := modDelItem_stable (i := i) (k := (k : Int)) h1
      exact runE_dels_inv ks g1 g' (C04_step g g1 (.delItem i (k : Int)) h hi h1) (by rw [hst.n, hst.kind]; exact hi) hs

/-- one `insert(p, v)` of a value that is not in the list -/
theorem insert_facts {g g' : G} {i p v : Nat} (h : ForestInv g) (hc : ChildOK g i .mods v)
    (hv : v ∉ g.kids i .mods) (hs : step g (.insert i (p : Int) v) = .ok g') :
    g'.kids i .mods = (g.kids i .mods).take p ++ v :: (g.kids i .mods).drop p ∧
    (∀ j, j ≠ i → g'.kids j .mods = (g.kids j .mods).erase v) ∧
    (∀ q s', s' ≠ .mods → g'.kids q s' = g.kids q s') ∧
    (∀ c, g'.par c = if c = v then some i else g.par c) ∧ ForestInv g' ∧ Stable g g' := by
  obtain ⟨h1, h2, h3⟩ := C16_insert_content g g' i p v h hc hs
  refine ⟨?_, h2, h3, modInsert_par (i := i) (k := (p : Int)) hs, C04_step g g' (.insert i (p : Int) v) h hc hs,
    modInsert_stable (i := i) (k := (p : Int)) hs⟩
  rw [h1, List.erase_of_not_mem hv, pyInsert_nat]

theorem filter_erase_cons {l : List Nat} (hl : l.Nodup) (a : Nat) (as : List Nat) :
    (l.erase a).filter (fun x => !(decide (x ∈ as))) = l.filter (fun x => !(decide (x ∈ a :: as))) :=
  wr_filter_erase hl a as

/-- a run of `insert(p, w)` of pairwise different values that are not in the list -/
theorem runE_insAt {i : Nat} : ∀ (pairs : List (Nat × Nat)) (g g' : G), ForestInv g →
    (∀ pv ∈ pairs, ChildOK g i .mods pv.2) → (pairs.map (fun pv => pv.2)).Nodup →
    (∀ pv ∈ pairs, pv.2 ∉ g.kids i .mods) → runE g (insAtOps i pairs) = .ok g' →
    g'.kids i .mods = insAll (g.kids i .mods) pairs ∧
    (∀ j, j ≠ i → g'.kids j .mods = (g.kids j .mods).filter (fun x => !(decide (x ∈ pairs.map (fun pv => pv.2))))) ∧
    (∀ q s', s' ≠ .mods → g'.kids q s' = g.kids q s') ∧
    (∀ c, g'.par c = if c ∈ pairs.map (fun pv => pv.2) then some i else g.par c) ∧ ForestInv g' ∧ Stable g g'
  | [], g, g', h, _, _, _, hs => by
    cases hs
    refine ⟨rfl, ?_, fun _ _ _ => rfl, ?_, h, Stable.refl g⟩
    · intro j _
      exact (List.filter_eq_self.2 (fun _ _ => rfl)).symm
    · intro c
      simp
  | (p, w) :: rest, g, g', h, hc, hnd, hnot, hs => by
    rw [List.map_cons, List.nodup_cons] at hnd
    simp only [insAtOps, List.map_cons, runE] at hs
    cases h1 : step g (.insert i (p : Int) w) with
    | error e => rw [h1] at hs; cases hs
    | ok g1 =>
      rw [h1] at hs
      obtain ⟨f1, f2, f3, f4, f5, f6⟩ := insert_facts h (hc (p, w) List.mem_cons_self)
        (hnot (p, w) List.mem_cons_self) h1
      have hc1 : ∀ pv ∈ rest, ChildOK g1 i .mods pv.2 := fun pv hm =>
        (childOK_stable f6 i .mods pv.2).2 (hc pv (List.mem_cons_of_mem _ hm))
      have hnot1 : ∀ pv ∈ rest, pv.2 ∉ g1.kids i .mods := by
        intro pv hm hin
        rw [f1, List.mem_append, List.mem_cons] at hin
        have hne : pv.2 ≠ w := by
          intro hh
          apply hnd.1
          rw [← hh]
          exact List.mem_map.2 ⟨pv, hm, rfl⟩
        have hnin := hnot pv (List.mem_cons_of_mem _ hm)
        rcases hin with h2 | h2 | h2
        · exact hnin (List.mem_of_mem_take h2)
        · exact hne h2
        · exact hnin (List.mem_of_mem_drop h2)
      obtain ⟨r1, r2, r3, r4, r5, r6⟩ := runE_insAt rest g1 g' f5 hc1 hnd.2 hnot1 hs
      refine ⟨?_, ?_, ?_, ?_, r5, f6.trans r6⟩
      · rw [r1, f1]; rfl
      · intro j hj
        rw [r2 j hj, f2 j hj, List.map_cons]
        exact filter_erase_cons (h.nodup j .mods) w _
      · intro q s' hne
        rw [r3 q s' hne, f3 q s' hne]
      · intro c
        rw [r4 c, f4 c]
        by_cases hcw : c = w <;> by_cases hcr : c ∈ rest.map (fun pv => pv.2) <;> simp [hcw, hcr]

/-- the order of the replacements does not matter when the positions are pairwise different -/
theorem setAll_reverse (pairs : List (Nat × Nat)) (L : List Nat)
    (hnd : (pairs.map (fun pv => pv.1)).Nodup) (hlt : ∀ pv ∈ pairs, pv.1 < L.length) :
    setAll L pairs.reverse = setAll L pairs := by
  have hnd' : (pairs.reverse.map (fun pv => pv.1)).Nodup := by
    rw [List.map_reverse]
    exact (List.reverse_perm _).nodup_iff.2 hnd
  have hlt' : ∀ pv ∈ pairs.reverse, pv.1 < L.length := fun pv hm => hlt pv (List.mem_reverse.1 hm)
  obtain ⟨a1, a2⟩ := getElem?_setAll pairs L hnd hlt
  obtain ⟨b1, b2⟩ := getElem?_setAll pairs.reverse L hnd' hlt'
  apply List.ext_getElem?
  intro q
  by_cases hq : q ∈ pairs.map (fun pv => pv.1)
  · obtain ⟨pv, hm, rfl⟩ := List.mem_map.1 hq
    rw [a1 pv hm, b1 pv (List.mem_reverse.2 hm)]
  · rw [a2 q hq, b2 q]
    rw [List.map_reverse, List.mem_reverse]
    exact hq

/-- the operations of a slice deletion / assignment respect the typing contract -/
theorem opsOK_slice {i : Nat} {vs : List Nat} : ∀ (ops : List Op) (g : G), i < g.n ∧ g.kind i = .ir →
    (∀ v ∈ vs, ChildOK g i .mods v) →
    (∀ op ∈ ops, (∃ k, op = Op.delItem i k) ∨ (∃ k v, v ∈ vs ∧ op = Op.insert i k v)) → OpsOK g ops
  | [], _, _, _, _ => trivial
  | op :: ops, g, hi, hvs, hops => by
    have hop := hops op List.mem_cons_self
    have hst : Stable g (match step g op with | .ok g' => g' | .error _ => g) := by
      cases hs : step g op with
      | error e => exact Stable.refl g
      | ok g1 =>
        rcases hop with ⟨k, rfl⟩ | ⟨k, v, _, rfl⟩
        · exact modDelItem_stable (i := i) (k := k) hs
        · exact modInsert_stable (i := i) (k := k) (v := v) hs
    show OpOK g op ∧ OpsOK (match step g op with | .ok g' => g' | .error _ => g) ops
    generalize (match step g op with | .ok g' => g' | .error _ => g) = g1 at hst
    refine ⟨?_, opsOK_slice ops g1 (by rw [hst.n, hst.kind]; exact hi)
      (fun v hv => (childOK_stable hst i .mods v).2 (hvs v hv))
      (fun op' hm => hops op' (List.mem_cons_of_mem _ hm))⟩
    rcases hop with ⟨k, rfl⟩ | ⟨k, v, hv, rfl⟩
    · exact hi
    · exact hvs v hv

/-! ### exceptions of the runs -/

theorem runE_append_err {e : Exc} : ∀ (xs ys : List Op) (g : G), runE g (xs ++ ys) = .error e →
    runE g xs = .error e ∨ ∃ g1, runE g xs = .ok g1 ∧ runE g1 ys = .error e
  | [], ys, g, h => .inr ⟨g, rfl, h⟩
  | x :: xs, ys, g, h => by
    rw [List.cons_append] at h
    simp only [runE] at h ⊢
    cases hs : step g x with
    | ok g0 =>
      rw [hs] at h
      exact runE_append_err xs ys g0 h
    | error e' =>
      rw [hs] at h
      exact .inl h

/-- deleting valid positions never raises `IndexError` -/
theorem runE_dels_err {i : Nat} {e : Exc} : ∀ (ds : List Nat) (g : G), ds.Pairwise (fun a b => b < a) →
    (∀ d ∈ ds, d < (g.kids i .mods).length) →
    runE g (ds.map (fun (k : Nat) => Op.delItem i (k : Int))) = .error e → e = .cacheKeyError
  | [], g, _, _, h => by cases h
  | d :: rest, g, hpw, hlt, h => by
    rw [List.pairwise_cons] at hpw
    simp only [List.map_cons, runE] at h
    have hd : d < (g.kids i .mods).length := hlt d List.mem_cons_self
    cases h1 : step g (.delItem i (d : Int)) with
    | error e' =>
      rw [h1] at h
      cases h
      rcases wr_modDelItem_err (i := i) (k := (d : Int)) h1 with h2 | h2
      · rw [pyIndex_nat hd] at h2
        cases h2.2
      · exact h2
    | ok g1 =>
      rw [h1] at h
      obtain ⟨idx, old, hidx, _, hk, _, _, _⟩ := C16_delItem_content g g1 i d h1
      rw [pyIndex_nat hd] at hidx
      cases hidx
      refine runE_dels_err rest g1 hpw.2 ?_ h
      intro r hr
      rw [hk, List.length_eraseIdx, if_pos hd]
      have := hpw.1 r hr
      omega

/-- inserting modules that are not in the list never raises a built-in exception -/
theorem runE_insAt_err {i : Nat} {e : Exc} : ∀ (pairs : List (Nat × Nat)) (g : G), ForestInv g →
    (∀ pv ∈ pairs, ChildOK g i .mods pv.2) → (pairs.map (fun pv => pv.2)).Nodup →
    (∀ pv ∈ pairs, pv.2 ∉ g.kids i .mods) → runE g (insAtOps i pairs) = .error e → e = .cacheKeyError
  | [], g, _, _, _, _, hs => by cases hs
  | (p, w) :: rest, g, h, hc, hnd, hnot, hs => by
    rw [List.map_cons, List.nodup_cons] at hnd
    simp only [insAtOps, List.map_cons, runE] at hs
    cases h1 : step g (.insert i (p : Int) w) with
    | error e' =>
      rw [h1] at hs
      cases hs
      exact wr_modInsert_err (i := i) (k := (p : Int)) h (hc (p, w) List.mem_cons_self).2.2.1 h1
    | ok g1 =>
      rw [h1] at hs
      obtain ⟨f1, _, _, _, f5, f6⟩ := insert_facts h (hc (p, w) List.mem_cons_self)
        (hnot (p, w) List.mem_cons_self) h1
      refine runE_insAt_err rest g1 f5
        (fun pv hm => (childOK_stable f6 i .mods pv.2).2 (hc pv (List.mem_cons_of_mem _ hm))) hnd.2 ?_ hs
      intro pv hm hin
      rw [f1, List.mem_append, List.mem_cons] at hin
      have hne : pv.2 ≠ w := by
        intro hh
        apply hnd.1
        rw [← hh]
        exact List.mem_map.2 ⟨pv, hm, rfl⟩
      have hnin := hnot pv (List.mem_cons_of_mem _ hm)
      rcases hin with h2 | h2 | h2
      · exact hnin (List.mem_of_mem_take h2)
      · exact hne h2
      · exact hnin (List.mem_of_mem_drop h2)

/-- the shape of the operations of a slice assignment -/
theorem setSliceOps_shape {i len : Nat} {start stop step : Option Int} {vs : List Nat} {a b st : Int}
    {ops : List Op} (hidx : sliceIndices len start stop step = some (a, b, st))
    (hops : setSliceOps i len start stop step vs = some ops) :
    ∃ pairs : List (Nat × Nat), ops = delSliceOps i (rangeList a b st) ++ insAtOps i pairs ∧
      (pairs.map (fun pv => pv.2)).Perm vs := by
  unfold setSliceOps at hops
  rw [hidx] at hops
  simp only at hops
  split at hops
  · cases hops
    refine ⟨_, by rw [insSeqOps_eq], ?_⟩
    rw [List.map_snd_zip (by simp)]
  · split at hops
    · rename_i hlen
      cases hops
      refine ⟨_, rfl, ?_⟩
      have hsnd : ((rangeList a b st).zip vs).map (fun pv => pv.2) = vs := List.map_snd_zip (by omega)
      unfold extPairs
      split
      · rw [hsnd]
      · rw [List.map_reverse, hsnd]
        exact List.reverse_perm vs
    · cases hops

end Gtirb.Forest
