import GtirbModel.DeepEq
/-! Helper lemmas for C18 (`deep_eq` on the observable content of an IR).

* generic facts about the stable insertion sort `sortBy` (permutation, sorted,
  unique for antisymmetric keys), `allZip`, `sameSet`, `sameKeys`;
* the orders used as sort keys (`bytesLe`, `tripleLe`, `edgeLe`) are total orders;
* the two hypotheses `DistinctSiblings` and `SelfContained`;
* `deepEq a b = true → canon a = canon b` and the converse. -/
namespace Gtirb.Msg

/-! ### insertion sort -/
section SortLemmas
variable {α : Type} (le : α → α → Bool)

theorem sortBy_cons (x : α) (l : List α) : sortBy le (x :: l) = insertBy le x (sortBy le l) := rfl

theorem perm_insertBy (x : α) (l : List α) : (insertBy le x l).Perm (x :: l) := by
  induction l with
  | nil => exact .refl _
  | cons z zs ih =>
    unfold insertBy; split
    · exact .refl _
    · exact (List.Perm.cons z ih).trans (List.Perm.swap x z zs)

theorem perm_sortBy (l : List α) : (sortBy le l).Perm l := by
  induction l with
  | nil => exact .refl _
  | cons x xs ih => exact (perm_insertBy le x _).trans (ih.cons x)

theorem mem_sortBy {y : α} {l : List α} : y ∈ sortBy le l ↔ y ∈ l := (perm_sortBy le l).mem_iff

theorem length_sortBy (l : List α) : (sortBy le l).length = l.length := (perm_sortBy le l).length_eq

variable {le}

theorem pairwise_insertBy (total : ∀ a b, le a b = true ∨ le b a = true)
    (trans : ∀ a b c, le a b = true → le b c = true → le a c = true) (x : α) {l : List α}
    (h : l.Pairwise (fun a b => le a b = true)) :
    (insertBy le x l).Pairwise (fun a b => le a b = true) := by
  induction l with
  | nil => simp [insertBy]
  | cons z zs ih =>
    rw [List.pairwise_cons] at h
    unfold insertBy; split
    · rename_i hxz
      refine List.pairwise_cons.2 ⟨?_, List.pairwise_cons.2 h⟩
      intro w hw
      rcases List.mem_cons.1 hw with rfl | hw
      · exact hxz
      · exact trans _ _ _ hxz (h.1 w hw)
    · rename_i hxz
      refine List.pairwise_cons.2 ⟨?_, ih h.2⟩
      intro w hw
      rcases List.mem_cons.1 ((perm_insertBy le x zs).mem_iff.1 hw) with rfl | hw
      · rcases total w z with h' | h'
        · exact absurd h' hxz
        · exact h'
      · exact h.1 w hw

theorem pairwise_sortBy (total : ∀ a b, le a b = true ∨ le b a = true)
    (trans : ∀ a b c, le a b = true → le b c = true → le a c = true) (l : List α) :
    (sortBy le l).Pairwise (fun a b => le a b = true) := by
  induction l with
  | nil => exact List.Pairwise.nil
  | cons x xs ih => exact pairwise_insertBy total trans x ih

/-- two sorted permutations of each other coincide when the relation is
antisymmetric on the members -/
theorem eq_of_perm_of_pairwise {r : α → α → Prop} : ∀ {l1 l2 : List α}, l1.Perm l2 →
    (∀ a ∈ l1, ∀ b ∈ l1, r a b → r b a → a = b) → l1.Pairwise r → l2.Pairwise r → l1 = l2
  | [], l2, hp, _, _, _ => hp.nil_eq
  | x :: t1, [], hp, _, _, _ => by simpa using hp.length_eq
  | x :: t1, y :: t2, hp, anti, h1, h2 => by
    rw [List.pairwise_cons] at h1 h2
    have hx : x ∈ y :: t2 := hp.mem_iff.1 (List.mem_cons_self)
    have hy : y ∈ x :: t1 := hp.mem_iff.2 (List.mem_cons_self)
    have hxy : x = y := by
      rcases List.mem_cons.1 hx with h | hx'
      · exact h
      · rcases List.mem_cons.1 hy with h | hy'
        · exact h.symm
        · exact anti x List.mem_cons_self y hy (h1.1 y hy') (h2.1 x hx')
    subst hxy
    have := eq_of_perm_of_pairwise hp.cons_inv
      (fun a ha b hb => anti a (List.mem_cons_of_mem _ ha) b (List.mem_cons_of_mem _ hb)) h1.2 h2.2
    rw [this]

theorem sortBy_eq_of_perm (total : ∀ a b, le a b = true ∨ le b a = true)
    (trans : ∀ a b c, le a b = true → le b c = true → le a c = true) {l1 l2 : List α}
    (hp : l1.Perm l2) (anti : ∀ a ∈ l1, ∀ b ∈ l1, le a b = true → le b a = true → a = b) :
    sortBy le l1 = sortBy le l2 := by
  apply eq_of_perm_of_pairwise (r := fun a b => le a b = true)
  · exact (perm_sortBy le l1).trans (hp.trans (perm_sortBy le l2).symm)
  · intro a ha b hb
    exact anti a ((mem_sortBy le).1 ha) b ((mem_sortBy le).1 hb)
  · exact pairwise_sortBy total trans l1
  · exact pairwise_sortBy total trans l2

theorem inj_of_nodup_map {κ : Type} {k : α → κ} : ∀ {l : List α}, (l.map k).Nodup →
    ∀ a ∈ l, ∀ b ∈ l, k a = k b → a = b
  | [], _, a, ha, _, _, _ => by cases ha
  | x :: t, hn, a, ha, b, hb, hk => by
    rw [List.map_cons, List.nodup_cons] at hn
    rcases List.mem_cons.1 ha with rfl | ha' <;> rcases List.mem_cons.1 hb with rfl | hb'
    · rfl
    · exact absurd (List.mem_map.2 ⟨b, hb', hk.symm⟩) hn.1
    · exact absurd (List.mem_map.2 ⟨a, ha', hk⟩) hn.1
    · exact inj_of_nodup_map hn.2 a ha' b hb' hk

/-- sorting by a key with a total order on keys: permuting a list with
pairwise distinct keys does not change the result -/
theorem sortBy_key_eq_of_perm {κ : Type} {k : α → κ} {le' : κ → κ → Bool}
    (total : ∀ a b, le' a b = true ∨ le' b a = true)
    (trans : ∀ a b c, le' a b = true → le' b c = true → le' a c = true)
    (anti : ∀ a b, le' a b = true → le' b a = true → a = b)
    {l1 l2 : List α} (hp : l1.Perm l2) (hn : (l1.map k).Nodup) :
    sortBy (fun x y => le' (k x) (k y)) l1 = sortBy (fun x y => le' (k x) (k y)) l2 :=
  sortBy_eq_of_perm (le := fun x y => le' (k x) (k y)) (fun a b => total (k a) (k b))
    (fun a b c => trans (k a) (k b) (k c)) hp
    (fun a ha b hb h1 h2 => inj_of_nodup_map hn a ha b hb (anti _ _ h1 h2))

theorem sortBy_eq_of_mem_iff (total : ∀ a b, le a b = true ∨ le b a = true)
    (trans : ∀ a b c, le a b = true → le b c = true → le a c = true)
    (anti : ∀ a b, le a b = true → le b a = true → a = b)
    {l1 l2 : List α} (h1 : l1.Nodup) (h2 : l2.Nodup) (h : ∀ x, x ∈ l1 ↔ x ∈ l2) :
    sortBy le l1 = sortBy le l2 :=
  sortBy_eq_of_perm total trans ((List.perm_ext_iff_of_nodup h1 h2).2 h)
    (fun a _ b _ => anti a b)

end SortLemmas

/-! ### `allZip` -/
section AllZip
variable {α β : Type}

theorem allZip_comm {f g : α → α → Bool} (h : ∀ x y, f x y = g y x) :
    ∀ l1 l2 : List α, allZip f l1 l2 = allZip g l2 l1
  | [], [] => rfl
  | [], _ :: _ => rfl
  | _ :: _, [] => rfl
  | a :: as, b :: bs => by simp only [allZip, h a b, allZip_comm h as bs]

theorem map_eq_of_allZip {f : α → α → Bool} {g : α → β} : ∀ {l1 l2 : List α},
    allZip f l1 l2 = true → (∀ x ∈ l1, ∀ y ∈ l2, f x y = true → g x = g y) →
    l1.map g = l2.map g
  | [], [], _, _ => rfl
  | [], _ :: _, h, _ => by simp [allZip] at h
  | _ :: _, [], h, _ => by simp [allZip] at h
  | a :: as, b :: bs, h, hf => by
    simp only [allZip, Bool.and_eq_true] at h
    rw [List.map_cons, List.map_cons, hf a List.mem_cons_self b List.mem_cons_self h.1,
      map_eq_of_allZip h.2 (fun x hx y hy => hf x (List.mem_cons_of_mem _ hx) y (List.mem_cons_of_mem _ hy))]

theorem allZip_of_map_eq {f : α → α → Bool} {g : α → β} : ∀ {l1 l2 : List α},
    l1.map g = l2.map g → (∀ x ∈ l1, ∀ y ∈ l2, g x = g y → f x y = true) →
    allZip f l1 l2 = true
  | [], [], _, _ => rfl
  | [], _ :: _, h, _ => by simp at h
  | _ :: _, [], h, _ => by simp at h
  | a :: as, b :: bs, h, hf => by
    simp only [List.map_cons, List.cons.injEq] at h
    simp only [allZip, Bool.and_eq_true]
    exact ⟨hf a List.mem_cons_self b List.mem_cons_self h.1,
      allZip_of_map_eq h.2 (fun x hx y hy => hf x (List.mem_cons_of_mem _ hx) y (List.mem_cons_of_mem _ hy))⟩

theorem eq_of_allZip {f : α → α → Bool} {l1 l2 : List α} (h : allZip f l1 l2 = true)
    (hf : ∀ x ∈ l1, ∀ y ∈ l2, f x y = true → x = y) : l1 = l2 := by
  have := map_eq_of_allZip (g := id) h hf
  simpa using this

theorem allZip_self {f : α → α → Bool} {l : List α} (hf : ∀ x ∈ l, f x x = true) :
    allZip f l l = true :=
  allZip_of_map_eq (g := id) rfl (fun x hx y _ hxy => by cases hxy; exact hf x hx)

end AllZip

/-! ### the sort keys are total orders -/

theorem bytesLe_total : ∀ a b : Bytes, bytesLe a b = true ∨ bytesLe b a = true
  | [], _ => by simp [bytesLe]
  | _ :: _, [] => by simp [bytesLe]
  | x :: xs, y :: ys => by
    have ih := bytesLe_total xs ys
    simp only [bytesLe, gt_iff_lt]
    by_cases h1 : x < y
    · simp [h1]
    · by_cases h2 : y < x
      · simp [h2]
      · simpa [h1, h2] using ih

theorem bytesLe_antisymm : ∀ a b : Bytes, bytesLe a b = true → bytesLe b a = true → a = b
  | [], [], _, _ => rfl
  | [], _ :: _, _, h => by simp [bytesLe] at h
  | _ :: _, [], h, _ => by simp [bytesLe] at h
  | x :: xs, y :: ys, h1, h2 => by
    simp only [bytesLe, gt_iff_lt] at h1 h2
    by_cases hxy : x < y
    · have : ¬ y < x := UInt8.lt_asymm hxy
      simp [hxy, this] at h2
    · by_cases hyx : y < x
      · simp [hxy, hyx] at h1
      · simp only [hxy, hyx, if_false] at h1 h2
        have : x = y := by
          rw [UInt8.lt_iff_toNat_lt] at hxy hyx
          exact UInt8.toNat_inj.1 (by omega)
        rw [this, bytesLe_antisymm xs ys h1 h2]

theorem bytesLe_cons (x y : UInt8) (xs ys : Bytes) : bytesLe (x :: xs) (y :: ys) = true ↔
    x.toNat < y.toNat ∨ (x.toNat = y.toNat ∧ bytesLe xs ys = true) := by
  simp only [bytesLe, gt_iff_lt, UInt8.lt_iff_toNat_lt]
  by_cases h1 : x.toNat < y.toNat
  · simp [h1]
  · by_cases h2 : y.toNat < x.toNat
    · simp [h1, h2]; omega
    · simp [h1, h2]; omega

theorem bytesLe_trans : ∀ a b c : Bytes, bytesLe a b = true → bytesLe b c = true → bytesLe a c = true
  | [], _, _, _, _ => by simp [bytesLe]
  | _ :: _, [], _, h, _ => by simp [bytesLe] at h
  | _ :: _, _ :: _, [], _, h => by simp [bytesLe] at h
  | x :: xs, y :: ys, z :: zs, h1, h2 => by
    have ih := bytesLe_trans xs ys zs
    rw [bytesLe_cons] at h1 h2 ⊢
    rcases h1 with h1 | ⟨e1, h1⟩ <;> rcases h2 with h2 | ⟨e2, h2⟩
    · exact .inl (by omega)
    · exact .inl (by omega)
    · exact .inl (by omega)
    · exact .inr ⟨by omega, ih h1 h2⟩

theorem tripleLe_total (a b : Int × Bool × Bool) : tripleLe a b = true ∨ tripleLe b a = true := by
  obtain ⟨a1, a2, a3⟩ := a; obtain ⟨b1, b2, b3⟩ := b
  simp only [tripleLe, gt_iff_lt]
  by_cases h1 : a1 < b1
  · simp [h1]
  · by_cases h2 : b1 < a1
    · simp [h2]
    · cases a2 <;> cases a3 <;> cases b2 <;> cases b3 <;> simp [h1, h2]

theorem tripleLe_antisymm (a b : Int × Bool × Bool) (hab : tripleLe a b = true)
    (hba : tripleLe b a = true) : a = b := by
  obtain ⟨a1, a2, a3⟩ := a; obtain ⟨b1, b2, b3⟩ := b
  simp only [tripleLe, gt_iff_lt] at hab hba
  by_cases h1 : a1 < b1
  · have : ¬ b1 < a1 := by omega
    simp [h1, this] at hba
  · by_cases h2 : b1 < a1
    · simp [h1, h2] at hab
    · have : a1 = b1 := by omega
      subst this
      cases a2 <;> cases a3 <;> cases b2 <;> cases b3 <;> simp_all

theorem tripleLe_trans (a b c : Int × Bool × Bool) (hab : tripleLe a b = true)
    (hbc : tripleLe b c = true) : tripleLe a c = true := by
  obtain ⟨a1, a2, a3⟩ := a; obtain ⟨b1, b2, b3⟩ := b; obtain ⟨c1, c2, c3⟩ := c
  simp only [tripleLe, gt_iff_lt] at hab hbc ⊢
  by_cases h1 : a1 < b1
  · by_cases h3 : b1 < c1
    · have : a1 < c1 := by omega
      simp [this]
    · by_cases h4 : c1 < b1
      · simp [h3, h4] at hbc
      · have : a1 < c1 := by omega
        simp [this]
  · by_cases h2 : b1 < a1
    · simp [h1, h2] at hab
    · have e : a1 = b1 := by omega
      subst e
      by_cases h3 : a1 < c1
      · simp [h3]
      · by_cases h4 : c1 < a1
        · simp [h3, h4] at hbc
        · simp only [h1, h3, h4, if_false] at hab hbc ⊢
          cases a2 <;> cases a3 <;> cases b2 <;> cases b3 <;> cases c2 <;> cases c3 <;> simp_all

theorem labelKey_inj (a b : Option EdgeLabelV) (h : labelKey a = labelKey b) : a = b := by
  cases a with
  | none =>
    cases b with
    | none => rfl
    | some y =>
      simp only [labelKey, Prod.mk.injEq] at h
      omega
  | some x =>
    cases b with
    | none =>
      simp only [labelKey, Prod.mk.injEq] at h
      omega
    | some y =>
      obtain ⟨x1, x2, x3⟩ := x; obtain ⟨y1, y2, y3⟩ := y
      simp only [labelKey, Prod.mk.injEq] at h
      obtain ⟨h1, h2, h3⟩ := h
      have : x1 = y1 := by omega
      subst this h2 h3
      rfl

/-- lexicographic step: compare a key first, the rest on ties -/
def lexLe {α κ : Type} [BEq κ] (k : α → κ) (le1 : κ → κ → Bool) (rest : α → α → Bool)
    (a b : α) : Bool := if k a != k b then le1 (k a) (k b) else rest a b

section Lex
variable {α κ : Type} [BEq κ] [LawfulBEq κ] {k : α → κ} {le1 : κ → κ → Bool} {rest : α → α → Bool}

theorem lexLe_total (t1 : ∀ a b, le1 a b = true ∨ le1 b a = true)
    (t2 : ∀ a b, rest a b = true ∨ rest b a = true) (a b : α) :
    lexLe k le1 rest a b = true ∨ lexLe k le1 rest b a = true := by
  unfold lexLe
  by_cases h : k a = k b
  · rw [h]
    simpa using t2 a b
  · have h' : ¬ k b = k a := fun e => h e.symm
    simpa [h, h'] using t1 (k a) (k b)

theorem lexLe_antisymm (a1 : ∀ a b, le1 a b = true → le1 b a = true → a = b)
    (a2 : ∀ a b, rest a b = true → rest b a = true → a = b) (a b : α)
    (hab : lexLe k le1 rest a b = true) (hba : lexLe k le1 rest b a = true) : a = b := by
  unfold lexLe at hab hba
  by_cases h : k a = k b
  · have h' : k b = k a := h.symm
    simp only [h, bne_self_eq_false, Bool.false_eq_true, if_false] at hab hba
    exact a2 a b hab hba
  · have h' : ¬ k b = k a := fun e => h e.symm
    simp only [bne_iff_ne, ne_eq, h, h', not_false_eq_true, if_true] at hab hba
    exact absurd (a1 _ _ hab hba) h

theorem lexLe_trans (a1 : ∀ a b, le1 a b = true → le1 b a = true → a = b)
    (tr1 : ∀ a b c, le1 a b = true → le1 b c = true → le1 a c = true)
    (tr2 : ∀ a b c, rest a b = true → rest b c = true → rest a c = true) (a b c : α)
    (hab : lexLe k le1 rest a b = true) (hbc : lexLe k le1 rest b c = true) :
    lexLe k le1 rest a c = true := by
  unfold lexLe at hab hbc ⊢
  by_cases h : k a = k b
  · rw [h] at hab ⊢
    simp only [bne_self_eq_false, Bool.false_eq_true, if_false] at hab
    by_cases g : k b = k c
    · rw [g] at hbc ⊢
      simp only [bne_self_eq_false, Bool.false_eq_true, if_false] at hbc ⊢
      exact tr2 _ _ _ hab hbc
    · simp only [bne_iff_ne, ne_eq, g, not_false_eq_true, if_true] at hbc ⊢
      exact hbc
  · simp only [bne_iff_ne, ne_eq, h, not_false_eq_true, if_true] at hab
    by_cases g : k b = k c
    · rw [← g]
      simp only [bne_iff_ne, ne_eq, h, not_false_eq_true, if_true]
      exact hab
    · simp only [bne_iff_ne, ne_eq, g, not_false_eq_true, if_true] at hbc
      have hac : ¬ k a = k c := by
        intro e
        rw [← e] at hbc
        exact h (a1 _ _ hab hbc)
      simp only [bne_iff_ne, ne_eq, hac, not_false_eq_true, if_true]
      exact tr1 _ _ _ hab hbc

end Lex

theorem edgeLe_eq_lex : edgeLe = lexLe (·.src) bytesLe
    (lexLe (·.dst) bytesLe (fun a b => tripleLe (labelKey a.label) (labelKey b.label))) := by
  funext a b
  simp only [edgeLe, lexLe]

theorem edgeLe_total (a b : EdgeV) : edgeLe a b = true ∨ edgeLe b a = true := by
  rw [edgeLe_eq_lex]
  exact lexLe_total bytesLe_total (lexLe_total bytesLe_total
    (rest := fun a b : EdgeV => tripleLe (labelKey a.label) (labelKey b.label))
    (fun a b => tripleLe_total _ _)) a b

theorem edgeLe_trans (a b c : EdgeV) : edgeLe a b = true → edgeLe b c = true → edgeLe a c = true := by
  rw [edgeLe_eq_lex]
  exact lexLe_trans bytesLe_antisymm bytesLe_trans
    (lexLe_trans bytesLe_antisymm bytesLe_trans
      (rest := fun a b : EdgeV => tripleLe (labelKey a.label) (labelKey b.label))
      (fun a b c => tripleLe_trans _ _ _)) a b c

/-- on edges with equal source and target, the label key decides -/
theorem edgeLe_antisymm (a b : EdgeV) (hab : edgeLe a b = true) (hba : edgeLe b a = true) : a = b := by
  have hs : a.src = b.src := by
    by_cases h : a.src = b.src
    · exact h
    · have h' : ¬ b.src = a.src := fun e => h e.symm
      simp only [edgeLe, bne_iff_ne, ne_eq, h, h', not_false_eq_true, if_true] at hab hba
      exact bytesLe_antisymm _ _ hab hba
  have hd : a.dst = b.dst := by
    by_cases h : a.dst = b.dst
    · exact h
    · have h' : ¬ b.dst = a.dst := fun e => h e.symm
      simp only [edgeLe, hs, bne_self_eq_false, Bool.false_eq_true, if_false, bne_iff_ne, ne_eq, h, h',
        not_false_eq_true, if_true] at hab hba
      exact bytesLe_antisymm _ _ hab hba
  have hl : a.label = b.label := by
    simp only [edgeLe, hs, hd, bne_self_eq_false, Bool.false_eq_true, if_false] at hab hba
    exact labelKey_inj _ _ (tripleLe_antisymm _ _ hab hba)
  cases a; cases b; simp_all

/-! ### number sets and key sets -/

theorem insertNat'_eq (x : Nat) (l : List Nat) :
    insertNat' x l = insertBy (fun a b => decide (a ≤ b)) x l := by
  induction l with
  | nil => rfl
  | cons y ys ih => simp only [insertNat', insertBy, ih, decide_eq_true_eq]

theorem sortNats_eq (l : List Nat) : sortNats l = sortBy (fun a b => decide (a ≤ b)) l := by
  induction l with
  | nil => rfl
  | cons x xs ih =>
    show insertNat' x (sortNats xs) = insertBy _ x (sortBy _ xs)
    rw [ih, insertNat'_eq]

theorem mem_sortNats {x : Nat} {l : List Nat} : x ∈ sortNats l ↔ x ∈ l := by
  rw [sortNats_eq]; exact mem_sortBy _

theorem sameSet_iff {a b : List Nat} : sameSet a b = true ↔ ∀ x, x ∈ a ↔ x ∈ b := by
  simp only [sameSet, Bool.and_eq_true, List.all_eq_true, decide_eq_true_eq]
  exact ⟨fun h x => ⟨h.1 x, h.2 x⟩, fun h => ⟨fun x => (h x).1, fun x => (h x).2⟩⟩

theorem sortNats_eq_of_sameSet {a b : List Nat} (ha : a.Nodup) (hb : b.Nodup)
    (h : sameSet a b = true) : sortNats a = sortNats b := by
  rw [sortNats_eq, sortNats_eq]
  refine sortBy_eq_of_mem_iff ?_ ?_ ?_ ha hb (sameSet_iff.1 h)
  · intro x y; simp only [decide_eq_true_eq]; omega
  · intro x y z; simp only [decide_eq_true_eq]; omega
  · intro x y; simp only [decide_eq_true_eq]; omega

theorem sameSet_of_sortNats_eq {a b : List Nat} (h : sortNats a = sortNats b) : sameSet a b = true := by
  rw [sameSet_iff]
  intro x
  rw [← mem_sortNats (l := a), ← mem_sortNats (l := b), h]

def sortStrs (l : List String) : List String := l.foldr insertStr []

theorem insertStr_eq (x : String) (l : List String) :
    insertStr x l = insertBy (fun a b => decide (a ≤ b)) x l := by
  induction l with
  | nil => rfl
  | cons y ys ih => simp only [insertStr, insertBy, ih, decide_eq_true_eq]

theorem sortStrs_eq (l : List String) : sortStrs l = sortBy (fun a b => decide (a ≤ b)) l := by
  induction l with
  | nil => rfl
  | cons x xs ih =>
    show insertStr x (sortStrs xs) = insertBy _ x (sortBy _ xs)
    rw [ih, insertStr_eq]

theorem mem_sortStrs {x : String} {l : List String} : x ∈ sortStrs l ↔ x ∈ l := by
  rw [sortStrs_eq]; exact mem_sortBy _

theorem canonAux_eq (l : List AuxV) :
    canonAux l = (sortStrs (l.map (·.key))).map fun k => ⟨k, "", []⟩ := rfl

theorem canonAux_inj {a b : List AuxV} :
    canonAux a = canonAux b ↔ sortStrs (a.map (·.key)) = sortStrs (b.map (·.key)) := by
  rw [canonAux_eq, canonAux_eq]
  exact List.map_inj_right (fun x y h => by injection h)

theorem sameKeys_iff {a b : List AuxV} :
    sameKeys a b = true ↔ ∀ k, k ∈ a.map (·.key) ↔ k ∈ b.map (·.key) := by
  simp only [sameKeys, Bool.and_eq_true, List.all_eq_true, decide_eq_true_eq]
  exact ⟨fun h x => ⟨h.1 x, h.2 x⟩, fun h => ⟨fun x => (h x).1, fun x => (h x).2⟩⟩

theorem canonAux_eq_of_sameKeys {a b : List AuxV} (ha : (a.map (·.key)).Nodup)
    (hb : (b.map (·.key)).Nodup) (h : sameKeys a b = true) : canonAux a = canonAux b := by
  rw [canonAux_inj, sortStrs_eq, sortStrs_eq]
  refine sortBy_eq_of_mem_iff ?_ ?_ ?_ ha hb (sameKeys_iff.1 h)
  · intro x y; simp only [decide_eq_true_eq]; exact String.le_total x y
  · intro x y z; simp only [decide_eq_true_eq]; exact String.le_trans
  · intro x y; simp only [decide_eq_true_eq]; exact String.le_antisymm

theorem sameKeys_of_canonAux_eq {a b : List AuxV} (h : canonAux a = canonAux b) :
    sameKeys a b = true := by
  rw [canonAux_inj] at h
  rw [sameKeys_iff]
  intro x
  rw [← mem_sortStrs (l := a.map _), ← mem_sortStrs (l := b.map _), h]

/-! ### the two hypotheses -/

def PayloadV.refs : PayloadV → List U
  | .referent u => [u]
  | _ => []

def SymExprV.syms : SymExprV → List U
  | .addrConst _ s => [s]
  | .addrAddr _ _ s1 s2 => [s1, s2]

def DistinctInterval (i : IntervalV) : Prop :=
  (i.blocks.map (·.uuid)).Nodup ∧ (i.exprs.map (·.key)).Nodup ∧ ∀ e ∈ i.exprs, e.attrs.Nodup

def DistinctSection (s : SectionV) : Prop :=
  s.flags.Nodup ∧ (s.intervals.map (·.uuid)).Nodup ∧ ∀ i ∈ s.intervals, DistinctInterval i

def DistinctModule (m : ModuleV) : Prop :=
  m.proxies.Nodup ∧ (m.sections.map (·.uuid)).Nodup ∧ (m.symbols.map (·.uuid)).Nodup ∧
  (m.aux.map (·.key)).Nodup ∧ ∀ s ∈ m.sections, DistinctSection s

/-- within every collection that `deep_eq` sorts or compares as a set, the sort
keys are pairwise distinct (as they are in any IR built through the API: UUIDs
are unique, dictionaries have unique keys, sets have no duplicates) -/
def DistinctSiblings (v : IRV) : Prop :=
  (v.modules.map (·.uuid)).Nodup ∧ v.edges.Nodup ∧ (v.aux.map (·.key)).Nodup ∧
  ∀ m ∈ v.modules, DistinctModule m

instance (i : IntervalV) : Decidable (DistinctInterval i) := by unfold DistinctInterval; infer_instance
instance (s : SectionV) : Decidable (DistinctSection s) := by unfold DistinctSection; infer_instance
instance (m : ModuleV) : Decidable (DistinctModule m) := by unfold DistinctModule; infer_instance
instance (v : IRV) : Decidable (DistinctSiblings v) := by unfold DistinctSiblings; infer_instance

def SymbolOk (v : IRV) (s : SymbolV) : Prop := ∀ u ∈ s.payload.refs, (v.findBlock u).isSome = true
def ExprOk (v : IRV) (e : ExprEntryV) : Prop := ∀ u ∈ e.expr.syms, (v.findSymbol u).isSome = true
def IntervalOk (v : IRV) (i : IntervalV) : Prop := ∀ e ∈ i.exprs, ExprOk v e
def SectionOk (v : IRV) (s : SectionV) : Prop := ∀ i ∈ s.intervals, IntervalOk v i
def ModuleOk (v : IRV) (m : ModuleV) : Prop :=
  (∀ s ∈ m.sections, SectionOk v s) ∧ (∀ s ∈ m.symbols, SymbolOk v s) ∧
  ∀ u ∈ m.entryPoint.toList, (v.findBlock u).isSome = true

/-- every reference (symbol referent, entry point, edge end, symbolic-expression
symbol) resolves inside `v`, and block / symbol UUIDs are unique in the whole IR -/
def SelfContained (v : IRV) : Prop :=
  (v.blocks.map (·.uuid)).Nodup ∧ (v.symbols.map (·.uuid)).Nodup ∧
  (∀ m ∈ v.modules, ModuleOk v m) ∧
  ∀ e ∈ v.edges, (v.findBlock e.src).isSome = true ∧ (v.findBlock e.dst).isSome = true

instance (v : IRV) (s : SymbolV) : Decidable (SymbolOk v s) := by unfold SymbolOk; infer_instance
instance (v : IRV) (e : ExprEntryV) : Decidable (ExprOk v e) := by unfold ExprOk; infer_instance
instance (v : IRV) (i : IntervalV) : Decidable (IntervalOk v i) := by unfold IntervalOk; infer_instance
instance (v : IRV) (s : SectionV) : Decidable (SectionOk v s) := by unfold SectionOk; infer_instance
instance (v : IRV) (m : ModuleV) : Decidable (ModuleOk v m) := by unfold ModuleOk; infer_instance
instance (v : IRV) : Decidable (SelfContained v) := by unfold SelfContained; infer_instance

/-! ### `deepEq a b = true → canon a = canon b` -/

theorem blockDeepEq_iff (x y : BlockV) : blockDeepEq x y = true ↔ x = y := by
  cases x <;> cases y <;> simp [blockDeepEq] <;> grind

def RefNode.uuid : RefNode → U
  | .block b => b.uuid
  | .proxy u => u

theorem findBlock_uuid {v : IRV} {u : U} {n : RefNode} (h : v.findBlock u = some n) : n.uuid = u := by
  unfold IRV.findBlock at h
  split at h
  · rename_i b hb
    have := List.find?_some hb
    cases h
    simpa [RefNode.uuid] using this
  · split at h
    · cases h; rfl
    · cases h

theorem findSymbol_uuid {v : IRV} {u : U} {s : SymbolV} (h : v.findSymbol u = some s) : s.uuid = u := by
  have := List.find?_some h
  simpa using this

theorem refDeepEq_iff (x y : Option RefNode) : refDeepEq x y = true ↔ x = y ∧ x.isSome = true := by
  rcases x with _ | x | x <;> rcases y with _ | y | y <;> simp [refDeepEq, blockDeepEq_iff]

theorem refDeepEq_uuid {va vb : IRV} {u u' : U}
    (h : refDeepEq (va.findBlock u) (vb.findBlock u') = true) : u = u' := by
  obtain ⟨h1, h2⟩ := (refDeepEq_iff _ _).1 h
  obtain ⟨n, hn⟩ := Option.isSome_iff_exists.1 h2
  have e1 : n.uuid = u := findBlock_uuid hn
  have e2 : n.uuid = u' := findBlock_uuid (h1 ▸ hn)
  rw [← e1, ← e2]

theorem symbolDeepEq_eq {va vb : IRV} {s s' : SymbolV} (h : symbolDeepEq va vb s s' = true) : s = s' := by
  obtain ⟨u, n, p, e⟩ := s; obtain ⟨u', n', p', e'⟩ := s'
  simp only [symbolDeepEq, Bool.and_eq_true, beq_iff_eq] at h
  obtain ⟨⟨⟨hp, hn⟩, he⟩, hu⟩ := h
  subst hn he hu
  cases p <;> cases p' <;> simp at hp ⊢
  · exact hp
  · exact refDeepEq_uuid hp

theorem symRefDeepEq_eq {va vb : IRV} {u u' : U} (h : symRefDeepEq va vb u u' = true) : u = u' := by
  unfold symRefDeepEq at h
  split at h
  · rename_i a b ha hb
    rw [← findSymbol_uuid ha, ← findSymbol_uuid hb, symbolDeepEq_eq h]
  · cases h

def canonExpr (e : ExprEntryV) : ExprEntryV := { e with attrs := sortNats e.attrs }

theorem canonInterval_exprs (x : IntervalV) : (canonInterval x).exprs =
    (sortBy (fun a b => decide (a.key ≤ b.key)) x.exprs).map canonExpr := rfl

theorem exprDeepEq_canon {va vb : IRV} {e e' : ExprEntryV} (hn : e.attrs.Nodup) (hn' : e'.attrs.Nodup)
    (h : exprDeepEq va vb e e' = true) : canonExpr e = canonExpr e' := by
  obtain ⟨k, x, at1⟩ := e; obtain ⟨k', x', at2⟩ := e'
  simp only [exprDeepEq, Bool.and_eq_true, beq_iff_eq] at h
  obtain ⟨⟨hk, hx⟩, ha⟩ := h
  have hat := sortNats_eq_of_sameSet hn hn' ha
  simp only [canonExpr, ExprEntryV.mk.injEq]
  refine ⟨hk, ?_, hat⟩
  cases x <;> cases x' <;> simp only [Bool.and_eq_true, beq_iff_eq] at hx
  · rw [hx.1, symRefDeepEq_eq hx.2]
  · cases hx
  · cases hx
  · obtain ⟨⟨⟨h1, h2⟩, h3⟩, h4⟩ := hx
    rw [h1, h2, symRefDeepEq_eq h3, symRefDeepEq_eq h4]

theorem intervalDeepEq_canon {va vb : IRV} {x y : IntervalV} (hx : DistinctInterval x)
    (hy : DistinctInterval y) (h : intervalDeepEq va vb x y = true) :
    canonInterval x = canonInterval y := by
  simp only [intervalDeepEq, Bool.and_eq_true, beq_iff_eq] at h
  obtain ⟨⟨⟨⟨⟨⟨⟨h1, h2⟩, h3⟩, h4⟩, _⟩, h6⟩, _⟩, h8⟩ := h
  have hb := eq_of_allZip h6 (fun a _ b _ => (blockDeepEq_iff a b).1)
  have he := map_eq_of_allZip (g := canonExpr) h8 (fun a ha b hb' hab =>
    exprDeepEq_canon (hx.2.2 a ((mem_sortBy _).1 ha)) (hy.2.2 b ((mem_sortBy _).1 hb')) hab)
  obtain ⟨xu, xa, xs, xc, xb, xe⟩ := x; obtain ⟨yu, ya, ys, yc, yb, ye⟩ := y
  simp only [canonInterval, IntervalV.mk.injEq]
  exact ⟨h1, h2, h4, h3, hb, he⟩

theorem sectionDeepEq_canon {va vb : IRV} {x y : SectionV} (hx : DistinctSection x)
    (hy : DistinctSection y) (h : sectionDeepEq va vb x y = true) :
    canonSection x = canonSection y := by
  simp only [sectionDeepEq, Bool.and_eq_true, beq_iff_eq] at h
  obtain ⟨⟨⟨⟨h1, h2⟩, _⟩, h4⟩, h5⟩ := h
  have hi := map_eq_of_allZip (g := canonInterval) h4 (fun a ha b hb hab =>
    intervalDeepEq_canon (hx.2.2 a ((mem_sortBy _).1 ha)) (hy.2.2 b ((mem_sortBy _).1 hb)) hab)
  have hf := sortNats_eq_of_sameSet hx.1 hy.1 h5
  obtain ⟨xu, xn, xf, xi⟩ := x; obtain ⟨yu, yn, yf, yi⟩ := y
  simp only [canonSection, SectionV.mk.injEq]
  exact ⟨h1, h2, hf, hi⟩

theorem moduleDeepEq_canon {va vb : IRV} {x y : ModuleV} (hx : DistinctModule x)
    (hy : DistinctModule y) (h : moduleDeepEq va vb x y = true) :
    canonModule x = canonModule y := by
  simp only [moduleDeepEq, Bool.and_eq_true, beq_iff_eq] at h
  obtain ⟨⟨⟨⟨⟨⟨⟨⟨⟨⟨⟨⟨⟨⟨⟨h1, h2⟩, h3⟩, h4⟩, h5⟩, h6⟩, h7⟩, h8⟩, h9⟩, _⟩, h11⟩, _⟩, h13⟩, _⟩, h15⟩, h16⟩ := h
  have hp := eq_of_allZip h11 (fun a _ b _ hab => by simpa using hab)
  have hs := map_eq_of_allZip (g := canonSection) h13 (fun a ha b hb hab =>
    sectionDeepEq_canon (hx.2.2.2.2 a ((mem_sortBy _).1 ha)) (hy.2.2.2.2 b ((mem_sortBy _).1 hb)) hab)
  have hy' := eq_of_allZip h15 (fun a _ b _ hab => symbolDeepEq_eq hab)
  have ha := canonAux_eq_of_sameKeys hx.2.2.2.1 hy.2.2.2.1 h2
  have hep : x.entryPoint = y.entryPoint := by
    revert h16
    cases x.entryPoint <;> cases y.entryPoint <;> simp
    exact refDeepEq_uuid
  obtain ⟨xu, xn, xbp, xpa, xrd, xff, xisa, xbo, xep, xpr, xse, xsy, xau⟩ := x
  obtain ⟨yu, yn, ybp, ypa, yrd, yff, yisa, ybo, yep, ypr, yse, ysy, yau⟩ := y
  simp only [canonModule, ModuleV.mk.injEq]
  exact ⟨h1, h7, h3, h8, h9, h6, h4, h5, hep, hp, hs, hy', ha⟩

theorem cfgDeepEq_edges {va vb : IRV} (h : cfgDeepEq va vb = true) :
    sortBy edgeLe va.edges = sortBy edgeLe vb.edges := by
  simp only [cfgDeepEq, Bool.and_eq_true, beq_iff_eq] at h
  refine eq_of_allZip h.2 (fun a _ b _ hab => ?_)
  simp only [Bool.and_eq_true, beq_iff_eq] at hab
  obtain ⟨⟨hl, hs⟩, hd⟩ := hab
  obtain ⟨as, ad, al⟩ := a; obtain ⟨bs, bd, bl⟩ := b
  simp only [EdgeV.mk.injEq]
  exact ⟨refDeepEq_uuid hs, refDeepEq_uuid hd, hl⟩

theorem deepEq_canon {a b : IRV} (hda : DistinctSiblings a) (hdb : DistinctSiblings b)
    (h : deepEq a b = true) : canon a = canon b := by
  simp only [deepEq, Bool.and_eq_true, beq_iff_eq] at h
  obtain ⟨⟨⟨⟨⟨h1, h2⟩, _⟩, h4⟩, h5⟩, h6⟩ := h
  have hm := map_eq_of_allZip (g := canonModule) h4 (fun x hx y hy hxy =>
    moduleDeepEq_canon (hda.2.2.2 x ((mem_sortBy _).1 hx)) (hdb.2.2.2 y ((mem_sortBy _).1 hy)) hxy)
  have he := cfgDeepEq_edges h6
  have ha := canonAux_eq_of_sameKeys hda.2.2.1 hdb.2.2.1 h2
  obtain ⟨au, av, am, ae, aa⟩ := a; obtain ⟨bu, bv, bm, be, ba⟩ := b
  simp only [canon, IRV.mk.injEq]
  exact ⟨h1, h5, hm, he, ha⟩

/-! ### what a reference denotes is determined by the canonical form -/

theorem mem_flatMap_canon {α β : Type} {le : α → α → Bool} {g : α → α} {f : α → List β}
    {l : List α} {x : β} (h : ∀ a ∈ l, (x ∈ f (g a) ↔ x ∈ f a)) :
    x ∈ ((sortBy le l).map g).flatMap f ↔ x ∈ l.flatMap f := by
  simp only [List.mem_flatMap, List.mem_map, mem_sortBy]
  constructor
  · rintro ⟨_, ⟨a, ha, rfl⟩, hx⟩; exact ⟨a, ha, (h a ha).1 hx⟩
  · rintro ⟨a, ha, hx⟩; exact ⟨_, ⟨a, ha, rfl⟩, (h a ha).2 hx⟩

theorem mem_canon_blocks {v : IRV} {x : BlockV} : x ∈ (canon v).blocks ↔ x ∈ v.blocks := by
  unfold IRV.blocks
  refine mem_flatMap_canon (fun m _ => ?_)
  refine mem_flatMap_canon (fun s _ => ?_)
  refine mem_flatMap_canon (fun i _ => ?_)
  exact mem_sortBy _

theorem mem_canon_proxies {v : IRV} {x : U} : x ∈ (canon v).proxies ↔ x ∈ v.proxies := by
  unfold IRV.proxies
  refine mem_flatMap_canon (fun m _ => ?_)
  exact mem_sortBy _

theorem mem_canon_symbols {v : IRV} {x : SymbolV} : x ∈ (canon v).symbols ↔ x ∈ v.symbols := by
  unfold IRV.symbols
  refine mem_flatMap_canon (fun m _ => ?_)
  exact mem_sortBy _

theorem find?_congr_of_mem_iff {α : Type} {p : α → Bool} {l1 l2 : List α} (h : ∀ x, x ∈ l1 ↔ x ∈ l2)
    (uniq : ∀ x ∈ l2, ∀ y ∈ l2, p x = true → p y = true → x = y) : l1.find? p = l2.find? p := by
  cases h1 : l1.find? p with
  | none =>
    rw [List.find?_eq_none] at h1
    symm; rw [List.find?_eq_none]
    intro x hx; exact h1 x ((h x).2 hx)
  | some x =>
    have hx := List.mem_of_find?_eq_some h1
    have px := List.find?_some h1
    cases h2 : l2.find? p with
    | none =>
      rw [List.find?_eq_none] at h2
      exact absurd px (h2 x ((h x).1 hx))
    | some y =>
      have hy := List.mem_of_find?_eq_some h2
      have py := List.find?_some h2
      rw [uniq x ((h x).1 hx) y hy px py]

/-- the same UUID denotes the same node in both IRs -/
structure Agree (a b : IRV) : Prop where
  block : ∀ u, a.findBlock u = b.findBlock u
  symbol : ∀ u, a.findSymbol u = b.findSymbol u

theorem agree_of_mem_iff {a b : IRV} (hsb : SelfContained b)
    (hb : ∀ x, x ∈ a.blocks ↔ x ∈ b.blocks) (hp : ∀ x, x ∈ a.proxies ↔ x ∈ b.proxies)
    (hs : ∀ x, x ∈ a.symbols ↔ x ∈ b.symbols) : Agree a b := by
  constructor
  · intro u
    have e1 : a.blocks.find? (·.uuid == u) = b.blocks.find? (·.uuid == u) :=
      find?_congr_of_mem_iff hb (fun x hx y hy px py =>
        inj_of_nodup_map hsb.1 x hx y hy (by simp only [beq_iff_eq] at px py; rw [px, py]))
    have e2 : (u ∈ a.proxies) = (u ∈ b.proxies) := propext (hp u)
    simp only [IRV.findBlock, e1, e2]
  · intro u
    exact find?_congr_of_mem_iff hs (fun x hx y hy px py =>
      inj_of_nodup_map hsb.2.1 x hx y hy (by simp only [beq_iff_eq] at px py; rw [px, py]))

theorem agree_of_canon {a b : IRV} (hsb : SelfContained b) (h : canon a = canon b) : Agree a b :=
  agree_of_mem_iff hsb
    (fun x => by rw [← mem_canon_blocks, h, mem_canon_blocks])
    (fun x => by rw [← mem_canon_proxies, h, mem_canon_proxies])
    (fun x => by rw [← mem_canon_symbols, h, mem_canon_symbols])

theorem agree_refl (a : IRV) : Agree a a := ⟨fun _ => rfl, fun _ => rfl⟩

/-! ### `canon a = canon b → deepEq a b = true` -/

theorem refDeepEq_self {a b : IRV} {u : U} (ag : Agree a b) (h : (a.findBlock u).isSome = true) :
    refDeepEq (a.findBlock u) (b.findBlock u) = true :=
  (refDeepEq_iff _ _).2 ⟨ag.block u, h⟩

theorem symbolDeepEq_self {a b : IRV} {s : SymbolV} (ag : Agree a b) (h : SymbolOk a s) :
    symbolDeepEq a b s s = true := by
  obtain ⟨u, n, p, e⟩ := s
  simp only [symbolDeepEq, Bool.and_eq_true, beq_self_eq_true, and_true]
  cases p with
  | none => rfl
  | value n => simp
  | referent r => exact refDeepEq_self ag (h r (by simp [PayloadV.refs]))

theorem symbols_ok {a : IRV} (hsa : SelfContained a) : ∀ s ∈ a.symbols, SymbolOk a s := by
  intro s hs
  obtain ⟨m, hm, hs⟩ := List.mem_flatMap.1 hs
  exact (hsa.2.2.1 m hm).2.1 s hs

theorem symRefDeepEq_self {a b : IRV} {u : U} (ag : Agree a b) (hs : ∀ s ∈ a.symbols, SymbolOk a s)
    (h : (a.findSymbol u).isSome = true) : symRefDeepEq a b u u = true := by
  obtain ⟨s, hsu⟩ := Option.isSome_iff_exists.1 h
  have hsb : b.findSymbol u = some s := by rw [← ag.symbol u]; exact hsu
  simp only [symRefDeepEq, hsu, hsb]
  exact symbolDeepEq_self ag (hs s (List.mem_of_find?_eq_some hsu))

theorem exprDeepEq_of_canon {a b : IRV} {e e' : ExprEntryV} (ag : Agree a b)
    (hs : ∀ s ∈ a.symbols, SymbolOk a s) (he : ExprOk a e) (h : canonExpr e = canonExpr e') :
    exprDeepEq a b e e' = true := by
  obtain ⟨k, x, at1⟩ := e; obtain ⟨k', x', at2⟩ := e'
  simp only [canonExpr, ExprEntryV.mk.injEq] at h
  obtain ⟨rfl, rfl, hat⟩ := h
  simp only [exprDeepEq, Bool.and_eq_true, beq_self_eq_true, true_and]
  refine ⟨?_, sameSet_of_sortNats_eq hat⟩
  cases x with
  | addrConst o s =>
    simp only [Bool.and_eq_true, beq_self_eq_true, true_and]
    exact symRefDeepEq_self ag hs (he s (by simp [SymExprV.syms]))
  | addrAddr c o s1 s2 =>
    simp only [Bool.and_eq_true, beq_self_eq_true, true_and]
    exact ⟨symRefDeepEq_self ag hs (he s1 (by simp [SymExprV.syms])),
      symRefDeepEq_self ag hs (he s2 (by simp [SymExprV.syms]))⟩

theorem intervalDeepEq_of_canon {a b : IRV} {x y : IntervalV} (ag : Agree a b)
    (hs : ∀ s ∈ a.symbols, SymbolOk a s) (hx : IntervalOk a x)
    (h : canonInterval x = canonInterval y) : intervalDeepEq a b x y = true := by
  have h1 : x.uuid = y.uuid := by have := congrArg IntervalV.uuid h; exact this
  have h2 : x.addr = y.addr := by have := congrArg IntervalV.addr h; exact this
  have h3 : x.size = y.size := by have := congrArg IntervalV.size h; exact this
  have h4 : x.contents = y.contents := by have := congrArg IntervalV.contents h; exact this
  have h5 : sortBy (fun a b => bytesLe a.uuid b.uuid) x.blocks
      = sortBy (fun a b => bytesLe a.uuid b.uuid) y.blocks := congrArg IntervalV.blocks h
  have h6 : (sortBy (fun a b => decide (a.key ≤ b.key)) x.exprs).map canonExpr
      = (sortBy (fun a b => decide (a.key ≤ b.key)) y.exprs).map canonExpr := congrArg IntervalV.exprs h
  have l5 : x.blocks.length = y.blocks.length := by
    have := congrArg List.length h5; simpa only [length_sortBy] using this
  have l6 : x.exprs.length = y.exprs.length := by
    have := congrArg List.length h6; simpa only [List.length_map, length_sortBy] using this
  simp only [intervalDeepEq, Bool.and_eq_true, beq_iff_eq]
  refine ⟨⟨⟨⟨⟨⟨⟨h1, h2⟩, h4⟩, h3⟩, l5⟩, ?_⟩, l6⟩, ?_⟩
  · rw [h5]; exact allZip_self (fun b _ => (blockDeepEq_iff b b).2 rfl)
  · exact allZip_of_map_eq h6 (fun e he e' _ hee =>
      exprDeepEq_of_canon ag hs (hx e ((mem_sortBy _).1 he)) hee)

theorem sectionDeepEq_of_canon {a b : IRV} {x y : SectionV} (ag : Agree a b)
    (hs : ∀ s ∈ a.symbols, SymbolOk a s) (hx : SectionOk a x)
    (h : canonSection x = canonSection y) : sectionDeepEq a b x y = true := by
  have h1 : x.uuid = y.uuid := by have := congrArg SectionV.uuid h; exact this
  have h2 : x.name = y.name := by have := congrArg SectionV.name h; exact this
  have h3 : sortNats x.flags = sortNats y.flags := congrArg SectionV.flags h
  have h4 : (sortBy (fun a b => bytesLe a.uuid b.uuid) x.intervals).map canonInterval
      = (sortBy (fun a b => bytesLe a.uuid b.uuid) y.intervals).map canonInterval :=
    congrArg SectionV.intervals h
  have l4 : x.intervals.length = y.intervals.length := by
    have := congrArg List.length h4; simpa only [List.length_map, length_sortBy] using this
  simp only [sectionDeepEq, Bool.and_eq_true, beq_iff_eq]
  refine ⟨⟨⟨⟨h1, h2⟩, l4⟩, ?_⟩, sameSet_of_sortNats_eq h3⟩
  exact allZip_of_map_eq h4 (fun i hi i' _ hii =>
    intervalDeepEq_of_canon ag hs (hx i ((mem_sortBy _).1 hi)) hii)

theorem moduleDeepEq_of_canon {a b : IRV} {x y : ModuleV} (ag : Agree a b)
    (hs : ∀ s ∈ a.symbols, SymbolOk a s) (hx : ModuleOk a x)
    (h : canonModule x = canonModule y) : moduleDeepEq a b x y = true := by
  have h1 : x.uuid = y.uuid := by have := congrArg ModuleV.uuid h; exact this
  have h2 : x.name = y.name := by have := congrArg ModuleV.name h; exact this
  have h3 : x.binaryPath = y.binaryPath := by have := congrArg ModuleV.binaryPath h; exact this
  have h4 : x.preferredAddr = y.preferredAddr := by have := congrArg ModuleV.preferredAddr h; exact this
  have h5 : x.rebaseDelta = y.rebaseDelta := by have := congrArg ModuleV.rebaseDelta h; exact this
  have h6 : x.fileFormat = y.fileFormat := by have := congrArg ModuleV.fileFormat h; exact this
  have h7 : x.isa = y.isa := by have := congrArg ModuleV.isa h; exact this
  have h8 : x.byteOrder = y.byteOrder := by have := congrArg ModuleV.byteOrder h; exact this
  have h9 : x.entryPoint = y.entryPoint := by have := congrArg ModuleV.entryPoint h; exact this
  have h10 : sortBy bytesLe x.proxies = sortBy bytesLe y.proxies := congrArg ModuleV.proxies h
  have h11 : (sortBy (fun a b => bytesLe a.uuid b.uuid) x.sections).map canonSection
      = (sortBy (fun a b => bytesLe a.uuid b.uuid) y.sections).map canonSection :=
    congrArg ModuleV.sections h
  have h12 : sortBy (fun a b => bytesLe a.uuid b.uuid) x.symbols
      = sortBy (fun a b => bytesLe a.uuid b.uuid) y.symbols := congrArg ModuleV.symbols h
  have h13 : canonAux x.aux = canonAux y.aux := congrArg ModuleV.aux h
  have l10 : x.proxies.length = y.proxies.length := by
    have := congrArg List.length h10; simpa only [length_sortBy] using this
  have l11 : x.sections.length = y.sections.length := by
    have := congrArg List.length h11; simpa only [List.length_map, length_sortBy] using this
  have l12 : x.symbols.length = y.symbols.length := by
    have := congrArg List.length h12; simpa only [length_sortBy] using this
  simp only [moduleDeepEq, Bool.and_eq_true, beq_iff_eq]
  refine ⟨⟨⟨⟨⟨⟨⟨⟨⟨⟨⟨⟨⟨⟨⟨h1, sameKeys_of_canonAux_eq h13⟩, h3⟩, h7⟩, h8⟩, h6⟩, h2⟩, h4⟩, h5⟩, l10⟩, ?_⟩,
    l11⟩, ?_⟩, l12⟩, ?_⟩, ?_⟩
  · rw [h10]; exact allZip_self (fun u _ => by simp)
  · exact allZip_of_map_eq h11 (fun s hs' s' _ hss =>
      sectionDeepEq_of_canon ag hs (hx.1 s ((mem_sortBy _).1 hs')) hss)
  · rw [← h12]
    exact allZip_self (fun s hs' => symbolDeepEq_self ag (hx.2.1 s ((mem_sortBy _).1 hs')))
  · rw [← h9]
    cases hep : x.entryPoint with
    | none => rfl
    | some u => exact refDeepEq_self ag (hx.2.2 u (by simp [hep]))

theorem cfgDeepEq_of_edges {a b : IRV} (ag : Agree a b)
    (ha : ∀ e ∈ a.edges, (a.findBlock e.src).isSome = true ∧ (a.findBlock e.dst).isSome = true)
    (h : sortBy edgeLe a.edges = sortBy edgeLe b.edges) : cfgDeepEq a b = true := by
  have l : a.edges.length = b.edges.length := by
    have := congrArg List.length h; simpa only [length_sortBy] using this
  simp only [cfgDeepEq, Bool.and_eq_true, beq_iff_eq]
  refine ⟨l, ?_⟩
  rw [← h]
  refine allZip_self (fun e he => ?_)
  have := ha e ((mem_sortBy _).1 he)
  simp only [Bool.and_eq_true, beq_self_eq_true, true_and]
  exact ⟨refDeepEq_self ag this.1, refDeepEq_self ag this.2⟩

theorem deepEq_of_canon_agree {a b : IRV} (ag : Agree a b) (hsa : SelfContained a)
    (h : canon a = canon b) : deepEq a b = true := by
  have hs := symbols_ok hsa
  have h1 : a.uuid = b.uuid := by have := congrArg IRV.uuid h; exact this
  have h2 : a.version = b.version := by have := congrArg IRV.version h; exact this
  have h3 : (sortBy (fun a b => bytesLe a.uuid b.uuid) a.modules).map canonModule
      = (sortBy (fun a b => bytesLe a.uuid b.uuid) b.modules).map canonModule := congrArg IRV.modules h
  have h4 : sortBy edgeLe a.edges = sortBy edgeLe b.edges := congrArg IRV.edges h
  have h5 : canonAux a.aux = canonAux b.aux := congrArg IRV.aux h
  have l3 : a.modules.length = b.modules.length := by
    have := congrArg List.length h3; simpa only [List.length_map, length_sortBy] using this
  simp only [deepEq, Bool.and_eq_true, beq_iff_eq]
  refine ⟨⟨⟨⟨⟨h1, sameKeys_of_canonAux_eq h5⟩, l3⟩, ?_⟩, h2⟩, cfgDeepEq_of_edges ag hsa.2.2.2 h4⟩
  exact allZip_of_map_eq h3 (fun m hm m' _ hmm =>
    moduleDeepEq_of_canon ag hs (hsa.2.2.1 m ((mem_sortBy _).1 hm)) hmm)

theorem deepEq_of_canon {a b : IRV} (hsa : SelfContained a) (hsb : SelfContained b)
    (h : canon a = canon b) : deepEq a b = true :=
  deepEq_of_canon_agree (agree_of_canon hsb h) hsa h

/-! ### symmetry (no hypotheses) -/

theorem blockDeepEq_comm (x y : BlockV) : blockDeepEq x y = blockDeepEq y x :=
  Bool.eq_iff_iff.2 (by rw [blockDeepEq_iff, blockDeepEq_iff]; exact eq_comm)

theorem refDeepEq_comm (x y : Option RefNode) : refDeepEq x y = refDeepEq y x := by
  apply Bool.eq_iff_iff.2
  rw [refDeepEq_iff, refDeepEq_iff]
  constructor
  · rintro ⟨rfl, h⟩; exact ⟨rfl, h⟩
  · rintro ⟨rfl, h⟩; exact ⟨rfl, h⟩

theorem sameSet_comm (a b : List Nat) : sameSet a b = sameSet b a := Bool.and_comm _ _
theorem sameKeys_comm (a b : List AuxV) : sameKeys a b = sameKeys b a := Bool.and_comm _ _

theorem symbolDeepEq_comm (va vb : IRV) (a b : SymbolV) :
    symbolDeepEq va vb a b = symbolDeepEq vb va b a := by
  unfold symbolDeepEq
  rw [Bool.beq_comm (a := a.name), Bool.beq_comm (a := a.atEnd), Bool.beq_comm (a := a.uuid)]
  congr 3
  cases a.payload <;> cases b.payload <;> simp only
  · exact Bool.beq_comm
  · exact refDeepEq_comm _ _

theorem symRefDeepEq_comm (va vb : IRV) (u u' : U) :
    symRefDeepEq va vb u u' = symRefDeepEq vb va u' u := by
  unfold symRefDeepEq
  cases va.findSymbol u <;> cases vb.findSymbol u' <;> simp only
  exact symbolDeepEq_comm _ _ _ _

theorem exprDeepEq_comm (va vb : IRV) (a b : ExprEntryV) :
    exprDeepEq va vb a b = exprDeepEq vb va b a := by
  unfold exprDeepEq
  rw [Bool.beq_comm (a := a.key), sameSet_comm a.attrs]
  congr 2
  cases a.expr <;> cases b.expr <;> simp only
  · rw [symRefDeepEq_comm va vb, Bool.beq_comm]
  · rename_i c o s1 s2 c' o' s1' s2'
    rw [symRefDeepEq_comm va vb s1, symRefDeepEq_comm va vb s2, Bool.beq_comm (a := c),
      Bool.beq_comm (a := o)]

theorem intervalDeepEq_comm (va vb : IRV) (a b : IntervalV) :
    intervalDeepEq va vb a b = intervalDeepEq vb va b a := by
  unfold intervalDeepEq
  rw [allZip_comm (g := blockDeepEq) blockDeepEq_comm,
    allZip_comm (g := exprDeepEq vb va) (exprDeepEq_comm va vb),
    Bool.beq_comm (a := a.uuid), Bool.beq_comm (a := a.addr), Bool.beq_comm (a := a.contents),
    Bool.beq_comm (a := a.size), Bool.beq_comm (a := a.blocks.length),
    Bool.beq_comm (a := a.exprs.length)]

theorem sectionDeepEq_comm (va vb : IRV) (a b : SectionV) :
    sectionDeepEq va vb a b = sectionDeepEq vb va b a := by
  unfold sectionDeepEq
  rw [allZip_comm (g := intervalDeepEq vb va) (intervalDeepEq_comm va vb),
    Bool.beq_comm (a := a.uuid), Bool.beq_comm (a := a.name),
    Bool.beq_comm (a := a.intervals.length), sameSet_comm a.flags]

theorem moduleDeepEq_comm (va vb : IRV) (a b : ModuleV) :
    moduleDeepEq va vb a b = moduleDeepEq vb va b a := by
  unfold moduleDeepEq
  rw [allZip_comm (f := fun x y : U => x == y) (g := fun x y : U => x == y) (fun x y => Bool.beq_comm),
    allZip_comm (g := sectionDeepEq vb va) (sectionDeepEq_comm va vb),
    allZip_comm (g := symbolDeepEq vb va) (symbolDeepEq_comm va vb),
    Bool.beq_comm (a := a.uuid), sameKeys_comm a.aux, Bool.beq_comm (a := a.binaryPath),
    Bool.beq_comm (a := a.isa), Bool.beq_comm (a := a.byteOrder), Bool.beq_comm (a := a.fileFormat),
    Bool.beq_comm (a := a.name), Bool.beq_comm (a := a.preferredAddr),
    Bool.beq_comm (a := a.rebaseDelta), Bool.beq_comm (a := a.proxies.length),
    Bool.beq_comm (a := a.sections.length), Bool.beq_comm (a := a.symbols.length)]
  congr 1
  cases a.entryPoint <;> cases b.entryPoint <;> simp only
  exact refDeepEq_comm _ _

theorem cfgDeepEq_comm (va vb : IRV) : cfgDeepEq va vb = cfgDeepEq vb va := by
  unfold cfgDeepEq
  rw [Bool.beq_comm (a := va.edges.length)]
  congr 1
  apply allZip_comm
  intro x y
  rw [Bool.beq_comm (a := x.label), refDeepEq_comm (va.findBlock x.src),
    refDeepEq_comm (va.findBlock x.dst)]

theorem deepEq_comm (a b : IRV) : deepEq a b = deepEq b a := by
  unfold deepEq
  rw [allZip_comm (g := moduleDeepEq b a) (moduleDeepEq_comm a b), cfgDeepEq_comm a b,
    Bool.beq_comm (a := a.uuid), sameKeys_comm a.aux, Bool.beq_comm (a := a.modules.length),
    Bool.beq_comm (a := a.version)]

/-! ### corresponding nodes (same UUID / key) have equal canonical forms -/

theorem corr_of_map_sortBy_eq {α β κ : Type} {g : α → β} {k : α → κ} {k' : β → κ}
    {le le' : α → α → Bool} {l l' : List α} {x y : α} (hk : ∀ x, k' (g x) = k x)
    (h : (sortBy le l).map g = (sortBy le' l').map g) (hn : (l'.map k).Nodup)
    (hx : x ∈ l) (hy : y ∈ l') (hxy : k x = k y) : g x = g y := by
  have hm : g x ∈ (sortBy le' l').map g := h ▸ List.mem_map.2 ⟨x, (mem_sortBy _).2 hx, rfl⟩
  obtain ⟨y', hy', e⟩ := List.mem_map.1 hm
  have hy'' := (mem_sortBy _).1 hy'
  have : y' = y := inj_of_nodup_map hn y' hy'' y hy (by rw [← hk y', e, hk x, hxy])
  rw [← e, this]

theorem exists_of_map_sortBy_eq {α β : Type} {g : α → β} {le le' : α → α → Bool} {l l' : List α}
    {x : α} (h : (sortBy le l).map g = (sortBy le' l').map g) (hx : x ∈ l) :
    ∃ y ∈ l', g y = g x := by
  have hm : g x ∈ (sortBy le' l').map g := h ▸ List.mem_map.2 ⟨x, (mem_sortBy _).2 hx, rfl⟩
  obtain ⟨y', hy', e⟩ := List.mem_map.1 hm
  exact ⟨y', (mem_sortBy _).1 hy', e⟩

theorem mem_iff_of_sortBy_eq {α : Type} {le le' : α → α → Bool} {l l' : List α}
    (h : sortBy le l = sortBy le' l') (x : α) : x ∈ l ↔ x ∈ l' := by
  rw [← mem_sortBy le, h, mem_sortBy]

theorem module_corr {a b : IRV} (h : canon a = canon b) (hn : (b.modules.map (·.uuid)).Nodup)
    {m m' : ModuleV} (hm : m ∈ a.modules) (hm' : m' ∈ b.modules) (hu : m.uuid = m'.uuid) :
    canonModule m = canonModule m' := by
  have h3 : (sortBy (fun a b => bytesLe a.uuid b.uuid) a.modules).map canonModule
      = (sortBy (fun a b => bytesLe a.uuid b.uuid) b.modules).map canonModule := congrArg IRV.modules h
  exact corr_of_map_sortBy_eq (k := (·.uuid)) (k' := (·.uuid)) (fun _ => rfl) h3 hn hm hm' hu

theorem section_corr {m m' : ModuleV} (h : canonModule m = canonModule m')
    (hn : (m'.sections.map (·.uuid)).Nodup) {s s' : SectionV} (hs : s ∈ m.sections)
    (hs' : s' ∈ m'.sections) (hu : s.uuid = s'.uuid) : canonSection s = canonSection s' := by
  have h3 : (sortBy (fun a b => bytesLe a.uuid b.uuid) m.sections).map canonSection
      = (sortBy (fun a b => bytesLe a.uuid b.uuid) m'.sections).map canonSection :=
    congrArg ModuleV.sections h
  exact corr_of_map_sortBy_eq (k := (·.uuid)) (k' := (·.uuid)) (fun _ => rfl) h3 hn hs hs' hu

theorem interval_corr {s s' : SectionV} (h : canonSection s = canonSection s')
    (hn : (s'.intervals.map (·.uuid)).Nodup) {i i' : IntervalV} (hi : i ∈ s.intervals)
    (hi' : i' ∈ s'.intervals) (hu : i.uuid = i'.uuid) : canonInterval i = canonInterval i' := by
  have h3 : (sortBy (fun a b => bytesLe a.uuid b.uuid) s.intervals).map canonInterval
      = (sortBy (fun a b => bytesLe a.uuid b.uuid) s'.intervals).map canonInterval :=
    congrArg SectionV.intervals h
  exact corr_of_map_sortBy_eq (k := (·.uuid)) (k' := (·.uuid)) (fun _ => rfl) h3 hn hi hi' hu

theorem expr_corr {i i' : IntervalV} (h : canonInterval i = canonInterval i')
    (hn : (i'.exprs.map (·.key)).Nodup) {e e' : ExprEntryV} (he : e ∈ i.exprs)
    (he' : e' ∈ i'.exprs) (hk : e.key = e'.key) : canonExpr e = canonExpr e' := by
  have h3 : (sortBy (fun a b => decide (a.key ≤ b.key)) i.exprs).map canonExpr
      = (sortBy (fun a b => decide (a.key ≤ b.key)) i'.exprs).map canonExpr :=
    congrArg IntervalV.exprs h
  exact corr_of_map_sortBy_eq (k := (·.key)) (k' := (·.key)) (fun _ => rfl) h3 hn he he' hk

/-- a path from the IR down to a module, the same UUID on both sides -/
structure ModPath (a b : IRV) (m m' : ModuleV) : Prop where
  mem : m ∈ a.modules
  mem' : m' ∈ b.modules
  uuid : m.uuid = m'.uuid

structure SecPath (a b : IRV) (s s' : SectionV) : Prop where
  mod : ∃ m m', ModPath a b m m' ∧ s ∈ m.sections ∧ s' ∈ m'.sections
  uuid : s.uuid = s'.uuid

structure IntPath (a b : IRV) (i i' : IntervalV) : Prop where
  sec : ∃ s s', SecPath a b s s' ∧ i ∈ s.intervals ∧ i' ∈ s'.intervals
  uuid : i.uuid = i'.uuid

theorem deepEq_module_corr {a b : IRV} (hda : DistinctSiblings a) (hdb : DistinctSiblings b)
    (hd : deepEq a b = true) {m m' : ModuleV} (p : ModPath a b m m') :
    canonModule m = canonModule m' ∧ DistinctModule m' :=
  ⟨module_corr (deepEq_canon hda hdb hd) hdb.1 p.mem p.mem' p.uuid, hdb.2.2.2 m' p.mem'⟩

theorem deepEq_section_corr {a b : IRV} (hda : DistinctSiblings a) (hdb : DistinctSiblings b)
    (hd : deepEq a b = true) {s s' : SectionV} (p : SecPath a b s s') :
    canonSection s = canonSection s' ∧ DistinctSection s' := by
  obtain ⟨m, m', pm, hs, hs'⟩ := p.mod
  obtain ⟨hc, hdm⟩ := deepEq_module_corr hda hdb hd pm
  exact ⟨section_corr hc hdm.2.1 hs hs' p.uuid, hdm.2.2.2.2 s' hs'⟩

theorem deepEq_interval_corr {a b : IRV} (hda : DistinctSiblings a) (hdb : DistinctSiblings b)
    (hd : deepEq a b = true) {i i' : IntervalV} (p : IntPath a b i i') :
    canonInterval i = canonInterval i' ∧ DistinctInterval i' := by
  obtain ⟨s, s', ps, hi, hi'⟩ := p.sec
  obtain ⟨hc, hds⟩ := deepEq_section_corr hda hdb hd ps
  exact ⟨interval_corr hc hds.2.1 hi hi' p.uuid, hds.2.2 i' hi'⟩

theorem deepEq_expr_corr {a b : IRV} (hda : DistinctSiblings a) (hdb : DistinctSiblings b)
    (hd : deepEq a b = true) {i i' : IntervalV} (p : IntPath a b i i') {e e' : ExprEntryV}
    (he : e ∈ i.exprs) (he' : e' ∈ i'.exprs) (hk : e.key = e'.key) : canonExpr e = canonExpr e' := by
  obtain ⟨hc, hdi⟩ := deepEq_interval_corr hda hdb hd p
  exact expr_corr hc hdi.2.1 he he' hk

theorem deepEq_mem_blocks {a b : IRV} (hda : DistinctSiblings a) (hdb : DistinctSiblings b)
    (hd : deepEq a b = true) (x : BlockV) : x ∈ a.blocks ↔ x ∈ b.blocks := by
  rw [← mem_canon_blocks, deepEq_canon hda hdb hd, mem_canon_blocks]

theorem deepEq_mem_symbols {a b : IRV} (hda : DistinctSiblings a) (hdb : DistinctSiblings b)
    (hd : deepEq a b = true) (x : SymbolV) : x ∈ a.symbols ↔ x ∈ b.symbols := by
  rw [← mem_canon_symbols, deepEq_canon hda hdb hd, mem_canon_symbols]

theorem deepEq_mem_proxies {a b : IRV} (hda : DistinctSiblings a) (hdb : DistinctSiblings b)
    (hd : deepEq a b = true) (x : U) : x ∈ a.proxies ↔ x ∈ b.proxies := by
  rw [← mem_canon_proxies, deepEq_canon hda hdb hd, mem_canon_proxies]

theorem deepEq_mem_edges {a b : IRV} (hd : deepEq a b = true) (x : EdgeV) :
    x ∈ a.edges ↔ x ∈ b.edges := by
  simp only [deepEq, Bool.and_eq_true] at hd
  exact mem_iff_of_sortBy_eq (cfgDeepEq_edges hd.2) x

/-! ### sorting commutes with key-preserving maps; permutations -/

theorem map_insertBy {α β : Type} {g : α → β} {le : α → α → Bool} {le' : β → β → Bool}
    (h : ∀ x y, le x y = le' (g x) (g y)) (x : α) (l : List α) :
    (insertBy le x l).map g = insertBy le' (g x) (l.map g) := by
  induction l with
  | nil => rfl
  | cons y ys ih =>
    simp only [insertBy, List.map_cons, h x y]
    split
    · rfl
    · rw [List.map_cons, ih]

theorem map_sortBy {α β : Type} {g : α → β} {le : α → α → Bool} {le' : β → β → Bool}
    (h : ∀ x y, le x y = le' (g x) (g y)) (l : List α) :
    (sortBy le l).map g = sortBy le' (l.map g) := by
  induction l with
  | nil => rfl
  | cons x xs ih => rw [sortBy_cons, map_insertBy h, ih, List.map_cons, sortBy_cons]

theorem sortBy_uuid_perm {α : Type} {k : α → U} {l1 l2 : List α} (hp : l1.Perm l2)
    (hn : (l1.map k).Nodup) :
    sortBy (fun x y => bytesLe (k x) (k y)) l1 = sortBy (fun x y => bytesLe (k x) (k y)) l2 :=
  sortBy_key_eq_of_perm bytesLe_total bytesLe_trans bytesLe_antisymm hp hn

theorem sortBy_bytes_perm {l1 l2 : List U} (hp : l1.Perm l2) : sortBy bytesLe l1 = sortBy bytesLe l2 :=
  sortBy_eq_of_perm bytesLe_total bytesLe_trans hp (fun a _ b _ => bytesLe_antisymm a b)

theorem sortBy_edge_perm {l1 l2 : List EdgeV} (hp : l1.Perm l2) : sortBy edgeLe l1 = sortBy edgeLe l2 :=
  sortBy_eq_of_perm edgeLe_total edgeLe_trans hp (fun a _ b _ => edgeLe_antisymm a b)

theorem sortBy_key_perm {l1 l2 : List ExprEntryV} (hp : l1.Perm l2) (hn : (l1.map (·.key)).Nodup) :
    sortBy (fun x y => decide (x.key ≤ y.key)) l1 = sortBy (fun x y => decide (x.key ≤ y.key)) l2 :=
  sortBy_key_eq_of_perm (le' := fun a b : Nat => decide (a ≤ b))
    (by intro x y; simp only [decide_eq_true_eq]; omega)
    (by intro x y z; simp only [decide_eq_true_eq]; omega)
    (by intro x y; simp only [decide_eq_true_eq]; omega) hp hn

theorem sortNats_perm {l1 l2 : List Nat} (hp : l1.Perm l2) : sortNats l1 = sortNats l2 := by
  rw [sortNats_eq, sortNats_eq]
  refine sortBy_eq_of_perm ?_ ?_ hp ?_
  · intro x y; simp only [decide_eq_true_eq]; omega
  · intro x y z; simp only [decide_eq_true_eq]; omega
  · intro x _ y _; simp only [decide_eq_true_eq]; omega

theorem canonAux_perm {l1 l2 : List AuxV} (hp : l1.Perm l2) : canonAux l1 = canonAux l2 := by
  rw [canonAux_inj, sortStrs_eq, sortStrs_eq]
  refine sortBy_eq_of_perm ?_ ?_ (hp.map _) ?_
  · intro x y; simp only [decide_eq_true_eq]; exact String.le_total x y
  · intro x y z; simp only [decide_eq_true_eq]; exact String.le_trans
  · intro x _ y _; simp only [decide_eq_true_eq]; exact String.le_antisymm

theorem canonAux_keys {l1 l2 : List AuxV} (h : l1.map (·.key) = l2.map (·.key)) :
    canonAux l1 = canonAux l2 := by
  rw [canonAux_inj, h]

/-! ### existence of the counterpart (containment tree) -/

theorem module_exists {a b : IRV} (h : canon a = canon b) {m : ModuleV} (hm : m ∈ a.modules) :
    ∃ m' ∈ b.modules, canonModule m' = canonModule m := by
  have h3 : (sortBy (fun a b => bytesLe a.uuid b.uuid) a.modules).map canonModule
      = (sortBy (fun a b => bytesLe a.uuid b.uuid) b.modules).map canonModule := congrArg IRV.modules h
  exact exists_of_map_sortBy_eq h3 hm

theorem section_exists {m m' : ModuleV} (h : canonModule m = canonModule m') {s : SectionV}
    (hs : s ∈ m.sections) : ∃ s' ∈ m'.sections, canonSection s' = canonSection s := by
  have h3 : (sortBy (fun a b => bytesLe a.uuid b.uuid) m.sections).map canonSection
      = (sortBy (fun a b => bytesLe a.uuid b.uuid) m'.sections).map canonSection :=
    congrArg ModuleV.sections h
  exact exists_of_map_sortBy_eq h3 hs

theorem interval_exists {s s' : SectionV} (h : canonSection s = canonSection s') {i : IntervalV}
    (hi : i ∈ s.intervals) : ∃ i' ∈ s'.intervals, canonInterval i' = canonInterval i := by
  have h3 : (sortBy (fun a b => bytesLe a.uuid b.uuid) s.intervals).map canonInterval
      = (sortBy (fun a b => bytesLe a.uuid b.uuid) s'.intervals).map canonInterval :=
    congrArg SectionV.intervals h
  exact exists_of_map_sortBy_eq h3 hi

theorem expr_exists {i i' : IntervalV} (h : canonInterval i = canonInterval i') {e : ExprEntryV}
    (he : e ∈ i.exprs) : ∃ e' ∈ i'.exprs, canonExpr e' = canonExpr e := by
  have h3 : (sortBy (fun a b => decide (a.key ≤ b.key)) i.exprs).map canonExpr
      = (sortBy (fun a b => decide (a.key ≤ b.key)) i'.exprs).map canonExpr :=
    congrArg IntervalV.exprs h
  exact exists_of_map_sortBy_eq h3 he

def BlockV.offset : BlockV → Nat
  | .code _ o _ _ => o
  | .data _ o _ => o

def BlockV.size : BlockV → Nat
  | .code _ _ z _ => z
  | .data _ _ z => z

/-- `none` for a data block -/
def BlockV.decodeMode? : BlockV → Option Nat
  | .code _ _ _ d => some d
  | .data _ _ _ => none

/-! ### AuxData values are not compared -/

/-- replace the AuxData tables of the IR and of every module -/
def reAux (a : IRV) (fi : List AuxV) (fm : ModuleV → List AuxV) : IRV :=
  { a with aux := fi, modules := a.modules.map fun m => { m with aux := fm m } }

theorem reAux_blocks (a : IRV) (fi : List AuxV) (fm : ModuleV → List AuxV) :
    (reAux a fi fm).blocks = a.blocks := by
  simp only [reAux, IRV.blocks, List.flatMap_map]

theorem reAux_proxies (a : IRV) (fi : List AuxV) (fm : ModuleV → List AuxV) :
    (reAux a fi fm).proxies = a.proxies := by
  simp only [reAux, IRV.proxies, List.flatMap_map]

theorem reAux_symbols (a : IRV) (fi : List AuxV) (fm : ModuleV → List AuxV) :
    (reAux a fi fm).symbols = a.symbols := by
  simp only [reAux, IRV.symbols, List.flatMap_map]

theorem agree_reAux (a : IRV) (fi : List AuxV) (fm : ModuleV → List AuxV) :
    Agree a (reAux a fi fm) := by
  constructor
  · intro u; simp only [IRV.findBlock, reAux_blocks, reAux_proxies]
  · intro u; simp only [IRV.findSymbol, reAux_symbols]

theorem canon_reAux (a : IRV) (fi : List AuxV) (fm : ModuleV → List AuxV)
    (hi : fi.map (·.key) = a.aux.map (·.key))
    (hm : ∀ m ∈ a.modules, (fm m).map (·.key) = m.aux.map (·.key)) :
    canon a = canon (reAux a fi fm) := by
  have hmod : (sortBy (fun a b => bytesLe a.uuid b.uuid)
        (a.modules.map fun m => { m with aux := fm m })).map canonModule
      = (sortBy (fun a b => bytesLe a.uuid b.uuid) a.modules).map canonModule := by
    have e := map_sortBy (g := fun m : ModuleV => { m with aux := fm m })
      (le := fun a b => bytesLe a.uuid b.uuid) (le' := fun a b => bytesLe a.uuid b.uuid)
      (fun _ _ => rfl) a.modules
    rw [← e, List.map_map]
    refine List.map_congr_left (fun m hm' => ?_)
    have := canonAux_keys (hm m ((mem_sortBy _).1 hm'))
    simp only [Function.comp, canonModule, this]
  simp only [canon, reAux, hmod, canonAux_keys hi]

theorem deepEq_reAux (a : IRV) (hs : SelfContained a) (fi : List AuxV) (fm : ModuleV → List AuxV)
    (hi : fi.map (·.key) = a.aux.map (·.key))
    (hm : ∀ m ∈ a.modules, (fm m).map (·.key) = m.aux.map (·.key)) :
    deepEq a (reAux a fi fm) = true :=
  deepEq_of_canon_agree (agree_reAux a fi fm) hs (canon_reAux a fi fm hi hm)

end Gtirb.Msg
