import GtirbModel.SymExpr
/-! Helper lemmas for C13: the sorted association-list store of
`ByteInterval.symbolic_expressions` behaves like a dict. -/
namespace Gtirb.SymExpr
open Gtirb.Index (Rng)

/-! ### the invariant -/

theorem sorted_iff_pairwise (s : Store) : Sorted s ↔ s.Pairwise (fun a b => a.1 < b.1) := by
  induction s with
  | nil => simp [Sorted]
  | cons a t ih =>
    cases t with
    | nil => simp [Sorted]
    | cons b t =>
      rw [Sorted, ih, List.pairwise_cons (a := a)]
      constructor
      · rintro ⟨hab, hp⟩
        refine ⟨?_, hp⟩
        intro x hx
        rcases List.mem_cons.1 hx with rfl | hx
        · exact hab
        · exact Nat.lt_trans hab ((List.pairwise_cons.1 hp).1 x hx)
      · rintro ⟨hall, hp⟩
        exact ⟨hall b (List.mem_cons_self ..), hp⟩

/-- strictly increasing keys: sorted and key-unique -/
theorem sorted_iff_keys (s : Store) : Sorted s ↔ (s.map (·.1)).Pairwise (· < ·) := by
  rw [sorted_iff_pairwise, List.pairwise_map]

theorem sorted_nil : Sorted [] := trivial

theorem sorted_cons (a : Nat × Nat) (s : Store) :
    Sorted (a :: s) ↔ (∀ b ∈ s, a.1 < b.1) ∧ Sorted s := by
  rw [sorted_iff_pairwise, sorted_iff_pairwise, List.pairwise_cons]

theorem sorted_filter (p : Nat × Nat → Bool) {s : Store} (h : Sorted s) : Sorted (s.filter p) := by
  rw [sorted_iff_pairwise] at *
  exact h.filter p

/-! ### `get?` -/

@[simp] theorem get?_nil (k : Nat) : get? [] k = none := rfl

theorem get?_cons (a : Nat × Nat) (s : Store) (k : Nat) :
    get? (a :: s) k = if k = a.1 then some a.2 else get? s k := by
  unfold get?
  rw [List.find?_cons]
  by_cases h : k = a.1
  · simp [h]
  · have : (a.1 == k) = false := by simp; exact fun e => h e.symm
    simp [h, this]

theorem mem_of_get? {s : Store} {k v : Nat} (h : get? s k = some v) : (k, v) ∈ s := by
  induction s with
  | nil => simp at h
  | cons a t ih =>
    rw [get?_cons] at h
    split at h
    · next e =>
      cases a; simp at h e; subst e; subst h; exact List.mem_cons_self ..
    · exact List.mem_cons_of_mem _ (ih h)

theorem get?_eq_none_iff (s : Store) (k : Nat) : get? s k = none ↔ ∀ b ∈ s, b.1 ≠ k := by
  induction s with
  | nil => simp
  | cons a t ih =>
    rw [get?_cons]
    split
    · next e =>
      constructor
      · intro h; cases h
      · intro h; exact absurd e.symm (h a (List.mem_cons_self ..))
    · next e =>
      rw [ih]
      constructor
      · intro h b hb
        rcases List.mem_cons.1 hb with rfl | hb
        · exact fun e' => e e'.symm
        · exact h b hb
      · intro h b hb
        exact h b (List.mem_cons_of_mem _ hb)

theorem get?_of_mem {s : Store} (h : Sorted s) {k v : Nat} (hm : (k, v) ∈ s) : get? s k = some v := by
  induction s with
  | nil => simp at hm
  | cons a t ih =>
    rw [sorted_cons] at h
    rw [get?_cons]
    rcases List.mem_cons.1 hm with e | hm
    · subst e; simp
    · have := h.1 _ hm
      have hne : ¬ k = a.1 := by simp at this; omega
      rw [if_neg hne]
      exact ih h.2 hm

theorem mem_iff_get? {s : Store} (h : Sorted s) (k v : Nat) : (k, v) ∈ s ↔ get? s k = some v :=
  ⟨get?_of_mem h, mem_of_get?⟩

theorem get?_filter_ne (s : Store) (k k' : Nat) :
    get? (s.filter (·.1 != k)) k' = if k' = k then none else get? s k' := by
  induction s with
  | nil => simp
  | cons a t ih =>
    rw [List.filter_cons]
    by_cases ha : a.1 = k
    · have : (a.1 != k) = false := by simp [ha]
      rw [this]; simp only [Bool.false_eq_true, if_false]
      rw [ih, get?_cons]
      by_cases hk : k' = k
      · simp [hk]
      · have : ¬ k' = a.1 := by omega
        simp [hk, this]
    · have : (a.1 != k) = true := by simp [ha]
      rw [this]; simp only [if_true]
      rw [get?_cons, get?_cons, ih]
      by_cases hk : k' = k
      · subst hk
        have : ¬ k' = a.1 := by omega
        simp [this]
      · simp [hk]

/-! ### `setItem` -/

theorem get?_setItem (s : Store) (k v k' : Nat) :
    get? (setItem s k v) k' = if k' = k then some v else get? s k' := by
  induction s with
  | nil => simp [setItem, get?_cons]
  | cons a t ih =>
    obtain ⟨ka, va⟩ := a
    unfold setItem
    split
    · rw [get?_cons]
    · split
      · next e =>
        subst e
        rw [get?_cons, get?_cons]
        by_cases hk : k' = k <;> simp [hk]
      · next hlt hne =>
        rw [get?_cons, get?_cons, ih]
        by_cases hk : k' = k
        · subst hk
          have : ¬ k' = ka := by omega
          simp [this]
        · simp [hk]

theorem mem_setItem {s : Store} {k v : Nat} {b : Nat × Nat} (hb : b ∈ setItem s k v) :
    b = (k, v) ∨ b ∈ s := by
  induction s with
  | nil => simpa [setItem] using hb
  | cons a t ih =>
    obtain ⟨ka, va⟩ := a
    unfold setItem at hb
    split at hb
    · simpa using hb
    · split at hb
      · rcases List.mem_cons.1 hb with e | hb
        · exact Or.inl e
        · exact Or.inr (List.mem_cons_of_mem _ hb)
      · rcases List.mem_cons.1 hb with e | hb
        · exact Or.inr (e ▸ List.mem_cons_self ..)
        · rcases ih hb with e | hb
          · exact Or.inl e
          · exact Or.inr (List.mem_cons_of_mem _ hb)

theorem sorted_setItem {s : Store} (h : Sorted s) (k v : Nat) : Sorted (setItem s k v) := by
  induction s with
  | nil => simp [setItem, Sorted]
  | cons a t ih =>
    obtain ⟨ka, va⟩ := a
    have h' := (sorted_cons _ _).1 h
    unfold setItem
    split
    · next hlt =>
      rw [sorted_cons]
      refine ⟨?_, h⟩
      intro b hb
      rcases List.mem_cons.1 hb with e | hb
      · subst e; exact hlt
      · exact Nat.lt_trans hlt (h'.1 b hb)
    · split
      · next e =>
        subst e
        rw [sorted_cons]; exact h'
      · next hlt hne =>
        rw [sorted_cons]
        refine ⟨?_, ih h'.2⟩
        intro b hb
        rcases mem_setItem hb with e | hb
        · subst e; simp; omega
        · exact h'.1 b hb

/-! ### `update` -/

theorem sorted_update {s : Store} (h : Sorted s) (kvs : List (Nat × Nat)) : Sorted (update s kvs) := by
  unfold update
  induction kvs generalizing s with
  | nil => exact h
  | cons kv kvs ih => exact ih (sorted_setItem h _ _)

theorem get?_update (s : Store) (kvs : List (Nat × Nat)) (k' : Nat) :
    get? (update s kvs) k' =
      match kvs.reverse.find? (·.1 == k') with
      | some kv => some kv.2
      | none => get? s k' := by
  unfold update
  induction kvs generalizing s with
  | nil => simp
  | cons kv kvs ih =>
    rw [List.foldl_cons, ih, List.reverse_cons, List.find?_append]
    cases hf : kvs.reverse.find? (·.1 == k') with
    | some x => simp
    | none =>
      simp only [Option.none_or]
      rw [get?_setItem, List.find?_cons]
      by_cases hk : k' = kv.1
      · simp [hk]
      · have : (kv.1 == k') = false := by simp; exact fun e => hk e.symm
        simp [hk, this]

/-! ### range bounds -/

theorem rng_mem_bounds {r : Rng} {x : Int} (h : r.mem x = true) : r.start ≤ x ∧ x < r.stop := by
  unfold Rng.mem at h
  simp only [Bool.and_eq_true, decide_eq_true_eq] at h
  exact h.1

end Gtirb.SymExpr
