import GtirbProofs.Lemmas.ForestDefs
/-! Frame lemmas for model C (the object graph).

* `OnlyCache g g'` / `OnlyIdx g g'`: the step changed nothing but the UUID table /
  nothing but the symbol indexes; every other field is literally unchanged.
* `core g`: the forest part of a state (`n`, `kind`, `uuid`, `par`, `kids`). Every
  composite operation of the model is characterised by a *pure* function on cores
  (`detach`, `detachOld`, `attach`, ...), see the `*_core` theorems. -/
namespace Gtirb.Forest

/-! ### generic fold lemmas -/

theorem foldE_nil (f : G → Nat → Except Exc G) (g : G) : foldE f [] g = .ok g := rfl

theorem foldE_cons_ok {f : G → Nat → Except Exc G} {x : Nat} {xs : List Nat} {g g' : G}
    (h : foldE f (x :: xs) g = .ok g') : ∃ g1, f g x = .ok g1 ∧ foldE f xs g1 = .ok g' := by
  simp only [foldE] at h
  split at h
  · exact ⟨_, by assumption, h⟩
  · cases h

/-- invariant indexed by the list of elements still to be processed -/
theorem foldE_inv_list {f : G → Nat → Except Exc G} (I : List Nat → G → Prop)
    (hstep : ∀ g x xs g', I (x :: xs) g → f g x = .ok g' → I xs g') :
    ∀ (l : List Nat) (g g' : G), I l g → foldE f l g = .ok g' → I [] g' := by
  intro l
  induction l with
  | nil => intro g g' h hf; cases hf; exact h
  | cons x xs ih =>
    intro g g' h hf
    obtain ⟨g1, h1, h2⟩ := foldE_cons_ok hf
    exact ih g1 g' (hstep g x xs g1 h h1) h2

/-- plain invariant -/
theorem foldE_inv {f : G → Nat → Except Exc G} (I : G → Prop) (l : List Nat)
    (hstep : ∀ g x g', x ∈ l → I g → f g x = .ok g' → I g') :
    ∀ (g g' : G), I g → foldE f l g = .ok g' → I g' := by
  induction l with
  | nil => intro g g' h hf; cases hf; exact h
  | cons x xs ih =>
    intro g g' h hf
    obtain ⟨g1, h1, h2⟩ := foldE_cons_ok hf
    exact ih (fun g y g' hy => hstep g y g' (List.mem_cons_of_mem _ hy)) g1 g'
      (hstep g x g1 (List.mem_cons_self) h h1) h2

theorem foldl_inv {α : Type} {F : G → α → G} (I : G → Prop) (l : List α)
    (hstep : ∀ g x, x ∈ l → I g → I (F g x)) : ∀ g, I g → I (l.foldl F g) := by
  induction l with
  | nil => intro g h; exact h
  | cons x xs ih =>
    intro g h
    exact ih (fun g y hy => hstep g y (List.mem_cons_of_mem _ hy)) _ (hstep g x List.mem_cons_self h)

/-! ### steps that touch only the UUID table -/

/-- `g'` differs from `g` at most in the UUID table -/
def OnlyCache (g g' : G) : Prop := g' = { g with cache := g'.cache }

namespace OnlyCache
theorem refl (g : G) : OnlyCache g g := rfl
theorem trans {a b c : G} (h1 : OnlyCache a b) (h2 : OnlyCache b c) : OnlyCache a c := by
  unfold OnlyCache at *; rw [h2, h1]
variable {g g' : G} (h : OnlyCache g g')
include h
theorem n : g'.n = g.n := by rw [h]
theorem kind : g'.kind = g.kind := by rw [h]
theorem uuid : g'.uuid = g.uuid := by rw [h]
theorem par : g'.par = g.par := by rw [h]
theorem kids : g'.kids = g.kids := by rw [h]
theorem name : g'.name = g.name := by rw [h]
theorem payload : g'.payload = g.payload := by rw [h]
theorem nameIdx : g'.nameIdx = g.nameIdx := by rw [h]
theorem refIdx : g'.refIdx = g.refIdx := by rw [h]
end OnlyCache

theorem onlyCache_cacheSet (g : G) (i u v : Nat) : OnlyCache g (cacheSet g i u v) := rfl

theorem onlyCache_cacheDel {g g' : G} {i u : Nat} (h : cacheDel g i u = .ok g') : OnlyCache g g' := by
  unfold cacheDel at h
  split at h
  · cases h
  · cases h; rfl

theorem onlyCache_foldl {α : Type} {F : G → α → G} (hF : ∀ g x, OnlyCache g (F g x)) (l : List α) (g : G) :
    OnlyCache g (l.foldl F g) :=
  foldl_inv (fun g' => OnlyCache g g') l (fun g' x _ h => h.trans (hF g' x)) g (OnlyCache.refl g)

theorem onlyCache_foldE {f : G → Nat → Except Exc G} (hf : ∀ g x g', f g x = .ok g' → OnlyCache g g')
    (l : List Nat) {g g' : G} (h : foldE f l g = .ok g') : OnlyCache g g' :=
  foldE_inv (fun g' => OnlyCache g g') l (fun g1 x g2 _ h1 h2 => h1.trans (hf g1 x g2 h2)) g g' (OnlyCache.refl g) h

theorem onlyCache_cacheAddLeaf (g : G) (i v : Nat) : OnlyCache g (cacheAddLeaf g i v) := rfl

theorem onlyCache_cacheAddInterval (g : G) (i v : Nat) : OnlyCache g (cacheAddInterval g i v) :=
  (onlyCache_cacheSet g i _ v).trans (onlyCache_foldl (fun g b => onlyCache_cacheAddLeaf g i b) _ _)

theorem onlyCache_cacheAddSection (g : G) (i v : Nat) : OnlyCache g (cacheAddSection g i v) :=
  (onlyCache_cacheSet g i _ v).trans (onlyCache_foldl (fun g b => onlyCache_cacheAddInterval g i b) _ _)

theorem onlyCache_cacheAddModule (g : G) (i v : Nat) : OnlyCache g (cacheAddModule g i v) := by
  unfold cacheAddModule
  exact (((onlyCache_cacheSet g i _ v).trans
    (onlyCache_foldl (fun g b => onlyCache_cacheAddLeaf g i b) _ _)).trans
    (onlyCache_foldl (fun g b => onlyCache_cacheAddSection g i b) _ _)).trans
    (onlyCache_foldl (fun g b => onlyCache_cacheAddLeaf g i b) _ _)

theorem onlyCache_cacheAdd (g : G) (i v : Nat) : OnlyCache g (cacheAdd g i v) := by
  unfold cacheAdd
  split
  · exact onlyCache_cacheAddModule g i v
  · exact onlyCache_cacheAddSection g i v
  · exact onlyCache_cacheAddInterval g i v
  · exact onlyCache_cacheAddLeaf g i v

theorem onlyCache_cacheDelLeaf {g g' : G} {i v : Nat} (h : cacheDelLeaf g i v = .ok g') : OnlyCache g g' :=
  onlyCache_cacheDel h

theorem onlyCache_cacheDelInterval {g g' : G} {i v : Nat} (h : cacheDelInterval g i v = .ok g') :
    OnlyCache g g' := by
  unfold cacheDelInterval at h
  split at h
  · rename_i g1 h1
    exact (onlyCache_cacheDel h1).trans (onlyCache_foldE (fun _ _ _ h => onlyCache_cacheDelLeaf h) _ h)
  · cases h

theorem onlyCache_cacheDelSection {g g' : G} {i v : Nat} (h : cacheDelSection g i v = .ok g') :
    OnlyCache g g' := by
  unfold cacheDelSection at h
  split at h
  · rename_i g1 h1
    exact (onlyCache_cacheDel h1).trans (onlyCache_foldE (fun _ _ _ h => onlyCache_cacheDelInterval h) _ h)
  · cases h

theorem onlyCache_cacheDelModule {g g' : G} {i v : Nat} (h : cacheDelModule g i v = .ok g') :
    OnlyCache g g' := by
  unfold cacheDelModule at h
  split at h
  · cases h
  · rename_i g1 h1
    split at h
    · cases h
    · rename_i g2 h2
      split at h
      · cases h
      · rename_i g3 h3
        exact (((onlyCache_cacheDel h1).trans
          (onlyCache_foldE (fun _ _ _ h => onlyCache_cacheDelLeaf h) _ h2)).trans
          (onlyCache_foldE (fun _ _ _ h => onlyCache_cacheDelSection h) _ h3)).trans
          (onlyCache_foldE (fun _ _ _ h => onlyCache_cacheDelLeaf h) _ h)

theorem onlyCache_cacheRemove {g g' : G} {i v : Nat} (h : cacheRemove g i v = .ok g') : OnlyCache g g' := by
  unfold cacheRemove at h
  split at h
  · exact onlyCache_cacheDelModule h
  · exact onlyCache_cacheDelSection h
  · exact onlyCache_cacheDelInterval h
  · exact onlyCache_cacheDelLeaf h

/-! ### steps that touch only the symbol indexes -/

/-- `g'` differs from `g` at most in the two symbol indexes -/
def OnlyIdx (g g' : G) : Prop := g' = { g with nameIdx := g'.nameIdx, refIdx := g'.refIdx }

namespace OnlyIdx
theorem refl (g : G) : OnlyIdx g g := rfl
theorem trans {a b c : G} (h1 : OnlyIdx a b) (h2 : OnlyIdx b c) : OnlyIdx a c := by
  unfold OnlyIdx at *; rw [h2, h1]
variable {g g' : G} (h : OnlyIdx g g')
include h
theorem n : g'.n = g.n := by rw [h]
theorem kind : g'.kind = g.kind := by rw [h]
theorem uuid : g'.uuid = g.uuid := by rw [h]
theorem par : g'.par = g.par := by rw [h]
theorem kids : g'.kids = g.kids := by rw [h]
theorem name : g'.name = g.name := by rw [h]
theorem payload : g'.payload = g.payload := by rw [h]
theorem cache : g'.cache = g.cache := by rw [h]
end OnlyIdx

theorem onlyIdx_symIndexAdd (g : G) (m v : Nat) : OnlyIdx g (symIndexAdd g m v) := by
  unfold symIndexAdd
  split
  · split <;> rfl
  · rfl

theorem onlyIdx_symIndexDiscard (g : G) (m v : Nat) : OnlyIdx g (symIndexDiscard g m v) := by
  unfold symIndexDiscard
  split
  · split <;> rfl
  · rfl

/-! ### the forest part of a state -/

/-- everything except the UUID table and the symbol indexes -/
def core (g : G) : G :=
  { n := g.n, kind := g.kind, uuid := g.uuid, par := g.par, kids := g.kids, name := g.name, payload := g.payload }

@[simp] theorem core_n (g : G) : (core g).n = g.n := rfl
@[simp] theorem core_kind (g : G) : (core g).kind = g.kind := rfl
@[simp] theorem core_uuid (g : G) : (core g).uuid = g.uuid := rfl
@[simp] theorem core_par (g : G) : (core g).par = g.par := rfl
@[simp] theorem core_kids (g : G) : (core g).kids = g.kids := rfl
@[simp] theorem core_name (g : G) : (core g).name = g.name := rfl
@[simp] theorem core_payload (g : G) : (core g).payload = g.payload := rfl
@[simp] theorem core_core (g : G) : core (core g) = core g := rfl
@[simp] theorem core_empty : core ({} : G) = {} := rfl

theorem OnlyCache.core {g g' : G} (h : OnlyCache g g') : core g' = core g := by rw [h]; rfl
theorem OnlyIdx.core {g g' : G} (h : OnlyIdx g g') : core g' = core g := by rw [h]; rfl

/-- fields of `g'` from an equation between cores -/
theorem core_eq_n {g g' : G} (h : core g' = core g) : g'.n = g.n := by
  have := congrArg G.n h; exact this
theorem core_eq_kind {g g' : G} (h : core g' = core g) : g'.kind = g.kind := by
  have := congrArg G.kind h; exact this
theorem core_eq_uuid {g g' : G} (h : core g' = core g) : g'.uuid = g.uuid := by
  have := congrArg G.uuid h; exact this
theorem core_eq_par {g g' : G} (h : core g' = core g) : g'.par = g.par := by
  have := congrArg G.par h; exact this
theorem core_eq_kids {g g' : G} (h : core g' = core g) : g'.kids = g.kids := by
  have := congrArg G.kids h; exact this
theorem core_eq_name {g g' : G} (h : core g' = core g) : g'.name = g.name := by
  have := congrArg G.name h; exact this
theorem core_eq_payload {g g' : G} (h : core g' = core g) : g'.payload = g.payload := by
  have := congrArg G.payload h; exact this

@[simp] theorem irOf_core (g : G) : irOf (core g) = irOf g := rfl
@[simp] theorem moduleOf_core (g : G) : moduleOf (core g) = moduleOf g := rfl

theorem irOf_congr {g g' : G} (h : core g' = core g) : irOf g' = irOf g := by
  rw [← irOf_core g', h, irOf_core]

theorem moduleOf_congr {g g' : G} (h : core g' = core g) : moduleOf g' = moduleOf g := by
  rw [← moduleOf_core g', h, moduleOf_core]

/-! ### field lemmas of the primitives -/

@[simp] theorem setPar_n (g : G) (v : Nat) (p : Option Nat) : (setPar g v p).n = g.n := rfl
@[simp] theorem setPar_kind (g : G) (v : Nat) (p : Option Nat) : (setPar g v p).kind = g.kind := rfl
@[simp] theorem setPar_uuid (g : G) (v : Nat) (p : Option Nat) : (setPar g v p).uuid = g.uuid := rfl
@[simp] theorem setPar_par (g : G) (v : Nat) (p : Option Nat) (x : Nat) :
    (setPar g v p).par x = if x = v then p else g.par x := rfl
@[simp] theorem setPar_kids (g : G) (v : Nat) (p : Option Nat) : (setPar g v p).kids = g.kids := rfl
@[simp] theorem setPar_cache (g : G) (v : Nat) (p : Option Nat) : (setPar g v p).cache = g.cache := rfl
@[simp] theorem setPar_name (g : G) (v : Nat) (p : Option Nat) : (setPar g v p).name = g.name := rfl
@[simp] theorem setPar_payload (g : G) (v : Nat) (p : Option Nat) : (setPar g v p).payload = g.payload := rfl
@[simp] theorem setPar_nameIdx (g : G) (v : Nat) (p : Option Nat) : (setPar g v p).nameIdx = g.nameIdx := rfl
@[simp] theorem setPar_refIdx (g : G) (v : Nat) (p : Option Nat) : (setPar g v p).refIdx = g.refIdx := rfl

@[simp] theorem kidsSet_n (g : G) (p : Nat) (s : Slot) (l : List Nat) : (kidsSet g p s l).n = g.n := rfl
@[simp] theorem kidsSet_kind (g : G) (p : Nat) (s : Slot) (l : List Nat) : (kidsSet g p s l).kind = g.kind := rfl
@[simp] theorem kidsSet_uuid (g : G) (p : Nat) (s : Slot) (l : List Nat) : (kidsSet g p s l).uuid = g.uuid := rfl
@[simp] theorem kidsSet_par (g : G) (p : Nat) (s : Slot) (l : List Nat) : (kidsSet g p s l).par = g.par := rfl
@[simp] theorem kidsSet_kids (g : G) (p : Nat) (s : Slot) (l : List Nat) (p' : Nat) (s' : Slot) :
    (kidsSet g p s l).kids p' s' = if p' = p ∧ s' = s then l else g.kids p' s' := rfl
@[simp] theorem kidsSet_cache (g : G) (p : Nat) (s : Slot) (l : List Nat) : (kidsSet g p s l).cache = g.cache := rfl
@[simp] theorem kidsSet_name (g : G) (p : Nat) (s : Slot) (l : List Nat) : (kidsSet g p s l).name = g.name := rfl
@[simp] theorem kidsSet_payload (g : G) (p : Nat) (s : Slot) (l : List Nat) : (kidsSet g p s l).payload = g.payload := rfl
@[simp] theorem kidsSet_nameIdx (g : G) (p : Nat) (s : Slot) (l : List Nat) : (kidsSet g p s l).nameIdx = g.nameIdx := rfl
@[simp] theorem kidsSet_refIdx (g : G) (p : Nat) (s : Slot) (l : List Nat) : (kidsSet g p s l).refIdx = g.refIdx := rfl

/-- `kidsErase` and `kidsInsert` are instances of `kidsSet` -/
theorem kidsErase_eq_kidsSet (g : G) (p : Nat) (s : Slot) (v : Nat) :
    kidsErase g p s v = kidsSet g p s ((g.kids p s).erase v) := rfl
theorem kidsInsert_eq_kidsSet (g : G) (p : Nat) (s : Slot) (v : Nat) :
    kidsInsert g p s v = kidsSet g p s (setInsertNat (g.kids p s) v) := rfl

@[simp] theorem kidsErase_n (g : G) (p : Nat) (s : Slot) (v : Nat) : (kidsErase g p s v).n = g.n := rfl
@[simp] theorem kidsErase_kind (g : G) (p : Nat) (s : Slot) (v : Nat) : (kidsErase g p s v).kind = g.kind := rfl
@[simp] theorem kidsErase_uuid (g : G) (p : Nat) (s : Slot) (v : Nat) : (kidsErase g p s v).uuid = g.uuid := rfl
@[simp] theorem kidsErase_par (g : G) (p : Nat) (s : Slot) (v : Nat) : (kidsErase g p s v).par = g.par := rfl
@[simp] theorem kidsErase_kids (g : G) (p : Nat) (s : Slot) (v : Nat) (p' : Nat) (s' : Slot) :
    (kidsErase g p s v).kids p' s' = if p' = p ∧ s' = s then (g.kids p s).erase v else g.kids p' s' := rfl
@[simp] theorem kidsErase_cache (g : G) (p : Nat) (s : Slot) (v : Nat) : (kidsErase g p s v).cache = g.cache := rfl
@[simp] theorem kidsErase_name (g : G) (p : Nat) (s : Slot) (v : Nat) : (kidsErase g p s v).name = g.name := rfl
@[simp] theorem kidsErase_payload (g : G) (p : Nat) (s : Slot) (v : Nat) : (kidsErase g p s v).payload = g.payload := rfl
@[simp] theorem kidsErase_nameIdx (g : G) (p : Nat) (s : Slot) (v : Nat) : (kidsErase g p s v).nameIdx = g.nameIdx := rfl
@[simp] theorem kidsErase_refIdx (g : G) (p : Nat) (s : Slot) (v : Nat) : (kidsErase g p s v).refIdx = g.refIdx := rfl

@[simp] theorem kidsInsert_n (g : G) (p : Nat) (s : Slot) (v : Nat) : (kidsInsert g p s v).n = g.n := rfl
@[simp] theorem kidsInsert_kind (g : G) (p : Nat) (s : Slot) (v : Nat) : (kidsInsert g p s v).kind = g.kind := rfl
@[simp] theorem kidsInsert_uuid (g : G) (p : Nat) (s : Slot) (v : Nat) : (kidsInsert g p s v).uuid = g.uuid := rfl
@[simp] theorem kidsInsert_par (g : G) (p : Nat) (s : Slot) (v : Nat) : (kidsInsert g p s v).par = g.par := rfl
@[simp] theorem kidsInsert_kids (g : G) (p : Nat) (s : Slot) (v : Nat) (p' : Nat) (s' : Slot) :
    (kidsInsert g p s v).kids p' s' = if p' = p ∧ s' = s then setInsertNat (g.kids p s) v else g.kids p' s' := rfl
@[simp] theorem kidsInsert_cache (g : G) (p : Nat) (s : Slot) (v : Nat) : (kidsInsert g p s v).cache = g.cache := rfl
@[simp] theorem kidsInsert_name (g : G) (p : Nat) (s : Slot) (v : Nat) : (kidsInsert g p s v).name = g.name := rfl
@[simp] theorem kidsInsert_payload (g : G) (p : Nat) (s : Slot) (v : Nat) : (kidsInsert g p s v).payload = g.payload := rfl
@[simp] theorem kidsInsert_nameIdx (g : G) (p : Nat) (s : Slot) (v : Nat) : (kidsInsert g p s v).nameIdx = g.nameIdx := rfl
@[simp] theorem kidsInsert_refIdx (g : G) (p : Nat) (s : Slot) (v : Nat) : (kidsInsert g p s v).refIdx = g.refIdx := rfl

@[simp] theorem cacheSet_cache (g : G) (i u v i' u' : Nat) :
    (cacheSet g i u v).cache i' u' = if i' = i ∧ u' = u then some v else g.cache i' u' := rfl

theorem mem_setInsertNat (l : List Nat) (v x : Nat) : x ∈ setInsertNat l v ↔ x ∈ l ∨ x = v := by
  unfold setInsertNat
  split
  · constructor
    · exact Or.inl
    · rintro (h | rfl)
      · exact h
      · assumption
  · simp

theorem nodup_setInsertNat {l : List Nat} (v : Nat) (h : l.Nodup) : (setInsertNat l v).Nodup := by
  unfold setInsertNat
  split
  · exact h
  · rename_i hv
    rw [List.nodup_append]
    refine ⟨h, by simp, ?_⟩
    intro a ha b hb
    simp at hb
    subst hb
    intro hab
    subst hab
    exact hv ha

/-- the primitives commute with `core` -/
@[simp] theorem core_setPar (g : G) (v : Nat) (p : Option Nat) : core (setPar g v p) = setPar (core g) v p := rfl
@[simp] theorem core_kidsSet (g : G) (p : Nat) (s : Slot) (l : List Nat) :
    core (kidsSet g p s l) = kidsSet (core g) p s l := rfl
@[simp] theorem core_kidsErase (g : G) (p : Nat) (s : Slot) (v : Nat) :
    core (kidsErase g p s v) = kidsErase (core g) p s v := rfl
@[simp] theorem core_kidsInsert (g : G) (p : Nat) (s : Slot) (v : Nat) :
    core (kidsInsert g p s v) = kidsInsert (core g) p s v := rfl
@[simp] theorem core_cacheSet (g : G) (i u v : Nat) : core (cacheSet g i u v) = core g := rfl
@[simp] theorem core_cacheAdd (g : G) (i v : Nat) : core (cacheAdd g i v) = core g :=
  (onlyCache_cacheAdd g i v).core
theorem core_cacheRemove {g g' : G} {i v : Nat} (h : cacheRemove g i v = .ok g') : core g' = core g :=
  (onlyCache_cacheRemove h).core
@[simp] theorem core_symIndexAdd (g : G) (m v : Nat) : core (symIndexAdd g m v) = core g :=
  (onlyIdx_symIndexAdd g m v).core
@[simp] theorem core_symIndexDiscard (g : G) (m v : Nat) : core (symIndexDiscard g m v) = core g :=
  (onlyIdx_symIndexDiscard g m v).core

/-! ### pure forest operations (on cores) -/

/-- what `discard` does to the forest -/
def detach (g : G) (q : Nat) (s : Slot) (v : Nat) : G :=
  if v ∈ g.kids q s then kidsErase (setPar g v none) q s v else g

/-- detach `v` from its current parent (through slot `s`) -/
def detachOld (g : G) (s : Slot) (v : Nat) : G :=
  match g.par v with
  | some q => detach g q s v
  | none => g

/-- detach from the old parent and point to the new one (not yet inserted) -/
def relink (g : G) (p : Nat) (s : Slot) (v : Nat) : G := setPar (detachOld g s v) v (some p)

/-- what `add` does to the forest -/
def attach (g : G) (p : Nat) (s : Slot) (v : Nat) : G := kidsInsert (relink g p s v) p s v

theorem detach_pos {g : G} {q : Nat} {s : Slot} {v : Nat} (h : v ∈ g.kids q s) :
    detach g q s v = kidsErase (setPar g v none) q s v := if_pos h

theorem detach_neg {g : G} {q : Nat} {s : Slot} {v : Nat} (h : v ∉ g.kids q s) : detach g q s v = g := if_neg h

@[simp] theorem core_detach (g : G) (q : Nat) (s : Slot) (v : Nat) : core (detach g q s v) = detach (core g) q s v := by
  by_cases hm : v ∈ g.kids q s
  · rw [detach_pos hm, detach_pos (g := core g) hm]; rfl
  · rw [detach_neg hm, detach_neg (g := core g) hm]

@[simp] theorem core_detachOld (g : G) (s : Slot) (v : Nat) : core (detachOld g s v) = detachOld (core g) s v := by
  unfold detachOld
  simp only [core_par]
  split
  · exact core_detach _ _ _ _
  · rfl

@[simp] theorem core_relink (g : G) (p : Nat) (s : Slot) (v : Nat) : core (relink g p s v) = relink (core g) p s v := by
  simp [relink]

@[simp] theorem core_attach (g : G) (p : Nat) (s : Slot) (v : Nat) : core (attach g p s v) = attach (core g) p s v := by
  simp [attach]

theorem foldl_core {F : G → Nat → G} (hF : ∀ g x, core (F g x) = F (core g) x) (l : List Nat) (g : G) :
    core (l.foldl F g) = l.foldl F (core g) := by
  induction l generalizing g with
  | nil => rfl
  | cons x xs ih => simp only [List.foldl_cons]; rw [ih, hF]

theorem foldE_core {f : G → Nat → Except Exc G} {F : G → Nat → G}
    (hf : ∀ g x g', f g x = .ok g' → core g' = F (core g) x) (l : List Nat) {g g' : G}
    (h : foldE f l g = .ok g') : core g' = l.foldl F (core g) := by
  induction l generalizing g with
  | nil => cases h; rfl
  | cons x xs ih =>
    obtain ⟨g1, h1, h2⟩ := foldE_cons_ok h
    simp only [List.foldl_cons]
    rw [ih h2, hf g x g1 h1]

/-! ### the composite operations on cores -/

theorem setDiscard_core {g g' : G} {q : Nat} {s : Slot} {v : Nat} (h : setDiscard g q s v = .ok g') :
    core g' = detach (core g) q s v := by
  unfold setDiscard at h
  split at h
  · rename_i hm
    rw [detach_pos (g := core g) hm]
    have key : ∀ g2 : G, core g2 = setPar (core g) v none →
        (match irOf g2 q with
          | some i =>
            match cacheRemove g2 i v with
            | .ok g3 => .ok (kidsErase g3 q s v)
            | .error e => .error e
          | none => .ok (kidsErase g2 q s v)) = Except.ok g' →
        core g' = kidsErase (setPar (core g) v none) q s v := by
      intro g2 h2 hh
      split at hh
      · split at hh
        · rename_i g3 h3
          cases hh
          rw [core_kidsErase, core_cacheRemove h3, h2]
        · cases hh
      · cases hh
        rw [core_kidsErase, h2]
    refine key _ ?_ h
    split
    · rw [core_symIndexDiscard]; rfl
    · rfl
  · rename_i hm
    rw [detach_neg (g := core g) hm]
    cases h
    rfl

theorem detachOld_core_of {g g1 : G} {s : Slot} {v : Nat}
    (h : ∀ q, g.par v = some q → setDiscard g q s v = .ok g1) (h0 : g.par v = none → g1 = g) :
    core g1 = detachOld (core g) s v := by
  unfold detachOld
  cases hp : g.par v with
  | none => rw [h0 hp]; simp [hp]
  | some q => rw [setDiscard_core (h q hp)]; simp [hp]

theorem setAdd_core {g g' : G} {p : Nat} {s : Slot} {v : Nat} (h : setAdd g p s v = .ok g') :
    core g' = attach (core g) p s v := by
  unfold setAdd at h
  split at h
  · cases h
  · rename_i g1 h1
    have e1 : core g1 = detachOld (core g) s v := by
      apply detachOld_core_of
      · intro q hq; rw [hq] at h1; exact h1
      · intro hq; rw [hq] at h1; cases h1; rfl
    cases h
    unfold attach relink
    rw [core_kidsInsert, ← e1]
    congr 1
    split <;> split <;> simp

/-- the elements `_BlockSet.update` really adds -/
def blkNew (g : G) (p : Nat) (vs : List Nat) : List Nat :=
  (vs.eraseDups).filter (fun v => !(v ∈ g.kids p .blocks))

/-- what `_BlockSet.update` does to the forest: relink all new elements, then insert them -/
def blkUpdatePure (g : G) (p : Nat) (new : List Nat) : G :=
  new.foldl (fun g v => kidsInsert g p .blocks v) (new.foldl (fun g v => relink g p .blocks v) g)

theorem blkUpdate_core {g g' : G} {p : Nat} {vs : List Nat} (h : blkUpdate g p vs = .ok g') :
    core g' = blkUpdatePure (core g) p (blkNew g p vs) := by
  unfold blkUpdate at h
  dsimp only at h
  split at h
  · cases h
  · rename_i g1 h1
    cases h
    unfold blkUpdatePure
    rw [foldl_core (fun g x => core_kidsInsert g p .blocks x)]
    congr 1
    refine foldE_core (F := fun g v => relink g p .blocks v) ?_ _ h1
    intro g x g' hh
    split at hh
    · cases hh
    · rename_i g2 h2
      have e1 : core g2 = detachOld (core g) .blocks x := by
        apply detachOld_core_of
        · intro q hq; rw [hq] at h2; exact h2
        · intro hq; rw [hq] at h2; cases h2; rfl
      cases hh
      unfold relink
      rw [← e1]
      split <;> simp

/-- what `add` on any node set does to the forest -/
theorem nodeSetAdd_core {g g' : G} {p : Nat} {s : Slot} {v : Nat} (h : nodeSetAdd g p s v = .ok g') :
    core g' = if s = .blocks then blkUpdatePure (core g) p (blkNew g p [v]) else attach (core g) p s v := by
  unfold nodeSetAdd at h
  split at h
  · rename_i hs; rw [if_pos hs]; exact blkUpdate_core h
  · rename_i hs; rw [if_neg hs]; exact setAdd_core h

/-! ### the module list -/

theorem modHookRemove_core {g g' : G} {i v : Nat} (h : modHookRemove g i v = .ok g') :
    core g' = setPar (core g) v none := by
  unfold modHookRemove at h
  rw [core_cacheRemove h]; rfl

theorem modListRemove_mem {g g' : G} {i v : Nat} (h : modListRemove g i v = .ok g') : v ∈ g.kids i .mods := by
  unfold modListRemove at h
  split at h
  · assumption
  · cases h

theorem modListRemove_core {g g' : G} {i v : Nat} (h : modListRemove g i v = .ok g') :
    core g' = detach (core g) i .mods v := by
  have hm := modListRemove_mem h
  unfold modListRemove at h
  rw [if_pos hm] at h
  split at h
  · rename_i g1 h1
    cases h
    rw [detach_pos (g := core g) hm, ← kidsErase_eq_kidsSet, core_kidsErase, modHookRemove_core h1]
  · cases h

theorem modHookAdd_core {g g' : G} {i v : Nat} (h : modHookAdd g i v = .ok g') :
    core g' = relink (core g) i .mods v := by
  unfold modHookAdd at h
  split at h
  · cases h
  · rename_i g1 h1
    cases h
    have e1 : core g1 = detachOld (core g) .mods v := by
      unfold detachOld
      cases hp : g.par v with
      | none => rw [hp] at h1; cases h1; simp [hp]
      | some q => rw [hp] at h1; rw [modListRemove_core h1]; simp [hp]
    rw [core_cacheAdd, core_setPar, e1]; rfl

/-- what `insert(k, v)` does to the forest -/
def modInsertPure (g : G) (i : Nat) (k : Int) (v : Nat) : G :=
  kidsSet (relink g i .mods v) i .mods (pyInsert ((relink g i .mods v).kids i .mods) k v)

theorem modInsert_core {g g' : G} {i : Nat} {k : Int} {v : Nat} (h : modInsert g i k v = .ok g') :
    core g' = modInsertPure (core g) i k v := by
  unfold modInsert at h
  split at h
  · rename_i g1 h1
    cases h
    unfold modInsertPure
    rw [core_kidsSet, ← modHookAdd_core h1]; rfl
  · cases h

theorem modAppend_core {g g' : G} {i v : Nat} (h : modAppend g i v = .ok g') :
    core g' = modInsertPure (core g) i (g.kids i .mods).length v := modInsert_core h

theorem modDelItem_core {g g' : G} {i : Nat} {k : Int} (h : modDelItem g i k = .ok g') :
    ∃ idx v, pyIndex (g.kids i .mods).length k = some idx ∧ (g.kids i .mods)[idx]? = some v ∧
      core g' = kidsSet (setPar (core g) v none) i .mods ((g.kids i .mods).eraseIdx idx) := by
  unfold modDelItem at h
  split at h
  · cases h
  · rename_i idx hidx
    split at h
    · cases h
    · rename_i v hv
      split at h
      · rename_i g1 h1
        cases h
        refine ⟨idx, v, hidx, hv, ?_⟩
        rw [core_kidsSet, modHookRemove_core h1]
        have : g1.kids = g.kids := by
          have := core_eq_kids (g := setPar g v none) (g' := g1) (by rw [modHookRemove_core h1]; rfl)
          exact this
        rw [this]
      · cases h

/-- what `self[k] = v` does to the forest (`old` is the element at the normalised index) -/
def modSetItemPure (g : G) (i idx old v : Nat) : G :=
  let g2 := relink (setPar g old none) i .mods v
  kidsSet g2 i .mods ((g2.kids i .mods).set idx v)

theorem modSetItem_core {g g' : G} {i : Nat} {k : Int} {v : Nat} (h : modSetItem g i k v = .ok g') :
    ∃ idx old, pyIndex (g.kids i .mods).length k = some idx ∧ (g.kids i .mods)[idx]? = some old ∧
      ¬(v ∈ g.kids i .mods ∧ v ≠ old) ∧ core g' = modSetItemPure (core g) i idx old v := by
  unfold modSetItem at h
  split at h
  · cases h
  · rename_i idx hidx
    split at h
    · cases h
    · rename_i old hold
      split at h
      · cases h
      · rename_i hne
        split at h
        · cases h
        · rename_i g1 h1
          split at h
          · cases h
          · rename_i g2 h2
            cases h
            refine ⟨idx, old, hidx, hold, hne, ?_⟩
            unfold modSetItemPure
            dsimp only
            rw [core_kidsSet, ← modHookRemove_core h1, ← modHookAdd_core h2]; rfl

@[simp] theorem modReverse_core (g : G) (i : Nat) :
    core (modReverse g i) = kidsSet (core g) i .mods (g.kids i .mods).reverse := rfl

/-! ### attribute setters, allocation -/

theorem OnlyIdx.withName {g g1 : G} (h : OnlyIdx g g1) (f : Nat → Nat) :
    OnlyIdx { g with name := f } { g1 with name := f } := by
  unfold OnlyIdx at *; rw [h]

theorem OnlyIdx.withPayload {g g1 : G} (h : OnlyIdx g g1) (f : Nat → Payload) :
    OnlyIdx { g with payload := f } { g1 with payload := f } := by
  unfold OnlyIdx at *; rw [h]

/-- `setName` = update of `name`, up to the indexes -/
theorem onlyIdx_setName (g : G) (v nm : Nat) :
    OnlyIdx { g with name := fun x => if x = v then nm else g.name x } (setName g v nm) := by
  cases hp : g.par v with
  | none =>
    have : setName g v nm = { g with name := fun x => if x = v then nm else g.name x } := by
      simp [setName, hp]
    rw [this]; exact OnlyIdx.refl _
  | some m =>
    have h1 := onlyIdx_symIndexDiscard g m v
    have : setName g v nm = symIndexAdd { symIndexDiscard g m v with
        name := fun x => if x = v then nm else (symIndexDiscard g m v).name x } m v := by
      simp [setName, hp, h1.par]
    rw [this, h1.name]
    exact (h1.withName _).trans (onlyIdx_symIndexAdd _ _ _)

theorem onlyIdx_setPayload (g : G) (v : Nat) (pl : Payload) :
    OnlyIdx { g with payload := fun x => if x = v then pl else g.payload x } (setPayload g v pl) := by
  cases hp : g.par v with
  | none =>
    have : setPayload g v pl = { g with payload := fun x => if x = v then pl else g.payload x } := by
      simp [setPayload, hp]
    rw [this]; exact OnlyIdx.refl _
  | some m =>
    have h1 := onlyIdx_symIndexDiscard g m v
    have : setPayload g v pl = symIndexAdd { symIndexDiscard g m v with
        payload := fun x => if x = v then pl else (symIndexDiscard g m v).payload x } m v := by
      simp [setPayload, hp, h1.par]
    rw [this, h1.payload]
    exact (h1.withPayload _).trans (onlyIdx_symIndexAdd _ _ _)

theorem setName_core (g : G) (v nm : Nat) :
    core (setName g v nm) = { core g with name := fun x => if x = v then nm else g.name x } :=
  (onlyIdx_setName g v nm).core

theorem setPayload_core (g : G) (v : Nat) (pl : Payload) :
    core (setPayload g v pl) = { core g with payload := fun x => if x = v then pl else g.payload x } :=
  (onlyIdx_setPayload g v pl).core

@[simp] theorem alloc_snd (g : G) (k : Kind) (u : Nat) : (alloc g k u).2 = g.n := rfl
@[simp] theorem alloc_n (g : G) (k : Kind) (u : Nat) : (alloc g k u).1.n = g.n + 1 := rfl
@[simp] theorem alloc_kind (g : G) (k : Kind) (u : Nat) (x : Nat) :
    (alloc g k u).1.kind x = if x = g.n then k else g.kind x := rfl
@[simp] theorem alloc_uuid (g : G) (k : Kind) (u : Nat) (x : Nat) :
    (alloc g k u).1.uuid x = if x = g.n then u else g.uuid x := rfl
@[simp] theorem alloc_par (g : G) (k : Kind) (u : Nat) (x : Nat) :
    (alloc g k u).1.par x = if x = g.n then none else g.par x := rfl
@[simp] theorem alloc_kids (g : G) (k : Kind) (u : Nat) (x : Nat) (s : Slot) :
    (alloc g k u).1.kids x s = if x = g.n then [] else g.kids x s := rfl
@[simp] theorem alloc_cache (g : G) (k : Kind) (u : Nat) : (alloc g k u).1.cache = g.cache := rfl
@[simp] theorem alloc_name (g : G) (k : Kind) (u : Nat) : (alloc g k u).1.name = g.name := rfl
@[simp] theorem alloc_payload (g : G) (k : Kind) (u : Nat) : (alloc g k u).1.payload = g.payload := rfl
@[simp] theorem alloc_nameIdx (g : G) (k : Kind) (u : Nat) : (alloc g k u).1.nameIdx = g.nameIdx := rfl
@[simp] theorem alloc_refIdx (g : G) (k : Kind) (u : Nat) : (alloc g k u).1.refIdx = g.refIdx := rfl
@[simp] theorem core_alloc (g : G) (k : Kind) (u : Nat) : core (alloc g k u).1 = (alloc (core g) k u).1 := rfl

@[simp] theorem mkIR_core (g : G) (u : Nat) : core (mkIR g u) = (alloc (core g) .ir u).1 := rfl

/-! ### field lemmas of the pure forest operations -/

@[simp] theorem detach_n (g : G) (q : Nat) (s : Slot) (v : Nat) : (detach g q s v).n = g.n := by
  unfold detach; split <;> rfl
@[simp] theorem detach_kind (g : G) (q : Nat) (s : Slot) (v : Nat) : (detach g q s v).kind = g.kind := by
  unfold detach; split <;> rfl
@[simp] theorem detach_uuid (g : G) (q : Nat) (s : Slot) (v : Nat) : (detach g q s v).uuid = g.uuid := by
  unfold detach; split <;> rfl
@[simp] theorem detach_name (g : G) (q : Nat) (s : Slot) (v : Nat) : (detach g q s v).name = g.name := by
  unfold detach; split <;> rfl
@[simp] theorem detach_payload (g : G) (q : Nat) (s : Slot) (v : Nat) : (detach g q s v).payload = g.payload := by
  unfold detach; split <;> rfl
theorem detach_par (g : G) (q : Nat) (s : Slot) (v : Nat) (c : Nat) :
    (detach g q s v).par c = if c = v ∧ v ∈ g.kids q s then none else g.par c := by
  unfold detach
  by_cases hm : v ∈ g.kids q s
  · simp [hm]
  · simp [hm]
theorem detach_kids (g : G) (q : Nat) (s : Slot) (v : Nat) (p' : Nat) (s' : Slot) :
    (detach g q s v).kids p' s' = if p' = q ∧ s' = s then (g.kids q s).erase v else g.kids p' s' := by
  unfold detach
  by_cases hm : v ∈ g.kids q s
  · simp [hm]
  · simp only [hm, if_false]
    split
    · rename_i h; rw [h.1, h.2, List.erase_of_not_mem hm]
    · rfl

@[simp] theorem detachOld_n (g : G) (s : Slot) (v : Nat) : (detachOld g s v).n = g.n := by
  unfold detachOld; split <;> simp
@[simp] theorem detachOld_kind (g : G) (s : Slot) (v : Nat) : (detachOld g s v).kind = g.kind := by
  unfold detachOld; split <;> simp
@[simp] theorem detachOld_uuid (g : G) (s : Slot) (v : Nat) : (detachOld g s v).uuid = g.uuid := by
  unfold detachOld; split <;> simp
@[simp] theorem detachOld_name (g : G) (s : Slot) (v : Nat) : (detachOld g s v).name = g.name := by
  unfold detachOld; split <;> simp
@[simp] theorem detachOld_payload (g : G) (s : Slot) (v : Nat) : (detachOld g s v).payload = g.payload := by
  unfold detachOld; split <;> simp
theorem detachOld_none {g : G} {s : Slot} {v : Nat} (h : g.par v = none) : detachOld g s v = g := by
  unfold detachOld; rw [h]
theorem detachOld_some {g : G} {s : Slot} {v q : Nat} (h : g.par v = some q) : detachOld g s v = detach g q s v := by
  unfold detachOld; rw [h]

@[simp] theorem relink_n (g : G) (p : Nat) (s : Slot) (v : Nat) : (relink g p s v).n = g.n := by simp [relink]
@[simp] theorem relink_kind (g : G) (p : Nat) (s : Slot) (v : Nat) : (relink g p s v).kind = g.kind := by simp [relink]
@[simp] theorem relink_uuid (g : G) (p : Nat) (s : Slot) (v : Nat) : (relink g p s v).uuid = g.uuid := by simp [relink]
@[simp] theorem relink_name (g : G) (p : Nat) (s : Slot) (v : Nat) : (relink g p s v).name = g.name := by simp [relink]
@[simp] theorem relink_payload (g : G) (p : Nat) (s : Slot) (v : Nat) : (relink g p s v).payload = g.payload := by
  simp [relink]
@[simp] theorem relink_par_self (g : G) (p : Nat) (s : Slot) (v : Nat) : (relink g p s v).par v = some p := by
  simp [relink]

@[simp] theorem attach_n (g : G) (p : Nat) (s : Slot) (v : Nat) : (attach g p s v).n = g.n := by simp [attach]
@[simp] theorem attach_kind (g : G) (p : Nat) (s : Slot) (v : Nat) : (attach g p s v).kind = g.kind := by simp [attach]
@[simp] theorem attach_uuid (g : G) (p : Nat) (s : Slot) (v : Nat) : (attach g p s v).uuid = g.uuid := by simp [attach]
@[simp] theorem attach_name (g : G) (p : Nat) (s : Slot) (v : Nat) : (attach g p s v).name = g.name := by simp [attach]
@[simp] theorem attach_payload (g : G) (p : Nat) (s : Slot) (v : Nat) : (attach g p s v).payload = g.payload := by
  simp [attach]
@[simp] theorem attach_par_self (g : G) (p : Nat) (s : Slot) (v : Nat) : (attach g p s v).par v = some p := by
  simp [attach]

/-! ### allocation, kinds and uuids never change on existing nodes -/

/-- same allocation, kinds and uuids -/
structure Stable (g g' : G) : Prop where
  n : g'.n = g.n
  kind : g'.kind = g.kind
  uuid : g'.uuid = g.uuid

theorem Stable.refl (g : G) : Stable g g := ⟨rfl, rfl, rfl⟩
theorem Stable.trans {a b c : G} (h1 : Stable a b) (h2 : Stable b c) : Stable a c :=
  ⟨h2.n.trans h1.n, h2.kind.trans h1.kind, h2.uuid.trans h1.uuid⟩

theorem stable_of_core {g g' X : G} (h : core g' = X) (hn : X.n = g.n) (hk : X.kind = g.kind)
    (hu : X.uuid = g.uuid) : Stable g g' :=
  ⟨by rw [← core_n g', h, hn], by rw [← core_kind g', h, hk], by rw [← core_uuid g', h, hu]⟩

theorem stable_foldl {α : Type} {F : G → α → G} (hF : ∀ g x, Stable g (F g x)) (l : List α) (g : G) :
    Stable g (l.foldl F g) :=
  foldl_inv (fun g' => Stable g g') l (fun g' x _ h => h.trans (hF g' x)) g (Stable.refl g)

theorem stable_foldE {f : G → Nat → Except Exc G} (hf : ∀ g x g', f g x = .ok g' → Stable g g')
    (l : List Nat) {g g' : G} (h : foldE f l g = .ok g') : Stable g g' :=
  foldE_inv (fun g' => Stable g g') l (fun g1 x g2 _ h1 h2 => h1.trans (hf g1 x g2 h2)) g g' (Stable.refl g) h

theorem stable_detach (g : G) (q : Nat) (s : Slot) (v : Nat) : Stable g (detach g q s v) := ⟨by simp, by simp, by simp⟩
theorem stable_relink (g : G) (p : Nat) (s : Slot) (v : Nat) : Stable g (relink g p s v) := ⟨by simp, by simp, by simp⟩
theorem stable_attach (g : G) (p : Nat) (s : Slot) (v : Nat) : Stable g (attach g p s v) := ⟨by simp, by simp, by simp⟩
theorem stable_kidsSet (g : G) (p : Nat) (s : Slot) (l : List Nat) : Stable g (kidsSet g p s l) := ⟨rfl, rfl, rfl⟩
theorem stable_kidsInsert (g : G) (p : Nat) (s : Slot) (v : Nat) : Stable g (kidsInsert g p s v) := ⟨rfl, rfl, rfl⟩
theorem stable_setPar (g : G) (v : Nat) (p : Option Nat) : Stable g (setPar g v p) := ⟨rfl, rfl, rfl⟩
theorem stable_core (g : G) : Stable g (core g) := ⟨rfl, rfl, rfl⟩
theorem stable_core' (g : G) : Stable (core g) g := ⟨rfl, rfl, rfl⟩

theorem stable_blkUpdatePure (g : G) (p : Nat) (new : List Nat) : Stable g (blkUpdatePure g p new) :=
  (stable_foldl (fun g v => stable_relink g p .blocks v) new g).trans
    (stable_foldl (fun g v => stable_kidsInsert g p .blocks v) new _)

/-- a result whose core is a stable function of the old core -/
theorem stable_of_core' {g g' X : G} (h : core g' = X) (hX : Stable (core g) X) : Stable g g' :=
  stable_of_core h hX.n hX.kind hX.uuid

theorem setDiscard_stable {g g' : G} {q : Nat} {s : Slot} {v : Nat} (h : setDiscard g q s v = .ok g') : Stable g g' :=
  stable_of_core' (setDiscard_core h) (stable_detach _ _ _ _)

theorem setAdd_stable {g g' : G} {p : Nat} {s : Slot} {v : Nat} (h : setAdd g p s v = .ok g') : Stable g g' :=
  stable_of_core' (setAdd_core h) (stable_attach _ _ _ _)

theorem blkUpdate_stable {g g' : G} {p : Nat} {vs : List Nat} (h : blkUpdate g p vs = .ok g') : Stable g g' :=
  stable_of_core' (blkUpdate_core h) (stable_blkUpdatePure _ _ _)

theorem nodeSetAdd_stable {g g' : G} {p : Nat} {s : Slot} {v : Nat} (h : nodeSetAdd g p s v = .ok g') : Stable g g' := by
  unfold nodeSetAdd at h
  split at h
  · exact blkUpdate_stable h
  · exact setAdd_stable h

theorem modListRemove_stable {g g' : G} {i v : Nat} (h : modListRemove g i v = .ok g') : Stable g g' :=
  stable_of_core' (modListRemove_core h) (stable_detach _ _ _ _)

theorem modInsert_stable {g g' : G} {i : Nat} {k : Int} {v : Nat} (h : modInsert g i k v = .ok g') : Stable g g' :=
  stable_of_core' (modInsert_core h) ((stable_relink _ _ _ _).trans (stable_kidsSet _ _ _ _))

theorem modAppend_stable {g g' : G} {i v : Nat} (h : modAppend g i v = .ok g') : Stable g g' := modInsert_stable h

theorem modDelItem_stable {g g' : G} {i : Nat} {k : Int} (h : modDelItem g i k = .ok g') : Stable g g' := by
  obtain ⟨idx, v, _, _, hc⟩ := modDelItem_core h
  exact stable_of_core' hc ((stable_setPar _ _ _).trans (stable_kidsSet _ _ _ _))

theorem modSetItem_stable {g g' : G} {i : Nat} {k : Int} {v : Nat} (h : modSetItem g i k v = .ok g') : Stable g g' := by
  obtain ⟨idx, old, _, _, _, hc⟩ := modSetItem_core h
  exact stable_of_core' hc
    (((stable_setPar _ _ _).trans (stable_relink _ _ _ _)).trans (stable_kidsSet _ _ _ _))

theorem modReverse_stable (g : G) (i : Nat) : Stable g (modReverse g i) := ⟨rfl, rfl, rfl⟩

theorem modClear_stable {g g' : G} {i : Nat} (h : modClear g i = .ok g') : Stable g g' :=
  stable_foldE (fun _ _ _ h => modDelItem_stable h) _ h

theorem setName_stable (g : G) (v nm : Nat) : Stable g (setName g v nm) :=
  stable_of_core (setName_core g v nm) rfl rfl rfl

theorem setPayload_stable (g : G) (v : Nat) (pl : Payload) : Stable g (setPayload g v pl) :=
  stable_of_core (setPayload_core g v pl) rfl rfl rfl

theorem setParent_stable {g g' : G} {c : Nat} {p : Option Nat} (h : setParent g c p = .ok g') : Stable g g' := by
  unfold setParent at h
  split at h
  · cases h
  · rename_i s hs
    split at h
    · cases h
    · rename_i g1 h1
      have e1 : Stable g g1 := by
        split at h1
        · split at h1
          · exact modListRemove_stable h1
          · exact setDiscard_stable h1
        · cases h1; exact Stable.refl _
      split at h
      · cases h; exact e1
      · split at h
        · exact e1.trans (modAppend_stable h)
        · exact e1.trans (nodeSetAdd_stable h)

/-- allocation only grows; kinds and uuids of existing nodes never change -/
def Grows (g g' : G) : Prop := g.n ≤ g'.n ∧ ∀ x, x < g.n → g'.kind x = g.kind x ∧ g'.uuid x = g.uuid x

theorem Stable.grows {g g' : G} (h : Stable g g') : Grows g g' :=
  ⟨Nat.le_of_eq h.n.symm, fun x _ => ⟨by rw [h.kind], by rw [h.uuid]⟩⟩

theorem Grows.trans {a b c : G} (h1 : Grows a b) (h2 : Grows b c) : Grows a c :=
  ⟨Nat.le_trans h1.1 h2.1, fun x hx =>
    ⟨((h2.2 x (Nat.lt_of_lt_of_le hx h1.1)).1).trans (h1.2 x hx).1,
     ((h2.2 x (Nat.lt_of_lt_of_le hx h1.1)).2).trans (h1.2 x hx).2⟩⟩

theorem grows_alloc (g : G) (k : Kind) (u : Nat) : Grows g (alloc g k u).1 :=
  ⟨Nat.le_succ _, fun x hx => by simp [Nat.ne_of_lt hx]⟩

theorem bindE_ok {x : Except Exc G} {f : G → Except Exc G} {g' : G} (h : bindE x f = .ok g') :
    ∃ g2, x = .ok g2 ∧ f g2 = .ok g' := by
  cases x with
  | error e => simp [bindE] at h
  | ok g2 => exact ⟨g2, rfl, h⟩

theorem foldl_bindE_inv {α : Type} (I : G → Prop) (body : G → α → Except Exc G) (l : List α)
    (hstep : ∀ a ∈ l, ∀ g g', I g → body g a = .ok g' → I g') :
    ∀ (acc : Except Exc G) (g' : G), (∀ g, acc = .ok g → I g) →
      l.foldl (fun acc a => bindE acc fun g => body g a) acc = .ok g' → I g' := by
  induction l with
  | nil => intro acc g' hacc h; exact hacc g' h
  | cons a as ih =>
    intro acc g' hacc h
    simp only [List.foldl_cons] at h
    refine ih (fun b hb => hstep b (List.mem_cons_of_mem _ hb)) _ g' ?_ h
    intro g1 hg1
    cases acc with
    | error e => simp [bindE] at hg1
    | ok g0 => exact hstep a List.mem_cons_self g0 g1 (hacc g0 rfl) hg1

/-- every operation: allocation only grows, kinds and uuids of existing nodes are unchanged -/
theorem step_grows {g g' : G} {op : Op} (hs : step g op = .ok g') : Grows g g' := by
  cases op with
  | mkIR u =>
    simp only [step] at hs; cases hs
    exact ⟨Nat.le_succ _, fun x hx => by
      have e1 : (mkIR g u).kind = (alloc g .ir u).1.kind := rfl
      have e2 : (mkIR g u).uuid = (alloc g .ir u).1.uuid := rfl
      rw [e1, e2]; simp [Nat.ne_of_lt hx]⟩
  | mk k u kids parent =>
    simp only [step] at hs
    split at hs
    · cases hs
    · generalize hgen : alloc g k u = a at hs
      have ha1 : a.1 = (alloc g k u).1 := by rw [hgen]
      have ha2 : a.2 = g.n := by rw [← hgen]; rfl
      obtain ⟨g1, v⟩ := a
      simp only at ha1 ha2 hs
      subst ha1 ha2
      obtain ⟨g2, hfold, hs'⟩ := bindE_ok hs
      have hI : Stable (alloc g k u).1 g2 := by
        refine foldl_bindE_inv (fun g' => Stable (alloc g k u).1 g')
          (fun g0 (x : Slot × List Nat) => if x.1 = .blocks then blkUpdate g0 g.n x.2
                 else foldE (fun g0 y => setAdd g0 g.n x.1 y) x.2 g0) kids ?_ _ g2 ?_ hfold
        · intro sv _ ga gb hga hbody
          split at hbody
          · exact hga.trans (blkUpdate_stable hbody)
          · exact hga.trans (stable_foldE (fun _ _ _ h => setAdd_stable h) _ hbody)
        · intro g0 hg0; cases hg0; exact Stable.refl _
      refine (grows_alloc g k u).trans (hI.grows.trans ?_)
      split at hs'
      · exact (setParent_stable hs').grows
      · cases hs'; exact (Stable.refl _).grows
  | mkSym u nm pl parent =>
    simp only [step, alloc] at hs
    have hg : Grows g { (alloc g .symbol u).1 with
        name := fun x => if x = g.n then nm else g.name x,
        payload := fun x => if x = g.n then pl else g.payload x } := grows_alloc g .symbol u
    split at hs
    · exact hg.trans (setParent_stable hs).grows
    · cases hs; exact hg
  | setParent c p => exact (setParent_stable hs).grows
  | add p s v => exact (nodeSetAdd_stable hs).grows
  | discard p s v => exact (setDiscard_stable hs).grows
  | remove p s v =>
    simp only [step] at hs
    split at hs
    · exact (setDiscard_stable hs).grows
    · cases hs
  | pop p s v =>
    simp only [step] at hs
    split at hs
    · cases hs
    · split at hs
      · exact (setDiscard_stable hs).grows
      · cases hs
  | clear p s order =>
    simp only [step] at hs
    split at hs
    · exact (stable_foldE (fun _ _ _ h => setDiscard_stable h) _ hs).grows
    · cases hs
  | update p s vs =>
    simp only [step] at hs
    split at hs
    · exact (blkUpdate_stable hs).grows
    · exact (stable_foldE (fun _ _ _ h => setAdd_stable h) _ hs).grows
  | isub p s vs =>
    simp only [step] at hs
    exact (stable_foldE (fun _ _ _ h => setDiscard_stable h) _ hs).grows
  | iand p s vs order =>
    simp only [step] at hs
    split at hs
    · exact (stable_foldE (fun _ _ _ h => setDiscard_stable h) _ hs).grows
    · cases hs
  | ixor p s vs =>
    simp only [step] at hs
    refine (stable_foldE (fun g1 x g2 h => ?_) _ hs).grows
    split at h
    · exact setDiscard_stable h
    · exact nodeSetAdd_stable h
  | insert i k v => exact (modInsert_stable hs).grows
  | append i v => exact (modAppend_stable hs).grows
  | extend i vs =>
    simp only [step] at hs
    exact (stable_foldE (fun _ _ _ h => modAppend_stable h) _ hs).grows
  | delItem i k => exact (modDelItem_stable hs).grows
  | setItem i k v => exact (modSetItem_stable hs).grows
  | listRemove i v => exact (modListRemove_stable hs).grows
  | listPop i k =>
    simp only [step] at hs
    split at hs
    · cases hs
    · exact (modDelItem_stable hs).grows
  | reverse i => simp only [step] at hs; cases hs; exact (modReverse_stable g i).grows
  | listClear i => exact (modClear_stable hs).grows
  | setName v nm => simp only [step] at hs; cases hs; exact (setName_stable g v nm).grows
  | setPayload v pl => simp only [step] at hs; cases hs; exact (setPayload_stable g v pl).grows

/-! ### back-pointers after `add` / `update` / `insert` -/

theorem relink_par (g : G) (p : Nat) (s : Slot) (v c : Nat) :
    (relink g p s v).par c = if c = v then some p else g.par c := by
  unfold relink
  simp only [setPar_par]
  split
  · rfl
  · rename_i hc
    unfold detachOld
    split
    · rw [detach_par]; simp [hc]
    · rfl

theorem attach_par (g : G) (p : Nat) (s : Slot) (v c : Nat) :
    (attach g p s v).par c = if c = v then some p else g.par c := by
  unfold attach; rw [kidsInsert_par, relink_par]

theorem blkUpdatePure_par (g : G) (p : Nat) (new : List Nat) (c : Nat) :
    (blkUpdatePure g p new).par c = if c ∈ new then some p else g.par c := by
  unfold blkUpdatePure
  have h1 : ∀ (l : List Nat) (g0 : G), (l.foldl (fun g v => kidsInsert g p .blocks v) g0).par = g0.par := by
    intro l
    induction l with
    | nil => intro g0; rfl
    | cons a as ih => intro g0; simp only [List.foldl_cons]; rw [ih]; rfl
  rw [h1]
  induction new generalizing g with
  | nil => simp
  | cons a as ih =>
    simp only [List.foldl_cons]
    rw [ih, relink_par]
    simp only [List.mem_cons]
    by_cases h1 : c ∈ as
    · simp [h1]
    · by_cases h2 : c = a
      · simp [h2]
      · simp [h1, h2]

theorem setAdd_par {g g' : G} {p : Nat} {s : Slot} {v : Nat} (h : setAdd g p s v = .ok g') (c : Nat) :
    g'.par c = if c = v then some p else g.par c := by
  have := congrArg (fun x => G.par x c) (setAdd_core h)
  simp only [core_par] at this
  rw [this, attach_par]; rfl

theorem blkUpdate_par {g g' : G} {p : Nat} {vs : List Nat} (h : blkUpdate g p vs = .ok g') (c : Nat) :
    g'.par c = if c ∈ blkNew g p vs then some p else g.par c := by
  have := congrArg (fun x => G.par x c) (blkUpdate_core h)
  simp only [core_par] at this
  rw [this, blkUpdatePure_par]; rfl

theorem modInsert_par {g g' : G} {i : Nat} {k : Int} {v : Nat} (h : modInsert g i k v = .ok g') (c : Nat) :
    g'.par c = if c = v then some i else g.par c := by
  have := congrArg (fun x => G.par x c) (modInsert_core h)
  simp only [core_par] at this
  rw [this]
  unfold modInsertPure
  rw [kidsSet_par, relink_par]; rfl

theorem modAppend_par {g g' : G} {i v : Nat} (h : modAppend g i v = .ok g') (c : Nat) :
    g'.par c = if c = v then some i else g.par c := modInsert_par h c

/-- fold invariant that also records which elements were processed -/
theorem foldl_bindE_inv_done {α : Type} (I : List α → G → Prop) (body : G → α → Except Exc G) (l : List α)
    (hstep : ∀ done a, a ∈ l → ∀ g g', I done g → body g a = .ok g' → I (a :: done) g') :
    ∀ (done : List α) (acc : Except Exc G) (g' : G), (∀ g, acc = .ok g → I done g) →
      l.foldl (fun acc a => bindE acc fun g => body g a) acc = .ok g' →
      ∃ done', (∀ a, a ∈ l ∨ a ∈ done → a ∈ done') ∧ I done' g' := by
  induction l with
  | nil => intro done acc g' hacc h; exact ⟨done, fun a ha => ha.resolve_left List.not_mem_nil, hacc g' h⟩
  | cons a as ih =>
    intro done acc g' hacc h
    simp only [List.foldl_cons] at h
    have hacc' : ∀ g1, (bindE acc fun g => body g a) = .ok g1 → I (a :: done) g1 := by
      intro g1 hg1
      cases acc with
      | error e => simp [bindE] at hg1
      | ok g0 => exact hstep done a List.mem_cons_self g0 g1 (hacc g0 rfl) hg1
    obtain ⟨done', hd, hI⟩ :=
      ih (fun done b hb => hstep done b (List.mem_cons_of_mem _ hb)) (a :: done) _ g' hacc' h
    refine ⟨done', ?_, hI⟩
    intro b hb
    apply hd
    rcases hb with hb | hb
    · rcases List.mem_cons.1 hb with rfl | hb
      · exact Or.inr List.mem_cons_self
      · exact Or.inl hb
    · exact Or.inr (List.mem_cons_of_mem _ hb)

theorem foldE_setAdd_par {p : Nat} {s : Slot} : ∀ (vs : List Nat) {g g' : G},
    foldE (fun g y => setAdd g p s y) vs g = .ok g' → ∀ c, g'.par c = if c ∈ vs then some p else g.par c := by
  intro vs
  induction vs with
  | nil => intro g g' h c; cases h; simp
  | cons a as ih =>
    intro g g' h c
    obtain ⟨g1, h1, h2⟩ := foldE_cons_ok h
    rw [ih h2 c, setAdd_par h1 c]
    simp only [List.mem_cons]
    by_cases h1 : c ∈ as
    · simp [h1]
    · by_cases h2 : c = a
      · simp [h2]
      · simp [h1, h2]

theorem setDiscard_par {g g' : G} {q : Nat} {s : Slot} {v : Nat} (h : setDiscard g q s v = .ok g') (c : Nat) :
    g'.par c = if c = v ∧ v ∈ g.kids q s then none else g.par c := by
  have := congrArg (fun x => G.par x c) (setDiscard_core h)
  simp only [core_par] at this
  rw [this, detach_par]; rfl

theorem modListRemove_par {g g' : G} {i v : Nat} (h : modListRemove g i v = .ok g') (c : Nat) :
    g'.par c = if c = v then none else g.par c := by
  have := congrArg (fun x => G.par x c) (modListRemove_core h)
  simp only [core_par] at this
  rw [this, detach_par]
  have hm : v ∈ g.kids i .mods := modListRemove_mem h
  simp [hm]

/-- the parent setter changes no other node's back-pointer -/
theorem setParent_par_ne {g g' : G} {c : Nat} {p : Option Nat} (h : setParent g c p = .ok g') {x : Nat}
    (hx : x ≠ c) : g'.par x = g.par x := by
  unfold setParent at h
  split at h
  · cases h
  · rename_i s hs
    split at h
    · cases h
    · rename_i g1 h1
      have e1 : g1.par x = g.par x := by
        split at h1
        · split at h1
          · rw [modListRemove_par h1]; simp [hx]
          · rw [setDiscard_par h1]; simp [hx]
        · cases h1; rfl
      split at h
      · cases h; exact e1
      · split at h
        · rw [modAppend_par h]; simp [hx, e1]
        · unfold nodeSetAdd at h
          split at h
          · rw [blkUpdate_par h]
            rw [if_neg (by unfold blkNew; simp [List.mem_filter, hx]), e1]
          · rw [setAdd_par h]; simp [hx, e1]

end Gtirb.Forest
