import GtirbModel.ProtoWF
/-! Helper lemmas for C01 / C02 / C17 (model E: protobuf writer and staged reader). -/
namespace Gtirb.Msg
open Gtirb

/-! ### the UUID table -/

theorem Env.find_none_iff {env : Env} {u : U} : env.find u = none ↔ u ∉ env.map (·.1) := by
  induction env with
  | nil => simp [Env.find]
  | cons a env ih =>
    simp only [Env.find] at ih ⊢
    by_cases h : a.1 = u
    · simp [h]
    · have h' : ¬ u = a.1 := fun e => h e.symm
      simpa [List.find?_cons, h, h'] using ih

theorem Env.find_of_mem {env : Env} {u : U} {k : KindTag}
    (hnd : (env.map (·.1)).Nodup) (hm : (u, k) ∈ env) : env.find u = some k := by
  induction env with
  | nil => cases hm
  | cons a env ih =>
    rw [List.map_cons, List.nodup_cons] at hnd
    by_cases h : a.1 = u
    · rcases List.mem_cons.1 hm with e | hm'
      · subst e; simp [Env.find]
      · exact absurd (List.mem_map.2 ⟨(u, k), hm', h.symm ▸ rfl⟩) (h ▸ hnd.1)
    · rcases List.mem_cons.1 hm with e | hm'
      · subst e; exact absurd rfl h
      · have := ih hnd.2 hm'
        simp only [Env.find] at this ⊢
        simpa [List.find?_cons, h] using this

theorem Env.mem_of_find {env : Env} {u : U} {k : KindTag} (h : env.find u = some k) : (u, k) ∈ env := by
  simp only [Env.find, Option.map_eq_some_iff] at h
  obtain ⟨a, ha, rfl⟩ := h
  have h1 := List.mem_of_find?_eq_some ha
  have h2 := List.find?_some ha
  simp at h2
  subst h2
  exact h1

theorem fresh_eq_ok {env : Env} {u : U} {k : KindTag} (h16 : u.length = 16)
    (hf : u ∉ env.map (·.1)) : fresh env u k = .ok () := by
  simp [fresh, checkUuid, h16, Env.find_none_iff.2 hf]

theorem fresh_ok {env : Env} {u : U} {k : KindTag} {r : Unit} (h : fresh env u k = .ok r) :
    u.length = 16 ∧ u ∉ env.map (·.1) := by
  unfold fresh checkUuid at h
  by_cases h16 : u.length = 16
  · refine ⟨h16, ?_⟩
    rw [← Env.find_none_iff]
    simp only [h16, if_true] at h
    cases hf : env.find u with
    | none => rfl
    | some k' => rw [hf] at h; simp at h; split at h <;> cases h
  · simp [h16] at h

theorem checkUuid_ok {u : U} {r : Unit} (h : checkUuid u = .ok r) : u.length = 16 := by
  unfold checkUuid at h
  by_cases h16 : u.length = 16
  · exact h16
  · simp [h16] at h

/-! ### de-duplication -/

section dedup
variable {α : Type} [DecidableEq α]

theorem dedup_foldl_id (l acc : List α) (h : (acc ++ l).Nodup) :
    l.foldl (fun acc x => if x ∈ acc then acc else acc ++ [x]) acc = acc ++ l := by
  induction l generalizing acc with
  | nil => simp
  | cons x xs ih =>
    have hx : x ∉ acc := by
      intro hm
      rw [List.nodup_append] at h
      exact h.2.2 x hm x (List.mem_cons_self) rfl
    simp only [List.foldl_cons, hx, if_false]
    rw [ih]
    · simp
    · simpa using h

theorem mem_dedup_foldl (l acc : List α) (y : α) :
    y ∈ l.foldl (fun acc x => if x ∈ acc then acc else acc ++ [x]) acc ↔ y ∈ acc ∨ y ∈ l := by
  induction l generalizing acc with
  | nil => simp
  | cons x xs ih =>
    simp only [List.foldl_cons, ih, List.mem_cons]
    by_cases hx : x ∈ acc
    · simp only [hx, if_true]
      constructor
      · rintro (h | h)
        · exact .inl h
        · exact .inr (.inr h)
      · rintro (h | h | h)
        · exact .inl h
        · exact .inl (h ▸ hx)
        · exact .inr h
    · simp only [hx, if_false, List.mem_append, List.mem_singleton]
      constructor
      · rintro ((h | h) | h)
        · exact .inl h
        · exact .inr (.inl h)
        · exact .inr (.inr h)
      · rintro (h | h | h)
        · exact .inl (.inl h)
        · exact .inl (.inr h)
        · exact .inr h

theorem nodup_dedup_foldl (l acc : List α) (h : acc.Nodup) :
    (l.foldl (fun acc x => if x ∈ acc then acc else acc ++ [x]) acc).Nodup := by
  induction l generalizing acc with
  | nil => simpa
  | cons x xs ih =>
    simp only [List.foldl_cons]
    apply ih
    by_cases hx : x ∈ acc
    · simpa [hx]
    · simp only [hx, if_false]
      rw [List.nodup_append]
      refine ⟨h, by simp, ?_⟩
      intro a ha b hb
      simp at hb
      subst hb
      intro e; subst e; exact hx ha

theorem nodupB_iff (l : List α) : nodupB l = true ↔ l.Nodup := by
  induction l with
  | nil => simp [nodupB]
  | cons x xs ih => simp [nodupB, ih]

end dedup

theorem dedupNat_id {l : List Nat} (h : l.Nodup) : dedupNat l = l := by
  have := dedup_foldl_id l [] (by simpa using h)
  simpa [dedupNat] using this

theorem dedupEdges_id {l : List EdgeV} (h : l.Nodup) : dedupEdges l = l := by
  have := dedup_foldl_id l [] (by simpa using h)
  simpa [dedupEdges] using this

theorem mem_dedupEdges {l : List EdgeV} {e : EdgeV} : e ∈ dedupEdges l ↔ e ∈ l := by
  simp [dedupEdges, mem_dedup_foldl]

theorem mem_dedupNat {l : List Nat} {e : Nat} : e ∈ dedupNat l ↔ e ∈ l := by
  simp [dedupNat, mem_dedup_foldl]

theorem nodup_dedupNat (l : List Nat) : (dedupNat l).Nodup := by
  simpa [dedupNat] using nodup_dedup_foldl l [] (by simp)

theorem nodup_dedupEdges (l : List EdgeV) : (dedupEdges l).Nodup := by
  simpa [dedupEdges] using nodup_dedup_foldl l [] (by simp)


/-! ### element-wise relation between two lists -/

inductive All2 {α β : Type} (R : α → β → Prop) : List α → List β → Prop
  | nil : All2 R [] []
  | cons {a b as bs} : R a b → All2 R as bs → All2 R (a :: as) (b :: bs)

attribute [simp] All2.nil

theorem All2.length_eq {α β : Type} {R : α → β → Prop} {as : List α} {bs : List β}
    (h : All2 R as bs) : as.length = bs.length := by
  induction h with
  | nil => rfl
  | cons _ _ ih => simp [ih]

theorem All2.mem_left {α β : Type} {R : α → β → Prop} {as : List α} {bs : List β}
    (h : All2 R as bs) {a : α} (ha : a ∈ as) : ∃ b ∈ bs, R a b := by
  induction h with
  | nil => cases ha
  | cons hr _ ih =>
    rcases List.mem_cons.1 ha with rfl | ha
    · exact ⟨_, List.mem_cons_self, hr⟩
    · obtain ⟨b, hb, hr'⟩ := ih ha
      exact ⟨b, List.mem_cons_of_mem _ hb, hr'⟩

theorem All2.imp {α β : Type} {R S : α → β → Prop} {as : List α} {bs : List β}
    (h : All2 R as bs) (hi : ∀ a b, R a b → S a b) : All2 S as bs := by
  induction h with
  | nil => exact .nil
  | cons hr _ ih => exact .cons (hi _ _ hr) ih

/-! ### node kinds in decode order -/

def blockKind : BlockV → U × KindTag
  | .code u _ _ _ => (u, .code)
  | .data u _ _ => (u, .data)

def intervalKinds (x : IntervalV) : List (U × KindTag) := x.blocks.map blockKind ++ [(x.uuid, .interval)]
def sectionKinds (s : SectionV) : List (U × KindTag) :=
  (s.uuid, .section) :: s.intervals.flatMap intervalKinds
def moduleKinds (m : ModuleV) : List (U × KindTag) :=
  (m.uuid, .module) :: m.proxies.map (fun p => (p, KindTag.proxy)) ++ m.sections.flatMap sectionKinds
    ++ m.symbols.map (fun s => (s.uuid, KindTag.symbol))
def irKinds (v : IRV) : List (U × KindTag) := (v.uuid, .ir) :: v.modules.flatMap moduleKinds

@[simp] theorem blockKind_fst (b : BlockV) : (blockKind b).1 = b.uuid := by cases b <;> rfl

def stripI (x : IntervalV) : IntervalV := { x with exprs := [] }
def stripS (s : SectionV) : SectionV := { s with intervals := s.intervals.map stripI }

def dmOK : BlockV → Prop
  | .code _ _ _ dm => pyEnumHas "DecodeMode" dm = true
  | .data _ _ _ => True

/-! ### reader, one step at a time (any message) -/

theorem decodeBlock_ok {env env' : Env} {b : MBlock} {v : BlockV}
    (h : decodeBlock env b = .ok (v, env')) :
    blockToMsg v = b ∧ env' = blockKind v :: env ∧ v.uuid.length = 16 ∧ v.uuid ∉ env.map (·.1)
      ∧ dmOK v := by
  obtain ⟨off, val⟩ := b
  unfold decodeBlock at h
  simp only at h
  split at h
  · cases h
  · next _ c =>
    split at h
    · cases h
    · next r hf =>
      have hf' := fresh_ok hf
      split at h
      · next hdm =>
        cases h
        exact ⟨rfl, rfl, hf'.1, hf'.2, hdm⟩
      · cases h
  · next _ d =>
    split at h
    · cases h
    · next r hf =>
      have hf' := fresh_ok hf
      cases h
      exact ⟨rfl, rfl, hf'.1, hf'.2, trivial⟩

theorem decodeBlocks_ok {bs : List MBlock} : ∀ {env env' : Env} {vs : List BlockV},
    decodeBlocks env bs = .ok (vs, env') →
    vs.map blockToMsg = bs ∧ env' = (vs.map blockKind).reverse ++ env
      ∧ (∀ v ∈ vs, v.uuid.length = 16) ∧ (∀ v ∈ vs, dmOK v) := by
  induction bs with
  | nil => intro env env' vs h; simp [decodeBlocks] at h; obtain ⟨rfl, rfl⟩ := h; simp
  | cons b bs ih =>
    intro env env' vs h
    unfold decodeBlocks at h
    split at h
    · cases h
    · next v env1 h1 =>
      split at h
      · cases h
      · next vs' env2 h2 =>
        cases h
        obtain ⟨a1, a2, a3, a4, a5⟩ := decodeBlock_ok h1
        obtain ⟨b1, b2, b3, b4⟩ := ih h2
        subst a2 b2
        refine ⟨by simp [a1, b1], by simp, ?_, ?_⟩
        · intro x hx; rcases List.mem_cons.1 hx with rfl | hx
          · exact a3
          · exact b3 x hx
        · intro x hx; rcases List.mem_cons.1 hx with rfl | hx
          · exact a5
          · exact b4 x hx


/-- what one accepted interval message determines (first pass: no expressions yet) -/
def IntervalRel (x : IntervalV) (mx : MByteInterval) : Prop :=
  x.uuid = mx.uuid ∧ x.size = mx.size ∧ x.contents = mx.contents
    ∧ x.addr = (if mx.hasAddress then some mx.address else none)
    ∧ x.blocks.map blockToMsg = mx.blocks ∧ x.exprs = []
    ∧ x.contents.length ≤ x.size ∧ x.uuid.length = 16
    ∧ (∀ b ∈ x.blocks, b.uuid.length = 16) ∧ (∀ b ∈ x.blocks, dmOK b)

theorem decodeInterval_ok {env env' : Env} {mx : MByteInterval} {x : IntervalV}
    (h : decodeInterval env mx = .ok (x, env')) :
    IntervalRel x mx ∧ x.uuid ∉ env.map (·.1) ∧ env' = (intervalKinds x).reverse ++ env := by
  unfold decodeInterval at h
  split at h
  · cases h
  · next r hf =>
    have hf' := fresh_ok hf
    split at h
    · cases h
    · next hlen =>
      split at h
      · cases h
      · next blocks env1 hb =>
        cases h
        obtain ⟨b1, b2, b3, b4⟩ := decodeBlocks_ok hb
        subst b2
        refine ⟨⟨rfl, rfl, rfl, rfl, b1, rfl, by simpa using hlen, hf'.1, b3, b4⟩, hf'.2, ?_⟩
        simp [intervalKinds]

theorem decodeIntervals_ok {mxs : List MByteInterval} : ∀ {env env' : Env} {xs : List IntervalV},
    decodeIntervals env mxs = .ok (xs, env') →
    All2 IntervalRel xs mxs ∧ env' = (xs.flatMap intervalKinds).reverse ++ env := by
  induction mxs with
  | nil => intro env env' xs h; simp [decodeIntervals] at h; obtain ⟨rfl, rfl⟩ := h; simp
  | cons b bs ih =>
    intro env env' vs h
    unfold decodeIntervals at h
    split at h
    · cases h
    · next v env1 h1 =>
      split at h
      · cases h
      · next vs' env2 h2 =>
        cases h
        obtain ⟨a1, _, a3⟩ := decodeInterval_ok h1
        obtain ⟨b1, b2⟩ := ih h2
        subst a3 b2
        exact ⟨.cons a1 b1, by simp⟩

def SectionRel (s : SectionV) (ms : MSection) : Prop :=
  s.uuid = ms.uuid ∧ s.name = ms.name ∧ s.flags = dedupNat ms.sectionFlags
    ∧ ms.sectionFlags.all (pyEnumHas "SectionFlag") = true
    ∧ All2 IntervalRel s.intervals ms.byteIntervals ∧ s.uuid.length = 16

theorem decodeSection_ok {env env' : Env} {ms : MSection} {s : SectionV}
    (h : decodeSection env ms = .ok (s, env')) :
    SectionRel s ms ∧ s.uuid ∉ env.map (·.1) ∧ env' = (sectionKinds s).reverse ++ env := by
  unfold decodeSection at h
  split at h
  · cases h
  · next r hf =>
    have hf' := fresh_ok hf
    split at h
    · next hfl =>
      split at h
      · cases h
      · next ivs env1 hb =>
        cases h
        obtain ⟨b1, b2⟩ := decodeIntervals_ok hb
        subst b2
        exact ⟨⟨rfl, rfl, rfl, hfl, b1, hf'.1⟩, hf'.2, by simp [sectionKinds]⟩
    · cases h

theorem decodeSections_ok {mss : List MSection} : ∀ {env env' : Env} {ss : List SectionV},
    decodeSections env mss = .ok (ss, env') →
    All2 SectionRel ss mss ∧ env' = (ss.flatMap sectionKinds).reverse ++ env := by
  induction mss with
  | nil => intro env env' xs h; simp [decodeSections] at h; obtain ⟨rfl, rfl⟩ := h; simp
  | cons b bs ih =>
    intro env env' vs h
    unfold decodeSections at h
    split at h
    · cases h
    · next v env1 h1 =>
      split at h
      · cases h
      · next vs' env2 h2 =>
        cases h
        obtain ⟨a1, _, a3⟩ := decodeSection_ok h1
        obtain ⟨b1, b2⟩ := ih h2
        subst a3 b2
        exact ⟨.cons a1 b1, by simp⟩

theorem decodeProxies_ok {ps : List Bytes} : ∀ {env env' : Env} {vs : List U},
    decodeProxies env ps = .ok (vs, env') →
    vs = ps ∧ env' = (ps.map (fun p => (p, KindTag.proxy))).reverse ++ env ∧ (∀ p ∈ ps, p.length = 16) := by
  induction ps with
  | nil => intro env env' xs h; simp [decodeProxies] at h; obtain ⟨rfl, rfl⟩ := h; simp
  | cons p ps ih =>
    intro env env' vs h
    unfold decodeProxies at h
    split at h
    · cases h
    · next r hf =>
      have hf' := fresh_ok hf
      split at h
      · cases h
      · next vs' env2 h2 =>
        cases h
        obtain ⟨b1, b2, b3⟩ := ih h2
        subst b1 b2
        refine ⟨rfl, by simp, ?_⟩
        intro x hx; rcases List.mem_cons.1 hx with rfl | hx
        · exact hf'.1
        · exact b3 x hx

def payloadOfMsg : Option MPayload → PayloadV
  | none => .none
  | some (.value n) => .value n
  | some (.referentUuid u) => .referent u

def SymbolRel (env : Env) (s : SymbolV) (ms : MSymbol) : Prop :=
  s.uuid = ms.uuid ∧ s.name = ms.name ∧ s.atEnd = ms.atEnd ∧ s.payload = payloadOfMsg ms.payload
    ∧ s.uuid.length = 16
    ∧ (∀ u, s.payload = .referent u → u.length = 16 ∧ ∃ k, env.find u = some k ∧ isBlockKind k = true)

theorem decodeSymbol_ok {env env' : Env} {ms : MSymbol} {s : SymbolV}
    (h : decodeSymbol env ms = .ok (s, env')) :
    SymbolRel env s ms ∧ s.uuid ∉ env.map (·.1) ∧ env' = (s.uuid, .symbol) :: env := by
  obtain ⟨mu, mp, mn, ma⟩ := ms
  unfold decodeSymbol at h
  simp only at h
  split at h
  · cases h
  · next r hf =>
    have hf' := fresh_ok hf
    cases mp with
    | none =>
      simp only at h
      cases h
      exact ⟨⟨rfl, rfl, rfl, rfl, hf'.1, by intro u hu; cases hu⟩, hf'.2, rfl⟩
    | some p =>
      cases p with
      | value n =>
        simp only at h
        cases h
        exact ⟨⟨rfl, rfl, rfl, rfl, hf'.1, by intro u hu; cases hu⟩, hf'.2, rfl⟩
      | referentUuid u =>
        simp only at h
        split at h
        · cases h
        · next pl hpl =>
          cases h
          split at hpl
          · cases hpl
          · next r' hc =>
            split at hpl
            · next k hk =>
              split at hpl
              · next hbk =>
                cases hpl
                refine ⟨⟨rfl, rfl, rfl, rfl, hf'.1, ?_⟩, hf'.2, rfl⟩
                intro u' hu; cases hu
                exact ⟨checkUuid_ok hc, k, hk, hbk⟩
              · cases hpl
            · cases hpl


theorem decodeSymbols_ok {mss : List MSymbol} : ∀ {env env' : Env} {ss : List SymbolV},
    decodeSymbols env mss = .ok (ss, env') →
    All2 (fun s ms => ∃ e, SymbolRel e s ms) ss mss
      ∧ env' = (ss.map (fun s => (s.uuid, KindTag.symbol))).reverse ++ env := by
  induction mss with
  | nil => intro env env' xs h; simp [decodeSymbols] at h; obtain ⟨rfl, rfl⟩ := h; simp
  | cons b bs ih =>
    intro env env' vs h
    unfold decodeSymbols at h
    split at h
    · cases h
    · next v env1 h1 =>
      split at h
      · cases h
      · next vs' env2 h2 =>
        cases h
        obtain ⟨a1, _, a3⟩ := decodeSymbol_ok h1
        obtain ⟨b1, b2⟩ := ih h2
        subst a3 b2
        exact ⟨.cons ⟨_, a1⟩ b1, by simp⟩

/-- a referent accepted by the reader is a block-kind node that was in the table before the
module's symbols were decoded -/
theorem decodeSymbols_refs {mss : List MSymbol} : ∀ {env env' : Env} {ss : List SymbolV},
    decodeSymbols env mss = .ok (ss, env') →
    ∀ s ∈ ss, ∀ u, s.payload = .referent u → ∃ k, isBlockKind k = true ∧ (u, k) ∈ env := by
  induction mss with
  | nil => intro env env' xs h; simp [decodeSymbols] at h; obtain ⟨rfl, rfl⟩ := h; simp
  | cons b bs ih =>
    intro env env' vs h
    unfold decodeSymbols at h
    split at h
    · cases h
    · next v env1 h1 =>
      split at h
      · cases h
      · next vs' env2 h2 =>
        cases h
        obtain ⟨a1, _, a3⟩ := decodeSymbol_ok h1
        subst a3
        intro s hs u hu
        rcases List.mem_cons.1 hs with rfl | hs
        · obtain ⟨_, k, hk, hbk⟩ := a1.2.2.2.2.2 u hu
          exact ⟨k, hbk, Env.mem_of_find hk⟩
        · obtain ⟨k, hbk, hm⟩ := ih h2 s hs u hu
          rcases List.mem_cons.1 hm with e | hm
          · cases e; cases hbk
          · exact ⟨k, hbk, hm⟩

theorem symRef_ok {env : Env} {u : Bytes} {r : Unit} (h : symRef env u = .ok r) :
    u.length = 16 ∧ env.find u = some .symbol := by
  unfold symRef at h
  split at h
  · cases h
  · next r' hc =>
    split at h
    · next hk => exact ⟨checkUuid_ok hc, hk⟩
    · cases h

theorem symRef_eq_ok {env : Env} {u : Bytes} (h16 : u.length = 16) (hf : env.find u = some .symbol) :
    symRef env u = .ok () := by
  simp [symRef, checkUuid, h16, hf]

def exprOfMsg : MSymExprValue → SymExprV
  | .addrConst off s => .addrConst off s
  | .addrAddr sc off s1 s2 => .addrAddr sc off s1 s2

def ExprRel (env : Env) (e : ExprEntryV) (kv : Nat × MSymExpr) : Prop :=
  e.key = kv.1 ∧ e.attrs = dedupNat kv.2.attributeFlags
    ∧ (∃ mv, kv.2.value = some mv ∧ e.expr = exprOfMsg mv)
    ∧ (∀ u ∈ exprSyms e.expr, u.length = 16 ∧ env.find u = some .symbol)

theorem decodeExpr_ok {env : Env} {kv : Nat × MSymExpr} {e : ExprEntryV}
    (h : decodeExpr env kv = .ok e) : ExprRel env e kv := by
  obtain ⟨k, mv, fl⟩ := kv
  unfold decodeExpr at h
  simp only at h
  split at h
  · cases h
  · next _ off s =>
    split at h
    · cases h
    · next r hs =>
      cases h
      refine ⟨rfl, rfl, ⟨_, rfl, rfl⟩, ?_⟩
      intro u hu
      simp [exprSyms] at hu
      subst hu
      exact symRef_ok hs
  · next _ sc off s1 s2 =>
    split at h
    · cases h
    · next r hs1 =>
      split at h
      · cases h
      · next r' hs2 =>
        cases h
        refine ⟨rfl, rfl, ⟨_, rfl, rfl⟩, ?_⟩
        intro u hu
        simp [exprSyms] at hu
        rcases hu with rfl | rfl
        · exact symRef_ok hs1
        · exact symRef_ok hs2

theorem decodeExprs_ok {env : Env} {kvs : List (Nat × MSymExpr)} : ∀ {es : List ExprEntryV},
    decodeExprs env kvs = .ok es → All2 (ExprRel env) es kvs := by
  induction kvs with
  | nil => intro es h; simp [decodeExprs] at h; subst h; exact .nil
  | cons kv kvs ih =>
    intro es h
    unfold decodeExprs at h
    split at h
    · cases h
    · next v h1 =>
      split at h
      · cases h
      · next vs h2 =>
        cases h
        exact .cons (decodeExpr_ok h1) (ih h2)

theorem fillExprsIntervals_ok {env : Env} : ∀ {vs : List IntervalV} {xs : List MByteInterval}
    {rs : List IntervalV}, vs.length = xs.length → fillExprsIntervals env vs xs = .ok rs →
    rs.map stripI = vs.map stripI
      ∧ All2 (fun r mx => All2 (ExprRel env) r.exprs mx.symbolicExpressions) rs xs := by
  intro vs
  induction vs with
  | nil =>
    intro xs rs hl h
    cases xs with
    | nil => simp [fillExprsIntervals] at h; subst h; simp
    | cons x xs => simp at hl
  | cons v vs ih =>
    intro xs rs hl h
    cases xs with
    | nil => simp at hl
    | cons x xs =>
      unfold fillExprsIntervals at h
      split at h
      · cases h
      · next es he =>
        split at h
        · cases h
        · next rest hr =>
          cases h
          obtain ⟨i1, i2⟩ := ih (by simpa using hl) hr
          exact ⟨by simp [i1, stripI], .cons (decodeExprs_ok he) i2⟩

theorem fillExprsSections_ok {env : Env} : ∀ {vs : List SectionV} {xs : List MSection}
    {rs : List SectionV},
    All2 (fun v x => v.intervals.length = x.byteIntervals.length) vs xs →
    fillExprsSections env vs xs = .ok rs →
    rs.map stripS = vs.map stripS
      ∧ All2 (fun r ms => All2 (fun r mx => All2 (ExprRel env) r.exprs mx.symbolicExpressions)
          r.intervals ms.byteIntervals) rs xs := by
  intro vs xs rs hl
  induction hl generalizing rs with
  | nil => intro h; simp [fillExprsSections] at h; subst h; simp
  | cons hab _ ih =>
    intro h
    unfold fillExprsSections at h
    split at h
    · cases h
    · next ivs hi =>
      split at h
      · cases h
      · next rest hr =>
        cases h
        obtain ⟨i1, i2⟩ := ih hr
        obtain ⟨j1, j2⟩ := fillExprsIntervals_ok hab hi
        exact ⟨by simp [i1, j1, stripS], .cons j2 i2⟩

theorem cfgRef_ok {env : Env} {u : Bytes} {r : Unit} (h : cfgRef env u = .ok r) :
    u.length = 16 ∧ (env.find u = some .code ∨ env.find u = some .proxy) := by
  unfold cfgRef at h
  split at h
  · cases h
  · next r' hc =>
    split at h
    · next hk => exact ⟨checkUuid_ok hc, .inl hk⟩
    · next hk => exact ⟨checkUuid_ok hc, .inr hk⟩
    · cases h

theorem cfgRef_eq_ok {env : Env} {u : Bytes} (h16 : u.length = 16)
    (hf : env.find u = some .code ∨ env.find u = some .proxy) : cfgRef env u = .ok () := by
  rcases hf with hf | hf <;> simp [cfgRef, checkUuid, h16, hf]

def edgeOfMsg (me : MEdge) : EdgeV :=
  ⟨me.sourceUuid, me.targetUuid, me.label.map fun l => ⟨l.type, l.conditional, l.direct⟩⟩

theorem decodeEdge_ok {env : Env} {me : MEdge} {e : EdgeV} (h : decodeEdge env me = .ok e) :
    e = edgeOfMsg me
      ∧ (e.src.length = 16 ∧ (env.find e.src = some .code ∨ env.find e.src = some .proxy))
      ∧ (e.dst.length = 16 ∧ (env.find e.dst = some .code ∨ env.find e.dst = some .proxy))
      ∧ (∀ l, e.label = some l → pyEnumHas "EdgeType" l.type = true) := by
  obtain ⟨su, tu, lb⟩ := me
  unfold decodeEdge at h
  simp only at h
  split at h
  · cases h
  · next r hs =>
    split at h
    · cases h
    · next r' ht =>
      cases lb with
      | none =>
        simp only at h
        cases h
        exact ⟨rfl, cfgRef_ok hs, cfgRef_ok ht, by intro l hl; cases hl⟩
      | some l =>
        simp only at h
        split at h
        · next hty =>
          cases h
          exact ⟨rfl, cfgRef_ok hs, cfgRef_ok ht, by intro l' hl; cases hl; exact hty⟩
        · cases h

theorem decodeEdges_ok {env : Env} {mes : List MEdge} : ∀ {es : List EdgeV},
    decodeEdges env mes = .ok es →
    es = mes.map edgeOfMsg ∧ ∀ e ∈ es,
      (e.src.length = 16 ∧ (env.find e.src = some .code ∨ env.find e.src = some .proxy))
      ∧ (e.dst.length = 16 ∧ (env.find e.dst = some .code ∨ env.find e.dst = some .proxy))
      ∧ (∀ l, e.label = some l → pyEnumHas "EdgeType" l.type = true) := by
  induction mes with
  | nil => intro es h; simp [decodeEdges] at h; subst h; simp
  | cons me mes ih =>
    intro es h
    unfold decodeEdges at h
    split at h
    · cases h
    · next v h1 =>
      split at h
      · cases h
      · next vs h2 =>
        cases h
        obtain ⟨a1, a2⟩ := decodeEdge_ok h1
        obtain ⟨b1, b2⟩ := ih h2
        refine ⟨by simp [a1, b1], ?_⟩
        intro e he
        rcases List.mem_cons.1 he with rfl | he
        · exact a2
        · exact b2 e he


theorem intervalKinds_strip (x : IntervalV) : intervalKinds (stripI x) = intervalKinds x := rfl

theorem sectionKinds_strip (s : SectionV) : sectionKinds (stripS s) = sectionKinds s := by
  simp [sectionKinds, stripS, List.flatMap_map, intervalKinds_strip]

theorem flatMap_sectionKinds_congr {ss ss' : List SectionV} (h : ss.map stripS = ss'.map stripS) :
    ss.flatMap sectionKinds = ss'.flatMap sectionKinds := by
  have e : ∀ l : List SectionV, l.flatMap sectionKinds = (l.map stripS).flatMap sectionKinds := by
    intro l; simp [List.flatMap_map, sectionKinds_strip]
  rw [e ss, e ss', h]

theorem moduleKinds_env (m : ModuleV) (env : Env) :
    (moduleKinds m).reverse ++ env
      = (m.symbols.map (fun s => (s.uuid, KindTag.symbol))).reverse
        ++ ((m.sections.flatMap sectionKinds).reverse
          ++ ((m.proxies.map (fun p => (p, KindTag.proxy))).reverse ++ (m.uuid, KindTag.module) :: env)) := by
  simp [moduleKinds]

/-- what one accepted module message determines -/
def ModuleRel (env : Env) (mv : ModuleV) (mm : MModule) : Prop :=
  mv.uuid = mm.uuid ∧ mv.name = mm.name ∧ mv.binaryPath = mm.binaryPath
    ∧ mv.preferredAddr = mm.preferredAddr ∧ mv.rebaseDelta = mm.rebaseDelta
    ∧ mv.fileFormat = mm.fileFormat ∧ mv.isa = mm.isa ∧ mv.byteOrder = mm.byteOrder
    ∧ mv.proxies = mm.proxies
    ∧ mv.entryPoint = (if mm.entryPoint.isEmpty then none else some mm.entryPoint)
    ∧ mv.aux = decodeAux mm.auxData
    ∧ (pyEnumHas "ISA" mv.isa = true ∧ pyEnumHas "FileFormat" mv.fileFormat = true
        ∧ pyEnumHas "ByteOrder" mv.byteOrder = true)
    ∧ mv.uuid.length = 16 ∧ mv.uuid ∉ env.map (·.1) ∧ (∀ p ∈ mv.proxies, p.length = 16)
    ∧ (∃ secs, All2 SectionRel secs mm.sections ∧ mv.sections.map stripS = secs.map stripS)
    ∧ All2 (fun r ms => All2 (fun r mx =>
          All2 (ExprRel ((moduleKinds mv).reverse ++ env)) r.exprs mx.symbolicExpressions)
          r.intervals ms.byteIntervals) mv.sections mm.sections
    ∧ All2 (fun s ms => ∃ e, SymbolRel e s ms) mv.symbols mm.symbols
    ∧ (∀ u, mv.entryPoint = some u → u.length = 16 ∧
        Env.find ((mv.sections.flatMap sectionKinds).reverse
          ++ (mv.proxies.map (fun p => (p, KindTag.proxy))).reverse ++ (mv.uuid, .module) :: env) u
          = some .code)
    ∧ (∀ s ∈ mv.symbols, ∀ u, s.payload = .referent u → ∃ k, isBlockKind k = true ∧
        (u, k) ∈ (mv.sections.flatMap sectionKinds).reverse
          ++ (mv.proxies.map (fun p => (p, KindTag.proxy))).reverse ++ (mv.uuid, .module) :: env)

theorem decodeModule_ok {env env' : Env} {mm : MModule} {mv : ModuleV}
    (h : decodeModule env mm = .ok (mv, env')) :
    ModuleRel env mv mm ∧ env' = (moduleKinds mv).reverse ++ env := by
  unfold decodeModule at h
  split at h
  · cases h
  · next r hf =>
    have hf' := fresh_ok hf
    split at h
    · cases h
    · next hen =>
      simp only [Bool.not_eq_true', Bool.and_eq_false_iff, not_or, Bool.not_eq_false] at hen
      split at h
      · cases h
      · next proxies env1 hp =>
        obtain ⟨p1, p2, p3⟩ := decodeProxies_ok hp
        subst p1 p2
        split at h
        · cases h
        · next secs env2 hs =>
          obtain ⟨s1, s2⟩ := decodeSections_ok hs
          subst s2
          split at h
          · cases h
          · next entry hentry =>
            split at h
            · cases h
            · next syms env3 hsy =>
              obtain ⟨y1, y2⟩ := decodeSymbols_ok hsy
              subst y2
              split at h
              · cases h
              · next secs' hfill =>
                obtain ⟨f1, f2⟩ := fillExprsSections_ok
                  (s1.imp fun a b hab => hab.2.2.2.2.1.length_eq) hfill
                cases h
                have hk := flatMap_sectionKinds_congr f1
                refine ⟨⟨rfl, rfl, rfl, rfl, rfl, rfl, rfl, rfl, rfl, ?_, rfl, ⟨hen.1.1, hen.1.2, hen.2⟩,
                  hf'.1, hf'.2, p3, ⟨secs, s1, f1⟩, ?_, y1, ?_, ?_⟩, ?_⟩
                · simp only
                  split at hentry
                  · next he => cases hentry; simp [he]
                  · next he =>
                    split at hentry
                    · cases hentry
                    · split at hentry
                      · cases hentry; simp [he]
                      · cases hentry
                · simp only [moduleKinds_env, hk]; exact f2
                · intro u hu
                  simp only at hu
                  subst hu
                  split at hentry
                  · cases hentry
                  · split at hentry
                    · cases hentry
                    · next r' hc =>
                      split at hentry
                      · next hk' =>
                        cases hentry
                        refine ⟨checkUuid_ok hc, ?_⟩
                        simp only [hk]
                        simpa using hk'
                      · cases hentry
                · have := decodeSymbols_refs hsy
                  simp only [hk]
                  simpa using this
                · simp only [moduleKinds_env, hk]


theorem decodeModules_ok {mms : List MModule} : ∀ {env env' : Env} {mvs : List ModuleV},
    decodeModules env mms = .ok (mvs, env') →
    All2 (fun mv mm => ∃ e, ModuleRel e mv mm) mvs mms
      ∧ env' = (mvs.flatMap moduleKinds).reverse ++ env := by
  induction mms with
  | nil => intro env env' xs h; simp [decodeModules] at h; obtain ⟨rfl, rfl⟩ := h; simp
  | cons b bs ih =>
    intro env env' vs h
    unfold decodeModules at h
    split at h
    · cases h
    · next v env1 h1 =>
      split at h
      · cases h
      · next vs' env2 h2 =>
        cases h
        obtain ⟨a1, a3⟩ := decodeModule_ok h1
        obtain ⟨b1, b2⟩ := ih h2
        subst a3 b2
        exact ⟨.cons ⟨_, a1⟩ b1, by simp⟩

theorem fromMsg_ok {m : MIR} {v : IRV} (h : fromMsg m = .ok v) :
    v.uuid = m.uuid ∧ v.version = m.version ∧ v.version = Generated.protobufVersion
      ∧ v.uuid.length = 16 ∧ v.aux = decodeAux m.auxData
      ∧ v.edges = dedupEdges (m.cfg.edges.map edgeOfMsg)
      ∧ All2 (fun mv mm => ∃ e, ModuleRel e mv mm) v.modules m.modules
      ∧ (∀ e ∈ v.edges,
          (e.src.length = 16 ∧ (Env.find (irKinds v).reverse e.src = some .code
              ∨ Env.find (irKinds v).reverse e.src = some .proxy))
          ∧ (e.dst.length = 16 ∧ (Env.find (irKinds v).reverse e.dst = some .code
              ∨ Env.find (irKinds v).reverse e.dst = some .proxy))
          ∧ (∀ l, e.label = some l → pyEnumHas "EdgeType" l.type = true)) := by
  unfold fromMsg at h
  split at h
  · cases h
  · next r hc =>
    split at h
    · cases h
    · next hver =>
      split at h
      · cases h
      · next mods env hm =>
        split at h
        · cases h
        · next edges he =>
          cases h
          obtain ⟨m1, m2⟩ := decodeModules_ok hm
          obtain ⟨e1, e2⟩ := decodeEdges_ok he
          subst m2
          refine ⟨rfl, rfl, by simpa using hver, checkUuid_ok hc, rfl, by simp [e1], m1, ?_⟩
          intro e hmem
          have := e2 e (mem_dedupEdges.1 hmem)
          simpa [irKinds] using this


theorem decodeModules_steps {mms : List MModule} : ∀ {env env' : Env} {mvs : List ModuleV},
    decodeModules env mms = .ok (mvs, env') →
    All2 (fun mv mm => ∃ e e', decodeModule e mm = .ok (mv, e')) mvs mms := by
  induction mms with
  | nil => intro env env' xs h; simp [decodeModules] at h; obtain ⟨rfl, rfl⟩ := h; simp
  | cons b bs ih =>
    intro env env' vs h
    unfold decodeModules at h
    split at h
    · cases h
    · next v env1 h1 =>
      split at h
      · cases h
      · next vs' env2 h2 =>
        cases h
        exact .cons ⟨_, _, h1⟩ (ih h2)

theorem fromMsg_steps {m : MIR} {v : IRV} (h : fromMsg m = .ok v) :
    All2 (fun mv mm => ∃ e e', decodeModule e mm = .ok (mv, e')) v.modules m.modules := by
  unfold fromMsg at h
  split at h
  · cases h
  · split at h
    · cases h
    · split at h
      · cases h
      · next mods env hm =>
        split at h
        · cases h
        · cases h
          exact decodeModules_steps hm


/-! ### structural guarantees of accepted messages -/

def IntervalGood (x : IntervalV) : Prop :=
  x.contents.length ≤ x.size ∧ x.uuid.length = 16 ∧ (∀ b ∈ x.blocks, b.uuid.length = 16)
    ∧ (∀ b ∈ x.blocks, dmOK b)

def SectionGood (s : SectionV) : Prop := s.uuid.length = 16 ∧ ∀ x ∈ s.intervals, IntervalGood x

theorem IntervalGood_strip (x : IntervalV) : IntervalGood (stripI x) ↔ IntervalGood x := Iff.rfl

theorem SectionGood_strip (s : SectionV) : SectionGood (stripS s) ↔ SectionGood s := by
  simp only [SectionGood, stripS, List.mem_map]
  constructor
  · rintro ⟨h1, h2⟩
    exact ⟨h1, fun x hx => (IntervalGood_strip x).1 (h2 _ ⟨x, hx, rfl⟩)⟩
  · rintro ⟨h1, h2⟩
    refine ⟨h1, ?_⟩
    rintro _ ⟨x, hx, rfl⟩
    exact (IntervalGood_strip x).2 (h2 x hx)

theorem IntervalRel.good {x : IntervalV} {mx : MByteInterval} (h : IntervalRel x mx) :
    IntervalGood x := ⟨h.2.2.2.2.2.2.1, h.2.2.2.2.2.2.2.1, h.2.2.2.2.2.2.2.2.1, h.2.2.2.2.2.2.2.2.2⟩

theorem SectionRel.good {s : SectionV} {ms : MSection} (h : SectionRel s ms) : SectionGood s := by
  refine ⟨h.2.2.2.2.2, ?_⟩
  intro x hx
  obtain ⟨mx, _, hr⟩ := h.2.2.2.2.1.mem_left hx
  exact hr.good

theorem SectionGood_of_strip_eq {ss secs : List SectionV} (he : ss.map stripS = secs.map stripS)
    (hg : ∀ s ∈ secs, SectionGood s) : ∀ s ∈ ss, SectionGood s := by
  intro s hs
  have : stripS s ∈ secs.map stripS := he ▸ List.mem_map.2 ⟨s, hs, rfl⟩
  obtain ⟨s0, hs0, e⟩ := List.mem_map.1 this
  rw [← SectionGood_strip, ← e, SectionGood_strip]
  exact hg s0 hs0

theorem ModuleRel.sectionsGood {env : Env} {mv : ModuleV} {mm : MModule} (h : ModuleRel env mv mm) :
    ∀ s ∈ mv.sections, SectionGood s := by
  obtain ⟨secs, h1, h2⟩ := h.2.2.2.2.2.2.2.2.2.2.2.2.2.2.2.1
  apply SectionGood_of_strip_eq h2
  intro s hs
  obtain ⟨ms, _, hr⟩ := h1.mem_left hs
  exact hr.good

theorem SectionGood.all16 {s : SectionV} (h : SectionGood s) : ∀ u ∈ s.nodeUuids, u.length = 16 := by
  intro u hu
  simp only [SectionV.nodeUuids, List.mem_cons, List.mem_flatMap, List.mem_append,
    IntervalV.blockUuids, List.mem_map, List.not_mem_nil, or_false] at hu
  rcases hu with rfl | ⟨x, hx, ⟨b, hb, rfl⟩ | rfl⟩
  · exact h.1
  · exact (h.2 x hx).2.2.1 b hb
  · exact (h.2 x hx).2.1

theorem ModuleRel.all16 {env : Env} {mv : ModuleV} {mm : MModule} (h : ModuleRel env mv mm) :
    ∀ u ∈ mv.nodeUuids, u.length = 16 := by
  intro u hu
  simp only [ModuleV.nodeUuids, List.cons_append, List.mem_cons, List.mem_append,
    List.mem_flatMap, List.mem_map] at hu
  rcases hu with rfl | (hp | ⟨s, hs, hu⟩) | ⟨sy, hsy, rfl⟩
  · exact h.2.2.2.2.2.2.2.2.2.2.2.2.1
  · exact h.2.2.2.2.2.2.2.2.2.2.2.2.2.2.1 u hp
  · exact (h.sectionsGood s hs).all16 u hu
  · obtain ⟨ms, _, e, hr⟩ := h.2.2.2.2.2.2.2.2.2.2.2.2.2.2.2.2.2.1.mem_left hsy
    exact hr.2.2.2.2.1


/-! ### reader on the image of the writer -/

theorem nodup_suffix {A B : Env} (h : ((A ++ B).map (·.1)).Nodup) : (B.map (·.1)).Nodup := by
  rw [List.map_append, List.nodup_append] at h
  exact h.2.1

theorem fresh_of_nodup {A : Env} {k : U × KindTag} {env : Env}
    (h : ((A ++ k :: env).map (·.1)).Nodup) : k.1 ∉ env.map (·.1) := by
  have := nodup_suffix h
  rw [List.map_cons, List.nodup_cons] at this
  exact this.1

theorem decodeBlock_toMsg (env : Env) (b : BlockV) (h16 : b.uuid.length = 16)
    (hf : b.uuid ∉ env.map (·.1)) (hdm : dmOK b) :
    decodeBlock env (blockToMsg b) = .ok (b, blockKind b :: env) := by
  cases b with
  | code u off sz dm =>
    have hfr : fresh env u .code = .ok () := fresh_eq_ok h16 hf
    have hdm' : pyEnumHas "DecodeMode" dm = true := hdm
    simp [decodeBlock, blockToMsg, hfr, hdm', blockKind]
  | data u off sz =>
    have hfr : fresh env u .data = .ok () := fresh_eq_ok h16 hf
    simp [decodeBlock, blockToMsg, hfr, blockKind]

theorem decodeBlocks_toMsg (bs : List BlockV) : ∀ (env : Env),
    (∀ b ∈ bs, b.uuid.length = 16) → (∀ b ∈ bs, dmOK b) →
    (((bs.map blockKind).reverse ++ env).map (·.1)).Nodup →
    decodeBlocks env (bs.map blockToMsg) = .ok (bs, (bs.map blockKind).reverse ++ env) := by
  induction bs with
  | nil => intro env _ _ _; simp [decodeBlocks]
  | cons b bs ih =>
    intro env h16 hdm hnd
    have e : ((b :: bs).map blockKind).reverse ++ env
        = (bs.map blockKind).reverse ++ (blockKind b :: env) := by simp
    rw [e] at hnd ⊢
    have hf : b.uuid ∉ env.map (·.1) := by simpa using fresh_of_nodup hnd
    have h1 := decodeBlock_toMsg env b (h16 b List.mem_cons_self) hf (hdm b List.mem_cons_self)
    have h2 := ih (blockKind b :: env) (fun x hx => h16 x (List.mem_cons_of_mem _ hx))
      (fun x hx => hdm x (List.mem_cons_of_mem _ hx)) hnd
    simp only [List.map_cons, decodeBlocks, h1, h2]

theorem decodeInterval_toMsg (env : Env) (x : IntervalV) (hg : IntervalGood x)
    (hnd : (((intervalKinds x).reverse ++ env).map (·.1)).Nodup) :
    decodeInterval env (intervalToMsg x) = .ok (stripI x, (intervalKinds x).reverse ++ env) := by
  obtain ⟨hlen, h16, hb16, hdm⟩ := hg
  have e : (intervalKinds x).reverse ++ env
      = (x.uuid, KindTag.interval) :: ((x.blocks.map blockKind).reverse ++ env) := by
    simp [intervalKinds]
  rw [e] at hnd ⊢
  have hf : x.uuid ∉ env.map (·.1) := by
    have := fresh_of_nodup (A := []) hnd
    simp only [List.map_append, List.mem_append, not_or] at this
    exact this.2
  have hfr : fresh env x.uuid .interval = .ok () := fresh_eq_ok h16 hf
  have hbs := decodeBlocks_toMsg x.blocks env hb16 hdm (nodup_suffix (A := [_]) hnd)
  have hlen' : ¬ x.contents.length > x.size := by omega
  simp only [decodeInterval, intervalToMsg, hfr, hlen', if_false, hbs, stripI]
  obtain ⟨xu, xa, xsz, xc, xb, xe⟩ := x
  cases xa <;> simp

theorem decodeIntervals_toMsg (xs : List IntervalV) : ∀ (env : Env),
    (∀ x ∈ xs, IntervalGood x) →
    (((xs.flatMap intervalKinds).reverse ++ env).map (·.1)).Nodup →
    decodeIntervals env (xs.map intervalToMsg)
      = .ok (xs.map stripI, (xs.flatMap intervalKinds).reverse ++ env) := by
  induction xs with
  | nil => intro env _ _; simp [decodeIntervals]
  | cons x xs ih =>
    intro env hg hnd
    have e : ((x :: xs).flatMap intervalKinds).reverse ++ env
        = (xs.flatMap intervalKinds).reverse ++ ((intervalKinds x).reverse ++ env) := by simp
    rw [e] at hnd ⊢
    have h1 := decodeInterval_toMsg env x (hg x List.mem_cons_self) (nodup_suffix hnd)
    have h2 := ih ((intervalKinds x).reverse ++ env) (fun y hy => hg y (List.mem_cons_of_mem _ hy)) hnd
    simp only [List.map_cons, decodeIntervals, h1, h2]

theorem decodeSection_toMsg (env : Env) (s : SectionV) (hg : SectionGood s)
    (hfl : s.flags.all (pyEnumHas "SectionFlag") = true) (hfn : s.flags.Nodup)
    (hnd : (((sectionKinds s).reverse ++ env).map (·.1)).Nodup) :
    decodeSection env (sectionToMsg s) = .ok (stripS s, (sectionKinds s).reverse ++ env) := by
  have e : (sectionKinds s).reverse ++ env
      = (s.intervals.flatMap intervalKinds).reverse ++ ((s.uuid, KindTag.section) :: env) := by
    simp [sectionKinds]
  rw [e] at hnd ⊢
  have hf : s.uuid ∉ env.map (·.1) := fresh_of_nodup hnd
  have hfr : fresh env s.uuid .section = .ok () := fresh_eq_ok hg.1 hf
  have hiv := decodeIntervals_toMsg s.intervals ((s.uuid, KindTag.section) :: env) hg.2 hnd
  simp only [decodeSection, sectionToMsg, hfr, hfl, if_true, hiv, dedupNat_id hfn]
  rfl

theorem decodeSections_toMsg (ss : List SectionV) : ∀ (env : Env),
    (∀ s ∈ ss, SectionGood s) →
    (∀ s ∈ ss, s.flags.all (pyEnumHas "SectionFlag") = true ∧ s.flags.Nodup) →
    (((ss.flatMap sectionKinds).reverse ++ env).map (·.1)).Nodup →
    decodeSections env (ss.map sectionToMsg)
      = .ok (ss.map stripS, (ss.flatMap sectionKinds).reverse ++ env) := by
  induction ss with
  | nil => intro env _ _ _; simp [decodeSections]
  | cons x xs ih =>
    intro env hg hfl hnd
    have e : ((x :: xs).flatMap sectionKinds).reverse ++ env
        = (xs.flatMap sectionKinds).reverse ++ ((sectionKinds x).reverse ++ env) := by simp
    rw [e] at hnd ⊢
    have h1 := decodeSection_toMsg env x (hg x List.mem_cons_self) (hfl x List.mem_cons_self).1
      (hfl x List.mem_cons_self).2 (nodup_suffix hnd)
    have h2 := ih ((sectionKinds x).reverse ++ env) (fun y hy => hg y (List.mem_cons_of_mem _ hy))
      (fun y hy => hfl y (List.mem_cons_of_mem _ hy)) hnd
    simp only [List.map_cons, decodeSections, h1, h2]

theorem decodeProxies_toMsg (ps : List U) : ∀ (env : Env),
    (∀ p ∈ ps, p.length = 16) →
    (((ps.map (fun p => (p, KindTag.proxy))).reverse ++ env).map (·.1)).Nodup →
    decodeProxies env ps = .ok (ps, (ps.map (fun p => (p, KindTag.proxy))).reverse ++ env) := by
  induction ps with
  | nil => intro env _ _; simp [decodeProxies]
  | cons p ps ih =>
    intro env h16 hnd
    have e : ((p :: ps).map (fun p => (p, KindTag.proxy))).reverse ++ env
        = (ps.map (fun p => (p, KindTag.proxy))).reverse ++ ((p, KindTag.proxy) :: env) := by simp
    rw [e] at hnd ⊢
    have hf : p ∉ env.map (·.1) := fresh_of_nodup hnd
    have hfr : fresh env p .proxy = .ok () := fresh_eq_ok (h16 p List.mem_cons_self) hf
    have h2 := ih ((p, KindTag.proxy) :: env) (fun y hy => h16 y (List.mem_cons_of_mem _ hy)) hnd
    simp only [decodeProxies, hfr, h2]

theorem decodeSymbol_toMsg (env : Env) (s : SymbolV) (h16 : s.uuid.length = 16)
    (hf : s.uuid ∉ env.map (·.1))
    (href : ∀ u, s.payload = .referent u →
      u.length = 16 ∧ ∃ k, isBlockKind k = true ∧ env.find u = some k) :
    decodeSymbol env (symbolToMsg s) = .ok (s, (s.uuid, .symbol) :: env) := by
  obtain ⟨su, sn, sp, sa⟩ := s
  have hfr : fresh env su .symbol = .ok () := fresh_eq_ok h16 hf
  cases sp with
  | none => simp [decodeSymbol, symbolToMsg, hfr]
  | value n => simp [decodeSymbol, symbolToMsg, hfr]
  | referent u =>
    obtain ⟨hu16, k, hk, hfind⟩ := href u rfl
    simp [decodeSymbol, symbolToMsg, hfr, checkUuid, hu16, hfind, hk]

theorem decodeSymbols_toMsg (ss : List SymbolV) : ∀ (env : Env),
    (∀ s ∈ ss, s.uuid.length = 16) →
    (∀ s ∈ ss, ∀ u, s.payload = .referent u →
      u.length = 16 ∧ ∃ k, isBlockKind k = true ∧ (u, k) ∈ env) →
    (((ss.map (fun s => (s.uuid, KindTag.symbol))).reverse ++ env).map (·.1)).Nodup →
    decodeSymbols env (ss.map symbolToMsg)
      = .ok (ss, (ss.map (fun s => (s.uuid, KindTag.symbol))).reverse ++ env) := by
  induction ss with
  | nil => intro env _ _ _; simp [decodeSymbols]
  | cons s ss ih =>
    intro env h16 href hnd
    have e : ((s :: ss).map (fun s => (s.uuid, KindTag.symbol))).reverse ++ env
        = (ss.map (fun s => (s.uuid, KindTag.symbol))).reverse ++ ((s.uuid, KindTag.symbol) :: env) := by
      simp
    rw [e] at hnd ⊢
    have hf : s.uuid ∉ env.map (·.1) := fresh_of_nodup hnd
    have hndenv : (env.map (·.1)).Nodup := nodup_suffix (A := [_]) (nodup_suffix hnd)
    have h1 := decodeSymbol_toMsg env s (h16 s List.mem_cons_self) hf (by
      intro u hu
      obtain ⟨a, k, hk, hm⟩ := href s List.mem_cons_self u hu
      exact ⟨a, k, hk, Env.find_of_mem hndenv hm⟩)
    have h2 := ih ((s.uuid, KindTag.symbol) :: env) (fun y hy => h16 y (List.mem_cons_of_mem _ hy))
      (by
        intro y hy u hu
        obtain ⟨a, k, hk, hm⟩ := href y (List.mem_cons_of_mem _ hy) u hu
        exact ⟨a, k, hk, List.mem_cons_of_mem _ hm⟩) hnd
    simp only [List.map_cons, decodeSymbols, h1, h2]

def ExprGood (env : Env) (e : ExprEntryV) : Prop :=
  e.attrs.Nodup ∧ ∀ u ∈ exprSyms e.expr, u.length = 16 ∧ env.find u = some .symbol

theorem decodeExpr_toMsg (env : Env) (e : ExprEntryV) (hg : ExprGood env e) :
    decodeExpr env (exprToMsg e) = .ok e := by
  obtain ⟨k, ex, at_⟩ := e
  obtain ⟨hn, hs⟩ := hg
  cases ex with
  | addrConst off s =>
    have h1 := hs s (by simp [exprSyms])
    simp [decodeExpr, exprToMsg, symRef_eq_ok h1.1 h1.2, dedupNat_id hn]
  | addrAddr sc off s1 s2 =>
    have h1 := hs s1 (by simp [exprSyms])
    have h2 := hs s2 (by simp [exprSyms])
    simp [decodeExpr, exprToMsg, symRef_eq_ok h1.1 h1.2, symRef_eq_ok h2.1 h2.2, dedupNat_id hn]

theorem decodeExprs_toMsg (env : Env) (es : List ExprEntryV) (hg : ∀ e ∈ es, ExprGood env e) :
    decodeExprs env (es.map exprToMsg) = .ok es := by
  induction es with
  | nil => simp [decodeExprs]
  | cons e es ih =>
    have h1 := decodeExpr_toMsg env e (hg e List.mem_cons_self)
    have h2 := ih (fun y hy => hg y (List.mem_cons_of_mem _ hy))
    simp only [List.map_cons, decodeExprs, h1, h2]

theorem fillExprsIntervals_toMsg (env : Env) (xs : List IntervalV)
    (hg : ∀ x ∈ xs, ∀ e ∈ x.exprs, ExprGood env e) :
    fillExprsIntervals env (xs.map stripI) (xs.map intervalToMsg) = .ok xs := by
  induction xs with
  | nil => simp [fillExprsIntervals]
  | cons x xs ih =>
    have h1 := decodeExprs_toMsg env x.exprs (hg x List.mem_cons_self)
    have h2 := ih (fun y hy => hg y (List.mem_cons_of_mem _ hy))
    have h1' : decodeExprs env (intervalToMsg x).symbolicExpressions = .ok x.exprs := h1
    simp only [List.map_cons, fillExprsIntervals, h1', h2]
    rfl

theorem fillExprsSections_toMsg (env : Env) (ss : List SectionV)
    (hg : ∀ s ∈ ss, ∀ x ∈ s.intervals, ∀ e ∈ x.exprs, ExprGood env e) :
    fillExprsSections env (ss.map stripS) (ss.map sectionToMsg) = .ok ss := by
  induction ss with
  | nil => simp [fillExprsSections]
  | cons s ss ih =>
    have h1 := fillExprsIntervals_toMsg env s.intervals (hg s List.mem_cons_self)
    have h2 := ih (fun y hy => hg y (List.mem_cons_of_mem _ hy))
    have h1' : fillExprsIntervals env (stripS s).intervals (sectionToMsg s).byteIntervals
        = .ok s.intervals := h1
    simp only [List.map_cons, fillExprsSections, h1', h2]
    rfl


/-- the per-module conditions of the round trip, relative to the table `env3` as it is
after the module has been decoded -/
structure ModOK (env3 : Env) (m : ModuleV) : Prop where
  enums : pyEnumHas "ISA" m.isa = true ∧ pyEnumHas "FileFormat" m.fileFormat = true
    ∧ pyEnumHas "ByteOrder" m.byteOrder = true
  all16 : ∀ u ∈ m.nodeUuids, u.length = 16
  flags : ∀ s ∈ m.sections, s.flags.all (pyEnumHas "SectionFlag") = true ∧ s.flags.Nodup
  ivs : ∀ s ∈ m.sections, ∀ x ∈ s.intervals, x.contents.length ≤ x.size ∧ ∀ b ∈ x.blocks, dmOK b
  entry : ∀ u, m.entryPoint = some u → u.length = 16 ∧ (u, KindTag.code) ∈ env3
  refs : ∀ s ∈ m.symbols, ∀ u, s.payload = .referent u →
    u.length = 16 ∧ ∃ k, isBlockKind k = true ∧ (u, k) ∈ env3
  exprs : ∀ s ∈ m.sections, ∀ x ∈ s.intervals, ∀ e ∈ x.exprs,
    e.attrs.Nodup ∧ ∀ u ∈ exprSyms e.expr, u.length = 16 ∧ (u, KindTag.symbol) ∈ env3

theorem decodeAux_toMsg (l : List AuxV) : decodeAux (l.map auxToMsg) = l := by
  induction l with
  | nil => rfl
  | cons a l ih =>
    simp only [decodeAux, List.map_cons, List.map_map] at ih ⊢
    rw [ih]; rfl

theorem ModOK.sectionsGood {env3 : Env} {m : ModuleV} (h : ModOK env3 m) :
    ∀ s ∈ m.sections, SectionGood s := by
  intro s hs
  have hsub : ∀ u ∈ s.nodeUuids, u.length = 16 := by
    intro u hu
    apply h.all16
    simp only [ModuleV.nodeUuids, List.cons_append, List.mem_cons, List.mem_append, List.mem_flatMap]
    exact .inr (.inl (.inr ⟨s, hs, hu⟩))
  refine ⟨hsub _ (by simp [SectionV.nodeUuids]), ?_⟩
  intro x hx
  have hi := h.ivs s hs x hx
  refine ⟨hi.1, ?_, ?_, hi.2⟩
  · apply hsub
    simp only [SectionV.nodeUuids, List.mem_cons, List.mem_flatMap, List.mem_append]
    exact .inr ⟨x, hx, .inr (by simp)⟩
  · intro b hb
    apply hsub
    simp only [SectionV.nodeUuids, List.mem_cons, List.mem_flatMap, List.mem_append,
      IntervalV.blockUuids, List.mem_map]
    exact .inr ⟨x, hx, .inl ⟨b, hb, rfl⟩⟩

theorem decodeModule_toMsg (env : Env) (m : ModuleV) (hok : ModOK ((moduleKinds m).reverse ++ env) m)
    (hnd : (((moduleKinds m).reverse ++ env).map (·.1)).Nodup) :
    decodeModule env (moduleToMsg m) = .ok (m, (moduleKinds m).reverse ++ env) := by
  rw [moduleKinds_env] at hnd hok ⊢
  -- the stages of the table
  have hnd2 := nodup_suffix hnd
  have hnd1 := nodup_suffix hnd2
  have hnd0 := nodup_suffix hnd1
  have hf : m.uuid ∉ env.map (·.1) := fresh_of_nodup hnd1
  have hfr : fresh env m.uuid .module = .ok () :=
    fresh_eq_ok (hok.all16 _ (by simp [ModuleV.nodeUuids])) hf
  have hen : (!(pyEnumHas "ISA" m.isa && pyEnumHas "FileFormat" m.fileFormat
      && pyEnumHas "ByteOrder" m.byteOrder)) = false := by
    simp [hok.enums.1, hok.enums.2.1, hok.enums.2.2]
  have hpx := decodeProxies_toMsg m.proxies ((m.uuid, KindTag.module) :: env)
    (fun p hp => hok.all16 p (by simp [ModuleV.nodeUuids, hp])) hnd1
  have hsec := decodeSections_toMsg m.sections _ hok.sectionsGood hok.flags hnd2
  -- entry point
  have hnotsym : ∀ u k, k ≠ KindTag.symbol →
      (u, k) ∈ (m.symbols.map (fun s => (s.uuid, KindTag.symbol))).reverse
        ++ ((m.sections.flatMap sectionKinds).reverse
          ++ ((m.proxies.map (fun p => (p, KindTag.proxy))).reverse ++ (m.uuid, KindTag.module) :: env)) →
      (u, k) ∈ (m.sections.flatMap sectionKinds).reverse
          ++ ((m.proxies.map (fun p => (p, KindTag.proxy))).reverse ++ (m.uuid, KindTag.module) :: env) := by
    intro u k hk hm
    rcases List.mem_append.1 hm with hm | hm
    · simp only [List.mem_reverse, List.mem_map] at hm
      obtain ⟨s, _, e⟩ := hm
      cases e
      exact absurd rfl hk
    · exact hm
  have hsym := decodeSymbols_toMsg m.symbols _
    (fun s hs => hok.all16 s.uuid (by
      simp only [ModuleV.nodeUuids, List.cons_append, List.mem_cons, List.mem_append, List.mem_map]
      exact .inr (.inr ⟨s, hs, rfl⟩)))
    (fun s hs u hu => by
      obtain ⟨a, k, hk, hm⟩ := hok.refs s hs u hu
      refine ⟨a, k, hk, hnotsym u k ?_ hm⟩
      intro e; subst e; cases hk) hnd
  have hfill := fillExprsSections_toMsg
    ((m.symbols.map (fun s => (s.uuid, KindTag.symbol))).reverse
        ++ ((m.sections.flatMap sectionKinds).reverse
          ++ ((m.proxies.map (fun p => (p, KindTag.proxy))).reverse ++ (m.uuid, KindTag.module) :: env)))
    m.sections (fun s hs x hx e he => by
      obtain ⟨a, b⟩ := hok.exprs s hs x hx e he
      exact ⟨a, fun u hu => ⟨(b u hu).1, Env.find_of_mem hnd (b u hu).2⟩⟩)
  have heta : ∀ ep, m.entryPoint = ep →
      ({ uuid := m.uuid, name := m.name, binaryPath := m.binaryPath, preferredAddr := m.preferredAddr,
         rebaseDelta := m.rebaseDelta, fileFormat := m.fileFormat, isa := m.isa, byteOrder := m.byteOrder,
         entryPoint := ep, proxies := m.proxies, sections := m.sections, symbols := m.symbols,
         aux := m.aux } : ModuleV) = m := by
    intro ep h; subst h; rfl
  unfold decodeModule
  cases hep : m.entryPoint with
  | none =>
    simp only [moduleToMsg, hfr, hen, hpx, hsec, hsym, hfill, decodeAux_toMsg, hep]
    simp [heta none hep]
  | some u =>
    obtain ⟨h16, hm⟩ := hok.entry u hep
    have hfind := Env.find_of_mem hnd2 (hnotsym u _ (by decide) hm)
    have hne : u.isEmpty = false := by
      cases u with
      | nil => simp at h16
      | cons _ _ => rfl
    simp only [moduleToMsg, hfr, hen, hpx, hsec, hsym, hfill, decodeAux_toMsg, hep]
    simp [hne, checkUuid, h16, hfind, heta (some u) hep]

/-- per-module conditions along the module list, each relative to its own table -/
def ModsOK : Env → List ModuleV → Prop
  | _, [] => True
  | env, m :: ms => ModOK ((moduleKinds m).reverse ++ env) m ∧ ModsOK ((moduleKinds m).reverse ++ env) ms

theorem decodeModules_toMsg (ms : List ModuleV) : ∀ (env : Env), ModsOK env ms →
    (((ms.flatMap moduleKinds).reverse ++ env).map (·.1)).Nodup →
    decodeModules env (ms.map moduleToMsg) = .ok (ms, (ms.flatMap moduleKinds).reverse ++ env) := by
  induction ms with
  | nil => intro env _ _; simp [decodeModules]
  | cons m ms ih =>
    intro env hok hnd
    have e : ((m :: ms).flatMap moduleKinds).reverse ++ env
        = (ms.flatMap moduleKinds).reverse ++ ((moduleKinds m).reverse ++ env) := by simp
    rw [e] at hnd ⊢
    have h1 := decodeModule_toMsg env m hok.1 (nodup_suffix hnd)
    have h2 := ih _ hok.2 hnd
    simp only [List.map_cons, decodeModules, h1, h2]


def EdgeGood (env : Env) (e : EdgeV) : Prop :=
  (e.src.length = 16 ∧ (env.find e.src = some .code ∨ env.find e.src = some .proxy))
    ∧ (e.dst.length = 16 ∧ (env.find e.dst = some .code ∨ env.find e.dst = some .proxy))
    ∧ (∀ l, e.label = some l → pyEnumHas "EdgeType" l.type = true)

theorem decodeEdge_toMsg (env : Env) (e : EdgeV) (hg : EdgeGood env e) :
    decodeEdge env (edgeToMsg e) = .ok e := by
  obtain ⟨s, d, l⟩ := e
  obtain ⟨hs, hd, hl⟩ := hg
  have h1 := cfgRef_eq_ok hs.1 hs.2
  have h2 := cfgRef_eq_ok hd.1 hd.2
  simp only at h1 h2
  cases l with
  | none => simp [decodeEdge, edgeToMsg, h1, h2]
  | some l =>
    have := hl l rfl
    simp [decodeEdge, edgeToMsg, h1, h2, this]

theorem decodeEdges_toMsg (env : Env) (es : List EdgeV) (hg : ∀ e ∈ es, EdgeGood env e) :
    decodeEdges env (es.map edgeToMsg) = .ok es := by
  induction es with
  | nil => simp [decodeEdges]
  | cons e es ih =>
    have h1 := decodeEdge_toMsg env e (hg e List.mem_cons_self)
    have h2 := ih (fun y hy => hg y (List.mem_cons_of_mem _ hy))
    simp only [List.map_cons, decodeEdges, h1, h2]

theorem fromMsg_toMsg_of (v : IRV) (h16 : v.uuid.length = 16)
    (hver : v.version = Generated.protobufVersion)
    (hmods : ModsOK [(v.uuid, .ir)] v.modules)
    (hnd : (((irKinds v).reverse).map (·.1)).Nodup)
    (hedges : ∀ e ∈ v.edges, EdgeGood (irKinds v).reverse e) (hen : v.edges.Nodup) :
    fromMsg (toMsg v) = .ok v := by
  have e : (irKinds v).reverse = (v.modules.flatMap moduleKinds).reverse ++ [(v.uuid, KindTag.ir)] := by
    simp [irKinds]
  rw [e] at hnd hedges
  have hm := decodeModules_toMsg v.modules [(v.uuid, .ir)] hmods hnd
  have he := decodeEdges_toMsg _ v.edges hedges
  have hv : ¬ v.version ≠ Generated.protobufVersion := by simp [hver]
  simp only [fromMsg, toMsg, checkUuid, h16, if_true, hv, if_false, hm, he, dedupEdges_id hen,
    decodeAux_toMsg]

/-! ### from the specification-level precondition to the reader's checks -/

theorem intervalKinds_fst (x : IntervalV) : (intervalKinds x).map (·.1) = x.blockUuids ++ [x.uuid] := by
  simp [intervalKinds, IntervalV.blockUuids]

theorem sectionKinds_fst (s : SectionV) : (sectionKinds s).map (·.1) = s.nodeUuids := by
  simp [sectionKinds, SectionV.nodeUuids, List.map_flatMap, intervalKinds_fst]

theorem moduleKinds_fst (m : ModuleV) : (moduleKinds m).map (·.1) = m.nodeUuids := by
  simp [moduleKinds, ModuleV.nodeUuids, List.map_flatMap, sectionKinds_fst, Function.comp_def]

theorem irKinds_fst (v : IRV) : (irKinds v).map (·.1) = v.nodeUuids := by
  simp [irKinds, IRV.nodeUuids, List.map_flatMap, moduleKinds_fst]

theorem mem_moduleKinds_nodeUuids {m : ModuleV} {u : U} {k : KindTag} (h : (u, k) ∈ moduleKinds m) :
    u ∈ m.nodeUuids := by
  rw [← moduleKinds_fst]
  exact List.mem_map.2 ⟨(u, k), h, rfl⟩

theorem mem_block_sectionKinds {m : ModuleV} {s : SectionV} {x : IntervalV} {b : BlockV}
    (hs : s ∈ m.sections) (hx : x ∈ s.intervals) (hb : b ∈ x.blocks) : blockKind b ∈ moduleKinds m := by
  simp only [moduleKinds, List.cons_append, List.mem_cons, List.mem_append, List.mem_flatMap,
    sectionKinds, intervalKinds, List.mem_map]
  exact .inr (.inl (.inr ⟨s, hs, .inr ⟨x, hx, .inl ⟨b, hb, rfl⟩⟩⟩))

theorem mem_codeUuids {m : ModuleV} {u : U} (h : u ∈ m.codeUuids) : (u, KindTag.code) ∈ moduleKinds m := by
  simp only [ModuleV.codeUuids, List.mem_flatMap, List.mem_filterMap] at h
  obtain ⟨s, hs, x, hx, b, hb, hbu⟩ := h
  have := mem_block_sectionKinds hs hx hb
  cases b with
  | code u' off sz dm => simp at hbu; subst hbu; exact this
  | data u' off sz => simp at hbu

theorem mem_proxies {m : ModuleV} {u : U} (h : u ∈ m.proxies) : (u, KindTag.proxy) ∈ moduleKinds m := by
  simp only [moduleKinds, List.cons_append, List.mem_cons, List.mem_append, List.mem_map]
  exact .inr (.inl (.inl ⟨u, h, rfl⟩))

theorem mem_blockUuids {m : ModuleV} {u : U} (h : u ∈ m.blockUuids) :
    ∃ k, isBlockKind k = true ∧ (u, k) ∈ moduleKinds m := by
  simp only [ModuleV.blockUuids, List.mem_append, List.mem_flatMap, IntervalV.blockUuids,
    List.mem_map] at h
  rcases h with ⟨s, hs, x, hx, b, hb, rfl⟩ | hp
  · have := mem_block_sectionKinds hs hx hb
    cases b with
    | code u' off sz dm => exact ⟨.code, rfl, this⟩
    | data u' off sz => exact ⟨.data, rfl, this⟩
  · exact ⟨.proxy, rfl, mem_proxies hp⟩

theorem mem_symUuids {m : ModuleV} {u : U} (h : u ∈ m.symbols.map (·.uuid)) :
    (u, KindTag.symbol) ∈ moduleKinds m := by
  simp only [List.mem_map] at h
  obtain ⟨s, hs, rfl⟩ := h
  simp only [moduleKinds, List.cons_append, List.mem_cons, List.mem_append, List.mem_map]
  exact .inr (.inr ⟨s, hs, rfl⟩)

/-- the table after the IR node and the modules `ms` -/
def envOf (uuid : U) (ms : List ModuleV) : Env := (ms.flatMap moduleKinds).reverse ++ [(uuid, .ir)]

theorem mem_envOf {uuid : U} {L : List ModuleV} {u : U} {k : KindTag}
    (hall : ∀ m ∈ L, ∀ u ∈ m.nodeUuids, u.length = 16)
    (h : ∃ m ∈ L, (u, k) ∈ moduleKinds m) : u.length = 16 ∧ (u, k) ∈ envOf uuid L := by
  obtain ⟨m, hm, hk⟩ := h
  refine ⟨hall m hm u (mem_moduleKinds_nodeUuids hk), ?_⟩
  simp only [envOf, List.mem_append, List.mem_reverse, List.mem_flatMap]
  exact .inl ⟨m, hm, hk⟩

theorem mem_vis {α : Type} {earlier : List ModuleV} {m : ModuleV} {f : ModuleV → List α} {a : α}
    (h : a ∈ earlier.flatMap f ++ f m) : ∃ m' ∈ earlier ++ [m], a ∈ f m' := by
  rcases List.mem_append.1 h with h | h
  · obtain ⟨m', hm', ha⟩ := List.mem_flatMap.1 h
    exact ⟨m', List.mem_append_left _ hm', ha⟩
  · exact ⟨m, by simp, h⟩

theorem modOK_of {uuid : U} {earlier : List ModuleV} {m : ModuleV}
    (h : moduleOK earlier m = true)
    (hall : ∀ m' ∈ earlier ++ [m], ∀ u ∈ m'.nodeUuids, u.length = 16) :
    ModOK (envOf uuid (earlier ++ [m])) m := by
  simp only [moduleOK, Bool.and_eq_true, List.all_eq_true, decide_eq_true_eq, nodupB_iff] at h
  obtain ⟨⟨⟨⟨⟨⟨hisa, hff⟩, hbo⟩, hentry⟩, hrefs⟩, _⟩, hsecs⟩ := h
  refine ⟨⟨hisa, hff, hbo⟩, hall m (by simp), ?_, ?_, ?_, ?_, ?_⟩
  · intro s hs
    exact ⟨by simpa using (hsecs s hs).1.1, (hsecs s hs).1.2⟩
  · intro s hs x hx
    have := (hsecs s hs).2 x hx
    refine ⟨this.1.1.1, ?_⟩
    intro b hb
    have := this.1.1.2 b hb
    cases b with
    | code _ _ _ _ => simpa [dmOK] using this
    | data _ _ _ => trivial
  · intro u hu
    rw [hu] at hentry
    simp only at hentry
    have := of_decide_eq_true hentry
    obtain ⟨m', hm', hc⟩ := mem_vis (f := ModuleV.codeUuids) this
    exact mem_envOf hall ⟨m', hm', mem_codeUuids hc⟩
  · intro s hs u hu
    have := hrefs s hs
    rw [hu] at this
    simp only at this
    have := of_decide_eq_true this
    obtain ⟨m', hm', hc⟩ := mem_vis (f := ModuleV.blockUuids) this
    obtain ⟨k, hk, hmem⟩ := mem_blockUuids hc
    obtain ⟨a, b⟩ := mem_envOf (uuid := uuid) hall ⟨m', hm', hmem⟩
    exact ⟨a, k, hk, b⟩
  · intro s hs x hx e he
    have := ((hsecs s hs).2 x hx).2 e he
    refine ⟨this.1, ?_⟩
    intro u hu
    have := this.2 u hu
    obtain ⟨m', hm', hc⟩ := mem_vis (f := fun e => e.symbols.map (·.uuid)) this
    exact mem_envOf hall ⟨m', hm', mem_symUuids hc⟩

theorem modsOK_of {uuid : U} : ∀ (ms earlier : List ModuleV), modulesOK earlier ms = true →
    (∀ m ∈ earlier ++ ms, ∀ u ∈ m.nodeUuids, u.length = 16) → ModsOK (envOf uuid earlier) ms := by
  intro ms
  induction ms with
  | nil => intro _ _ _; trivial
  | cons m ms ih =>
    intro earlier h hall
    simp only [modulesOK, Bool.and_eq_true] at h
    have e : (moduleKinds m).reverse ++ envOf uuid earlier = envOf uuid (earlier ++ [m]) := by
      simp [envOf]
    simp only [ModsOK, e]
    refine ⟨modOK_of h.1 ?_, ih (earlier ++ [m]) h.2 ?_⟩
    · intro m' hm'
      apply hall
      simp only [List.mem_append, List.mem_cons, List.not_mem_nil, or_false] at hm' ⊢
      rcases hm' with h | h
      · exact .inl h
      · exact .inr (.inl h)
    · intro m' hm'
      apply hall
      simpa using hm'

theorem fromMsg_toMsg_of_wfir (v : IRV) (h : wfir v = true) : fromMsg (toMsg v) = .ok v := by
  simp only [wfir, Bool.and_eq_true, List.all_eq_true, beq_iff_eq, nodupB_iff,
    decide_eq_true_eq] at h
  obtain ⟨⟨⟨⟨⟨⟨h16, hnd⟩, hver⟩, hmods⟩, _⟩, hen⟩, hedges⟩ := h
  have hndk : (((irKinds v).reverse).map (·.1)).Nodup := by
    rw [List.map_reverse, (List.reverse_perm _).nodup_iff, irKinds_fst]; exact hnd
  have hall : ∀ m ∈ v.modules, ∀ u ∈ m.nodeUuids, u.length = 16 := by
    intro m hm u hu
    apply h16
    simp only [IRV.nodeUuids, List.mem_cons, List.mem_flatMap]
    exact .inr ⟨m, hm, hu⟩
  have henv : (irKinds v).reverse = envOf v.uuid v.modules := by simp [irKinds, envOf]
  apply fromMsg_toMsg_of v (h16 _ (by simp [IRV.nodeUuids])) hver
  · have := modsOK_of (uuid := v.uuid) v.modules [] hmods (by simpa using hall)
    simpa [envOf] using this
  · exact hndk
  · intro e he
    have := hedges e he
    have cfg : ∀ u, u ∈ (v.modules.flatMap fun m => m.codeUuids ++ m.proxies) →
        u.length = 16 ∧ (Env.find (irKinds v).reverse u = some .code
          ∨ Env.find (irKinds v).reverse u = some .proxy) := by
      intro u hu
      obtain ⟨m, hm, hu⟩ := List.mem_flatMap.1 hu
      rcases List.mem_append.1 hu with hc | hp
      · obtain ⟨a, b⟩ := mem_envOf (uuid := v.uuid) hall ⟨m, hm, mem_codeUuids hc⟩
        exact ⟨a, .inl (Env.find_of_mem hndk (henv ▸ b))⟩
      · obtain ⟨a, b⟩ := mem_envOf (uuid := v.uuid) hall ⟨m, hm, mem_proxies hp⟩
        exact ⟨a, .inr (Env.find_of_mem hndk (henv ▸ b))⟩
    refine ⟨cfg _ this.1.1, cfg _ this.1.2, ?_⟩
    intro l hl
    have h3 := this.2
    rw [hl] at h3
    exact h3
  · exact hen


/-! ### the file header -/

theorem loadBytes_header (parse : Bytes → Option MIR) (a b : UInt8) (rest : Bytes) :
    loadBytes parse (Generated.magic ++ [a, b, UInt8.ofNat Generated.protobufVersion] ++ rest)
      = match parse rest with
        | none => .error .parse
        | some m => match fromMsg m with
          | .ok v => .ok v
          | .error e => .error (.msg e) := by
  have hlen : Generated.magic.length = 5 := rfl
  have t5 : (Generated.magic ++ [a, b, UInt8.ofNat Generated.protobufVersion] ++ rest).take 5
      = Generated.magic := by
    rw [List.append_assoc, List.take_append_of_le_length (by simp [hlen])]
    exact List.take_of_length_le (by simp [hlen])
  have d7 : (Generated.magic ++ [a, b, UInt8.ofNat Generated.protobufVersion] ++ rest).drop 7
      = UInt8.ofNat Generated.protobufVersion :: rest := by simp [Generated.magic]
  have d8 : (Generated.magic ++ [a, b, UInt8.ofNat Generated.protobufVersion] ++ rest).drop 8
      = rest := by simp [Generated.magic]
  simp only [loadBytes, t5, d7, d8]
  generalize parse rest = r
  cases r with
  | none => simp
  | some m =>
    simp only [ne_eq, not_true_eq_false, if_false]
    generalize fromMsg m = r
    cases r <;> rfl

theorem loadBytes_ok {parse : Bytes → Option MIR} {a b : UInt8} {rest : Bytes} {m : MIR} {v : IRV}
    (hp : parse rest = some m) (hm : fromMsg m = .ok v) :
    loadBytes parse (Generated.magic ++ [a, b, UInt8.ofNat Generated.protobufVersion] ++ rest) = .ok v := by
  rw [loadBytes_header, hp]; simp only [hm]

theorem loadBytes_msg_error {parse : Bytes → Option MIR} {a b : UInt8} {rest : Bytes} {m : MIR} {e : Err}
    (hp : parse rest = some m) (hm : fromMsg m = .error e) :
    loadBytes parse (Generated.magic ++ [a, b, UInt8.ofNat Generated.protobufVersion] ++ rest)
      = .error (.msg e) := by
  rw [loadBytes_header, hp]; simp only [hm]

theorem loadBytes_parse_error {parse : Bytes → Option MIR} {a b : UInt8} {rest : Bytes}
    (hp : parse rest = none) :
    loadBytes parse (Generated.magic ++ [a, b, UInt8.ofNat Generated.protobufVersion] ++ rest)
      = .error .parse := by
  rw [loadBytes_header, hp]


/-! ### accepted messages: references are typed, node UUIDs unique, the result self-contained -/

/-- the accepted modules, each related to its message relative to the table at that point -/
def ModsRel : Env → List ModuleV → List MModule → Prop
  | _, [], [] => True
  | env, mv :: mvs, mm :: mms =>
    ModuleRel env mv mm ∧ ModsRel ((moduleKinds mv).reverse ++ env) mvs mms
  | _, _, _ => False

theorem decodeModules_rel {mms : List MModule} : ∀ {env env' : Env} {mvs : List ModuleV},
    decodeModules env mms = .ok (mvs, env') → ModsRel env mvs mms := by
  induction mms with
  | nil => intro env env' xs h; simp [decodeModules] at h; obtain ⟨rfl, rfl⟩ := h; trivial
  | cons b bs ih =>
    intro env env' vs h
    unfold decodeModules at h
    split at h
    · cases h
    · next v env1 h1 =>
      split at h
      · cases h
      · next vs' env2 h2 =>
        cases h
        obtain ⟨a1, a3⟩ := decodeModule_ok h1
        subst a3
        exact ⟨a1, ih h2⟩

theorem fromMsg_rel {m : MIR} {v : IRV} (h : fromMsg m = .ok v) :
    ModsRel [(v.uuid, .ir)] v.modules m.modules := by
  unfold fromMsg at h
  split at h
  · cases h
  · split at h
    · cases h
    · split at h
      · cases h
      · next mods env hm =>
        split at h
        · cases h
        · cases h
          exact decodeModules_rel hm

/-! #### uniqueness of table keys along the reader -/

theorem nodup_cons_key {env : Env} {u : U} {k : KindTag} (hn : (env.map (·.1)).Nodup)
    (hf : u ∉ env.map (·.1)) : (((u, k) :: env).map (·.1)).Nodup := by
  rw [List.map_cons, List.nodup_cons]; exact ⟨hf, hn⟩

theorem decodeBlocks_nodup {bs : List MBlock} : ∀ {env env' : Env} {vs : List BlockV},
    decodeBlocks env bs = .ok (vs, env') → (env.map (·.1)).Nodup → (env'.map (·.1)).Nodup := by
  induction bs with
  | nil => intro env env' vs h hn; simp [decodeBlocks] at h; obtain ⟨rfl, rfl⟩ := h; exact hn
  | cons b bs ih =>
    intro env env' vs h hn
    unfold decodeBlocks at h
    split at h
    · cases h
    · next v env1 h1 =>
      split at h
      · cases h
      · next vs' env2 h2 =>
        cases h
        obtain ⟨_, a2, _, a4, _⟩ := decodeBlock_ok h1
        subst a2
        have : ((blockKind v :: env).map (·.1)).Nodup := by
          rw [List.map_cons, List.nodup_cons, blockKind_fst]; exact ⟨a4, hn⟩
        exact ih h2 this

theorem decodeInterval_nodup {env env' : Env} {mx : MByteInterval} {x : IntervalV}
    (h : decodeInterval env mx = .ok (x, env')) (hside : x.uuid ∉ x.blockUuids)
    (hn : (env.map (·.1)).Nodup) : (env'.map (·.1)).Nodup := by
  unfold decodeInterval at h
  split at h
  · cases h
  · next r hf =>
    have hf' := fresh_ok hf
    split at h
    · cases h
    · split at h
      · cases h
      · next blocks env1 hb =>
        cases h
        have hn1 := decodeBlocks_nodup hb hn
        obtain ⟨_, b2, _, _⟩ := decodeBlocks_ok hb
        subst b2
        apply nodup_cons_key hn1
        simp only [List.map_append, List.map_reverse, List.map_map, List.mem_append,
          List.mem_reverse, not_or]
        refine ⟨?_, hf'.2⟩
        simpa [IntervalV.blockUuids, Function.comp_def] using hside

theorem decodeIntervals_nodup {mxs : List MByteInterval} : ∀ {env env' : Env} {xs : List IntervalV},
    decodeIntervals env mxs = .ok (xs, env') → (∀ x ∈ xs, x.uuid ∉ x.blockUuids) →
    (env.map (·.1)).Nodup → (env'.map (·.1)).Nodup := by
  induction mxs with
  | nil => intro env env' vs h _ hn; simp [decodeIntervals] at h; obtain ⟨rfl, rfl⟩ := h; exact hn
  | cons b bs ih =>
    intro env env' vs h hside hn
    unfold decodeIntervals at h
    split at h
    · cases h
    · next v env1 h1 =>
      split at h
      · cases h
      · next vs' env2 h2 =>
        cases h
        exact ih h2 (fun x hx => hside x (List.mem_cons_of_mem _ hx))
          (decodeInterval_nodup h1 (hside v List.mem_cons_self) hn)

def SecSide (s : SectionV) : Prop := ∀ x ∈ s.intervals, x.uuid ∉ x.blockUuids

theorem SecSide_strip (s : SectionV) : SecSide (stripS s) ↔ SecSide s := by
  simp only [SecSide, stripS, List.mem_map]
  constructor
  · intro h x hx; exact h (stripI x) ⟨x, hx, rfl⟩
  · rintro h _ ⟨x, hx, rfl⟩; exact h x hx

theorem strip_transfer {P : SectionV → Prop} (hP : ∀ s, P (stripS s) ↔ P s)
    {ss secs : List SectionV} (he : ss.map stripS = secs.map stripS)
    (hg : ∀ s ∈ secs, P s) : ∀ s ∈ ss, P s := by
  intro s hs
  have : stripS s ∈ secs.map stripS := he ▸ List.mem_map.2 ⟨s, hs, rfl⟩
  obtain ⟨s0, hs0, e⟩ := List.mem_map.1 this
  rw [← hP, ← e, hP]
  exact hg s0 hs0

theorem decodeSection_nodup {env env' : Env} {ms : MSection} {s : SectionV}
    (h : decodeSection env ms = .ok (s, env')) (hside : SecSide s)
    (hn : (env.map (·.1)).Nodup) : (env'.map (·.1)).Nodup := by
  unfold decodeSection at h
  split at h
  · cases h
  · next r hf =>
    have hf' := fresh_ok hf
    split at h
    · split at h
      · cases h
      · next ivs env1 hb =>
        cases h
        exact decodeIntervals_nodup hb hside (nodup_cons_key hn hf'.2)
    · cases h

theorem decodeSections_nodup {mss : List MSection} : ∀ {env env' : Env} {ss : List SectionV},
    decodeSections env mss = .ok (ss, env') → (∀ s ∈ ss, SecSide s) →
    (env.map (·.1)).Nodup → (env'.map (·.1)).Nodup := by
  induction mss with
  | nil => intro env env' vs h _ hn; simp [decodeSections] at h; obtain ⟨rfl, rfl⟩ := h; exact hn
  | cons b bs ih =>
    intro env env' vs h hside hn
    unfold decodeSections at h
    split at h
    · cases h
    · next v env1 h1 =>
      split at h
      · cases h
      · next vs' env2 h2 =>
        cases h
        exact ih h2 (fun x hx => hside x (List.mem_cons_of_mem _ hx))
          (decodeSection_nodup h1 (hside v List.mem_cons_self) hn)

theorem decodeProxies_nodup {ps : List Bytes} : ∀ {env env' : Env} {vs : List U},
    decodeProxies env ps = .ok (vs, env') → (env.map (·.1)).Nodup → (env'.map (·.1)).Nodup := by
  induction ps with
  | nil => intro env env' vs h hn; simp [decodeProxies] at h; obtain ⟨rfl, rfl⟩ := h; exact hn
  | cons p ps ih =>
    intro env env' vs h hn
    unfold decodeProxies at h
    split at h
    · cases h
    · next r hf =>
      have hf' := fresh_ok hf
      split at h
      · cases h
      · next vs' env2 h2 =>
        cases h
        exact ih h2 (nodup_cons_key hn hf'.2)

theorem decodeSymbols_nodup {mss : List MSymbol} : ∀ {env env' : Env} {ss : List SymbolV},
    decodeSymbols env mss = .ok (ss, env') → (env.map (·.1)).Nodup → (env'.map (·.1)).Nodup := by
  induction mss with
  | nil => intro env env' vs h hn; simp [decodeSymbols] at h; obtain ⟨rfl, rfl⟩ := h; exact hn
  | cons b bs ih =>
    intro env env' vs h hn
    unfold decodeSymbols at h
    split at h
    · cases h
    · next v env1 h1 =>
      split at h
      · cases h
      · next vs' env2 h2 =>
        cases h
        obtain ⟨_, a2, a3⟩ := decodeSymbol_ok h1
        subst a3
        exact ih h2 (nodup_cons_key hn a2)

theorem decodeModule_nodup {env env' : Env} {mm : MModule} {mv : ModuleV}
    (h : decodeModule env mm = .ok (mv, env')) (hside : ∀ s ∈ mv.sections, SecSide s)
    (hn : (env.map (·.1)).Nodup) : (env'.map (·.1)).Nodup := by
  unfold decodeModule at h
  split at h
  · cases h
  · next r hf =>
    have hf' := fresh_ok hf
    split at h
    · cases h
    · split at h
      · cases h
      · next proxies env1 hp =>
        split at h
        · cases h
        · next secs env2 hs =>
          obtain ⟨s1, _⟩ := decodeSections_ok hs
          split at h
          · cases h
          · split at h
            · cases h
            · next syms env3 hsy =>
              split at h
              · cases h
              · next secs' hfill =>
                obtain ⟨f1, _⟩ := fillExprsSections_ok
                  (s1.imp fun a b hab => hab.2.2.2.2.1.length_eq) hfill
                cases h
                have hside' : ∀ s ∈ secs, SecSide s := strip_transfer SecSide_strip f1.symm hside
                exact decodeSymbols_nodup hsy
                  (decodeSections_nodup hs hside' (decodeProxies_nodup hp (nodup_cons_key hn hf'.2)))

theorem decodeModules_nodup {mms : List MModule} : ∀ {env env' : Env} {mvs : List ModuleV},
    decodeModules env mms = .ok (mvs, env') → (∀ m ∈ mvs, ∀ s ∈ m.sections, SecSide s) →
    (env.map (·.1)).Nodup → (env'.map (·.1)).Nodup := by
  induction mms with
  | nil => intro env env' vs h _ hn; simp [decodeModules] at h; obtain ⟨rfl, rfl⟩ := h; exact hn
  | cons b bs ih =>
    intro env env' vs h hside hn
    unfold decodeModules at h
    split at h
    · cases h
    · next v env1 h1 =>
      split at h
      · cases h
      · next vs' env2 h2 =>
        cases h
        exact ih h2 (fun x hx => hside x (List.mem_cons_of_mem _ hx))
          (decodeModule_nodup h1 (hside v List.mem_cons_self) hn)

/-- with the one duplicate the staged reader lets through excluded (an interval sharing
the UUID of one of its own blocks), the node UUIDs of an accepted IR are pairwise distinct -/
theorem fromMsg_nodup {m : MIR} {v : IRV} (h : fromMsg m = .ok v)
    (hside : ∀ mod ∈ v.modules, ∀ s ∈ mod.sections, ∀ x ∈ s.intervals, x.uuid ∉ x.blockUuids) :
    v.nodeUuids.Nodup := by
  unfold fromMsg at h
  split at h
  · cases h
  · split at h
    · cases h
    · split at h
      · cases h
      · next mods env hm =>
        split at h
        · cases h
        · cases h
          have hn := decodeModules_nodup hm hside (by simp)
          obtain ⟨_, e⟩ := decodeModules_ok hm
          subst e
          have e2 : (mods.flatMap moduleKinds).reverse ++ [(m.uuid, KindTag.ir)]
              = (irKinds ⟨m.uuid, m.version, mods, dedupEdges ‹_›, decodeAux m.auxData⟩).reverse := by
            simp [irKinds]
          rw [e2, List.map_reverse, (List.reverse_perm _).nodup_iff, irKinds_fst] at hn
          exact hn


/-! #### from table entries back to the specification-level visibility lists -/

theorem blockKind_of_mem_moduleKinds {m : ModuleV} {u : U} {k : KindTag}
    (hk : isBlockKind k = true) (hp : k ≠ .proxy) (h : (u, k) ∈ moduleKinds m) :
    ∃ s ∈ m.sections, ∃ x ∈ s.intervals, ∃ b ∈ x.blocks, blockKind b = (u, k) := by
  simp only [moduleKinds, List.cons_append, List.mem_cons, List.mem_append, List.mem_map,
    List.mem_flatMap, sectionKinds, intervalKinds, Prod.mk.injEq, List.not_mem_nil, or_false] at h
  rcases h with ⟨_, rfl⟩ | (⟨p, _, _, rfl⟩ | ⟨s, hs, ⟨_, rfl⟩ | ⟨x, hx, ⟨b, hb, e⟩ | ⟨_, rfl⟩⟩⟩) | ⟨s, _, _, rfl⟩
  · cases hk
  · exact absurd rfl hp
  · cases hk
  · exact ⟨s, hs, x, hx, b, hb, e⟩
  · cases hk
  · cases hk

theorem codeUuids_of_mem {m : ModuleV} {u : U} (h : (u, KindTag.code) ∈ moduleKinds m) :
    u ∈ m.codeUuids := by
  obtain ⟨s, hs, x, hx, b, hb, e⟩ := blockKind_of_mem_moduleKinds rfl (by decide) h
  simp only [ModuleV.codeUuids, List.mem_flatMap, List.mem_filterMap]
  refine ⟨s, hs, x, hx, b, hb, ?_⟩
  cases b with
  | code u' off sz dm => simp [blockKind] at e; simp [e]
  | data u' off sz => simp [blockKind] at e

theorem proxies_of_mem {m : ModuleV} {u : U} (h : (u, KindTag.proxy) ∈ moduleKinds m) :
    u ∈ m.proxies := by
  simp only [moduleKinds, List.cons_append, List.mem_cons, List.mem_append, List.mem_map,
    List.mem_flatMap, sectionKinds, intervalKinds, Prod.mk.injEq, List.not_mem_nil, or_false] at h
  rcases h with ⟨_, h⟩ | (⟨p, hp, rfl, _⟩ | ⟨s, hs, ⟨_, h⟩ | ⟨x, hx, ⟨b, hb, e⟩ | ⟨_, h⟩⟩⟩) | ⟨s, _, _, h⟩
  · cases h
  · exact hp
  · cases h
  · cases b <;> simp [blockKind] at e
  · cases h
  · cases h

theorem blockUuids_of_mem {m : ModuleV} {u : U} {k : KindTag} (hk : isBlockKind k = true)
    (h : (u, k) ∈ moduleKinds m) : u ∈ m.blockUuids := by
  simp only [ModuleV.blockUuids, List.mem_append, List.mem_flatMap, IntervalV.blockUuids, List.mem_map]
  by_cases hp : k = .proxy
  · subst hp; exact .inr (proxies_of_mem h)
  · obtain ⟨s, hs, x, hx, b, hb, e⟩ := blockKind_of_mem_moduleKinds hk hp h
    refine .inl ⟨s, hs, x, hx, b, hb, ?_⟩
    have := congrArg Prod.fst e
    simpa using this

theorem symUuids_of_mem {m : ModuleV} {u : U} (h : (u, KindTag.symbol) ∈ moduleKinds m) :
    u ∈ m.symbols.map (·.uuid) := by
  simp only [moduleKinds, List.cons_append, List.mem_cons, List.mem_append, List.mem_map,
    List.mem_flatMap, sectionKinds, intervalKinds, Prod.mk.injEq, List.not_mem_nil, or_false] at h
  rcases h with ⟨_, h⟩ | (⟨p, hp, _, h⟩ | ⟨s, hs, ⟨_, h⟩ | ⟨x, hx, ⟨b, hb, e⟩ | ⟨_, h⟩⟩⟩) | ⟨s, hs, rfl, _⟩
  · cases h
  · cases h
  · cases h
  · cases b <;> simp [blockKind] at e
  · cases h
  · exact List.mem_map.2 ⟨s, hs, rfl⟩

theorem envOf_cases {uuid : U} {L : List ModuleV} {u : U} {k : KindTag} (hk : k ≠ .ir)
    (h : (u, k) ∈ envOf uuid L) : ∃ m ∈ L, (u, k) ∈ moduleKinds m := by
  simp only [envOf, List.mem_append, List.mem_reverse, List.mem_flatMap, List.mem_singleton,
    Prod.mk.injEq] at h
  rcases h with h | ⟨_, rfl⟩
  · exact h
  · exact absurd rfl hk

theorem vis_of_mem {α : Type} {earlier : List ModuleV} {m : ModuleV} {f : ModuleV → List α} {a : α}
    (h : ∃ m' ∈ earlier ++ [m], a ∈ f m') : a ∈ earlier.flatMap f ++ f m := by
  obtain ⟨m', hm', ha⟩ := h
  simp only [List.mem_append, List.mem_cons, List.not_mem_nil, or_false] at hm'
  rcases hm' with hm' | rfl
  · exact List.mem_append_left _ (List.mem_flatMap.2 ⟨m', hm', ha⟩)
  · exact List.mem_append_right _ ha

theorem env2_sub_env3 (m : ModuleV) (env : Env) {p : U × KindTag}
    (h : p ∈ (m.sections.flatMap sectionKinds).reverse
          ++ (m.proxies.map (fun p => (p, KindTag.proxy))).reverse ++ (m.uuid, KindTag.module) :: env) :
    p ∈ (moduleKinds m).reverse ++ env := by
  rw [moduleKinds_env]
  apply List.mem_append_right
  simpa [List.append_assoc] using h

def SecFlagsGood (s : SectionV) : Prop :=
  (∀ f ∈ s.flags, pyEnumHas "SectionFlag" f = true) ∧ s.flags.Nodup

theorem SectionRel.flagsGood {s : SectionV} {ms : MSection} (h : SectionRel s ms) : SecFlagsGood s := by
  obtain ⟨_, _, h3, h4, _⟩ := h
  rw [List.all_eq_true] at h4
  refine ⟨?_, h3 ▸ nodup_dedupNat _⟩
  intro f hf
  rw [h3] at hf
  exact h4 f (mem_dedupNat.1 hf)

/-- the references of a module resolve to nodes of the right kind of the same or an
earlier module (`earlier` = the modules before it in `ir.modules`) -/
def ModRefs (earlier : List ModuleV) (m : ModuleV) : Prop :=
  (∀ u, m.entryPoint = some u → u ∈ earlier.flatMap (·.codeUuids) ++ m.codeUuids)
    ∧ (∀ s ∈ m.symbols, ∀ u, s.payload = .referent u →
        u ∈ earlier.flatMap (·.blockUuids) ++ m.blockUuids)
    ∧ (∀ s ∈ m.sections, ∀ x ∈ s.intervals, ∀ e ∈ x.exprs, ∀ u ∈ exprSyms e.expr,
        u ∈ (earlier.flatMap fun e => e.symbols.map (·.uuid)) ++ m.symbols.map (·.uuid))

theorem modRefs_of_rel {uuid : U} {earlier : List ModuleV} {mv : ModuleV} {mm : MModule}
    (h : ModuleRel (envOf uuid earlier) mv mm) : ModRefs earlier mv := by
  obtain ⟨_, _, _, _, _, _, _, _, _, _, _, _, _, _, _, _, hex, _, hentry, hrefs⟩ := h
  have henv : (moduleKinds mv).reverse ++ envOf uuid earlier = envOf uuid (earlier ++ [mv]) := by
    simp [envOf]
  refine ⟨?_, ?_, ?_⟩
  · intro u hep
    have := Env.mem_of_find (hentry u hep).2
    have := env2_sub_env3 mv _ this
    rw [henv] at this
    obtain ⟨m', hm', hk⟩ := envOf_cases (by decide) this
    exact vis_of_mem (f := ModuleV.codeUuids) ⟨m', hm', codeUuids_of_mem hk⟩
  · intro s hs u hp
    obtain ⟨k, hbk, hm⟩ := hrefs s hs u hp
    have := env2_sub_env3 mv _ hm
    rw [henv] at this
    obtain ⟨m', hm', hk⟩ := envOf_cases (by intro e; subst e; cases hbk) this
    exact vis_of_mem (f := ModuleV.blockUuids) ⟨m', hm', blockUuids_of_mem hbk hk⟩
  · intro s hs x hx e he u hu
    obtain ⟨ms, _, hr1⟩ := hex.mem_left hs
    obtain ⟨mx, _, hr2⟩ := hr1.mem_left hx
    obtain ⟨kv, _, hr3⟩ := hr2.mem_left he
    obtain ⟨_, _, _, hsy⟩ := hr3
    have := Env.mem_of_find (hsy u hu).2
    rw [henv] at this
    obtain ⟨m', hm', hk⟩ := envOf_cases (by decide) this
    exact vis_of_mem (f := fun e => e.symbols.map (·.uuid)) ⟨m', hm', symUuids_of_mem hk⟩

theorem modsRefs_of_rel {uuid : U} : ∀ (mvs : List ModuleV) (mms : List MModule) (earlier : List ModuleV),
    ModsRel (envOf uuid earlier) mvs mms →
    ∀ pre mod post, mvs = pre ++ mod :: post → ModRefs (earlier ++ pre) mod := by
  intro mvs
  induction mvs with
  | nil => intro _ _ _ pre mod post e; simp at e
  | cons mv mvs ih =>
    intro mms earlier h pre mod post e
    cases mms with
    | nil => exact absurd h (by simp [ModsRel])
    | cons mm mms =>
      simp only [ModsRel] at h
      have henv : (moduleKinds mv).reverse ++ envOf uuid earlier = envOf uuid (earlier ++ [mv]) := by
        simp [envOf]
      rw [henv] at h
      cases pre with
      | nil =>
        simp only [List.nil_append, List.cons.injEq] at e
        obtain ⟨rfl, _⟩ := e
        simpa using modRefs_of_rel h.1
      | cons p pre =>
        simp only [List.cons_append, List.cons.injEq] at e
        obtain ⟨rfl, e⟩ := e
        have := ih mms _ h.2 pre mod post e
        simpa [List.append_assoc] using this

/-- what an accepted module message yields satisfies the per-module conditions of `wfir`,
given that map keys are distinct (protobuf maps) -/
theorem moduleOK_of_rel {uuid : U} {earlier : List ModuleV} {mv : ModuleV} {mm : MModule}
    (h : ModuleRel (envOf uuid earlier) mv mm)
    (hauxk : (mv.aux.map (·.key)).Nodup)
    (hexk : ∀ s ∈ mv.sections, ∀ x ∈ s.intervals, (x.exprs.map (·.key)).Nodup) :
    moduleOK earlier mv = true := by
  have hgood := h.sectionsGood
  obtain ⟨hr1, hr2, hr3⟩ := modRefs_of_rel h
  obtain ⟨_, _, _, _, _, _, _, _, _, _, _, hen, _, _, _, ⟨secs, hs1, hs2⟩, hex, _, _, _⟩ := h
  have hflags : ∀ s ∈ mv.sections, SecFlagsGood s := by
    apply strip_transfer (P := SecFlagsGood) (fun s => Iff.rfl) hs2
    intro s hs
    obtain ⟨ms, _, hr⟩ := hs1.mem_left hs
    exact hr.flagsGood
  simp only [moduleOK, Bool.and_eq_true, List.all_eq_true, decide_eq_true_eq, nodupB_iff]
  refine ⟨⟨⟨⟨⟨⟨hen.1, hen.2.1⟩, hen.2.2⟩, ?_⟩, ?_⟩, hauxk⟩, ?_⟩
  · cases hep : mv.entryPoint with
    | none => rfl
    | some u =>
      simp only
      exact decide_eq_true (hr1 u hep)
  · intro s hs
    cases hp : s.payload with
    | none => rfl
    | value n => rfl
    | referent u =>
      simp only
      exact decide_eq_true (hr2 s hs u hp)
  · intro s hs
    refine ⟨⟨by simpa using (hflags s hs).1, (hflags s hs).2⟩, ?_⟩
    intro x hx
    have hg := (hgood s hs).2 x hx
    refine ⟨⟨⟨hg.1, ?_⟩, hexk s hs x hx⟩, ?_⟩
    · intro b hb
      have := hg.2.2.2 b hb
      cases b with
      | code _ _ _ _ => simpa [dmOK] using this
      | data _ _ _ => rfl
    · intro e he
      obtain ⟨ms, _, hr1'⟩ := hex.mem_left hs
      obtain ⟨mx, _, hr2'⟩ := hr1'.mem_left hx
      obtain ⟨kv, _, hr3'⟩ := hr2'.mem_left he
      obtain ⟨_, hat, _, _⟩ := hr3'
      exact ⟨hat ▸ nodup_dedupNat _, hr3 s hs x hx e he⟩

theorem modulesOK_of_rel {uuid : U} : ∀ (mvs : List ModuleV) (mms : List MModule) (earlier : List ModuleV),
    ModsRel (envOf uuid earlier) mvs mms →
    (∀ m ∈ mvs, (m.aux.map (·.key)).Nodup ∧
      ∀ s ∈ m.sections, ∀ x ∈ s.intervals, (x.exprs.map (·.key)).Nodup) →
    modulesOK earlier mvs = true := by
  intro mvs
  induction mvs with
  | nil => intro _ _ _ _; rfl
  | cons mv mvs ih =>
    intro mms earlier h hk
    cases mms with
    | nil => exact absurd h (by simp [ModsRel])
    | cons mm mms =>
      simp only [ModsRel] at h
      have henv : (moduleKinds mv).reverse ++ envOf uuid earlier = envOf uuid (earlier ++ [mv]) := by
        simp [envOf]
      rw [henv] at h
      simp only [modulesOK, Bool.and_eq_true]
      exact ⟨moduleOK_of_rel h.1 (hk mv List.mem_cons_self).1 (hk mv List.mem_cons_self).2,
        ih mms _ h.2 (fun m hm => hk m (List.mem_cons_of_mem _ hm))⟩

/-- map keys are pairwise distinct (always so for what protobuf parses: they are maps) -/
def KeysNodup (v : IRV) : Prop :=
  (v.aux.map (·.key)).Nodup ∧ ∀ m ∈ v.modules, (m.aux.map (·.key)).Nodup ∧
    ∀ s ∈ m.sections, ∀ x ∈ s.intervals, (x.exprs.map (·.key)).Nodup

theorem wfir_of_fromMsg {m : MIR} {v : IRV} (h : fromMsg m = .ok v)
    (hside : ∀ mod ∈ v.modules, ∀ s ∈ mod.sections, ∀ x ∈ s.intervals, x.uuid ∉ x.blockUuids)
    (hkeys : KeysNodup v) : wfir v = true := by
  have hnd := fromMsg_nodup h hside
  have hrel := fromMsg_rel h
  obtain ⟨_, _, h3, h4, _, h6, h7, h8⟩ := fromMsg_ok h
  have h16 : ∀ u ∈ v.nodeUuids, u.length = 16 := by
    intro u hu
    simp only [IRV.nodeUuids, List.mem_cons, List.mem_flatMap] at hu
    rcases hu with rfl | ⟨mv, hmv, hu⟩
    · exact h4
    · obtain ⟨mm, _, e, hr⟩ := h7.mem_left hmv
      exact hr.all16 u hu
  have henv : (irKinds v).reverse = envOf v.uuid v.modules := by simp [irKinds, envOf]
  have hmods : modulesOK [] v.modules = true :=
    modulesOK_of_rel (uuid := v.uuid) v.modules m.modules [] (by simpa [envOf] using hrel) hkeys.2
  simp only [wfir, Bool.and_eq_true, List.all_eq_true, beq_iff_eq, nodupB_iff, decide_eq_true_eq]
  refine ⟨⟨⟨⟨⟨⟨h16, hnd⟩, h3⟩, hmods⟩, hkeys.1⟩, h6 ▸ nodup_dedupEdges _⟩, ?_⟩
  intro e he
  obtain ⟨hs, hd, hl⟩ := h8 e he
  have cfg : ∀ u, (Env.find (irKinds v).reverse u = some .code
      ∨ Env.find (irKinds v).reverse u = some .proxy) →
      u ∈ (v.modules.flatMap fun m => m.codeUuids ++ m.proxies) := by
    intro u hu
    rw [henv] at hu
    rcases hu with hu | hu
    · obtain ⟨m', hm', hk⟩ := envOf_cases (by decide) (Env.mem_of_find hu)
      exact List.mem_flatMap.2 ⟨m', hm', List.mem_append_left _ (codeUuids_of_mem hk)⟩
    · obtain ⟨m', hm', hk⟩ := envOf_cases (by decide) (Env.mem_of_find hu)
      exact List.mem_flatMap.2 ⟨m', hm', List.mem_append_right _ (proxies_of_mem hk)⟩
  refine ⟨⟨cfg _ hs.2, cfg _ hd.2⟩, ?_⟩
  cases hlab : e.label with
  | none => rfl
  | some l => exact hl l hlab


/-- edge endpoints of an accepted message are code blocks or proxies of the result -/
theorem fromMsg_edges {m : MIR} {v : IRV} (h : fromMsg m = .ok v) :
    ∀ e ∈ v.edges,
      e.src ∈ (v.modules.flatMap fun m => m.codeUuids ++ m.proxies)
      ∧ e.dst ∈ (v.modules.flatMap fun m => m.codeUuids ++ m.proxies)
      ∧ (∀ l, e.label = some l → pyEnumHas "EdgeType" l.type = true) := by
  obtain ⟨_, _, _, _, _, _, _, h8⟩ := fromMsg_ok h
  have henv : (irKinds v).reverse = envOf v.uuid v.modules := by simp [irKinds, envOf]
  intro e he
  obtain ⟨hs, hd, hl⟩ := h8 e he
  have cfg : ∀ u, (Env.find (irKinds v).reverse u = some .code
      ∨ Env.find (irKinds v).reverse u = some .proxy) →
      u ∈ (v.modules.flatMap fun m => m.codeUuids ++ m.proxies) := by
    intro u hu
    rw [henv] at hu
    rcases hu with hu | hu
    · obtain ⟨m', hm', hk⟩ := envOf_cases (by decide) (Env.mem_of_find hu)
      exact List.mem_flatMap.2 ⟨m', hm', List.mem_append_left _ (codeUuids_of_mem hk)⟩
    · obtain ⟨m', hm', hk⟩ := envOf_cases (by decide) (Env.mem_of_find hu)
      exact List.mem_flatMap.2 ⟨m', hm', List.mem_append_right _ (proxies_of_mem hk)⟩
  exact ⟨cfg _ hs.2, cfg _ hd.2, hl⟩

theorem fromMsg_modRefs {m : MIR} {v : IRV} (h : fromMsg m = .ok v) :
    ∀ pre mod post, v.modules = pre ++ mod :: post → ModRefs pre mod := by
  have hrel := fromMsg_rel h
  have := modsRefs_of_rel (uuid := v.uuid) v.modules m.modules [] (by simpa [envOf] using hrel)
  simpa using this

end Gtirb.Msg
