import GtirbModel.LoaderX
import GtirbProofs.Lemmas.LoaderProofs
import GtirbProofs.Lemmas.LinkProofs
/-! Lemmas about `GtirbModel/LoaderX.lean` (the staged decoder with the symbolic-expression pass over
interval objects): erasure onto `Loader.load`, and the analysis of runs in which every table lookup of
`Node._from_protobuf` misses. -/
namespace Gtirb.Loader
open Gtirb.Forest
open Gtirb.Msg (All2)

/-! ## Part 1: erasing the pending map -/

/-- forget the pending map -/
def eraseP (r : Except LErr (G × Nat × Pend)) : Except LErr (G × Nat) :=
  match r with
  | .ok (g, v, _) => .ok (g, v)
  | .error e => .error e

def eraseA (r : Except LErr (G × Pend)) : Except LErr G :=
  match r with
  | .ok (g, _) => .ok g
  | .error e => .error e

theorem eraseP_ok {r : Except LErr (G × Nat × Pend)} {g : G} {v : Nat} {pend : Pend} (h : r = .ok (g, v, pend)) :
    eraseP r = .ok (g, v) := by rw [h]; rfl

theorem eraseP_eq_ok {r : Except LErr (G × Nat × Pend)} {g : G} {v : Nat} (h : eraseP r = .ok (g, v)) :
    ∃ pend, r = .ok (g, v, pend) := by
  cases r with
  | error e => cases h
  | ok p => obtain ⟨g', v', pend⟩ := p; cases h; exact ⟨pend, rfl⟩

theorem eraseP_eq_error {r : Except LErr (G × Nat × Pend)} {e : LErr} (h : eraseP r = .error e) : r = .error e := by
  cases r with
  | error e' => cases h; rfl
  | ok p => cases h

theorem eraseA_eq_ok {r : Except LErr (G × Pend)} {g : G} (h : eraseA r = .ok g) : ∃ pend, r = .ok (g, pend) := by
  cases r with
  | error e => cases h
  | ok p => obtain ⟨g', pend⟩ := p; cases h; exact ⟨pend, rfl⟩

theorem eraseA_eq_error {r : Except LErr (G × Pend)} {e : LErr} (h : eraseA r = .error e) : r = .error e := by
  cases r with
  | error e' => cases h; rfl
  | ok p => cases h

theorem decodeIntervalX_erase (g : G) (pend : Pend) (ir : Nat) (x : XInterval) :
    eraseP (decodeIntervalX g pend ir x) = decodeInterval g ir x.core := by
  unfold decodeIntervalX decodeInterval
  cases fromProto g ir .interval x.core.uuid with
  | error e => rfl
  | ok r =>
    obtain ⟨g1, v, fresh⟩ := r
    cases fresh with
    | false => rfl
    | true =>
      simp only [Bool.not_true, Bool.false_eq_true, if_false]
      cases decodeBlocks ir g1 x.core.blocks with
      | error e => rfl
      | ok r2 =>
        obtain ⟨g2, bs⟩ := r2
        simp only []
        cases liftE (blkUpdate g2 v bs) with
        | error e => rfl
        | ok g3 => rfl

theorem decodeAttachX_erase {α β : Type} {decX : G → Pend → Nat → α → Except LErr (G × Nat × Pend)}
    {dec : G → Nat → β → Except LErr (G × Nat)} {c : α → β} {ir : Nat} (p : Nat) (s : Slot)
    (h : ∀ g pend a, eraseP (decX g pend ir a) = dec g ir (c a)) :
    ∀ (as : List α) (g : G) (pend : Pend),
      eraseA (decodeAttachX decX ir p s g pend as) = decodeAttach dec ir p s g (as.map c)
  | [], g, pend => rfl
  | a :: as, g, pend => by
    simp only [decodeAttachX, List.map_cons, decodeAttach]
    rw [← h g pend a]
    cases decX g pend ir a with
    | error e => rfl
    | ok r =>
      obtain ⟨g1, v, pend1⟩ := r
      simp only [eraseP]
      cases liftE (setAdd g1 p s v) with
      | error e => rfl
      | ok g2 => exact decodeAttachX_erase p s h as g2 pend1

theorem decodeSectionX_erase (g : G) (pend : Pend) (ir : Nat) (s : XSection) :
    eraseP (decodeSectionX g pend ir s) = decodeSection g ir s.core := by
  unfold decodeSectionX decodeSection
  show eraseP (match fromProto g ir .section s.uuid with | .error e => _ | .ok (g1, v, fresh) => _) =
    (match fromProto g ir .section s.uuid with | .error e => _ | .ok (g1, v, fresh) => _)
  cases fromProto g ir .section s.uuid with
  | error e => rfl
  | ok r =>
    obtain ⟨g1, v, fresh⟩ := r
    cases fresh with
    | false => rfl
    | true =>
      simp only [Bool.not_true, Bool.false_eq_true, if_false]
      have := decodeAttachX_erase (ir := ir) v .bis (fun g pend a => decodeIntervalX_erase g pend ir a) s.intervals (cacheSet g1 ir s.uuid v) pend
      show eraseP (match decodeAttachX decodeIntervalX ir v .bis (cacheSet g1 ir s.uuid v) pend s.intervals with
          | .error e => _ | .ok (g4, pend4) => _) =
        (match decodeAttach decodeInterval ir v .bis (cacheSet g1 ir s.uuid v) (s.intervals.map (·.core)) with
          | .error e => _ | .ok g4 => _)
      rw [← this]
      cases decodeAttachX decodeIntervalX ir v .bis (cacheSet g1 ir s.uuid v) pend s.intervals with
      | error e => rfl
      | ok r2 => obtain ⟨g4, pend4⟩ := r2; rfl

/-! ### a module, up to the expression-symbol check -/

/-- `decodeModule` without the final expression-symbol check: state, module node, fresh? -/
def moduleBuild (g : G) (ir : Nat) (m : SkModule) : Except LErr (G × Nat × Bool) :=
  match fromProto g ir .module m.uuid with
  | .error e => .error e
  | .ok (g1, v, fresh) =>
    if !fresh then .ok (g1, v, false) else
    let g2 := cacheSet g1 ir m.uuid v
    match decodeAttach decodeProxy ir v .proxies g2 m.proxies with
    | .error e => .error e
    | .ok g4 =>
      match decodeAttach decodeSection ir v .secs g4 m.sections with
      | .error e => .error e
      | .ok g6 =>
        match (match m.entry with
               | none => (.ok () : Except LErr Unit)
               | some u => refKind g6 ir (fun k => k == Kind.code) u) with
        | .error e => .error e
        | .ok _ =>
          match decodeAttach decodeSymbol ir v .syms g6 m.symbols with
          | .error e => .error e
          | .ok g8 => .ok (g8, v, true)

theorem decodeModule_eq_build (g : G) (ir : Nat) (m : SkModule) :
    decodeModule g ir m =
      match moduleBuild g ir m with
      | .error e => .error e
      | .ok (g8, v, fresh) =>
        if fresh then
          match checkAll g8 ir (fun k => k == Kind.symbol) m.exprSyms with
          | .error e => .error e
          | .ok _ => .ok (g8, v)
        else .ok (g8, v) := by
  unfold decodeModule moduleBuild
  cases fromProto g ir .module m.uuid with
  | error e => rfl
  | ok r =>
    obtain ⟨g1, v, fresh⟩ := r
    cases fresh with
    | false => rfl
    | true =>
      simp only [Bool.not_true, Bool.false_eq_true, if_false]
      cases decodeAttach decodeProxy ir v .proxies (cacheSet g1 ir m.uuid v) m.proxies with
      | error e => rfl
      | ok g4 =>
        simp only []
        cases decodeAttach decodeSection ir v .secs g4 m.sections with
        | error e => rfl
        | ok g6 =>
          simp only []
          cases m.entry with
          | none =>
            simp only []
            cases decodeAttach decodeSymbol ir v .syms g6 m.symbols with
            | error e => rfl
            | ok g8 => rfl
          | some u =>
            simp only []
            cases refKind g6 ir (fun k => k == Kind.code) u with
            | error e => rfl
            | ok _ =>
              simp only []
              cases decodeAttach decodeSymbol ir v .syms g6 m.symbols with
              | error e => rfl
              | ok g8 => rfl

/-- `decodeModuleX` without the final pass: state, module node, pending map, fresh? -/
def moduleBuildX (g : G) (pend : Pend) (ir : Nat) (m : XModule) : Except LErr (G × Nat × Pend × Bool) :=
  match fromProto g ir .module m.uuid with
  | .error e => .error e
  | .ok (g1, v, fresh) =>
    if !fresh then .ok (g1, v, pend, false) else
    let g2 := cacheSet g1 ir m.uuid v
    match decodeAttach decodeProxy ir v .proxies g2 m.proxies with
    | .error e => .error e
    | .ok g4 =>
      match decodeAttachX decodeSectionX ir v .secs g4 pend m.sections with
      | .error e => .error e
      | .ok (g6, pend6) =>
        match (match m.entry with
               | none => (.ok () : Except LErr Unit)
               | some u => refKind g6 ir (fun k => k == Kind.code) u) with
        | .error e => .error e
        | .ok _ =>
          match decodeAttach decodeSymbol ir v .syms g6 m.symbols with
          | .error e => .error e
          | .ok g8 => .ok (g8, v, pend6, true)

theorem decodeModuleX_eq_build (g : G) (pend : Pend) (ir : Nat) (m : XModule) :
    decodeModuleX g pend ir m =
      match moduleBuildX g pend ir m with
      | .error e => .error (.core e)
      | .ok (g8, v, pend6, fresh) =>
        if fresh then
          match symExprs g8 ir pend6 (intervalsUnder g8 v) with
          | .error e => .error e
          | .ok pend8 => .ok (g8, v, pend8)
        else .ok (g8, v, pend6) := by
  unfold decodeModuleX moduleBuildX
  cases fromProto g ir .module m.uuid with
  | error e => rfl
  | ok r =>
    obtain ⟨g1, v, fresh⟩ := r
    cases fresh with
    | false => rfl
    | true =>
      simp only [Bool.not_true, Bool.false_eq_true, if_false]
      cases decodeAttach decodeProxy ir v .proxies (cacheSet g1 ir m.uuid v) m.proxies with
      | error e => rfl
      | ok g4 =>
        simp only []
        cases decodeAttachX decodeSectionX ir v .secs g4 pend m.sections with
        | error e => rfl
        | ok r6 =>
          obtain ⟨g6, pend6⟩ := r6
          simp only []
          cases m.entry with
          | none =>
            simp only []
            cases decodeAttach decodeSymbol ir v .syms g6 m.symbols with
            | error e => rfl
            | ok g8 => rfl
          | some u =>
            simp only []
            cases refKind g6 ir (fun k => k == Kind.code) u with
            | error e => rfl
            | ok _ =>
              simp only []
              cases decodeAttach decodeSymbol ir v .syms g6 m.symbols with
              | error e => rfl
              | ok g8 => rfl

def eraseB (r : Except LErr (G × Nat × Pend × Bool)) : Except LErr (G × Nat × Bool) :=
  match r with
  | .ok (g, v, _, f) => .ok (g, v, f)
  | .error e => .error e

theorem moduleBuildX_erase (g : G) (pend : Pend) (ir : Nat) (m : XModule) :
    eraseB (moduleBuildX g pend ir m) = moduleBuild g ir m.core := by
  unfold moduleBuildX moduleBuild
  show eraseB (match fromProto g ir .module m.uuid with | .error e => _ | .ok (g1, v, fresh) => _) =
    (match fromProto g ir .module m.uuid with | .error e => _ | .ok (g1, v, fresh) => _)
  cases fromProto g ir .module m.uuid with
  | error e => rfl
  | ok r =>
    obtain ⟨g1, v, fresh⟩ := r
    cases fresh with
    | false => rfl
    | true =>
      simp only [Bool.not_true, Bool.false_eq_true, if_false]
      show eraseB (match decodeAttach decodeProxy ir v .proxies (cacheSet g1 ir m.uuid v) m.proxies with
          | .error e => _ | .ok g4 => _) =
        (match decodeAttach decodeProxy ir v .proxies (cacheSet g1 ir m.uuid v) m.proxies with
          | .error e => _ | .ok g4 => _)
      cases decodeAttach decodeProxy ir v .proxies (cacheSet g1 ir m.uuid v) m.proxies with
      | error e => rfl
      | ok g4 =>
        simp only []
        have := decodeAttachX_erase (ir := ir) v .secs (fun g pend a => decodeSectionX_erase g pend ir a) m.sections g4 pend
        show eraseB (match decodeAttachX decodeSectionX ir v .secs g4 pend m.sections with
            | .error e => _ | .ok (g6, pend6) => _) =
          (match decodeAttach decodeSection ir v .secs g4 (m.sections.map XSection.core) with
            | .error e => _ | .ok g6 => _)
        rw [← this]
        cases decodeAttachX decodeSectionX ir v .secs g4 pend m.sections with
        | error e => rfl
        | ok r6 =>
          obtain ⟨g6, pend6⟩ := r6
          simp only [eraseA]
          have he : m.core.entry = m.entry := rfl
          have hs : m.core.symbols = m.symbols := rfl
          rw [he, hs]
          cases m.entry with
          | none =>
            simp only []
            cases decodeAttach decodeSymbol ir v .syms g6 m.symbols with
            | error e => rfl
            | ok g8 => rfl
          | some u =>
            simp only []
            cases refKind g6 ir (fun k => k == Kind.code) u with
            | error e => rfl
            | ok _ =>
              simp only []
              cases decodeAttach decodeSymbol ir v .syms g6 m.symbols with
              | error e => rfl
              | ok g8 => rfl

/-- the build part does not look at `exprSyms` -/
theorem moduleBuild_flat (g : G) (ir : Nat) (m : XModule) : moduleBuild g ir m.flat = moduleBuild g ir m.core := rfl

/-! ### projection: what `loadX` accepts, `load` accepts on the skeleton without expression symbols -/

theorem decodeModuleX_ok_core {g g' : G} {pend pend' : Pend} {ir v : Nat} {m : XModule}
    (h : decodeModuleX g pend ir m = .ok (g', v, pend')) : decodeModule g ir m.core = .ok (g', v) := by
  rw [decodeModuleX_eq_build] at h
  rw [decodeModule_eq_build, ← moduleBuildX_erase g pend ir m]
  cases hb : moduleBuildX g pend ir m with
  | error e => rw [hb] at h; cases h
  | ok r =>
    obtain ⟨g8, v8, pend6, fresh⟩ := r
    rw [hb] at h
    simp only [eraseB]
    cases fresh with
    | false =>
      simp only [Bool.false_eq_true, if_false] at h ⊢
      cases h; rfl
    | true =>
      simp only [if_true] at h ⊢
      have : m.core.exprSyms = [] := rfl
      rw [this]
      simp only [checkAll]
      cases hs : symExprs g8 ir pend6 (intervalsUnder g8 v8) with
      | error e => rw [hs] at h; cases h
      | ok p8 => rw [hs] at h; cases h; rfl

theorem decodeModulesX_ok_core {ir : Nat} : ∀ (ms : List XModule) (g g' : G) (pend : Pend),
    decodeModulesX ir g pend ms = .ok g' → decodeModules ir g (ms.map XModule.core) = .ok g'
  | [], g, g', pend, h => by cases h; rfl
  | m :: ms, g, g', pend, h => by
    simp only [decodeModulesX] at h
    simp only [List.map_cons, decodeModules]
    cases hm : decodeModuleX g pend ir m with
    | error e => rw [hm] at h; cases h
    | ok r =>
      obtain ⟨g1, v, pend1⟩ := r
      rw [hm] at h
      rw [decodeModuleX_ok_core hm]
      simp only [] at h ⊢
      cases ha : liftE (modAppend g1 ir v) with
      | error e => rw [ha] at h; cases h
      | ok g2 =>
        rw [ha] at h
        simp only [] at h ⊢
        exact decodeModulesX_ok_core ms g2 g' pend1 h

theorem loadX_ok_load {g g' : G} {mx : XIR} {ir : Nat} (h : loadX g mx = .ok (g', ir)) :
    load g mx.core = .ok (g', ir) := by
  unfold loadX at h
  unfold load
  simp only [] at h ⊢
  cases hm : decodeModulesX g.n (mkIR g mx.uuid) [] mx.modules with
  | error e => rw [hm] at h; cases h
  | ok g2 =>
    rw [hm] at h
    have := decodeModulesX_ok_core mx.modules _ _ _ hm
    show (match decodeModules g.n (mkIR g mx.uuid) (mx.modules.map XModule.core) with
      | .error e => _ | .ok g2 => _) = _
    rw [this]
    simp only [] at h ⊢
    show (match checkAll g2 g.n (fun k => k == Kind.code || k == Kind.proxy) (mx.edges.flatMap fun e => [e.1, e.2]) with
      | .error e => _ | .ok _ => _) = _
    cases hc : checkAll g2 g.n (fun k => k == Kind.code || k == Kind.proxy) (mx.edges.flatMap fun e => [e.1, e.2]) with
    | error e => rw [hc] at h; cases h
    | ok _ => rw [hc] at h; cases h; rfl

/-! ## Part 2: runs in which every table lookup of `Node._from_protobuf` misses

`K`: the UUIDs registered in the new IR's table so far (a superset of its keys). When no lookup hits,
no node is re-used or moved: every message node becomes one new, detached node that is appended to
the collection of the node under construction. -/

/-- the state of such a run -/
structure FS (ir : Nat) (K : Nat → Prop) (g : G) : Prop where
  lt : ir < g.n
  keys : ∀ u n, g.cache ir u = some n → K u
  wf : ∀ y, ir ≤ y → y < g.n → ∀ s c, c ∈ g.kids y s → c < g.n
  up : ∀ y, ir ≤ y → y < g.n → ∀ s c, c ∈ g.kids y s → y < c
  kp : ∀ y, ir ≤ y → y < g.n → ∀ s c, c ∈ g.kids y s → g.par c = some y
  nd : ∀ y, ir ≤ y → y < g.n → ∀ s, (g.kids y s).Nodup

theorem FS.mono {ir : Nat} {K K' : Nat → Prop} {g : G} (h : FS ir K g) (hK : ∀ u, K u → K' u) : FS ir K' g :=
  ⟨h.lt, fun u n hc => hK u (h.keys u n hc), h.wf, h.up, h.kp, h.nd⟩

theorem FS.alloc {ir : Nat} {K : Nat → Prop} {g : G} (h : FS ir K g) (k : Kind) (u : Nat) :
    FS ir K (alloc g k u).1 := by
  refine ⟨Nat.lt_succ_of_lt h.lt, h.keys, ?_, ?_, ?_, ?_⟩
  · intro y hy hlt s c hc
    simp only [alloc_kids] at hc
    split at hc
    · cases hc
    · rename_i hne
      exact Nat.lt_succ_of_lt (h.wf y hy (by simp only [alloc_n] at hlt; omega) s c hc)
  · intro y hy hlt s c hc
    simp only [alloc_kids] at hc
    split at hc
    · cases hc
    · rename_i hne
      exact h.up y hy (by simp only [alloc_n] at hlt; omega) s c hc
  · intro y hy hlt s c hc
    simp only [alloc_kids] at hc
    split at hc
    · cases hc
    · rename_i hne
      have hyn : y < g.n := by simp only [alloc_n] at hlt; omega
      have hcn := h.wf y hy hyn s c hc
      simp only [alloc_par, if_neg (Nat.ne_of_lt hcn)]
      exact h.kp y hy hyn s c hc
  · intro y hy hlt s
    simp only [alloc_kids]
    split
    · exact List.nodup_nil
    · rename_i hne
      exact h.nd y hy (by simp only [alloc_n] at hlt; omega) s

/-- only the table (and fields `FS` does not look at) changed -/
theorem FS.of_cache {ir : Nat} {K : Nat → Prop} {g g' : G} (h : FS ir K g) (hn : g'.n = g.n)
    (hk : g'.kids = g.kids) (hp : g'.par = g.par) (hc : ∀ u n, g'.cache ir u = some n → K u) : FS ir K g' :=
  ⟨by rw [hn]; exact h.lt, hc,
   fun y hy hlt s c hm => by rw [hn] at hlt ⊢; rw [hk] at hm; exact h.wf y hy hlt s c hm,
   fun y hy hlt s c hm => by rw [hn] at hlt; rw [hk] at hm; exact h.up y hy hlt s c hm,
   fun y hy hlt s c hm => by rw [hn] at hlt; rw [hk] at hm; rw [hp]; exact h.kp y hy hlt s c hm,
   fun y hy hlt s => by rw [hn] at hlt; rw [hk]; exact h.nd y hy hlt s⟩

theorem FS.cacheSet {ir : Nat} {K : Nat → Prop} {g : G} (h : FS ir K g) (u v : Nat) :
    FS ir (fun w => K w ∨ w = u) (cacheSet g ir u v) := by
  refine (h.mono (fun w hw => Or.inl hw)).of_cache rfl rfl rfl ?_
  intro u' n hc
  simp only [cacheSet_cache] at hc
  split at hc
  · rename_i hh; exact .inr hh.2
  · exact .inl (h.keys u' n hc)

theorem FS.setAll {ir : Nat} {K : Nat → Prop} {g : G} (h : FS ir K g) (L : List Nat)
    (hL : ∀ y, y ∈ L → K (g.uuid y)) : FS ir K (cache_setAll g ir L) := by
  have ho := cache_setAll_only ir L g
  refine h.of_cache ho.n ho.kids ho.par ?_
  intro u n hc
  rcases setAll_cases ir L g ir u with ⟨y, hy, hyu, _, _⟩ | ⟨he, _⟩
  · rw [← hyu]; exact hL y hy
  · rw [he] at hc; exact h.keys u n hc

/-- detached new nodes `xs` were appended to collection `s` of the new node `p` -/
theorem FS.attached {ir : Nat} {K : Nat → Prop} {g g' : G} {p : Nat} {s : Slot} {xs : List Nat} (h : FS ir K g)
    (a : Attached g g' p s xs) (hp : ir ≤ p) (hpn : p < g.n)
    (hxs : ∀ x, x ∈ xs → p < x ∧ x < g.n ∧ g.par x = none) (hnd : xs.Nodup) : FS ir K g' := by
  refine ⟨by rw [a.n]; exact h.lt, by rw [a.cache]; exact h.keys, ?_, ?_, ?_, ?_⟩
  · intro y hy hlt s' c hc
    rw [a.n] at hlt ⊢
    rw [a.kids] at hc
    split at hc
    · rcases List.mem_append.1 hc with hc | hc
      · exact h.wf p hp hpn s c hc
      · exact (hxs c hc).2.1
    · exact h.wf y hy hlt s' c hc
  · intro y hy hlt s' c hc
    rw [a.n] at hlt
    rw [a.kids] at hc
    split at hc
    · rename_i hh
      rw [hh.1]
      rcases List.mem_append.1 hc with hc | hc
      · exact h.up p hp hpn s c hc
      · exact (hxs c hc).1
    · exact h.up y hy hlt s' c hc
  · intro y hy hlt s' c hc
    rw [a.n] at hlt
    rw [a.kids] at hc
    rw [a.par]
    split at hc
    · rename_i hh
      rw [hh.1]
      rcases List.mem_append.1 hc with hc | hc
      · have := h.kp p hp hpn s c hc
        split
        · rfl
        · exact this
      · rw [if_pos hc]
    · have hpc := h.kp y hy hlt s' c hc
      split
      · rename_i hcx
        rw [(hxs c hcx).2.2] at hpc; cases hpc
      · exact hpc
  · intro y hy hlt s'
    rw [a.n] at hlt
    rw [a.kids]
    split
    · rw [List.nodup_append]
      refine ⟨h.nd p hp hpn s, hnd, ?_⟩
      intro c hc d hd hcd
      subst hcd
      have := h.kp p hp hpn s c hc
      rw [(hxs c hd).2.2] at this; cases this
    · exact h.nd y hy hlt s'

/-! ### blocks -/

/-- every block UUID misses: not registered so far, and not the UUID of an earlier block of the list -/
def MissBlocks : (Nat → Prop) → List (Nat × Bool) → Prop
  | _, [] => True
  | K, b :: bs => ¬ K b.1 ∧ MissBlocks (fun u => K u ∨ u = b.1) bs

theorem same_alloc_cacheSet (g : G) (k : Kind) (u ir : Nat) : Same g.n g (cacheSet (alloc g k u).1 ir u g.n) := by
  intro x hx
  have hne : x ≠ g.n := Nat.ne_of_lt hx
  exact ⟨by show (alloc g k u).1.kind x = _; simp [hne], by show (alloc g k u).1.uuid x = _; simp [hne],
    by show (alloc g k u).1.par x = _; simp [hne], rfl, rfl, fun s => by show (alloc g k u).1.kids x s = _; simp [hne]⟩

theorem blocks_fresh {ir : Nat} : ∀ (bs : List (Nat × Bool)) (K : Nat → Prop) (g : G), FS ir K g → MissBlocks K bs →
    ∃ g' vs, decodeBlocks ir g bs = .ok (g', vs) ∧ FS ir (fun u => K u ∨ u ∈ bs.map (·.1)) g' ∧ g.n ≤ g'.n ∧
      Same g.n g g' ∧ vs.Nodup ∧
      (∀ w, w ∈ vs → g.n ≤ w ∧ w < g'.n ∧ g'.par w = none) ∧
      (∀ y, g.n ≤ y → y < g'.n → y ∈ vs) ∧
      (∀ w, w ∈ vs → g'.uuid w ∈ bs.map (·.1))
  | [], K, g, h, _ =>
    ⟨g, [], rfl, h.mono (fun u hu => .inl hu), Nat.le_refl _, Same.refl _ _, List.nodup_nil,
      fun w hw => (by cases hw), fun y h1 h2 => (by omega), fun w hw => (by cases hw)⟩
  | b :: bs, K, g, h, hm => by
    obtain ⟨hb, hm'⟩ := hm
    have hmiss : g.cache ir b.1 = none := by
      cases hc : g.cache ir b.1 with
      | none => rfl
      | some n => exact absurd (h.keys _ _ hc) hb
    have e1 : decodeBlock g ir b =
        .ok (cacheSet (alloc g (if b.2 then .code else .data) b.1).1 ir b.1 g.n, g.n) := by
      unfold decodeBlock
      rw [fromProto_miss _ hmiss]
      rfl
    have h1 : FS ir (fun u => K u ∨ u = b.1) (cacheSet (alloc g (if b.2 then .code else .data) b.1).1 ir b.1 g.n) :=
      (h.alloc _ _).cacheSet _ _
    obtain ⟨g2, vs, e2, h2, le2, s2, nd2, m2, all2, uu2⟩ := blocks_fresh bs _ _ h1 hm'
    have hn1 : (cacheSet (alloc g (if b.2 then .code else .data) b.1).1 ir b.1 g.n).n = g.n + 1 := rfl
    rw [hn1] at le2 m2 all2 s2
    have s1 := same_alloc_cacheSet g (if b.2 then .code else .data) b.1 ir
    refine ⟨g2, g.n :: vs, ?_, ?_, by omega, s1.trans s2 (Nat.le_succ _), ?_, ?_, ?_, ?_⟩
    · simp only [decodeBlocks]
      rw [e1]
      simp only []
      rw [e2]
    · refine h2.mono ?_
      intro u hu
      simp only [List.map_cons, List.mem_cons]
      rcases hu with (hu | hu) | hu
      · exact .inl hu
      · exact .inr (.inl hu)
      · exact .inr (.inr hu)
    · rw [List.nodup_cons]
      refine ⟨fun hv => ?_, nd2⟩
      have := (m2 _ hv).1
      omega
    · intro w hw
      rcases List.mem_cons.1 hw with hw0 | hw
      · subst hw0
        refine ⟨Nat.le_refl _, by omega, ?_⟩
        rw [(s2 g.n (Nat.lt_succ_self _)).2.2.1]
        show (alloc g (if b.2 then Kind.code else Kind.data) b.1).1.par g.n = none
        simp
      · obtain ⟨a1, a2, a3⟩ := m2 w hw
        exact ⟨by omega, a2, a3⟩
    · intro y h1 h2
      by_cases hy : y = g.n
      · rw [hy]; exact List.mem_cons_self
      · exact List.mem_cons_of_mem _ (all2 y (by omega) h2)
    · intro w hw
      simp only [List.map_cons, List.mem_cons]
      rcases List.mem_cons.1 hw with hw0 | hw
      · subst hw0
        left
        rw [(s2 g.n (Nat.lt_succ_self _)).2.1]
        show (alloc g (if b.2 then Kind.code else Kind.data) b.1).1.uuid g.n = _
        simp
      · exact .inr (uu2 w hw)

/-! ### one interval -/

def MissI (K : Nat → Prop) (x : SkInterval) : Prop := ¬ K x.uuid ∧ MissBlocks K x.blocks

theorem intervalX_fresh {ir : Nat} {K : Nat → Prop} {g : G} (h : FS ir K g) (x : XInterval) (hm : MissI K x.core)
    (pend : Pend) :
    ∃ g', decodeIntervalX g pend ir x = .ok (g', g.n, (g.n, x.exprSyms) :: pend) ∧
      FS ir (fun u => K u ∨ u ∈ x.core.nodeUuids) g' ∧ g.n < g'.n ∧ Same g.n g g' ∧ g'.par g.n = none ∧
      g'.kind g.n = .interval ∧ (∀ y, g.n ≤ y → y < g'.n → g'.uuid y ∈ x.core.nodeUuids) := by
  obtain ⟨hu, hb⟩ := hm
  have hmiss : g.cache ir x.core.uuid = none := by
    cases hc : g.cache ir x.core.uuid with
    | none => rfl
    | some n => exact absurd (h.keys _ _ hc) hu
  have h1 : FS ir K (alloc g .interval x.core.uuid).1 := h.alloc _ _
  obtain ⟨g2, vs, e2, h2, le2, s2, nd2, m2, all2, uu2⟩ := blocks_fresh x.core.blocks K _ h1 hb
  have hn1 : (alloc g .interval x.core.uuid).1.n = g.n + 1 := rfl
  rw [hn1] at le2 m2 all2 s2
  obtain ⟨k2, u2, p2, _, _, kd2⟩ := s2 g.n (Nat.lt_succ_self _)
  simp only [alloc_kind, alloc_uuid, alloc_par, alloc_kids, if_true] at k2 u2 p2 kd2
  obtain ⟨g3, e3, a3⟩ := blkUpdate_fresh (g := g2) (p := g.n) (vs := vs) p2 (by rw [k2]; decide)
    (fun w hw => (m2 w hw).2.2) nd2 (kd2 .blocks)
  have hkids3 : g3.kids g.n .blocks = vs := by rw [a3.kids]; simp [kd2 .blocks]
  have hnv : g.n ∉ vs := fun hm => by have := (m2 _ hm).1; omega
  have ho := cache_setAll_only ir (cache_walkI g3.kids g.n) g3
  have hir : ir ≤ g.n := Nat.le_of_lt h.lt
  have h3 : FS ir (fun u => K u ∨ u ∈ x.core.blocks.map (·.1)) g3 :=
    h2.attached a3 hir (by omega) (fun w hw => by obtain ⟨a, b, c⟩ := m2 w hw; exact ⟨by omega, b, c⟩) nd2
  have huu : ∀ y, g.n ≤ y → y < g3.n → g3.uuid y ∈ x.core.nodeUuids := by
    intro y h1 h2
    rw [a3.n] at h2
    rw [a3.uuid]
    unfold SkInterval.nodeUuids
    by_cases hy : y = g.n
    · rw [hy, u2]; exact List.mem_cons_self
    · exact List.mem_cons_of_mem _ (uu2 y (all2 y (by omega) h2))
  refine ⟨cacheAddInterval g3 ir g.n, ?_, ?_, ?_, ?_, ?_, ?_, ?_⟩
  · unfold decodeIntervalX
    rw [fromProto_miss _ hmiss]
    simp only [Bool.not_true, Bool.false_eq_true, if_false]
    rw [e2]
    simp only []
    rw [e3]
    rfl
  · rw [cache_addInterval_eq]
    refine (h3.mono ?_).setAll _ ?_
    · intro u hu'
      unfold SkInterval.nodeUuids
      rcases hu' with hu' | hu'
      · exact .inl hu'
      · exact .inr (List.mem_cons_of_mem _ hu')
    · intro y hy
      unfold cache_walkI at hy
      rw [hkids3] at hy
      right
      rcases List.mem_cons.1 hy with rfl | hy
      · exact huu _ (Nat.le_refl _) (by rw [a3.n]; omega)
      · obtain ⟨a, b, _⟩ := m2 y hy
        exact huu y (by omega) (by rw [a3.n]; exact b)
  · rw [cache_addInterval_eq, ho.n, a3.n]; omega
  · rw [cache_addInterval_eq]
    refine ((Same.alloc g _ _).trans s2 (Nat.le_succ _)).trans
      ((Same.attached (N := g.n) a3 (Nat.le_refl _) (fun w hw => by have := (m2 w hw).1; omega)).trans
        (Same.of_only (N := g.n) ho.kind ho.uuid ho.par ho.name ho.payload ho.kids) (Nat.le_refl _))
      (Nat.le_refl _)
  · rw [cache_addInterval_eq, ho.par, a3.par, if_neg hnv]; exact p2
  · rw [cache_addInterval_eq, ho.kind, a3.kind]; exact k2
  · intro y h1 h2
    rw [cache_addInterval_eq, ho.n] at h2
    rw [cache_addInterval_eq, ho.uuid]
    exact huu y h1 h2

/-! ### children of the node under construction -/

/-- the pending map answers as before for the nodes below `N` -/
def PExt (N : Nat) (pend pend' : Pend) : Prop := ∀ y, y < N → pend'.lookup y = pend.lookup y

theorem PExt.refl (N : Nat) (pend : Pend) : PExt N pend pend := fun _ _ => rfl

theorem PExt.trans {N M : Nat} {a b c : Pend} (h1 : PExt N a b) (h2 : PExt M b c) (hNM : N ≤ M) : PExt N a c :=
  fun y hy => (h2 y (by omega)).trans (h1 y hy)

theorem PExt.mono {N M : Nat} {a b : Pend} (h : PExt M a b) (hNM : N ≤ M) : PExt N a b :=
  fun y hy => h y (by omega)

/-- every element misses, each one checked against what is registered before it -/
def MissList {α : Type} (miss : (Nat → Prop) → α → Prop) (U : α → List Nat) : (Nat → Prop) → List α → Prop
  | _, [] => True
  | K, a :: as => miss K a ∧ MissList miss U (fun u => K u ∨ u ∈ U a) as

/-- what the decoder of one child guarantees in a run without hits -/
structure ElemX (ir : Nat) (K : Nat → Prop) (L : List Nat) (g : G) (pend : Pend) (g' : G) (v : Nat)
    (pend' : Pend) : Prop where
  fs : FS ir (fun u => K u ∨ u ∈ L) g'
  v_eq : v = g.n
  lt : g.n < g'.n
  same : Same g.n g g'
  par : g'.par v = none
  nodes : ∀ y, g.n ≤ y → y < g'.n → g'.uuid y ∈ L
  pext : PExt g.n pend pend'

theorem Same.weaken {N M : Nat} {g g' : G} (h : Same M g g') (hNM : N ≤ M) : Same N g g' :=
  fun x hx => h x (by omega)

/-- `decodeAttachX` for the children of the node `p` under construction: every child is decoded (fresh,
detached) and appended at once, in message order -/
theorem attachX_fresh {α : Type} {ir : Nat} {dec : G → Pend → Nat → α → Except LErr (G × Nat × Pend)}
    {miss : (Nat → Prop) → α → Prop} {U : α → List Nat} {Q : α → G → Pend → Nat → Prop} {p : Nat} {slot : Slot}
    (hdec : ∀ K g pend a g' v pend', FS ir K g → miss K a → dec g pend ir a = .ok (g', v, pend') →
      ElemX ir K (U a) g pend g' v pend' ∧ Q a g' pend' v)
    (hQ : ∀ a g pend g' pend' v, v < g.n → g.n ≤ g'.n → (∀ s, g'.kids v s = g.kids v s) → PExt g.n pend pend' →
      Q a g pend v → Q a g' pend' v) :
    ∀ (as : List α) (K : Nat → Prop) (gc : G) (pend : Pend) (g' : G) (pend' : Pend),
      FS ir K gc → ir ≤ p → p < gc.n → gc.par p = none → gc.kind p ≠ .ir → MissList miss U K as →
      decodeAttachX dec ir p slot gc pend as = .ok (g', pend') →
      ∃ vs, g'.kids p slot = gc.kids p slot ++ vs ∧ (∀ s0, s0 ≠ slot → g'.kids p s0 = gc.kids p s0) ∧
        FS ir (fun u => K u ∨ u ∈ as.flatMap U) g' ∧ gc.n ≤ g'.n ∧ Same p gc g' ∧ g'.par p = none ∧
        (∀ x, x < gc.n → g'.uuid x = gc.uuid x ∧ g'.kind x = gc.kind x ∧ (x ≠ p → ∀ s, g'.kids x s = gc.kids x s)) ∧
        (∀ y, gc.n ≤ y → y < g'.n → g'.uuid y ∈ as.flatMap U) ∧
        PExt gc.n pend pend' ∧
        All2 (fun v a => Q a g' pend' v) vs as ∧ (∀ v, v ∈ vs → gc.n ≤ v ∧ v < g'.n) := by
  intro as
  induction as with
  | nil =>
    intro K gc pend g' pend' hfs hip hp hpar hk _ h
    simp only [decodeAttachX] at h
    cases h
    exact ⟨[], by simp, fun _ _ => rfl, hfs.mono (fun u hu => .inl hu), Nat.le_refl _, Same.refl _ _, hpar,
      fun x _ => ⟨rfl, rfl, fun _ _ => rfl⟩, fun y h1 h2 => (by omega), PExt.refl _ _, .nil, fun v hv => (by cases hv)⟩
  | cons a as ih =>
    intro K gc pend g' pend' hfs hip hp hpar hk hmiss h
    obtain ⟨hm1, hm2⟩ := hmiss
    simp only [decodeAttachX] at h
    cases hd : dec gc pend ir a with
    | error e => rw [hd] at h; cases h
    | ok r =>
      obtain ⟨g1, v, pend1⟩ := r
      rw [hd] at h
      simp only [] at h
      obtain ⟨el, q1⟩ := hdec K gc pend a g1 v pend1 hfs hm1 hd
      have hv : v = gc.n := el.v_eq
      have hvlt : v < g1.n := by rw [hv]; exact el.lt
      obtain ⟨k1, u1, p1, _, _, kd1⟩ := el.same p hp
      have hpn1 : p < g1.n := Nat.lt_trans hp el.lt
      obtain ⟨g2, e2, a2⟩ := setAdd_fresh (g := g1) (p := p) (v := v) (s := slot) el.par (by rw [p1]; exact hpar)
        (by rw [k1]; exact hk) (by omega) (by
          rw [kd1]
          intro hmem
          have := hfs.wf p hip hp slot v hmem
          omega)
      rw [e2] at h
      simp only [liftE] at h
      have hfs2 : FS ir (fun u => K u ∨ u ∈ U a) g2 :=
        el.fs.attached a2 hip hpn1 (fun x hx => by
          simp only [List.mem_singleton] at hx
          subst hx
          exact ⟨by omega, hvlt, el.par⟩) (by simp)
      have hpv : p ∉ [v] := by simp; omega
      obtain ⟨vs, c1, c2, c3, c4, c5, c6, c7, c8, c9, c10, c11⟩ := ih _ g2 pend1 g' pend' hfs2 hip
        (by rw [a2.n]; exact hpn1) (by rw [a2.par, if_neg hpv, p1]; exact hpar) (by rw [a2.kind, k1]; exact hk) hm2 h
      have hn2 : g2.n = g1.n := a2.n
      refine ⟨v :: vs, ?_, ?_, ?_, by omega, ?_, c6, ?_, ?_, ?_, ?_, ?_⟩
      · rw [c1, a2.kids, if_pos ⟨rfl, rfl⟩, kd1, List.append_assoc]; rfl
      · intro s0 hs0
        rw [c2 s0 hs0, a2.kids, if_neg (fun hh => hs0 hh.2), kd1]
      · refine c3.mono ?_
        intro u hu
        rw [List.flatMap_cons, List.mem_append]
        rcases hu with (hu | hu) | hu
        · exact .inl hu
        · exact .inr (.inl hu)
        · exact .inr (.inr hu)
      · exact ((el.same.weaken (Nat.le_of_lt hp)).trans
          (Same.attached (N := p) a2 (Nat.le_refl _) (fun x hx => by
            simp only [List.mem_singleton] at hx; omega)) (Nat.le_refl _)).trans c5 (Nat.le_refl _)
      · intro x hx
        have hx1 : x < g1.n := Nat.lt_trans hx el.lt
        obtain ⟨d1, d2, d3⟩ := c7 x (by rw [hn2]; exact hx1)
        obtain ⟨f1, f2, _, _, _, f6⟩ := el.same x hx
        refine ⟨by rw [d1, a2.uuid]; exact f2, by rw [d2, a2.kind]; exact f1, ?_⟩
        intro hxp s
        rw [d3 hxp s, a2.kids, if_neg (fun hh => hxp hh.1), f6]
      · intro y h1 h2
        rw [List.flatMap_cons, List.mem_append]
        by_cases hy : y < g1.n
        · left
          rw [(c7 y (by rw [hn2]; exact hy)).1, a2.uuid]
          exact el.nodes y h1 hy
        · exact .inr (c8 y (by omega) h2)
      · exact el.pext.trans c9 (by omega)
      · refine .cons ?_ c10
        refine hQ a g1 pend1 g' pend' v hvlt (by omega) ?_ (c9.mono (by omega)) q1
        intro s
        rw [(c7 v (by rw [hn2]; exact hvlt)).2.2 (by omega) s, a2.kids, if_neg (fun hh => by omega)]
      · intro w hw
        rcases List.mem_cons.1 hw with hw | hw
        · subst hw; exact ⟨by omega, by omega⟩
        · obtain ⟨b1, b2⟩ := c11 w hw
          exact ⟨by omega, b2⟩

theorem MissList.map {α β : Type} {miss : (Nat → Prop) → β → Prop} {U : β → List Nat} (c : α → β) :
    ∀ (as : List α) (K : Nat → Prop), MissList miss U K (as.map c) →
      MissList (fun K a => miss K (c a)) (fun a => U (c a)) K as
  | [], _, _ => trivial
  | _ :: as, _, h => ⟨h.1, MissList.map c as _ h.2⟩

theorem MissList.anti {α : Type} {miss : (Nat → Prop) → α → Prop} {U : α → List Nat}
    (hmiss : ∀ (K K' : Nat → Prop) a, (∀ u, K' u → K u) → miss K a → miss K' a) :
    ∀ (as : List α) (K K' : Nat → Prop), (∀ u, K' u → K u) → MissList miss U K as → MissList miss U K' as
  | [], _, _, _, _ => trivial
  | a :: as, K, K', hK, h => ⟨hmiss K K' a hK h.1, MissList.anti hmiss as _ _ (fun u hu => by
      rcases hu with hu | hu
      · exact .inl (hK u hu)
      · exact .inr hu) h.2⟩

/-! ### the plain `decodeAttach` (proxies, symbols) as an instance -/

def liftDec {α : Type} (dec : G → Nat → α → Except LErr (G × Nat)) :
    G → Pend → Nat → α → Except LErr (G × Nat × Pend) :=
  fun g pend ir a =>
    match dec g ir a with
    | .ok (g', v) => .ok (g', v, pend)
    | .error e => .error e

theorem decodeAttach_lift {α : Type} (dec : G → Nat → α → Except LErr (G × Nat)) (ir p : Nat) (s : Slot) :
    ∀ (as : List α) (g : G) (pend : Pend),
      decodeAttachX (liftDec dec) ir p s g pend as =
        match decodeAttach dec ir p s g as with
        | .ok g' => .ok (g', pend)
        | .error e => .error e
  | [], g, pend => rfl
  | a :: as, g, pend => by
    simp only [decodeAttachX, decodeAttach, liftDec]
    cases dec g ir a with
    | error e => rfl
    | ok r =>
      obtain ⟨g1, v⟩ := r
      simp only []
      cases liftE (setAdd g1 p s v) with
      | error e => rfl
      | ok g2 => exact decodeAttach_lift dec ir p s as g2 pend

/-- a fresh node that registers itself at once (block, proxy; first step of section, module) -/
theorem reg_elemX {ir : Nat} {K : Nat → Prop} {g : G} (h : FS ir K g) (k : Kind) (u : Nat) (pend : Pend) :
    ElemX ir K [u] g pend (cacheSet (alloc g k u).1 ir u g.n) g.n pend := by
  refine ⟨?_, rfl, Nat.lt_succ_self _, same_alloc_cacheSet g k u ir, ?_, ?_, PExt.refl _ _⟩
  · exact ((h.alloc k u).cacheSet u g.n).mono (fun w hw => by
      rcases hw with hw | hw
      · exact .inl hw
      · exact .inr (by rw [hw]; exact List.mem_singleton_self _))
  · show (alloc g k u).1.par g.n = none; simp
  · intro y h1 h2
    have : y = g.n := by have : y < g.n + 1 := h2; omega
    subst this
    show (alloc g k u).1.uuid g.n ∈ [u]
    simp

theorem cache_miss {ir : Nat} {K : Nat → Prop} {g : G} (h : FS ir K g) {u : Nat} (hu : ¬ K u) : g.cache ir u = none := by
  cases hc : g.cache ir u with
  | none => rfl
  | some n => exact absurd (h.keys _ _ hc) hu

theorem proxy_fresh {ir : Nat} (K : Nat → Prop) (g : G) (pend : Pend) (u : Nat) (g' : G) (v : Nat) (pend' : Pend)
    (h : FS ir K g) (hu : ¬ K u) (e : liftDec decodeProxy g pend ir u = .ok (g', v, pend')) :
    ElemX ir K [u] g pend g' v pend' ∧ True := by
  have e1 : decodeProxy g ir u = .ok (cacheSet (alloc g .proxy u).1 ir u g.n, g.n) := by
    unfold decodeProxy
    rw [fromProto_miss _ (cache_miss h hu)]
    rfl
  unfold liftDec at e
  rw [e1] at e
  cases e
  exact ⟨reg_elemX h .proxy u pend, trivial⟩

theorem symbol_fresh {ir : Nat} (K : Nat → Prop) (g : G) (pend : Pend) (y : SkSymbol) (g' : G) (v : Nat) (pend' : Pend)
    (h : FS ir K g) (hu : ¬ K y.uuid) (e : liftDec decodeSymbol g pend ir y = .ok (g', v, pend')) :
    ElemX ir K [y.uuid] g pend g' v pend' ∧ True := by
  unfold liftDec at e
  cases hd : decodeSymbol g ir y with
  | error e' => rw [hd] at e; cases e
  | ok r =>
    obtain ⟨g1, v1⟩ := r
    rw [hd] at e
    cases e
    unfold decodeSymbol at hd
    rw [fromProto_miss _ (cache_miss h hu)] at hd
    simp only [Bool.not_true, Bool.false_eq_true, if_false] at hd
    split at hd
    · cases hd
    · rename_i pl _
      cases hd
      refine ⟨⟨?_, rfl, Nat.lt_succ_self _, ?_, ?_, ?_, PExt.refl _ _⟩, trivial⟩
      · have h3 : FS ir K { { (alloc g .symbol y.uuid).1 with
            name := fun x => if x = g.n then y.name else (alloc g .symbol y.uuid).1.name x } with
            payload := fun x => if x = g.n then pl else (alloc g .symbol y.uuid).1.payload x } :=
          (h.alloc .symbol y.uuid).of_cache rfl rfl rfl (h.alloc .symbol y.uuid).keys
        exact (h3.cacheSet y.uuid g.n).mono (fun w hw => by
          rcases hw with hw | hw
          · exact .inl hw
          · exact .inr (by rw [hw]; exact List.mem_singleton_self _))
      · intro x hx
        have hne : x ≠ g.n := Nat.ne_of_lt hx
        refine ⟨?_, ?_, ?_, ?_, ?_, ?_⟩
        · show (alloc g .symbol y.uuid).1.kind x = _; simp [hne]
        · show (alloc g .symbol y.uuid).1.uuid x = _; simp [hne]
        · show (alloc g .symbol y.uuid).1.par x = _; simp [hne]
        · show (if x = g.n then y.name else g.name x) = _; rw [if_neg hne]
        · show (if x = g.n then pl else g.payload x) = _; rw [if_neg hne]
        · intro s; show (alloc g .symbol y.uuid).1.kids x s = _; simp [hne]
      · show (alloc g .symbol y.uuid).1.par g.n = none; simp
      · intro z h1 h2
        have : z = g.n := by have : z < g.n + 1 := h2; omega
        subst this
        show (alloc g .symbol y.uuid).1.uuid g.n ∈ [y.uuid]
        simp

/-! ### one section -/

def MissS (K : Nat → Prop) (s : SkSection) : Prop :=
  ¬ K s.uuid ∧ MissList MissI SkInterval.nodeUuids (fun u => K u ∨ u ∈ [s.uuid]) s.intervals

/-- the interval node keeps the expression symbols of its message -/
def QI (x : XInterval) (_ : G) (pend : Pend) (v : Nat) : Prop := pend.lookup v = some x.exprSyms

/-- the section node holds one interval node per interval message, in order, each with its message -/
def QS (s : XSection) (g : G) (pend : Pend) (v : Nat) : Prop :=
  ∃ vs, g.kids v .bis = vs ∧ (∀ x, x ∈ vs → x < g.n) ∧
    All2 (fun x (xm : XInterval) => pend.lookup x = some xm.exprSyms) vs s.intervals

theorem lookup_cons_self (pend : Pend) (v : Nat) (l : List Nat) : List.lookup v ((v, l) :: pend) = some l := by
  simp [List.lookup]

theorem lookup_cons_ne (pend : Pend) {v y : Nat} (l : List Nat) (h : y ≠ v) :
    List.lookup y ((v, l) :: pend) = List.lookup y pend := by
  simp only [List.lookup]
  have : (y == v) = false := by simp [h]
  rw [this]

theorem intervalX_elem {ir : Nat} (K : Nat → Prop) (g : G) (pend : Pend) (x : XInterval) (g' : G) (v : Nat)
    (pend' : Pend) (h : FS ir K g) (hm : MissI K x.core) (e : decodeIntervalX g pend ir x = .ok (g', v, pend')) :
    ElemX ir K x.core.nodeUuids g pend g' v pend' ∧ QI x g' pend' v := by
  obtain ⟨g1, e1, f1, l1, s1, p1, _, n1⟩ := intervalX_fresh h x hm pend
  rw [e1] at e
  cases e
  refine ⟨⟨f1, rfl, l1, s1, p1, n1, ?_⟩, lookup_cons_self _ _ _⟩
  intro y hy
  exact lookup_cons_ne pend _ (Nat.ne_of_lt hy)

theorem all2_imp' {α β : Type} {R S : α → β → Prop} {as : List α} {bs : List β} (h : All2 R as bs)
    (hi : ∀ a b, a ∈ as → R a b → S a b) : All2 S as bs := by
  induction h with
  | nil => exact .nil
  | cons hr _ ih =>
    exact .cons (hi _ _ List.mem_cons_self hr) (ih (fun a b ha => hi a b (List.mem_cons_of_mem _ ha)))

theorem sectionX_elem {ir : Nat} (K : Nat → Prop) (g : G) (pend : Pend) (s : XSection) (g' : G) (v : Nat)
    (pend' : Pend) (h : FS ir K g) (hm : MissS K s.core) (e : decodeSectionX g pend ir s = .ok (g', v, pend')) :
    ElemX ir K s.core.nodeUuids g pend g' v pend' ∧ QS s g' pend' v := by
  obtain ⟨hu, hl⟩ := hm
  have hu : ¬ K s.uuid := hu
  have hl : MissList MissI SkInterval.nodeUuids (fun u => K u ∨ u ∈ [s.uuid]) (s.intervals.map (·.core)) := hl
  unfold decodeSectionX at e
  rw [fromProto_miss _ (cache_miss h hu)] at e
  simp only [Bool.not_true, Bool.false_eq_true, if_false] at e
  have reg := reg_elemX h .section s.uuid pend
  cases ha : decodeAttachX decodeIntervalX ir g.n .bis (cacheSet (alloc g .section s.uuid).1 ir s.uuid g.n) pend
      s.intervals with
  | error e' =>
    have e2 : (match decodeAttachX decodeIntervalX ir g.n .bis (cacheSet (alloc g .section s.uuid).1 ir s.uuid g.n) pend
      s.intervals with | .error e => (.error e : Except LErr (G × Nat × Pend)) | .ok (g4, pend4) => .ok (g4, g.n, pend4))
        = .ok (g', v, pend') := e
    rw [ha] at e2; cases e2
  | ok r =>
    obtain ⟨g4, pend4⟩ := r
    have e2 : (match decodeAttachX decodeIntervalX ir g.n .bis (cacheSet (alloc g .section s.uuid).1 ir s.uuid g.n) pend
      s.intervals with | .error e => (.error e : Except LErr (G × Nat × Pend)) | .ok (g4, pend4) => .ok (g4, g.n, pend4))
        = .ok (g', v, pend') := e
    rw [ha] at e2
    cases e2
    have hk2 : (cacheSet (alloc g .section s.uuid).1 ir s.uuid g.n).kind g.n = .section := by
      show (alloc g .section s.uuid).1.kind g.n = _; simp
    have hkids2 : ∀ sl, (cacheSet (alloc g .section s.uuid).1 ir s.uuid g.n).kids g.n sl = [] := by
      intro sl; show (alloc g .section s.uuid).1.kids g.n sl = _; simp
    have hu2 : (cacheSet (alloc g .section s.uuid).1 ir s.uuid g.n).uuid g.n = s.uuid := by
      show (alloc g .section s.uuid).1.uuid g.n = _; simp
    have hmiss := MissList.map (·.core) s.intervals _ hl
    obtain ⟨vs, c1, c2, c3, c4, c5, c6, c7, c8, c9, c10, c11⟩ :=
      attachX_fresh (ir := ir) (dec := decodeIntervalX) (miss := fun K x => MissI K x.core)
        (U := fun x => x.core.nodeUuids) (Q := QI) (p := g.n) (slot := .bis)
        (fun K g pend a g' v pend' h1 h2 h3 => intervalX_elem K g pend a g' v pend' h1 h2 h3)
        (fun a g pend g' pend' v hv _ _ hp hq => by
          unfold QI at hq ⊢
          rw [hp v hv]; exact hq)
        s.intervals _ _ pend g' pend' reg.fs (Nat.le_of_lt h.lt) (Nat.lt_succ_self _) reg.par
        (by rw [hk2]; decide) hmiss ha
    have hn2 : (cacheSet (alloc g .section s.uuid).1 ir s.uuid g.n).n = g.n + 1 := rfl
    rw [hn2] at c4 c7 c8 c9 c11
    have hflat : (s.intervals.flatMap fun x => x.core.nodeUuids) = s.core.intervals.flatMap SkInterval.nodeUuids := by
      show _ = (s.intervals.map (·.core)).flatMap SkInterval.nodeUuids
      rw [List.flatMap_map]
    have hUU : ∀ u, u ∈ s.core.nodeUuids ↔ (u = s.uuid ∨ u ∈ s.intervals.flatMap fun x => x.core.nodeUuids) := by
      intro u
      unfold SkSection.nodeUuids
      rw [List.mem_cons, hflat]
      rfl
    refine ⟨⟨?_, rfl, by omega, ?_, c6, ?_, ?_⟩, ⟨vs, ?_, ?_, ?_⟩⟩
    · refine c3.mono ?_
      intro u hu'
      rw [hUU]
      rcases hu' with (hu' | hu') | hu'
      · exact .inl hu'
      · exact .inr (.inl (by simpa using hu'))
      · exact .inr (.inr hu')
    · exact (same_alloc_cacheSet g .section s.uuid ir).trans c5 (Nat.le_refl _)
    · intro y h1 h2
      rw [hUU]
      by_cases hy : y = g.n
      · left; rw [hy, (c7 g.n (Nat.lt_succ_self _)).1]; exact hu2
      · exact .inr (c8 y (by omega) h2)
    · exact c9.mono (Nat.le_succ _)
    · rw [c1, hkids2]; rfl
    · intro x hx; exact (c11 x hx).2
    · exact c10

/-! ### one module, up to the expression-symbol pass -/

def MissM (K : Nat → Prop) (m : SkModule) : Prop :=
  ¬ K m.uuid ∧
  MissList (fun K (u : Nat) => ¬ K u) (fun u => [u]) (fun u => K u ∨ u ∈ [m.uuid]) m.proxies ∧
  MissList MissS SkSection.nodeUuids
    (fun u => (K u ∨ u ∈ [m.uuid]) ∨ u ∈ m.proxies.flatMap (fun u => [u])) m.sections ∧
  MissList (fun K (y : SkSymbol) => ¬ K y.uuid) (fun y => [y.uuid])
    (fun u => ((K u ∨ u ∈ [m.uuid]) ∨ u ∈ m.proxies.flatMap (fun u => [u])) ∨
      u ∈ m.sections.flatMap SkSection.nodeUuids) m.symbols

theorem QS.stable (a : XSection) (g : G) (pend : Pend) (g' : G) (pend' : Pend) (v : Nat) (_hv : v < g.n)
    (hn : g.n ≤ g'.n) (hk : ∀ s, g'.kids v s = g.kids v s) (hp : PExt g.n pend pend') (hq : QS a g pend v) :
    QS a g' pend' v := by
  obtain ⟨vs, h1, h2, h3⟩ := hq
  refine ⟨vs, by rw [hk]; exact h1, fun x hx => Nat.lt_of_lt_of_le (h2 x hx) hn, ?_⟩
  exact all2_imp' h3 (fun x xm hx hl => by rw [hp x (h2 x hx)]; exact hl)

theorem moduleBuildX_fresh {ir : Nat} {K : Nat → Prop} {g : G} {pend : Pend} {m : XModule} {g8 : G} {v : Nat}
    {pend6 : Pend} {fresh : Bool} (h : FS ir K g) (hm : MissM K m.core)
    (e : moduleBuildX g pend ir m = .ok (g8, v, pend6, fresh)) :
    fresh = true ∧ ElemX ir K m.core.nodeUuids g pend g8 v pend6 ∧ g8.kind v = .module ∧
    ∃ ss, g8.kids v .secs = ss ∧ All2 (fun s sm => QS sm g8 pend6 s) ss m.sections := by
  obtain ⟨hu, hmp, hms, hmy⟩ := hm
  have hu : ¬ K m.uuid := hu
  have hmp : MissList (fun K (u : Nat) => ¬ K u) (fun u => [u]) (fun u => K u ∨ u ∈ [m.uuid]) m.proxies := hmp
  have hms : MissList MissS SkSection.nodeUuids
    (fun u => (K u ∨ u ∈ [m.uuid]) ∨ u ∈ m.proxies.flatMap (fun u => [u])) (m.sections.map XSection.core) := hms
  have hmy : MissList (fun K (y : SkSymbol) => ¬ K y.uuid) (fun y => [y.uuid])
    (fun u => ((K u ∨ u ∈ [m.uuid]) ∨ u ∈ m.proxies.flatMap (fun u => [u])) ∨
      u ∈ (m.sections.map XSection.core).flatMap SkSection.nodeUuids) m.symbols := hmy
  have hir : ir ≤ g.n := Nat.le_of_lt h.lt
  unfold moduleBuildX at e
  rw [fromProto_miss _ (cache_miss h hu)] at e
  simp only [Bool.not_true, Bool.false_eq_true, if_false] at e
  have reg := reg_elemX h .module m.uuid pend
  obtain ⟨g2, hg2⟩ : ∃ g2, g2 = cacheSet (alloc g .module m.uuid).1 ir m.uuid g.n := ⟨_, rfl⟩
  rw [← hg2] at e reg
  have hn2 : g2.n = g.n + 1 := by rw [hg2]; rfl
  have hk2 : g2.kind g.n = .module := by rw [hg2]; show (alloc g .module m.uuid).1.kind g.n = _; simp
  have hkids2 : ∀ sl, g2.kids g.n sl = [] := by
    intro sl; rw [hg2]; show (alloc g .module m.uuid).1.kids g.n sl = _; simp
  have hu2 : g2.uuid g.n = m.uuid := by rw [hg2]; show (alloc g .module m.uuid).1.uuid g.n = _; simp
  -- proxies
  cases hp4 : decodeAttach decodeProxy ir g.n .proxies g2 m.proxies with
  | error e' => rw [hp4] at e; cases e
  | ok g4 =>
    rw [hp4] at e
    simp only [] at e
    have hl4 := decodeAttach_lift decodeProxy ir g.n .proxies m.proxies g2 pend
    rw [hp4] at hl4
    obtain ⟨vs4, a1, a2, a3, a4, a5, a6, a7, a8, a9, _, _⟩ :=
      attachX_fresh (ir := ir) (dec := liftDec decodeProxy) (miss := fun K (u : Nat) => ¬ K u)
        (U := fun u => [u]) (Q := fun _ _ _ _ => True) (p := g.n) (slot := .proxies)
        (fun K g pend a g' v pend' h1 h2 h3 => proxy_fresh K g pend a g' v pend' h1 h2 h3)
        (fun _ _ _ _ _ _ _ _ _ _ _ => trivial)
        m.proxies _ g2 pend g4 pend reg.fs hir (by omega) reg.par (by rw [hk2]; decide) hmp hl4
    -- sections
    cases hp6 : decodeAttachX decodeSectionX ir g.n .secs g4 pend m.sections with
    | error e' => rw [hp6] at e; cases e
    | ok r6 =>
      obtain ⟨g6, p6⟩ := r6
      rw [hp6] at e
      simp only [] at e
      have hk4 : g4.kind g.n = .module := by rw [(a7 g.n (by omega)).2.1]; exact hk2
      obtain ⟨ss, b1, b2, b3, b4, b5, b6, b7, b8, b9, b10, b11⟩ :=
        attachX_fresh (ir := ir) (dec := decodeSectionX) (miss := fun K s => MissS K s.core)
          (U := fun s => s.core.nodeUuids) (Q := QS) (p := g.n) (slot := .secs)
          (fun K g pend a g' v pend' h1 h2 h3 => sectionX_elem K g pend a g' v pend' h1 h2 h3)
          QS.stable
          m.sections _ g4 pend g6 p6 a3 hir (by omega) a6 (by rw [hk4]; decide)
          (MissList.map XSection.core m.sections _ hms) hp6
      have hk6 : g6.kind g.n = .module := by rw [(b7 g.n (by omega)).2.1]; exact hk4
      -- the entry point and the symbols
      have key : ∀ g8', decodeAttach decodeSymbol ir g.n .syms g6 m.symbols = .ok g8' →
          ElemX ir K m.core.nodeUuids g pend g8' g.n p6 ∧ g8'.kind g.n = .module ∧
          ∃ ss, g8'.kids g.n .secs = ss ∧ All2 (fun s sm => QS sm g8' p6 s) ss m.sections := by
        intro g8 hp8
        have hl8 := decodeAttach_lift decodeSymbol ir g.n .syms m.symbols g6 p6
        rw [hp8] at hl8
        have hflat : (m.sections.flatMap fun s => s.core.nodeUuids) =
            (m.sections.map XSection.core).flatMap SkSection.nodeUuids := by rw [List.flatMap_map]
        rw [hflat] at b3 b8
        obtain ⟨vs8, c1, c2, c3, c4, c5, c6, c7, c8, c9, _, _⟩ :=
          attachX_fresh (ir := ir) (dec := liftDec decodeSymbol) (miss := fun K (y : SkSymbol) => ¬ K y.uuid)
            (U := fun y => [y.uuid]) (Q := fun _ _ _ _ => True) (p := g.n) (slot := .syms)
            (fun K g pend a g' v pend' h1 h2 h3 => symbol_fresh K g pend a g' v pend' h1 h2 h3)
            (fun _ _ _ _ _ _ _ _ _ _ _ => trivial)
            m.symbols _ g6 p6 g8 p6 b3 hir (by omega) b6 (by rw [hk6]; decide) hmy hl8
        have hk8 : g8.kind g.n = .module := by rw [(c7 g.n (by omega)).2.1]; exact hk6
        have hUU : ∀ u, u ∈ m.core.nodeUuids ↔ (u = m.uuid ∨ u ∈ m.proxies ∨
            u ∈ (m.sections.map XSection.core).flatMap SkSection.nodeUuids ∨ u ∈ m.symbols.map (·.uuid)) := by
          intro u
          unfold SkModule.nodeUuids
          show u ∈ m.uuid :: (m.proxies ++ ((m.sections.map XSection.core).flatMap SkSection.nodeUuids ++
            m.symbols.map (·.uuid))) ↔ _
          simp only [List.mem_cons, List.mem_append]
        have hfp : (m.proxies.flatMap fun u => [u]) = m.proxies := by
          have := flatMap_single (fun u : Nat => u) m.proxies
          rw [List.map_id'] at this
          exact this
        have hfy : (m.symbols.flatMap fun y => [y.uuid]) = m.symbols.map (·.uuid) := flatMap_single _ _
        rw [hfp] at a3 a8 b3 c3
        rw [hfy] at c3 c8
        refine ⟨⟨?_, rfl, by omega, ?_, c6, ?_, ?_⟩, hk8, ss, ?_, ?_⟩
        · refine c3.mono ?_
          intro u hu'
          rw [hUU]
          rcases hu' with (((hu' | hu') | hu') | hu') | hu'
          · exact .inl hu'
          · exact .inr (.inl (by simpa using hu'))
          · exact .inr (.inr (.inl hu'))
          · exact .inr (.inr (.inr (.inl hu')))
          · exact .inr (.inr (.inr (.inr hu')))
        · have s02 : Same g.n g g2 := by rw [hg2]; exact same_alloc_cacheSet g .module m.uuid ir
          exact ((s02.trans a5 (Nat.le_refl _)).trans b5 (Nat.le_refl _)).trans c5 (Nat.le_refl _)
        · intro y h1 h2
          rw [hUU]
          by_cases hy6 : g6.n ≤ y
          · exact .inr (.inr (.inr (c8 y hy6 h2)))
          · have hy6' : y < g6.n := by omega
            rw [(c7 y hy6').1]
            by_cases hy4 : g4.n ≤ y
            · exact .inr (.inr (.inl (b8 y hy4 hy6')))
            · have hy4' : y < g4.n := by omega
              rw [(b7 y hy4').1]
              by_cases hy2 : g2.n ≤ y
              · exact .inr (.inl (a8 y hy2 hy4'))
              · have hy2' : y < g2.n := by omega
                rw [(a7 y hy2').1]
                have : y = g.n := by omega
                rw [this, hu2]
                exact .inl rfl
        · exact (a9.mono (by omega)).trans (b9.mono (by omega)) (Nat.le_refl _)
        · rw [c2 .secs (by decide), b1, a2 .secs (by decide), hkids2]; rfl
        · refine all2_imp' b10 (fun s sm hs hq => ?_)
          obtain ⟨s1, s2⟩ := b11 s hs
          exact QS.stable sm g6 p6 g8 p6 s s2 c4 (fun sl => (c7 s s2).2.2 (by omega) sl) (PExt.refl _ _) hq
      cases hme : m.entry with
      | none =>
        rw [hme] at e
        simp only [] at e
        cases hp8 : decodeAttach decodeSymbol ir g.n .syms g6 m.symbols with
        | error e' => rw [hp8] at e; cases e
        | ok g8' =>
          rw [hp8] at e
          cases e
          exact ⟨rfl, key _ hp8⟩
      | some ue =>
        rw [hme] at e
        simp only [] at e
        cases hrk : refKind g6 ir (fun k => k == Kind.code) ue with
        | error e' => rw [hrk] at e; cases e
        | ok _ =>
          rw [hrk] at e
          simp only [] at e
          cases hp8 : decodeAttach decodeSymbol ir g.n .syms g6 m.symbols with
          | error e' => rw [hp8] at e; cases e
          | ok g8' =>
            rw [hp8] at e
            cases e
            exact ⟨rfl, key _ hp8⟩

/-! ### the expression-symbol pass on the shape a hit-free run builds -/

theorem checkAll_append (g : G) (ir : Nat) (ok : Kind → Bool) : ∀ (a b : List Nat),
    checkAll g ir ok (a ++ b) =
      match checkAll g ir ok a with
      | .error e => .error e
      | .ok _ => checkAll g ir ok b
  | [], b => rfl
  | u :: a, b => by
    simp only [List.cons_append, checkAll]
    cases refKind g ir ok u with
    | error e => rfl
    | ok _ => exact checkAll_append g ir ok a b

theorem lookup_filter_ne : ∀ (pend : Pend) {x y : Nat}, y ≠ x →
    List.lookup y (pend.filter fun e => e.1 != x) = List.lookup y pend
  | [], _, _, _ => rfl
  | (k, l) :: rest, x, y, h => by
    by_cases hk : k = x
    · have hf : (((k, l) :: rest).filter fun e => e.1 != x) = rest.filter fun e => e.1 != x := by
        rw [List.filter_cons]; simp [hk]
      rw [hf, lookup_filter_ne rest h]
      have : (y == k) = false := by rw [hk]; simp [h]
      simp only [List.lookup, this]
    · have hf : (((k, l) :: rest).filter fun e => e.1 != x) = (k, l) :: rest.filter fun e => e.1 != x := by
        rw [List.filter_cons]; simp [hk]
      rw [hf]
      simp only [List.lookup]
      rw [lookup_filter_ne rest h]

theorem symExprs_shape (g : G) (ir : Nat) : ∀ (vs : List Nat) (xs : List XInterval) (pend : Pend), vs.Nodup →
    All2 (fun x (xm : XInterval) => pend.lookup x = some xm.exprSyms) vs xs →
    ∃ pend', symExprs g ir pend vs =
      match checkAll g ir (fun k => k == Kind.symbol) (xs.flatMap (·.exprSyms)) with
      | .error e => .error (.core e)
      | .ok _ => .ok pend'
  | [], [], pend, _, _ => ⟨pend, rfl⟩
  | [], _ :: _, _, _, h => by cases h
  | _ :: _, [], _, _, h => by cases h
  | v :: vs, x :: xs, pend, hnd, h => by
    cases h with
    | cons h1 h2 =>
      rw [List.nodup_cons] at hnd
      have h2' : All2 (fun y (xm : XInterval) => (pend.filter fun e => e.1 != v).lookup y = some xm.exprSyms) vs xs :=
        all2_imp' h2 (fun y xm hy hl => by
          rw [lookup_filter_ne pend (fun hh : y = v => hnd.1 (hh ▸ hy))]; exact hl)
      obtain ⟨pend', ih⟩ := symExprs_shape g ir vs xs _ hnd.2 h2'
      refine ⟨pend', ?_⟩
      simp only [symExprs, h1, List.flatMap_cons]
      rw [checkAll_append]
      cases checkAll g ir (fun k => k == Kind.symbol) x.exprSyms with
      | error e => rfl
      | ok _ => exact ih

theorem all2_append {α β : Type} {R : α → β → Prop} {as as' : List α} {bs bs' : List β}
    (h : All2 R as bs) (h' : All2 R as' bs') : All2 R (as ++ as') (bs ++ bs') := by
  induction h with
  | nil => exact h'
  | cons hr _ ih => exact .cons hr ih

theorem all2_flatMap_QS {g : G} {pend : Pend} : ∀ {ss : List Nat} {secs : List XSection},
    All2 (fun s sm => QS sm g pend s) ss secs →
    All2 (fun x (xm : XInterval) => pend.lookup x = some xm.exprSyms)
      (ss.flatMap fun s => g.kids s .bis) (secs.flatMap (·.intervals))
  | _, _, .nil => .nil
  | _, _, .cons hq hr => by
    obtain ⟨vs, h1, _, h3⟩ := hq
    rw [List.flatMap_cons, List.flatMap_cons, h1]
    exact all2_append h3 (all2_flatMap_QS hr)

theorem nodup_flatMap_of {f : Nat → List Nat} : ∀ (l : List Nat), l.Nodup → (∀ s, s ∈ l → (f s).Nodup) →
    (∀ s s' c, s ∈ l → s' ∈ l → c ∈ f s → c ∈ f s' → s = s') → (l.flatMap f).Nodup
  | [], _, _, _ => List.nodup_nil
  | a :: l, hnd, hf, hd => by
    rw [List.nodup_cons] at hnd
    rw [List.flatMap_cons, List.nodup_append]
    refine ⟨hf a List.mem_cons_self, nodup_flatMap_of l hnd.2 (fun s hs => hf s (List.mem_cons_of_mem _ hs))
      (fun s s' c hs hs' => hd s s' c (List.mem_cons_of_mem _ hs) (List.mem_cons_of_mem _ hs')), ?_⟩
    intro c hc d hd' hcd
    subst hcd
    obtain ⟨s', hs', hcs'⟩ := List.mem_flatMap.1 hd'
    have := hd a s' c List.mem_cons_self (List.mem_cons_of_mem _ hs') hc hcs'
    exact hnd.1 (this ▸ hs')

theorem FS.nodup_intervalsUnder {ir : Nat} {K : Nat → Prop} {g : G} (h : FS ir K g) {v : Nat} (hv : ir ≤ v)
    (hvn : v < g.n) : (intervalsUnder g v).Nodup := by
  unfold intervalsUnder
  have hs : ∀ s, s ∈ g.kids v .secs → ir ≤ s ∧ s < g.n := fun s hs =>
    ⟨by have := h.up v hv hvn _ s hs; omega, h.wf v hv hvn _ s hs⟩
  refine nodup_flatMap_of _ (h.nd v hv hvn _) (fun s hs' => h.nd s (hs s hs').1 (hs s hs').2 _) ?_
  intro s s' c hs1 hs2 hc1 hc2
  have e1 := h.kp s (hs s hs1).1 (hs s hs1).2 _ c hc1
  have e2 := h.kp s' (hs s' hs2).1 (hs s' hs2).2 _ c hc2
  rw [e1] at e2
  exact Option.some.inj e2

/-! ### a module, the module list, the load -/

def liftR {α : Type} (r : Except LErr α) : Except XErr α :=
  match r with
  | .ok a => .ok a
  | .error e => .error (.core e)

def dropP (r : Except XErr (G × Nat × Pend)) : Except XErr (G × Nat) :=
  match r with
  | .ok (g, v, _) => .ok (g, v)
  | .error e => .error e

theorem decodeModuleX_fresh {ir : Nat} {K : Nat → Prop} {g : G} (pend : Pend) {m : XModule} (h : FS ir K g)
    (hm : MissM K m.core) :
    dropP (decodeModuleX g pend ir m) = liftR (decodeModule g ir m.flat) ∧
    ∀ g' v pend', decodeModuleX g pend ir m = .ok (g', v, pend') →
      FS ir (fun u => K u ∨ u ∈ m.core.nodeUuids) g' ∧ v = g.n ∧ g.n < g'.n ∧ Same g.n g g' ∧ g'.par v = none ∧
      g'.kind v = .module ∧ (∀ y, g.n ≤ y → y < g'.n → g'.uuid y ∈ m.core.nodeUuids) := by
  rw [decodeModuleX_eq_build, decodeModule_eq_build, moduleBuild_flat, ← moduleBuildX_erase g pend ir m]
  cases hb : moduleBuildX g pend ir m with
  | error e => exact ⟨rfl, fun g' v pend' hh => by cases hh⟩
  | ok r =>
    obtain ⟨g8, v, pend6, fresh⟩ := r
    obtain ⟨hfr, el, hk, ss, hss, hq⟩ := moduleBuildX_fresh h hm hb
    subst hfr
    simp only [eraseB, if_true]
    have hv : v = g.n := el.v_eq
    have hnd : (intervalsUnder g8 v).Nodup :=
      el.fs.nodup_intervalsUnder (by rw [hv]; exact Nat.le_of_lt h.lt) (by rw [hv]; exact el.lt)
    have hall := all2_flatMap_QS hq
    have hiv : intervalsUnder g8 v = ss.flatMap fun s => g8.kids s .bis := by unfold intervalsUnder; rw [hss]
    rw [← hiv] at hall
    obtain ⟨pend8, hse⟩ := symExprs_shape g8 ir _ _ pend6 hnd hall
    have hflat : (m.sections.flatMap (·.intervals)).flatMap (·.exprSyms) = m.flat.exprSyms := by
      rw [List.flatMap_assoc]; rfl
    rw [hflat] at hse
    rw [hse]
    cases hc : checkAll g8 ir (fun k => k == Kind.symbol) m.flat.exprSyms with
    | error e => exact ⟨rfl, fun g' v' pend' hh => by cases hh⟩
    | ok _ =>
      refine ⟨rfl, ?_⟩
      intro g' v' pend' hh
      cases hh
      exact ⟨el.fs, hv, el.lt, el.same, el.par, hk, el.nodes⟩

/-- the UUIDs of all nodes created for the new IR so far are registered -/
def NodesIn (ir : Nat) (K : Nat → Prop) (g : G) : Prop := ∀ y, ir ≤ y → y < g.n → K (g.uuid y)

theorem FS.walkM_range {ir : Nat} {K : Nat → Prop} {g : G} (h : FS ir K g) {v y : Nat} (hv : ir ≤ v) (hvn : v < g.n)
    (hy : y ∈ cache_walkM g.kids v) : ir ≤ y ∧ y < g.n := by
  have hkid : ∀ {p c : Nat} {s : Slot}, ir ≤ p → p < g.n → c ∈ g.kids p s → ir ≤ c ∧ c < g.n :=
    fun {p c s} h1 h2 hc => ⟨by have := h.up p h1 h2 s c hc; omega, h.wf p h1 h2 s c hc⟩
  unfold cache_walkM at hy
  rcases List.mem_cons.1 hy with rfl | hy
  · exact ⟨hv, hvn⟩
  · rcases List.mem_append.1 hy with hy | hy
    · exact hkid hv hvn hy
    · rcases List.mem_append.1 hy with hy | hy
      · obtain ⟨s, hs, hys⟩ := List.mem_flatMap.1 hy
        obtain ⟨s1, s2⟩ := hkid hv hvn hs
        unfold cache_walkS at hys
        rcases List.mem_cons.1 hys with rfl | hys
        · exact ⟨s1, s2⟩
        · obtain ⟨b, hb, hyb⟩ := List.mem_flatMap.1 hys
          obtain ⟨b1, b2⟩ := hkid s1 s2 hb
          unfold cache_walkI at hyb
          rcases List.mem_cons.1 hyb with rfl | hyb
          · exact ⟨b1, b2⟩
          · exact hkid b1 b2 hyb
      · exact hkid hv hvn hy

theorem decodeModulesX_fresh {ir : Nat} : ∀ (ms : List XModule) (K : Nat → Prop) (g : G) (pend : Pend),
    FS ir K g → NodesIn ir K g → MissList MissM SkModule.nodeUuids K (ms.map XModule.core) →
    decodeModulesX ir g pend ms = liftR (decodeModules ir g (ms.map XModule.flat))
  | [], _, _, _, _, _, _ => rfl
  | m :: ms, K, g, pend, h, hN, hmiss => by
    obtain ⟨hm1, hm2⟩ := hmiss
    obtain ⟨heq, hok⟩ := decodeModuleX_fresh pend h hm1
    simp only [decodeModulesX, List.map_cons, decodeModules]
    cases hd : decodeModuleX g pend ir m with
    | error e =>
      rw [hd] at heq
      cases hf : decodeModule g ir m.flat with
      | error e' => rw [hf] at heq; simp only [dropP, liftR] at heq; cases heq; rfl
      | ok r => rw [hf] at heq; simp only [dropP, liftR] at heq; cases heq
    | ok r =>
      obtain ⟨g1, v, pend1⟩ := r
      rw [hd] at heq
      cases hf : decodeModule g ir m.flat with
      | error e' => rw [hf] at heq; simp only [dropP, liftR] at heq; cases heq
      | ok r' =>
        rw [hf] at heq
        simp only [dropP, liftR] at heq
        cases heq
        obtain ⟨f1, hv, hlt, hsame, hpar, hkind, hnodes⟩ := hok g1 v pend1 hd
        simp only []
        have e2 := modAppend_fresh (g := g1) (i := ir) (v := v) hpar
        rw [e2]
        simp only [liftE]
        have hirv : ir < v := by rw [hv]; exact h.lt
        have hvlt : v < g1.n := by rw [hv]; exact hlt
        have hkX : (setPar g1 v (some ir)).kind v = .module := hkind
        have hcache : cacheAdd (setPar g1 v (some ir)) ir v
            = cache_setAll (setPar g1 v (some ir)) ir (cache_walkM g1.kids v) := by
          rw [cache_cacheAdd_eq, hkX]; rfl
        have ho := cache_setAll_only ir (cache_walkM g1.kids v) (setPar g1 v (some ir))
        -- the list step, then the table
        have hA : Attached g1 (kidsSet (setPar g1 v (some ir)) ir .mods (g1.kids ir .mods ++ [v])) ir .mods [v] :=
          ⟨rfl, rfl, rfl, rfl, rfl, rfl, fun x => by simp, fun q s' => by simp⟩
        have hN1 : NodesIn ir (fun u => K u ∨ u ∈ m.core.nodeUuids) g1 := by
          intro y h1 h2
          by_cases hy : y < g.n
          · rw [(hsame y hy).2.1]; exact .inl (hN y h1 hy)
          · exact .inr (hnodes y (by omega) h2)
        have hfsA := f1.attached hA (Nat.le_refl _) (Nat.lt_trans hirv hvlt)
          (fun x hx => by simp only [List.mem_singleton] at hx; subst hx; exact ⟨hirv, hvlt, hpar⟩) (by simp)
        have hfs2 : FS ir (fun u => K u ∨ u ∈ m.core.nodeUuids)
            (kidsSet (cacheAdd (setPar g1 v (some ir)) ir v) ir .mods (g1.kids ir .mods ++ [v])) := by
          rw [hcache]
          refine hfsA.of_cache (by show (cache_setAll _ _ _).n = _; rw [ho.n]; rfl)
            (by funext q s'; simp only [kidsSet_kids, ho.kids]) (by show (cache_setAll _ _ _).par = _; rw [ho.par]; rfl) ?_
          intro u n hc
          have hc' : (cache_setAll (setPar g1 v (some ir)) ir (cache_walkM g1.kids v)).cache ir u = some n := hc
          rcases setAll_cases ir (cache_walkM g1.kids v) (setPar g1 v (some ir)) ir u with ⟨y, hy, hyu, _, _⟩ | ⟨he, _⟩
          · obtain ⟨r1, r2⟩ := f1.walkM_range (Nat.le_of_lt hirv) hvlt hy
            rw [← hyu]
            exact hN1 y r1 r2
          · rw [he] at hc'; exact f1.keys u n hc'
        have hN2 : NodesIn ir (fun u => K u ∨ u ∈ m.core.nodeUuids)
            (kidsSet (cacheAdd (setPar g1 v (some ir)) ir v) ir .mods (g1.kids ir .mods ++ [v])) := by
          intro y h1 h2
          have hu : (kidsSet (cacheAdd (setPar g1 v (some ir)) ir v) ir .mods (g1.kids ir .mods ++ [v])).uuid y
              = g1.uuid y := by
            rw [hcache]; show (cache_setAll _ _ _).uuid y = _; rw [ho.uuid]; rfl
          rw [hu]
          refine hN1 y h1 ?_
          have hn : (kidsSet (cacheAdd (setPar g1 v (some ir)) ir v) ir .mods (g1.kids ir .mods ++ [v])).n = g1.n := by
            rw [hcache]; show (cache_setAll _ _ _).n = _; rw [ho.n]; rfl
          rw [hn] at h2; exact h2
        exact decodeModulesX_fresh ms _ _ pend1 hfs2 hN2 hm2

/-- no table lookup of the whole load hits -/
def MissIR (sk : SkIR) : Prop := MissList MissM SkModule.nodeUuids (fun u => u = sk.uuid) sk.modules

theorem loadX_fresh (g : G) (mx : XIR) (hm : MissIR mx.core) : loadX g mx = liftR (load g mx.flat) := by
  have hn1 : (mkIR g mx.uuid).n = g.n + 1 := rfl
  have hkids1 : ∀ s, (mkIR g mx.uuid).kids g.n s = [] := by
    intro s; show (alloc g .ir mx.uuid).1.kids g.n s = []; simp
  have hfs : FS g.n (fun u => u = mx.uuid) (mkIR g mx.uuid) := by
    refine ⟨by rw [hn1]; omega, ?_, ?_, ?_, ?_, ?_⟩
    · intro u n hc
      rw [mkIR_cache] at hc
      split at hc
      · rename_i hh; exact hh.2
      · simp at hc
    · intro y h1 h2 s c hc
      have : y = g.n := by rw [hn1] at h2; omega
      rw [this, hkids1] at hc; cases hc
    · intro y h1 h2 s c hc
      have : y = g.n := by rw [hn1] at h2; omega
      rw [this, hkids1] at hc; cases hc
    · intro y h1 h2 s c hc
      have : y = g.n := by rw [hn1] at h2; omega
      rw [this, hkids1] at hc; cases hc
    · intro y h1 h2 s
      have : y = g.n := by rw [hn1] at h2; omega
      rw [this, hkids1]; exact List.nodup_nil
  have hN : NodesIn g.n (fun u => u = mx.uuid) (mkIR g mx.uuid) := by
    intro y h1 h2
    have : y = g.n := by rw [hn1] at h2; omega
    rw [this]
    show (alloc g .ir mx.uuid).1.uuid g.n = _
    simp
  have hdm := decodeModulesX_fresh mx.modules _ _ [] hfs hN hm
  unfold loadX load
  simp only []
  rw [hdm]
  show _ = liftR (match decodeModules g.n (mkIR g mx.uuid) (mx.modules.map XModule.flat) with
    | .error e => .error e | .ok g2 => _)
  cases decodeModules g.n (mkIR g mx.uuid) (mx.modules.map XModule.flat) with
  | error e => rfl
  | ok g2 =>
    simp only [liftR]
    show _ = liftR (match checkAll g2 g.n (fun k => k == Kind.code || k == Kind.proxy)
      (mx.edges.flatMap fun e => [e.1, e.2]) with | .error e => .error e | .ok _ => _)
    cases checkAll g2 g.n (fun k => k == Kind.code || k == Kind.proxy) (mx.edges.flatMap fun e => [e.1, e.2]) with
    | error e => rfl
    | ok _ => rfl

/-! ### pairwise distinct node UUIDs: no lookup hits -/

theorem missBlocks_of_nodup : ∀ (bs : List (Nat × Bool)) (K : Nat → Prop), (bs.map (·.1)).Nodup →
    (∀ u, u ∈ bs.map (·.1) → ¬ K u) → MissBlocks K bs
  | [], _, _, _ => trivial
  | b :: bs, K, hnd, hK => by
    simp only [List.map_cons, List.nodup_cons] at hnd
    refine ⟨hK b.1 (by simp), missBlocks_of_nodup bs _ hnd.2 ?_⟩
    intro u hu hh
    rcases hh with hh | hh
    · exact hK u (by simp only [List.map_cons]; exact List.mem_cons_of_mem _ hu) hh
    · subst hh; exact hnd.1 hu

theorem missList_of_nodup {α : Type} {miss : (Nat → Prop) → α → Prop} {U : α → List Nat}
    (hmiss : ∀ (K : Nat → Prop) a, (U a).Nodup → (∀ u, u ∈ U a → ¬ K u) → miss K a) :
    ∀ (as : List α) (K : Nat → Prop), (as.flatMap U).Nodup → (∀ u, u ∈ as.flatMap U → ¬ K u) → MissList miss U K as
  | [], _, _, _ => trivial
  | a :: as, K, hnd, hK => by
    rw [List.flatMap_cons, List.nodup_append] at hnd
    refine ⟨hmiss K a hnd.1 (fun u hu => hK u (by rw [List.flatMap_cons]; exact List.mem_append_left _ hu)),
      missList_of_nodup hmiss as _ hnd.2.1 ?_⟩
    intro u hu hh
    rcases hh with hh | hh
    · exact hK u (by rw [List.flatMap_cons]; exact List.mem_append_right _ hu) hh
    · exact hnd.2.2 u hh u hu rfl

theorem missI_of_nodup (K : Nat → Prop) (x : SkInterval) (hnd : x.nodeUuids.Nodup) (hK : ∀ u, u ∈ x.nodeUuids → ¬ K u) :
    MissI K x := by
  unfold SkInterval.nodeUuids at hnd hK
  rw [List.nodup_cons] at hnd
  exact ⟨hK _ List.mem_cons_self, missBlocks_of_nodup _ _ hnd.2 (fun u hu => hK u (List.mem_cons_of_mem _ hu))⟩

theorem missS_of_nodup (K : Nat → Prop) (s : SkSection) (hnd : s.nodeUuids.Nodup) (hK : ∀ u, u ∈ s.nodeUuids → ¬ K u) :
    MissS K s := by
  unfold SkSection.nodeUuids at hnd hK
  rw [List.nodup_cons] at hnd
  refine ⟨hK _ List.mem_cons_self, missList_of_nodup missI_of_nodup _ _ hnd.2 ?_⟩
  intro u hu hh
  rcases hh with hh | hh
  · exact hK u (List.mem_cons_of_mem _ hu) hh
  · simp only [List.mem_singleton] at hh
    subst hh; exact hnd.1 hu

theorem flatMap_single_id (l : List Nat) : (l.flatMap fun u => [u]) = l := by
  have := flatMap_single (fun u : Nat => u) l
  rw [List.map_id'] at this
  exact this

theorem missM_of_nodup (K : Nat → Prop) (m : SkModule) (hnd : m.nodeUuids.Nodup) (hK : ∀ u, u ∈ m.nodeUuids → ¬ K u) :
    MissM K m := by
  unfold SkModule.nodeUuids at hnd hK
  rw [List.nodup_cons, List.nodup_append, List.nodup_append] at hnd
  obtain ⟨h0, hp, ⟨hs, hy, hsy⟩, hpr⟩ := hnd
  have hK' : ∀ u, u ∈ m.proxies ++ (m.sections.flatMap SkSection.nodeUuids ++ m.symbols.map (·.uuid)) → ¬ K u :=
    fun u hu => hK u (List.mem_cons_of_mem _ hu)
  refine ⟨hK _ List.mem_cons_self, ?_, ?_, ?_⟩
  · refine missList_of_nodup (miss := fun K (u : Nat) => ¬ K u) (U := fun u => [u])
      (fun K a _ h => h a (List.mem_singleton_self _)) _ _ (by rw [flatMap_single_id]; exact hp) ?_
    intro u hu hh
    rw [flatMap_single_id] at hu
    rcases hh with hh | hh
    · exact hK' u (List.mem_append_left _ hu) hh
    · simp only [List.mem_singleton] at hh
      subst hh; exact h0 (List.mem_append_left _ hu)
  · refine missList_of_nodup missS_of_nodup _ _ hs ?_
    intro u hu hh
    rcases hh with (hh | hh) | hh
    · exact hK' u (List.mem_append_right _ (List.mem_append_left _ hu)) hh
    · simp only [List.mem_singleton] at hh
      subst hh; exact h0 (List.mem_append_right _ (List.mem_append_left _ hu))
    · rw [flatMap_single_id] at hh
      exact hpr u hh u (List.mem_append_left _ hu) rfl
  · refine missList_of_nodup (miss := fun K (y : SkSymbol) => ¬ K y.uuid) (U := fun y => [y.uuid])
      (fun K a _ h => h a.uuid (List.mem_singleton_self _)) _ _ (by rw [flatMap_single]; exact hy) ?_
    intro u hu hh
    rw [flatMap_single] at hu
    rcases hh with ((hh | hh) | hh) | hh
    · exact hK' u (List.mem_append_right _ (List.mem_append_right _ hu)) hh
    · simp only [List.mem_singleton] at hh
      subst hh; exact h0 (List.mem_append_right _ (List.mem_append_right _ hu))
    · rw [flatMap_single_id] at hh
      exact hpr u hh u (List.mem_append_right _ hu) rfl
    · exact hsy u hh u hu rfl

/-- pairwise distinct node UUIDs in the message: no lookup hits -/
theorem missIR_of_nodup (sk : SkIR) (hnd : sk.nodeUuids.Nodup) : MissIR sk := by
  unfold SkIR.nodeUuids at hnd
  rw [List.nodup_cons] at hnd
  refine missList_of_nodup missM_of_nodup _ _ hnd.2 ?_
  intro u hu hh
  subst hh
  exact hnd.1 hu

/-! ## Part 3: the skeleton of a message, with and without per-interval expression symbols -/

theorem allSome_map_map {α β γ : Type} (f : α → Option β) (h : β → γ) : ∀ (l : List α),
    allSome (l.map fun x => (f x).map h) = (allSome (l.map f)).map (List.map h)
  | [] => rfl
  | a :: l => by
    simp only [List.map_cons]
    cases hf : f a with
    | none => rfl
    | some b =>
      simp only [Option.map_some, allSome]
      rw [allSome_map_map f h l]
      cases allSome (l.map f) with
      | none => rfl
      | some bs => rfl

open Gtirb.Msg in
theorem skSection_eq_X (s : MSection) :
    skSection s = (skSectionX s).map fun sx => (sx.core, sx.intervals.flatMap (·.exprSyms)) := by
  unfold skSection skSectionX
  by_cases hu : uOk s.uuid
  · simp only [hu, Bool.not_true, Bool.false_eq_true, if_false]
    have : allSome (s.byteIntervals.map skIntervalX) =
        (allSome (s.byteIntervals.map skInterval)).map (List.map fun p => (⟨p.1, p.2⟩ : XInterval)) :=
      allSome_map_map skInterval _ s.byteIntervals
    rw [this]
    cases allSome (s.byteIntervals.map skInterval) with
    | none => rfl
    | some xs =>
      simp only [Option.map_some, XSection.core, List.map_map, List.flatMap_def]
      rfl
  · simp only [hu, Bool.not_false, if_true]
    rfl

open Gtirb.Msg in
theorem skModule_eq_X (names : List String) (m : MModule) :
    skModule names m = (skModuleX names m).map XModule.flat := by
  unfold skModule skModuleX
  split
  · rfl
  · have h1 : allSome (m.sections.map skSection) =
        (allSome (m.sections.map skSectionX)).map
          (List.map fun sx => (sx.core, sx.intervals.flatMap (·.exprSyms))) := by
      have : m.sections.map skSection = m.sections.map fun s => (skSectionX s).map
          fun sx => (sx.core, sx.intervals.flatMap (·.exprSyms)) :=
        List.map_congr_left (fun s _ => skSection_eq_X s)
      rw [this]
      exact allSome_map_map skSectionX _ m.sections
    rw [h1]
    cases allSome (m.sections.map skSectionX) with
    | none => rfl
    | some sxs =>
      simp only [Option.map_some]
      cases allSome (m.symbols.map (skSymbol names)) with
      | none => rfl
      | some ys =>
        simp only [Option.map_some, XModule.flat, XModule.flatSyms, List.map_map, List.flatMap_def]
        rfl

/-- the skeleton of `Skel.lean` is the flat projection of the skeleton with per-interval expression
symbols -/
theorem skelOf_eq_X (m : Msg.MIR) : skelOf m = (skelOfX m).map XIR.flat := by
  unfold skelOf skelOfX
  simp only []
  split
  · rfl
  · have h1 : allSome (m.modules.map (skModule (m.modules.flatMap fun md => md.symbols.map (·.name)))) =
        (allSome (m.modules.map (skModuleX (m.modules.flatMap fun md => md.symbols.map (·.name))))).map
          (List.map XModule.flat) := by
      have : m.modules.map (skModule (m.modules.flatMap fun md => md.symbols.map (·.name))) =
          m.modules.map fun md => (skModuleX (m.modules.flatMap fun md => md.symbols.map (·.name)) md).map
            XModule.flat :=
        List.map_congr_left (fun md _ => skModule_eq_X _ md)
      rw [this]
      exact allSome_map_map _ _ m.modules
    rw [h1]
    cases allSome (m.modules.map (skModuleX (m.modules.flatMap fun md => md.symbols.map (·.name)))) with
    | none => rfl
    | some ms => rfl

/-! ## Part 4: a message the value-level reader accepts is loaded without a table hit

`Proto.fromMsg` checks every node UUID against its environment (`fresh`) exactly where
`Node._from_protobuf` looks it up in the table - an interval before its blocks, registered after them. -/

section accepted
open Gtirb.Msg (Env KindTag MIR MModule MSection MByteInterval MBlock MSymbol)

/-- the UUIDs (as numbers) the environment of the value-level reader knows -/
def KE (env : Env) : Nat → Prop := fun n => ∃ b : Bytes, b.length = 16 ∧ natOfBytes b = n ∧ env.find b ≠ none

theorem not_KE {env : Env} {u : Bytes} (h16 : u.length = 16) (hf : env.find u = none) : ¬ KE env (natOfBytes u) := by
  rintro ⟨b, hb, hn, hne⟩
  have := natOfBytes_inj16 hb h16 hn
  subst this
  exact hne hf

theorem KE_push_iff (env : Env) {x : Bytes} (k : KindTag) (h16 : x.length = 16) (n : Nat) :
    KE ((x, k) :: env) n ↔ (KE env n ∨ n = natOfBytes x) := by
  constructor
  · rintro ⟨b, hb, hn, hne⟩
    rw [find_cons] at hne
    by_cases e : x = b
    · right; rw [← hn, e]
    · rw [if_neg e] at hne; exact .inl ⟨b, hb, hn, hne⟩
  · rintro (⟨b, hb, hn, hne⟩ | rfl)
    · refine ⟨b, hb, hn, ?_⟩
      rw [find_cons]
      split
      · simp
      · exact hne
    · exact ⟨x, h16, rfl, by rw [find_cons, if_pos rfl]; simp⟩

theorem KE_push (env : Env) {x : Bytes} (k : KindTag) (h16 : x.length = 16) :
    KE ((x, k) :: env) = fun n => KE env n ∨ n ∈ [natOfBytes x] := by
  funext n
  exact propext ((KE_push_iff env k h16 n).trans (by simp))

theorem KE_push' (env : Env) {x : Bytes} (k : KindTag) (h16 : x.length = 16) :
    KE ((x, k) :: env) = fun n => KE env n ∨ n = natOfBytes x := by
  funext n
  exact propext (KE_push_iff env k h16 n)

theorem blocks_miss : ∀ (bs : List MBlock) (ps : List (Nat × Bool)) (env env1 : Env), Chain EBlock env bs env1 →
    All2 (fun b p => skBlock b = some p) bs ps →
    MissBlocks (KE env) ps ∧ KE env1 = fun u => KE env u ∨ u ∈ ps.map (·.1)
  | [], _, env, _, hch, hS => by
    cases hS; cases hch
    exact ⟨trivial, by funext u; exact propext (by simp)⟩
  | b :: bs, _, env, env1, hch, hS => by
    cases hS with
    | cons hab hrest =>
      rename_i p ps
      cases hch with
      | cons h1 hch' =>
        obtain ⟨u, k, _, h16, hf, rfl, hsk⟩ := decodeBlock_inv h1
        rw [hab] at hsk
        cases hsk
        obtain ⟨i1, i2⟩ := blocks_miss bs ps _ _ hch' hrest
        rw [KE_push' env k h16] at i1 i2
        refine ⟨⟨not_KE h16 hf, i1⟩, ?_⟩
        rw [i2]
        funext w
        exact propext (by simp only [List.map_cons, List.mem_cons]; exact or_assoc)

theorem miss_list {α β : Type} {E : Env → α → Env → Prop} {S : α → β → Prop} {miss : (Nat → Prop) → β → Prop}
    {U : β → List Nat}
    (helem : ∀ env a env' b, E env a env' → S a b → miss (KE env) b ∧ KE env' = fun u => KE env u ∨ u ∈ U b) :
    ∀ (as : List α) (bs : List β) (env env' : Env), Chain E env as env' → All2 S as bs →
      MissList miss U (KE env) bs ∧ KE env' = fun u => KE env u ∨ u ∈ bs.flatMap U
  | [], _, env, _, hch, hS => by
    cases hS; cases hch
    exact ⟨trivial, by funext u; exact propext (by simp)⟩
  | a :: as, _, env, env', hch, hS => by
    cases hS with
    | cons hab hrest =>
      rename_i b bs
      cases hch with
      | cons h1 hch' =>
        obtain ⟨e1, e2⟩ := helem _ _ _ _ h1 hab
        obtain ⟨i1, i2⟩ := miss_list helem as bs _ _ hch' hrest
        rw [e2] at i1 i2
        refine ⟨⟨e1, i1⟩, ?_⟩
        rw [i2]
        funext w
        exact propext (by simp only [List.flatMap_cons, List.mem_append]; exact or_assoc)

theorem interval_miss (env : Env) (x : MByteInterval) (env' : Env) (sx : SkInterval) (hE : EInterval env x env')
    (hS : ∃ es, skInterval x = some (sx, es)) :
    MissI (KE env) sx ∧ KE env' = fun u => KE env u ∨ u ∈ sx.nodeUuids := by
  obtain ⟨h16, hf, _, env1, hch, rfl⟩ := decodeInterval_inv hE
  obtain ⟨es, hS⟩ := hS
  obtain ⟨bs, ls, hbs, _, rfl, _⟩ := skInterval_inv hS
  obtain ⟨i1, i2⟩ := blocks_miss x.blocks bs env env1 hch (allSome_map_all2 _ _ _ hbs)
  refine ⟨⟨not_KE h16 hf, i1⟩, ?_⟩
  rw [KE_push' env1 _ h16, i2]
  funext w
  refine propext ?_
  unfold SkInterval.nodeUuids
  simp only [List.mem_cons]
  constructor
  · rintro ((h | h) | h)
    · exact .inl h
    · exact .inr (.inr h)
    · exact .inr (.inl h)
  · rintro (h | h | h)
    · exact .inl (.inl h)
    · exact .inr h
    · exact .inl (.inr h)

theorem section_miss (env : Env) (s : MSection) (env' : Env) (ss : SkSection) (hE : ESection env s env')
    (hS : ∃ es, skSection s = some (ss, es)) :
    MissS (KE env) ss ∧ KE env' = fun u => KE env u ∨ u ∈ ss.nodeUuids := by
  obtain ⟨h16, hf, hch⟩ := decodeSection_inv hE
  obtain ⟨es, hS⟩ := hS
  obtain ⟨xs', hxs', rfl, _⟩ := skSection_inv hS
  obtain ⟨i1, i2⟩ := miss_list (miss := MissI) (U := SkInterval.nodeUuids)
    (S := fun x sx => ∃ es, skInterval x = some (sx, es)) interval_miss s.byteIntervals (xs'.map (·.1)) _ env' hch
    (all2_map_right (allSome_map_all2 _ _ _ hxs') (fun a b hab => ⟨b.2, by rw [hab]⟩))
  rw [KE_push env _ h16] at i1 i2
  refine ⟨⟨not_KE h16 hf, i1⟩, ?_⟩
  rw [i2]
  funext w
  refine propext ?_
  unfold SkSection.nodeUuids
  simp only [List.mem_cons, List.not_mem_nil, or_false]
  exact or_assoc

theorem leaf_miss {env : Env} {b : Bytes} (k : KindTag) (h16 : b.length = 16) (hf : env.find b = none) :
    ¬ KE env (natOfBytes b) ∧ KE ((b, k) :: env) = fun u => KE env u ∨ u ∈ [natOfBytes b] :=
  ⟨not_KE h16 hf, KE_push env k h16⟩

theorem module_miss (names : List String) (env : Env) (m : MModule) (env' : Env) (sm : SkModule)
    (hE : EModule env m env') (hS : skModule names m = some sm) :
    MissM (KE env) sm ∧ KE env' = fun u => KE env u ∨ u ∈ sm.nodeUuids := by
  obtain ⟨h16, hf, env1, env2, hpx, hsec, _, hsym, _⟩ := decodeModule_inv hE
  obtain ⟨ss, ys, hss, hys, rfl⟩ := skModule_inv hS
  obtain ⟨p1, p2⟩ := miss_list (miss := fun K (u : Nat) => ¬ K u) (U := fun u => [u])
    (E := EProxy) (S := fun b p => p = natOfBytes b)
    (fun env a env' b hE hS => by
      obtain ⟨a16, af, rfl⟩ := hE
      subst hS
      exact leaf_miss _ a16 af)
    m.proxies (m.proxies.map natOfBytes) _ env1 hpx
    (by
      have : All2 (fun (b : Bytes) (b' : Bytes) => b = b') m.proxies m.proxies := by
        induction m.proxies with
        | nil => exact .nil
        | cons a l ih => exact .cons rfl ih
      exact all2_map_right this (fun a b hab => by rw [hab]))
  obtain ⟨s1, s2⟩ := miss_list (miss := MissS) (U := SkSection.nodeUuids)
    (S := fun s sx => ∃ es, skSection s = some (sx, es)) section_miss m.sections (ss.map (·.1)) env1 env2 hsec
    (all2_map_right (allSome_map_all2 _ _ _ hss) (fun a b hab => ⟨b.2, by rw [hab]⟩))
  obtain ⟨y1, y2⟩ := miss_list (miss := fun K (y : SkSymbol) => ¬ K y.uuid) (U := fun y => [y.uuid])
    (E := ESymbol) (S := fun y sy => skSymbol names y = some sy)
    (fun env a env' b hE hS => by
      obtain ⟨a16, af, rfl, _⟩ := decodeSymbol_inv hE
      rw [skSymbol_uuid hS]
      exact leaf_miss _ a16 af)
    m.symbols ys env2 env' hsym (allSome_map_all2 _ _ _ hys)
  rw [KE_push env _ h16] at p1 p2
  rw [p2] at s1 s2
  rw [s2] at y1 y2
  refine ⟨⟨not_KE h16 hf, p1, s1, y1⟩, ?_⟩
  rw [y2]
  funext w
  refine propext ?_
  unfold SkModule.nodeUuids
  simp only [List.mem_cons, List.mem_append, List.not_mem_nil, or_false, flatMap_single, List.map_id']
  constructor
  · rintro ((((h | h) | h) | h) | h)
    · exact .inl h
    · exact .inr (.inl h)
    · exact .inr (.inr (.inl h))
    · exact .inr (.inr (.inr (.inl h)))
    · exact .inr (.inr (.inr (.inr h)))
  · rintro (h | h | h | h | h)
    · exact .inl (.inl (.inl (.inl h)))
    · exact .inl (.inl (.inl (.inr h)))
    · exact .inl (.inl (.inr h))
    · exact .inl (.inr h)
    · exact .inr h

/-- a message the value-level reader accepts is loaded without a table hit -/
theorem missIR_of_fromMsg {m : MIR} {v : Msg.IRV} {sk : SkIR} (h : Msg.fromMsg m = .ok v) (hs : skelOf m = some sk) :
    MissIR sk := by
  obtain ⟨h16, env, hch, _⟩ := fromMsg_inv h
  obtain ⟨sms, hsms, rfl⟩ := skelOf_inv hs
  obtain ⟨i1, _⟩ := miss_list (miss := MissM) (U := SkModule.nodeUuids)
    (S := fun md sm => skModule (m.modules.flatMap fun md => md.symbols.map (·.name)) md = some sm)
    (module_miss _) m.modules sms _ env hch (allSome_map_all2 _ _ _ hsms)
  have hK : KE [(m.uuid, KindTag.ir)] = fun u => u = natOfBytes m.uuid := by
    rw [KE_push' [] _ h16]
    funext w
    refine propext ⟨?_, fun h => .inr h⟩
    rintro (⟨b, _, _, hne⟩ | h)
    · exact absurd (by simp [Msg.Env.find]) hne
    · exact h
  rw [hK] at i1
  exact i1

end accepted

end Gtirb.Loader
