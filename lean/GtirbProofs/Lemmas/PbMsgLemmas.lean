import GtirbModel.PbMsg
import GtirbProofs.Lemmas.PbWireProofs
/-! Layer-2 combinator facts: what each reader combinator returns on what the
matching writer combinator wrote. -/
namespace Gtirb.Pb
open Gtirb Gtirb.Msg

/-! ### `getAll`, `WMsg.wf`, the oneof filter over `++` and `fld` -/

@[simp] theorem getAll_nil (k : Nat) : getAll [] k = [] := rfl

theorem getAll_append (a b : WMsg) (k : Nat) : getAll (a ++ b) k = getAll a k ++ getAll b k := by
  simp [getAll]

theorem getAll_fld (k' k : Nat) (vs : List WVal) :
    getAll (fld k' vs) k = if k' = k then vs else [] := by
  unfold getAll fld
  induction vs with
  | nil => simp
  | cons v vs ih =>
    by_cases h : k' = k
    · simp_all
    · simp_all

theorem wf_nil : WMsg.wf [] = true := rfl

theorem wf_append (a b : WMsg) : WMsg.wf (a ++ b) = (WMsg.wf a && WMsg.wf b) := by
  simp [WMsg.wf]

theorem wf_fld (k : Nat) (vs : List WVal) (h0 : 0 < k) (h1 : k < 2 ^ 29) :
    WMsg.wf (fld k vs) = vs.all WVal.wf := by
  unfold WMsg.wf fld
  induction vs with
  | nil => rfl
  | cons v vs ih => simp_all [fieldWf]

theorem filter_fld (p : Nat → Bool) (k : Nat) (vs : List WVal) :
    (fld k vs).filter (fun f => p f.1) = if p k then fld k vs else [] := by
  unfold fld
  induction vs with
  | nil => simp
  | cons v vs ih => cases h : p k <;> simp_all


theorem filter_append' (p : Nat × WVal → Bool) (a b : WMsg) :
    (a ++ b).filter p = a.filter p ++ b.filter p := List.filter_append ..

/-! ### scalars -/

theorem allVarint_vUInt (n : Nat) : allVarint (vUInt n) = some (if n = 0 then [] else [n]) := by
  unfold vUInt; split <;> simp [allVarint]

theorem lastUInt_vUInt (n : Nat) : lastUInt (vUInt n) = some n := by
  unfold lastUInt; rw [allVarint_vUInt]
  by_cases h : n = 0 <;> simp [h]

@[simp] theorem lastUInt_single (n : Nat) : lastUInt [.varint n] = some n := by
  simp [lastUInt, allVarint]

theorem lastBool_vBool (b : Bool) : lastBool (vBool b) = some b := by
  cases b <;> simp [lastBool, vBool, lastUInt, allVarint]

theorem lastInt_vInt (i : Int) (h : i64OK i = true) : lastInt (vInt i) = some i := by
  unfold lastInt vInt; rw [lastUInt_vUInt]
  simp only [i64OK, Bool.and_eq_true, decide_eq_true_eq] at h
  simp [toInt64_ofInt64 i h]

theorem lastEnum_vUInt (n : Nat) (h : enumOK n = true) : lastEnum (vUInt n) = some n := by
  unfold lastEnum; rw [lastUInt_vUInt]
  simp only [enumOK, decide_eq_true_eq] at h
  simp [h]

theorem lastU32_vUInt (n : Nat) (h : u32OK n = true) : lastU32 (vUInt n) = some n := by
  unfold lastU32; rw [lastUInt_vUInt]
  simp only [u32OK, decide_eq_true_eq] at h
  simp [Nat.mod_eq_of_lt h]

theorem lastBytes_vBytes (bs : Bytes) : lastBytes (vBytes bs) = some bs := by
  unfold lastBytes vBytes
  by_cases h : bs = [] <;> simp [h, allLen]

@[simp] theorem lastBytes_single (bs : Bytes) : lastBytes [.len bs] = some bs := by
  simp [lastBytes, allLen]

theorem strOf_utf8 (s : String) : strOf (utf8 s) = some s := by
  unfold strOf utf8
  have : (ByteArray.mk s.toUTF8.data.toList.toArray) = s.toUTF8 := by simp
  rw [this]
  simp [String.fromUTF8?, s.isValidUTF8]
  rfl

theorem lastStr_vStr (s : String) : lastStr (vStr s) = some s := by
  unfold lastStr vStr; rw [lastBytes_vBytes]; exact strOf_utf8 s

@[simp] theorem lastStr_single (s : String) : lastStr [.len (utf8 s)] = some s := by
  unfold lastStr; rw [lastBytes_single]; exact strOf_utf8 s

theorem allLen_vRep (bss : List Bytes) : allLen (vRep bss) = some bss := by
  unfold vRep
  induction bss with
  | nil => rfl
  | cons b bss ih => simp [allLen, ih]

/-! ### well-formedness of the written values -/

theorem all_wf_vUInt (n : Nat) (h : u64OK n = true) : (vUInt n).all WVal.wf = true := by
  simp only [u64OK, decide_eq_true_eq] at h
  unfold vUInt; split <;> simp [WVal.wf, h]

theorem u64OK_of_enumOK {n : Nat} (h : enumOK n = true) : u64OK n = true := by
  simp only [enumOK, u64OK, decide_eq_true_eq] at *
  exact Nat.lt_trans h (by decide)

theorem all_wf_vBool (b : Bool) : (vBool b).all WVal.wf = true := by
  cases b <;> simp [vBool, WVal.wf]

theorem all_wf_vInt (i : Int) : (vInt i).all WVal.wf = true :=
  all_wf_vUInt _ (by simpa [u64OK] using ofInt64_lt i)

theorem all_wf_vBytes (bs : Bytes) (h : lenOK bs = true) : (vBytes bs).all WVal.wf = true := by
  simp only [lenOK, decide_eq_true_eq] at h
  unfold vBytes; split <;> simp [WVal.wf, h]

theorem all_wf_vStr (s : String) (h : lenOK (utf8 s) = true) : (vStr s).all WVal.wf = true :=
  all_wf_vBytes _ h

theorem all_wf_vRep (bss : List Bytes) (h : bss.all lenOK = true) :
    (vRep bss).all WVal.wf = true := by
  unfold vRep
  induction bss with
  | nil => rfl
  | cons b bss ih => simp_all [WVal.wf, lenOK]

theorem all_wf_vPacked (ns : List Nat) (h : lenOK (ns.flatMap encVarint) = true) :
    (vPacked ns).all WVal.wf = true := by
  simp only [lenOK, decide_eq_true_eq] at h
  unfold vPacked; split
  · rfl
  · simp only [List.all_cons, List.all_nil, WVal.wf, Bool.and_true, decide_eq_true_eq]; exact h

theorem all_wf_vMsgs {α : Type} (f : α → WMsg) (xs : List α)
    (h : xs.all (fun x => lenOK (encodeW (f x))) = true) : (vMsgs f xs).all WVal.wf = true := by
  unfold vMsgs
  induction xs with
  | nil => rfl
  | cons x xs ih => simp_all [WVal.wf, lenOK]

theorem wf_len_single (bs : Bytes) (h : lenOK bs = true) :
    List.all [WVal.len bs] WVal.wf = true := by
  simp_all [WVal.wf, lenOK]

theorem wf_varint_single (n : Nat) (h : u64OK n = true) :
    List.all [WVal.varint n] WVal.wf = true := by
  simp_all [WVal.wf, u64OK]

/-! ### sub-messages -/

theorem asMsg_encodeW {α : Type} (p : WMsg → Option α) (w : WMsg) (h : w.wf = true) :
    asMsg p (encodeW w) = p w := by
  unfold asMsg; rw [decodeW_encodeW w h]

theorem subMsg_single {α : Type} (p : WMsg → Option α) (w : WMsg) (h : w.wf = true) :
    subMsg p [.len (encodeW w)] = p w := by
  simp [subMsg, merged, allLen, asMsg_encodeW p w h]

theorem repMsg_vMsgs {α β : Type} (p : WMsg → Option β) (f : α → WMsg) (g : α → β) (xs : List α)
    (h : ∀ x ∈ xs, (f x).wf = true ∧ p (f x) = some (g x)) :
    repMsg p (vMsgs f xs) = some (xs.map g) := by
  unfold repMsg vMsgs
  have h1 : allLen (xs.map fun x => WVal.len (encodeW (f x))) = some (xs.map fun x => encodeW (f x)) := by
    clear h
    induction xs with
    | nil => rfl
    | cons x xs ih => simp [allLen, ih]
  rw [h1]; clear h1
  show optMapM (asMsg p) (xs.map fun x => encodeW (f x)) = some (xs.map g)
  induction xs with
  | nil => rfl
  | cons x xs ih =>
    have hx := h x (by simp)
    have ih' := ih (fun y hy => h y (by simp [hy]))
    simp only [List.map_cons, optMapM, asMsg_encodeW p (f x) hx.1, hx.2, ih']

theorem repMsg_vMsgs_id {α : Type} (p : WMsg → Option α) (f : α → WMsg) (xs : List α)
    (h : ∀ x ∈ xs, (f x).wf = true ∧ p (f x) = some x) :
    repMsg p (vMsgs f xs) = some xs := by
  have := repMsg_vMsgs p f id xs h
  simpa using this


/-! ### packed runs -/

theorem decVarints_flatMap (ns : List Nat) (h : ∀ n ∈ ns, n < 2 ^ 64) :
    ∀ fuel, (ns.flatMap encVarint).length ≤ fuel →
      decVarints fuel (ns.flatMap encVarint) = some ns := by
  induction ns with
  | nil => intro fuel _; cases fuel <;> rfl
  | cons n ns ih =>
    intro fuel hf
    have hn : n < 2 ^ 64 := h n (by simp)
    have ih' := ih (fun k hk => h k (by simp [hk]))
    rw [List.flatMap_cons] at hf ⊢
    cases he : encVarint n with
    | nil => exact absurd he (encVarint_ne_nil n)
    | cons b tl =>
      rw [he] at hf
      cases fuel with
      | zero => simp at hf
      | succ fuel =>
        have hd : decVarint (b :: tl ++ ns.flatMap encVarint) = some (n, ns.flatMap encVarint) := by
          rw [← he]; exact decVarint_encVarint n hn _
        have hl : (ns.flatMap encVarint).length ≤ fuel := by
          simp only [List.cons_append, List.length_cons, List.length_append] at hf; omega
        simp only [List.cons_append] at hd ⊢
        simp only [decVarints, hd, ih' fuel hl]

theorem packedOf_vPacked (ns : List Nat) (h : ∀ n ∈ ns, n < 2 ^ 64) :
    packedOf (vPacked ns) = some ns := by
  unfold vPacked
  by_cases h0 : ns = []
  · simp [h0, packedOf]
  · simp only [h0, if_false, packedOf, decVarints_flatMap ns h _ (Nat.le_refl _), List.append_nil]

theorem enumsOf_vPacked (ns : List Nat) (h : ns.all enumOK = true) :
    enumsOf (vPacked ns) = some ns := by
  have h' : ∀ n ∈ ns, n < 2 ^ 31 := by
    simpa [enumOK] using h
  unfold enumsOf
  rw [packedOf_vPacked ns (fun n hn => Nat.lt_trans (h' n hn) (by decide))]
  have : ns.all (fun n => decide (n < 2 ^ 31)) = true := by
    simpa using h'
  simp only [this, if_true]

/-! ### oneofs -/

theorem oneof_filter_fld (ks : List Nat) (k : Nat) (vs : List WVal) :
    (fld k vs).filter (fun f => ks.contains f.1) = if ks.contains k then fld k vs else [] :=
  filter_fld (fun k => ks.contains k) k vs

theorem oneofRun_nil_of_filter {m : WMsg} {ks : List Nat}
    (h : m.filter (fun f => ks.contains f.1) = []) : oneofRun m ks = none := by
  unfold oneofRun; rw [h]; rfl

theorem oneofRun_single_of_filter {m : WMsg} {ks : List Nat} {k : Nat} {v : WVal}
    (h : m.filter (fun f => ks.contains f.1) = [(k, v)]) : oneofRun m ks = some (k, [v]) := by
  unfold oneofRun; rw [h]; simp

/-! ### the field numbers (regenerated schema) of the lower half -/

@[simp] theorem fno_CodeBlock_uuid : fno "CodeBlock" "uuid" = 1 := by decide
@[simp] theorem fno_CodeBlock_size : fno "CodeBlock" "size" = 3 := by decide
@[simp] theorem fno_CodeBlock_decode_mode : fno "CodeBlock" "decode_mode" = 4 := by decide
@[simp] theorem fno_DataBlock_uuid : fno "DataBlock" "uuid" = 1 := by decide
@[simp] theorem fno_DataBlock_size : fno "DataBlock" "size" = 3 := by decide
@[simp] theorem fno_Block_offset : fno "Block" "offset" = 1 := by decide
@[simp] theorem fno_Block_code : fno "Block" "code" = 2 := by decide
@[simp] theorem fno_Block_data : fno "Block" "data" = 3 := by decide
@[simp] theorem fno_SymAddrConst_offset : fno "SymAddrConst" "offset" = 1 := by decide
@[simp] theorem fno_SymAddrConst_symbol_uuid : fno "SymAddrConst" "symbol_uuid" = 2 := by decide
@[simp] theorem fno_SymAddrAddr_scale : fno "SymAddrAddr" "scale" = 1 := by decide
@[simp] theorem fno_SymAddrAddr_offset : fno "SymAddrAddr" "offset" = 2 := by decide
@[simp] theorem fno_SymAddrAddr_symbol1_uuid : fno "SymAddrAddr" "symbol1_uuid" = 3 := by decide
@[simp] theorem fno_SymAddrAddr_symbol2_uuid : fno "SymAddrAddr" "symbol2_uuid" = 4 := by decide
@[simp] theorem fno_SymbolicExpression_addr_const :
    fno "SymbolicExpression" "addr_const" = 2 := by decide
@[simp] theorem fno_SymbolicExpression_addr_addr :
    fno "SymbolicExpression" "addr_addr" = 3 := by decide
@[simp] theorem fno_SymbolicExpression_attribute_flags :
    fno "SymbolicExpression" "attribute_flags" = 4 := by decide
@[simp] theorem fno_ByteInterval_uuid : fno "ByteInterval" "uuid" = 1 := by decide
@[simp] theorem fno_ByteInterval_blocks : fno "ByteInterval" "blocks" = 2 := by decide
@[simp] theorem fno_ByteInterval_symbolic_expressions :
    fno "ByteInterval" "symbolic_expressions" = 3 := by decide
@[simp] theorem fno_ByteInterval_has_address : fno "ByteInterval" "has_address" = 4 := by decide
@[simp] theorem fno_ByteInterval_address : fno "ByteInterval" "address" = 5 := by decide
@[simp] theorem fno_ByteInterval_size : fno "ByteInterval" "size" = 6 := by decide
@[simp] theorem fno_ByteInterval_contents : fno "ByteInterval" "contents" = 7 := by decide
@[simp] theorem fno_Section_uuid : fno "Section" "uuid" = 1 := by decide
@[simp] theorem fno_Section_name : fno "Section" "name" = 2 := by decide
@[simp] theorem fno_Section_byte_intervals : fno "Section" "byte_intervals" = 5 := by decide
@[simp] theorem fno_Section_section_flags : fno "Section" "section_flags" = 6 := by decide

end Gtirb.Pb
