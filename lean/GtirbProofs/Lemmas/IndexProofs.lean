import GtirbProofs.Lemmas.ForestDefs
/-! Frame lemmas and preservation lemmas for the symbol index invariant
(property C10). Everything here is prefixed `idx_` / `Idx`.

Design. `IndexInv` only reads `kids · .syms`, `name`, `payload`, `nameIdx`,
`refIdx`. The operations additionally read `kind` (the index hooks act on
symbols only) and `par` (to find the old owner). Through the folds we carry
`IdxSt k g` = `IndexInv g` + a small side condition `IdxSide g` (the part of
`ForestInv` that the index hooks rely on: members of `syms` are symbols, members
of `secs`/`proxies` are not, `syms` lists are duplicate-free) + `g.kind = k`.
`IdxSt` does not mention `par` or `cache`, and is preserved by every primitive
other than `alloc`, `setName`, `setPayload` unconditionally or under the typing
contract; those three need `ForestInv` of the pre-state. -/
namespace Gtirb.Forest

/-! ### list facts -/

theorem idx_mem_setInsertNat {xs : List Nat} {x y : Nat} :
    y ∈ setInsertNat xs x ↔ (y ∈ xs ∨ y = x) := by
  unfold setInsertNat
  split
  · constructor
    · exact Or.inl
    · rintro (h | rfl) <;> assumption
  · simp

theorem idx_nodup_setInsertNat {xs : List Nat} {x : Nat} (h : xs.Nodup) :
    (setInsertNat xs x).Nodup := by
  unfold setInsertNat
  split
  · exact h
  · rename_i hx
    rw [List.nodup_append]
    refine ⟨h, by simp, ?_⟩
    intro a ha b hb
    simp at hb; subst hb; rintro rfl; exact hx ha

/-! ### only the UUID table changed -/

def IdxOC (g g' : G) : Prop := ∃ c, g' = { g with cache := c }

theorem idx_oc_refl (g : G) : IdxOC g g := ⟨g.cache, rfl⟩

theorem idx_oc_trans {a b c : G} (h1 : IdxOC a b) (h2 : IdxOC b c) : IdxOC a c := by
  obtain ⟨c1, rfl⟩ := h1; obtain ⟨c2, rfl⟩ := h2; exact ⟨c2, rfl⟩

theorem idx_oc_cacheSet (g : G) (i u v : Nat) : IdxOC g (cacheSet g i u v) := ⟨_, rfl⟩

theorem idx_oc_cacheDel {g g' : G} {i u : Nat} (h : cacheDel g i u = .ok g') : IdxOC g g' := by
  unfold cacheDel at h
  split at h
  · cases h
  · injection h with h; subst h; exact ⟨_, rfl⟩

theorem idx_oc_foldl (f : G → Nat → G) (hf : ∀ g x, IdxOC g (f g x)) (l : List Nat) (g : G) :
    IdxOC g (l.foldl f g) := by
  induction l generalizing g with
  | nil => exact idx_oc_refl g
  | cons x xs ih => exact idx_oc_trans (hf g x) (ih _)

theorem idx_oc_foldE (f : G → Nat → Except Exc G) (hf : ∀ g x g', f g x = .ok g' → IdxOC g g')
    (l : List Nat) (g g' : G) (h : foldE f l g = .ok g') : IdxOC g g' := by
  induction l generalizing g with
  | nil => simp [foldE] at h; subst h; exact idx_oc_refl g
  | cons x xs ih =>
    simp only [foldE] at h
    split at h
    · rename_i g1 h1; exact idx_oc_trans (hf _ _ _ h1) (ih _ h)
    · cases h

theorem idx_oc_cacheAddLeaf (g : G) (i v : Nat) : IdxOC g (cacheAddLeaf g i v) :=
  idx_oc_cacheSet _ _ _ _

theorem idx_oc_cacheAddInterval (g : G) (i v : Nat) : IdxOC g (cacheAddInterval g i v) :=
  idx_oc_trans (idx_oc_cacheSet _ _ _ _) (idx_oc_foldl _ (fun g b => idx_oc_cacheAddLeaf g i b) _ _)

theorem idx_oc_cacheAddSection (g : G) (i v : Nat) : IdxOC g (cacheAddSection g i v) :=
  idx_oc_trans (idx_oc_cacheSet _ _ _ _) (idx_oc_foldl _ (fun g b => idx_oc_cacheAddInterval g i b) _ _)

theorem idx_oc_cacheAddModule (g : G) (i v : Nat) : IdxOC g (cacheAddModule g i v) := by
  unfold cacheAddModule
  have h1 := idx_oc_cacheSet g i (g.uuid v) v
  have h2 := fun g1 => idx_oc_foldl _ (fun g b => idx_oc_cacheAddLeaf g i b) (g1.kids v .proxies) g1
  have h3 := fun g2 => idx_oc_foldl _ (fun g b => idx_oc_cacheAddSection g i b) (g2.kids v .secs) g2
  have h4 := fun g3 => idx_oc_foldl _ (fun g b => idx_oc_cacheAddLeaf g i b) (g3.kids v .syms) g3
  exact idx_oc_trans (idx_oc_trans (idx_oc_trans h1 (h2 _)) (h3 _)) (h4 _)

theorem idx_oc_cacheAdd (g : G) (i v : Nat) : IdxOC g (cacheAdd g i v) := by
  unfold cacheAdd
  split
  · exact idx_oc_cacheAddModule _ _ _
  · exact idx_oc_cacheAddSection _ _ _
  · exact idx_oc_cacheAddInterval _ _ _
  · exact idx_oc_cacheAddLeaf _ _ _

theorem idx_oc_cacheDelLeaf {g g' : G} {i v : Nat} (h : cacheDelLeaf g i v = .ok g') : IdxOC g g' :=
  idx_oc_cacheDel h

theorem idx_oc_cacheDelInterval {g g' : G} {i v : Nat} (h : cacheDelInterval g i v = .ok g') :
    IdxOC g g' := by
  unfold cacheDelInterval at h
  split at h
  · rename_i g1 h1
    exact idx_oc_trans (idx_oc_cacheDel h1) (idx_oc_foldE _ (fun _ _ _ h => idx_oc_cacheDelLeaf h) _ _ _ h)
  · cases h

theorem idx_oc_cacheDelSection {g g' : G} {i v : Nat} (h : cacheDelSection g i v = .ok g') :
    IdxOC g g' := by
  unfold cacheDelSection at h
  split at h
  · rename_i g1 h1
    exact idx_oc_trans (idx_oc_cacheDel h1)
      (idx_oc_foldE _ (fun _ _ _ h => idx_oc_cacheDelInterval h) _ _ _ h)
  · cases h

theorem idx_oc_cacheDelModule {g g' : G} {i v : Nat} (h : cacheDelModule g i v = .ok g') :
    IdxOC g g' := by
  unfold cacheDelModule at h
  split at h
  · cases h
  · rename_i g1 h1
    split at h
    · cases h
    · rename_i g2 h2
      split at h
      · cases h
      · rename_i g3 h3
        exact idx_oc_trans (idx_oc_trans (idx_oc_trans (idx_oc_cacheDel h1)
          (idx_oc_foldE _ (fun _ _ _ h => idx_oc_cacheDelLeaf h) _ _ _ h2))
          (idx_oc_foldE _ (fun _ _ _ h => idx_oc_cacheDelSection h) _ _ _ h3))
          (idx_oc_foldE _ (fun _ _ _ h => idx_oc_cacheDelLeaf h) _ _ _ h)

theorem idx_oc_cacheRemove {g g' : G} {i v : Nat} (h : cacheRemove g i v = .ok g') : IdxOC g g' := by
  unfold cacheRemove at h
  split at h
  · exact idx_oc_cacheDelModule h
  · exact idx_oc_cacheDelSection h
  · exact idx_oc_cacheDelInterval h
  · exact idx_oc_cacheDelLeaf h

/-! ### the side condition and the carried state predicate -/

/-- the part of `ForestInv` the index hooks rely on -/
structure IdxSide (g : G) : Prop where
  kind_ok : ∀ c p s, (s = .secs ∨ s = .syms ∨ s = .proxies) → c ∈ g.kids p s →
    (g.kind c = .symbol ↔ s = .syms)
  syms_nodup : ∀ p, (g.kids p .syms).Nodup

def IdxSt (k : Nat → Kind) (g : G) : Prop := IndexInv g ∧ IdxSide g ∧ g.kind = k

theorem idx_slotOf_syms {k : Kind} : slotOf k = some .syms ↔ k = .symbol := by
  cases k <;> simp [slotOf]

theorem idx_side_of_forest {g : G} (hf : ForestInv g) : IdxSide g where
  kind_ok := by
    intro c p s _ hc
    have h := ((hf.mem_iff c p s).1 hc).2
    constructor
    · intro hk; rw [hk] at h; simp [slotOf] at h; exact h.symm
    · rintro rfl; exact idx_slotOf_syms.1 h
  syms_nodup := fun p => hf.nodup p .syms

theorem idx_st_oc {k : Nat → Kind} {g g' : G} (hoc : IdxOC g g') (h : IdxSt k g) : IdxSt k g' := by
  obtain ⟨c, rfl⟩ := hoc
  obtain ⟨hi, hs, hk⟩ := h
  exact ⟨⟨hi.name_iff, hi.ref_iff, hi.name_nodup, hi.ref_nodup⟩, ⟨hs.kind_ok, hs.syms_nodup⟩, hk⟩

/-! ### the index hooks: frame and membership -/

theorem idx_symIndexAdd_nameIdx (g : G) (m v m' k y : Nat) :
    y ∈ (symIndexAdd g m v).nameIdx m' k ↔
      (y ∈ g.nameIdx m' k ∨ (g.kind v = .symbol ∧ m' = m ∧ k = g.name v ∧ y = v)) := by
  unfold symIndexAdd
  by_cases hk : g.kind v = .symbol
  · simp only [hk, if_true]
    split
    all_goals
      by_cases hc : m' = m ∧ k = g.name v
      · obtain ⟨rfl, rfl⟩ := hc
        simp [idx_mem_setInsertNat]
      · simp [hc]
        intro h1 h2; exact absurd ⟨h1, h2⟩ hc
  · simp [hk]

theorem idx_symIndexAdd_refIdx (g : G) (m v m' b y : Nat) :
    y ∈ (symIndexAdd g m v).refIdx m' b ↔
      (y ∈ g.refIdx m' b ∨ (g.kind v = .symbol ∧ m' = m ∧ g.payload v = .block b ∧ y = v)) := by
  unfold symIndexAdd
  by_cases hk : g.kind v = .symbol
  · simp only [hk, if_true]
    split
    · rename_i b' hb'
      by_cases hc : m' = m ∧ b = b'
      · obtain ⟨rfl, rfl⟩ := hc
        simp [idx_mem_setInsertNat, hb']
      · simp [hc, hb']
        intro h1 h2; exact absurd ⟨h1, h2.symm⟩ hc
    · rename_i hnb
      simp
      intro _ h; exact absurd h (hnb b)
  · simp [hk]

theorem idx_symIndexDiscard_nameIdx (g : G) (m v m' k y : Nat) (hnd : (g.nameIdx m' k).Nodup) :
    y ∈ (symIndexDiscard g m v).nameIdx m' k ↔
      (y ∈ g.nameIdx m' k ∧ ¬ (g.kind v = .symbol ∧ m' = m ∧ k = g.name v ∧ y = v)) := by
  unfold symIndexDiscard
  by_cases hk : g.kind v = .symbol
  · simp only [hk, if_true]
    split
    all_goals
      by_cases hc : m' = m ∧ k = g.name v
      · obtain ⟨rfl, rfl⟩ := hc
        simp [hnd.mem_erase_iff]
        exact And.comm
      · simp [hc]
        intro _ h1 h2; exact absurd ⟨h1, h2⟩ hc
  · simp [hk]

theorem idx_symIndexDiscard_refIdx (g : G) (m v m' b y : Nat) (hnd : (g.refIdx m' b).Nodup) :
    y ∈ (symIndexDiscard g m v).refIdx m' b ↔
      (y ∈ g.refIdx m' b ∧ ¬ (g.kind v = .symbol ∧ m' = m ∧ g.payload v = .block b ∧ y = v)) := by
  unfold symIndexDiscard
  by_cases hk : g.kind v = .symbol
  · simp only [hk, if_true]
    split
    · rename_i b' hb'
      by_cases hc : m' = m ∧ b = b'
      · obtain ⟨rfl, rfl⟩ := hc
        simp [hnd.mem_erase_iff, hb']
        exact And.comm
      · simp [hc, hb']
        intro _ h1 h2; exact absurd ⟨h1, h2.symm⟩ hc
    · rename_i hnb
      simp
      intro _ _ h; exact absurd h (hnb b)
  · simp [hk]

theorem idx_symIndexAdd_nameIdx_nodup (g : G) (m v m' k : Nat) (hnd : (g.nameIdx m' k).Nodup) :
    ((symIndexAdd g m v).nameIdx m' k).Nodup := by
  unfold symIndexAdd
  split
  · split
    all_goals
      simp only []
      split
      · rename_i hc; obtain ⟨rfl, rfl⟩ := hc; exact idx_nodup_setInsertNat hnd
      · exact hnd
  · exact hnd

theorem idx_symIndexAdd_refIdx_nodup (g : G) (m v m' b : Nat) (hnd : (g.refIdx m' b).Nodup) :
    ((symIndexAdd g m v).refIdx m' b).Nodup := by
  unfold symIndexAdd
  split
  · split
    · simp only []
      split
      · rename_i hc; obtain ⟨rfl, rfl⟩ := hc; exact idx_nodup_setInsertNat hnd
      · exact hnd
    · exact hnd
  · exact hnd

theorem idx_symIndexDiscard_nameIdx_nodup (g : G) (m v m' k : Nat) (hnd : (g.nameIdx m' k).Nodup) :
    ((symIndexDiscard g m v).nameIdx m' k).Nodup := by
  unfold symIndexDiscard
  split
  · split
    all_goals
      simp only []
      split
      · rename_i hc; obtain ⟨rfl, rfl⟩ := hc; exact hnd.erase _
      · exact hnd
  · exact hnd

theorem idx_symIndexDiscard_refIdx_nodup (g : G) (m v m' b : Nat) (hnd : (g.refIdx m' b).Nodup) :
    ((symIndexDiscard g m v).refIdx m' b).Nodup := by
  unfold symIndexDiscard
  split
  · split
    · simp only []
      split
      · rename_i hc; obtain ⟨rfl, rfl⟩ := hc; exact hnd.erase _
      · exact hnd
    · exact hnd
  · exact hnd

@[simp] theorem idx_symIndexAdd_kind (g : G) (m v : Nat) : (symIndexAdd g m v).kind = g.kind := by
  unfold symIndexAdd; repeat' split
  all_goals rfl
@[simp] theorem idx_symIndexAdd_kids (g : G) (m v : Nat) : (symIndexAdd g m v).kids = g.kids := by
  unfold symIndexAdd; repeat' split
  all_goals rfl
@[simp] theorem idx_symIndexAdd_name (g : G) (m v : Nat) : (symIndexAdd g m v).name = g.name := by
  unfold symIndexAdd; repeat' split
  all_goals rfl
@[simp] theorem idx_symIndexAdd_payload (g : G) (m v : Nat) : (symIndexAdd g m v).payload = g.payload := by
  unfold symIndexAdd; repeat' split
  all_goals rfl
@[simp] theorem idx_symIndexAdd_par (g : G) (m v : Nat) : (symIndexAdd g m v).par = g.par := by
  unfold symIndexAdd; repeat' split
  all_goals rfl
@[simp] theorem idx_symIndexDiscard_kind (g : G) (m v : Nat) : (symIndexDiscard g m v).kind = g.kind := by
  unfold symIndexDiscard; repeat' split
  all_goals rfl
@[simp] theorem idx_symIndexDiscard_kids (g : G) (m v : Nat) : (symIndexDiscard g m v).kids = g.kids := by
  unfold symIndexDiscard; repeat' split
  all_goals rfl
@[simp] theorem idx_symIndexDiscard_name (g : G) (m v : Nat) : (symIndexDiscard g m v).name = g.name := by
  unfold symIndexDiscard; repeat' split
  all_goals rfl
@[simp] theorem idx_symIndexDiscard_payload (g : G) (m v : Nat) : (symIndexDiscard g m v).payload = g.payload := by
  unfold symIndexDiscard; repeat' split
  all_goals rfl
@[simp] theorem idx_symIndexDiscard_par (g : G) (m v : Nat) : (symIndexDiscard g m v).par = g.par := by
  unfold symIndexDiscard; repeat' split
  all_goals rfl

/-! ### `setDiscard` -/

theorem idx_oc_kidsErase {g g' : G} (h : IdxOC g g') (p : Nat) (s : Slot) (v : Nat) :
    IdxOC (kidsErase g p s v) (kidsErase g' p s v) := by
  obtain ⟨c, rfl⟩ := h; exact ⟨c, rfl⟩

theorem idx_oc_kidsInsert {g g' : G} (h : IdxOC g g') (p : Nat) (s : Slot) (v : Nat) :
    IdxOC (kidsInsert g p s v) (kidsInsert g' p s v) := by
  obtain ⟨c, rfl⟩ := h; exact ⟨c, rfl⟩

theorem idx_oc_kidsSet {g g' : G} (h : IdxOC g g') (p : Nat) (s : Slot) (l : List Nat) :
    IdxOC (kidsSet g p s l) (kidsSet g' p s l) := by
  obtain ⟨c, rfl⟩ := h; exact ⟨c, rfl⟩

theorem idx_oc_kids {g g' : G} (h : IdxOC g g') : g'.kids = g.kids := by
  obtain ⟨c, rfl⟩ := h; rfl

theorem idx_oc_par {g g' : G} (h : IdxOC g g') : g'.par = g.par := by
  obtain ⟨c, rfl⟩ := h; rfl

/-- the state after `setDiscard` (when `v` is a member), up to the UUID table -/
def idxDiscardCore (g : G) (p : Nat) (s : Slot) (v : Nat) : G :=
  kidsErase (if s = .secs ∨ s = .syms ∨ s = .proxies then symIndexDiscard (setPar g v none) p v
             else setPar g v none) p s v

theorem idx_setDiscard_spec {g g' : G} {p : Nat} {s : Slot} {v : Nat}
    (h : setDiscard g p s v = .ok g') :
    (v ∉ g.kids p s ∧ g' = g) ∨ (v ∈ g.kids p s ∧ IdxOC (idxDiscardCore g p s v) g') := by
  unfold setDiscard at h
  split at h
  · rename_i hv
    right; refine ⟨hv, ?_⟩
    dsimp only at h
    split at h
    · split at h
      · rename_i g3 h3
        injection h with h; subst h
        exact idx_oc_kidsErase (idx_oc_cacheRemove h3) _ _ _
      · cases h
    · injection h with h; subst h; exact idx_oc_refl _
  · rename_i hv
    injection h with h; subst h; exact Or.inl ⟨hv, rfl⟩

@[simp] theorem idx_discardCore_kind (g : G) (p : Nat) (s : Slot) (v : Nat) :
    (idxDiscardCore g p s v).kind = g.kind := by
  unfold idxDiscardCore; split <;> simp [kidsErase, setPar]
@[simp] theorem idx_discardCore_name (g : G) (p : Nat) (s : Slot) (v : Nat) :
    (idxDiscardCore g p s v).name = g.name := by
  unfold idxDiscardCore; split <;> simp [kidsErase, setPar]
@[simp] theorem idx_discardCore_payload (g : G) (p : Nat) (s : Slot) (v : Nat) :
    (idxDiscardCore g p s v).payload = g.payload := by
  unfold idxDiscardCore; split <;> simp [kidsErase, setPar]

theorem idx_discardCore_kids (g : G) (p : Nat) (s : Slot) (v m : Nat) (s' : Slot) :
    (idxDiscardCore g p s v).kids m s' =
      if m = p ∧ s' = s then (g.kids p s).erase v else g.kids m s' := by
  unfold idxDiscardCore; split <;> simp [kidsErase, setPar]

theorem idx_discardCore_mem_syms {g : G} (hs : IdxSide g) (p : Nat) (s : Slot) (v m y : Nat) :
    y ∈ (idxDiscardCore g p s v).kids m .syms ↔
      (y ∈ g.kids m .syms ∧ ¬ (s = .syms ∧ m = p ∧ y = v)) := by
  rw [idx_discardCore_kids]
  by_cases hc : m = p ∧ Slot.syms = s
  · obtain ⟨rfl, rfl⟩ := hc
    simp [(hs.syms_nodup m).mem_erase_iff]
    exact And.comm
  · simp [hc]
    intro _ h1 h2; exact absurd ⟨h2, h1.symm⟩ hc

theorem idx_discardCore_nameIdx {g : G} (hi : IndexInv g) (hs : IdxSide g) {p : Nat} {s : Slot} {v : Nat}
    (hv : v ∈ g.kids p s) (m nm y : Nat) :
    y ∈ (idxDiscardCore g p s v).nameIdx m nm ↔
      (y ∈ g.nameIdx m nm ∧ ¬ (s = .syms ∧ m = p ∧ nm = g.name v ∧ y = v)) := by
  unfold idxDiscardCore
  split
  · rename_i hc
    have hk := hs.kind_ok v p s hc hv
    show y ∈ (symIndexDiscard (setPar g v none) p v).nameIdx m nm ↔ _
    rw [idx_symIndexDiscard_nameIdx (setPar g v none) _ _ _ _ _ (hi.name_nodup m nm)]
    show (y ∈ g.nameIdx m nm ∧ ¬ (g.kind v = .symbol ∧ _)) ↔ _
    rw [hk]
    rfl
  · rename_i hc
    have : s ≠ .syms := fun h => hc (Or.inr (Or.inl h))
    show y ∈ g.nameIdx m nm ↔ _
    simp [this]

theorem idx_discardCore_refIdx {g : G} (hi : IndexInv g) (hs : IdxSide g) {p : Nat} {s : Slot} {v : Nat}
    (hv : v ∈ g.kids p s) (m b y : Nat) :
    y ∈ (idxDiscardCore g p s v).refIdx m b ↔
      (y ∈ g.refIdx m b ∧ ¬ (s = .syms ∧ m = p ∧ g.payload v = .block b ∧ y = v)) := by
  unfold idxDiscardCore
  split
  · rename_i hc
    have hk := hs.kind_ok v p s hc hv
    show y ∈ (symIndexDiscard (setPar g v none) p v).refIdx m b ↔ _
    rw [idx_symIndexDiscard_refIdx (setPar g v none) _ _ _ _ _ (hi.ref_nodup m b)]
    show (y ∈ g.refIdx m b ∧ ¬ (g.kind v = .symbol ∧ _)) ↔ _
    rw [hk]
    rfl
  · rename_i hc
    have : s ≠ .syms := fun h => hc (Or.inr (Or.inl h))
    show y ∈ g.refIdx m b ↔ _
    simp [this]

theorem idx_discardCore_nameIdx_nodup {g : G} (hi : IndexInv g) (p : Nat) (s : Slot) (v m nm : Nat) :
    ((idxDiscardCore g p s v).nameIdx m nm).Nodup := by
  unfold idxDiscardCore
  split
  · exact idx_symIndexDiscard_nameIdx_nodup (setPar g v none) _ _ _ _ (hi.name_nodup m nm)
  · exact hi.name_nodup m nm

theorem idx_discardCore_refIdx_nodup {g : G} (hi : IndexInv g) (p : Nat) (s : Slot) (v m b : Nat) :
    ((idxDiscardCore g p s v).refIdx m b).Nodup := by
  unfold idxDiscardCore
  split
  · exact idx_symIndexDiscard_refIdx_nodup (setPar g v none) _ _ _ _ (hi.ref_nodup m b)
  · exact hi.ref_nodup m b

theorem idx_st_discardCore {k : Nat → Kind} {g : G} {p : Nat} {s : Slot} {v : Nat}
    (h : IdxSt k g) (hv : v ∈ g.kids p s) : IdxSt k (idxDiscardCore g p s v) := by
  obtain ⟨hi, hs, hk⟩ := h
  refine ⟨⟨?_, ?_, ?_, ?_⟩, ⟨?_, ?_⟩, ?_⟩
  · intro m nm y
    rw [idx_discardCore_nameIdx hi hs hv, idx_discardCore_mem_syms hs, idx_discardCore_name]
    have h1 := hi.name_iff m nm y
    clear hi hs hk
    grind
  · intro m b y
    rw [idx_discardCore_refIdx hi hs hv, idx_discardCore_mem_syms hs, idx_discardCore_payload]
    have h1 := hi.ref_iff m b y
    clear hi hs hk
    grind
  · exact fun m nm => idx_discardCore_nameIdx_nodup hi _ _ _ _ _
  · exact fun m b => idx_discardCore_refIdx_nodup hi _ _ _ _ _
  · intro c m s' hs' hc
    rw [idx_discardCore_kind]
    refine hs.kind_ok c m s' hs' ?_
    rw [idx_discardCore_kids] at hc
    split at hc
    · rename_i h; obtain ⟨rfl, rfl⟩ := h; exact List.mem_of_mem_erase hc
    · exact hc
  · intro m
    rw [idx_discardCore_kids]
    split
    · rename_i h; obtain ⟨rfl, h2⟩ := h; subst h2; exact (hs.syms_nodup m).erase _
    · exact hs.syms_nodup m
  · rw [idx_discardCore_kind]; exact hk

theorem idx_st_setDiscard {k : Nat → Kind} {g g' : G} {p : Nat} {s : Slot} {v : Nat}
    (h : IdxSt k g) (hd : setDiscard g p s v = .ok g') : IdxSt k g' := by
  rcases idx_setDiscard_spec hd with ⟨_, rfl⟩ | ⟨hv, hoc⟩
  · exact h
  · exact idx_st_oc hoc (idx_st_discardCore h hv)

/-! ### `setAdd` -/

/-- the state after the second half of `setAdd`, up to the UUID table -/
def idxAddCore (g : G) (p : Nat) (s : Slot) (v : Nat) : G :=
  kidsInsert (if s = .secs ∨ s = .syms ∨ s = .proxies then symIndexAdd (setPar g v (some p)) p v
              else setPar g v (some p)) p s v

theorem idx_setAdd_spec {g g' : G} {p : Nat} {s : Slot} {v : Nat} (h : setAdd g p s v = .ok g') :
    ∃ g1, (match g.par v with
           | some q => setDiscard g q s v
           | none => .ok g) = .ok g1 ∧ IdxOC (idxAddCore g1 p s v) g' := by
  unfold setAdd at h
  split at h
  · cases h
  · rename_i g1 h1
    refine ⟨g1, h1, ?_⟩
    dsimp only at h
    injection h with h; subst h
    refine idx_oc_kidsInsert ?_ _ _ _
    have hgen : ∀ g3 : G, IdxOC g3 (match irOf g3 p with
        | some i => cacheAdd g3 i v
        | none => g3) := by
      intro g3; split
      · exact idx_oc_cacheAdd _ _ _
      · exact idx_oc_refl _
    exact hgen _

@[simp] theorem idx_addCore_kind (g : G) (p : Nat) (s : Slot) (v : Nat) :
    (idxAddCore g p s v).kind = g.kind := by
  unfold idxAddCore; split <;> simp [kidsInsert, setPar]
@[simp] theorem idx_addCore_name (g : G) (p : Nat) (s : Slot) (v : Nat) :
    (idxAddCore g p s v).name = g.name := by
  unfold idxAddCore; split <;> simp [kidsInsert, setPar]
@[simp] theorem idx_addCore_payload (g : G) (p : Nat) (s : Slot) (v : Nat) :
    (idxAddCore g p s v).payload = g.payload := by
  unfold idxAddCore; split <;> simp [kidsInsert, setPar]

theorem idx_addCore_kids (g : G) (p : Nat) (s : Slot) (v m : Nat) (s' : Slot) :
    (idxAddCore g p s v).kids m s' =
      if m = p ∧ s' = s then setInsertNat (g.kids p s) v else g.kids m s' := by
  unfold idxAddCore; split <;> simp [kidsInsert, setPar]

theorem idx_addCore_mem_kids (g : G) (p : Nat) (s : Slot) (v m : Nat) (s' : Slot) (y : Nat) :
    y ∈ (idxAddCore g p s v).kids m s' ↔ (y ∈ g.kids m s' ∨ (s' = s ∧ m = p ∧ y = v)) := by
  rw [idx_addCore_kids]
  by_cases hc : m = p ∧ s' = s
  · obtain ⟨rfl, rfl⟩ := hc
    simp [idx_mem_setInsertNat]
  · simp [hc]
    intro h1 h2; exact absurd ⟨h2, h1⟩ hc

theorem idx_addCore_nameIdx (g : G) {p : Nat} {s : Slot} {v : Nat}
    (hv : slotOf (g.kind v) = some s) (m nm y : Nat) :
    y ∈ (idxAddCore g p s v).nameIdx m nm ↔
      (y ∈ g.nameIdx m nm ∨ (s = .syms ∧ m = p ∧ nm = g.name v ∧ y = v)) := by
  have hk : g.kind v = .symbol ↔ s = .syms := by
    rw [← idx_slotOf_syms, hv]; constructor
    · intro h; injection h
    · rintro rfl; rfl
  unfold idxAddCore
  split
  · show y ∈ (symIndexAdd (setPar g v (some p)) p v).nameIdx m nm ↔ _
    rw [idx_symIndexAdd_nameIdx (setPar g v (some p))]
    show (y ∈ g.nameIdx m nm ∨ (g.kind v = .symbol ∧ _)) ↔ _
    rw [hk]
    rfl
  · rename_i hc
    have : s ≠ .syms := fun h => hc (Or.inr (Or.inl h))
    show y ∈ g.nameIdx m nm ↔ _
    simp [this]

theorem idx_addCore_refIdx (g : G) {p : Nat} {s : Slot} {v : Nat}
    (hv : slotOf (g.kind v) = some s) (m b y : Nat) :
    y ∈ (idxAddCore g p s v).refIdx m b ↔
      (y ∈ g.refIdx m b ∨ (s = .syms ∧ m = p ∧ g.payload v = .block b ∧ y = v)) := by
  have hk : g.kind v = .symbol ↔ s = .syms := by
    rw [← idx_slotOf_syms, hv]; constructor
    · intro h; injection h
    · rintro rfl; rfl
  unfold idxAddCore
  split
  · show y ∈ (symIndexAdd (setPar g v (some p)) p v).refIdx m b ↔ _
    rw [idx_symIndexAdd_refIdx (setPar g v (some p))]
    show (y ∈ g.refIdx m b ∨ (g.kind v = .symbol ∧ _)) ↔ _
    rw [hk]
    rfl
  · rename_i hc
    have : s ≠ .syms := fun h => hc (Or.inr (Or.inl h))
    show y ∈ g.refIdx m b ↔ _
    simp [this]

theorem idx_addCore_nameIdx_nodup {g : G} (hi : IndexInv g) (p : Nat) (s : Slot) (v m nm : Nat) :
    ((idxAddCore g p s v).nameIdx m nm).Nodup := by
  unfold idxAddCore
  split
  · exact idx_symIndexAdd_nameIdx_nodup (setPar g v (some p)) _ _ _ _ (hi.name_nodup m nm)
  · exact hi.name_nodup m nm

theorem idx_addCore_refIdx_nodup {g : G} (hi : IndexInv g) (p : Nat) (s : Slot) (v m b : Nat) :
    ((idxAddCore g p s v).refIdx m b).Nodup := by
  unfold idxAddCore
  split
  · exact idx_symIndexAdd_refIdx_nodup (setPar g v (some p)) _ _ _ _ (hi.ref_nodup m b)
  · exact hi.ref_nodup m b

theorem idx_st_addCore {k : Nat → Kind} {g : G} {p : Nat} {s : Slot} {v : Nat}
    (h : IdxSt k g) (hv : slotOf (k v) = some s) : IdxSt k (idxAddCore g p s v) := by
  obtain ⟨hi, hs, hk⟩ := h
  subst hk
  have hkv : g.kind v = .symbol ↔ s = .syms := by
    rw [← idx_slotOf_syms, hv]; constructor
    · intro h; injection h
    · rintro rfl; rfl
  refine ⟨⟨?_, ?_, ?_, ?_⟩, ⟨?_, ?_⟩, ?_⟩
  · intro m nm y
    rw [idx_addCore_nameIdx g hv, idx_addCore_mem_kids, idx_addCore_name]
    have h1 := hi.name_iff m nm y
    clear hi hs hv hkv
    grind
  · intro m b y
    rw [idx_addCore_refIdx g hv, idx_addCore_mem_kids, idx_addCore_payload]
    have h1 := hi.ref_iff m b y
    clear hi hs hv hkv
    grind
  · exact fun m nm => idx_addCore_nameIdx_nodup hi _ _ _ _ _
  · exact fun m b => idx_addCore_refIdx_nodup hi _ _ _ _ _
  · intro c m s' hs' hc
    rw [idx_addCore_kind]
    rw [idx_addCore_mem_kids] at hc
    rcases hc with hc | ⟨rfl, rfl, rfl⟩
    · exact hs.kind_ok c m s' hs' hc
    · exact hkv
  · intro m
    rw [idx_addCore_kids]
    split
    · rename_i h; obtain ⟨rfl, h2⟩ := h; subst h2; exact idx_nodup_setInsertNat (hs.syms_nodup m)
    · exact hs.syms_nodup m
  · rw [idx_addCore_kind]

theorem idx_st_setAdd {k : Nat → Kind} {g g' : G} {p : Nat} {s : Slot} {v : Nat}
    (h : IdxSt k g) (hv : slotOf (k v) = some s) (ha : setAdd g p s v = .ok g') : IdxSt k g' := by
  obtain ⟨g1, h1, hoc⟩ := idx_setAdd_spec ha
  refine idx_st_oc hoc (idx_st_addCore ?_ hv)
  split at h1
  · exact idx_st_setDiscard h h1
  · injection h1 with h1; subst h1; exact h

/-! ### folds -/

theorem idx_foldE_inv (P : G → Prop) (f : G → Nat → Except Exc G) (l : List Nat)
    (hf : ∀ g x g', x ∈ l → P g → f g x = .ok g' → P g') (g g' : G) (hp : P g)
    (h : foldE f l g = .ok g') : P g' := by
  induction l generalizing g with
  | nil => simp [foldE] at h; subst h; exact hp
  | cons x xs ih =>
    simp only [foldE] at h
    split at h
    · rename_i g1 h1
      exact ih (fun g y g' hy => hf g y g' (List.mem_cons_of_mem _ hy)) g1
        (hf g x g1 List.mem_cons_self hp h1) h
    · cases h

theorem idx_foldl_inv (P : G → Prop) (f : G → Nat → G) (l : List Nat)
    (hf : ∀ g x, x ∈ l → P g → P (f g x)) (g : G) (hp : P g) : P (l.foldl f g) := by
  induction l generalizing g with
  | nil => exact hp
  | cons x xs ih =>
    exact ih (fun g y hy => hf g y (List.mem_cons_of_mem _ hy)) _ (hf g x List.mem_cons_self hp)

/-! ### primitives that do not touch the index slots -/

theorem idx_st_setPar {k : Nat → Kind} {g : G} (h : IdxSt k g) (v : Nat) (x : Option Nat) :
    IdxSt k (setPar g v x) := by
  obtain ⟨hi, hs, hk⟩ := h
  exact ⟨⟨hi.name_iff, hi.ref_iff, hi.name_nodup, hi.ref_nodup⟩, ⟨hs.kind_ok, hs.syms_nodup⟩, hk⟩

theorem idx_st_kidsSet_other {k : Nat → Kind} {g : G} (h : IdxSt k g) (p : Nat) {s : Slot}
    (hs' : s = .mods ∨ s = .bis ∨ s = .blocks) (l : List Nat) : IdxSt k (kidsSet g p s l) := by
  obtain ⟨hi, hs, hk⟩ := h
  have hkids : ∀ m s', (s' = .secs ∨ s' = .syms ∨ s' = .proxies) →
      (kidsSet g p s l).kids m s' = g.kids m s' := by
    intro m s' h'
    have : ¬ (m = p ∧ s' = s) := by
      rintro ⟨_, rfl⟩
      rcases hs' with rfl | rfl | rfl <;> simp at h'
    simp [kidsSet, this]
  have hsy := fun m => hkids m .syms (Or.inr (Or.inl rfl))
  refine ⟨⟨?_, ?_, hi.name_nodup, hi.ref_nodup⟩, ⟨?_, ?_⟩, hk⟩
  · intro m nm y; rw [hsy]; exact hi.name_iff m nm y
  · intro m b y; rw [hsy]; exact hi.ref_iff m b y
  · intro c m s' h' hc; rw [hkids m s' h'] at hc; exact hs.kind_ok c m s' h' hc
  · intro m; rw [hsy]; exact hs.syms_nodup m

theorem idx_st_kidsInsert_other {k : Nat → Kind} {g : G} (h : IdxSt k g) (p : Nat) {s : Slot}
    (hs' : s = .mods ∨ s = .bis ∨ s = .blocks) (v : Nat) : IdxSt k (kidsInsert g p s v) :=
  idx_st_kidsSet_other h p hs' _

/-! ### `blkUpdate`, `nodeSetAdd` -/

theorem idx_st_blkUpdate {k : Nat → Kind} {g g' : G} {p : Nat} {vs : List Nat}
    (h : IdxSt k g) (hb : blkUpdate g p vs = .ok g') : IdxSt k g' := by
  unfold blkUpdate at hb
  dsimp only at hb
  split at hb
  · cases hb
  · rename_i g1 h1
    injection hb with hb; subst hb
    refine idx_foldl_inv (IdxSt k) _ _ (fun g x _ hg => idx_st_kidsInsert_other hg p (Or.inr (Or.inr rfl)) x) g1 ?_
    refine idx_foldE_inv (IdxSt k) _ _ ?_ g g1 h h1
    intro g0 x g0' _ h0 hx
    split at hx
    · cases hx
    · rename_i g2 h2
      injection hx with hx; subst hx
      have h2' : IdxSt k g2 := by
        split at h2
        · exact idx_st_setDiscard h0 h2
        · injection h2 with h2; subst h2; exact h0
      split
      · exact idx_st_oc (idx_oc_cacheAdd _ _ _) (idx_st_setPar h2' _ _)
      · exact idx_st_setPar h2' _ _

theorem idx_st_nodeSetAdd {k : Nat → Kind} {g g' : G} {p : Nat} {s : Slot} {v : Nat}
    (h : IdxSt k g) (hv : slotOf (k v) = some s) (ha : nodeSetAdd g p s v = .ok g') : IdxSt k g' := by
  unfold nodeSetAdd at ha
  split at ha
  · exact idx_st_blkUpdate h ha
  · exact idx_st_setAdd h hv ha

/-! ### the module list -/

theorem idx_st_modHookRemove {k : Nat → Kind} {g g' : G} {i v : Nat}
    (h : IdxSt k g) (hr : modHookRemove g i v = .ok g') : IdxSt k g' :=
  idx_st_oc (idx_oc_cacheRemove hr) (idx_st_setPar h _ _)

theorem idx_st_modListRemove {k : Nat → Kind} {g g' : G} {i v : Nat}
    (h : IdxSt k g) (hr : modListRemove g i v = .ok g') : IdxSt k g' := by
  unfold modListRemove at hr
  split at hr
  · split at hr
    · rename_i g1 h1
      injection hr with hr; subst hr
      exact idx_st_kidsSet_other (idx_st_modHookRemove h h1) _ (Or.inl rfl) _
    · cases hr
  · cases hr

theorem idx_st_modHookAdd {k : Nat → Kind} {g g' : G} {i v : Nat}
    (h : IdxSt k g) (hr : modHookAdd g i v = .ok g') : IdxSt k g' := by
  unfold modHookAdd at hr
  split at hr
  · cases hr
  · rename_i g1 h1
    injection hr with hr; subst hr
    refine idx_st_oc (idx_oc_cacheAdd _ _ _) (idx_st_setPar ?_ _ _)
    split at h1
    · exact idx_st_modListRemove h h1
    · injection h1 with h1; subst h1; exact h

theorem idx_st_modInsert {k : Nat → Kind} {g g' : G} {i : Nat} {j : Int} {v : Nat}
    (h : IdxSt k g) (hr : modInsert g i j v = .ok g') : IdxSt k g' := by
  unfold modInsert at hr
  split at hr
  · rename_i g1 h1
    injection hr with hr; subst hr
    exact idx_st_kidsSet_other (idx_st_modHookAdd h h1) _ (Or.inl rfl) _
  · cases hr

theorem idx_st_modAppend {k : Nat → Kind} {g g' : G} {i v : Nat}
    (h : IdxSt k g) (hr : modAppend g i v = .ok g') : IdxSt k g' :=
  idx_st_modInsert h hr

theorem idx_st_modDelItem {k : Nat → Kind} {g g' : G} {i : Nat} {j : Int}
    (h : IdxSt k g) (hr : modDelItem g i j = .ok g') : IdxSt k g' := by
  unfold modDelItem at hr
  split at hr
  · cases hr
  · split at hr
    · cases hr
    · split at hr
      · rename_i g1 h1
        injection hr with hr; subst hr
        exact idx_st_kidsSet_other (idx_st_modHookRemove h h1) _ (Or.inl rfl) _
      · cases hr

theorem idx_st_modSetItem {k : Nat → Kind} {g g' : G} {i : Nat} {j : Int} {v : Nat}
    (h : IdxSt k g) (hr : modSetItem g i j v = .ok g') : IdxSt k g' := by
  unfold modSetItem at hr
  split at hr
  · cases hr
  · split at hr
    · cases hr
    · split at hr
      · cases hr
      · split at hr
        · cases hr
        · rename_i g1 h1
          split at hr
          · cases hr
          · rename_i g2 h2
            injection hr with hr; subst hr
            exact idx_st_kidsSet_other (idx_st_modHookAdd (idx_st_modHookRemove h h1) h2) _ (Or.inl rfl) _

theorem idx_st_modReverse {k : Nat → Kind} {g : G} (h : IdxSt k g) (i : Nat) :
    IdxSt k (modReverse g i) :=
  idx_st_kidsSet_other h _ (Or.inl rfl) _

theorem idx_st_modClear {k : Nat → Kind} {g g' : G} {i : Nat}
    (h : IdxSt k g) (hr : modClear g i = .ok g') : IdxSt k g' :=
  idx_foldE_inv (IdxSt k) _ _ (fun _ _ _ _ hg hx => idx_st_modDelItem hg hx) g g' h hr

/-! ### `setParent` -/

theorem idx_st_setParent {k : Nat → Kind} {g g' : G} {c : Nat} {p : Option Nat}
    (h : IdxSt k g) (hr : setParent g c p = .ok g') : IdxSt k g' := by
  unfold setParent at hr
  split at hr
  · cases hr
  · rename_i s hs
    split at hr
    · cases hr
    · rename_i g1 h1
      have hg1 : IdxSt k g1 := by
        split at h1
        · split at h1
          · exact idx_st_modListRemove h h1
          · exact idx_st_setDiscard h h1
        · injection h1 with h1; subst h1; exact h
      split at hr
      · injection hr with hr; subst hr; exact hg1
      · split at hr
        · exact idx_st_modAppend hg1 hr
        · refine idx_st_nodeSetAdd hg1 ?_ hr
          rw [← h.2.2]; exact hs

/-! ### `setName`, `setPayload` (need `ForestInv` of the pre-state) -/

theorem idx_setName_none {g : G} {v : Nat} (nm : Nat) (hp : g.par v = none) :
    setName g v nm = { g with name := fun x => if x = v then nm else g.name x } := by
  simp only [setName, hp]

theorem idx_setName_some {g : G} {v m0 : Nat} (nm : Nat) (hp : g.par v = some m0) :
    setName g v nm =
      symIndexAdd { symIndexDiscard g m0 v with name := fun x => if x = v then nm else g.name x } m0 v := by
  simp only [setName, hp, idx_symIndexDiscard_par, idx_symIndexDiscard_name]

theorem idx_setPayload_none {g : G} {v : Nat} (pl : Payload) (hp : g.par v = none) :
    setPayload g v pl = { g with payload := fun x => if x = v then pl else g.payload x } := by
  simp only [setPayload, hp]

theorem idx_setPayload_some {g : G} {v m0 : Nat} (pl : Payload) (hp : g.par v = some m0) :
    setPayload g v pl =
      symIndexAdd { symIndexDiscard g m0 v with payload := fun x => if x = v then pl else g.payload x } m0 v := by
  simp only [setPayload, hp, idx_symIndexDiscard_par, idx_symIndexDiscard_payload]

theorem idx_mem_syms_of_forest {g : G} (hf : ForestInv g) (v m : Nat) :
    v ∈ g.kids m .syms ↔ (g.par v = some m ∧ g.kind v = .symbol) := by
  rw [hf.mem_iff, idx_slotOf_syms]

theorem idx_setName {g : G} (hf : ForestInv g) (hi : IndexInv g) (v nm : Nat) :
    IndexInv (setName g v nm) := by
  cases hp : g.par v with
  | none =>
    rw [idx_setName_none nm hp]
    refine ⟨?_, hi.ref_iff, hi.name_nodup, hi.ref_nodup⟩
    intro m k y
    show y ∈ g.nameIdx m k ↔ (y ∈ g.kids m .syms ∧ (if y = v then nm else g.name y) = k)
    have h1 := hi.name_iff m k y
    have h2 := idx_mem_syms_of_forest hf v m
    rw [hp] at h2
    clear hf hi
    grind
  | some m0 =>
    rw [idx_setName_some nm hp]
    refine ⟨?_, ?_, ?_, ?_⟩
    · intro m k y
      rw [idx_symIndexAdd_nameIdx, idx_symIndexAdd_kids, idx_symIndexAdd_name]
      show (y ∈ (symIndexDiscard g m0 v).nameIdx m k ∨
          ((symIndexDiscard g m0 v).kind v = .symbol ∧ m = m0 ∧ k = (if v = v then nm else g.name v) ∧ y = v)) ↔
        (y ∈ (symIndexDiscard g m0 v).kids m .syms ∧ (if y = v then nm else g.name y) = k)
      rw [idx_symIndexDiscard_nameIdx _ _ _ _ _ _ (hi.name_nodup m k), idx_symIndexDiscard_kind,
        idx_symIndexDiscard_kids]
      have h1 := hi.name_iff m k y
      have h2 := idx_mem_syms_of_forest hf v m
      rw [hp] at h2
      clear hf hi
      grind
    · intro m b y
      rw [idx_symIndexAdd_refIdx, idx_symIndexAdd_kids, idx_symIndexAdd_payload]
      show (y ∈ (symIndexDiscard g m0 v).refIdx m b ∨
          ((symIndexDiscard g m0 v).kind v = .symbol ∧ m = m0 ∧ (symIndexDiscard g m0 v).payload v = .block b ∧ y = v)) ↔
        (y ∈ (symIndexDiscard g m0 v).kids m .syms ∧ (symIndexDiscard g m0 v).payload y = .block b)
      rw [idx_symIndexDiscard_refIdx _ _ _ _ _ _ (hi.ref_nodup m b), idx_symIndexDiscard_kind,
        idx_symIndexDiscard_kids, idx_symIndexDiscard_payload]
      have h1 := hi.ref_iff m b y
      have h2 := idx_mem_syms_of_forest hf v m
      rw [hp] at h2
      clear hf hi
      grind
    · intro m k
      exact idx_symIndexAdd_nameIdx_nodup _ _ _ _ _
        (idx_symIndexDiscard_nameIdx_nodup g _ _ _ _ (hi.name_nodup m k))
    · intro m b
      exact idx_symIndexAdd_refIdx_nodup _ _ _ _ _
        (idx_symIndexDiscard_refIdx_nodup g _ _ _ _ (hi.ref_nodup m b))

theorem idx_setPayload {g : G} (hf : ForestInv g) (hi : IndexInv g) (v : Nat) (pl : Payload) :
    IndexInv (setPayload g v pl) := by
  cases hp : g.par v with
  | none =>
    rw [idx_setPayload_none pl hp]
    refine ⟨hi.name_iff, ?_, hi.name_nodup, hi.ref_nodup⟩
    intro m b y
    show y ∈ g.refIdx m b ↔ (y ∈ g.kids m .syms ∧ (if y = v then pl else g.payload y) = .block b)
    have h1 := hi.ref_iff m b y
    have h2 := idx_mem_syms_of_forest hf v m
    rw [hp] at h2
    clear hf hi
    grind
  | some m0 =>
    rw [idx_setPayload_some pl hp]
    refine ⟨?_, ?_, ?_, ?_⟩
    · intro m k y
      rw [idx_symIndexAdd_nameIdx, idx_symIndexAdd_kids, idx_symIndexAdd_name]
      show (y ∈ (symIndexDiscard g m0 v).nameIdx m k ∨
          ((symIndexDiscard g m0 v).kind v = .symbol ∧ m = m0 ∧ k = (symIndexDiscard g m0 v).name v ∧ y = v)) ↔
        (y ∈ (symIndexDiscard g m0 v).kids m .syms ∧ (symIndexDiscard g m0 v).name y = k)
      rw [idx_symIndexDiscard_nameIdx _ _ _ _ _ _ (hi.name_nodup m k), idx_symIndexDiscard_kind,
        idx_symIndexDiscard_kids, idx_symIndexDiscard_name]
      have h1 := hi.name_iff m k y
      have h2 := idx_mem_syms_of_forest hf v m
      rw [hp] at h2
      clear hf hi
      grind
    · intro m b y
      rw [idx_symIndexAdd_refIdx, idx_symIndexAdd_kids, idx_symIndexAdd_payload]
      show (y ∈ (symIndexDiscard g m0 v).refIdx m b ∨
          ((symIndexDiscard g m0 v).kind v = .symbol ∧ m = m0 ∧ (if v = v then pl else g.payload v) = .block b ∧ y = v)) ↔
        (y ∈ (symIndexDiscard g m0 v).kids m .syms ∧ (if y = v then pl else g.payload y) = .block b)
      rw [idx_symIndexDiscard_refIdx _ _ _ _ _ _ (hi.ref_nodup m b), idx_symIndexDiscard_kind,
        idx_symIndexDiscard_kids]
      have h1 := hi.ref_iff m b y
      have h2 := idx_mem_syms_of_forest hf v m
      rw [hp] at h2
      clear hf hi
      grind
    · intro m k
      exact idx_symIndexAdd_nameIdx_nodup _ _ _ _ _
        (idx_symIndexDiscard_nameIdx_nodup g _ _ _ _ (hi.name_nodup m k))
    · intro m b
      exact idx_symIndexAdd_refIdx_nodup _ _ _ _ _
        (idx_symIndexDiscard_refIdx_nodup g _ _ _ _ (hi.ref_nodup m b))

/-! ### allocation (needs `ForestInv` of the pre-state: the fresh id is linked nowhere) -/

theorem idx_forest_lt {g : G} (hf : ForestInv g) {c p : Nat} {s : Slot} (h : c ∈ g.kids p s) :
    c < g.n ∧ p < g.n :=
  hf.alloc c p ((hf.mem_iff c p s).1 h).1

/-- `alloc`, followed by an arbitrary assignment of name / payload of the fresh node -/
theorem idx_st_alloc {g : G} (hf : ForestInv g) (hi : IndexInv g) (k : Kind) (u : Nat)
    (nmf : Nat → Nat) (plf : Nat → Payload)
    (hnm : ∀ x, x ≠ g.n → nmf x = g.name x) (hpl : ∀ x, x ≠ g.n → plf x = g.payload x) :
    IdxSt (alloc g k u).1.kind { (alloc g k u).1 with name := nmf, payload := plf } := by
  have hkids : ∀ m s y, y ∈ (alloc g k u).1.kids m s ↔ y ∈ g.kids m s := by
    intro m s y
    show y ∈ (if m = g.n then [] else g.kids m s) ↔ _
    split
    · rename_i h; subst h
      simp only [List.not_mem_nil, false_iff]
      intro hy; exact absurd (idx_forest_lt hf hy).2 (Nat.lt_irrefl _)
    · rfl
  have hkids' : ∀ m s, (alloc g k u).1.kids m s = if m = g.n then [] else g.kids m s := fun _ _ => rfl
  have hside := idx_side_of_forest hf
  refine ⟨⟨?_, ?_, hi.name_nodup, hi.ref_nodup⟩, ⟨?_, ?_⟩, rfl⟩
  · intro m nm y
    show y ∈ g.nameIdx m nm ↔ (y ∈ (alloc g k u).1.kids m .syms ∧ nmf y = nm)
    rw [hkids, hi.name_iff]
    constructor
    · rintro ⟨h1, h2⟩
      exact ⟨h1, by rw [hnm y (Nat.ne_of_lt (idx_forest_lt hf h1).1)]; exact h2⟩
    · rintro ⟨h1, h2⟩
      exact ⟨h1, by rw [← hnm y (Nat.ne_of_lt (idx_forest_lt hf h1).1)]; exact h2⟩
  · intro m b y
    show y ∈ g.refIdx m b ↔ (y ∈ (alloc g k u).1.kids m .syms ∧ plf y = .block b)
    rw [hkids, hi.ref_iff]
    constructor
    · rintro ⟨h1, h2⟩
      exact ⟨h1, by rw [hpl y (Nat.ne_of_lt (idx_forest_lt hf h1).1)]; exact h2⟩
    · rintro ⟨h1, h2⟩
      exact ⟨h1, by rw [← hpl y (Nat.ne_of_lt (idx_forest_lt hf h1).1)]; exact h2⟩
  · intro c m s hs hc
    have hc' : c ∈ g.kids m s := (hkids m s c).1 hc
    show (if c = g.n then k else g.kind c) = .symbol ↔ _
    rw [if_neg (Nat.ne_of_lt (idx_forest_lt hf hc').1)]
    exact hside.kind_ok c m s hs hc'
  · intro m
    show (if m = g.n then [] else g.kids m .syms).Nodup
    split
    · exact List.nodup_nil
    · exact hside.syms_nodup m

theorem idx_st_alloc_plain {g : G} (hf : ForestInv g) (hi : IndexInv g) (k : Kind) (u : Nat) :
    IdxSt (alloc g k u).1.kind (alloc g k u).1 :=
  idx_st_alloc hf hi k u g.name g.payload (fun _ _ => rfl) (fun _ _ => rfl)

theorem idx_oc_mkIR (g : G) (u : Nat) : IdxOC (alloc g .ir u).1 (mkIR g u) := ⟨_, rfl⟩

/-! ### the children arguments of a constructor -/

theorem idx_st_mk_fold {k : Nat → Kind} (v : Nat) (kids : List (Slot × List Nat))
    (hk : ∀ sv ∈ kids, ∀ x ∈ sv.2, slotOf (k x) = some sv.1)
    (acc : Except Exc G) (hacc : ∀ g, acc = .ok g → IdxSt k g) (g' : G)
    (h : kids.foldl (fun acc x =>
            bindE acc fun g_1 =>
              if x.fst = Slot.blocks then blkUpdate g_1 v x.snd
              else foldE (fun g_2 x_1 => setAdd g_2 v x.fst x_1) x.snd g_1) acc = .ok g') :
    IdxSt k g' := by
  induction kids generalizing acc with
  | nil => exact hacc g' h
  | cons sv rest ih =>
    rw [List.foldl_cons] at h
    refine ih (fun sv' h' => hk sv' (List.mem_cons_of_mem _ h')) _ ?_ h
    intro g1 h1
    cases acc with
    | error e => simp [bindE] at h1
    | ok g0 =>
      simp only [bindE] at h1
      have hg0 := hacc g0 rfl
      split at h1
      · exact idx_st_blkUpdate hg0 h1
      · exact idx_foldE_inv (IdxSt k) _ _
          (fun g x g' hx hg ha => idx_st_setAdd hg (hk sv List.mem_cons_self x hx) ha) g0 g1 hg0 h1

/-! ### one step -/

theorem idx_step {g g' : G} {op : Op} (hf : ForestInv g) (hi : IndexInv g) (hop : OpOK g op)
    (hs : step g op = .ok g') : IndexInv g' := by
  have hst : IdxSt g.kind g := ⟨hi, idx_side_of_forest hf, rfl⟩
  cases op with
  | mkIR u =>
    simp only [step] at hs
    injection hs with hs; subst hs
    exact (idx_st_oc (idx_oc_mkIR g u) (idx_st_alloc_plain hf hi .ir u)).1
  | mk k u kids parent =>
    simp only [step] at hs
    obtain ⟨_, _, hkids, _⟩ := hop
    split at hs
    · cases hs
    · unfold bindE at hs
      split at hs
      · rename_i g2 h2
        have hg2 : IdxSt (alloc g k u).1.kind g2 := by
          refine idx_st_mk_fold _ kids ?_ _ ?_ g2 h2
          · intro sv hsv x hx
            obtain ⟨hlt, hslot, _⟩ := hkids sv hsv x hx
            show slotOf (if x = g.n then k else g.kind x) = some sv.1
            rw [if_neg (Nat.ne_of_lt hlt)]; exact hslot
          · intro g0 h0
            injection h0 with h0; subst h0
            exact idx_st_alloc_plain hf hi k u
        split at hs
        · exact (idx_st_setParent hg2 hs).1
        · injection hs with hs; subst hs; exact hg2.1
      · cases hs
  | mkSym u nm pl parent =>
    simp only [step] at hs
    have hg2 := idx_st_alloc hf hi .symbol u
      (fun x => if x = (alloc g .symbol u).2 then nm else (alloc g .symbol u).1.name x)
      (fun x => if x = (alloc g .symbol u).2 then pl else (alloc g .symbol u).1.payload x)
      (fun x hx => if_neg hx) (fun x hx => if_neg hx)
    split at hs
    · exact (idx_st_setParent hg2 hs).1
    · injection hs with hs; subst hs; exact hg2.1
  | setParent c p =>
    simp only [step] at hs
    exact (idx_st_setParent hst hs).1
  | add p s v =>
    simp only [step] at hs
    exact (idx_st_nodeSetAdd hst hop.2.2.2.1 hs).1
  | discard p s v =>
    simp only [step] at hs
    exact (idx_st_setDiscard hst hs).1
  | remove p s v =>
    simp only [step] at hs
    split at hs
    · exact (idx_st_setDiscard hst hs).1
    · cases hs
  | pop p s v =>
    simp only [step] at hs
    split at hs
    · cases hs
    · split at hs
      · exact (idx_st_setDiscard hst hs).1
      · cases hs
  | clear p s order =>
    simp only [step] at hs
    split at hs
    · exact (idx_foldE_inv (IdxSt g.kind) _ _ (fun _ _ _ _ hg hx => idx_st_setDiscard hg hx) g g' hst hs).1
    · cases hs
  | update p s vs =>
    simp only [step] at hs
    split at hs
    · exact (idx_st_blkUpdate hst hs).1
    · exact (idx_foldE_inv (IdxSt g.kind) _ _
        (fun _ x _ hx hg ha => idx_st_setAdd hg (hop.2.2 x hx).2.2.1 ha) g g' hst hs).1
  | isub p s vs =>
    simp only [step] at hs
    exact (idx_foldE_inv (IdxSt g.kind) _ _ (fun _ _ _ _ hg hx => idx_st_setDiscard hg hx) g g' hst hs).1
  | iand p s vs order =>
    simp only [step] at hs
    split at hs
    · exact (idx_foldE_inv (IdxSt g.kind) _ _ (fun _ _ _ _ hg hx => idx_st_setDiscard hg hx) g g' hst hs).1
    · cases hs
  | ixor p s vs =>
    simp only [step] at hs
    refine (idx_foldE_inv (IdxSt g.kind) _ _ ?_ g g' hst hs).1
    intro g0 x g0' hx hg ha
    split at ha
    · exact idx_st_setDiscard hg ha
    · exact idx_st_nodeSetAdd hg (hop.2.2 x hx).2.2.1 ha
  | insert i k v =>
    simp only [step] at hs
    exact (idx_st_modInsert hst hs).1
  | append i v =>
    simp only [step] at hs
    exact (idx_st_modAppend hst hs).1
  | extend i vs =>
    simp only [step] at hs
    exact (idx_foldE_inv (IdxSt g.kind) _ _ (fun _ _ _ _ hg hx => idx_st_modAppend hg hx) g g' hst hs).1
  | delItem i k =>
    simp only [step] at hs
    exact (idx_st_modDelItem hst hs).1
  | setItem i k v =>
    simp only [step] at hs
    exact (idx_st_modSetItem hst hs).1
  | listRemove i v =>
    simp only [step] at hs
    exact (idx_st_modListRemove hst hs).1
  | listPop i k =>
    simp only [step] at hs
    split at hs
    · cases hs
    · exact (idx_st_modDelItem hst hs).1
  | reverse i =>
    simp only [step] at hs
    injection hs with hs; subst hs
    exact (idx_st_modReverse hst i).1
  | listClear i =>
    simp only [step] at hs
    exact (idx_st_modClear hst hs).1
  | setName v nm =>
    simp only [step] at hs
    injection hs with hs; subst hs
    exact idx_setName hf hi v nm
  | setPayload v pl =>
    simp only [step] at hs
    injection hs with hs; subst hs
    exact idx_setPayload hf hi v pl

end Gtirb.Forest
