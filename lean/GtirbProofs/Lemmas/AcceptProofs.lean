import GtirbModel.MsgWF
import GtirbProofs.Lemmas.ProtoProofs
/-! Helper lemmas for the acceptance half of C02: the staged reader accepts every
schema-valid, referentially closed message (`closedMsg`). The structure follows the
`_toMsg` lemmas of ProtoProofs.lean (reader on the image of the writer), generalised
from `toMsg v` to an arbitrary message: each stage succeeds and extends the UUID table
by exactly the node kinds the message part defines. -/
namespace Gtirb.Msg
open Gtirb

/-- closes `∃ v, .ok (a, e) = .ok (v, e)` after the reader stage has been evaluated -/
macro "close_ok" : tactic => `(tactic| first | done | exact ⟨_, rfl⟩ | simp)

theorem nodupM_iff {α : Type} [DecidableEq α] (l : List α) : nodupM l = true ↔ l.Nodup := by
  induction l with
  | nil => simp [nodupM]
  | cons x xs ih => simp [nodupM, ih]

/-! ### node kinds of a message in decode order -/

def mblockKind (b : MBlock) : Option (U × KindTag) :=
  match b.value with
  | some (.code c) => some (c.uuid, .code)
  | some (.data d) => some (d.uuid, .data)
  | none => none

def mblockKinds (bs : List MBlock) : Env := bs.filterMap mblockKind
def mintervalKinds (x : MByteInterval) : Env := mblockKinds x.blocks ++ [(x.uuid, .interval)]
def msectionKinds (s : MSection) : Env :=
  (s.uuid, .section) :: s.byteIntervals.flatMap mintervalKinds
def mmoduleKinds (m : MModule) : Env :=
  (m.uuid, .module) :: m.proxies.map (fun p => (p, KindTag.proxy)) ++ m.sections.flatMap msectionKinds
    ++ m.symbols.map (fun s => (s.uuid, KindTag.symbol))

theorem mblockKind_fst (b : MBlock) : (mblockKind b).map (·.1) = b.uuid? := by
  obtain ⟨off, val⟩ := b
  cases val with
  | none => rfl
  | some bv => cases bv <;> rfl

theorem mblockKinds_fst (bs : List MBlock) : (mblockKinds bs).map (·.1) = bs.filterMap MBlock.uuid? := by
  induction bs with
  | nil => rfl
  | cons b bs ih =>
    have := mblockKind_fst b
    simp only [mblockKinds] at ih ⊢
    cases hk : mblockKind b with
    | none =>
      rw [hk] at this
      simp only [Option.map_none] at this
      simp [hk, ← this, ih]
    | some k =>
      rw [hk] at this
      simp only [Option.map_some] at this
      simp [hk, ← this, ih]

theorem mintervalKinds_fst (x : MByteInterval) :
    (mintervalKinds x).map (·.1) = x.blockUuids ++ [x.uuid] := by
  simp [mintervalKinds, MByteInterval.blockUuids, mblockKinds_fst]

theorem msectionKinds_fst (s : MSection) : (msectionKinds s).map (·.1) = s.nodeUuids := by
  simp [msectionKinds, MSection.nodeUuids, List.map_flatMap, mintervalKinds_fst]

theorem mmoduleKinds_fst (m : MModule) : (mmoduleKinds m).map (·.1) = m.nodeUuids := by
  simp [mmoduleKinds, MModule.nodeUuids, List.map_flatMap, msectionKinds_fst, Function.comp_def]

theorem mmoduleKinds_env (m : MModule) (env : Env) :
    (mmoduleKinds m).reverse ++ env
      = (m.symbols.map (fun s => (s.uuid, KindTag.symbol))).reverse
        ++ ((m.sections.flatMap msectionKinds).reverse
          ++ ((m.proxies.map (fun p => (p, KindTag.proxy))).reverse ++ (m.uuid, KindTag.module) :: env)) := by
  simp [mmoduleKinds]

/-! ### each stage of the reader succeeds -/

theorem mblockKind_of_ok {b : MBlock} (h : mblockOK b = true) : ∃ k, mblockKind b = some k := by
  obtain ⟨off, val⟩ := b
  cases val with
  | none => simp [mblockOK] at h
  | some bv => cases bv <;> exact ⟨_, rfl⟩

theorem decodeBlock_acc (env : Env) (b : MBlock) (k : U × KindTag) (hok : mblockOK b = true)
    (hk : mblockKind b = some k) (h16 : k.1.length = 16) (hf : k.1 ∉ env.map (·.1)) :
    ∃ v, decodeBlock env b = .ok (v, k :: env) := by
  obtain ⟨off, val⟩ := b
  cases val with
  | none => simp [mblockOK] at hok
  | some bv =>
    cases bv with
    | code c =>
      simp only [mblockKind, Option.some.injEq] at hk
      subst hk
      have hfr : fresh env c.uuid .code = .ok () := fresh_eq_ok h16 hf
      have hdm : pyEnumHas "DecodeMode" c.decodeMode = true := hok
      (simp [decodeBlock, hfr, hdm]; close_ok)
    | data d =>
      simp only [mblockKind, Option.some.injEq] at hk
      subst hk
      have hfr : fresh env d.uuid .data = .ok () := fresh_eq_ok h16 hf
      (simp [decodeBlock, hfr]; close_ok)

theorem decodeBlocks_acc (bs : List MBlock) : ∀ (env : Env),
    (∀ b ∈ bs, mblockOK b = true) → (∀ k ∈ mblockKinds bs, k.1.length = 16) →
    (((mblockKinds bs).reverse ++ env).map (·.1)).Nodup →
    ∃ vs, decodeBlocks env bs = .ok (vs, (mblockKinds bs).reverse ++ env) := by
  induction bs with
  | nil => intro env _ _ _; exact ⟨[], by simp [decodeBlocks, mblockKinds]⟩
  | cons b bs ih =>
    intro env hok h16 hnd
    obtain ⟨k, hk⟩ := mblockKind_of_ok (hok b List.mem_cons_self)
    have ek : mblockKinds (b :: bs) = k :: mblockKinds bs := by
      simp [mblockKinds, hk]
    have e : (mblockKinds (b :: bs)).reverse ++ env = (mblockKinds bs).reverse ++ (k :: env) := by
      simp [ek]
    rw [e] at hnd ⊢
    have hf : k.1 ∉ env.map (·.1) := fresh_of_nodup hnd
    obtain ⟨v, h1⟩ := decodeBlock_acc env b k (hok b List.mem_cons_self) hk
      (h16 k (by simp [ek])) hf
    obtain ⟨vs, h2⟩ := ih (k :: env) (fun x hx => hok x (List.mem_cons_of_mem _ hx))
      (fun x hx => h16 x (by simp [ek, hx])) hnd
    exact ⟨v :: vs, by simp only [decodeBlocks, h1, h2]⟩

theorem decodeInterval_acc (env : Env) (x : MByteInterval) (hlen : x.contents.length ≤ x.size)
    (hb : ∀ b ∈ x.blocks, mblockOK b = true) (h16 : ∀ k ∈ mintervalKinds x, k.1.length = 16)
    (hnd : (((mintervalKinds x).reverse ++ env).map (·.1)).Nodup) :
    ∃ v, decodeInterval env x = .ok (v, (mintervalKinds x).reverse ++ env) := by
  have e : (mintervalKinds x).reverse ++ env
      = (x.uuid, KindTag.interval) :: ((mblockKinds x.blocks).reverse ++ env) := by
    simp [mintervalKinds]
  rw [e] at hnd ⊢
  have hf : x.uuid ∉ env.map (·.1) := by
    have := fresh_of_nodup (A := []) hnd
    simp only [List.map_append, List.mem_append, not_or] at this
    exact this.2
  have hfr : fresh env x.uuid .interval = .ok () :=
    fresh_eq_ok (h16 (x.uuid, .interval) (by simp [mintervalKinds])) hf
  obtain ⟨bs, hbs⟩ := decodeBlocks_acc x.blocks env hb
    (fun k hk => h16 k (by simp [mintervalKinds, hk])) (nodup_suffix (A := [_]) hnd)
  have hlen' : ¬ x.contents.length > x.size := by omega
  (simp only [decodeInterval, hfr, hlen', if_false, hbs]; close_ok)

theorem decodeIntervals_acc (xs : List MByteInterval) : ∀ (env : Env),
    (∀ x ∈ xs, x.contents.length ≤ x.size ∧ ∀ b ∈ x.blocks, mblockOK b = true) →
    (∀ k ∈ xs.flatMap mintervalKinds, k.1.length = 16) →
    (((xs.flatMap mintervalKinds).reverse ++ env).map (·.1)).Nodup →
    ∃ vs, decodeIntervals env xs = .ok (vs, (xs.flatMap mintervalKinds).reverse ++ env) := by
  induction xs with
  | nil => intro env _ _ _; exact ⟨[], by simp [decodeIntervals]⟩
  | cons x xs ih =>
    intro env hg h16 hnd
    have e : ((x :: xs).flatMap mintervalKinds).reverse ++ env
        = (xs.flatMap mintervalKinds).reverse ++ ((mintervalKinds x).reverse ++ env) := by simp
    rw [e] at hnd ⊢
    obtain ⟨v, h1⟩ := decodeInterval_acc env x (hg x List.mem_cons_self).1 (hg x List.mem_cons_self).2
      (fun k hk => h16 k (by simp [hk])) (nodup_suffix hnd)
    obtain ⟨vs, h2⟩ := ih ((mintervalKinds x).reverse ++ env)
      (fun y hy => hg y (List.mem_cons_of_mem _ hy))
      (fun k hk => h16 k (by
        simp only [List.flatMap_cons, List.mem_append]; exact .inr hk)) hnd
    exact ⟨v :: vs, by simp only [decodeIntervals, h1, h2]⟩

theorem decodeSection_acc (env : Env) (s : MSection)
    (hfl : s.sectionFlags.all (pyEnumHas "SectionFlag") = true)
    (hg : ∀ x ∈ s.byteIntervals, x.contents.length ≤ x.size ∧ ∀ b ∈ x.blocks, mblockOK b = true)
    (h16 : ∀ k ∈ msectionKinds s, k.1.length = 16)
    (hnd : (((msectionKinds s).reverse ++ env).map (·.1)).Nodup) :
    ∃ v, decodeSection env s = .ok (v, (msectionKinds s).reverse ++ env) := by
  have e : (msectionKinds s).reverse ++ env
      = (s.byteIntervals.flatMap mintervalKinds).reverse ++ ((s.uuid, KindTag.section) :: env) := by
    simp [msectionKinds]
  rw [e] at hnd ⊢
  have hf : s.uuid ∉ env.map (·.1) := fresh_of_nodup hnd
  have hfr : fresh env s.uuid .section = .ok () :=
    fresh_eq_ok (h16 (s.uuid, .section) (by simp [msectionKinds])) hf
  obtain ⟨ivs, hiv⟩ := decodeIntervals_acc s.byteIntervals ((s.uuid, KindTag.section) :: env) hg
    (fun k hk => h16 k (by
      simp only [msectionKinds, List.mem_cons]; exact .inr hk)) hnd
  (simp only [decodeSection, hfr, hfl, if_true, hiv]; close_ok)

theorem decodeSections_acc (ss : List MSection) : ∀ (env : Env),
    (∀ s ∈ ss, s.sectionFlags.all (pyEnumHas "SectionFlag") = true) →
    (∀ s ∈ ss, ∀ x ∈ s.byteIntervals,
      x.contents.length ≤ x.size ∧ ∀ b ∈ x.blocks, mblockOK b = true) →
    (∀ k ∈ ss.flatMap msectionKinds, k.1.length = 16) →
    (((ss.flatMap msectionKinds).reverse ++ env).map (·.1)).Nodup →
    ∃ vs, decodeSections env ss = .ok (vs, (ss.flatMap msectionKinds).reverse ++ env) := by
  induction ss with
  | nil => intro env _ _ _ _; exact ⟨[], by simp [decodeSections]⟩
  | cons s ss ih =>
    intro env hfl hg h16 hnd
    have e : ((s :: ss).flatMap msectionKinds).reverse ++ env
        = (ss.flatMap msectionKinds).reverse ++ ((msectionKinds s).reverse ++ env) := by simp
    rw [e] at hnd ⊢
    obtain ⟨v, h1⟩ := decodeSection_acc env s (hfl s List.mem_cons_self) (hg s List.mem_cons_self)
      (fun k hk => h16 k (by
        simp only [List.flatMap_cons, List.mem_append]; exact .inl hk)) (nodup_suffix hnd)
    obtain ⟨vs, h2⟩ := ih ((msectionKinds s).reverse ++ env)
      (fun y hy => hfl y (List.mem_cons_of_mem _ hy))
      (fun y hy => hg y (List.mem_cons_of_mem _ hy))
      (fun k hk => h16 k (by
        simp only [List.flatMap_cons, List.mem_append]; exact .inr hk)) hnd
    exact ⟨v :: vs, by simp only [decodeSections, h1, h2]⟩

theorem decodeSymbol_acc (env : Env) (s : MSymbol) (h16 : s.uuid.length = 16)
    (hf : s.uuid ∉ env.map (·.1))
    (href : ∀ u, s.payload = some (.referentUuid u) →
      u.length = 16 ∧ ∃ k, isBlockKind k = true ∧ env.find u = some k) :
    ∃ v, decodeSymbol env s = .ok (v, (s.uuid, .symbol) :: env) := by
  obtain ⟨su, sp, sn, sa⟩ := s
  have hfr : fresh env su .symbol = .ok () := fresh_eq_ok h16 hf
  cases sp with
  | none => (simp [decodeSymbol, hfr]; close_ok)
  | some p =>
    cases p with
    | value n => (simp [decodeSymbol, hfr]; close_ok)
    | referentUuid u =>
      obtain ⟨hu16, k, hk, hfind⟩ := href u rfl
      (simp [decodeSymbol, hfr, checkUuid, hu16, hfind, hk]; close_ok)

theorem decodeSymbols_acc (ss : List MSymbol) : ∀ (env : Env),
    (∀ s ∈ ss, s.uuid.length = 16) →
    (∀ s ∈ ss, ∀ u, s.payload = some (.referentUuid u) →
      u.length = 16 ∧ ∃ k, isBlockKind k = true ∧ (u, k) ∈ env) →
    (((ss.map (fun s => (s.uuid, KindTag.symbol))).reverse ++ env).map (·.1)).Nodup →
    ∃ vs, decodeSymbols env ss
      = .ok (vs, (ss.map (fun s => (s.uuid, KindTag.symbol))).reverse ++ env) := by
  induction ss with
  | nil => intro env _ _ _; exact ⟨[], by simp [decodeSymbols]⟩
  | cons s ss ih =>
    intro env h16 href hnd
    have e : ((s :: ss).map (fun s => (s.uuid, KindTag.symbol))).reverse ++ env
        = (ss.map (fun s => (s.uuid, KindTag.symbol))).reverse ++ ((s.uuid, KindTag.symbol) :: env) := by
      simp
    rw [e] at hnd ⊢
    have hf : s.uuid ∉ env.map (·.1) := fresh_of_nodup hnd
    have hndenv : (env.map (·.1)).Nodup := nodup_suffix (A := [_]) (nodup_suffix hnd)
    obtain ⟨v, h1⟩ := decodeSymbol_acc env s (h16 s List.mem_cons_self) hf (by
      intro u hu
      obtain ⟨a, k, hk, hm⟩ := href s List.mem_cons_self u hu
      exact ⟨a, k, hk, Env.find_of_mem hndenv hm⟩)
    obtain ⟨vs, h2⟩ := ih ((s.uuid, KindTag.symbol) :: env)
      (fun y hy => h16 y (List.mem_cons_of_mem _ hy))
      (by
        intro y hy u hu
        obtain ⟨a, k, hk, hm⟩ := href y (List.mem_cons_of_mem _ hy) u hu
        exact ⟨a, k, hk, List.mem_cons_of_mem _ hm⟩) hnd
    exact ⟨v :: vs, by simp only [decodeSymbols, h1, h2]⟩

def MExprGood (env : Env) (kv : Nat × MSymExpr) : Prop :=
  kv.2.value.isSome = true ∧ ∀ u ∈ mexprSyms kv.2, u.length = 16 ∧ env.find u = some .symbol

theorem decodeExpr_acc (env : Env) (kv : Nat × MSymExpr) (hg : MExprGood env kv) :
    ∃ e, decodeExpr env kv = .ok e := by
  obtain ⟨k, val, fl⟩ := kv
  obtain ⟨hs, hr⟩ := hg
  cases val with
  | none => simp at hs
  | some ev =>
    cases ev with
    | addrConst off s =>
      have h1 := hr s (by simp [mexprSyms])
      (simp [decodeExpr, symRef_eq_ok h1.1 h1.2]; close_ok)
    | addrAddr sc off s1 s2 =>
      have h1 := hr s1 (by simp [mexprSyms])
      have h2 := hr s2 (by simp [mexprSyms])
      (simp [decodeExpr, symRef_eq_ok h1.1 h1.2, symRef_eq_ok h2.1 h2.2]; close_ok)

theorem decodeExprs_acc (env : Env) (kvs : List (Nat × MSymExpr))
    (hg : ∀ kv ∈ kvs, MExprGood env kv) : ∃ es, decodeExprs env kvs = .ok es := by
  induction kvs with
  | nil => exact ⟨[], by simp [decodeExprs]⟩
  | cons kv kvs ih =>
    obtain ⟨e, h1⟩ := decodeExpr_acc env kv (hg kv List.mem_cons_self)
    obtain ⟨es, h2⟩ := ih (fun y hy => hg y (List.mem_cons_of_mem _ hy))
    exact ⟨e :: es, by simp only [decodeExprs, h1, h2]⟩

theorem fillExprsIntervals_acc (env : Env) : ∀ (vs : List IntervalV) (xs : List MByteInterval),
    (∀ x ∈ xs, ∀ kv ∈ x.symbolicExpressions, MExprGood env kv) →
    ∃ rs, fillExprsIntervals env vs xs = .ok rs := by
  intro vs
  induction vs with
  | nil => intro xs _; exact ⟨[], by simp [fillExprsIntervals]⟩
  | cons v vs ih =>
    intro xs hg
    cases xs with
    | nil => exact ⟨[], by simp [fillExprsIntervals]⟩
    | cons x xs =>
      obtain ⟨es, h1⟩ := decodeExprs_acc env x.symbolicExpressions (hg x List.mem_cons_self)
      obtain ⟨rs, h2⟩ := ih xs (fun y hy => hg y (List.mem_cons_of_mem _ hy))
      (simp only [fillExprsIntervals, h1, h2]; close_ok)

theorem fillExprsSections_acc (env : Env) : ∀ (vs : List SectionV) (ss : List MSection),
    (∀ s ∈ ss, ∀ x ∈ s.byteIntervals, ∀ kv ∈ x.symbolicExpressions, MExprGood env kv) →
    ∃ rs, fillExprsSections env vs ss = .ok rs := by
  intro vs
  induction vs with
  | nil => intro ss _; exact ⟨[], by simp [fillExprsSections]⟩
  | cons v vs ih =>
    intro ss hg
    cases ss with
    | nil => exact ⟨[], by simp [fillExprsSections]⟩
    | cons s ss =>
      obtain ⟨ivs, h1⟩ := fillExprsIntervals_acc env v.intervals s.byteIntervals
        (hg s List.mem_cons_self)
      obtain ⟨rs, h2⟩ := ih ss (fun y hy => hg y (List.mem_cons_of_mem _ hy))
      (simp only [fillExprsSections, h1, h2]; close_ok)

/-- the per-module conditions of acceptance, relative to the table `env3` as it is after
the module has been decoded (message-side counterpart of `ModOK`) -/
structure MModOK (env3 : Env) (m : MModule) : Prop where
  enums : pyEnumHas "ISA" m.isa = true ∧ pyEnumHas "FileFormat" m.fileFormat = true
    ∧ pyEnumHas "ByteOrder" m.byteOrder = true
  all16 : ∀ u ∈ m.nodeUuids, u.length = 16
  flags : ∀ s ∈ m.sections, s.sectionFlags.all (pyEnumHas "SectionFlag") = true
  ivs : ∀ s ∈ m.sections, ∀ x ∈ s.byteIntervals,
    x.contents.length ≤ x.size ∧ ∀ b ∈ x.blocks, mblockOK b = true
  entry : m.entryPoint.isEmpty = false →
    m.entryPoint.length = 16 ∧ (m.entryPoint, KindTag.code) ∈ env3
  refs : ∀ s ∈ m.symbols, ∀ u, s.payload = some (.referentUuid u) →
    u.length = 16 ∧ ∃ k, isBlockKind k = true ∧ (u, k) ∈ env3
  exprs : ∀ s ∈ m.sections, ∀ x ∈ s.byteIntervals, ∀ kv ∈ x.symbolicExpressions,
    kv.2.value.isSome = true ∧ ∀ u ∈ mexprSyms kv.2, u.length = 16 ∧ (u, KindTag.symbol) ∈ env3

theorem MModOK.kinds16 {env3 : Env} {m : MModule} (h : MModOK env3 m) :
    ∀ k ∈ mmoduleKinds m, k.1.length = 16 := by
  intro k hk
  apply h.all16
  rw [← mmoduleKinds_fst]
  exact List.mem_map.2 ⟨k, hk, rfl⟩

theorem decodeModule_acc (env : Env) (m : MModule)
    (hok : MModOK ((mmoduleKinds m).reverse ++ env) m)
    (hnd : (((mmoduleKinds m).reverse ++ env).map (·.1)).Nodup) :
    ∃ v, decodeModule env m = .ok (v, (mmoduleKinds m).reverse ++ env) := by
  have hk16 := hok.kinds16
  rw [mmoduleKinds_env] at hnd hok ⊢
  have hnd2 := nodup_suffix hnd
  have hnd1 := nodup_suffix hnd2
  have hf : m.uuid ∉ env.map (·.1) := fresh_of_nodup hnd1
  have hfr : fresh env m.uuid .module = .ok () :=
    fresh_eq_ok (hok.all16 _ (by simp [MModule.nodeUuids])) hf
  have hen : (!(pyEnumHas "ISA" m.isa && pyEnumHas "FileFormat" m.fileFormat
      && pyEnumHas "ByteOrder" m.byteOrder)) = false := by
    simp [hok.enums.1, hok.enums.2.1, hok.enums.2.2]
  have hpx := decodeProxies_toMsg m.proxies ((m.uuid, KindTag.module) :: env)
    (fun p hp => hok.all16 p (by simp [MModule.nodeUuids, hp])) hnd1
  obtain ⟨secs, hsec⟩ := decodeSections_acc m.sections _ hok.flags hok.ivs
    (fun k hk => hk16 k (by
      simp only [mmoduleKinds, List.cons_append, List.mem_cons, List.mem_append]
      exact .inr (.inl (.inr hk)))) hnd2
  have hnotsym : ∀ u k, k ≠ KindTag.symbol →
      (u, k) ∈ (m.symbols.map (fun s => (s.uuid, KindTag.symbol))).reverse
        ++ ((m.sections.flatMap msectionKinds).reverse
          ++ ((m.proxies.map (fun p => (p, KindTag.proxy))).reverse ++ (m.uuid, KindTag.module) :: env)) →
      (u, k) ∈ (m.sections.flatMap msectionKinds).reverse
          ++ ((m.proxies.map (fun p => (p, KindTag.proxy))).reverse ++ (m.uuid, KindTag.module) :: env) := by
    intro u k hk hm
    rcases List.mem_append.1 hm with hm | hm
    · simp only [List.mem_reverse, List.mem_map] at hm
      obtain ⟨s, _, e⟩ := hm
      cases e
      exact absurd rfl hk
    · exact hm
  obtain ⟨syms, hsym⟩ := decodeSymbols_acc m.symbols _
    (fun s hs => hok.all16 s.uuid (by
      simp only [MModule.nodeUuids, List.cons_append, List.mem_cons, List.mem_append, List.mem_map]
      exact .inr (.inr ⟨s, hs, rfl⟩)))
    (fun s hs u hu => by
      obtain ⟨a, k, hk, hm⟩ := hok.refs s hs u hu
      refine ⟨a, k, hk, hnotsym u k ?_ hm⟩
      intro e; subst e; cases hk) hnd
  obtain ⟨secs', hfill⟩ := fillExprsSections_acc
    ((m.symbols.map (fun s => (s.uuid, KindTag.symbol))).reverse
        ++ ((m.sections.flatMap msectionKinds).reverse
          ++ ((m.proxies.map (fun p => (p, KindTag.proxy))).reverse ++ (m.uuid, KindTag.module) :: env)))
    secs m.sections (fun s hs x hx kv hkv => by
      obtain ⟨a, b⟩ := hok.exprs s hs x hx kv hkv
      exact ⟨a, fun u hu => ⟨(b u hu).1, Env.find_of_mem hnd (b u hu).2⟩⟩)
  unfold decodeModule
  cases hep : m.entryPoint.isEmpty with
  | true =>
    (simp only [hfr, hen, hpx, hsec, hsym, hfill]; close_ok)
  | false =>
    obtain ⟨h16, hm⟩ := hok.entry hep
    have hfind := Env.find_of_mem hnd2 (hnotsym _ _ (by decide) hm)
    simp only [hfr, hen, hpx, hsec, hsym, hfill]
    simp only [checkUuid, h16, if_true, hfind]
    close_ok

/-- per-module conditions along the module list, each relative to its own table -/
def MModsOK : Env → List MModule → Prop
  | _, [] => True
  | env, m :: ms =>
    MModOK ((mmoduleKinds m).reverse ++ env) m ∧ MModsOK ((mmoduleKinds m).reverse ++ env) ms

theorem decodeModules_acc (ms : List MModule) : ∀ (env : Env), MModsOK env ms →
    (((ms.flatMap mmoduleKinds).reverse ++ env).map (·.1)).Nodup →
    ∃ vs, decodeModules env ms = .ok (vs, (ms.flatMap mmoduleKinds).reverse ++ env) := by
  induction ms with
  | nil => intro env _ _; exact ⟨[], by simp [decodeModules]⟩
  | cons m ms ih =>
    intro env hok hnd
    have e : ((m :: ms).flatMap mmoduleKinds).reverse ++ env
        = (ms.flatMap mmoduleKinds).reverse ++ ((mmoduleKinds m).reverse ++ env) := by simp
    rw [e] at hnd ⊢
    obtain ⟨v, h1⟩ := decodeModule_acc env m hok.1 (nodup_suffix hnd)
    obtain ⟨vs, h2⟩ := ih _ hok.2 hnd
    exact ⟨v :: vs, by simp only [decodeModules, h1, h2]⟩

def MEdgeGood (env : Env) (e : MEdge) : Prop :=
  (e.sourceUuid.length = 16 ∧ (env.find e.sourceUuid = some .code ∨ env.find e.sourceUuid = some .proxy))
    ∧ (e.targetUuid.length = 16
        ∧ (env.find e.targetUuid = some .code ∨ env.find e.targetUuid = some .proxy))
    ∧ (∀ l, e.label = some l → pyEnumHas "EdgeType" l.type = true)

theorem decodeEdge_acc (env : Env) (e : MEdge) (hg : MEdgeGood env e) :
    ∃ v, decodeEdge env e = .ok v := by
  obtain ⟨s, d, l⟩ := e
  obtain ⟨hs, hd, hl⟩ := hg
  have h1 := cfgRef_eq_ok hs.1 hs.2
  have h2 := cfgRef_eq_ok hd.1 hd.2
  simp only at h1 h2
  cases l with
  | none => (simp [decodeEdge, h1, h2]; close_ok)
  | some l =>
    have := hl l rfl
    (simp [decodeEdge, h1, h2, this]; close_ok)

theorem decodeEdges_acc (env : Env) (es : List MEdge) (hg : ∀ e ∈ es, MEdgeGood env e) :
    ∃ vs, decodeEdges env es = .ok vs := by
  induction es with
  | nil => exact ⟨[], by simp [decodeEdges]⟩
  | cons e es ih =>
    obtain ⟨v, h1⟩ := decodeEdge_acc env e (hg e List.mem_cons_self)
    obtain ⟨vs, h2⟩ := ih (fun y hy => hg y (List.mem_cons_of_mem _ hy))
    exact ⟨v :: vs, by simp only [decodeEdges, h1, h2]⟩

/-- the table after the IR node and the module messages `ms` -/
def menvOf (uuid : U) (ms : List MModule) : Env := (ms.flatMap mmoduleKinds).reverse ++ [(uuid, .ir)]

theorem fromMsg_acc_of (m : MIR) (h16 : m.uuid.length = 16)
    (hver : m.version = Generated.protobufVersion)
    (hmods : MModsOK [(m.uuid, .ir)] m.modules)
    (hnd : ((menvOf m.uuid m.modules).map (·.1)).Nodup)
    (hedges : ∀ e ∈ m.cfg.edges, MEdgeGood (menvOf m.uuid m.modules) e) :
    ∃ v, fromMsg m = .ok v := by
  obtain ⟨mods, hm⟩ := decodeModules_acc m.modules [(m.uuid, .ir)] hmods hnd
  obtain ⟨es, he⟩ := decodeEdges_acc _ m.cfg.edges hedges
  have hv : ¬ m.version ≠ Generated.protobufVersion := by simp [hver]
  have he' : decodeEdges ((m.modules.flatMap mmoduleKinds).reverse ++ [(m.uuid, KindTag.ir)])
      m.cfg.edges = .ok es := he
  (simp only [fromMsg, checkUuid, h16, if_true, hv, if_false, hm, he']; close_ok)

/-! ### from the specification-level predicate to the reader's checks -/

theorem mem_mmoduleKinds_nodeUuids {m : MModule} {u : U} {k : KindTag} (h : (u, k) ∈ mmoduleKinds m) :
    u ∈ m.nodeUuids := by
  rw [← mmoduleKinds_fst]
  exact List.mem_map.2 ⟨(u, k), h, rfl⟩

theorem mem_mblock_kinds {m : MModule} {s : MSection} {x : MByteInterval} {b : MBlock}
    {k : U × KindTag} (hs : s ∈ m.sections) (hx : x ∈ s.byteIntervals) (hb : b ∈ x.blocks)
    (hk : mblockKind b = some k) : k ∈ mmoduleKinds m := by
  simp only [mmoduleKinds, List.cons_append, List.mem_cons, List.mem_append, List.mem_flatMap,
    msectionKinds, mintervalKinds, mblockKinds, List.mem_filterMap]
  exact .inr (.inl (.inr ⟨s, hs, .inr ⟨x, hx, .inl ⟨b, hb, hk⟩⟩⟩))

theorem mem_mcodeUuids {m : MModule} {u : U} (h : u ∈ m.codeUuids) :
    (u, KindTag.code) ∈ mmoduleKinds m := by
  simp only [MModule.codeUuids, List.mem_flatMap, List.mem_filterMap] at h
  obtain ⟨s, hs, x, hx, b, hb, hbu⟩ := h
  apply mem_mblock_kinds hs hx hb
  obtain ⟨off, val⟩ := b
  cases val with
  | none => simp [MBlock.codeUuid?] at hbu
  | some bv =>
    cases bv with
    | code c => simp [MBlock.codeUuid?] at hbu; subst hbu; rfl
    | data d => simp [MBlock.codeUuid?] at hbu

theorem mem_mproxies {m : MModule} {u : U} (h : u ∈ m.proxies) :
    (u, KindTag.proxy) ∈ mmoduleKinds m := by
  simp only [mmoduleKinds, List.cons_append, List.mem_cons, List.mem_append, List.mem_map]
  exact .inr (.inl (.inl ⟨u, h, rfl⟩))

theorem mem_mblockUuids {m : MModule} {u : U} (h : u ∈ m.blockUuids) :
    ∃ k, isBlockKind k = true ∧ (u, k) ∈ mmoduleKinds m := by
  simp only [MModule.blockUuids, List.mem_append, List.mem_flatMap, MByteInterval.blockUuids,
    List.mem_filterMap] at h
  rcases h with ⟨s, hs, x, hx, b, hb, hbu⟩ | hp
  · obtain ⟨off, val⟩ := b
    cases val with
    | none => simp [MBlock.uuid?] at hbu
    | some bv =>
      cases bv with
      | code c =>
        simp [MBlock.uuid?] at hbu; subst hbu
        exact ⟨.code, rfl, mem_mblock_kinds hs hx hb rfl⟩
      | data d =>
        simp [MBlock.uuid?] at hbu; subst hbu
        exact ⟨.data, rfl, mem_mblock_kinds hs hx hb rfl⟩
  · exact ⟨.proxy, rfl, mem_mproxies hp⟩

theorem mem_msymUuids {m : MModule} {u : U} (h : u ∈ m.symbolUuids) :
    (u, KindTag.symbol) ∈ mmoduleKinds m := by
  simp only [MModule.symbolUuids, List.mem_map] at h
  obtain ⟨s, hs, rfl⟩ := h
  simp only [mmoduleKinds, List.cons_append, List.mem_cons, List.mem_append, List.mem_map]
  exact .inr (.inr ⟨s, hs, rfl⟩)

theorem mem_menvOf {uuid : U} {L : List MModule} {u : U} {k : KindTag}
    (hall : ∀ m ∈ L, ∀ u ∈ m.nodeUuids, u.length = 16)
    (h : ∃ m ∈ L, (u, k) ∈ mmoduleKinds m) : u.length = 16 ∧ (u, k) ∈ menvOf uuid L := by
  obtain ⟨m, hm, hk⟩ := h
  refine ⟨hall m hm u (mem_mmoduleKinds_nodeUuids hk), ?_⟩
  simp only [menvOf, List.mem_append, List.mem_reverse, List.mem_flatMap]
  exact .inl ⟨m, hm, hk⟩

theorem mem_mvis {α : Type} {earlier : List MModule} {m : MModule} {f : MModule → List α} {a : α}
    (h : a ∈ earlier.flatMap f ++ f m) : ∃ m' ∈ earlier ++ [m], a ∈ f m' := by
  rcases List.mem_append.1 h with h | h
  · obtain ⟨m', hm', ha⟩ := List.mem_flatMap.1 h
    exact ⟨m', List.mem_append_left _ hm', ha⟩
  · exact ⟨m, by simp, h⟩

theorem mmodOK_of {uuid : U} {earlier : List MModule} {m : MModule}
    (h : mmoduleOK earlier m = true)
    (hall : ∀ m' ∈ earlier ++ [m], ∀ u ∈ m'.nodeUuids, u.length = 16) :
    MModOK (menvOf uuid (earlier ++ [m])) m := by
  simp only [mmoduleOK, Bool.and_eq_true, List.all_eq_true, decide_eq_true_eq,
    Bool.or_eq_true] at h
  obtain ⟨⟨⟨⟨⟨hisa, hff⟩, hbo⟩, hentry⟩, hrefs⟩, hsecs⟩ := h
  refine ⟨⟨hisa, hff, hbo⟩, hall m (by simp), ?_, ?_, ?_, ?_, ?_⟩
  · intro s hs
    simpa using (hsecs s hs).1
  · intro s hs x hx
    have := (hsecs s hs).2 x hx
    exact ⟨this.1.1, this.1.2⟩
  · intro hne
    rcases hentry with he | he
    · rw [he] at hne; cases hne
    · obtain ⟨m', hm', hc⟩ := mem_mvis (f := MModule.codeUuids) he
      exact mem_menvOf hall ⟨m', hm', mem_mcodeUuids hc⟩
  · intro s hs u hu
    have := hrefs s hs
    rw [hu] at this
    simp only [decide_eq_true_eq] at this
    obtain ⟨m', hm', hc⟩ := mem_mvis (f := MModule.blockUuids) this
    obtain ⟨k, hk, hmem⟩ := mem_mblockUuids hc
    obtain ⟨a, b⟩ := mem_menvOf (uuid := uuid) hall ⟨m', hm', hmem⟩
    exact ⟨a, k, hk, b⟩
  · intro s hs x hx kv hkv
    have := ((hsecs s hs).2 x hx).2 kv hkv
    refine ⟨this.1, ?_⟩
    intro u hu
    have := this.2 u hu
    obtain ⟨m', hm', hc⟩ := mem_mvis (f := MModule.symbolUuids) this
    exact mem_menvOf hall ⟨m', hm', mem_msymUuids hc⟩

theorem mmodsOK_of {uuid : U} : ∀ (ms earlier : List MModule), mmodulesOK earlier ms = true →
    (∀ m ∈ earlier ++ ms, ∀ u ∈ m.nodeUuids, u.length = 16) → MModsOK (menvOf uuid earlier) ms := by
  intro ms
  induction ms with
  | nil => intro _ _ _; trivial
  | cons m ms ih =>
    intro earlier h hall
    simp only [mmodulesOK, Bool.and_eq_true] at h
    have e : (mmoduleKinds m).reverse ++ menvOf uuid earlier = menvOf uuid (earlier ++ [m]) := by
      simp [menvOf]
    simp only [MModsOK, e]
    refine ⟨mmodOK_of h.1 ?_, ih (earlier ++ [m]) h.2 ?_⟩
    · intro m' hm'
      apply hall
      simp only [List.mem_append, List.mem_cons, List.not_mem_nil, or_false] at hm' ⊢
      rcases hm' with h | h
      · exact .inl h
      · exact .inr (.inl h)
    · intro m' hm'
      apply hall
      simpa using hm'

theorem menvOf_fst (m : MIR) : ((menvOf m.uuid m.modules).reverse).map (·.1) = m.nodeUuids := by
  simp [menvOf, MIR.nodeUuids, List.map_flatMap, mmoduleKinds_fst]

theorem fromMsg_acc_of_closed (m : MIR) (h : closedMsg m = true) : ∃ v, fromMsg m = .ok v := by
  simp only [closedMsg, Bool.and_eq_true, List.all_eq_true, beq_iff_eq, nodupM_iff,
    decide_eq_true_eq] at h
  obtain ⟨⟨⟨⟨h16, hnd⟩, hver⟩, hmods⟩, hedges⟩ := h
  have hndk : ((menvOf m.uuid m.modules).map (·.1)).Nodup := by
    have := menvOf_fst m
    rw [List.map_reverse] at this
    rw [← (List.reverse_perm _).nodup_iff, this]; exact hnd
  have hall : ∀ mm ∈ m.modules, ∀ u ∈ mm.nodeUuids, u.length = 16 := by
    intro mm hm u hu
    apply h16
    simp only [MIR.nodeUuids, List.mem_cons, List.mem_flatMap]
    exact .inr ⟨mm, hm, hu⟩
  apply fromMsg_acc_of m (h16 _ (by simp [MIR.nodeUuids])) hver
  · have := mmodsOK_of (uuid := m.uuid) m.modules [] hmods (by simpa using hall)
    simpa [menvOf] using this
  · exact hndk
  · intro e he
    have := hedges e he
    have cfg : ∀ u, u ∈ (m.modules.flatMap fun mm => mm.codeUuids ++ mm.proxies) →
        u.length = 16 ∧ (Env.find (menvOf m.uuid m.modules) u = some .code
          ∨ Env.find (menvOf m.uuid m.modules) u = some .proxy) := by
      intro u hu
      obtain ⟨mm, hm, hu⟩ := List.mem_flatMap.1 hu
      rcases List.mem_append.1 hu with hc | hp
      · obtain ⟨a, b⟩ := mem_menvOf (uuid := m.uuid) hall ⟨mm, hm, mem_mcodeUuids hc⟩
        exact ⟨a, .inl (Env.find_of_mem hndk b)⟩
      · obtain ⟨a, b⟩ := mem_menvOf (uuid := m.uuid) hall ⟨mm, hm, mem_mproxies hp⟩
        exact ⟨a, .inr (Env.find_of_mem hndk b)⟩
    refine ⟨cfg _ this.1.1, cfg _ this.1.2, ?_⟩
    intro l hl
    have h3 := this.2
    rw [hl] at h3
    exact h3

end Gtirb.Msg
