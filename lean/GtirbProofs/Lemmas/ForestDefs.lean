import GtirbModel.Forest
import GtirbModel.ForestDriver
/-! Invariants of model C and the well-formedness of operations (the public
API's typing contract: the right kind of node in the right collection). These
definitions are shared by the proof files for C03 / C04 / C10 / C16. -/
namespace Gtirb.Forest

/-- containment is a forest kept consistent from both ends -/
structure ForestInv (g : G) : Prop where
  /-- a node is in a parent's collection iff its back-pointer names that parent -/
  mem_iff : ∀ c p s, c ∈ g.kids p s ↔ (g.par c = some p ∧ slotOf (g.kind c) = some s)
  /-- nothing appears twice -/
  nodup : ∀ p s, (g.kids p s).Nodup
  /-- kinds are rank-correct -/
  kind_ok : ∀ c p, g.par c = some p → parentKind (g.kind c) = some (g.kind p)
  /-- only allocated nodes are linked -/
  alloc : ∀ c p, g.par c = some p → c < g.n ∧ p < g.n

/-- the per-IR UUID table holds exactly the nodes attached to that IR -/
def CacheInv (g : G) : Prop :=
  ∀ i u x, g.cache i u = some x ↔
    (i < g.n ∧ g.kind i = .ir ∧ x < g.n ∧ irOf g x = some i ∧ g.uuid x = u)

/-- the property's hypothesis: UUIDs pairwise distinct among the nodes attached to one IR -/
def Distinct (g : G) : Prop :=
  ∀ a b i, a < g.n → b < g.n → irOf g a = some i → irOf g b = some i → g.uuid a = g.uuid b → a = b

/-- the per-module symbol indexes hold exactly the module's symbols under their current keys -/
structure IndexInv (g : G) : Prop where
  name_iff : ∀ m nm y, y ∈ g.nameIdx m nm ↔ (y ∈ g.kids m .syms ∧ g.name y = nm)
  ref_iff : ∀ m b y, y ∈ g.refIdx m b ↔ (y ∈ g.kids m .syms ∧ g.payload y = .block b)
  name_nodup : ∀ m nm, (g.nameIdx m nm).Nodup
  ref_nodup : ∀ m b, (g.refIdx m b).Nodup

/-- `v` may be put into collection `s` of `p` -/
def ChildOK (g : G) (p : Nat) (s : Slot) (v : Nat) : Prop :=
  p < g.n ∧ v < g.n ∧ slotOf (g.kind v) = some s ∧ parentKind (g.kind v) = some (g.kind p)

def PayloadOK (g : G) : Payload → Prop
  | .block b => b < g.n ∧ (g.kind b = .code ∨ g.kind b = .data ∨ g.kind b = .proxy)
  | _ => True

/-- the operation respects the API's typing contract -/
def OpOK (g : G) : Op → Prop
  | .mkIR _ => True
  | .mk k _ kids parent =>
    k ≠ .ir ∧ k ≠ .symbol ∧
    (∀ sv ∈ kids, ∀ v ∈ sv.2, v < g.n ∧ slotOf (g.kind v) = some sv.1 ∧ parentKind (g.kind v) = some k) ∧
    (∀ p, parent = some p → p < g.n ∧ parentKind k = some (g.kind p))
  | .mkSym _ _ pl parent =>
    PayloadOK g pl ∧ (∀ p, parent = some p → p < g.n ∧ g.kind p = .module)
  | .setParent c p =>
    c < g.n ∧ g.kind c ≠ .ir ∧ (∀ q, p = some q → q < g.n ∧ parentKind (g.kind c) = some (g.kind q))
  | .add p s v | .discard p s v | .remove p s v | .pop p s v => s ≠ .mods ∧ ChildOK g p s v
  | .clear p s order => s ≠ .mods ∧ p < g.n ∧ ∀ v ∈ order, ChildOK g p s v
  | .update p s vs | .isub p s vs | .ixor p s vs => s ≠ .mods ∧ p < g.n ∧ ∀ v ∈ vs, ChildOK g p s v
  | .iand p s vs order => s ≠ .mods ∧ p < g.n ∧ (∀ v ∈ vs, ChildOK g p s v) ∧ ∀ v ∈ order, ChildOK g p s v
  | .insert i _ v | .append i v | .setItem i _ v | .listRemove i v => ChildOK g i .mods v
  | .extend i vs => i < g.n ∧ g.kind i = .ir ∧ ∀ v ∈ vs, ChildOK g i .mods v
  | .delItem i _ | .listPop i _ | .reverse i | .listClear i => i < g.n ∧ g.kind i = .ir
  | .setName v _ => v < g.n ∧ g.kind v = .symbol
  | .setPayload v pl => v < g.n ∧ g.kind v = .symbol ∧ PayloadOK g pl

/-- run a history, skipping operations that raise (the model leaves the state
unchanged on an exception) -/
def run (g : G) (ops : List Op) : G := ops.foldl (fun g op => match step g op with | .ok g' => g' | .error _ => g) g

/-- every operation of the history respects the typing contract in the state it is issued in -/
def OpsOK : G → List Op → Prop
  | _, [] => True
  | g, op :: ops => OpOK g op ∧ OpsOK (match step g op with | .ok g' => g' | .error _ => g) ops

/-- UUID distinctness holds in every state of the history -/
def DistinctAlong : G → List Op → Prop
  | g, [] => Distinct g
  | g, op :: ops => Distinct g ∧ DistinctAlong (match step g op with | .ok g' => g' | .error _ => g) ops

end Gtirb.Forest
