import GtirbProofs.Lemmas.ForestDefs
/-! Lemmas for property C03 (the per-IR UUID table equals the scan).

Part A: theory of the back-pointer chains (`irOf`, descendants).
Part B: the list of nodes that `cacheAdd/cacheRemove` walk = the descendants.
Part C: `cacheAdd*` / `cacheDel*` as one fold of `cacheSet` / `cacheDel` over that list.
Part D: the two core theorems (detach a subtree / attach a subtree).
Part E: primitives and composite operations. -/
namespace Gtirb.Forest

/-! ## Part A: back-pointer chains -/

def cache_rank : Kind → Nat
  | .ir => 0 | .module => 1 | .section => 2 | .symbol => 2 | .proxy => 2 | .interval => 3
  | .code => 4 | .data => 4

/-- the part of `ForestInv` that does not mention the owning collections -/
structure CacheParInv (g : G) : Prop where
  kind_ok : ∀ c p, g.par c = some p → parentKind (g.kind c) = some (g.kind p)
  alloc : ∀ c p, g.par c = some p → c < g.n ∧ p < g.n

theorem ForestInv.cache_parInv {g : G} (h : ForestInv g) : CacheParInv g := ⟨h.kind_ok, h.alloc⟩

theorem cache_rank_parentKind {k k' : Kind} (h : parentKind k = some k') :
    cache_rank k = cache_rank k' + 1 := by
  cases k <;> cases k' <;> simp_all [parentKind, cache_rank]

theorem cache_rank_par {g : G} (h : CacheParInv g) {x a : Nat} (hp : g.par x = some a) :
    cache_rank (g.kind x) = cache_rank (g.kind a) + 1 :=
  cache_rank_parentKind (h.kind_ok x a hp)

theorem cache_irOf_par {g : G} (h : CacheParInv g) {x a : Nat} (hp : g.par x = some a) :
    irOf g x = irOf g a := by
  have hk := h.kind_ok x a hp
  unfold irOf
  cases hx : g.kind x <;> cases ha : g.kind a <;> simp_all [parentKind]

theorem cache_irOf_root {g : G} {x : Nat} (hp : g.par x = none) :
    irOf g x = if g.kind x = .ir then some x else none := by
  unfold irOf
  cases hx : g.kind x <;> simp_all

theorem cache_irOf_ir {g : G} {x : Nat} (hk : g.kind x = .ir) : irOf g x = some x := by
  unfold irOf; simp [hk]

theorem cache_irOf_congr {g g' : G} (hk : g'.kind = g.kind) (hp : g'.par = g.par) (x : Nat) :
    irOf g' x = irOf g x := by
  unfold irOf; rw [hk, hp]

/-- `x` is `v` or a descendant of `v` (through back-pointers) -/
inductive CacheDesc (g : G) (v : Nat) : Nat → Prop
  | refl : CacheDesc g v v
  | step {x a : Nat} : g.par x = some a → CacheDesc g v a → CacheDesc g v x

theorem cache_desc_rank {g : G} (h : CacheParInv g) {v x : Nat} (hd : CacheDesc g v x) :
    x = v ∨ cache_rank (g.kind v) < cache_rank (g.kind x) := by
  induction hd with
  | refl => exact .inl rfl
  | step hp _ ih =>
    have := cache_rank_par h hp
    rcases ih with rfl | ih <;> right <;> omega

theorem cache_desc_irOf {g : G} (h : CacheParInv g) {v x : Nat} (hd : CacheDesc g v x) :
    irOf g x = irOf g v := by
  induction hd with
  | refl => rfl
  | step hp _ ih => rw [cache_irOf_par h hp, ih]

theorem cache_desc_lt {g : G} (h : CacheParInv g) {v x : Nat} (hd : CacheDesc g v x) (hv : v < g.n) :
    x < g.n := by
  cases hd with
  | refl => exact hv
  | step hp _ => exact (h.alloc _ _ hp).1

theorem cache_desc_trans {g : G} {a b c : Nat} (h1 : CacheDesc g a b) (h2 : CacheDesc g b c) :
    CacheDesc g a c := by
  induction h2 with
  | refl => exact h1
  | step hp _ ih => exact .step hp ih

/-- the ancestors of a node form a chain -/
theorem cache_desc_chain {g : G} {a b x : Nat} (ha : CacheDesc g a x) (hb : CacheDesc g b x) :
    CacheDesc g a b ∨ CacheDesc g b a := by
  induction ha with
  | refl => exact .inr hb
  | step hp hd ih =>
    cases hb with
    | refl => exact .inl (.step hp hd)
    | step hp' hd' =>
      rw [hp] at hp'; cases hp'
      exact ih hd'

theorem cache_desc_same_rank {g : G} (h : CacheParInv g) {a b x : Nat} (ha : CacheDesc g a x)
    (hb : CacheDesc g b x) (hr : cache_rank (g.kind a) = cache_rank (g.kind b)) : a = b := by
  rcases cache_desc_chain ha hb with h1 | h1
  · rcases cache_desc_rank h h1 with h2 | h2
    · exact h2.symm
    · omega
  · rcases cache_desc_rank h h1 with h2 | h2
    · exact h2
    · omega

/-- `irOf` gives an allocated IR -/
theorem cache_irOf_some {g : G} (h : CacheParInv g) :
    ∀ (k x i : Nat), cache_rank (g.kind x) ≤ k → x < g.n → irOf g x = some i → i < g.n ∧ g.kind i = .ir := by
  intro k
  induction k with
  | zero =>
    intro x i hr hx hi
    cases hp : g.par x with
    | none =>
      rw [cache_irOf_root hp] at hi
      split at hi
      · cases hi; exact ⟨hx, by assumption⟩
      · cases hi
    | some a => have := cache_rank_par h hp; omega
  | succ k ih =>
    intro x i hr hx hi
    cases hp : g.par x with
    | none =>
      rw [cache_irOf_root hp] at hi
      split at hi
      · cases hi; exact ⟨hx, by assumption⟩
      · cases hi
    | some a =>
      have := cache_rank_par h hp
      rw [cache_irOf_par h hp] at hi
      exact ih a i (by omega) (h.alloc _ _ hp).2 hi

theorem cache_irOf_some' {g : G} (h : CacheParInv g) {x i : Nat} (hx : x < g.n) (hi : irOf g x = some i) :
    i < g.n ∧ g.kind i = .ir := cache_irOf_some h _ x i (Nat.le_refl _) hx hi

/-- changing the back-pointer of `v` only: descendants of `v` stay descendants -/
theorem cache_desc_frame {g g' : G} (h : CacheParInv g) {v : Nat}
    (hpar : ∀ x, x ≠ v → g'.par x = g.par x) {x : Nat} (hd : CacheDesc g v x) : CacheDesc g' v x := by
  induction hd with
  | refl => exact .refl
  | @step x a hp hd ih =>
    have hx : x ≠ v := by
      intro hxv
      have h1 := cache_rank_par h hp
      rcases cache_desc_rank h hd with h2 | h2
      · subst hxv; subst h2; omega
      · subst hxv; omega
    exact .step (by rw [hpar x hx]; exact hp) ih

/-- changing the back-pointer of `v` only: `irOf` of non-descendants is unchanged -/
theorem cache_irOf_frame {g g' : G} (h : CacheParInv g) (h' : CacheParInv g') {v : Nat}
    (hk : g'.kind = g.kind) (hpar : ∀ x, x ≠ v → g'.par x = g.par x) :
    ∀ (k x : Nat), cache_rank (g.kind x) ≤ k → ¬ CacheDesc g v x → irOf g' x = irOf g x := by
  intro k
  induction k with
  | zero =>
    intro x hr hnd
    have hx : x ≠ v := fun e => hnd (e ▸ .refl)
    cases hp : g.par x with
    | none =>
      have hp' : g'.par x = none := by rw [hpar x hx]; exact hp
      rw [cache_irOf_root hp, cache_irOf_root hp', hk]
    | some a => have := cache_rank_par h hp; omega
  | succ k ih =>
    intro x hr hnd
    have hx : x ≠ v := fun e => hnd (e ▸ .refl)
    cases hp : g.par x with
    | none =>
      have hp' : g'.par x = none := by rw [hpar x hx]; exact hp
      rw [cache_irOf_root hp, cache_irOf_root hp', hk]
    | some a =>
      have hp' : g'.par x = some a := by rw [hpar x hx]; exact hp
      have := cache_rank_par h hp
      rw [cache_irOf_par h hp, cache_irOf_par h' hp']
      exact ih a (by omega) (fun hd => hnd (.step hp hd))

theorem cache_irOf_frame' {g g' : G} (h : CacheParInv g) (h' : CacheParInv g') {v : Nat}
    (hk : g'.kind = g.kind) (hpar : ∀ x, x ≠ v → g'.par x = g.par x) {x : Nat}
    (hnd : ¬ CacheDesc g v x) : irOf g' x = irOf g x :=
  cache_irOf_frame h h' hk hpar _ x (Nat.le_refl _) hnd

/-! ## Part C: the table updates as folds over the walked list -/

/-- all fields except the table agree -/
structure CacheOnly (g g' : G) : Prop where
  n : g'.n = g.n
  kind : g'.kind = g.kind
  uuid : g'.uuid = g.uuid
  par : g'.par = g.par
  kids : g'.kids = g.kids
  name : g'.name = g.name
  payload : g'.payload = g.payload
  nameIdx : g'.nameIdx = g.nameIdx
  refIdx : g'.refIdx = g.refIdx

theorem CacheOnly.rfl' (g : G) : CacheOnly g g := ⟨rfl, rfl, rfl, rfl, rfl, rfl, rfl, rfl, rfl⟩

theorem CacheOnly.trans {a b c : G} (h1 : CacheOnly a b) (h2 : CacheOnly b c) : CacheOnly a c :=
  ⟨h2.n.trans h1.n, h2.kind.trans h1.kind, h2.uuid.trans h1.uuid, h2.par.trans h1.par,
   h2.kids.trans h1.kids, h2.name.trans h1.name, h2.payload.trans h1.payload,
   h2.nameIdx.trans h1.nameIdx, h2.refIdx.trans h1.refIdx⟩

theorem cache_cacheSet_only (g : G) (i u v : Nat) : CacheOnly g (cacheSet g i u v) :=
  ⟨rfl, rfl, rfl, rfl, rfl, rfl, rfl, rfl, rfl⟩

theorem cache_cacheDel_only {g g' : G} {i u : Nat} (h : cacheDel g i u = .ok g') : CacheOnly g g' := by
  unfold cacheDel at h
  split at h
  · cases h
  · cases h; exact ⟨rfl, rfl, rfl, rfl, rfl, rfl, rfl, rfl, rfl⟩

def cache_setAll (g : G) (i : Nat) (L : List Nat) : G :=
  L.foldl (fun g x => cacheSet g i (g.uuid x) x) g

def cache_delAll (g : G) (i : Nat) (L : List Nat) : Except Exc G :=
  foldE (fun g x => cacheDel g i (g.uuid x)) L g

theorem cache_setAll_only (i : Nat) : ∀ (L : List Nat) (g : G), CacheOnly g (cache_setAll g i L)
  | [], g => CacheOnly.rfl' g
  | x :: L, g => (cache_cacheSet_only g i (g.uuid x) x).trans (cache_setAll_only i L _)

theorem cache_setAll_append (g : G) (i : Nat) (L1 L2 : List Nat) :
    cache_setAll g i (L1 ++ L2) = cache_setAll (cache_setAll g i L1) i L2 := by
  simp [cache_setAll, List.foldl_append]

theorem cache_foldE_append (f : G → Nat → Except Exc G) : ∀ (L1 L2 : List Nat) (g : G),
    foldE f (L1 ++ L2) g = bindE (foldE f L1 g) (foldE f L2)
  | [], L2, g => rfl
  | x :: L1, L2, g => by
    simp only [List.cons_append, foldE]
    cases f g x with
    | ok g' => exact cache_foldE_append f L1 L2 g'
    | error e => rfl

theorem cache_delAll_append (g : G) (i : Nat) (L1 L2 : List Nat) :
    cache_delAll g i (L1 ++ L2) = bindE (cache_delAll g i L1) (fun g1 => cache_delAll g1 i L2) :=
  cache_foldE_append _ L1 L2 g

theorem cache_delAll_only (i : Nat) : ∀ (L : List Nat) (g g' : G), cache_delAll g i L = .ok g' → CacheOnly g g'
  | [], g, g', h => by cases h; exact CacheOnly.rfl' g
  | x :: L, g, g', h => by
    simp only [cache_delAll, foldE] at h
    cases h1 : cacheDel g i (g.uuid x) with
    | ok g1 => rw [h1] at h; exact (cache_cacheDel_only h1).trans (cache_delAll_only i L g1 g' h)
    | error e => rw [h1] at h; cases h

/-! the walks -/
def cache_walkI (k : Nat → Slot → List Nat) (v : Nat) : List Nat := v :: k v .blocks
def cache_walkS (k : Nat → Slot → List Nat) (v : Nat) : List Nat :=
  v :: (k v .bis).flatMap (cache_walkI k)
def cache_walkM (k : Nat → Slot → List Nat) (v : Nat) : List Nat :=
  v :: (k v .proxies ++ ((k v .secs).flatMap (cache_walkS k) ++ k v .syms))
def cache_walk (k : Nat → Slot → List Nat) (kd : Kind) (v : Nat) : List Nat :=
  match kd with
  | .module => cache_walkM k v
  | .section => cache_walkS k v
  | .interval => cache_walkI k v
  | _ => [v]

theorem cache_addLeaves_eq (g : G) (i : Nat) (L : List Nat) :
    L.foldl (fun g b => cacheAddLeaf g i b) g = cache_setAll g i L := rfl

theorem cache_addInterval_eq (g : G) (i v : Nat) :
    cacheAddInterval g i v = cache_setAll g i (cache_walkI g.kids v) := rfl

theorem cache_addIntervals_eq (i : Nat) : ∀ (L : List Nat) (g : G),
    L.foldl (fun g b => cacheAddInterval g i b) g = cache_setAll g i (L.flatMap (cache_walkI g.kids))
  | [], g => rfl
  | b :: L, g => by
    rw [List.foldl_cons, cache_addIntervals_eq i L, List.flatMap_cons, cache_setAll_append,
      cache_addInterval_eq, (cache_setAll_only i _ g).kids]

theorem cache_addSection_eq (g : G) (i v : Nat) :
    cacheAddSection g i v = cache_setAll g i (cache_walkS g.kids v) := by
  unfold cacheAddSection
  rw [cache_addIntervals_eq]
  rfl

theorem cache_addSections_eq (i : Nat) : ∀ (L : List Nat) (g : G),
    L.foldl (fun g b => cacheAddSection g i b) g = cache_setAll g i (L.flatMap (cache_walkS g.kids))
  | [], g => rfl
  | b :: L, g => by
    rw [List.foldl_cons, cache_addSections_eq i L, List.flatMap_cons, cache_setAll_append,
      cache_addSection_eq, (cache_setAll_only i _ g).kids]

theorem cache_setAll_kids (g : G) (i : Nat) (L : List Nat) : (cache_setAll g i L).kids = g.kids :=
  (cache_setAll_only i L g).kids

theorem cache_cacheSet_kids (g : G) (i u v : Nat) : (cacheSet g i u v).kids = g.kids := rfl

theorem cache_addModule_eq (g : G) (i v : Nat) :
    cacheAddModule g i v = cache_setAll g i (cache_walkM g.kids v) := by
  unfold cacheAddModule
  simp only []
  rw [cache_addLeaves_eq, cache_addSections_eq, cache_addLeaves_eq]
  simp only [cache_setAll_kids, cache_cacheSet_kids]
  unfold cache_walkM
  show _ = cache_setAll (cacheSet g i (g.uuid v) v) i _
  rw [cache_setAll_append, cache_setAll_append]

theorem cache_cacheAdd_eq (g : G) (i v : Nat) :
    cacheAdd g i v = cache_setAll g i (cache_walk g.kids (g.kind v) v) := by
  unfold cacheAdd cache_walk
  cases g.kind v <;> simp only [cache_addModule_eq, cache_addSection_eq, cache_addInterval_eq] <;> rfl

theorem cache_delLeaves_eq (g : G) (i : Nat) (L : List Nat) :
    foldE (fun g b => cacheDelLeaf g i b) L g = cache_delAll g i L := rfl

theorem cache_delAll_cons (g : G) (i x : Nat) (L : List Nat) :
    cache_delAll g i (x :: L) = bindE (cacheDel g i (g.uuid x)) (fun g1 => cache_delAll g1 i L) := by
  simp only [cache_delAll, foldE, bindE]

theorem cache_delInterval_eq (g : G) (i v : Nat) :
    cacheDelInterval g i v = cache_delAll g i (cache_walkI g.kids v) := by
  unfold cacheDelInterval cache_walkI
  rw [cache_delAll_cons]
  cases cacheDel g i (g.uuid v) <;> rfl

theorem cache_delIntervals_eq (i : Nat) : ∀ (L : List Nat) (g : G),
    foldE (fun g b => cacheDelInterval g i b) L g = cache_delAll g i (L.flatMap (cache_walkI g.kids))
  | [], g => rfl
  | b :: L, g => by
    rw [List.flatMap_cons, cache_delAll_append]
    simp only [foldE]
    rw [cache_delInterval_eq]
    cases h : cache_delAll g i (cache_walkI g.kids b) with
    | error e => rfl
    | ok g1 =>
      simp only [bindE]
      rw [cache_delIntervals_eq i L g1, (cache_delAll_only i _ g g1 h).kids]

theorem cache_delSection_eq (g : G) (i v : Nat) :
    cacheDelSection g i v = cache_delAll g i (cache_walkS g.kids v) := by
  unfold cacheDelSection cache_walkS
  rw [cache_delAll_cons]
  cases h : cacheDel g i (g.uuid v) with
  | error e => rfl
  | ok g1 =>
    simp only [bindE]
    rw [cache_delIntervals_eq, (cache_cacheDel_only h).kids]

theorem cache_delSections_eq (i : Nat) : ∀ (L : List Nat) (g : G),
    foldE (fun g b => cacheDelSection g i b) L g = cache_delAll g i (L.flatMap (cache_walkS g.kids))
  | [], g => rfl
  | b :: L, g => by
    rw [List.flatMap_cons, cache_delAll_append]
    simp only [foldE]
    rw [cache_delSection_eq]
    cases h : cache_delAll g i (cache_walkS g.kids b) with
    | error e => rfl
    | ok g1 =>
      simp only [bindE]
      rw [cache_delSections_eq i L g1, (cache_delAll_only i _ g g1 h).kids]

theorem cache_delModule_eq (g : G) (i v : Nat) :
    cacheDelModule g i v = cache_delAll g i (cache_walkM g.kids v) := by
  unfold cacheDelModule cache_walkM
  rw [cache_delAll_cons]
  cases h : cacheDel g i (g.uuid v) with
  | error e => rfl
  | ok g1 =>
    simp only [bindE]
    rw [cache_delAll_append, cache_delLeaves_eq]
    cases h2 : cache_delAll g1 i (g.kids v .proxies) with
    | error e => rfl
    | ok g2 =>
      simp only [bindE]
      rw [cache_delAll_append, cache_delSections_eq, (cache_delAll_only i _ g1 g2 h2).kids,
        (cache_cacheDel_only h).kids]
      cases h3 : cache_delAll g2 i (List.flatMap (cache_walkS g.kids) (g.kids v .secs)) with
      | error e => rfl
      | ok g3 => rfl

theorem cache_cacheRemove_eq (g : G) (i v : Nat) :
    cacheRemove g i v = cache_delAll g i (cache_walk g.kids (g.kind v) v) := by
  unfold cacheRemove cache_walk
  cases g.kind v <;> simp only [cache_delModule_eq, cache_delSection_eq, cache_delInterval_eq] <;>
    simp [cacheDelLeaf, cache_delAll, foldE] <;> cases cacheDel g i (g.uuid v) <;> rfl

theorem cache_setAll_other (i : Nat) : ∀ (L : List Nat) (g : G) (i' u' : Nat),
    ¬ (i' = i ∧ ∃ y, y ∈ L ∧ g.uuid y = u') → (cache_setAll g i L).cache i' u' = g.cache i' u'
  | [], g, i', u', _ => rfl
  | x :: L, g, i', u', h => by
    show (cache_setAll (cacheSet g i (g.uuid x) x) i L).cache i' u' = _
    rw [cache_setAll_other i L]
    · show (if i' = i ∧ u' = g.uuid x then some x else g.cache i' u') = _
      rw [if_neg]
      intro hh; exact h ⟨hh.1, x, List.mem_cons_self, hh.2.symm⟩
    · intro hh
      obtain ⟨h1, y, hy, hyu⟩ := hh
      exact h ⟨h1, y, List.mem_cons_of_mem _ hy, hyu⟩

theorem cache_setAll_hit (i : Nat) : ∀ (L : List Nat) (g : G),
    (∀ a, a ∈ L → ∀ b, b ∈ L → g.uuid a = g.uuid b → a = b) →
    ∀ y, y ∈ L → (cache_setAll g i L).cache i (g.uuid y) = some y
  | [], g, _, y, hy => by cases hy
  | x :: L, g, hinj, y, hy => by
    show (cache_setAll (cacheSet g i (g.uuid x) x) i L).cache i (g.uuid y) = _
    have ih := cache_setAll_hit i L (cacheSet g i (g.uuid x) x)
      (fun a ha b hb hab => hinj a (List.mem_cons_of_mem _ ha) b (List.mem_cons_of_mem _ hb) hab)
    by_cases hyL : y ∈ L
    · exact ih y hyL
    · have hyx : y = x := by
        rcases List.mem_cons.1 hy with h | h
        · exact h
        · exact absurd h hyL
      subst hyx
      rw [cache_setAll_other i L]
      · show (if i = i ∧ g.uuid y = g.uuid y then some y else g.cache i (g.uuid y)) = _
        simp
      · intro hh
        obtain ⟨_, z, hz, hzu⟩ := hh
        have : z = y := hinj z (List.mem_cons_of_mem _ hz) y List.mem_cons_self hzu
        exact hyL (this ▸ hz)

theorem cache_delAll_spec (i : Nat) : ∀ (L : List Nat) (g : G),
    (L.map g.uuid).Nodup → (∀ y, y ∈ L → g.cache i (g.uuid y) ≠ none) →
    ∃ g', cache_delAll g i L = .ok g' ∧
      (∀ i' u', (i' = i ∧ ∃ y, y ∈ L ∧ g.uuid y = u') → g'.cache i' u' = none) ∧
      (∀ i' u', ¬ (i' = i ∧ ∃ y, y ∈ L ∧ g.uuid y = u') → g'.cache i' u' = g.cache i' u')
  | [], g, _, _ => ⟨g, rfl, fun i' u' h => (by obtain ⟨_, y, hy, _⟩ := h; cases hy), fun _ _ _ => rfl⟩
  | x :: L, g, hnd, hpres => by
    rw [cache_delAll_cons]
    rw [List.map_cons, List.nodup_cons] at hnd
    have hx := hpres x List.mem_cons_self
    unfold cacheDel
    cases hcx : g.cache i (g.uuid x) with
    | none => exact absurd hcx hx
    | some w =>
      simp only [bindE]
      obtain ⟨g', hg', h1, h2⟩ := cache_delAll_spec i L
        { g with cache := fun i' u' => if i' = i ∧ u' = g.uuid x then none else g.cache i' u' }
        hnd.2 (by
          intro y hy
          show (if i = i ∧ g.uuid y = g.uuid x then none else g.cache i (g.uuid y)) ≠ none
          rw [if_neg]
          · exact hpres y (List.mem_cons_of_mem _ hy)
          · intro hh; exact hnd.1 (hh.2 ▸ List.mem_map_of_mem hy))
      refine ⟨g', hg', ?_, ?_⟩
      · intro i' u' hh
        obtain ⟨hi, y, hy, hyu⟩ := hh
        by_cases hyL : ∃ z, z ∈ L ∧ g.uuid z = u'
        · exact h1 i' u' ⟨hi, hyL⟩
        · rw [h2 i' u' (fun hh => hyL hh.2)]
          rcases List.mem_cons.1 hy with h | h
          · subst h
            show (if i' = i ∧ u' = g.uuid y then none else g.cache i' u') = none
            rw [if_pos ⟨hi, hyu.symm⟩]
          · exact absurd ⟨y, h, hyu⟩ hyL
      · intro i' u' hh
        rw [h2 i' u' (fun hh' => hh ⟨hh'.1, by
          obtain ⟨z, hz, hzu⟩ := hh'.2; exact ⟨z, List.mem_cons_of_mem _ hz, hzu⟩⟩)]
        show (if i' = i ∧ u' = g.uuid x then none else g.cache i' u') = _
        rw [if_neg]
        intro h; exact hh ⟨h.1, x, List.mem_cons_self, h.2.symm⟩

/-! ## Part B: the walked list = the descendants -/

theorem cache_desc_top {g : G} {v x : Nat} (hd : CacheDesc g v x) :
    x = v ∨ ∃ c, g.par c = some v ∧ CacheDesc g c x := by
  induction hd with
  | refl => exact .inl rfl
  | @step x a hp _ ih =>
    right
    rcases ih with rfl | ⟨c, hc, hd⟩
    · exact ⟨x, hp, .refl⟩
    · exact ⟨c, hc, .step hp hd⟩

theorem cache_desc_leaf {g : G} (h : CacheParInv g) {v x : Nat}
    (hk : ∀ k', parentKind k' ≠ some (g.kind v)) (hd : CacheDesc g v x) : x = v := by
  rcases cache_desc_top hd with h1 | ⟨c, hc, _⟩
  · exact h1
  · exact absurd (h.kind_ok c v hc) (hk _)

theorem cache_child_of_interval {k : Kind} (h : parentKind k = some .interval) : k = .code ∨ k = .data := by
  cases k <;> simp_all [parentKind]
theorem cache_child_of_section {k : Kind} (h : parentKind k = some .section) : k = .interval := by
  cases k <;> simp_all [parentKind]
theorem cache_child_of_module {k : Kind} (h : parentKind k = some .module) :
    k = .section ∨ k = .symbol ∨ k = .proxy := by
  cases k <;> simp_all [parentKind]
theorem cache_no_child_code (k : Kind) : parentKind k ≠ some .code := by cases k <;> simp [parentKind]
theorem cache_no_child_data (k : Kind) : parentKind k ≠ some .data := by cases k <;> simp [parentKind]
theorem cache_no_child_symbol (k : Kind) : parentKind k ≠ some .symbol := by cases k <;> simp [parentKind]
theorem cache_no_child_proxy (k : Kind) : parentKind k ≠ some .proxy := by cases k <;> simp [parentKind]

theorem cache_slot_bis {k : Kind} (h : slotOf k = some .bis) : k = .interval := by
  cases k <;> simp_all [slotOf]
theorem cache_slot_secs {k : Kind} (h : slotOf k = some .secs) : k = .section := by
  cases k <;> simp_all [slotOf]
theorem cache_slot_syms {k : Kind} (h : slotOf k = some .syms) : k = .symbol := by
  cases k <;> simp_all [slotOf]
theorem cache_slot_proxies {k : Kind} (h : slotOf k = some .proxies) : k = .proxy := by
  cases k <;> simp_all [slotOf]
theorem cache_slot_blocks {k : Kind} (h : slotOf k = some .blocks) : k = .code ∨ k = .data := by
  cases k <;> simp_all [slotOf]

theorem cache_par_ne_self {g : G} (h : CacheParInv g) {v : Nat} : g.par v ≠ some v := by
  intro hp; have := cache_rank_par h hp; omega

/-- no proper descendant of a child of `v` is `v` -/
theorem cache_desc_child_ne {g : G} (h : CacheParInv g) {v c : Nat} (hc : g.par c = some v)
    (hd : CacheDesc g c v) : False := by
  have h1 := cache_rank_par h hc
  rcases cache_desc_rank h hd with h2 | h2
  · subst h2; omega
  · omega

theorem cache_mem_walkI_iff {g : G} (hf : ForestInv g) {v x : Nat} (hk : g.kind v = .interval) :
    x ∈ cache_walkI g.kids v ↔ CacheDesc g v x := by
  have hp := hf.cache_parInv
  unfold cache_walkI
  rw [List.mem_cons]
  constructor
  · rintro (rfl | h)
    · exact .refl
    · exact .step ((hf.mem_iff _ _ _).1 h).1 .refl
  · intro hd
    rcases cache_desc_top hd with h1 | ⟨c, hc, hdc⟩
    · exact .inl h1
    · right
      have hkc := hp.kind_ok c v hc
      rw [hk] at hkc
      have hxc : x = c := by
        rcases cache_child_of_interval hkc with h2 | h2
        · exact cache_desc_leaf hp (by rw [h2]; exact cache_no_child_code) hdc
        · exact cache_desc_leaf hp (by rw [h2]; exact cache_no_child_data) hdc
      subst hxc
      refine (hf.mem_iff _ _ _).2 ⟨hc, ?_⟩
      rcases cache_child_of_interval hkc with h2 | h2 <;> rw [h2] <;> rfl

theorem cache_nodup_walkI {g : G} (hf : ForestInv g) (v : Nat) : (cache_walkI g.kids v).Nodup := by
  unfold cache_walkI
  rw [List.nodup_cons]
  refine ⟨fun h => cache_par_ne_self hf.cache_parInv ((hf.mem_iff _ _ _).1 h).1, hf.nodup _ _⟩

/-- generic level lemma for the walked lists -/
theorem cache_nodup_flat {g : G} (hp : CacheParInv g) {v : Nat} {C : List Nat} {f : Nat → List Nat}
    (hC : C.Nodup) (hpar : ∀ c, c ∈ C → g.par c = some v) (hf : ∀ c, c ∈ C → (f c).Nodup)
    (hd : ∀ c, c ∈ C → ∀ x, x ∈ f c → CacheDesc g c x) : (C.flatMap f).Nodup := by
  rw [List.nodup_iff_pairwise_ne, List.pairwise_flatMap]
  refine ⟨hf, ?_⟩
  refine List.Pairwise.imp_of_mem ?_ hC
  intro a b ha hb hab x hx y hy hxy
  subst hxy
  apply hab
  apply cache_desc_same_rank hp (hd a ha x hx) (hd b hb x hy)
  have h1 := cache_rank_par hp (hpar a ha)
  have h2 := cache_rank_par hp (hpar b hb)
  omega

theorem cache_mem_walkS_iff {g : G} (hf : ForestInv g) {v x : Nat} (hk : g.kind v = .section) :
    x ∈ cache_walkS g.kids v ↔ CacheDesc g v x := by
  have hp := hf.cache_parInv
  unfold cache_walkS
  rw [List.mem_cons, List.mem_flatMap]
  constructor
  · rintro (rfl | ⟨b, hb, hx⟩)
    · exact .refl
    · have hb' := (hf.mem_iff _ _ _).1 hb
      exact cache_desc_trans (.step hb'.1 .refl) ((cache_mem_walkI_iff hf (cache_slot_bis hb'.2)).1 hx)
  · intro hd
    rcases cache_desc_top hd with h1 | ⟨c, hc, hdc⟩
    · exact .inl h1
    · right
      have hkc := hp.kind_ok c v hc
      rw [hk] at hkc
      have hkc' := cache_child_of_section hkc
      exact ⟨c, (hf.mem_iff _ _ _).2 ⟨hc, by rw [hkc']; rfl⟩, (cache_mem_walkI_iff hf hkc').2 hdc⟩

theorem cache_nodup_walkS {g : G} (hf : ForestInv g) (v : Nat) : (cache_walkS g.kids v).Nodup := by
  have hp := hf.cache_parInv
  unfold cache_walkS
  rw [List.nodup_cons]
  constructor
  · intro h
    obtain ⟨b, hb, hx⟩ := List.mem_flatMap.1 h
    have hb' := (hf.mem_iff _ _ _).1 hb
    exact cache_desc_child_ne hp hb'.1 ((cache_mem_walkI_iff hf (cache_slot_bis hb'.2)).1 hx)
  · exact cache_nodup_flat hp (hf.nodup _ _) (fun c hc => ((hf.mem_iff _ _ _).1 hc).1)
      (fun c _ => cache_nodup_walkI hf c)
      (fun c hc x hx => (cache_mem_walkI_iff hf (cache_slot_bis ((hf.mem_iff _ _ _).1 hc).2)).1 hx)

/-- every element of the module walk except the head sits below a child of `v`, in a known slot -/
theorem cache_walkM_tail {g : G} (hf : ForestInv g) {v x : Nat} :
    x ∈ g.kids v .proxies ++ ((g.kids v .secs).flatMap (cache_walkS g.kids) ++ g.kids v .syms) ↔
    ((x ∈ g.kids v .proxies) ∨ (∃ c, c ∈ g.kids v .secs ∧ CacheDesc g c x) ∨ (x ∈ g.kids v .syms)) := by
  rw [List.mem_append, List.mem_append, List.mem_flatMap]
  constructor
  · rintro (h | ⟨c, hc, hx⟩ | h)
    · exact .inl h
    · exact .inr (.inl ⟨c, hc, (cache_mem_walkS_iff hf (cache_slot_secs ((hf.mem_iff _ _ _).1 hc).2)).1 hx⟩)
    · exact .inr (.inr h)
  · rintro (h | ⟨c, hc, hx⟩ | h)
    · exact .inl h
    · exact .inr (.inl ⟨c, hc, (cache_mem_walkS_iff hf (cache_slot_secs ((hf.mem_iff _ _ _).1 hc).2)).2 hx⟩)
    · exact .inr (.inr h)

theorem cache_mem_walkM_iff {g : G} (hf : ForestInv g) {v x : Nat} (hk : g.kind v = .module) :
    x ∈ cache_walkM g.kids v ↔ CacheDesc g v x := by
  have hp := hf.cache_parInv
  unfold cache_walkM
  rw [List.mem_cons, cache_walkM_tail hf]
  constructor
  · rintro (rfl | h | ⟨c, hc, hx⟩ | h)
    · exact .refl
    · exact .step ((hf.mem_iff _ _ _).1 h).1 .refl
    · exact cache_desc_trans (.step ((hf.mem_iff _ _ _).1 hc).1 .refl) hx
    · exact .step ((hf.mem_iff _ _ _).1 h).1 .refl
  · intro hd
    rcases cache_desc_top hd with h1 | ⟨c, hc, hdc⟩
    · exact .inl h1
    · right
      have hkc := hp.kind_ok c v hc
      rw [hk] at hkc
      rcases cache_child_of_module hkc with h2 | h2 | h2
      · exact .inr (.inl ⟨c, (hf.mem_iff _ _ _).2 ⟨hc, by rw [h2]; rfl⟩, hdc⟩)
      · have hxc : x = c := cache_desc_leaf hp (by rw [h2]; exact cache_no_child_symbol) hdc
        subst hxc
        exact .inr (.inr ((hf.mem_iff _ _ _).2 ⟨hc, by rw [h2]; rfl⟩))
      · have hxc : x = c := cache_desc_leaf hp (by rw [h2]; exact cache_no_child_proxy) hdc
        subst hxc
        exact .inl ((hf.mem_iff _ _ _).2 ⟨hc, by rw [h2]; rfl⟩)

theorem cache_nodup_walkM {g : G} (hf : ForestInv g) (v : Nat) : (cache_walkM g.kids v).Nodup := by
  have hp := hf.cache_parInv
  unfold cache_walkM
  rw [List.nodup_cons]
  constructor
  · rw [cache_walkM_tail hf]
    rintro (h | ⟨c, hc, hx⟩ | h)
    · exact cache_par_ne_self hp ((hf.mem_iff _ _ _).1 h).1
    · exact cache_desc_child_ne hp ((hf.mem_iff _ _ _).1 hc).1 hx
    · exact cache_par_ne_self hp ((hf.mem_iff _ _ _).1 h).1
  · have hS : ((g.kids v .secs).flatMap (cache_walkS g.kids)).Nodup :=
      cache_nodup_flat hp (hf.nodup _ _) (fun c hc => ((hf.mem_iff _ _ _).1 hc).1)
        (fun c _ => cache_nodup_walkS hf c)
        (fun c hc x hx => (cache_mem_walkS_iff hf (cache_slot_secs ((hf.mem_iff _ _ _).1 hc).2)).1 hx)
    have hSx : ∀ x, x ∈ (g.kids v .secs).flatMap (cache_walkS g.kids) →
        ∃ c, c ∈ g.kids v .secs ∧ CacheDesc g c x := by
      intro x hx
      obtain ⟨c, hc, hx⟩ := List.mem_flatMap.1 hx
      exact ⟨c, hc, (cache_mem_walkS_iff hf (cache_slot_secs ((hf.mem_iff _ _ _).1 hc).2)).1 hx⟩
    -- a child of `v` that lies below a section child of `v` is that section
    have hsame : ∀ x c, g.par x = some v → c ∈ g.kids v .secs → CacheDesc g c x → x = c := by
      intro x c hx hc hd
      have hc' := ((hf.mem_iff _ _ _).1 hc).1
      have h1 := cache_rank_par hp hx
      have h2 := cache_rank_par hp hc'
      exact cache_desc_same_rank hp .refl hd (by omega)
    rw [List.nodup_append]
    refine ⟨hf.nodup _ _, ?_, ?_⟩
    · rw [List.nodup_append]
      refine ⟨hS, hf.nodup _ _, ?_⟩
      intro a ha b hb hab
      subst hab
      obtain ⟨c, hc, hd⟩ := hSx a ha
      have hb' := (hf.mem_iff _ _ _).1 hb
      have := hsame a c hb'.1 hc hd
      subst this
      have hc' := (hf.mem_iff _ _ _).1 hc
      rw [hc'.2] at hb'; exact absurd hb'.2 (by decide)
    · intro a ha b hb hab
      subst hab
      have ha' := (hf.mem_iff _ _ _).1 ha
      rcases List.mem_append.1 hb with hb | hb
      · obtain ⟨c, hc, hd⟩ := hSx a hb
        have := hsame a c ha'.1 hc hd
        subst this
        have hc' := (hf.mem_iff _ _ _).1 hc
        rw [hc'.2] at ha'; exact absurd ha'.2 (by decide)
      · have hb' := (hf.mem_iff _ _ _).1 hb
        rw [hb'.2] at ha'; exact absurd ha'.2 (by decide)

theorem cache_mem_walk_iff {g : G} (hf : ForestInv g) {v x : Nat} (hk : g.kind v ≠ .ir) :
    x ∈ cache_walk g.kids (g.kind v) v ↔ CacheDesc g v x := by
  have hp := hf.cache_parInv
  unfold cache_walk
  cases hkv : g.kind v with
  | ir => exact absurd hkv hk
  | module => exact cache_mem_walkM_iff hf hkv
  | «section» => exact cache_mem_walkS_iff hf hkv
  | interval => exact cache_mem_walkI_iff hf hkv
  | code =>
    simp only [List.mem_singleton]
    exact ⟨fun h => h ▸ .refl, cache_desc_leaf hp (by rw [hkv]; exact cache_no_child_code)⟩
  | data =>
    simp only [List.mem_singleton]
    exact ⟨fun h => h ▸ .refl, cache_desc_leaf hp (by rw [hkv]; exact cache_no_child_data)⟩
  | proxy =>
    simp only [List.mem_singleton]
    exact ⟨fun h => h ▸ .refl, cache_desc_leaf hp (by rw [hkv]; exact cache_no_child_proxy)⟩
  | symbol =>
    simp only [List.mem_singleton]
    exact ⟨fun h => h ▸ .refl, cache_desc_leaf hp (by rw [hkv]; exact cache_no_child_symbol)⟩

theorem cache_nodup_walk {g : G} (hf : ForestInv g) (v : Nat) :
    (cache_walk g.kids (g.kind v) v).Nodup := by
  unfold cache_walk
  cases g.kind v <;> simp only [List.nodup_cons, List.not_mem_nil, not_false_eq_true, List.nodup_nil, and_self]
  · exact cache_nodup_walkM hf v
  · exact cache_nodup_walkS hf v
  · exact cache_nodup_walkI hf v

/-! ## Part D: the two core theorems -/

theorem cache_parInv_detach {g g' : G} (hp : CacheParInv g) {v : Nat}
    (hn : g'.n = g.n) (hk : g'.kind = g.kind)
    (hparv : g'.par v = none) (hpar : ∀ x, x ≠ v → g'.par x = g.par x) : CacheParInv g' := by
  constructor
  · intro c p h
    have hcv : c ≠ v := by intro e; subst e; rw [hparv] at h; cases h
    rw [hpar c hcv] at h
    rw [hk]; exact hp.kind_ok c p h
  · intro c p h
    have hcv : c ≠ v := by intro e; subst e; rw [hparv] at h; cases h
    rw [hpar c hcv] at h
    rw [hn]; exact hp.alloc c p h

theorem cache_parInv_attach {g g' : G} (hp : CacheParInv g) {v p : Nat}
    (hv : v < g.n) (hpn : p < g.n) (hkp : parentKind (g.kind v) = some (g.kind p))
    (hn : g'.n = g.n) (hk : g'.kind = g.kind)
    (hparv : g'.par v = some p) (hpar : ∀ x, x ≠ v → g'.par x = g.par x) : CacheParInv g' := by
  constructor
  · intro c q h
    by_cases hcv : c = v
    · subst hcv; rw [hparv] at h; cases h; rw [hk]; exact hkp
    · rw [hpar c hcv] at h; rw [hk]; exact hp.kind_ok c q h
  · intro c q h
    by_cases hcv : c = v
    · subst hcv; rw [hparv] at h; cases h; rw [hn]; exact ⟨hv, hpn⟩
    · rw [hpar c hcv] at h; rw [hn]; exact hp.alloc c q h

/-- a detached non-IR node and all its descendants have no IR -/
theorem cache_desc_detached {g : G} (hp : CacheParInv g) {v x : Nat} (hparv : g.par v = none)
    (hkv : g.kind v ≠ .ir) (hd : CacheDesc g v x) : irOf g x = none := by
  rw [cache_desc_irOf hp hd, cache_irOf_root hparv, if_neg hkv]

/-- Core theorem 1: the back-pointer of `v` is cleared and the entries of `v`'s subtree are
removed from the table of `v`'s IR (if any). -/
theorem cache_core_detach {g g' : G} (hp : CacheParInv g) (hc : CacheInv g) (hd : Distinct g)
    {v : Nat} (hv : v < g.n) (hkv : g.kind v ≠ .ir)
    (hn : g'.n = g.n) (hk : g'.kind = g.kind) (hu : g'.uuid = g.uuid)
    (hparv : g'.par v = none) (hpar : ∀ x, x ≠ v → g'.par x = g.par x)
    (hc1 : ∀ i u, (irOf g v = some i ∧ ∃ y, CacheDesc g v y ∧ g.uuid y = u) → g'.cache i u = none)
    (hc2 : ∀ i u, ¬ (irOf g v = some i ∧ ∃ y, CacheDesc g v y ∧ g.uuid y = u) →
      g'.cache i u = g.cache i u) :
    CacheInv g' := by
  have hp' := cache_parInv_detach hp hn hk hparv hpar
  intro i u x
  rw [hn, hk, hu]
  by_cases hdx : CacheDesc g v x
  · have h1 : irOf g' x = none :=
      cache_desc_detached hp' hparv (by rw [hk]; exact hkv) (cache_desc_frame hp hpar hdx)
    constructor
    · intro h
      exfalso
      by_cases hcond : irOf g v = some i ∧ ∃ y, CacheDesc g v y ∧ g.uuid y = u
      · rw [hc1 i u hcond] at h; cases h
      · rw [hc2 i u hcond] at h
        have := (hc i u x).1 h
        apply hcond
        refine ⟨?_, x, hdx, this.2.2.2.2⟩
        rw [← cache_desc_irOf hp hdx]; exact this.2.2.2.1
    · intro h; rw [h1] at h; cases h.2.2.2.1
  · have h1 : irOf g' x = irOf g x := cache_irOf_frame' hp hp' hk hpar hdx
    rw [h1, ← hc i u x]
    by_cases hcond : irOf g v = some i ∧ ∃ y, CacheDesc g v y ∧ g.uuid y = u
    · rw [hc1 i u hcond]
      constructor
      · intro h; cases h
      · intro h
        exfalso
        obtain ⟨hi, y, hdy, hyu⟩ := hcond
        have hx := (hc i u x).1 h
        have : x = y := hd x y i hx.2.2.1 (cache_desc_lt hp hdy hv) hx.2.2.2.1
          (by rw [cache_desc_irOf hp hdy]; exact hi) (by rw [hx.2.2.2.2, hyu])
        exact hdx (this ▸ hdy)
    · rw [hc2 i u hcond]

/-- detaching keeps the UUIDs distinct -/
theorem cache_distinct_detach {g g' : G} (hp : CacheParInv g) (hd : Distinct g)
    {v : Nat} (hkv : g.kind v ≠ .ir)
    (hn : g'.n = g.n) (hk : g'.kind = g.kind) (hu : g'.uuid = g.uuid)
    (hparv : g'.par v = none) (hpar : ∀ x, x ≠ v → g'.par x = g.par x) : Distinct g' := by
  have hp' := cache_parInv_detach hp hn hk hparv hpar
  have key : ∀ a i, irOf g' a = some i → irOf g a = some i := by
    intro a i h
    by_cases hda : CacheDesc g v a
    · rw [cache_desc_detached hp' hparv (by rw [hk]; exact hkv) (cache_desc_frame hp hpar hda)] at h
      cases h
    · rw [cache_irOf_frame' hp hp' hk hpar hda] at h; exact h
  intro a b i ha hb hia hib hab
  rw [hn] at ha hb; rw [hu] at hab
  exact hd a b i ha hb (key a i hia) (key b i hib) hab

/-- Core theorem 2: the detached node `v` gets the back-pointer `p`, and the entries of `v`'s
subtree are written into the table of `p`'s IR (if any). -/
theorem cache_core_attach {g g' : G} (hp : CacheParInv g) (hc : CacheInv g) (hd' : Distinct g')
    {v p : Nat} (hv : v < g.n) (hpn : p < g.n) (hkp : parentKind (g.kind v) = some (g.kind p))
    (hpv : g.par v = none)
    (hn : g'.n = g.n) (hk : g'.kind = g.kind) (hu : g'.uuid = g.uuid)
    (hparv : g'.par v = some p) (hpar : ∀ x, x ≠ v → g'.par x = g.par x)
    (hc1 : ∀ i y, irOf g p = some i → CacheDesc g v y → g'.cache i (g.uuid y) = some y)
    (hc2 : ∀ i u, ¬ (irOf g p = some i ∧ ∃ y, CacheDesc g v y ∧ g.uuid y = u) →
      g'.cache i u = g.cache i u) :
    CacheInv g' := by
  have hp' := cache_parInv_attach hp hv hpn hkp hn hk hparv hpar
  have hkv : g.kind v ≠ .ir := by intro e; rw [e] at hkp; cases hkp
  have hndp : ¬ CacheDesc g v p := by
    intro h
    have h1 := cache_rank_parentKind hkp
    rcases cache_desc_rank hp h with h2 | h2
    · rw [h2] at h1; omega
    · omega
  have hirp : irOf g' p = irOf g p := cache_irOf_frame' hp hp' hk hpar hndp
  have hirv : irOf g' v = irOf g p := by rw [cache_irOf_par hp' hparv, hirp]
  intro i u x
  rw [hn, hk, hu]
  by_cases hdx : CacheDesc g v x
  · have h1 : irOf g' x = irOf g p := by
      rw [cache_desc_irOf hp' (cache_desc_frame hp hpar hdx), hirv]
    have h0 : irOf g x = none := cache_desc_detached hp hpv hkv hdx
    rw [h1]
    constructor
    · intro h
      by_cases hcond : irOf g p = some i ∧ ∃ y, CacheDesc g v y ∧ g.uuid y = u
      · obtain ⟨hi, y, hdy, hyu⟩ := hcond
        have := hc1 i y hi hdy
        rw [hyu, h] at this; cases this
        have := cache_irOf_some' hp hpn hi
        exact ⟨this.1, this.2, cache_desc_lt hp hdx hv, hi, hyu⟩
      · rw [hc2 i u hcond] at h
        have := (hc i u x).1 h
        rw [h0] at this; cases this.2.2.2.1
    · intro h
      have := hc1 i x h.2.2.2.1 hdx
      rw [h.2.2.2.2] at this; exact this
  · have h1 : irOf g' x = irOf g x := cache_irOf_frame' hp hp' hk hpar hdx
    rw [h1, ← hc i u x]
    by_cases hcond : irOf g p = some i ∧ ∃ y, CacheDesc g v y ∧ g.uuid y = u
    · obtain ⟨hi, y, hdy, hyu⟩ := hcond
      have hy := hc1 i y hi hdy
      rw [hyu] at hy
      rw [hy]
      constructor
      · intro h; cases h; exact absurd hdy hdx
      · intro h
        exfalso
        have hx := (hc i u x).1 h
        have hiry : irOf g' y = some i := by
          rw [cache_desc_irOf hp' (cache_desc_frame hp hpar hdy), hirv]; exact hi
        have : x = y := hd' x y i (by rw [hn]; exact hx.2.2.1)
          (by rw [hn]; exact cache_desc_lt hp hdy hv) (by rw [h1]; exact hx.2.2.2.1) hiry
          (by rw [hu, hx.2.2.2.2, hyu])
        exact hdx (this ▸ hdy)
    · rw [hc2 i u hcond]

/-! ## Part E: primitives -/

theorem cache_nodup_map {L : List Nat} {f : Nat → Nat} (hL : L.Nodup)
    (hinj : ∀ a, a ∈ L → ∀ b, b ∈ L → f a = f b → a = b) : (L.map f).Nodup := by
  rw [List.nodup_iff_pairwise_ne, List.pairwise_map]
  exact List.Pairwise.imp_of_mem (fun ha hb hab h => hab (hinj _ ha _ hb h)) hL

/-- `cacheRemove` of the subtree of `v` in a state `gx` that has the collections, kinds, UUIDs and
table of a well-formed state `gf` in which `v` belongs to IR `i` -/
theorem cache_cacheRemove_spec {gf gx : G} (hp : CacheParInv gf) (hc : CacheInv gf) (hd : Distinct gf)
    (hkids : gx.kids = gf.kids) (hkind : gx.kind = gf.kind) (huuid : gx.uuid = gf.uuid)
    (hcache : gx.cache = gf.cache)
    {v i : Nat} (hv : v < gf.n) (hi : irOf gf v = some i)
    (hW : ∀ y, y ∈ cache_walk gf.kids (gf.kind v) v ↔ CacheDesc gf v y)
    (hnd : (cache_walk gf.kids (gf.kind v) v).Nodup) :
    ∃ g', cacheRemove gx i v = .ok g' ∧ CacheOnly gx g' ∧
      (∀ i' u, (i' = i ∧ ∃ y, CacheDesc gf v y ∧ gf.uuid y = u) → g'.cache i' u = none) ∧
      (∀ i' u, ¬ (i' = i ∧ ∃ y, CacheDesc gf v y ∧ gf.uuid y = u) → g'.cache i' u = gf.cache i' u) := by
  rw [cache_cacheRemove_eq, hkids, hkind]
  have hiry : ∀ y, CacheDesc gf v y → y < gf.n ∧ irOf gf y = some i := fun y hy =>
    ⟨cache_desc_lt hp hy hv, by rw [cache_desc_irOf hp hy]; exact hi⟩
  have hii := cache_irOf_some' hp hv hi
  obtain ⟨g', hg', h1, h2⟩ := cache_delAll_spec i (cache_walk gf.kids (gf.kind v) v) gx
    (by
      rw [huuid]
      apply cache_nodup_map hnd
      intro a ha b hb hab
      have ha' := hiry a ((hW a).1 ha)
      have hb' := hiry b ((hW b).1 hb)
      exact hd a b i ha'.1 hb'.1 ha'.2 hb'.2 hab)
    (by
      intro y hy
      have hy' := hiry y ((hW y).1 hy)
      rw [hcache, huuid, (hc i (gf.uuid y) y).2 ⟨hii.1, hii.2, hy'.1, hy'.2, rfl⟩]
      simp)
  refine ⟨g', hg', cache_delAll_only i _ _ _ hg', ?_, ?_⟩
  · intro i' u hh
    apply h1
    obtain ⟨hi', y, hy, hyu⟩ := hh
    exact ⟨hi', y, (hW y).2 hy, by rw [huuid]; exact hyu⟩
  · intro i' u hh
    rw [h2, hcache]
    intro hh'
    obtain ⟨hi', y, hy, hyu⟩ := hh'
    exact hh ⟨hi', y, (hW y).1 hy, by rw [← huuid]; exact hyu⟩

theorem cache_cacheAdd_spec {gf gx : G}
    (hkids : gx.kids = gf.kids) (hkind : gx.kind = gf.kind) (huuid : gx.uuid = gf.uuid)
    {v : Nat} (i : Nat)
    (hW : ∀ y, y ∈ cache_walk gf.kids (gf.kind v) v ↔ CacheDesc gf v y) :
    CacheOnly gx (cacheAdd gx i v) ∧
      ((∀ a b, CacheDesc gf v a → CacheDesc gf v b → gf.uuid a = gf.uuid b → a = b) →
        ∀ y, CacheDesc gf v y → (cacheAdd gx i v).cache i (gf.uuid y) = some y) ∧
      (∀ i' u, ¬ (i' = i ∧ ∃ y, CacheDesc gf v y ∧ gf.uuid y = u) →
        (cacheAdd gx i v).cache i' u = gx.cache i' u) := by
  rw [cache_cacheAdd_eq, hkids, hkind]
  refine ⟨cache_setAll_only i _ gx, ?_, ?_⟩
  · intro hinj y hy
    rw [← huuid]
    apply cache_setAll_hit
    · intro a ha b hb hab
      rw [huuid] at hab
      exact hinj a b ((hW a).1 ha) ((hW b).1 hb) hab
    · exact (hW y).2 hy
  · intro i' u hh
    apply cache_setAll_other
    intro hh'
    obtain ⟨hi', y, hy, hyu⟩ := hh'
    exact hh ⟨hi', y, (hW y).1 hy, by rw [← huuid]; exact hyu⟩

/-- for a block the walked list is the node itself, whatever the collections are -/
theorem cache_walk_leaf {g : G} (hp : CacheParInv g) {v : Nat} (hk : g.kind v = .code ∨ g.kind v = .data)
    (k : Nat → Slot → List Nat) :
    (∀ y, y ∈ cache_walk k (g.kind v) v ↔ CacheDesc g v y) ∧ (cache_walk k (g.kind v) v).Nodup := by
  rcases hk with hk | hk <;> rw [hk] <;> simp only [cache_walk, List.mem_singleton, List.nodup_cons,
    List.not_mem_nil, not_false_eq_true, List.nodup_nil, and_self, and_true] <;> intro y
  · exact ⟨fun h => h ▸ .refl, cache_desc_leaf hp (by rw [hk]; exact cache_no_child_code)⟩
  · exact ⟨fun h => h ▸ .refl, cache_desc_leaf hp (by rw [hk]; exact cache_no_child_data)⟩

/-- the fields the invariants of C03 read all agree (the symbol indexes may differ) -/
structure CacheSame (g g' : G) : Prop where
  n : g'.n = g.n
  kind : g'.kind = g.kind
  uuid : g'.uuid = g.uuid
  par : g'.par = g.par
  kids : g'.kids = g.kids
  cache : g'.cache = g.cache

theorem CacheSame.rfl' (g : G) : CacheSame g g := ⟨rfl, rfl, rfl, rfl, rfl, rfl⟩

theorem cache_symIndexDiscard_same (g : G) (m v : Nat) : CacheSame g (symIndexDiscard g m v) := by
  unfold symIndexDiscard
  split
  · split <;> exact ⟨rfl, rfl, rfl, rfl, rfl, rfl⟩
  · exact CacheSame.rfl' g

theorem cache_symIndexAdd_same (g : G) (m v : Nat) : CacheSame g (symIndexAdd g m v) := by
  unfold symIndexAdd
  split
  · split <;> exact ⟨rfl, rfl, rfl, rfl, rfl, rfl⟩
  · exact CacheSame.rfl' g

theorem CacheSame.irOf {g g' : G} (h : CacheSame g g') (x : Nat) : irOf g' x = irOf g x :=
  cache_irOf_congr h.kind h.par x

/-- `ForestInv` after unlinking `v` from `p` -/
theorem cache_forest_detach {g g' : G} (hf : ForestInv g) {p v : Nat} {s : Slot} (hm : v ∈ g.kids p s)
    (hn : g'.n = g.n) (hk : g'.kind = g.kind)
    (hpar : g'.par = fun x => if x = v then none else g.par x)
    (hkids : g'.kids = fun p' s' => if p' = p ∧ s' = s then (g.kids p s).erase v else g.kids p' s') :
    ForestInv g' := by
  have hm' := (hf.mem_iff _ _ _).1 hm
  have hp' : CacheParInv g' := cache_parInv_detach (v := v) hf.cache_parInv hn hk (by rw [hpar]; simp)
    (by intro x hx; rw [hpar]; simp [hx])
  refine ⟨?_, ?_, hp'.kind_ok, hp'.alloc⟩
  · intro c p' s'
    rw [hkids, hpar, hk]
    by_cases hps : p' = p ∧ s' = s
    · obtain ⟨rfl, rfl⟩ := hps
      simp only [and_self, if_true]
      rw [(hf.nodup p' s').mem_erase_iff, hf.mem_iff]
      by_cases hcv : c = v
      · simp [hcv]
      · simp [hcv]
    · simp only [hps, if_false]
      rw [hf.mem_iff]
      by_cases hcv : c = v
      · subst hcv
        simp only [if_true]
        constructor
        · intro h
          rw [hm'.1, hm'.2] at h
          exact absurd ⟨(Option.some.inj h.1).symm, (Option.some.inj h.2).symm⟩ hps
        · intro h; cases h.1
      · simp [hcv]
  · intro p' s'
    rw [hkids]
    by_cases hps : p' = p ∧ s' = s
    · simp only [hps, and_self, if_true]; exact (hf.nodup p s).erase v
    · simp only [hps, if_false]; exact hf.nodup p' s'

/-- facts about a detach that later steps use -/
structure CacheDetached (g g' : G) (v : Nat) : Prop where
  n : g'.n = g.n
  kind : g'.kind = g.kind
  uuid : g'.uuid = g.uuid
  parv : g'.par v = none
  par : ∀ x, x ≠ v → g'.par x = g.par x
  cacheInv : CacheInv g'
  distinct : Distinct g'

/-- `setDiscard` of a member: succeeds, unlinks, keeps the table exact. The collections enter only
through the walked list of `v`. -/
theorem cache_setDiscard_core {g : G} (hp : CacheParInv g) (hc : CacheInv g) (hd : Distinct g)
    {p v : Nat} {s : Slot} (hv : v < g.n) (hkv : g.kind v ≠ .ir) (hm : v ∈ g.kids p s)
    (hpv : g.par v = some p)
    (hW : ∀ y, y ∈ cache_walk g.kids (g.kind v) v ↔ CacheDesc g v y)
    (hnd : (cache_walk g.kids (g.kind v) v).Nodup) :
    ∃ g', setDiscard g p s v = .ok g' ∧ CacheDetached g g' v ∧
      g'.kids = (fun p' s' => if p' = p ∧ s' = s then (g.kids p s).erase v else g.kids p' s') ∧
      g'.par = (fun x => if x = v then none else g.par x) := by
  unfold setDiscard
  simp only [hm, if_true]
  -- the state before the table update
  have key : ∀ g2 : G, CacheSame (setPar g v none) g2 →
      ∃ g', (match irOf g2 p with
        | some i => match cacheRemove g2 i v with
          | .ok g3 => Except.ok (kidsErase g3 p s v)
          | .error e => .error e
        | none => .ok (kidsErase g2 p s v)) = .ok g' ∧ CacheDetached g g' v ∧
      g'.kids = (fun p' s' => if p' = p ∧ s' = s then (g.kids p s).erase v else g.kids p' s') ∧
      g'.par = (fun x => if x = v then none else g.par x) := by
    intro g2 h2
    have h2par : g2.par = fun x => if x = v then none else g.par x := h2.par
    have hparv : g2.par v = none := by rw [h2par]; simp
    have hparx : ∀ x, x ≠ v → g2.par x = g.par x := by intro x hx; rw [h2par]; simp [hx]
    have hp2 : CacheParInv g2 := cache_parInv_detach hp h2.n h2.kind hparv hparx
    have hirp : irOf g2 p = irOf g v := by
      rw [cache_irOf_frame' hp hp2 h2.kind hparx (fun h => cache_desc_child_ne hp hpv h),
        cache_irOf_par hp hpv]
    rw [hirp]
    have finish : ∀ g3 : G, CacheOnly g2 g3 →
        (∀ i u, (irOf g v = some i ∧ ∃ y, CacheDesc g v y ∧ g.uuid y = u) → g3.cache i u = none) →
        (∀ i u, ¬ (irOf g v = some i ∧ ∃ y, CacheDesc g v y ∧ g.uuid y = u) →
          g3.cache i u = g.cache i u) →
        CacheDetached g (kidsErase g3 p s v) v ∧
        (kidsErase g3 p s v).kids =
          (fun p' s' => if p' = p ∧ s' = s then (g.kids p s).erase v else g.kids p' s') ∧
        (kidsErase g3 p s v).par = (fun x => if x = v then none else g.par x) := by
      intro g3 h3 hc1 hc2
      have e_n : (kidsErase g3 p s v).n = g.n := h3.n.trans h2.n
      have e_k : (kidsErase g3 p s v).kind = g.kind := h3.kind.trans h2.kind
      have e_u : (kidsErase g3 p s v).uuid = g.uuid := h3.uuid.trans h2.uuid
      have e_p : (kidsErase g3 p s v).par = fun x => if x = v then none else g.par x :=
        h3.par.trans h2par
      have e_pv : (kidsErase g3 p s v).par v = none := by rw [e_p]; simp
      have e_px : ∀ x, x ≠ v → (kidsErase g3 p s v).par x = g.par x := by
        intro x hx; rw [e_p]; simp [hx]
      refine ⟨⟨e_n, e_k, e_u, e_pv, e_px, ?_, ?_⟩, ?_, e_p⟩
      · exact cache_core_detach hp hc hd hv hkv e_n e_k e_u e_pv e_px hc1 hc2
      · exact cache_distinct_detach hp hd hkv e_n e_k e_u e_pv e_px
      · show (fun p' s' => if p' = p ∧ s' = s then (g3.kids p s).erase v else g3.kids p' s') = _
        rw [h3.kids, h2.kids]; rfl
    cases hi : irOf g v with
    | none =>
      refine ⟨_, rfl, finish g2 (CacheOnly.rfl' g2) ?_ ?_⟩
      · intro i u hh; rw [hi] at hh; cases hh.1
      · intro i u _; rw [h2.cache]; rfl
    | some i =>
      obtain ⟨g3, hg3, h3, hc1, hc2⟩ := cache_cacheRemove_spec (gx := g2) hp hc hd h2.kids h2.kind h2.uuid
        h2.cache hv hi hW hnd
      simp only [hg3]
      refine ⟨_, rfl, finish g3 h3 ?_ ?_⟩
      · intro i' u hh
        rw [hi] at hh
        exact hc1 i' u ⟨(Option.some.inj hh.1).symm, hh.2⟩
      · intro i' u hh
        rw [hi] at hh
        exact hc2 i' u (fun hh' => hh ⟨by rw [hh'.1], hh'.2⟩)
  apply key
  split
  · exact cache_symIndexDiscard_same _ _ _
  · exact CacheSame.rfl' _

theorem cache_setDiscard_ok {g : G} (hf : ForestInv g) (hc : CacheInv g) (hd : Distinct g)
    {p v : Nat} {s : Slot} (hv : v < g.n) (hkv : g.kind v ≠ .ir) (hm : v ∈ g.kids p s) :
    ∃ g', setDiscard g p s v = .ok g' ∧ CacheDetached g g' v ∧ ForestInv g' := by
  obtain ⟨g', h1, h2, h3, h4⟩ := cache_setDiscard_core hf.cache_parInv hc hd hv hkv hm
    ((hf.mem_iff _ _ _).1 hm).1 (fun y => cache_mem_walk_iff hf hkv) (cache_nodup_walk hf v)
  exact ⟨g', h1, h2, cache_forest_detach hf hm h2.n h2.kind h4 h3⟩

end Gtirb.Forest
