import GtirbProofs.Lemmas.ForestDefs
/-! Lemmas for property C03 (the per-IR UUID table equals the scan).

Part A: theory of the back-pointer chains (`irOf`, descendants `CacheDesc`).
Part C: `cacheAdd*` / `cacheDel*` as one fold of `cacheSet` / `cacheDel` over the walked list.
Part B: the list of nodes that `cacheAdd/cacheRemove` walk = the descendants (under `ForestInv`).
Part D: the two core theorems (detach a subtree / attach a subtree), purely about back-pointers.
Part E: primitives (`setDiscard`, `setAdd`), each with the preserved `ForestInv` of the result.
Part F: folds (`cache_DistinctFold`: distinctness at the moments inside a loop), `blkUpdate`,
        the module list, allocation, constructors.
Part M: the public operations (`cache_step_good`), `DistinctFine`, `DistinctAlongFine`.
All names carry the prefix `cache`/`Cache`. -/
namespace Gtirb.Forest

/-! ## Part A: back-pointer chains -/

def cache_rank : Kind → Nat
  | .ir => 0 | .module => 1 | .section => 2 | .symbol => 2 | .proxy => 2 | .interval => 3
  | .code => 4 | .data => 4

/-- the part of `ForestInv` that does not mention the owning collections -/
structure CacheParInv (g : G) : Prop where
  kind_ok : ∀ c p, g.par c = some p → parentKind (g.kind c) = some (g.kind p)
  alloc : ∀ c p, g.par c = some p → c < g.n ∧ p < g.n

theorem ForestInv.cache_parInv {g : G} (h : ForestInv g) : CacheParInv g := ⟨h.kind_ok, h.alloc⟩

theorem cache_rank_parentKind {k k' : Kind} (h : parentKind k = some k') :
    cache_rank k = cache_rank k' + 1 := by
  cases k <;> cases k' <;> simp_all [parentKind, cache_rank]

theorem cache_rank_par {g : G} (h : CacheParInv g) {x a : Nat} (hp : g.par x = some a) :
    cache_rank (g.kind x) = cache_rank (g.kind a) + 1 :=
  cache_rank_parentKind (h.kind_ok x a hp)

theorem cache_irOf_par {g : G} (h : CacheParInv g) {x a : Nat} (hp : g.par x = some a) :
    irOf g x = irOf g a := by
  have hk := h.kind_ok x a hp
  unfold irOf
  cases hx : g.kind x <;> cases ha : g.kind a <;> simp_all [parentKind]

theorem cache_irOf_root {g : G} {x : Nat} (hp : g.par x = none) :
    irOf g x = if g.kind x = .ir then some x else none := by
  unfold irOf
  cases hx : g.kind x <;> simp_all

theorem cache_irOf_ir {g : G} {x : Nat} (hk : g.kind x = .ir) : irOf g x = some x := by
  unfold irOf; simp [hk]

theorem cache_irOf_congr {g g' : G} (hk : g'.kind = g.kind) (hp : g'.par = g.par) (x : Nat) :
    irOf g' x = irOf g x := by
  unfold irOf; rw [hk, hp]

/-- `x` is `v` or a descendant of `v` (through back-pointers) -/
inductive CacheDesc (g : G) (v : Nat) : Nat → Prop
  | refl : CacheDesc g v v
  | step {x a : Nat} : g.par x = some a → CacheDesc g v a → CacheDesc g v x

theorem cache_desc_rank {g : G} (h : CacheParInv g) {v x : Nat} (hd : CacheDesc g v x) :
    x = v ∨ cache_rank (g.kind v) < cache_rank (g.kind x) := by
  induction hd with
  | refl => exact .inl rfl
  | step hp _ ih =>
    have := cache_rank_par h hp
    rcases ih with rfl | ih <;> right <;> omega

theorem cache_desc_irOf {g : G} (h : CacheParInv g) {v x : Nat} (hd : CacheDesc g v x) :
    irOf g x = irOf g v := by
  induction hd with
  | refl => rfl
  | step hp _ ih => rw [cache_irOf_par h hp, ih]

theorem cache_desc_lt {g : G} (h : CacheParInv g) {v x : Nat} (hd : CacheDesc g v x) (hv : v < g.n) :
    x < g.n := by
  cases hd with
  | refl => exact hv
  | step hp _ => exact (h.alloc _ _ hp).1

theorem cache_desc_trans {g : G} {a b c : Nat} (h1 : CacheDesc g a b) (h2 : CacheDesc g b c) :
    CacheDesc g a c := by
  induction h2 with
  | refl => exact h1
  | step hp _ ih => exact .step hp ih

/-- the ancestors of a node form a chain -/
theorem cache_desc_chain {g : G} {a b x : Nat} (ha : CacheDesc g a x) (hb : CacheDesc g b x) :
    CacheDesc g a b ∨ CacheDesc g b a := by
  induction ha with
  | refl => exact .inr hb
  | step hp hd ih =>
    cases hb with
    | refl => exact .inl (.step hp hd)
    | step hp' hd' =>
      rw [hp] at hp'; cases hp'
      exact ih hd'

theorem cache_desc_same_rank {g : G} (h : CacheParInv g) {a b x : Nat} (ha : CacheDesc g a x)
    (hb : CacheDesc g b x) (hr : cache_rank (g.kind a) = cache_rank (g.kind b)) : a = b := by
  rcases cache_desc_chain ha hb with h1 | h1
  · rcases cache_desc_rank h h1 with h2 | h2
    · exact h2.symm
    · omega
  · rcases cache_desc_rank h h1 with h2 | h2
    · exact h2
    · omega

/-- `irOf` gives an allocated IR -/
theorem cache_irOf_some {g : G} (h : CacheParInv g) :
    ∀ (k x i : Nat), cache_rank (g.kind x) ≤ k → x < g.n → irOf g x = some i → i < g.n ∧ g.kind i = .ir := by
  intro k
  induction k with
  | zero =>
    intro x i hr hx hi
    cases hp : g.par x with
    | none =>
      rw [cache_irOf_root hp] at hi
      split at hi
      · cases hi; exact ⟨hx, by assumption⟩
      · cases hi
    | some a => have := cache_rank_par h hp; omega
  | succ k ih =>
    intro x i hr hx hi
    cases hp : g.par x with
    | none =>
      rw [cache_irOf_root hp] at hi
      split at hi
      · cases hi; exact ⟨hx, by assumption⟩
      · cases hi
    | some a =>
      have := cache_rank_par h hp
      rw [cache_irOf_par h hp] at hi
      exact ih a i (by omega) (h.alloc _ _ hp).2 hi

theorem cache_irOf_some' {g : G} (h : CacheParInv g) {x i : Nat} (hx : x < g.n) (hi : irOf g x = some i) :
    i < g.n ∧ g.kind i = .ir := cache_irOf_some h _ x i (Nat.le_refl _) hx hi

/-- changing the back-pointer of `v` only: descendants of `v` stay descendants -/
theorem cache_desc_frame {g g' : G} (h : CacheParInv g) {v : Nat}
    (hpar : ∀ x, x ≠ v → g'.par x = g.par x) {x : Nat} (hd : CacheDesc g v x) : CacheDesc g' v x := by
  induction hd with
  | refl => exact .refl
  | @step x a hp hd ih =>
    have hx : x ≠ v := by
      intro hxv
      have h1 := cache_rank_par h hp
      rcases cache_desc_rank h hd with h2 | h2
      · subst hxv; subst h2; omega
      · subst hxv; omega
    exact .step (by rw [hpar x hx]; exact hp) ih

/-- changing the back-pointer of `v` only: `irOf` of non-descendants is unchanged -/
theorem cache_irOf_frame {g g' : G} (h : CacheParInv g) (h' : CacheParInv g') {v : Nat}
    (hk : g'.kind = g.kind) (hpar : ∀ x, x ≠ v → g'.par x = g.par x) :
    ∀ (k x : Nat), cache_rank (g.kind x) ≤ k → ¬ CacheDesc g v x → irOf g' x = irOf g x := by
  intro k
  induction k with
  | zero =>
    intro x hr hnd
    have hx : x ≠ v := fun e => hnd (e ▸ .refl)
    cases hp : g.par x with
    | none =>
      have hp' : g'.par x = none := by rw [hpar x hx]; exact hp
      rw [cache_irOf_root hp, cache_irOf_root hp', hk]
    | some a => have := cache_rank_par h hp; omega
  | succ k ih =>
    intro x hr hnd
    have hx : x ≠ v := fun e => hnd (e ▸ .refl)
    cases hp : g.par x with
    | none =>
      have hp' : g'.par x = none := by rw [hpar x hx]; exact hp
      rw [cache_irOf_root hp, cache_irOf_root hp', hk]
    | some a =>
      have hp' : g'.par x = some a := by rw [hpar x hx]; exact hp
      have := cache_rank_par h hp
      rw [cache_irOf_par h hp, cache_irOf_par h' hp']
      exact ih a (by omega) (fun hd => hnd (.step hp hd))

theorem cache_irOf_frame' {g g' : G} (h : CacheParInv g) (h' : CacheParInv g') {v : Nat}
    (hk : g'.kind = g.kind) (hpar : ∀ x, x ≠ v → g'.par x = g.par x) {x : Nat}
    (hnd : ¬ CacheDesc g v x) : irOf g' x = irOf g x :=
  cache_irOf_frame h h' hk hpar _ x (Nat.le_refl _) hnd

/-! ## Part C: the table updates as folds over the walked list -/

/-- all fields except the table agree -/
structure CacheOnly (g g' : G) : Prop where
  n : g'.n = g.n
  kind : g'.kind = g.kind
  uuid : g'.uuid = g.uuid
  par : g'.par = g.par
  kids : g'.kids = g.kids
  name : g'.name = g.name
  payload : g'.payload = g.payload
  nameIdx : g'.nameIdx = g.nameIdx
  refIdx : g'.refIdx = g.refIdx

theorem CacheOnly.rfl' (g : G) : CacheOnly g g := ⟨rfl, rfl, rfl, rfl, rfl, rfl, rfl, rfl, rfl⟩

theorem CacheOnly.trans {a b c : G} (h1 : CacheOnly a b) (h2 : CacheOnly b c) : CacheOnly a c :=
  ⟨h2.n.trans h1.n, h2.kind.trans h1.kind, h2.uuid.trans h1.uuid, h2.par.trans h1.par,
   h2.kids.trans h1.kids, h2.name.trans h1.name, h2.payload.trans h1.payload,
   h2.nameIdx.trans h1.nameIdx, h2.refIdx.trans h1.refIdx⟩

theorem cache_cacheSet_only (g : G) (i u v : Nat) : CacheOnly g (cacheSet g i u v) :=
  ⟨rfl, rfl, rfl, rfl, rfl, rfl, rfl, rfl, rfl⟩

theorem cache_cacheDel_only {g g' : G} {i u : Nat} (h : cacheDel g i u = .ok g') : CacheOnly g g' := by
  unfold cacheDel at h
  split at h
  · cases h
  · cases h; exact ⟨rfl, rfl, rfl, rfl, rfl, rfl, rfl, rfl, rfl⟩

def cache_setAll (g : G) (i : Nat) (L : List Nat) : G :=
  L.foldl (fun g x => cacheSet g i (g.uuid x) x) g

def cache_delAll (g : G) (i : Nat) (L : List Nat) : Except Exc G :=
  foldE (fun g x => cacheDel g i (g.uuid x)) L g

theorem cache_setAll_only (i : Nat) : ∀ (L : List Nat) (g : G), CacheOnly g (cache_setAll g i L)
  | [], g => CacheOnly.rfl' g
  | x :: L, g => (cache_cacheSet_only g i (g.uuid x) x).trans (cache_setAll_only i L _)

theorem cache_setAll_append (g : G) (i : Nat) (L1 L2 : List Nat) :
    cache_setAll g i (L1 ++ L2) = cache_setAll (cache_setAll g i L1) i L2 := by
  simp [cache_setAll, List.foldl_append]

theorem cache_foldE_append (f : G → Nat → Except Exc G) : ∀ (L1 L2 : List Nat) (g : G),
    foldE f (L1 ++ L2) g = bindE (foldE f L1 g) (foldE f L2)
  | [], L2, g => rfl
  | x :: L1, L2, g => by
    simp only [List.cons_append, foldE]
    cases f g x with
    | ok g' => exact cache_foldE_append f L1 L2 g'
    | error e => rfl

theorem cache_delAll_append (g : G) (i : Nat) (L1 L2 : List Nat) :
    cache_delAll g i (L1 ++ L2) = bindE (cache_delAll g i L1) (fun g1 => cache_delAll g1 i L2) :=
  cache_foldE_append _ L1 L2 g

theorem cache_delAll_only (i : Nat) : ∀ (L : List Nat) (g g' : G), cache_delAll g i L = .ok g' → CacheOnly g g'
  | [], g, g', h => by cases h; exact CacheOnly.rfl' g
  | x :: L, g, g', h => by
    simp only [cache_delAll, foldE] at h
    cases h1 : cacheDel g i (g.uuid x) with
    | ok g1 => rw [h1] at h; exact (cache_cacheDel_only h1).trans (cache_delAll_only i L g1 g' h)
    | error e => rw [h1] at h; cases h

/-! the walks -/
def cache_walkI (k : Nat → Slot → List Nat) (v : Nat) : List Nat := v :: k v .blocks
def cache_walkS (k : Nat → Slot → List Nat) (v : Nat) : List Nat :=
  v :: (k v .bis).flatMap (cache_walkI k)
def cache_walkM (k : Nat → Slot → List Nat) (v : Nat) : List Nat :=
  v :: (k v .proxies ++ ((k v .secs).flatMap (cache_walkS k) ++ k v .syms))
def cache_walk (k : Nat → Slot → List Nat) (kd : Kind) (v : Nat) : List Nat :=
  match kd with
  | .module => cache_walkM k v
  | .section => cache_walkS k v
  | .interval => cache_walkI k v
  | _ => [v]

theorem cache_addLeaves_eq (g : G) (i : Nat) (L : List Nat) :
    L.foldl (fun g b => cacheAddLeaf g i b) g = cache_setAll g i L := rfl

theorem cache_addInterval_eq (g : G) (i v : Nat) :
    cacheAddInterval g i v = cache_setAll g i (cache_walkI g.kids v) := rfl

theorem cache_addIntervals_eq (i : Nat) : ∀ (L : List Nat) (g : G),
    L.foldl (fun g b => cacheAddInterval g i b) g = cache_setAll g i (L.flatMap (cache_walkI g.kids))
  | [], g => rfl
  | b :: L, g => by
    rw [List.foldl_cons, cache_addIntervals_eq i L, List.flatMap_cons, cache_setAll_append,
      cache_addInterval_eq, (cache_setAll_only i _ g).kids]

theorem cache_addSection_eq (g : G) (i v : Nat) :
    cacheAddSection g i v = cache_setAll g i (cache_walkS g.kids v) := by
  unfold cacheAddSection
  rw [cache_addIntervals_eq]
  rfl

theorem cache_addSections_eq (i : Nat) : ∀ (L : List Nat) (g : G),
    L.foldl (fun g b => cacheAddSection g i b) g = cache_setAll g i (L.flatMap (cache_walkS g.kids))
  | [], g => rfl
  | b :: L, g => by
    rw [List.foldl_cons, cache_addSections_eq i L, List.flatMap_cons, cache_setAll_append,
      cache_addSection_eq, (cache_setAll_only i _ g).kids]

theorem cache_setAll_kids (g : G) (i : Nat) (L : List Nat) : (cache_setAll g i L).kids = g.kids :=
  (cache_setAll_only i L g).kids

theorem cache_cacheSet_kids (g : G) (i u v : Nat) : (cacheSet g i u v).kids = g.kids := rfl

theorem cache_addModule_eq (g : G) (i v : Nat) :
    cacheAddModule g i v = cache_setAll g i (cache_walkM g.kids v) := by
  unfold cacheAddModule
  simp only []
  rw [cache_addLeaves_eq, cache_addSections_eq, cache_addLeaves_eq]
  simp only [cache_setAll_kids, cache_cacheSet_kids]
  unfold cache_walkM
  show _ = cache_setAll (cacheSet g i (g.uuid v) v) i _
  rw [cache_setAll_append, cache_setAll_append]

theorem cache_cacheAdd_eq (g : G) (i v : Nat) :
    cacheAdd g i v = cache_setAll g i (cache_walk g.kids (g.kind v) v) := by
  unfold cacheAdd cache_walk
  cases g.kind v <;> simp only [cache_addModule_eq, cache_addSection_eq, cache_addInterval_eq] <;> rfl

theorem cache_delLeaves_eq (g : G) (i : Nat) (L : List Nat) :
    foldE (fun g b => cacheDelLeaf g i b) L g = cache_delAll g i L := rfl

theorem cache_delAll_cons (g : G) (i x : Nat) (L : List Nat) :
    cache_delAll g i (x :: L) = bindE (cacheDel g i (g.uuid x)) (fun g1 => cache_delAll g1 i L) := by
  simp only [cache_delAll, foldE, bindE]

theorem cache_delInterval_eq (g : G) (i v : Nat) :
    cacheDelInterval g i v = cache_delAll g i (cache_walkI g.kids v) := by
  unfold cacheDelInterval cache_walkI
  rw [cache_delAll_cons]
  cases cacheDel g i (g.uuid v) <;> rfl

theorem cache_delIntervals_eq (i : Nat) : ∀ (L : List Nat) (g : G),
    foldE (fun g b => cacheDelInterval g i b) L g = cache_delAll g i (L.flatMap (cache_walkI g.kids))
  | [], g => rfl
  | b :: L, g => by
    rw [List.flatMap_cons, cache_delAll_append]
    simp only [foldE]
    rw [cache_delInterval_eq]
    cases h : cache_delAll g i (cache_walkI g.kids b) with
    | error e => rfl
    | ok g1 =>
      simp only [bindE]
      rw [cache_delIntervals_eq i L g1, (cache_delAll_only i _ g g1 h).kids]

theorem cache_delSection_eq (g : G) (i v : Nat) :
    cacheDelSection g i v = cache_delAll g i (cache_walkS g.kids v) := by
  unfold cacheDelSection cache_walkS
  rw [cache_delAll_cons]
  cases h : cacheDel g i (g.uuid v) with
  | error e => rfl
  | ok g1 =>
    simp only [bindE]
    rw [cache_delIntervals_eq, (cache_cacheDel_only h).kids]

theorem cache_delSections_eq (i : Nat) : ∀ (L : List Nat) (g : G),
    foldE (fun g b => cacheDelSection g i b) L g = cache_delAll g i (L.flatMap (cache_walkS g.kids))
  | [], g => rfl
  | b :: L, g => by
    rw [List.flatMap_cons, cache_delAll_append]
    simp only [foldE]
    rw [cache_delSection_eq]
    cases h : cache_delAll g i (cache_walkS g.kids b) with
    | error e => rfl
    | ok g1 =>
      simp only [bindE]
      rw [cache_delSections_eq i L g1, (cache_delAll_only i _ g g1 h).kids]

theorem cache_delModule_eq (g : G) (i v : Nat) :
    cacheDelModule g i v = cache_delAll g i (cache_walkM g.kids v) := by
  unfold cacheDelModule cache_walkM
  rw [cache_delAll_cons]
  cases h : cacheDel g i (g.uuid v) with
  | error e => rfl
  | ok g1 =>
    simp only [bindE]
    rw [cache_delAll_append, cache_delLeaves_eq]
    cases h2 : cache_delAll g1 i (g.kids v .proxies) with
    | error e => rfl
    | ok g2 =>
      simp only [bindE]
      rw [cache_delAll_append, cache_delSections_eq, (cache_delAll_only i _ g1 g2 h2).kids,
        (cache_cacheDel_only h).kids]
      cases h3 : cache_delAll g2 i (List.flatMap (cache_walkS g.kids) (g.kids v .secs)) with
      | error e => rfl
      | ok g3 => rfl

theorem cache_cacheRemove_eq (g : G) (i v : Nat) :
    cacheRemove g i v = cache_delAll g i (cache_walk g.kids (g.kind v) v) := by
  unfold cacheRemove cache_walk
  cases g.kind v <;> simp only [cache_delModule_eq, cache_delSection_eq, cache_delInterval_eq] <;>
    simp [cacheDelLeaf, cache_delAll, foldE] <;> cases cacheDel g i (g.uuid v) <;> rfl

theorem cache_setAll_other (i : Nat) : ∀ (L : List Nat) (g : G) (i' u' : Nat),
    ¬ (i' = i ∧ ∃ y, y ∈ L ∧ g.uuid y = u') → (cache_setAll g i L).cache i' u' = g.cache i' u'
  | [], g, i', u', _ => rfl
  | x :: L, g, i', u', h => by
    show (cache_setAll (cacheSet g i (g.uuid x) x) i L).cache i' u' = _
    rw [cache_setAll_other i L]
    · show (if i' = i ∧ u' = g.uuid x then some x else g.cache i' u') = _
      rw [if_neg]
      intro hh; exact h ⟨hh.1, x, List.mem_cons_self, hh.2.symm⟩
    · intro hh
      obtain ⟨h1, y, hy, hyu⟩ := hh
      exact h ⟨h1, y, List.mem_cons_of_mem _ hy, hyu⟩

theorem cache_setAll_hit (i : Nat) : ∀ (L : List Nat) (g : G),
    (∀ a, a ∈ L → ∀ b, b ∈ L → g.uuid a = g.uuid b → a = b) →
    ∀ y, y ∈ L → (cache_setAll g i L).cache i (g.uuid y) = some y
  | [], g, _, y, hy => by cases hy
  | x :: L, g, hinj, y, hy => by
    show (cache_setAll (cacheSet g i (g.uuid x) x) i L).cache i (g.uuid y) = _
    have ih := cache_setAll_hit i L (cacheSet g i (g.uuid x) x)
      (fun a ha b hb hab => hinj a (List.mem_cons_of_mem _ ha) b (List.mem_cons_of_mem _ hb) hab)
    by_cases hyL : y ∈ L
    · exact ih y hyL
    · have hyx : y = x := by
        rcases List.mem_cons.1 hy with h | h
        · exact h
        · exact absurd h hyL
      subst hyx
      rw [cache_setAll_other i L]
      · show (if i = i ∧ g.uuid y = g.uuid y then some y else g.cache i (g.uuid y)) = _
        simp
      · intro hh
        obtain ⟨_, z, hz, hzu⟩ := hh
        have : z = y := hinj z (List.mem_cons_of_mem _ hz) y List.mem_cons_self hzu
        exact hyL (this ▸ hz)

theorem cache_delAll_spec (i : Nat) : ∀ (L : List Nat) (g : G),
    (L.map g.uuid).Nodup → (∀ y, y ∈ L → g.cache i (g.uuid y) ≠ none) →
    ∃ g', cache_delAll g i L = .ok g' ∧
      (∀ i' u', (i' = i ∧ ∃ y, y ∈ L ∧ g.uuid y = u') → g'.cache i' u' = none) ∧
      (∀ i' u', ¬ (i' = i ∧ ∃ y, y ∈ L ∧ g.uuid y = u') → g'.cache i' u' = g.cache i' u')
  | [], g, _, _ => ⟨g, rfl, fun i' u' h => (by obtain ⟨_, y, hy, _⟩ := h; cases hy), fun _ _ _ => rfl⟩
  | x :: L, g, hnd, hpres => by
    rw [cache_delAll_cons]
    rw [List.map_cons, List.nodup_cons] at hnd
    have hx := hpres x List.mem_cons_self
    unfold cacheDel
    cases hcx : g.cache i (g.uuid x) with
    | none => exact absurd hcx hx
    | some w =>
      simp only [bindE]
      obtain ⟨g', hg', h1, h2⟩ := cache_delAll_spec i L
        { g with cache := fun i' u' => if i' = i ∧ u' = g.uuid x then none else g.cache i' u' }
        hnd.2 (by
          intro y hy
          show (if i = i ∧ g.uuid y = g.uuid x then none else g.cache i (g.uuid y)) ≠ none
          rw [if_neg]
          · exact hpres y (List.mem_cons_of_mem _ hy)
          · intro hh; exact hnd.1 (hh.2 ▸ List.mem_map_of_mem hy))
      refine ⟨g', hg', ?_, ?_⟩
      · intro i' u' hh
        obtain ⟨hi, y, hy, hyu⟩ := hh
        by_cases hyL : ∃ z, z ∈ L ∧ g.uuid z = u'
        · exact h1 i' u' ⟨hi, hyL⟩
        · rw [h2 i' u' (fun hh => hyL hh.2)]
          rcases List.mem_cons.1 hy with h | h
          · subst h
            show (if i' = i ∧ u' = g.uuid y then none else g.cache i' u') = none
            rw [if_pos ⟨hi, hyu.symm⟩]
          · exact absurd ⟨y, h, hyu⟩ hyL
      · intro i' u' hh
        rw [h2 i' u' (fun hh' => hh ⟨hh'.1, by
          obtain ⟨z, hz, hzu⟩ := hh'.2; exact ⟨z, List.mem_cons_of_mem _ hz, hzu⟩⟩)]
        show (if i' = i ∧ u' = g.uuid x then none else g.cache i' u') = _
        rw [if_neg]
        intro h; exact hh ⟨h.1, x, List.mem_cons_self, h.2.symm⟩

/-! ## Part B: the walked list = the descendants -/

theorem cache_desc_top {g : G} {v x : Nat} (hd : CacheDesc g v x) :
    x = v ∨ ∃ c, g.par c = some v ∧ CacheDesc g c x := by
  induction hd with
  | refl => exact .inl rfl
  | @step x a hp _ ih =>
    right
    rcases ih with rfl | ⟨c, hc, hd⟩
    · exact ⟨x, hp, .refl⟩
    · exact ⟨c, hc, .step hp hd⟩

theorem cache_desc_leaf {g : G} (h : CacheParInv g) {v x : Nat}
    (hk : ∀ k', parentKind k' ≠ some (g.kind v)) (hd : CacheDesc g v x) : x = v := by
  rcases cache_desc_top hd with h1 | ⟨c, hc, _⟩
  · exact h1
  · exact absurd (h.kind_ok c v hc) (hk _)

theorem cache_child_of_interval {k : Kind} (h : parentKind k = some .interval) : k = .code ∨ k = .data := by
  cases k <;> simp_all [parentKind]
theorem cache_child_of_section {k : Kind} (h : parentKind k = some .section) : k = .interval := by
  cases k <;> simp_all [parentKind]
theorem cache_child_of_module {k : Kind} (h : parentKind k = some .module) :
    k = .section ∨ k = .symbol ∨ k = .proxy := by
  cases k <;> simp_all [parentKind]
theorem cache_no_child_code (k : Kind) : parentKind k ≠ some .code := by cases k <;> simp [parentKind]
theorem cache_no_child_data (k : Kind) : parentKind k ≠ some .data := by cases k <;> simp [parentKind]
theorem cache_no_child_symbol (k : Kind) : parentKind k ≠ some .symbol := by cases k <;> simp [parentKind]
theorem cache_no_child_proxy (k : Kind) : parentKind k ≠ some .proxy := by cases k <;> simp [parentKind]

theorem cache_slot_bis {k : Kind} (h : slotOf k = some .bis) : k = .interval := by
  cases k <;> simp_all [slotOf]
theorem cache_slot_secs {k : Kind} (h : slotOf k = some .secs) : k = .section := by
  cases k <;> simp_all [slotOf]
theorem cache_slot_syms {k : Kind} (h : slotOf k = some .syms) : k = .symbol := by
  cases k <;> simp_all [slotOf]
theorem cache_slot_proxies {k : Kind} (h : slotOf k = some .proxies) : k = .proxy := by
  cases k <;> simp_all [slotOf]
theorem cache_slot_blocks {k : Kind} (h : slotOf k = some .blocks) : k = .code ∨ k = .data := by
  cases k <;> simp_all [slotOf]

theorem cache_par_ne_self {g : G} (h : CacheParInv g) {v : Nat} : g.par v ≠ some v := by
  intro hp; have := cache_rank_par h hp; omega

/-- no proper descendant of a child of `v` is `v` -/
theorem cache_desc_child_ne {g : G} (h : CacheParInv g) {v c : Nat} (hc : g.par c = some v)
    (hd : CacheDesc g c v) : False := by
  have h1 := cache_rank_par h hc
  rcases cache_desc_rank h hd with h2 | h2
  · subst h2; omega
  · omega

theorem cache_mem_walkI_iff {g : G} (hf : ForestInv g) {v x : Nat} (hk : g.kind v = .interval) :
    x ∈ cache_walkI g.kids v ↔ CacheDesc g v x := by
  have hp := hf.cache_parInv
  unfold cache_walkI
  rw [List.mem_cons]
  constructor
  · rintro (rfl | h)
    · exact .refl
    · exact .step ((hf.mem_iff _ _ _).1 h).1 .refl
  · intro hd
    rcases cache_desc_top hd with h1 | ⟨c, hc, hdc⟩
    · exact .inl h1
    · right
      have hkc := hp.kind_ok c v hc
      rw [hk] at hkc
      have hxc : x = c := by
        rcases cache_child_of_interval hkc with h2 | h2
        · exact cache_desc_leaf hp (by rw [h2]; exact cache_no_child_code) hdc
        · exact cache_desc_leaf hp (by rw [h2]; exact cache_no_child_data) hdc
      subst hxc
      refine (hf.mem_iff _ _ _).2 ⟨hc, ?_⟩
      rcases cache_child_of_interval hkc with h2 | h2 <;> rw [h2] <;> rfl

theorem cache_nodup_walkI {g : G} (hf : ForestInv g) (v : Nat) : (cache_walkI g.kids v).Nodup := by
  unfold cache_walkI
  rw [List.nodup_cons]
  refine ⟨fun h => cache_par_ne_self hf.cache_parInv ((hf.mem_iff _ _ _).1 h).1, hf.nodup _ _⟩

/-- generic level lemma for the walked lists -/
theorem cache_nodup_flat {g : G} (hp : CacheParInv g) {v : Nat} {C : List Nat} {f : Nat → List Nat}
    (hC : C.Nodup) (hpar : ∀ c, c ∈ C → g.par c = some v) (hf : ∀ c, c ∈ C → (f c).Nodup)
    (hd : ∀ c, c ∈ C → ∀ x, x ∈ f c → CacheDesc g c x) : (C.flatMap f).Nodup := by
  rw [List.nodup_iff_pairwise_ne, List.pairwise_flatMap]
  refine ⟨hf, ?_⟩
  refine List.Pairwise.imp_of_mem ?_ hC
  intro a b ha hb hab x hx y hy hxy
  subst hxy
  apply hab
  apply cache_desc_same_rank hp (hd a ha x hx) (hd b hb x hy)
  have h1 := cache_rank_par hp (hpar a ha)
  have h2 := cache_rank_par hp (hpar b hb)
  omega

theorem cache_mem_walkS_iff {g : G} (hf : ForestInv g) {v x : Nat} (hk : g.kind v = .section) :
    x ∈ cache_walkS g.kids v ↔ CacheDesc g v x := by
  have hp := hf.cache_parInv
  unfold cache_walkS
  rw [List.mem_cons, List.mem_flatMap]
  constructor
  · rintro (rfl | ⟨b, hb, hx⟩)
    · exact .refl
    · have hb' := (hf.mem_iff _ _ _).1 hb
      exact cache_desc_trans (.step hb'.1 .refl) ((cache_mem_walkI_iff hf (cache_slot_bis hb'.2)).1 hx)
  · intro hd
    rcases cache_desc_top hd with h1 | ⟨c, hc, hdc⟩
    · exact .inl h1
    · right
      have hkc := hp.kind_ok c v hc
      rw [hk] at hkc
      have hkc' := cache_child_of_section hkc
      exact ⟨c, (hf.mem_iff _ _ _).2 ⟨hc, by rw [hkc']; rfl⟩, (cache_mem_walkI_iff hf hkc').2 hdc⟩

theorem cache_nodup_walkS {g : G} (hf : ForestInv g) (v : Nat) : (cache_walkS g.kids v).Nodup := by
  have hp := hf.cache_parInv
  unfold cache_walkS
  rw [List.nodup_cons]
  constructor
  · intro h
    obtain ⟨b, hb, hx⟩ := List.mem_flatMap.1 h
    have hb' := (hf.mem_iff _ _ _).1 hb
    exact cache_desc_child_ne hp hb'.1 ((cache_mem_walkI_iff hf (cache_slot_bis hb'.2)).1 hx)
  · exact cache_nodup_flat hp (hf.nodup _ _) (fun c hc => ((hf.mem_iff _ _ _).1 hc).1)
      (fun c _ => cache_nodup_walkI hf c)
      (fun c hc x hx => (cache_mem_walkI_iff hf (cache_slot_bis ((hf.mem_iff _ _ _).1 hc).2)).1 hx)

/-- every element of the module walk except the head sits below a child of `v`, in a known slot -/
theorem cache_walkM_tail {g : G} (hf : ForestInv g) {v x : Nat} :
    x ∈ g.kids v .proxies ++ ((g.kids v .secs).flatMap (cache_walkS g.kids) ++ g.kids v .syms) ↔
    ((x ∈ g.kids v .proxies) ∨ (∃ c, c ∈ g.kids v .secs ∧ CacheDesc g c x) ∨ (x ∈ g.kids v .syms)) := by
  rw [List.mem_append, List.mem_append, List.mem_flatMap]
  constructor
  · rintro (h | ⟨c, hc, hx⟩ | h)
    · exact .inl h
    · exact .inr (.inl ⟨c, hc, (cache_mem_walkS_iff hf (cache_slot_secs ((hf.mem_iff _ _ _).1 hc).2)).1 hx⟩)
    · exact .inr (.inr h)
  · rintro (h | ⟨c, hc, hx⟩ | h)
    · exact .inl h
    · exact .inr (.inl ⟨c, hc, (cache_mem_walkS_iff hf (cache_slot_secs ((hf.mem_iff _ _ _).1 hc).2)).2 hx⟩)
    · exact .inr (.inr h)

theorem cache_mem_walkM_iff {g : G} (hf : ForestInv g) {v x : Nat} (hk : g.kind v = .module) :
    x ∈ cache_walkM g.kids v ↔ CacheDesc g v x := by
  have hp := hf.cache_parInv
  unfold cache_walkM
  rw [List.mem_cons, cache_walkM_tail hf]
  constructor
  · rintro (rfl | h | ⟨c, hc, hx⟩ | h)
    · exact .refl
    · exact .step ((hf.mem_iff _ _ _).1 h).1 .refl
    · exact cache_desc_trans (.step ((hf.mem_iff _ _ _).1 hc).1 .refl) hx
    · exact .step ((hf.mem_iff _ _ _).1 h).1 .refl
  · intro hd
    rcases cache_desc_top hd with h1 | ⟨c, hc, hdc⟩
    · exact .inl h1
    · right
      have hkc := hp.kind_ok c v hc
      rw [hk] at hkc
      rcases cache_child_of_module hkc with h2 | h2 | h2
      · exact .inr (.inl ⟨c, (hf.mem_iff _ _ _).2 ⟨hc, by rw [h2]; rfl⟩, hdc⟩)
      · have hxc : x = c := cache_desc_leaf hp (by rw [h2]; exact cache_no_child_symbol) hdc
        subst hxc
        exact .inr (.inr ((hf.mem_iff _ _ _).2 ⟨hc, by rw [h2]; rfl⟩))
      · have hxc : x = c := cache_desc_leaf hp (by rw [h2]; exact cache_no_child_proxy) hdc
        subst hxc
        exact .inl ((hf.mem_iff _ _ _).2 ⟨hc, by rw [h2]; rfl⟩)

theorem cache_nodup_walkM {g : G} (hf : ForestInv g) (v : Nat) : (cache_walkM g.kids v).Nodup := by
  have hp := hf.cache_parInv
  unfold cache_walkM
  rw [List.nodup_cons]
  constructor
  · rw [cache_walkM_tail hf]
    rintro (h | ⟨c, hc, hx⟩ | h)
    · exact cache_par_ne_self hp ((hf.mem_iff _ _ _).1 h).1
    · exact cache_desc_child_ne hp ((hf.mem_iff _ _ _).1 hc).1 hx
    · exact cache_par_ne_self hp ((hf.mem_iff _ _ _).1 h).1
  · have hS : ((g.kids v .secs).flatMap (cache_walkS g.kids)).Nodup :=
      cache_nodup_flat hp (hf.nodup _ _) (fun c hc => ((hf.mem_iff _ _ _).1 hc).1)
        (fun c _ => cache_nodup_walkS hf c)
        (fun c hc x hx => (cache_mem_walkS_iff hf (cache_slot_secs ((hf.mem_iff _ _ _).1 hc).2)).1 hx)
    have hSx : ∀ x, x ∈ (g.kids v .secs).flatMap (cache_walkS g.kids) →
        ∃ c, c ∈ g.kids v .secs ∧ CacheDesc g c x := by
      intro x hx
      obtain ⟨c, hc, hx⟩ := List.mem_flatMap.1 hx
      exact ⟨c, hc, (cache_mem_walkS_iff hf (cache_slot_secs ((hf.mem_iff _ _ _).1 hc).2)).1 hx⟩
    -- a child of `v` that lies below a section child of `v` is that section
    have hsame : ∀ x c, g.par x = some v → c ∈ g.kids v .secs → CacheDesc g c x → x = c := by
      intro x c hx hc hd
      have hc' := ((hf.mem_iff _ _ _).1 hc).1
      have h1 := cache_rank_par hp hx
      have h2 := cache_rank_par hp hc'
      exact cache_desc_same_rank hp .refl hd (by omega)
    rw [List.nodup_append]
    refine ⟨hf.nodup _ _, ?_, ?_⟩
    · rw [List.nodup_append]
      refine ⟨hS, hf.nodup _ _, ?_⟩
      intro a ha b hb hab
      subst hab
      obtain ⟨c, hc, hd⟩ := hSx a ha
      have hb' := (hf.mem_iff _ _ _).1 hb
      have := hsame a c hb'.1 hc hd
      subst this
      have hc' := (hf.mem_iff _ _ _).1 hc
      rw [hc'.2] at hb'; exact absurd hb'.2 (by decide)
    · intro a ha b hb hab
      subst hab
      have ha' := (hf.mem_iff _ _ _).1 ha
      rcases List.mem_append.1 hb with hb | hb
      · obtain ⟨c, hc, hd⟩ := hSx a hb
        have := hsame a c ha'.1 hc hd
        subst this
        have hc' := (hf.mem_iff _ _ _).1 hc
        rw [hc'.2] at ha'; exact absurd ha'.2 (by decide)
      · have hb' := (hf.mem_iff _ _ _).1 hb
        rw [hb'.2] at ha'; exact absurd ha'.2 (by decide)

theorem cache_mem_walk_iff {g : G} (hf : ForestInv g) {v x : Nat} (hk : g.kind v ≠ .ir) :
    x ∈ cache_walk g.kids (g.kind v) v ↔ CacheDesc g v x := by
  have hp := hf.cache_parInv
  unfold cache_walk
  cases hkv : g.kind v with
  | ir => exact absurd hkv hk
  | module => exact cache_mem_walkM_iff hf hkv
  | «section» => exact cache_mem_walkS_iff hf hkv
  | interval => exact cache_mem_walkI_iff hf hkv
  | code =>
    simp only [List.mem_singleton]
    exact ⟨fun h => h ▸ .refl, cache_desc_leaf hp (by rw [hkv]; exact cache_no_child_code)⟩
  | data =>
    simp only [List.mem_singleton]
    exact ⟨fun h => h ▸ .refl, cache_desc_leaf hp (by rw [hkv]; exact cache_no_child_data)⟩
  | proxy =>
    simp only [List.mem_singleton]
    exact ⟨fun h => h ▸ .refl, cache_desc_leaf hp (by rw [hkv]; exact cache_no_child_proxy)⟩
  | symbol =>
    simp only [List.mem_singleton]
    exact ⟨fun h => h ▸ .refl, cache_desc_leaf hp (by rw [hkv]; exact cache_no_child_symbol)⟩

theorem cache_nodup_walk {g : G} (hf : ForestInv g) (v : Nat) :
    (cache_walk g.kids (g.kind v) v).Nodup := by
  unfold cache_walk
  cases g.kind v <;> simp only [List.nodup_cons, List.not_mem_nil, not_false_eq_true, List.nodup_nil, and_self]
  · exact cache_nodup_walkM hf v
  · exact cache_nodup_walkS hf v
  · exact cache_nodup_walkI hf v

/-! ## Part D: the two core theorems -/

theorem cache_parInv_detach {g g' : G} (hp : CacheParInv g) {v : Nat}
    (hn : g'.n = g.n) (hk : g'.kind = g.kind)
    (hparv : g'.par v = none) (hpar : ∀ x, x ≠ v → g'.par x = g.par x) : CacheParInv g' := by
  constructor
  · intro c p h
    have hcv : c ≠ v := by intro e; subst e; rw [hparv] at h; cases h
    rw [hpar c hcv] at h
    rw [hk]; exact hp.kind_ok c p h
  · intro c p h
    have hcv : c ≠ v := by intro e; subst e; rw [hparv] at h; cases h
    rw [hpar c hcv] at h
    rw [hn]; exact hp.alloc c p h

theorem cache_parInv_attach {g g' : G} (hp : CacheParInv g) {v p : Nat}
    (hv : v < g.n) (hpn : p < g.n) (hkp : parentKind (g.kind v) = some (g.kind p))
    (hn : g'.n = g.n) (hk : g'.kind = g.kind)
    (hparv : g'.par v = some p) (hpar : ∀ x, x ≠ v → g'.par x = g.par x) : CacheParInv g' := by
  constructor
  · intro c q h
    by_cases hcv : c = v
    · subst hcv; rw [hparv] at h; cases h; rw [hk]; exact hkp
    · rw [hpar c hcv] at h; rw [hk]; exact hp.kind_ok c q h
  · intro c q h
    by_cases hcv : c = v
    · subst hcv; rw [hparv] at h; cases h; rw [hn]; exact ⟨hv, hpn⟩
    · rw [hpar c hcv] at h; rw [hn]; exact hp.alloc c q h

/-- a detached non-IR node and all its descendants have no IR -/
theorem cache_desc_detached {g : G} (hp : CacheParInv g) {v x : Nat} (hparv : g.par v = none)
    (hkv : g.kind v ≠ .ir) (hd : CacheDesc g v x) : irOf g x = none := by
  rw [cache_desc_irOf hp hd, cache_irOf_root hparv, if_neg hkv]

/-- Core theorem 1: the back-pointer of `v` is cleared and the entries of `v`'s subtree are
removed from the table of `v`'s IR (if any). -/
theorem cache_core_detach {g g' : G} (hp : CacheParInv g) (hc : CacheInv g) (hd : Distinct g)
    {v : Nat} (hv : v < g.n) (hkv : g.kind v ≠ .ir)
    (hn : g'.n = g.n) (hk : g'.kind = g.kind) (hu : g'.uuid = g.uuid)
    (hparv : g'.par v = none) (hpar : ∀ x, x ≠ v → g'.par x = g.par x)
    (hc1 : ∀ i u, (irOf g v = some i ∧ ∃ y, CacheDesc g v y ∧ g.uuid y = u) → g'.cache i u = none)
    (hc2 : ∀ i u, ¬ (irOf g v = some i ∧ ∃ y, CacheDesc g v y ∧ g.uuid y = u) →
      g'.cache i u = g.cache i u) :
    CacheInv g' := by
  have hp' := cache_parInv_detach hp hn hk hparv hpar
  intro i u x
  rw [hn, hk, hu]
  by_cases hdx : CacheDesc g v x
  · have h1 : irOf g' x = none :=
      cache_desc_detached hp' hparv (by rw [hk]; exact hkv) (cache_desc_frame hp hpar hdx)
    constructor
    · intro h
      exfalso
      by_cases hcond : irOf g v = some i ∧ ∃ y, CacheDesc g v y ∧ g.uuid y = u
      · rw [hc1 i u hcond] at h; cases h
      · rw [hc2 i u hcond] at h
        have := (hc i u x).1 h
        apply hcond
        refine ⟨?_, x, hdx, this.2.2.2.2⟩
        rw [← cache_desc_irOf hp hdx]; exact this.2.2.2.1
    · intro h; rw [h1] at h; cases h.2.2.2.1
  · have h1 : irOf g' x = irOf g x := cache_irOf_frame' hp hp' hk hpar hdx
    rw [h1, ← hc i u x]
    by_cases hcond : irOf g v = some i ∧ ∃ y, CacheDesc g v y ∧ g.uuid y = u
    · rw [hc1 i u hcond]
      constructor
      · intro h; cases h
      · intro h
        exfalso
        obtain ⟨hi, y, hdy, hyu⟩ := hcond
        have hx := (hc i u x).1 h
        have : x = y := hd x y i hx.2.2.1 (cache_desc_lt hp hdy hv) hx.2.2.2.1
          (by rw [cache_desc_irOf hp hdy]; exact hi) (by rw [hx.2.2.2.2, hyu])
        exact hdx (this ▸ hdy)
    · rw [hc2 i u hcond]

/-- detaching keeps the UUIDs distinct -/
theorem cache_distinct_detach {g g' : G} (hp : CacheParInv g) (hd : Distinct g)
    {v : Nat} (hkv : g.kind v ≠ .ir)
    (hn : g'.n = g.n) (hk : g'.kind = g.kind) (hu : g'.uuid = g.uuid)
    (hparv : g'.par v = none) (hpar : ∀ x, x ≠ v → g'.par x = g.par x) : Distinct g' := by
  have hp' := cache_parInv_detach hp hn hk hparv hpar
  have key : ∀ a i, irOf g' a = some i → irOf g a = some i := by
    intro a i h
    by_cases hda : CacheDesc g v a
    · rw [cache_desc_detached hp' hparv (by rw [hk]; exact hkv) (cache_desc_frame hp hpar hda)] at h
      cases h
    · rw [cache_irOf_frame' hp hp' hk hpar hda] at h; exact h
  intro a b i ha hb hia hib hab
  rw [hn] at ha hb; rw [hu] at hab
  exact hd a b i ha hb (key a i hia) (key b i hib) hab

/-- Core theorem 2: the detached node `v` gets the back-pointer `p`, and the entries of `v`'s
subtree are written into the table of `p`'s IR (if any). -/
theorem cache_core_attach {g g' : G} (hp : CacheParInv g) (hc : CacheInv g) (hd' : Distinct g')
    {v p : Nat} (hv : v < g.n) (hpn : p < g.n) (hkp : parentKind (g.kind v) = some (g.kind p))
    (hpv : g.par v = none)
    (hn : g'.n = g.n) (hk : g'.kind = g.kind) (hu : g'.uuid = g.uuid)
    (hparv : g'.par v = some p) (hpar : ∀ x, x ≠ v → g'.par x = g.par x)
    (hc1 : ∀ i y, irOf g p = some i → CacheDesc g v y → g'.cache i (g.uuid y) = some y)
    (hc2 : ∀ i u, ¬ (irOf g p = some i ∧ ∃ y, CacheDesc g v y ∧ g.uuid y = u) →
      g'.cache i u = g.cache i u) :
    CacheInv g' := by
  have hp' := cache_parInv_attach hp hv hpn hkp hn hk hparv hpar
  have hkv : g.kind v ≠ .ir := by intro e; rw [e] at hkp; cases hkp
  have hndp : ¬ CacheDesc g v p := by
    intro h
    have h1 := cache_rank_parentKind hkp
    rcases cache_desc_rank hp h with h2 | h2
    · rw [h2] at h1; omega
    · omega
  have hirp : irOf g' p = irOf g p := cache_irOf_frame' hp hp' hk hpar hndp
  have hirv : irOf g' v = irOf g p := by rw [cache_irOf_par hp' hparv, hirp]
  intro i u x
  rw [hn, hk, hu]
  by_cases hdx : CacheDesc g v x
  · have h1 : irOf g' x = irOf g p := by
      rw [cache_desc_irOf hp' (cache_desc_frame hp hpar hdx), hirv]
    have h0 : irOf g x = none := cache_desc_detached hp hpv hkv hdx
    rw [h1]
    constructor
    · intro h
      by_cases hcond : irOf g p = some i ∧ ∃ y, CacheDesc g v y ∧ g.uuid y = u
      · obtain ⟨hi, y, hdy, hyu⟩ := hcond
        have := hc1 i y hi hdy
        rw [hyu, h] at this; cases this
        have := cache_irOf_some' hp hpn hi
        exact ⟨this.1, this.2, cache_desc_lt hp hdx hv, hi, hyu⟩
      · rw [hc2 i u hcond] at h
        have := (hc i u x).1 h
        rw [h0] at this; cases this.2.2.2.1
    · intro h
      have := hc1 i x h.2.2.2.1 hdx
      rw [h.2.2.2.2] at this; exact this
  · have h1 : irOf g' x = irOf g x := cache_irOf_frame' hp hp' hk hpar hdx
    rw [h1, ← hc i u x]
    by_cases hcond : irOf g p = some i ∧ ∃ y, CacheDesc g v y ∧ g.uuid y = u
    · obtain ⟨hi, y, hdy, hyu⟩ := hcond
      have hy := hc1 i y hi hdy
      rw [hyu] at hy
      rw [hy]
      constructor
      · intro h; cases h; exact absurd hdy hdx
      · intro h
        exfalso
        have hx := (hc i u x).1 h
        have hiry : irOf g' y = some i := by
          rw [cache_desc_irOf hp' (cache_desc_frame hp hpar hdy), hirv]; exact hi
        have : x = y := hd' x y i (by rw [hn]; exact hx.2.2.1)
          (by rw [hn]; exact cache_desc_lt hp hdy hv) (by rw [h1]; exact hx.2.2.2.1) hiry
          (by rw [hu, hx.2.2.2.2, hyu])
        exact hdx (this ▸ hdy)
    · rw [hc2 i u hcond]

/-! ## Part E: primitives -/

theorem cache_nodup_map {L : List Nat} {f : Nat → Nat} (hL : L.Nodup)
    (hinj : ∀ a, a ∈ L → ∀ b, b ∈ L → f a = f b → a = b) : (L.map f).Nodup := by
  rw [List.nodup_iff_pairwise_ne, List.pairwise_map]
  exact List.Pairwise.imp_of_mem (fun ha hb hab h => hab (hinj _ ha _ hb h)) hL

/-- `cacheRemove` of the subtree of `v` in a state `gx` that has the collections, kinds, UUIDs and
table of a well-formed state `gf` in which `v` belongs to IR `i` -/
theorem cache_cacheRemove_spec {gf gx : G} (hp : CacheParInv gf) (hc : CacheInv gf) (hd : Distinct gf)
    (hkids : gx.kids = gf.kids) (hkind : gx.kind = gf.kind) (huuid : gx.uuid = gf.uuid)
    (hcache : gx.cache = gf.cache)
    {v i : Nat} (hv : v < gf.n) (hi : irOf gf v = some i)
    (hW : ∀ y, y ∈ cache_walk gf.kids (gf.kind v) v ↔ CacheDesc gf v y)
    (hnd : (cache_walk gf.kids (gf.kind v) v).Nodup) :
    ∃ g', cacheRemove gx i v = .ok g' ∧ CacheOnly gx g' ∧
      (∀ i' u, (i' = i ∧ ∃ y, CacheDesc gf v y ∧ gf.uuid y = u) → g'.cache i' u = none) ∧
      (∀ i' u, ¬ (i' = i ∧ ∃ y, CacheDesc gf v y ∧ gf.uuid y = u) → g'.cache i' u = gf.cache i' u) := by
  rw [cache_cacheRemove_eq, hkids, hkind]
  have hiry : ∀ y, CacheDesc gf v y → y < gf.n ∧ irOf gf y = some i := fun y hy =>
    ⟨cache_desc_lt hp hy hv, by rw [cache_desc_irOf hp hy]; exact hi⟩
  have hii := cache_irOf_some' hp hv hi
  obtain ⟨g', hg', h1, h2⟩ := cache_delAll_spec i (cache_walk gf.kids (gf.kind v) v) gx
    (by
      rw [huuid]
      apply cache_nodup_map hnd
      intro a ha b hb hab
      have ha' := hiry a ((hW a).1 ha)
      have hb' := hiry b ((hW b).1 hb)
      exact hd a b i ha'.1 hb'.1 ha'.2 hb'.2 hab)
    (by
      intro y hy
      have hy' := hiry y ((hW y).1 hy)
      rw [hcache, huuid, (hc i (gf.uuid y) y).2 ⟨hii.1, hii.2, hy'.1, hy'.2, rfl⟩]
      simp)
  refine ⟨g', hg', cache_delAll_only i _ _ _ hg', ?_, ?_⟩
  · intro i' u hh
    apply h1
    obtain ⟨hi', y, hy, hyu⟩ := hh
    exact ⟨hi', y, (hW y).2 hy, by rw [huuid]; exact hyu⟩
  · intro i' u hh
    rw [h2, hcache]
    intro hh'
    obtain ⟨hi', y, hy, hyu⟩ := hh'
    exact hh ⟨hi', y, (hW y).1 hy, by rw [← huuid]; exact hyu⟩

theorem cache_cacheAdd_spec {gf gx : G}
    (hkids : gx.kids = gf.kids) (hkind : gx.kind = gf.kind) (huuid : gx.uuid = gf.uuid)
    {v : Nat} (i : Nat)
    (hW : ∀ y, y ∈ cache_walk gf.kids (gf.kind v) v ↔ CacheDesc gf v y) :
    CacheOnly gx (cacheAdd gx i v) ∧
      ((∀ a b, CacheDesc gf v a → CacheDesc gf v b → gf.uuid a = gf.uuid b → a = b) →
        ∀ y, CacheDesc gf v y → (cacheAdd gx i v).cache i (gf.uuid y) = some y) ∧
      (∀ i' u, ¬ (i' = i ∧ ∃ y, CacheDesc gf v y ∧ gf.uuid y = u) →
        (cacheAdd gx i v).cache i' u = gx.cache i' u) := by
  rw [cache_cacheAdd_eq, hkids, hkind]
  refine ⟨cache_setAll_only i _ gx, ?_, ?_⟩
  · intro hinj y hy
    rw [← huuid]
    apply cache_setAll_hit
    · intro a ha b hb hab
      rw [huuid] at hab
      exact hinj a b ((hW a).1 ha) ((hW b).1 hb) hab
    · exact (hW y).2 hy
  · intro i' u hh
    apply cache_setAll_other
    intro hh'
    obtain ⟨hi', y, hy, hyu⟩ := hh'
    exact hh ⟨hi', y, (hW y).1 hy, by rw [← huuid]; exact hyu⟩

/-- for a block the walked list is the node itself, whatever the collections are -/
theorem cache_walk_leaf {g : G} (hp : CacheParInv g) {v : Nat} (hk : g.kind v = .code ∨ g.kind v = .data)
    (k : Nat → Slot → List Nat) :
    (∀ y, y ∈ cache_walk k (g.kind v) v ↔ CacheDesc g v y) ∧ (cache_walk k (g.kind v) v).Nodup := by
  rcases hk with hk | hk <;> rw [hk] <;> simp only [cache_walk, List.mem_singleton, List.nodup_cons,
    List.not_mem_nil, not_false_eq_true, List.nodup_nil, and_self, and_true] <;> intro y
  · exact ⟨fun h => h ▸ .refl, cache_desc_leaf hp (by rw [hk]; exact cache_no_child_code)⟩
  · exact ⟨fun h => h ▸ .refl, cache_desc_leaf hp (by rw [hk]; exact cache_no_child_data)⟩

/-- the fields the invariants of C03 read all agree (the symbol indexes may differ) -/
structure CacheSame (g g' : G) : Prop where
  n : g'.n = g.n
  kind : g'.kind = g.kind
  uuid : g'.uuid = g.uuid
  par : g'.par = g.par
  kids : g'.kids = g.kids
  cache : g'.cache = g.cache

theorem CacheSame.rfl' (g : G) : CacheSame g g := ⟨rfl, rfl, rfl, rfl, rfl, rfl⟩

theorem cache_symIndexDiscard_same (g : G) (m v : Nat) : CacheSame g (symIndexDiscard g m v) := by
  unfold symIndexDiscard
  split
  · split <;> exact ⟨rfl, rfl, rfl, rfl, rfl, rfl⟩
  · exact CacheSame.rfl' g

theorem cache_symIndexAdd_same (g : G) (m v : Nat) : CacheSame g (symIndexAdd g m v) := by
  unfold symIndexAdd
  split
  · split <;> exact ⟨rfl, rfl, rfl, rfl, rfl, rfl⟩
  · exact CacheSame.rfl' g

theorem CacheSame.irOf {g g' : G} (h : CacheSame g g') (x : Nat) : irOf g' x = irOf g x :=
  cache_irOf_congr h.kind h.par x

/-- `ForestInv` after unlinking `v` from `p` -/
theorem cache_forest_detach {g g' : G} (hf : ForestInv g) {p v : Nat} {s : Slot} (hm : v ∈ g.kids p s)
    (hn : g'.n = g.n) (hk : g'.kind = g.kind)
    (hpar : g'.par = fun x => if x = v then none else g.par x)
    (hkids : g'.kids = fun p' s' => if p' = p ∧ s' = s then (g.kids p s).erase v else g.kids p' s') :
    ForestInv g' := by
  have hm' := (hf.mem_iff _ _ _).1 hm
  have hp' : CacheParInv g' := cache_parInv_detach (v := v) hf.cache_parInv hn hk (by rw [hpar]; simp)
    (by intro x hx; rw [hpar]; simp [hx])
  refine ⟨?_, ?_, hp'.kind_ok, hp'.alloc⟩
  · intro c p' s'
    rw [hkids, hpar, hk]
    by_cases hps : p' = p ∧ s' = s
    · obtain ⟨rfl, rfl⟩ := hps
      simp only [and_self, if_true]
      rw [(hf.nodup p' s').mem_erase_iff, hf.mem_iff]
      by_cases hcv : c = v
      · simp [hcv]
      · simp [hcv]
    · simp only [hps, if_false]
      rw [hf.mem_iff]
      by_cases hcv : c = v
      · subst hcv
        simp only [if_true]
        constructor
        · intro h
          rw [hm'.1, hm'.2] at h
          exact absurd ⟨(Option.some.inj h.1).symm, (Option.some.inj h.2).symm⟩ hps
        · intro h; cases h.1
      · simp [hcv]
  · intro p' s'
    rw [hkids]
    by_cases hps : p' = p ∧ s' = s
    · simp only [hps, and_self, if_true]; exact (hf.nodup p s).erase v
    · simp only [hps, if_false]; exact hf.nodup p' s'

/-- facts about a detach that later steps use -/
structure CacheDetached (g g' : G) (v : Nat) : Prop where
  n : g'.n = g.n
  kind : g'.kind = g.kind
  uuid : g'.uuid = g.uuid
  parv : g'.par v = none
  par : ∀ x, x ≠ v → g'.par x = g.par x
  cacheInv : CacheInv g'
  distinct : Distinct g'

/-- `setDiscard` of a member: succeeds, unlinks, keeps the table exact. The collections enter only
through the walked list of `v`. -/
theorem cache_setDiscard_core {g : G} (hp : CacheParInv g) (hc : CacheInv g) (hd : Distinct g)
    {p v : Nat} {s : Slot} (hv : v < g.n) (hkv : g.kind v ≠ .ir) (hm : v ∈ g.kids p s)
    (hpv : g.par v = some p)
    (hW : ∀ y, y ∈ cache_walk g.kids (g.kind v) v ↔ CacheDesc g v y)
    (hnd : (cache_walk g.kids (g.kind v) v).Nodup) :
    ∃ g', setDiscard g p s v = .ok g' ∧ CacheDetached g g' v ∧
      g'.kids = (fun p' s' => if p' = p ∧ s' = s then (g.kids p s).erase v else g.kids p' s') ∧
      g'.par = (fun x => if x = v then none else g.par x) := by
  unfold setDiscard
  simp only [hm, if_true]
  -- the state before the table update
  have key : ∀ g2 : G, CacheSame (setPar g v none) g2 →
      ∃ g', (match irOf g2 p with
        | some i => match cacheRemove g2 i v with
          | .ok g3 => Except.ok (kidsErase g3 p s v)
          | .error e => .error e
        | none => .ok (kidsErase g2 p s v)) = .ok g' ∧ CacheDetached g g' v ∧
      g'.kids = (fun p' s' => if p' = p ∧ s' = s then (g.kids p s).erase v else g.kids p' s') ∧
      g'.par = (fun x => if x = v then none else g.par x) := by
    intro g2 h2
    have h2par : g2.par = fun x => if x = v then none else g.par x := h2.par
    have hparv : g2.par v = none := by rw [h2par]; simp
    have hparx : ∀ x, x ≠ v → g2.par x = g.par x := by intro x hx; rw [h2par]; simp [hx]
    have hp2 : CacheParInv g2 := cache_parInv_detach hp h2.n h2.kind hparv hparx
    have hirp : irOf g2 p = irOf g v := by
      rw [cache_irOf_frame' hp hp2 h2.kind hparx (fun h => cache_desc_child_ne hp hpv h),
        cache_irOf_par hp hpv]
    rw [hirp]
    have finish : ∀ g3 : G, CacheOnly g2 g3 →
        (∀ i u, (irOf g v = some i ∧ ∃ y, CacheDesc g v y ∧ g.uuid y = u) → g3.cache i u = none) →
        (∀ i u, ¬ (irOf g v = some i ∧ ∃ y, CacheDesc g v y ∧ g.uuid y = u) →
          g3.cache i u = g.cache i u) →
        CacheDetached g (kidsErase g3 p s v) v ∧
        (kidsErase g3 p s v).kids =
          (fun p' s' => if p' = p ∧ s' = s then (g.kids p s).erase v else g.kids p' s') ∧
        (kidsErase g3 p s v).par = (fun x => if x = v then none else g.par x) := by
      intro g3 h3 hc1 hc2
      have e_n : (kidsErase g3 p s v).n = g.n := h3.n.trans h2.n
      have e_k : (kidsErase g3 p s v).kind = g.kind := h3.kind.trans h2.kind
      have e_u : (kidsErase g3 p s v).uuid = g.uuid := h3.uuid.trans h2.uuid
      have e_p : (kidsErase g3 p s v).par = fun x => if x = v then none else g.par x :=
        h3.par.trans h2par
      have e_pv : (kidsErase g3 p s v).par v = none := by rw [e_p]; simp
      have e_px : ∀ x, x ≠ v → (kidsErase g3 p s v).par x = g.par x := by
        intro x hx; rw [e_p]; simp [hx]
      refine ⟨⟨e_n, e_k, e_u, e_pv, e_px, ?_, ?_⟩, ?_, e_p⟩
      · exact cache_core_detach hp hc hd hv hkv e_n e_k e_u e_pv e_px hc1 hc2
      · exact cache_distinct_detach hp hd hkv e_n e_k e_u e_pv e_px
      · show (fun p' s' => if p' = p ∧ s' = s then (g3.kids p s).erase v else g3.kids p' s') = _
        rw [h3.kids, h2.kids]; rfl
    cases hi : irOf g v with
    | none =>
      refine ⟨_, rfl, finish g2 (CacheOnly.rfl' g2) ?_ ?_⟩
      · intro i u hh; rw [hi] at hh; cases hh.1
      · intro i u _; rw [h2.cache]; rfl
    | some i =>
      obtain ⟨g3, hg3, h3, hc1, hc2⟩ := cache_cacheRemove_spec (gx := g2) hp hc hd h2.kids h2.kind h2.uuid
        h2.cache hv hi hW hnd
      simp only [hg3]
      refine ⟨_, rfl, finish g3 h3 ?_ ?_⟩
      · intro i' u hh
        rw [hi] at hh
        exact hc1 i' u ⟨(Option.some.inj hh.1).symm, hh.2⟩
      · intro i' u hh
        rw [hi] at hh
        exact hc2 i' u (fun hh' => hh ⟨by rw [hh'.1], hh'.2⟩)
  apply key
  split
  · exact cache_symIndexDiscard_same _ _ _
  · exact CacheSame.rfl' _

theorem cache_setDiscard_ok {g : G} (hf : ForestInv g) (hc : CacheInv g) (hd : Distinct g)
    {p v : Nat} {s : Slot} (hv : v < g.n) (hkv : g.kind v ≠ .ir) (hm : v ∈ g.kids p s) :
    ∃ g', setDiscard g p s v = .ok g' ∧ CacheDetached g g' v ∧ ForestInv g' := by
  obtain ⟨g', h1, h2, h3, h4⟩ := cache_setDiscard_core hf.cache_parInv hc hd hv hkv hm
    ((hf.mem_iff _ _ _).1 hm).1 (fun y => cache_mem_walk_iff hf hkv) (cache_nodup_walk hf v)
  exact ⟨g', h1, h2, cache_forest_detach hf hm h2.n h2.kind h4 h3⟩

/-- re-pointing `v` to `p`: the IR of every node afterwards -/
theorem cache_reparent_irOf {g g' : G} (hp : CacheParInv g) {v p : Nat}
    (hv : v < g.n) (hpn : p < g.n) (hkp : parentKind (g.kind v) = some (g.kind p))
    (hn : g'.n = g.n) (hk : g'.kind = g.kind)
    (hparv : g'.par v = some p) (hpar : ∀ x, x ≠ v → g'.par x = g.par x) :
    (∀ x, CacheDesc g v x → irOf g' x = irOf g p) ∧ (∀ x, ¬ CacheDesc g v x → irOf g' x = irOf g x) ∧
      irOf g' p = irOf g p := by
  have hp' := cache_parInv_attach hp hv hpn hkp hn hk hparv hpar
  have hndp : ¬ CacheDesc g v p := by
    intro h
    have h1 := cache_rank_parentKind hkp
    rcases cache_desc_rank hp h with h2 | h2
    · rw [h2] at h1; omega
    · omega
  have hirp : irOf g' p = irOf g p := cache_irOf_frame' hp hp' hk hpar hndp
  have hirv : irOf g' v = irOf g p := by rw [cache_irOf_par hp' hparv, hirp]
  refine ⟨?_, fun x hx => cache_irOf_frame' hp hp' hk hpar hx, hirp⟩
  intro x hdx
  rw [cache_desc_irOf hp' (cache_desc_frame hp hpar hdx), hirv]

theorem cache_detach_irOf {g g' : G} (hp : CacheParInv g) {v : Nat} (hkv : g.kind v ≠ .ir)
    (hn : g'.n = g.n) (hk : g'.kind = g.kind)
    (hparv : g'.par v = none) (hpar : ∀ x, x ≠ v → g'.par x = g.par x) :
    (∀ x, CacheDesc g v x → irOf g' x = none) ∧ (∀ x, ¬ CacheDesc g v x → irOf g' x = irOf g x) := by
  have hp' := cache_parInv_detach hp hn hk hparv hpar
  exact ⟨fun x hdx => cache_desc_detached hp' hparv (by rw [hk]; exact hkv) (cache_desc_frame hp hpar hdx),
    fun x hx => cache_irOf_frame' hp hp' hk hpar hx⟩

/-- attach the detached `v` below `p`: `gx` is the state `cacheAdd` runs on, `g'` the result -/
theorem cache_attach_ok {g1 gx g' : G} (hp : CacheParInv g1) (hc : CacheInv g1) {v p : Nat}
    (hv : v < g1.n) (hpn : p < g1.n) (hkp : parentKind (g1.kind v) = some (g1.kind p))
    (hpv : g1.par v = none)
    (hW : ∀ y, y ∈ cache_walk g1.kids (g1.kind v) v ↔ CacheDesc g1 v y)
    (hxk : gx.kids = g1.kids) (hxkind : gx.kind = g1.kind) (hxu : gx.uuid = g1.uuid)
    (hxc : gx.cache = g1.cache)
    (hn : g'.n = g1.n) (hk : g'.kind = g1.kind) (hu : g'.uuid = g1.uuid)
    (hparv : g'.par v = some p) (hpar : ∀ x, x ≠ v → g'.par x = g1.par x)
    (hcache : g'.cache = match irOf g1 p with
      | some i => (cacheAdd gx i v).cache
      | none => g1.cache)
    (hd' : Distinct g') : CacheInv g' := by
  obtain ⟨hr1, _, _⟩ := cache_reparent_irOf hp hv hpn hkp hn hk hparv hpar
  apply cache_core_attach hp hc hd' hv hpn hkp hpv hn hk hu hparv hpar
  · intro i y hi hy
    rw [hcache]
    simp only [hi]
    refine (cache_cacheAdd_spec (gx := gx) hxk hxkind hxu i hW).2.1 ?_ y hy
    intro a b ha hb hab
    refine hd' a b i (by rw [hn]; exact cache_desc_lt hp ha hv) (by rw [hn]; exact cache_desc_lt hp hb hv)
      (by rw [hr1 a ha]; exact hi) (by rw [hr1 b hb]; exact hi) (by rw [hu]; exact hab)
  · intro i u hh
    rw [hcache]
    cases hi : irOf g1 p with
    | none => rfl
    | some i0 =>
      simp only []
      rw [(cache_cacheAdd_spec (gx := gx) hxk hxkind hxu i0 hW).2.2 i u, hxc]
      intro hh'
      exact hh ⟨by rw [hi, hh'.1], hh'.2⟩

theorem cache_mem_setInsertNat {L : List Nat} {v c : Nat} : c ∈ setInsertNat L v ↔ c = v ∨ c ∈ L := by
  unfold setInsertNat
  split
  · constructor
    · exact .inr
    · rintro (rfl | h)
      · assumption
      · exact h
  · rw [List.mem_append, List.mem_singleton]; exact or_comm

theorem cache_nodup_setInsertNat {L : List Nat} {v : Nat} (h : L.Nodup) : (setInsertNat L v).Nodup := by
  unfold setInsertNat
  split
  · exact h
  · rename_i hv
    rw [List.nodup_append]
    refine ⟨h, by simp, ?_⟩
    intro a ha b hb hab
    rw [List.mem_singleton] at hb
    subst hb; subst hab; exact hv ha

/-- `ForestInv` after linking the detached `v` into collection `s` of `p` -/
theorem cache_forest_attach {g1 g' : G} (hf : ForestInv g1) {p v : Nat} {s : Slot}
    (hv : v < g1.n) (hpn : p < g1.n) (hs : slotOf (g1.kind v) = some s)
    (hkp : parentKind (g1.kind v) = some (g1.kind p)) (hpv : g1.par v = none)
    (hn : g'.n = g1.n) (hk : g'.kind = g1.kind)
    (hpar : g'.par = fun x => if x = v then some p else g1.par x)
    (hkids : ∀ p' s', ¬ (p' = p ∧ s' = s) → g'.kids p' s' = g1.kids p' s')
    (hmem : ∀ c, c ∈ g'.kids p s ↔ c = v ∨ c ∈ g1.kids p s) (hnd : (g'.kids p s).Nodup) :
    ForestInv g' := by
  have hp' : CacheParInv g' := cache_parInv_attach (v := v) (p := p) hf.cache_parInv hv hpn hkp hn hk
    (by rw [hpar]; simp) (by intro x hx; rw [hpar]; simp [hx])
  refine ⟨?_, ?_, hp'.kind_ok, hp'.alloc⟩
  · intro c p' s'
    rw [hpar, hk]
    by_cases hps : p' = p ∧ s' = s
    · obtain ⟨rfl, rfl⟩ := hps
      rw [hmem, hf.mem_iff]
      by_cases hcv : c = v
      · subst hcv; simp [hs]
      · simp [hcv]
    · rw [hkids p' s' hps, hf.mem_iff]
      by_cases hcv : c = v
      · subst hcv
        simp only [if_true, hpv, hs]
        constructor
        · intro h; cases h.1
        · intro h
          exact absurd ⟨(Option.some.inj h.1).symm, (Option.some.inj h.2).symm⟩ hps
      · simp [hcv]
  · intro p' s'
    by_cases hps : p' = p ∧ s' = s
    · obtain ⟨rfl, rfl⟩ := hps; exact hnd
    · rw [hkids p' s' hps]; exact hf.nodup p' s'

/-- shape of the result of attaching `v` below `p` -/
structure CacheAttached (g g' : G) (v p : Nat) : Prop where
  n : g'.n = g.n
  kind : g'.kind = g.kind
  uuid : g'.uuid = g.uuid
  parv : g'.par v = some p
  par : ∀ x, x ≠ v → g'.par x = g.par x

theorem CacheDetached.refl' {g : G} {v : Nat} (hc : CacheInv g) (hd : Distinct g) (hpv : g.par v = none) :
    CacheDetached g g v := ⟨rfl, rfl, rfl, hpv, fun _ _ => rfl, hc, hd⟩

/-- the tail of `setAdd`/`modHookAdd` -/
def cache_attachState (g3 : G) (p : Nat) (s : Slot) (v : Nat) : G :=
  kidsInsert (match irOf g3 p with
    | some i => cacheAdd g3 i v
    | none => g3) p s v

/-- second half of `setAdd` from a state where `v` is detached -/
theorem cache_setAdd_attach {g1 : G} (hf : ForestInv g1) (hc : CacheInv g1)
    {p v : Nat} {s : Slot} (hv : v < g1.n) (hpn : p < g1.n) (hs : slotOf (g1.kind v) = some s)
    (hkp : parentKind (g1.kind v) = some (g1.kind p)) (hpv : g1.par v = none) (g3 : G)
    (h3 : CacheSame (setPar g1 v (some p)) g3) :
    CacheAttached g1 (cache_attachState g3 p s v) v p ∧ ForestInv (cache_attachState g3 p s v) ∧
      (Distinct (cache_attachState g3 p s v) → CacheInv (cache_attachState g3 p s v)) := by
  have hp := hf.cache_parInv
  have hkv : g1.kind v ≠ .ir := by intro e; rw [e] at hs; cases hs
  have h3par : g3.par = fun x => if x = v then some p else g1.par x := h3.par
  have h3pv : g3.par v = some p := by rw [h3par]; simp
  have h3px : ∀ x, x ≠ v → g3.par x = g1.par x := by intro x hx; rw [h3par]; simp [hx]
  have hirp : irOf g3 p = irOf g1 p := (cache_reparent_irOf hp hv hpn hkp h3.n h3.kind h3pv h3px).2.2
  have hW : ∀ y, y ∈ cache_walk g1.kids (g1.kind v) v ↔ CacheDesc g1 v y :=
    fun y => cache_mem_walk_iff hf hkv
  have hvnot : v ∉ g1.kids p s := by
    intro h; have := ((hf.mem_iff _ _ _).1 h).1; rw [hpv] at this; cases this
  unfold cache_attachState
  rw [hirp]
  have key : ∀ g4 : G, CacheOnly g3 g4 →
      (g4.cache = match irOf g1 p with
        | some i => (cacheAdd g3 i v).cache
        | none => g1.cache) →
      CacheAttached g1 (kidsInsert g4 p s v) v p ∧ ForestInv (kidsInsert g4 p s v) ∧
        (Distinct (kidsInsert g4 p s v) → CacheInv (kidsInsert g4 p s v)) := by
    intro g4 h4 hcache
    have e_n : (kidsInsert g4 p s v).n = g1.n := h4.n.trans h3.n
    have e_k : (kidsInsert g4 p s v).kind = g1.kind := h4.kind.trans h3.kind
    have e_u : (kidsInsert g4 p s v).uuid = g1.uuid := h4.uuid.trans h3.uuid
    have e_p : (kidsInsert g4 p s v).par = fun x => if x = v then some p else g1.par x :=
      h4.par.trans h3par
    have e_pv : (kidsInsert g4 p s v).par v = some p := by rw [e_p]; simp
    have e_px : ∀ x, x ≠ v → (kidsInsert g4 p s v).par x = g1.par x := by
      intro x hx; rw [e_p]; simp [hx]
    have e_kids : ∀ p' s', (kidsInsert g4 p s v).kids p' s' =
        if p' = p ∧ s' = s then setInsertNat (g1.kids p s) v else g1.kids p' s' := by
      intro p' s'
      show (if p' = p ∧ s' = s then setInsertNat (g4.kids p s) v else g4.kids p' s') = _
      rw [h4.kids, h3.kids]; rfl
    refine ⟨⟨e_n, e_k, e_u, e_pv, e_px⟩, ?_, ?_⟩
    · apply cache_forest_attach hf hv hpn hs hkp hpv e_n e_k e_p
      · intro p' s' hps; rw [e_kids, if_neg hps]
      · intro c; rw [e_kids, if_pos ⟨rfl, rfl⟩]; exact cache_mem_setInsertNat
      · rw [e_kids, if_pos ⟨rfl, rfl⟩]; exact cache_nodup_setInsertNat (hf.nodup _ _)
    · intro hd'
      exact cache_attach_ok (gx := g3) hp hc hv hpn hkp hpv hW h3.kids h3.kind h3.uuid h3.cache
        e_n e_k e_u e_pv e_px hcache hd'
  cases hi : irOf g1 p with
  | none =>
    apply key g3 (CacheOnly.rfl' g3)
    rw [h3.cache, hi]; rfl
  | some i =>
    apply key (cacheAdd g3 i v) (cache_cacheAdd_spec (gf := g1) h3.kids h3.kind h3.uuid i hW).1
    rw [hi]

theorem CacheAttached.of_detached {g g1 g' : G} {v p : Nat} (h1 : CacheDetached g g1 v)
    (h2 : CacheAttached g1 g' v p) : CacheAttached g g' v p :=
  ⟨h2.n.trans h1.n, h2.kind.trans h1.kind, h2.uuid.trans h1.uuid, h2.parv,
   fun x hx => (h2.par x hx).trans (h1.par x hx)⟩

theorem cache_setAdd_ok {g : G} (hf : ForestInv g) (hc : CacheInv g) (hd : Distinct g)
    {p v : Nat} {s : Slot} (hv : v < g.n) (hpn : p < g.n) (hs : slotOf (g.kind v) = some s)
    (hkp : parentKind (g.kind v) = some (g.kind p)) :
    ∃ g', setAdd g p s v = .ok g' ∧ CacheAttached g g' v p ∧ ForestInv g' ∧
      (Distinct g' → CacheInv g') := by
  have hkv : g.kind v ≠ .ir := by intro e; rw [e] at hs; cases hs
  have tail : ∀ g1, CacheDetached g g1 v → ForestInv g1 →
      ∃ g', (Except.ok (cache_attachState
        (if s = .secs ∨ s = .syms ∨ s = .proxies then symIndexAdd (setPar g1 v (some p)) p v
          else setPar g1 v (some p)) p s v) : Except Exc G) = Except.ok g' ∧ CacheAttached g g' v p ∧ ForestInv g' ∧
      (Distinct g' → CacheInv g') := by
    intro g1 hdet hf1
    have hA := cache_setAdd_attach hf1 hdet.cacheInv (p := p) (v := v) (s := s)
      (by rw [hdet.n]; exact hv) (by rw [hdet.n]; exact hpn) (by rw [hdet.kind]; exact hs)
      (by rw [hdet.kind]; exact hkp) hdet.parv
      (if s = .secs ∨ s = .syms ∨ s = .proxies then symIndexAdd (setPar g1 v (some p)) p v
        else setPar g1 v (some p))
      (by split
          · exact cache_symIndexAdd_same _ _ _
          · exact CacheSame.rfl' _)
    exact ⟨_, rfl, CacheAttached.of_detached hdet hA.1, hA.2.1, hA.2.2⟩
  unfold setAdd
  cases hq : g.par v with
  | none => exact tail g (CacheDetached.refl' hc hd hq) hf
  | some q =>
    obtain ⟨g1, h1, hdet, hf1⟩ := cache_setDiscard_ok hf hc hd hv hkv ((hf.mem_iff _ _ _).2 ⟨hq, hs⟩)
    simp only [h1]
    exact tail g1 hdet hf1

/-! ## Part F: folds -/

/-- UUIDs are distinct in every state a step of the fold starts from -/
def cache_DistinctFold (F : G → Nat → Except Exc G) : G → List Nat → Prop
  | _, [] => True
  | g, v :: vs => Distinct g ∧ match F g v with
    | .ok g1 => cache_DistinctFold F g1 vs
    | .error _ => True

/-- generic fold lemma: an invariant indexed by the remaining list, the table exact whenever the
UUIDs are distinct -/
theorem cache_foldE_good {F : G → Nat → Except Exc G} (I : List Nat → G → Prop)
    (hstep : ∀ g v L, I (v :: L) g → Distinct g → CacheInv g →
      ∃ g1, F g v = .ok g1 ∧ I L g1 ∧ (Distinct g1 → CacheInv g1)) :
    ∀ (L : List Nat) (g : G), I L g → (Distinct g → CacheInv g) → cache_DistinctFold F g L →
      ∃ g', foldE F L g = .ok g' ∧ I [] g' ∧ (Distinct g' → CacheInv g')
  | [], g, hI, hc, _ => ⟨g, rfl, hI, hc⟩
  | v :: L, g, hI, hc, hdf => by
    obtain ⟨hd, hdf'⟩ := hdf
    obtain ⟨g1, h1, hI1, hc1⟩ := hstep g v L hI hd (hc hd)
    rw [h1] at hdf'
    obtain ⟨g', h', hI', hc'⟩ := cache_foldE_good I hstep L g1 hI1 hc1 hdf'
    exact ⟨g', by simp only [foldE, h1, h'], hI', hc'⟩

/-- a fold all of whose steps keep the UUIDs distinct (detaching folds) -/
theorem cache_distinctFold_of_pres {F : G → Nat → Except Exc G} (P : G → Prop)
    (hstep : ∀ g v g1, P g → Distinct g → F g v = .ok g1 → P g1 ∧ Distinct g1) :
    ∀ (L : List Nat) (g : G), P g → Distinct g → cache_DistinctFold F g L
  | [], _, _, _ => trivial
  | v :: L, g, hP, hd => by
    refine ⟨hd, ?_⟩
    cases h1 : F g v with
    | error e => trivial
    | ok g1 =>
      obtain ⟨hP1, hd1⟩ := hstep g v g1 hP hd h1
      exact cache_distinctFold_of_pres P hstep L g1 hP1 hd1

/-- side conditions of an attaching fold towards `p` -/
structure CacheAttSide (g0 g : G) (p : Nat) (L : List Nat) : Prop where
  n : g.n = g0.n
  kind : g.kind = g0.kind
  uuid : g.uuid = g0.uuid
  parInv : CacheParInv g
  pn : p < g0.n
  ok : ∀ v, v ∈ L → v < g0.n ∧ parentKind (g0.kind v) = some (g0.kind p)

theorem CacheAttSide.step {g0 g g1 : G} {p v : Nat} {L : List Nat} (h : CacheAttSide g0 g p (v :: L))
    (h1 : CacheAttached g g1 v p) : CacheAttSide g0 g1 p L := by
  have hv := h.ok v List.mem_cons_self
  refine ⟨h1.n.trans h.n, h1.kind.trans h.kind, h1.uuid.trans h.uuid, ?_, h.pn,
    fun x hx => h.ok x (List.mem_cons_of_mem _ hx)⟩
  exact cache_parInv_attach h.parInv (by rw [h.n]; exact hv.1) (by rw [h.n]; exact h.pn)
    (by rw [h.kind]; exact hv.2) h1.n h1.kind h1.parv h1.par

/-- forward: what is in `p`'s IR stays there while the fold attaches further nodes below `p` -/
theorem cache_attFold_forward {F : G → Nat → Except Exc G} {g0 : G} {p : Nat}
    (hshape : ∀ g v g1, F g v = .ok g1 → CacheAttached g g1 v p) :
    ∀ (L : List Nat) (g g' : G), CacheAttSide g0 g p L → foldE F L g = .ok g' →
      g'.n = g.n ∧ g'.uuid = g.uuid ∧
      irOf g' p = irOf g p ∧ ∀ x, irOf g x = irOf g p → irOf g' x = irOf g p
  | [], g, g', _, h => by cases h; exact ⟨rfl, rfl, rfl, fun _ hx => hx⟩
  | v :: L, g, g', hs, h => by
    simp only [foldE] at h
    cases h1 : F g v with
    | error e => rw [h1] at h; cases h
    | ok g1 =>
      rw [h1] at h
      have hA := hshape g v g1 h1
      have hv := hs.ok v List.mem_cons_self
      obtain ⟨r1, r2, r3⟩ := cache_reparent_irOf hs.parInv (by rw [hs.n]; exact hv.1)
        (by rw [hs.n]; exact hs.pn) (by rw [hs.kind]; exact hv.2) hA.n hA.kind hA.parv hA.par
      obtain ⟨f0, f0', f1, f2⟩ := cache_attFold_forward hshape L g1 g' (hs.step hA) h
      refine ⟨f0.trans hA.n, f0'.trans hA.uuid, f1.trans r3, ?_⟩
      intro x hx
      have : irOf g1 x = irOf g1 p := by
        rw [r3]
        by_cases hdx : CacheDesc g v x
        · exact r1 x hdx
        · rw [r2 x hdx]; exact hx
      rw [f2 x this, r3]

/-- if the UUIDs are distinct before and after an attaching fold, they are distinct in between -/
theorem cache_distinctFold_of_ends {F : G → Nat → Except Exc G} {g0 : G} {p : Nat}
    (hshape : ∀ g v g1, F g v = .ok g1 → CacheAttached g g1 v p) :
    ∀ (L : List Nat) (g g' : G), CacheAttSide g0 g p L → foldE F L g = .ok g' →
      Distinct g → Distinct g' → cache_DistinctFold F g L
  | [], _, _, _, _, _, _ => trivial
  | v :: L, g, g', hs, h, hd, hd' => by
    refine ⟨hd, ?_⟩
    simp only [foldE] at h
    cases h1 : F g v with
    | error e => trivial
    | ok g1 =>
      rw [h1] at h
      simp only []
      have hA := hshape g v g1 h1
      have hv := hs.ok v List.mem_cons_self
      obtain ⟨r1, r2, r3⟩ := cache_reparent_irOf hs.parInv (by rw [hs.n]; exact hv.1)
        (by rw [hs.n]; exact hs.pn) (by rw [hs.kind]; exact hv.2) hA.n hA.kind hA.parv hA.par
      have hs1 := hs.step hA
      obtain ⟨f0, f0', f1, f2⟩ := cache_attFold_forward hshape L g1 g' hs1 h
      have hd1 : Distinct g1 := by
        intro a b i ha hb hia hib hab
        by_cases hpi : irOf g p = some i
        · -- both end up in `p`'s IR in the final state
          have ha' : irOf g' a = some i := by rw [f2 a (by rw [r3, hia, hpi]), r3, hpi]
          have hb' : irOf g' b = some i := by rw [f2 b (by rw [r3, hib, hpi]), r3, hpi]
          exact hd' a b i (by rw [f0]; exact ha) (by rw [f0]; exact hb) ha' hb' (by rw [f0']; exact hab)
        · -- both were there before the step
          have key : ∀ x, irOf g1 x = some i → irOf g x = some i := by
            intro x hx
            by_cases hdx : CacheDesc g v x
            · rw [r1 x hdx] at hx; exact absurd hx hpi
            · rw [r2 x hdx] at hx; exact hx
          exact hd a b i (by rw [← hA.n]; exact ha) (by rw [← hA.n]; exact hb) (key a hia) (key b hib)
            (by rw [← hA.uuid]; exact hab)
      exact cache_distinctFold_of_ends hshape L g1 g' hs1 h hd1 hd'

/-! ### shapes that hold without any invariant -/

theorem cache_cacheRemove_only {g g' : G} {i v : Nat} (h : cacheRemove g i v = .ok g') : CacheOnly g g' := by
  rw [cache_cacheRemove_eq] at h; exact cache_delAll_only i _ _ _ h

theorem cache_cacheAdd_only (g : G) (i v : Nat) : CacheOnly g (cacheAdd g i v) := by
  rw [cache_cacheAdd_eq]; exact cache_setAll_only i _ g

/-- what a `discard` may change in the fields the invariants read -/
structure CacheLeft (g g' : G) (v : Nat) : Prop where
  n : g'.n = g.n
  kind : g'.kind = g.kind
  uuid : g'.uuid = g.uuid
  par : ∀ x, x ≠ v → g'.par x = g.par x

theorem CacheLeft.rfl' (g : G) (v : Nat) : CacheLeft g g v := ⟨rfl, rfl, rfl, fun _ _ => rfl⟩

theorem cache_setDiscard_shape {g g' : G} {q v : Nat} {s : Slot} (h : setDiscard g q s v = .ok g') :
    CacheLeft g g' v := by
  unfold setDiscard at h
  split at h
  · have key : ∀ g2 : G, CacheSame (setPar g v none) g2 →
        (match irOf g2 q with
          | some i => match cacheRemove g2 i v with
            | .ok g3 => Except.ok (kidsErase g3 q s v)
            | .error e => .error e
          | none => .ok (kidsErase g2 q s v)) = .ok g' → CacheLeft g g' v := by
      intro g2 h2 h
      have h2par : ∀ x, x ≠ v → g2.par x = g.par x := by
        intro x hx; rw [h2.par]; show (if x = v then none else g.par x) = _; rw [if_neg hx]
      split at h
      · split at h
        · rename_i g3 h3
          have := cache_cacheRemove_only h3
          cases h
          exact ⟨this.n.trans h2.n, this.kind.trans h2.kind, this.uuid.trans h2.uuid,
            fun x hx => (congrFun this.par x).trans (h2par x hx)⟩
        · cases h
      · cases h
        exact ⟨h2.n, h2.kind, h2.uuid, h2par⟩
    refine key _ ?_ h
    split
    · exact cache_symIndexDiscard_same _ _ _
    · exact CacheSame.rfl' _
  · cases h; exact CacheLeft.rfl' g v

theorem cache_attachState_only (g3 : G) (p : Nat) (s : Slot) (v : Nat) :
    ∃ g4, CacheOnly g3 g4 ∧ cache_attachState g3 p s v = kidsInsert g4 p s v := by
  unfold cache_attachState
  split
  · exact ⟨_, cache_cacheAdd_only _ _ _, rfl⟩
  · exact ⟨_, CacheOnly.rfl' _, rfl⟩

theorem cache_setAdd_shape {g g' : G} {p v : Nat} {s : Slot} (h : setAdd g p s v = .ok g') :
    CacheAttached g g' v p := by
  have tail : ∀ g1, CacheLeft g g1 v →
      (Except.ok (cache_attachState
        (if s = .secs ∨ s = .syms ∨ s = .proxies then symIndexAdd (setPar g1 v (some p)) p v
          else setPar g1 v (some p)) p s v) : Except Exc G) = Except.ok g' → CacheAttached g g' v p := by
    intro g1 h1 h
    cases h
    have h3 : CacheSame (setPar g1 v (some p))
        (if s = .secs ∨ s = .syms ∨ s = .proxies then symIndexAdd (setPar g1 v (some p)) p v
          else setPar g1 v (some p)) := by
      split
      · exact cache_symIndexAdd_same _ _ _
      · exact CacheSame.rfl' _
    generalize (if s = .secs ∨ s = .syms ∨ s = .proxies then symIndexAdd (setPar g1 v (some p)) p v
          else setPar g1 v (some p)) = g3 at h3
    obtain ⟨g4, h4, e4⟩ := cache_attachState_only g3 p s v
    rw [e4]
    have e_p : (kidsInsert g4 p s v).par = fun x => if x = v then some p else g1.par x :=
      h4.par.trans h3.par
    refine ⟨h4.n.trans (h3.n.trans h1.n), h4.kind.trans (h3.kind.trans h1.kind),
      h4.uuid.trans (h3.uuid.trans h1.uuid), by rw [e_p]; simp, ?_⟩
    intro x hx
    rw [e_p]; simp only [hx, if_false]; exact h1.par x hx
  unfold setAdd at h
  cases hq : g.par v with
  | none => rw [hq] at h; exact tail g (CacheLeft.rfl' g v) h
  | some q =>
    rw [hq] at h
    simp only [] at h
    cases h1 : setDiscard g q s v with
    | error e => rw [h1] at h; cases h
    | ok g1 => rw [h1] at h; exact tail g1 (cache_setDiscard_shape h1) h

/-! ### `blkUpdate` -/

def cache_blkTail (ir : Option Nat) (g2 : G) (v : Nat) : G :=
  match ir with
  | some i => cacheAdd g2 i v
  | none => g2

/-- one step of the loop of `ByteInterval._BlockSet.update` -/
def cache_blkStep (ir : Option Nat) (p : Nat) (g : G) (v : Nat) : Except Exc G :=
  match (match g.par v with
         | some q => setDiscard g q .blocks v
         | none => .ok g) with
  | .error e => .error e
  | .ok g1 => .ok (cache_blkTail ir (setPar g1 v (some p)) v)

theorem cache_blkTail_only (ir : Option Nat) (g2 : G) (v : Nat) : CacheOnly g2 (cache_blkTail ir g2 v) := by
  unfold cache_blkTail
  split
  · exact cache_cacheAdd_only _ _ _
  · exact CacheOnly.rfl' _

def cache_blkNew (g : G) (p : Nat) (vs : List Nat) : List Nat :=
  (vs.eraseDups).filter (fun v => !(v ∈ g.kids p .blocks))

theorem cache_blkUpdate_eq (g : G) (p : Nat) (vs : List Nat) :
    blkUpdate g p vs =
      match foldE (cache_blkStep (irOf g p) p) (cache_blkNew g p vs) g with
      | .error e => .error e
      | .ok g' => .ok ((cache_blkNew g p vs).foldl (fun g v => kidsInsert g p .blocks v) g') := rfl

theorem cache_blkStep_shape {ir : Option Nat} {p : Nat} {g g' : G} {v : Nat}
    (h : cache_blkStep ir p g v = .ok g') : CacheAttached g g' v p := by
  have tail : ∀ g1, CacheLeft g g1 v →
      (Except.ok (cache_blkTail ir (setPar g1 v (some p)) v) : Except Exc G) = Except.ok g' →
      CacheAttached g g' v p := by
    intro g1 h1 h
    cases h
    have h4 := cache_blkTail_only ir (setPar g1 v (some p)) v
    refine ⟨h4.n.trans h1.n, h4.kind.trans h1.kind, h4.uuid.trans h1.uuid, ?_, ?_⟩
    · rw [h4.par]; show (if v = v then some p else g1.par v) = _; simp
    · intro x hx
      rw [h4.par]; show (if x = v then some p else g1.par x) = _
      rw [if_neg hx]; exact h1.par x hx
  unfold cache_blkStep at h
  cases hq : g.par v with
  | none => rw [hq] at h; exact tail g (CacheLeft.rfl' g v) h
  | some q =>
    rw [hq] at h
    simp only [] at h
    cases h1 : setDiscard g q .blocks v with
    | error e => rw [h1] at h; cases h
    | ok g1 => rw [h1] at h; exact tail g1 (cache_setDiscard_shape h1) h

structure CacheBlkCtx (g : G) (p : Nat) (new : List Nat) : Prop where
  forest : ForestInv g
  pn : p < g.n
  nodup : new.Nodup
  ok : ∀ v, v ∈ new → v < g.n ∧ slotOf (g.kind v) = some .blocks ∧
    parentKind (g.kind v) = some (g.kind p) ∧ v ∉ g.kids p .blocks

/-- state of the loop after the blocks `D` have been re-pointed to `p` (not yet inserted) -/
structure CacheBlkInv (g : G) (p : Nat) (D : List Nat) (gk : G) : Prop where
  n : gk.n = g.n
  kind : gk.kind = g.kind
  uuid : gk.uuid = g.uuid
  par : ∀ x, gk.par x = if x ∈ D then some p else g.par x
  kids_other : ∀ p' s', s' ≠ Slot.blocks → gk.kids p' s' = g.kids p' s'
  kids_blk : ∀ p' c, c ∈ gk.kids p' .blocks ↔ c ∈ g.kids p' .blocks ∧ c ∉ D
  kids_nodup : ∀ p', (gk.kids p' .blocks).Nodup
  parInv : CacheParInv gk
  irp : irOf gk p = irOf g p

theorem cache_blkStep_ok {g : G} {p : Nat} {new D R : List Nat} {v : Nat} {gk : G}
    (ctx : CacheBlkCtx g p new) (hnew : new = D ++ v :: R) (inv : CacheBlkInv g p D gk)
    (hd : Distinct gk) (hc : CacheInv gk) :
    ∃ g1, cache_blkStep (irOf g p) p gk v = .ok g1 ∧ CacheBlkInv g p (D ++ [v]) g1 ∧
      (Distinct g1 → CacheInv g1) := by
  have hf := ctx.forest
  have hvnew : v ∈ new := by rw [hnew]; simp
  obtain ⟨hv, hs, hkp, hvp⟩ := ctx.ok v hvnew
  have hvD : v ∉ D := by
    have := ctx.nodup
    rw [hnew, List.nodup_append] at this
    intro h; exact this.2.2 v h v List.mem_cons_self rfl
  have hkcd := cache_slot_blocks hs
  have hkv : g.kind v ≠ .ir := by intro e; rw [e] at hs; cases hs
  have hpark : gk.par v = g.par v := by rw [inv.par, if_neg hvD]
  have hvp_ne : v ≠ p := by
    intro e; rw [e] at hkp
    have := cache_rank_parentKind hkp; omega
  -- the common tail
  have tail : ∀ g1, CacheDetached gk g1 v →
      (∀ p' s', s' ≠ Slot.blocks → g1.kids p' s' = g.kids p' s') →
      (∀ p' c, c ∈ g1.kids p' .blocks ↔ c ∈ g.kids p' .blocks ∧ c ∉ D ++ [v]) →
      (∀ p', (g1.kids p' .blocks).Nodup) →
      CacheBlkInv g p (D ++ [v]) (cache_blkTail (irOf g p) (setPar g1 v (some p)) v) ∧
      (Distinct (cache_blkTail (irOf g p) (setPar g1 v (some p)) v) →
        CacheInv (cache_blkTail (irOf g p) (setPar g1 v (some p)) v)) := by
    intro g1 hdet hk1 hk2 hk3
    have hp1 : CacheParInv g1 := cache_parInv_detach inv.parInv hdet.n hdet.kind hdet.parv hdet.par
    have hndp : ¬ CacheDesc gk v p := by
      intro h
      have := cache_desc_leaf inv.parInv (v := v) (by
        rw [inv.kind]; rcases hkcd with h | h <;> rw [h]
        · exact cache_no_child_code
        · exact cache_no_child_data) h
      exact hvp_ne this.symm
    have hirp1 : irOf g1 p = irOf g p := by
      rw [(cache_detach_irOf inv.parInv (by rw [inv.kind]; exact hkv) hdet.n hdet.kind hdet.parv
        hdet.par).2 p hndp, inv.irp]
    have h4 := cache_blkTail_only (irOf g p) (setPar g1 v (some p)) v
    have hcache : (cache_blkTail (irOf g p) (setPar g1 v (some p)) v).cache =
        match irOf g1 p with
        | some i => (cacheAdd (setPar g1 v (some p)) i v).cache
        | none => g1.cache := by
      rw [hirp1]; unfold cache_blkTail
      cases irOf g p <;> rfl
    generalize cache_blkTail (irOf g p) (setPar g1 v (some p)) v = g' at h4 hcache ⊢
    have e_n : g'.n = g1.n := h4.n
    have e_k : g'.kind = g1.kind := h4.kind
    have e_u : g'.uuid = g1.uuid := h4.uuid
    have e_p : g'.par = fun x => if x = v then some p else g1.par x := h4.par
    have e_pv : g'.par v = some p := by rw [e_p]; simp
    have e_px : ∀ x, x ≠ v → g'.par x = g1.par x := by intro x hx; rw [e_p]; simp [hx]
    have hv1 : v < g1.n := by rw [hdet.n, inv.n]; exact hv
    have hpn1 : p < g1.n := by rw [hdet.n, inv.n]; exact ctx.pn
    have hkp1 : parentKind (g1.kind v) = some (g1.kind p) := by rw [hdet.kind, inv.kind]; exact hkp
    have hr := cache_reparent_irOf hp1 hv1 hpn1 hkp1 e_n e_k e_pv e_px
    refine ⟨⟨e_n.trans (hdet.n.trans inv.n), e_k.trans (hdet.kind.trans inv.kind),
      e_u.trans (hdet.uuid.trans inv.uuid), ?_, ?_, ?_, ?_, ?_, ?_⟩, ?_⟩
    · intro x
      by_cases hxv : x = v
      · subst hxv; rw [e_pv]; simp
      · rw [e_px x hxv, hdet.par x hxv, inv.par]
        simp [hxv]
    · intro p' s' hs'; rw [h4.kids]; exact hk1 p' s' hs'
    · intro p' c; rw [h4.kids]; exact hk2 p' c
    · intro p'; rw [h4.kids]; exact hk3 p'
    · exact cache_parInv_attach hp1 hv1 hpn1 hkp1 e_n e_k e_pv e_px
    · rw [hr.2.2, hirp1]
    · intro hd'
      have hkcd1 : g1.kind v = .code ∨ g1.kind v = .data := by rw [hdet.kind, inv.kind]; exact hkcd
      refine cache_attach_ok (gx := setPar g1 v (some p)) hp1 hdet.cacheInv hv1 hpn1 hkp1 hdet.parv
        (cache_walk_leaf hp1 hkcd1 g1.kids).1 rfl rfl rfl rfl e_n e_k e_u e_pv e_px hcache hd'
  unfold cache_blkStep
  cases hq : gk.par v with
  | none =>
    simp only []
    refine ⟨_, rfl, tail gk (CacheDetached.refl' hc hd hq) inv.kids_other ?_ inv.kids_nodup⟩
    intro p' c
    rw [inv.kids_blk, List.mem_append, List.mem_singleton]
    constructor
    · rintro ⟨h1, h2⟩
      refine ⟨h1, ?_⟩
      rintro (h | h)
      · exact h2 h
      · subst h
        have := ((hf.mem_iff _ _ _).1 h1).1
        rw [← hpark, hq] at this; cases this
    · rintro ⟨h1, h2⟩
      exact ⟨h1, fun h => h2 (.inl h)⟩
  | some q =>
    simp only []
    have hgq : g.par v = some q := by rw [← hpark]; exact hq
    have hmq : v ∈ gk.kids q .blocks := (inv.kids_blk q v).2 ⟨(hf.mem_iff _ _ _).2 ⟨hgq, hs⟩, hvD⟩
    have hkcdk : gk.kind v = .code ∨ gk.kind v = .data := by rw [inv.kind]; exact hkcd
    obtain ⟨g1, hsd, hdet, hkids1, _⟩ := cache_setDiscard_core inv.parInv hc hd (by rw [inv.n]; exact hv)
      (by rw [inv.kind]; exact hkv) hmq hq (cache_walk_leaf inv.parInv hkcdk gk.kids).1
      (cache_walk_leaf inv.parInv hkcdk gk.kids).2
    rw [hsd]
    simp only []
    refine ⟨_, rfl, tail g1 hdet ?_ ?_ ?_⟩
    · intro p' s' hs'
      rw [hkids1]; simp only [hs', and_false, if_false]; exact inv.kids_other p' s' hs'
    · intro p' c
      rw [hkids1, List.mem_append, List.mem_singleton]
      by_cases hpq : p' = q
      · subst hpq
        simp only [and_self, if_true]
        rw [(inv.kids_nodup p').mem_erase_iff, inv.kids_blk]
        constructor
        · rintro ⟨h1, h2, h3⟩
          exact ⟨h2, fun h => h.elim h3 h1⟩
        · rintro ⟨h1, h2⟩
          exact ⟨fun h => h2 (.inr h), h1, fun h => h2 (.inl h)⟩
      · simp only [hpq, false_and, if_false]
        rw [inv.kids_blk]
        constructor
        · rintro ⟨h1, h2⟩
          refine ⟨h1, ?_⟩
          rintro (h | h)
          · exact h2 h
          · subst h
            have := ((hf.mem_iff _ _ _).1 h1).1
            rw [hgq] at this; exact hpq (Option.some.inj this).symm
        · rintro ⟨h1, h2⟩
          exact ⟨h1, fun h => h2 (.inl h)⟩
    · intro p'
      rw [hkids1]
      by_cases hpq : p' = q
      · subst hpq; simp only [and_self, if_true]; exact (inv.kids_nodup p').erase v
      · simp only [hpq, false_and, if_false]; exact inv.kids_nodup p'

theorem cache_nodup_eraseDups : ∀ (n : Nat) (l : List Nat), l.length ≤ n → l.eraseDups.Nodup := by
  intro n
  induction n with
  | zero =>
    intro l hl
    have : l = [] := List.length_eq_zero_iff.1 (Nat.le_zero.1 hl)
    subst this; simp
  | succ n ih =>
    intro l hl
    cases l with
    | nil => simp
    | cons a as =>
      rw [List.eraseDups_cons, List.nodup_cons]
      constructor
      · rw [List.mem_eraseDups, List.mem_filter]
        simp
      · apply ih
        have := List.length_filter_le (fun b => !b == a) as
        simp only [List.length_cons] at hl
        omega

theorem cache_blkNew_nodup (g : G) (p : Nat) (vs : List Nat) : (cache_blkNew g p vs).Nodup :=
  (cache_nodup_eraseDups _ vs (Nat.le_refl _)).sublist List.filter_sublist

theorem cache_mem_blkNew {g : G} {p : Nat} {vs : List Nat} {v : Nat} :
    v ∈ cache_blkNew g p vs ↔ v ∈ vs ∧ v ∉ g.kids p .blocks := by
  unfold cache_blkNew
  rw [List.mem_filter, List.mem_eraseDups]
  simp

theorem cache_mem_foldl_setInsertNat : ∀ (L init : List Nat) (c : Nat),
    c ∈ L.foldl setInsertNat init ↔ c ∈ init ∨ c ∈ L
  | [], init, c => by simp
  | x :: L, init, c => by
    rw [List.foldl_cons, cache_mem_foldl_setInsertNat L, cache_mem_setInsertNat, List.mem_cons]
    constructor
    · rintro ((h | h) | h)
      · exact .inr (.inl h)
      · exact .inl h
      · exact .inr (.inr h)
    · rintro (h | h | h)
      · exact .inl (.inr h)
      · exact .inl (.inl h)
      · exact .inr h

theorem cache_nodup_foldl_setInsertNat : ∀ (L init : List Nat), init.Nodup →
    (L.foldl setInsertNat init).Nodup
  | [], _, h => h
  | _ :: L, _, h => cache_nodup_foldl_setInsertNat L _ (cache_nodup_setInsertNat h)

theorem cache_foldl_kidsInsert (p : Nat) (s : Slot) : ∀ (L : List Nat) (g : G),
    let g' := L.foldl (fun g v => kidsInsert g p s v) g
    g'.n = g.n ∧ g'.kind = g.kind ∧ g'.uuid = g.uuid ∧ g'.par = g.par ∧ g'.cache = g.cache ∧
    ∀ p' s', g'.kids p' s' = if p' = p ∧ s' = s then L.foldl setInsertNat (g.kids p s) else g.kids p' s'
  | [], g => ⟨rfl, rfl, rfl, rfl, rfl, fun p' s' => by simp; intro h1 h2; rw [h1, h2]⟩
  | x :: L, g => by
    intro g'
    obtain ⟨h1, h2, h3, h4, h5, h6⟩ := cache_foldl_kidsInsert p s L (kidsInsert g p s x)
    refine ⟨h1, h2, h3, h4, h5, ?_⟩
    intro p' s'
    show (List.foldl (fun g v => kidsInsert g p s v) (kidsInsert g p s x) L).kids p' s' = _
    rw [h6]
    by_cases hps : p' = p ∧ s' = s
    · simp only [hps, and_self, if_true, List.foldl_cons]
      show List.foldl setInsertNat (if p = p ∧ s = s then setInsertNat (g.kids p s) x else g.kids p s) L = _
      simp
    · simp only [hps, if_false]
      show (if p' = p ∧ s' = s then setInsertNat (g.kids p s) x else g.kids p' s') = _
      rw [if_neg hps]

/-- `blkUpdate` (any list): succeeds, result well-formed, table exact if the UUIDs are distinct at
the end, provided they are distinct in every state a step of the loop starts from -/
theorem cache_blkUpdate_ok {g : G} (hf : ForestInv g) (hc : CacheInv g) {p : Nat} {vs : List Nat}
    (hpn : p < g.n)
    (hvs : ∀ v, v ∈ vs → v < g.n ∧ slotOf (g.kind v) = some .blocks ∧
      parentKind (g.kind v) = some (g.kind p))
    (hdf : cache_DistinctFold (cache_blkStep (irOf g p) p) g (cache_blkNew g p vs)) :
    ∃ g', blkUpdate g p vs = .ok g' ∧ g'.n = g.n ∧ g'.kind = g.kind ∧ g'.uuid = g.uuid ∧
      (∀ x, g'.par x = if x ∈ cache_blkNew g p vs then some p else g.par x) ∧
      ForestInv g' ∧ (Distinct g' → CacheInv g') := by
  have ctx : CacheBlkCtx g p (cache_blkNew g p vs) :=
    ⟨hf, hpn, cache_blkNew_nodup g p vs, fun v hv => by
      have := cache_mem_blkNew.1 hv
      have h2 := hvs v this.1
      exact ⟨h2.1, h2.2.1, h2.2.2, this.2⟩⟩
  generalize hnew : cache_blkNew g p vs = new at ctx hdf
  have inv0 : CacheBlkInv g p [] g :=
    ⟨rfl, rfl, rfl, fun x => by simp, fun _ _ _ => rfl, fun p' c => by simp, fun p' => hf.nodup _ _,
      hf.cache_parInv, rfl⟩
  obtain ⟨gf, hfold, ⟨D, hD, invf⟩, hcf⟩ := cache_foldE_good
    (F := cache_blkStep (irOf g p) p)
    (fun R gk => ∃ D, new = D ++ R ∧ CacheBlkInv g p D gk)
    (by
      rintro gk v R ⟨D, hD, inv⟩ hd hc
      obtain ⟨g1, h1, inv1, hc1⟩ := cache_blkStep_ok ctx hD inv hd hc
      exact ⟨g1, h1, ⟨D ++ [v], by rw [hD]; simp, inv1⟩, hc1⟩)
    new g ⟨[], rfl, inv0⟩ (fun _ => hc) hdf
  rw [List.append_nil] at hD
  subst hD
  rw [cache_blkUpdate_eq, hnew, hfold]
  simp only []
  obtain ⟨k1, k2, k3, k4, k5, k6⟩ := cache_foldl_kidsInsert p .blocks new gf
  generalize List.foldl (fun g v => kidsInsert g p Slot.blocks v) gf new = g' at k1 k2 k3 k4 k5 k6
  have e_par : ∀ x, g'.par x = if x ∈ new then some p else g.par x := by
    intro x; rw [k4]; exact invf.par x
  refine ⟨g', rfl, k1.trans invf.n, k2.trans invf.kind, k3.trans invf.uuid, e_par, ?_, ?_⟩
  · have hp' : CacheParInv g' := by
      refine ⟨?_, ?_⟩
      · intro c q h; rw [k4] at h; rw [k2]; exact invf.parInv.kind_ok c q h
      · intro c q h; rw [k4] at h; rw [k1]; exact invf.parInv.alloc c q h
    refine ⟨?_, ?_, hp'.kind_ok, hp'.alloc⟩
    · intro c p' s'
      rw [k6, e_par, k2, invf.kind]
      by_cases hs' : s' = Slot.blocks
      · subst hs'
        by_cases hpp : p' = p
        · subst hpp
          simp only [and_self, if_true]
          rw [cache_mem_foldl_setInsertNat, invf.kids_blk]
          by_cases hcn : c ∈ new
          · simp [hcn, (ctx.ok c hcn).2.1]
          · simp [hcn, hf.mem_iff]
        · simp only [hpp, false_and, if_false]
          rw [invf.kids_blk, hf.mem_iff]
          by_cases hcn : c ∈ new
          · simp only [hcn, not_true_eq_false, and_false, if_true, false_iff]
            intro h; exact hpp (Option.some.inj h.1).symm
          · simp [hcn]
      · simp only [hs', and_false, if_false]
        rw [invf.kids_other p' s' hs', hf.mem_iff]
        by_cases hcn : c ∈ new
        · simp only [hcn, if_true, (ctx.ok c hcn).2.1]
          constructor
          · intro h; exact absurd (Option.some.inj h.2).symm hs'
          · intro h; exact absurd (Option.some.inj h.2).symm hs'
        · simp [hcn]
    · intro p' s'
      rw [k6]
      by_cases hs' : s' = Slot.blocks
      · subst hs'
        by_cases hpp : p' = p
        · subst hpp
          simp only [and_self, if_true]
          exact cache_nodup_foldl_setInsertNat _ _ (invf.kids_nodup p')
        · simp only [hpp, false_and, if_false]; exact invf.kids_nodup p'
      · simp only [hs', and_false, if_false]
        rw [invf.kids_other p' s' hs']; exact hf.nodup p' s'
  · intro hd'
    have hdf' : Distinct gf := by
      intro a b i ha hb hia hib hab
      exact hd' a b i (by rw [k1]; exact ha) (by rw [k1]; exact hb)
        (by rw [cache_irOf_congr k2 k4]; exact hia) (by rw [cache_irOf_congr k2 k4]; exact hib)
        (by rw [k3]; exact hab)
    have := hcf hdf'
    intro i u x
    rw [k5, k1, k2, k3, cache_irOf_congr k2 k4]
    exact this i u x

/-! ### the module list -/

theorem cache_walk_kids_congr {k k' : Nat → Slot → List Nat}
    (h : ∀ p' s', s' ≠ Slot.mods → k' p' s' = k p' s') (kd : Kind) (v : Nat) :
    cache_walk k' kd v = cache_walk k kd v := by
  have hI : cache_walkI k' = cache_walkI k := by
    funext v; unfold cache_walkI; rw [h _ _ (by decide)]
  have hS : cache_walkS k' = cache_walkS k := by
    funext v; unfold cache_walkS; rw [h _ _ (by decide), hI]
  have hM : cache_walkM k' = cache_walkM k := by
    funext v; unfold cache_walkM
    rw [h _ .proxies (by decide), h _ .secs (by decide), h _ .syms (by decide), hS]
  unfold cache_walk
  cases kd <;> simp only [hI, hS, hM]

theorem cache_slot_mods {k : Kind} (h : slotOf k = some .mods) : k = .module := by
  cases k <;> simp_all [slotOf]

theorem cache_parent_of_module {k : Kind} (h : parentKind .module = some k) : k = .ir := by
  simp [parentKind] at h; exact h.symm

/-- changing the back-pointer of `w` only: the descendants of a node `v` that is not below `w` -/
theorem cache_desc_frame_other {g g' : G} (h : CacheParInv g) {v w : Nat}
    (hpar : ∀ x, x ≠ w → g'.par x = g.par x) (hr : cache_rank (g.kind w) ≤ cache_rank (g.kind v))
    {y : Nat} (hd : CacheDesc g v y) : CacheDesc g' v y := by
  induction hd with
  | refl => exact .refl
  | @step x a hp hd ih =>
    have hx : x ≠ w := by
      intro hxw
      have h1 := cache_rank_par h hp
      rcases cache_desc_rank h hd with h2 | h2
      · subst hxw; subst h2; omega
      · subst hxw; omega
    exact .step (by rw [hpar x hx]; exact hp) ih

/-- `_remove` hook of the module list; the collections enter only through the walked list -/
theorem cache_modHookRemove_core {g : G} (hp : CacheParInv g) (hc : CacheInv g) (hd : Distinct g)
    {i v : Nat} (hv : v < g.n) (hkv : g.kind v ≠ .ir) (hpv : g.par v = some i) (hki : g.kind i = .ir)
    (hW : ∀ y, y ∈ cache_walk g.kids (g.kind v) v ↔ CacheDesc g v y)
    (hnd : (cache_walk g.kids (g.kind v) v).Nodup) :
    ∃ g1, modHookRemove g i v = .ok g1 ∧ CacheDetached g g1 v ∧ g1.kids = g.kids ∧
      g1.par = (fun x => if x = v then none else g.par x) := by
  have hi : irOf g v = some i := by rw [cache_irOf_par hp hpv, cache_irOf_ir hki]
  unfold modHookRemove
  obtain ⟨g3, hg3, h3, hc1, hc2⟩ := cache_cacheRemove_spec (gx := setPar g v none) hp hc hd rfl rfl rfl
    rfl hv hi hW hnd
  have e_p : g3.par = fun x => if x = v then none else g.par x := h3.par
  have e_pv : g3.par v = none := by rw [e_p]; simp
  have e_px : ∀ x, x ≠ v → g3.par x = g.par x := by intro x hx; rw [e_p]; simp [hx]
  refine ⟨g3, hg3, ⟨h3.n, h3.kind, h3.uuid, e_pv, e_px, ?_, ?_⟩, h3.kids, e_p⟩
  · apply cache_core_detach hp hc hd hv hkv h3.n h3.kind h3.uuid e_pv e_px
    · intro i' u hh
      rw [hi] at hh
      exact hc1 i' u ⟨(Option.some.inj hh.1).symm, hh.2⟩
    · intro i' u hh
      rw [hi] at hh
      exact hc2 i' u (fun hh' => hh ⟨by rw [hh'.1], hh'.2⟩)
  · exact cache_distinct_detach hp hd hkv h3.n h3.kind h3.uuid e_pv e_px

theorem cache_mods_facts {g : G} (hf : ForestInv g) {i v : Nat} (hm : v ∈ g.kids i .mods) :
    g.par v = some i ∧ g.kind v = .module ∧ g.kind i = .ir ∧ v < g.n ∧ i < g.n := by
  have h1 := (hf.mem_iff _ _ _).1 hm
  have h2 := cache_slot_mods h1.2
  have h3 := hf.kind_ok v i h1.1
  rw [h2] at h3
  exact ⟨h1.1, h2, cache_parent_of_module h3, (hf.alloc v i h1.1).1, (hf.alloc v i h1.1).2⟩

theorem cache_modHookRemove_ok {g : G} (hf : ForestInv g) (hc : CacheInv g) (hd : Distinct g)
    {i v : Nat} (hm : v ∈ g.kids i .mods) :
    ∃ g1, modHookRemove g i v = .ok g1 ∧ CacheDetached g g1 v ∧ g1.kids = g.kids ∧
      g1.par = (fun x => if x = v then none else g.par x) := by
  obtain ⟨h1, h2, h3, h4, _⟩ := cache_mods_facts hf hm
  have hkv : g.kind v ≠ .ir := by rw [h2]; decide
  exact cache_modHookRemove_core hf.cache_parInv hc hd h4 hkv h1 h3
    (fun y => cache_mem_walk_iff hf hkv) (cache_nodup_walk hf v)

theorem cache_modListRemove_ok {g : G} (hf : ForestInv g) (hc : CacheInv g) (hd : Distinct g)
    {i v : Nat} (hm : v ∈ g.kids i .mods) :
    ∃ g', modListRemove g i v = .ok g' ∧ CacheDetached g g' v ∧ ForestInv g' := by
  obtain ⟨g1, h1, hdet, hk, hpar⟩ := cache_modHookRemove_ok hf hc hd hm
  unfold modListRemove
  simp only [hm, if_true, h1]
  refine ⟨_, rfl, ⟨hdet.n, hdet.kind, hdet.uuid, hdet.parv, hdet.par, hdet.cacheInv, hdet.distinct⟩, ?_⟩
  apply cache_forest_detach hf hm (g' := kidsSet g1 i .mods ((g1.kids i .mods).erase v)) hdet.n hdet.kind hpar
  show (fun p' s' => if p' = i ∧ s' = Slot.mods then (g1.kids i .mods).erase v else g1.kids p' s') = _
  rw [hk]

theorem cache_eraseIdx_eq_erase : ∀ (l : List Nat) (idx v : Nat), l.Nodup → l[idx]? = some v →
    l.eraseIdx idx = l.erase v
  | [], idx, v, _, h => by simp at h
  | a :: l, 0, v, _, h => by
    simp at h; subst h; simp
  | a :: l, idx + 1, v, hnd, h => by
    simp only [List.getElem?_cons_succ] at h
    rw [List.nodup_cons] at hnd
    have hv : v ∈ l := List.mem_of_getElem? h
    have hne : a ≠ v := by intro e; subst e; exact hnd.1 hv
    rw [List.eraseIdx_cons_succ, List.erase_cons_tail (by simpa using hne),
      cache_eraseIdx_eq_erase l idx v hnd.2 h]

theorem cache_modDelItem_ok {g : G} (hf : ForestInv g) (hc : CacheInv g) (hd : Distinct g)
    {i : Nat} {k : Int} :
    (∃ g' v, modDelItem g i k = .ok g' ∧ v ∈ g.kids i .mods ∧ CacheDetached g g' v ∧ ForestInv g' ∧
      (∀ p' s', g'.kids p' s' = if p' = i ∧ s' = Slot.mods then (g.kids i .mods).erase v else g.kids p' s')) ∨
    modDelItem g i k = .error .indexError := by
  unfold modDelItem
  cases hidx : pyIndex (g.kids i .mods).length k with
  | none => exact .inr rfl
  | some idx =>
    simp only []
    cases hv : (g.kids i .mods)[idx]? with
    | none => exact .inr rfl
    | some v =>
      left
      simp only []
      have hm : v ∈ g.kids i .mods := List.mem_of_getElem? hv
      obtain ⟨g1, h1, hdet, hk, hpar⟩ := cache_modHookRemove_ok hf hc hd hm
      rw [h1]
      simp only []
      have hkids : (kidsSet g1 i .mods ((g1.kids i .mods).eraseIdx idx)).kids =
          fun p' s' => if p' = i ∧ s' = Slot.mods then (g.kids i .mods).erase v else g.kids p' s' := by
        show (fun p' s' => if p' = i ∧ s' = Slot.mods then (g1.kids i .mods).eraseIdx idx else g1.kids p' s') = _
        rw [hk, cache_eraseIdx_eq_erase _ idx v (hf.nodup _ _) hv]
      refine ⟨_, v, rfl, hm,
        ⟨hdet.n, hdet.kind, hdet.uuid, hdet.parv, hdet.par, hdet.cacheInv, hdet.distinct⟩, ?_, ?_⟩
      · exact cache_forest_detach hf hm (g' := kidsSet g1 i .mods ((g1.kids i .mods).eraseIdx idx))
          hdet.n hdet.kind hpar hkids
      · intro p' s'; rw [hkids]

theorem cache_mem_pyInsert {l : List Nat} {k : Int} {v c : Nat} : c ∈ pyInsert l k v ↔ c = v ∨ c ∈ l := by
  unfold pyInsert
  simp only []
  generalize (if k < 0 then if k + (l.length : Int) < 0 then (0 : Int) else k + l.length
    else if k > l.length then (l.length : Int) else k).toNat = m
  rw [List.mem_append, List.mem_cons]
  conv => rhs; rw [← List.take_append_drop m l, List.mem_append]
  constructor
  · rintro (h | h | h)
    · exact .inr (.inl h)
    · exact .inl h
    · exact .inr (.inr h)
  · rintro (h | h | h)
    · exact .inr (.inl h)
    · exact .inl h
    · exact .inr (.inr h)

theorem cache_nodup_pyInsert {l : List Nat} {k : Int} {v : Nat} (hl : l.Nodup) (hv : v ∉ l) :
    (pyInsert l k v).Nodup := by
  unfold pyInsert
  simp only []
  generalize (if k < 0 then if k + (l.length : Int) < 0 then (0 : Int) else k + l.length
    else if k > l.length then (l.length : Int) else k).toNat = m
  rw [← List.take_append_drop m l, List.nodup_append] at hl
  have hvt : v ∉ l.take m := fun h => hv (List.mem_of_mem_take h)
  have hvd : v ∉ l.drop m := fun h => hv (List.mem_of_mem_drop h)
  rw [List.nodup_append]
  refine ⟨hl.1, List.nodup_cons.2 ⟨hvd, hl.2.1⟩, ?_⟩
  intro a ha b hb
  rcases List.mem_cons.1 hb with h | h
  · subst h; intro e; subst e; exact hvt ha
  · exact hl.2.2 a ha b h

theorem cache_cacheInv_congr {g g' : G} (hn : g'.n = g.n) (hk : g'.kind = g.kind) (hu : g'.uuid = g.uuid)
    (hp : g'.par = g.par) (hc : g'.cache = g.cache) (h : CacheInv g) : CacheInv g' := by
  intro i u x
  rw [hn, hk, hu, hc, cache_irOf_congr hk hp]
  exact h i u x

theorem cache_distinct_congr {g g' : G} (hn : g'.n = g.n) (hk : g'.kind = g.kind) (hu : g'.uuid = g.uuid)
    (hp : g'.par = g.par) (h : Distinct g) : Distinct g' := by
  intro a b i ha hb hia hib hab
  rw [hn] at ha hb
  rw [cache_irOf_congr hk hp] at hia hib
  rw [hu] at hab
  exact h a b i ha hb hia hib hab

/-- `_add` hook from a state where the module `v` is detached; collections only through the walk -/
theorem cache_modHookAttach_core {gm : G} (hp : CacheParInv gm) (hc : CacheInv gm) {i v : Nat}
    (hv : v < gm.n) (hi : i < gm.n) (hkv : gm.kind v = .module) (hki : gm.kind i = .ir)
    (hpv : gm.par v = none)
    (hW : ∀ y, y ∈ cache_walk gm.kids (gm.kind v) v ↔ CacheDesc gm v y) :
    CacheAttached gm (cacheAdd (setPar gm v (some i)) i v) v i ∧
    (cacheAdd (setPar gm v (some i)) i v).kids = gm.kids ∧
    (cacheAdd (setPar gm v (some i)) i v).par = (fun x => if x = v then some i else gm.par x) ∧
    (Distinct (cacheAdd (setPar gm v (some i)) i v) → CacheInv (cacheAdd (setPar gm v (some i)) i v)) := by
  have h4 := cache_cacheAdd_only (setPar gm v (some i)) i v
  have e_p : (cacheAdd (setPar gm v (some i)) i v).par = fun x => if x = v then some i else gm.par x :=
    h4.par
  have e_pv : (cacheAdd (setPar gm v (some i)) i v).par v = some i := by rw [e_p]; simp
  have e_px : ∀ x, x ≠ v → (cacheAdd (setPar gm v (some i)) i v).par x = gm.par x := by
    intro x hx; rw [e_p]; simp [hx]
  have hkp : parentKind (gm.kind v) = some (gm.kind i) := by rw [hkv, hki]; rfl
  refine ⟨⟨h4.n, h4.kind, h4.uuid, e_pv, e_px⟩, h4.kids, e_p, ?_⟩
  intro hd'
  refine cache_attach_ok (gx := setPar gm v (some i)) hp hc hv hi hkp hpv hW rfl rfl rfl rfl
    h4.n h4.kind h4.uuid e_pv e_px ?_ hd'
  rw [cache_irOf_ir hki]

theorem cache_modInsert_ok {g : G} (hf : ForestInv g) (hc : CacheInv g) (hd : Distinct g)
    {i v : Nat} {k : Int} (hv : v < g.n) (hi : i < g.n) (hkv : g.kind v = .module) (hki : g.kind i = .ir) :
    ∃ g', modInsert g i k v = .ok g' ∧ CacheAttached g g' v i ∧ ForestInv g' ∧
      (Distinct g' → CacheInv g') := by
  have tail : ∀ gm, CacheDetached g gm v → ForestInv gm →
      ∃ g', (Except.ok (kidsSet (cacheAdd (setPar gm v (some i)) i v) i .mods
          (pyInsert ((cacheAdd (setPar gm v (some i)) i v).kids i .mods) k v)) : Except Exc G) = .ok g' ∧
        CacheAttached g g' v i ∧ ForestInv g' ∧ (Distinct g' → CacheInv g') := by
    intro gm hdet hfm
    have hkvm : gm.kind v = .module := by rw [hdet.kind]; exact hkv
    have hkim : gm.kind i = .ir := by rw [hdet.kind]; exact hki
    have hkvne : gm.kind v ≠ .ir := by rw [hkvm]; decide
    obtain ⟨hA, hk, hpar, hcI⟩ := cache_modHookAttach_core hfm.cache_parInv hdet.cacheInv
      (i := i) (v := v) (by rw [hdet.n]; exact hv) (by rw [hdet.n]; exact hi) hkvm hkim hdet.parv
      (fun y => cache_mem_walk_iff hfm hkvne)
    rw [hk]
    generalize cacheAdd (setPar gm v (some i)) i v = g2 at hA hk hpar hcI
    have hvnot : v ∉ gm.kids i .mods := by
      intro h; have := ((hfm.mem_iff _ _ _).1 h).1; rw [hdet.parv] at this; cases this
    refine ⟨_, rfl, CacheAttached.of_detached hdet ⟨hA.n, hA.kind, hA.uuid, hA.parv, hA.par⟩, ?_, ?_⟩
    · apply cache_forest_attach hfm (p := i) (v := v) (s := .mods) (by rw [hdet.n]; exact hv)
        (by rw [hdet.n]; exact hi) (by rw [hkvm]; rfl) (by rw [hkvm, hkim]; rfl) hdet.parv
        (g' := kidsSet g2 i .mods (pyInsert (gm.kids i .mods) k v)) hA.n hA.kind hpar
      · intro p' s' hps
        show (if p' = i ∧ s' = Slot.mods then _ else g2.kids p' s') = _
        rw [if_neg hps, hk]
      · intro c
        show c ∈ (if i = i ∧ Slot.mods = Slot.mods then pyInsert (gm.kids i .mods) k v else g2.kids i .mods) ↔ _
        rw [if_pos ⟨rfl, rfl⟩]; exact cache_mem_pyInsert
      · show (if i = i ∧ Slot.mods = Slot.mods then pyInsert (gm.kids i .mods) k v else g2.kids i .mods).Nodup
        rw [if_pos ⟨rfl, rfl⟩]; exact cache_nodup_pyInsert (hfm.nodup _ _) hvnot
    · intro hd'
      have hd2 : Distinct g2 := cache_distinct_congr (g := kidsSet g2 i .mods (pyInsert (gm.kids i .mods) k v))
        rfl rfl rfl rfl hd'
      exact cache_cacheInv_congr (g := g2) rfl rfl rfl rfl rfl (hcI hd2)
  unfold modInsert modHookAdd
  cases hq : g.par v with
  | none => exact tail g (CacheDetached.refl' hc hd hq) hf
  | some j =>
    have hm : v ∈ g.kids j .mods := (hf.mem_iff _ _ _).2 ⟨hq, by rw [hkv]; rfl⟩
    obtain ⟨g1, h1, hdet, hf1⟩ := cache_modListRemove_ok hf hc hd hm
    simp only [h1]
    exact tail g1 hdet hf1

theorem cache_modAppend_ok {g : G} (hf : ForestInv g) (hc : CacheInv g) (hd : Distinct g)
    {i v : Nat} (hv : v < g.n) (hi : i < g.n) (hkv : g.kind v = .module) (hki : g.kind i = .ir) :
    ∃ g', modAppend g i v = .ok g' ∧ CacheAttached g g' v i ∧ ForestInv g' ∧
      (Distinct g' → CacheInv g') := cache_modInsert_ok hf hc hd hv hi hkv hki

theorem cache_desc_iff_other {g g' : G} (hp : CacheParInv g) (hp' : CacheParInv g') (hk : g'.kind = g.kind)
    {v w : Nat} (hpar : ∀ x, x ≠ w → g'.par x = g.par x)
    (hr : cache_rank (g.kind w) ≤ cache_rank (g.kind v)) (y : Nat) :
    CacheDesc g v y ↔ CacheDesc g' v y :=
  ⟨cache_desc_frame_other hp hpar hr,
   cache_desc_frame_other hp' (fun x hx => (hpar x hx).symm) (by rw [hk]; exact hr)⟩

theorem cache_modHookRemove_shape {g g' : G} {i v : Nat} (h : modHookRemove g i v = .ok g') :
    CacheLeft g g' v := by
  unfold modHookRemove at h
  have := cache_cacheRemove_only h
  refine ⟨this.n, this.kind, this.uuid, ?_⟩
  intro x hx
  rw [this.par]; show (if x = v then none else g.par x) = _; rw [if_neg hx]

theorem cache_modListRemove_shape {g g' : G} {i v : Nat} (h : modListRemove g i v = .ok g') :
    CacheLeft g g' v := by
  unfold modListRemove at h
  split at h
  · cases h1 : modHookRemove g i v with
    | error e => rw [h1] at h; cases h
    | ok g1 =>
      rw [h1] at h; cases h
      have := cache_modHookRemove_shape h1
      exact ⟨this.n, this.kind, this.uuid, this.par⟩
  · cases h

theorem cache_modInsert_shape {g g' : G} {i v : Nat} {k : Int} (h : modInsert g i k v = .ok g') :
    CacheAttached g g' v i := by
  have tail : ∀ gm, CacheLeft g gm v →
      (Except.ok (kidsSet (cacheAdd (setPar gm v (some i)) i v) i .mods
          (pyInsert ((cacheAdd (setPar gm v (some i)) i v).kids i .mods) k v)) : Except Exc G) = .ok g' →
      CacheAttached g g' v i := by
    intro gm hl h
    cases h
    have h4 := cache_cacheAdd_only (setPar gm v (some i)) i v
    have e_p : (cacheAdd (setPar gm v (some i)) i v).par = fun x => if x = v then some i else gm.par x :=
      h4.par
    refine ⟨h4.n.trans hl.n, h4.kind.trans hl.kind, h4.uuid.trans hl.uuid, ?_, ?_⟩
    · show (cacheAdd (setPar gm v (some i)) i v).par v = _; rw [e_p]; simp
    · intro x hx
      show (cacheAdd (setPar gm v (some i)) i v).par x = _
      rw [e_p]; simp only [hx, if_false]; exact hl.par x hx
  unfold modInsert modHookAdd at h
  cases hq : g.par v with
  | none => rw [hq] at h; exact tail g (CacheLeft.rfl' g v) h
  | some j =>
    rw [hq] at h
    simp only [] at h
    cases h1 : modListRemove g j v with
    | error e => rw [h1] at h; cases h
    | ok g1 => rw [h1] at h; exact tail g1 (cache_modListRemove_shape h1) h

theorem cache_modAppend_shape {g g' : G} {i v : Nat} (h : modAppend g i v = .ok g') :
    CacheAttached g g' v i := cache_modInsert_shape h

/-- `self[k] = v` on the module list: no `cacheKeyError`, table exact -/
theorem cache_modSetItem_good {g : G} (hf : ForestInv g) (hc : CacheInv g) (hd : Distinct g)
    {i v : Nat} {k : Int} (hv : v < g.n) (hi : i < g.n) (hkv : g.kind v = .module) (hki : g.kind i = .ir) :
    (∃ g', modSetItem g i k v = .ok g' ∧ (Distinct g' → CacheInv g')) ∨
    (∃ e, modSetItem g i k v = .error e ∧ e ≠ .cacheKeyError) := by
  have hp := hf.cache_parInv
  unfold modSetItem
  cases hidx : pyIndex (g.kids i .mods).length k with
  | none => exact .inr ⟨_, rfl, by decide⟩
  | some idx =>
    simp only []
    cases hold : (g.kids i .mods)[idx]? with
    | none => exact .inr ⟨_, rfl, by decide⟩
    | some old =>
      simp only []
      by_cases hout : v ∈ g.kids i .mods ∧ v ≠ old
      · rw [if_pos hout]; exact .inr ⟨_, rfl, by decide⟩
      · rw [if_neg hout]
        left
        have hmo : old ∈ g.kids i .mods := List.mem_of_getElem? hold
        obtain ⟨ho1, ho2, _, ho4, _⟩ := cache_mods_facts hf hmo
        obtain ⟨g1, h1, hdet, hk1, hpar1⟩ := cache_modHookRemove_ok hf hc hd hmo
        rw [h1]
        simp only []
        have hp1 : CacheParInv g1 := cache_parInv_detach hp hdet.n hdet.kind hdet.parv hdet.par
        have hkvne : g.kind v ≠ .ir := by rw [hkv]; decide
        have hrank : cache_rank (g.kind old) ≤ cache_rank (g.kind v) := by rw [ho2, hkv]; exact Nat.le_refl _
        have hW1 : ∀ y, y ∈ cache_walk g1.kids (g1.kind v) v ↔ CacheDesc g1 v y := by
          intro y
          rw [hk1, hdet.kind, cache_mem_walk_iff hf hkvne]
          exact cache_desc_iff_other hp hp1 hdet.kind hdet.par hrank y
        -- the final steps from a state `gm` in which `v` is detached
        have tail : ∀ gm, CacheParInv gm → CacheInv gm → gm.n = g.n → gm.kind = g.kind → gm.par v = none →
            (∀ y, y ∈ cache_walk gm.kids (gm.kind v) v ↔ CacheDesc gm v y) →
            ∃ g', (Except.ok (kidsSet (cacheAdd (setPar gm v (some i)) i v) i .mods
              (((cacheAdd (setPar gm v (some i)) i v).kids i .mods).set idx v)) : Except Exc G) = .ok g' ∧
              (Distinct g' → CacheInv g') := by
          intro gm hpm hcm hnm hkm hpvm hWm
          obtain ⟨_, _, _, hcI⟩ := cache_modHookAttach_core hpm hcm (i := i) (v := v)
            (by rw [hnm]; exact hv) (by rw [hnm]; exact hi) (by rw [hkm]; exact hkv)
            (by rw [hkm]; exact hki) hpvm hWm
          refine ⟨_, rfl, ?_⟩
          intro hd'
          exact cache_cacheInv_congr (g := cacheAdd (setPar gm v (some i)) i v) rfl rfl rfl rfl rfl
            (hcI (cache_distinct_congr (g := kidsSet (cacheAdd (setPar gm v (some i)) i v) i .mods
              (((cacheAdd (setPar gm v (some i)) i v).kids i .mods).set idx v)) rfl rfl rfl rfl hd'))
        unfold modHookAdd
        cases hq : g1.par v with
        | none =>
          simp only []
          exact tail g1 hp1 hdet.cacheInv hdet.n hdet.kind hq hW1
        | some j =>
          simp only []
          have hvo : v ≠ old := by intro e; rw [e, hdet.parv] at hq; cases hq
          have hgq : g.par v = some j := by rw [← hdet.par v hvo]; exact hq
          have hmj : v ∈ g.kids j .mods := (hf.mem_iff _ _ _).2 ⟨hgq, by rw [hkv]; rfl⟩
          obtain ⟨_, _, hkj, _, _⟩ := cache_mods_facts hf hmj
          have hnd1 : (cache_walk g1.kids (g1.kind v) v).Nodup := by
            rw [hk1, hdet.kind]; exact cache_nodup_walk hf v
          obtain ⟨gm0, hm0, hdet0, hk0, hpar0⟩ := cache_modHookRemove_core hp1 hdet.cacheInv hdet.distinct
            (i := j) (v := v) (by rw [hdet.n]; exact hv) (by rw [hdet.kind]; exact hkvne) hq
            (by rw [hdet.kind]; exact hkj) hW1 hnd1
          unfold modListRemove
          rw [if_pos (by rw [hk1]; exact hmj), hm0]
          simp only []
          have hpm0 : CacheParInv (kidsSet gm0 j .mods ((gm0.kids j .mods).erase v)) :=
            cache_parInv_detach (g' := kidsSet gm0 j .mods ((gm0.kids j .mods).erase v)) hp1 hdet0.n
              hdet0.kind hdet0.parv hdet0.par
          apply tail (kidsSet gm0 j .mods ((gm0.kids j .mods).erase v)) hpm0
            (cache_cacheInv_congr (g := gm0) rfl rfl rfl rfl rfl hdet0.cacheInv)
            (hdet0.n.trans hdet.n) (hdet0.kind.trans hdet.kind) hdet0.parv
          intro y
          have hcongr : cache_walk (kidsSet gm0 j .mods ((gm0.kids j .mods).erase v)).kids
              ((kidsSet gm0 j .mods ((gm0.kids j .mods).erase v)).kind v) v =
              cache_walk g1.kids (g1.kind v) v := by
            rw [← hk0]
            show cache_walk _ (gm0.kind v) v = _
            rw [hdet0.kind]
            apply cache_walk_kids_congr
            intro p' s' hs'
            show (if p' = j ∧ s' = Slot.mods then _ else gm0.kids p' s') = _
            rw [if_neg (fun h => hs' h.2)]
          rw [hcongr, hW1]
          exact cache_desc_iff_other (g' := kidsSet gm0 j .mods ((gm0.kids j .mods).erase v)) hp1 hpm0
            hdet0.kind hdet0.par (Nat.le_refl _) y

/-! ### allocation, `mkIR`, symbol attributes -/

theorem cache_alloc_forest {g : G} (hf : ForestInv g) (k : Kind) (u : Nat) : ForestInv (alloc g k u).1 := by
  refine ⟨?_, ?_, ?_, ?_⟩
  · intro c p s
    show c ∈ (if p = g.n then [] else g.kids p s) ↔
      (if c = g.n then none else g.par c) = some p ∧ slotOf (if c = g.n then k else g.kind c) = some s
    by_cases hp : p = g.n
    · subst hp
      simp only [if_true, List.not_mem_nil, false_iff]
      rintro ⟨h, _⟩
      by_cases hc : c = g.n
      · rw [if_pos hc] at h; cases h
      · rw [if_neg hc] at h; have := (hf.alloc c _ h).2; omega
    · rw [if_neg hp, hf.mem_iff]
      by_cases hc : c = g.n
      · subst hc
        simp only [if_true]
        constructor
        · intro h; have := (hf.alloc _ _ h.1).1; omega
        · intro h; cases h.1
      · simp [hc]
  · intro p s
    show (if p = g.n then [] else g.kids p s).Nodup
    split
    · exact List.nodup_nil
    · exact hf.nodup p s
  · intro c p h
    have h' : (if c = g.n then none else g.par c) = some p := h
    by_cases hc : c = g.n
    · rw [if_pos hc] at h'; cases h'
    · rw [if_neg hc] at h'
      have hpn := (hf.alloc c p h').2
      show parentKind (if c = g.n then k else g.kind c) = some (if p = g.n then k else g.kind p)
      rw [if_neg hc, if_neg (by omega)]
      exact hf.kind_ok c p h'
  · intro c p h
    have h' : (if c = g.n then none else g.par c) = some p := h
    by_cases hc : c = g.n
    · rw [if_pos hc] at h'; cases h'
    · rw [if_neg hc] at h'
      have := hf.alloc c p h'
      show c < g.n + 1 ∧ p < g.n + 1
      omega

/-- `irOf` of the old nodes is untouched by an allocation -/
theorem cache_alloc_irOf_old {g : G} (hf : ForestInv g) (k : Kind) (u : Nat) :
    ∀ (r x : Nat), cache_rank (g.kind x) ≤ r → x < g.n → irOf (alloc g k u).1 x = irOf g x := by
  have hp := hf.cache_parInv
  have hp1 := (cache_alloc_forest hf k u).cache_parInv
  have hk : ∀ x, x < g.n → (alloc g k u).1.kind x = g.kind x := by
    intro x hx; show (if x = g.n then k else g.kind x) = _; rw [if_neg (by omega)]
  have hpar : ∀ x, x < g.n → (alloc g k u).1.par x = g.par x := by
    intro x hx; show (if x = g.n then none else g.par x) = _; rw [if_neg (by omega)]
  intro r
  induction r with
  | zero =>
    intro x hr hx
    have : g.kind x = .ir := by
      cases hkx : g.kind x <;> rw [hkx] at hr <;> simp [cache_rank] at hr
    rw [cache_irOf_ir this, cache_irOf_ir (by rw [hk x hx]; exact this)]
  | succ r ih =>
    intro x hr hx
    cases hpx : g.par x with
    | none =>
      rw [cache_irOf_root hpx, cache_irOf_root (by rw [hpar x hx]; exact hpx), hk x hx]
    | some a =>
      have ha := (hp.alloc x a hpx).2
      have hrk := cache_rank_par hp hpx
      rw [cache_irOf_par hp hpx, cache_irOf_par hp1 (by rw [hpar x hx]; exact hpx)]
      exact ih a (by omega) ha

theorem cache_alloc_irOf_old' {g : G} (hf : ForestInv g) (k : Kind) (u : Nat) {x : Nat} (hx : x < g.n) :
    irOf (alloc g k u).1 x = irOf g x := cache_alloc_irOf_old hf k u _ x (Nat.le_refl _) hx

theorem cache_alloc_irOf_new (g : G) (k : Kind) (u : Nat) :
    irOf (alloc g k u).1 g.n = if k = .ir then some g.n else none := by
  have hpn : (alloc g k u).1.par g.n = none := by
    show (if g.n = g.n then none else g.par g.n) = none; simp
  rw [cache_irOf_root hpn]
  show (if (if g.n = g.n then k else g.kind g.n) = Kind.ir then some g.n else none) = _
  simp

theorem cache_alloc_distinct {g : G} (hf : ForestInv g) (hd : Distinct g) (k : Kind) (u : Nat) :
    Distinct (alloc g k u).1 := by
  have hp := hf.cache_parInv
  intro a b i ha hb hia hib hab
  have ha' : a < g.n + 1 := ha
  have hb' : b < g.n + 1 := hb
  have hu : ∀ x, x < g.n → (alloc g k u).1.uuid x = g.uuid x := by
    intro x hx; show (if x = g.n then u else g.uuid x) = _; rw [if_neg (by omega)]
  by_cases han : a = g.n
  · by_cases hbn : b = g.n
    · rw [han, hbn]
    · exfalso
      have hb'' : b < g.n := by omega
      rw [han, cache_alloc_irOf_new] at hia
      split at hia
      · cases hia
        rw [cache_alloc_irOf_old' hf k u hb''] at hib
        have := (cache_irOf_some' hp hb'' hib).1; omega
      · cases hia
  · have ha'' : a < g.n := by omega
    by_cases hbn : b = g.n
    · exfalso
      rw [hbn, cache_alloc_irOf_new] at hib
      split at hib
      · cases hib
        rw [cache_alloc_irOf_old' hf k u ha''] at hia
        have := (cache_irOf_some' hp ha'' hia).1; omega
      · cases hib
    · have hb'' : b < g.n := by omega
      rw [cache_alloc_irOf_old' hf k u ha''] at hia
      rw [cache_alloc_irOf_old' hf k u hb''] at hib
      rw [hu a ha'', hu b hb''] at hab
      exact hd a b i ha'' hb'' hia hib hab

theorem cache_alloc_cacheInv {g : G} (hf : ForestInv g) (hc : CacheInv g) {k : Kind} (hk : k ≠ .ir)
    (u : Nat) : CacheInv (alloc g k u).1 := by
  have hp := hf.cache_parInv
  intro i u' x
  show g.cache i u' = some x ↔ (i < g.n + 1 ∧ (if i = g.n then k else g.kind i) = Kind.ir ∧ x < g.n + 1 ∧
    irOf (alloc g k u).1 x = some i ∧ (if x = g.n then u else g.uuid x) = u')
  constructor
  · intro h
    obtain ⟨h1, h2, h3, h4, h5⟩ := (hc i u' x).1 h
    refine ⟨by omega, by rw [if_neg (by omega)]; exact h2, by omega, ?_, by rw [if_neg (by omega)]; exact h5⟩
    rw [cache_alloc_irOf_old' hf k u h3]; exact h4
  · rintro ⟨h1, h2, h3, h4, h5⟩
    by_cases hxn : x = g.n
    · rw [hxn, cache_alloc_irOf_new, if_neg hk] at h4; cases h4
    · have hx : x < g.n := by omega
      rw [cache_alloc_irOf_old' hf k u hx] at h4
      have hi := cache_irOf_some' hp hx h4
      rw [if_neg hxn] at h5
      exact (hc i u' x).2 ⟨hi.1, hi.2, hx, h4, h5⟩

theorem cache_mkIR_cacheInv {g : G} (hf : ForestInv g) (hc : CacheInv g) (u : Nat) : CacheInv (mkIR g u) := by
  have hp := hf.cache_parInv
  have hir : ∀ x, irOf (mkIR g u) x = irOf (alloc g .ir u).1 x := fun x => cache_irOf_congr rfl rfl x
  intro i u' x
  rw [hir]
  show (if i = g.n ∧ u' = u then some g.n else (if i = g.n then none else g.cache i u')) = some x ↔
    (i < g.n + 1 ∧ (if i = g.n then Kind.ir else g.kind i) = Kind.ir ∧ x < g.n + 1 ∧
    irOf (alloc g .ir u).1 x = some i ∧ (if x = g.n then u else g.uuid x) = u')
  by_cases hin : i = g.n
  · subst hin
    simp only [true_and, if_true]
    constructor
    · intro h
      split at h
      · cases h
        rename_i hu
        refine ⟨by omega, by omega, ?_, by simp [hu]⟩
        rw [cache_alloc_irOf_new]; simp
      · cases h
    · rintro ⟨_, h3, h4, h5⟩
      by_cases hxn : x = g.n
      · subst hxn; simp at h5; simp [h5]
      · exfalso
        have hx : x < g.n := by omega
        rw [cache_alloc_irOf_old' hf .ir u hx] at h4
        have := (cache_irOf_some' hp hx h4).1; omega
  · simp only [hin, false_and, if_false]
    constructor
    · intro h
      obtain ⟨h1, h2, h3, h4, h5⟩ := (hc i u' x).1 h
      refine ⟨by omega, h2, by omega, ?_, by rw [if_neg (by omega)]; exact h5⟩
      rw [cache_alloc_irOf_old' hf .ir u h3]; exact h4
    · rintro ⟨h1, h2, h3, h4, h5⟩
      by_cases hxn : x = g.n
      · rw [hxn, cache_alloc_irOf_new] at h4; simp at h4; exact absurd h4.symm hin
      · have hx : x < g.n := by omega
        rw [cache_alloc_irOf_old' hf .ir u hx] at h4
        have hi := cache_irOf_some' hp hx h4
        rw [if_neg hxn] at h5
        exact (hc i u' x).2 ⟨hi.1, hi.2, hx, h4, h5⟩

theorem cache_setName_same (g : G) (v nm : Nat) : CacheSame g (setName g v nm) := by
  unfold setName
  cases hq : g.par v with
  | none =>
    simp only []
    split
    · rename_i m _
      have := cache_symIndexAdd_same { g with name := fun x => if x = v then nm else g.name x } m v
      exact ⟨this.n, this.kind, this.uuid, this.par, this.kids, this.cache⟩
    · exact ⟨rfl, rfl, rfl, rfl, rfl, rfl⟩
  | some m0 =>
    simp only []
    have h1 := cache_symIndexDiscard_same g m0 v
    split
    · rename_i m _
      have := cache_symIndexAdd_same { symIndexDiscard g m0 v with
        name := fun x => if x = v then nm else (symIndexDiscard g m0 v).name x } m v
      exact ⟨this.n.trans h1.n, this.kind.trans h1.kind, this.uuid.trans h1.uuid, this.par.trans h1.par,
        this.kids.trans h1.kids, this.cache.trans h1.cache⟩
    · exact ⟨h1.n, h1.kind, h1.uuid, h1.par, h1.kids, h1.cache⟩

theorem cache_setPayload_same (g : G) (v : Nat) (pl : Payload) : CacheSame g (setPayload g v pl) := by
  unfold setPayload
  cases hq : g.par v with
  | none =>
    simp only []
    split
    · rename_i m _
      have := cache_symIndexAdd_same { g with payload := fun x => if x = v then pl else g.payload x } m v
      exact ⟨this.n, this.kind, this.uuid, this.par, this.kids, this.cache⟩
    · exact ⟨rfl, rfl, rfl, rfl, rfl, rfl⟩
  | some m0 =>
    simp only []
    have h1 := cache_symIndexDiscard_same g m0 v
    split
    · rename_i m _
      have := cache_symIndexAdd_same { symIndexDiscard g m0 v with
        payload := fun x => if x = v then pl else (symIndexDiscard g m0 v).payload x } m v
      exact ⟨this.n.trans h1.n, this.kind.trans h1.kind, this.uuid.trans h1.uuid, this.par.trans h1.par,
        this.kids.trans h1.kids, this.cache.trans h1.cache⟩
    · exact ⟨h1.n, h1.kind, h1.uuid, h1.par, h1.kids, h1.cache⟩

theorem CacheSame.cacheInv {g g' : G} (h : CacheSame g g') (hc : CacheInv g) : CacheInv g' :=
  cache_cacheInv_congr h.n h.kind h.uuid h.par h.cache hc

theorem CacheSame.distinct {g g' : G} (h : CacheSame g g') (hc : Distinct g) : Distinct g' :=
  cache_distinct_congr h.n h.kind h.uuid h.par hc

theorem CacheSame.forest {g g' : G} (h : CacheSame g g') (hf : ForestInv g) : ForestInv g' := by
  refine ⟨?_, ?_, ?_, ?_⟩
  · intro c p s; rw [h.kids, h.par, h.kind]; exact hf.mem_iff c p s
  · intro p s; rw [h.kids]; exact hf.nodup p s
  · intro c p; rw [h.par, h.kind]; exact hf.kind_ok c p
  · intro c p; rw [h.par, h.n]; exact hf.alloc c p

/-! ### attaching below a node that belongs to no IR -/

/-- some back-pointers are redirected to a node `t` that has no IR: no node gains an IR -/
theorem cache_irOf_to_detached {g g' : G} (hp : CacheParInv g) (hp' : CacheParInv g')
    (hk : g'.kind = g.kind) {t : Nat} (hpar : ∀ y, g'.par y = g.par y ∨ g'.par y = some t)
    (ht : irOf g' t = none) :
    ∀ (r y j : Nat), cache_rank (g.kind y) ≤ r → irOf g' y = some j → irOf g y = some j := by
  intro r
  induction r with
  | zero =>
    intro y j hr h
    have : g.kind y = .ir := by
      cases hky : g.kind y <;> rw [hky] at hr <;> simp [cache_rank] at hr
    rw [cache_irOf_ir (by rw [hk]; exact this)] at h
    rw [cache_irOf_ir this]; exact h
  | succ r ih =>
    intro y j hr h
    rcases hpar y with h1 | h1
    · cases hpy : g.par y with
      | none =>
        rw [cache_irOf_root (by rw [h1]; exact hpy), hk] at h
        rw [cache_irOf_root hpy]; exact h
      | some a =>
        rw [cache_irOf_par hp' (by rw [h1]; exact hpy)] at h
        rw [cache_irOf_par hp hpy]
        have := cache_rank_par hp hpy
        exact ih a j (by omega) h
    · rw [cache_irOf_par hp' h1, ht] at h; cases h

theorem cache_distinct_to_detached {g g' : G} (hp : CacheParInv g) (hp' : CacheParInv g')
    (hn : g'.n = g.n) (hk : g'.kind = g.kind) (hu : g'.uuid = g.uuid) {t : Nat}
    (hpar : ∀ y, g'.par y = g.par y ∨ g'.par y = some t) (ht : irOf g' t = none)
    (hd : Distinct g) : Distinct g' := by
  intro a b i ha hb hia hib hab
  rw [hn] at ha hb; rw [hu] at hab
  exact hd a b i ha hb (cache_irOf_to_detached hp hp' hk hpar ht _ a i (Nat.le_refl _) hia)
    (cache_irOf_to_detached hp hp' hk hpar ht _ b i (Nat.le_refl _) hib) hab

theorem CacheAttached.par_cases {g g' : G} {v p : Nat} (h : CacheAttached g g' v p) (y : Nat) :
    g'.par y = g.par y ∨ g'.par y = some p := by
  by_cases hy : y = v
  · subst hy; exact .inr h.parv
  · exact .inl (h.par y hy)

/-- singleton (or empty) folds need distinctness only at the start -/
theorem cache_distinctFold_short {F : G → Nat → Except Exc G} {g : G} (hd : Distinct g) :
    ∀ (L : List Nat), L.length ≤ 1 → cache_DistinctFold F g L
  | [], _ => trivial
  | [v], _ => ⟨hd, by cases F g v <;> trivial⟩
  | _ :: _ :: _, h => by simp at h

theorem cache_blkNew_single (g : G) (p v : Nat) : (cache_blkNew g p [v]).length ≤ 1 := by
  unfold cache_blkNew
  have : [v].eraseDups = [v] := by simp [List.eraseDups_cons]
  rw [this]
  exact List.length_filter_le _ _

/-- `nodeSetAdd` (the `add` of any node set) -/
theorem cache_nodeSetAdd_ok {g : G} (hf : ForestInv g) (hc : CacheInv g) (hd : Distinct g)
    {p v : Nat} {s : Slot} (hv : v < g.n) (hpn : p < g.n) (hs : slotOf (g.kind v) = some s)
    (hkp : parentKind (g.kind v) = some (g.kind p)) :
    ∃ g', nodeSetAdd g p s v = .ok g' ∧ g'.n = g.n ∧ g'.kind = g.kind ∧ g'.uuid = g.uuid ∧
      (∀ y, g'.par y = g.par y ∨ g'.par y = some p) ∧ ForestInv g' ∧ (Distinct g' → CacheInv g') := by
  unfold nodeSetAdd
  by_cases hsb : s = .blocks
  · subst hsb
    rw [if_pos rfl]
    obtain ⟨g', h1, h2, h3, h4, h5, h6, h7⟩ := cache_blkUpdate_ok hf hc (p := p) (vs := [v]) hpn
      (by intro x hx; rw [List.mem_singleton] at hx; subst hx; exact ⟨hv, hs, hkp⟩)
      (cache_distinctFold_short hd _ (cache_blkNew_single g p v))
    refine ⟨g', h1, h2, h3, h4, ?_, h6, h7⟩
    intro y; rw [h5]; split
    · exact .inr rfl
    · exact .inl rfl
  · rw [if_neg hsb]
    obtain ⟨g', h1, hA, h2, h3⟩ := cache_setAdd_ok hf hc hd hv hpn hs hkp
    exact ⟨g', h1, hA.n, hA.kind, hA.uuid, hA.par_cases, h2, h3⟩

theorem cache_slotOf_some {k : Kind} (h : k ≠ .ir) : ∃ s, slotOf k = some s := by
  cases k <;> simp_all [slotOf]

theorem cache_slotOf_mods_iff {k : Kind} {s : Slot} (h : slotOf k = some s) : s = .mods ↔ k = .module := by
  cases k <;> simp_all [slotOf] <;> (try (intro e; subst e; simp at h)) <;> (try exact h.symm)

/-- the parent setter of every kind -/
theorem cache_setParent_ok {g : G} (hf : ForestInv g) (hc : CacheInv g) (hd : Distinct g)
    {c : Nat} {p : Option Nat} (hcn : c < g.n) (hkc : g.kind c ≠ .ir)
    (hp : ∀ q, p = some q → q < g.n ∧ parentKind (g.kind c) = some (g.kind q)) :
    ∃ g', setParent g c p = .ok g' ∧ g'.n = g.n ∧ g'.kind = g.kind ∧ g'.uuid = g.uuid ∧
      ForestInv g' ∧ (Distinct g' → CacheInv g') := by
  obtain ⟨s, hs⟩ := cache_slotOf_some hkc
  have hsm := cache_slotOf_mods_iff hs
  -- second half
  have tail : ∀ g1, CacheDetached g g1 c → ForestInv g1 →
      ∃ g', (match p with
        | none => Except.ok g1
        | some p' => if s = Slot.mods then modAppend g1 p' c else nodeSetAdd g1 p' s c) = .ok g' ∧
        g'.n = g.n ∧ g'.kind = g.kind ∧ g'.uuid = g.uuid ∧ ForestInv g' ∧ (Distinct g' → CacheInv g') := by
    intro g1 hdet hf1
    cases p with
    | none => exact ⟨g1, rfl, hdet.n, hdet.kind, hdet.uuid, hf1, fun _ => hdet.cacheInv⟩
    | some p' =>
      obtain ⟨hpn, hkp⟩ := hp p' rfl
      simp only []
      by_cases hm : s = Slot.mods
      · rw [if_pos hm]
        have hkc' := hsm.1 hm
        have hki : g.kind p' = .ir := by
          rw [hkc'] at hkp; exact cache_parent_of_module hkp
        obtain ⟨g', h1, hA, h2, h3⟩ := cache_modAppend_ok hf1 hdet.cacheInv hdet.distinct (i := p') (v := c)
          (by rw [hdet.n]; exact hcn) (by rw [hdet.n]; exact hpn) (by rw [hdet.kind]; exact hkc')
          (by rw [hdet.kind]; exact hki)
        exact ⟨g', h1, hA.n.trans hdet.n, hA.kind.trans hdet.kind, hA.uuid.trans hdet.uuid, h2, h3⟩
      · rw [if_neg hm]
        obtain ⟨g', h1, h2, h3, h4, _, h6, h7⟩ := cache_nodeSetAdd_ok hf1 hdet.cacheInv hdet.distinct
          (p := p') (v := c) (s := s) (by rw [hdet.n]; exact hcn) (by rw [hdet.n]; exact hpn)
          (by rw [hdet.kind]; exact hs) (by rw [hdet.kind]; exact hkp)
        exact ⟨g', h1, h2.trans hdet.n, h3.trans hdet.kind, h4.trans hdet.uuid, h6, h7⟩
  unfold setParent
  rw [hs]
  simp only []
  cases hq : g.par c with
  | none =>
    simp only []
    exact tail g (CacheDetached.refl' hc hd hq) hf
  | some q =>
    simp only []
    have hmem : c ∈ g.kids q s := (hf.mem_iff _ _ _).2 ⟨hq, hs⟩
    by_cases hm : s = Slot.mods
    · rw [if_pos hm]
      subst hm
      obtain ⟨g1, h1, hdet, hf1⟩ := cache_modListRemove_ok hf hc hd hmem
      rw [h1]
      exact tail g1 hdet hf1
    · rw [if_neg hm]
      obtain ⟨g1, h1, hdet, hf1⟩ := cache_setDiscard_ok hf hc hd hcn hkc hmem
      rw [h1]
      exact tail g1 hdet hf1

/-! ### folds whose steps keep all invariants; constructor phases -/

/-- result is fine: a state satisfying `P`, or an exception other than the `KeyError` of the table -/
def CacheGood (r : Except Exc G) (P : G → Prop) : Prop :=
  (∃ g', r = .ok g' ∧ P g') ∨ (∃ e, r = .error e ∧ e ≠ .cacheKeyError)

theorem cache_foldE_inv {F : G → Nat → Except Exc G} (I : G → Prop) :
    ∀ (L : List Nat) (g : G), (∀ g v, v ∈ L → I g → CacheGood (F g v) I) → I g →
      CacheGood (foldE F L g) I
  | [], g, _, hI => .inl ⟨g, rfl, hI⟩
  | v :: L, g, hstep, hI => by
    rcases hstep g v List.mem_cons_self hI with ⟨g1, h1, hI1⟩ | ⟨e, he, hne⟩
    · have := cache_foldE_inv I L g1 (fun g x hx => hstep g x (List.mem_cons_of_mem _ hx)) hI1
      simp only [foldE, h1]; exact this
    · exact .inr ⟨e, by simp only [foldE, he], hne⟩

/-- everything the invariants need, relative to a reference state for `n`, `kind`, `uuid` -/
structure CacheAll (g0 g : G) : Prop where
  forest : ForestInv g
  cacheInv : CacheInv g
  distinct : Distinct g
  n : g.n = g0.n
  kind : g.kind = g0.kind
  uuid : g.uuid = g0.uuid

theorem cache_setDiscard_any {g0 g : G} (h : CacheAll g0 g) {p v : Nat} {s : Slot} (hv : v < g0.n)
    (hkv : g0.kind v ≠ .ir) : ∃ g', setDiscard g p s v = .ok g' ∧ CacheAll g0 g' := by
  by_cases hm : v ∈ g.kids p s
  · obtain ⟨g', h1, hdet, hf'⟩ := cache_setDiscard_ok h.forest h.cacheInv h.distinct (by rw [h.n]; exact hv)
      (by rw [h.kind]; exact hkv) hm
    exact ⟨g', h1, hf', hdet.cacheInv, hdet.distinct, hdet.n.trans h.n, hdet.kind.trans h.kind,
      hdet.uuid.trans h.uuid⟩
  · exact ⟨g, by unfold setDiscard; rw [if_neg hm], h⟩

theorem cache_foldE_setDiscard {g0 g : G} (h : CacheAll g0 g) {p : Nat} {s : Slot} {L : List Nat}
    (hL : ∀ v, v ∈ L → v < g0.n ∧ g0.kind v ≠ .ir) :
    CacheGood (foldE (fun g v => setDiscard g p s v) L g) (CacheAll g0) := by
  apply cache_foldE_inv (CacheAll g0) L g _ h
  intro gk v hv hk
  obtain ⟨g', h1, h2⟩ := cache_setDiscard_any hk (p := p) (s := s) (hL v hv).1 (hL v hv).2
  exact .inl ⟨g', h1, h2⟩

/-- invariants while children are attached below a node `t` that belongs to no IR -/
structure CacheDT (g0 : G) (t : Nat) (g : G) : Prop extends CacheAll g0 g where
  part : g.par t = none
  kt : g0.kind t ≠ .ir
  tn : t < g0.n

theorem CacheDT.irOf_t {g0 g : G} {t : Nat} (h : CacheDT g0 t g) : irOf g t = none := by
  rw [cache_irOf_root h.part, if_neg (by rw [h.kind]; exact h.kt)]

theorem cache_ne_of_parentKind {g : G} {x t : Nat} (h : parentKind (g.kind x) = some (g.kind t)) : x ≠ t := by
  intro e; subst e; have := cache_rank_parentKind h; omega

theorem cache_DT_setAdd {g0 g : G} {t x : Nat} {s : Slot} (h : CacheDT g0 t g) (hx : x < g0.n)
    (hs : slotOf (g0.kind x) = some s) (hkp : parentKind (g0.kind x) = some (g0.kind t)) :
    ∃ g', setAdd g t s x = .ok g' ∧ CacheDT g0 t g' := by
  obtain ⟨g', h1, hA, hf', hc'⟩ := cache_setAdd_ok h.forest h.cacheInv h.distinct (p := t) (v := x) (s := s)
    (by rw [h.n]; exact hx) (by rw [h.n]; exact h.tn) (by rw [h.kind]; exact hs) (by rw [h.kind]; exact hkp)
  have hpt : g'.par t = none := by rw [hA.par t (cache_ne_of_parentKind hkp).symm]; exact h.part
  have hirt : irOf g' t = none := by
    rw [cache_irOf_root hpt, if_neg (by rw [hA.kind, h.kind]; exact h.kt)]
  have hd' : Distinct g' := cache_distinct_to_detached h.forest.cache_parInv hf'.cache_parInv hA.n hA.kind
    hA.uuid hA.par_cases hirt h.distinct
  exact ⟨g', h1, ⟨hf', hc' hd', hd', hA.n.trans h.n, hA.kind.trans h.kind, hA.uuid.trans h.uuid⟩, hpt,
    h.kt, h.tn⟩

theorem cache_DT_foldE_setAdd {g0 : G} {t : Nat} {s : Slot} : ∀ (L : List Nat) (g : G), CacheDT g0 t g →
    (∀ x, x ∈ L → x < g0.n ∧ slotOf (g0.kind x) = some s ∧ parentKind (g0.kind x) = some (g0.kind t)) →
    ∃ g', foldE (fun g x => setAdd g t s x) L g = .ok g' ∧ CacheDT g0 t g'
  | [], g, h, _ => ⟨g, rfl, h⟩
  | x :: L, g, h, hL => by
    obtain ⟨hx, hs, hkp⟩ := hL x List.mem_cons_self
    obtain ⟨g1, h1, hdt1⟩ := cache_DT_setAdd h hx hs hkp
    obtain ⟨g', h', hdt'⟩ := cache_DT_foldE_setAdd L g1 hdt1 (fun y hy => hL y (List.mem_cons_of_mem _ hy))
    exact ⟨g', by simp only [foldE, h1, h'], hdt'⟩

theorem cache_distinctFold_of_pres' {F : G → Nat → Except Exc G} (P : G → Prop) :
    ∀ (L : List Nat) (g : G),
      (∀ g v g1, v ∈ L → P g → Distinct g → F g v = .ok g1 → P g1 ∧ Distinct g1) →
      P g → Distinct g → cache_DistinctFold F g L
  | [], _, _, _, _ => trivial
  | v :: L, g, hstep, hP, hd => by
    refine ⟨hd, ?_⟩
    cases h1 : F g v with
    | error e => trivial
    | ok g1 =>
      obtain ⟨hP1, hd1⟩ := hstep g v g1 List.mem_cons_self hP hd h1
      exact cache_distinctFold_of_pres' P L g1
        (fun g x g2 hx => hstep g x g2 (List.mem_cons_of_mem _ hx)) hP1 hd1

theorem cache_DT_blkUpdate {g0 g : G} {t : Nat} {vs : List Nat} (h : CacheDT g0 t g)
    (hvs : ∀ x, x ∈ vs → x < g0.n ∧ slotOf (g0.kind x) = some .blocks ∧
      parentKind (g0.kind x) = some (g0.kind t)) :
    ∃ g', blkUpdate g t vs = .ok g' ∧ CacheDT g0 t g' := by
  have hdf : cache_DistinctFold (cache_blkStep (irOf g t) t) g (cache_blkNew g t vs) := by
    apply cache_distinctFold_of_pres'
      (fun gk => CacheParInv gk ∧ gk.n = g0.n ∧ gk.kind = g0.kind ∧ gk.par t = none) _ g _
      ⟨h.forest.cache_parInv, h.n, h.kind, h.part⟩ h.distinct
    rintro gk x g1 hx ⟨hpk, hnk, hkk, hptk⟩ hdk h1
    have hA := cache_blkStep_shape h1
    obtain ⟨hxn, _, hkp⟩ := hvs x (cache_mem_blkNew.1 hx).1
    have hp1 : CacheParInv g1 := cache_parInv_attach hpk (by rw [hnk]; exact hxn) (by rw [hnk]; exact h.tn)
      (by rw [hkk]; exact hkp) hA.n hA.kind hA.parv hA.par
    have hpt1 : g1.par t = none := by rw [hA.par t (cache_ne_of_parentKind hkp).symm]; exact hptk
    have hirt : irOf g1 t = none := by
      rw [cache_irOf_root hpt1, if_neg (by rw [hA.kind, hkk]; exact h.kt)]
    exact ⟨⟨hp1, hA.n.trans hnk, hA.kind.trans hkk, hpt1⟩,
      cache_distinct_to_detached hpk hp1 hA.n hA.kind hA.uuid hA.par_cases hirt hdk⟩
  obtain ⟨g', h1, h2, h3, h4, h5, h6, h7⟩ := cache_blkUpdate_ok h.forest h.cacheInv (p := t) (vs := vs)
    (by rw [h.n]; exact h.tn)
    (by intro x hx; obtain ⟨a, b, c⟩ := hvs x hx; rw [h.n, h.kind]; exact ⟨a, b, c⟩) hdf
  have htnew : t ∉ cache_blkNew g t vs := by
    intro ht
    have := (hvs t (cache_mem_blkNew.1 ht).1).2.2
    exact cache_ne_of_parentKind this rfl
  have hpt : g'.par t = none := by rw [h5, if_neg htnew]; exact h.part
  have hirt : irOf g' t = none := by
    rw [cache_irOf_root hpt, if_neg (by rw [h3, h.kind]; exact h.kt)]
  have hd' : Distinct g' := cache_distinct_to_detached h.forest.cache_parInv h6.cache_parInv h2 h3 h4
    (by intro y; rw [h5]; split
        · exact .inr rfl
        · exact .inl rfl) hirt h.distinct
  exact ⟨g', h1, ⟨h6, h7 hd', hd', h2.trans h.n, h3.trans h.kind, h4.trans h.uuid⟩, hpt, h.kt, h.tn⟩

/-- the children phase of a constructor -/
theorem cache_DT_children {g0 : G} {t : Nat} : ∀ (kids : List (Slot × List Nat)) (g : G), CacheDT g0 t g →
    (∀ sv, sv ∈ kids → ∀ x, x ∈ sv.2 → x < g0.n ∧ slotOf (g0.kind x) = some sv.1 ∧
      parentKind (g0.kind x) = some (g0.kind t)) →
    ∃ g', kids.foldl (fun acc (sv : Slot × List Nat) =>
             bindE acc fun g =>
               if sv.1 = .blocks then blkUpdate g t sv.2
               else foldE (fun g x => setAdd g t sv.1 x) sv.2 g) (.ok g) = .ok g' ∧ CacheDT g0 t g'
  | [], g, h, _ => ⟨g, rfl, h⟩
  | (s, vs) :: kids, g, h, hk => by
    have hsv := hk (s, vs) List.mem_cons_self
    have : ∃ g1, (bindE (.ok g) fun g => if s = .blocks then blkUpdate g t vs
        else foldE (fun g x => setAdd g t s x) vs g) = .ok g1 ∧ CacheDT g0 t g1 := by
      show ∃ g1, (if s = .blocks then blkUpdate g t vs
        else foldE (fun g x => setAdd g t s x) vs g) = .ok g1 ∧ CacheDT g0 t g1
      by_cases hs : s = .blocks
      · rw [if_pos hs]
        exact cache_DT_blkUpdate h (fun x hx => by have := hsv x hx; rw [hs] at this; exact this)
      · rw [if_neg hs]
        exact cache_DT_foldE_setAdd vs g h hsv
    obtain ⟨g1, h1, hdt1⟩ := this
    obtain ⟨g', h', hdt'⟩ := cache_DT_children kids g1 hdt1 (fun sv hsv => hk sv (List.mem_cons_of_mem _ hsv))
    refine ⟨g', ?_, hdt'⟩
    rw [List.foldl_cons, h1]; exact h'

/-! ## Part M: the public operations -/

/-- one step of `__ixor__` -/
def cache_ixorStep (p : Nat) (s : Slot) (g : G) (v : Nat) : Except Exc G :=
  if v ∈ g.kids p s then setDiscard g p s v else nodeSetAdd g p s v

/-- the hypothesis of C03 at the moments *inside* the operations that attach several nodes one after
the other (`update`/`|=`, `extend`/`+=`, `^=`): UUIDs are pairwise distinct per IR in every state
from which a step of the loop starts. `True` for every other operation. -/
def DistinctFine (g : G) : Op → Prop
  | .update p s vs =>
    if s = .blocks then cache_DistinctFold (cache_blkStep (irOf g p) p) g (cache_blkNew g p vs)
    else cache_DistinctFold (fun g v => setAdd g p s v) g vs
  | .ixor p s vs => cache_DistinctFold (cache_ixorStep p s) g vs
  | .extend i vs => cache_DistinctFold (fun g v => modAppend g i v) g vs
  | _ => True

theorem CacheGood.mono {r : Except Exc G} {P Q : G → Prop} (h : CacheGood r P) (hPQ : ∀ g, P g → Q g) :
    CacheGood r Q := by
  rcases h with ⟨g', h1, h2⟩ | h
  · exact .inl ⟨g', h1, hPQ g' h2⟩
  · exact .inr h

theorem CacheAll.rfl' {g : G} (hf : ForestInv g) (hc : CacheInv g) (hd : Distinct g) : CacheAll g g :=
  ⟨hf, hc, hd, rfl, rfl, rfl⟩

theorem cache_childOK_kind {g : G} {p v : Nat} {s : Slot} (h : ChildOK g p s v) : g.kind v ≠ .ir := by
  intro e; have := h.2.2.1; rw [e] at this; cases this

abbrev CacheGoal (g : G) (op : Op) : Prop := CacheGood (step g op) (fun g' => Distinct g' → CacheInv g')

theorem cache_step_discard {g : G} (hf : ForestInv g) (hc : CacheInv g) (hd : Distinct g) {p v : Nat}
    {s : Slot} (hop : OpOK g (.discard p s v)) : CacheGoal g (.discard p s v) := by
  obtain ⟨g', h1, h2⟩ := cache_setDiscard_any (CacheAll.rfl' hf hc hd) (p := p) (s := s) hop.2.2.1
    (cache_childOK_kind hop.2)
  exact .inl ⟨g', h1, fun _ => h2.cacheInv⟩

theorem cache_step_remove {g : G} (hf : ForestInv g) (hc : CacheInv g) (hd : Distinct g) {p v : Nat}
    {s : Slot} (hop : OpOK g (.remove p s v)) : CacheGoal g (.remove p s v) := by
  show CacheGood (if v ∈ g.kids p s then setDiscard g p s v else .error .keyError) _
  split
  · exact cache_step_discard hf hc hd hop
  · exact .inr ⟨_, rfl, by decide⟩

theorem cache_step_pop {g : G} (hf : ForestInv g) (hc : CacheInv g) (hd : Distinct g) {p v : Nat}
    {s : Slot} (hop : OpOK g (.pop p s v)) : CacheGoal g (.pop p s v) := by
  show CacheGood (if (g.kids p s).isEmpty then .error .keyError
    else if v ∈ g.kids p s then setDiscard g p s v else .error .badOp) _
  split
  · exact .inr ⟨_, rfl, by decide⟩
  · split
    · exact cache_step_discard hf hc hd hop
    · exact .inr ⟨_, rfl, by decide⟩

theorem cache_step_discards {g : G} (hf : ForestInv g) (hc : CacheInv g) (hd : Distinct g) {p : Nat}
    {s : Slot} {L : List Nat} (hL : ∀ v, v ∈ L → ChildOK g p s v) :
    CacheGood (foldE (fun g v => setDiscard g p s v) L g) (fun g' => Distinct g' → CacheInv g') :=
  (cache_foldE_setDiscard (CacheAll.rfl' hf hc hd) (p := p) (s := s) (L := L)
    (fun v hv => ⟨(hL v hv).2.1, cache_childOK_kind (hL v hv)⟩)).mono (fun _ h _ => h.cacheInv)

theorem cache_step_clear {g : G} (hf : ForestInv g) (hc : CacheInv g) (hd : Distinct g) {p : Nat}
    {s : Slot} {order : List Nat} (hop : OpOK g (.clear p s order)) : CacheGoal g (.clear p s order) := by
  show CacheGood (if sameMembers order (g.kids p s) then foldE (fun g v => setDiscard g p s v) order g
    else .error .badOp) _
  split
  · exact cache_step_discards hf hc hd hop.2.2
  · exact .inr ⟨_, rfl, by decide⟩

theorem cache_step_isub {g : G} (hf : ForestInv g) (hc : CacheInv g) (hd : Distinct g) {p : Nat}
    {s : Slot} {vs : List Nat} (hop : OpOK g (.isub p s vs)) : CacheGoal g (.isub p s vs) :=
  cache_step_discards hf hc hd hop.2.2

theorem cache_step_iand {g : G} (hf : ForestInv g) (hc : CacheInv g) (hd : Distinct g) {p : Nat}
    {s : Slot} {vs order : List Nat} (hop : OpOK g (.iand p s vs order)) : CacheGoal g (.iand p s vs order) := by
  show CacheGood (if sameMembers order ((g.kids p s).filter (fun x => !(x ∈ vs)))
    then foldE (fun g v => setDiscard g p s v) order g else .error .badOp) _
  split
  · exact cache_step_discards hf hc hd hop.2.2.2
  · exact .inr ⟨_, rfl, by decide⟩

theorem cache_step_add {g : G} (hf : ForestInv g) (hc : CacheInv g) (hd : Distinct g) {p v : Nat}
    {s : Slot} (hop : OpOK g (.add p s v)) : CacheGoal g (.add p s v) := by
  obtain ⟨g', h1, _, _, _, _, _, h7⟩ := cache_nodeSetAdd_ok hf hc hd (p := p) (v := v) (s := s) hop.2.2.1
    hop.2.1 hop.2.2.2.1 hop.2.2.2.2
  exact .inl ⟨g', h1, h7⟩

theorem cache_step_setParent {g : G} (hf : ForestInv g) (hc : CacheInv g) (hd : Distinct g) {c : Nat}
    {p : Option Nat} (hop : OpOK g (.setParent c p)) : CacheGoal g (.setParent c p) := by
  obtain ⟨g', h1, _, _, _, _, h6⟩ := cache_setParent_ok hf hc hd (c := c) (p := p) hop.1 hop.2.1 hop.2.2
  exact .inl ⟨g', h1, h6⟩

theorem cache_step_update {g : G} (hf : ForestInv g) (hc : CacheInv g) {p : Nat}
    {s : Slot} {vs : List Nat} (hop : OpOK g (.update p s vs)) (hfine : DistinctFine g (.update p s vs)) :
    CacheGoal g (.update p s vs) := by
  show CacheGood (if s = .blocks then blkUpdate g p vs else foldE (fun g v => setAdd g p s v) vs g) _
  have hfine' : if s = .blocks then cache_DistinctFold (cache_blkStep (irOf g p) p) g (cache_blkNew g p vs)
    else cache_DistinctFold (fun g v => setAdd g p s v) g vs := hfine
  by_cases hs : s = .blocks
  · rw [if_pos hs] at hfine' ⊢
    obtain ⟨g', h1, _, _, _, _, _, h7⟩ := cache_blkUpdate_ok hf hc (p := p) (vs := vs) hop.2.1
      (fun v hv => by have := hop.2.2 v hv; rw [hs] at this; exact ⟨this.2.1, this.2.2.1, this.2.2.2⟩) hfine'
    exact .inl ⟨g', h1, h7⟩
  · rw [if_neg hs] at hfine' ⊢
    obtain ⟨g', h1, _, h3⟩ := cache_foldE_good (F := fun g v => setAdd g p s v)
      (fun R gk => ForestInv gk ∧ gk.n = g.n ∧ gk.kind = g.kind ∧ ∀ v, v ∈ R → ChildOK g p s v)
      (by
        rintro gk v R ⟨hfk, hnk, hkk, hR⟩ hdk hck
        have hv := hR v List.mem_cons_self
        obtain ⟨g1, h1, hA, hf1, hc1⟩ := cache_setAdd_ok hfk hck hdk (p := p) (v := v) (s := s)
          (by rw [hnk]; exact hv.2.1) (by rw [hnk]; exact hv.1) (by rw [hkk]; exact hv.2.2.1)
          (by rw [hkk]; exact hv.2.2.2)
        exact ⟨g1, h1, ⟨hf1, hA.n.trans hnk, hA.kind.trans hkk,
          fun x hx => hR x (List.mem_cons_of_mem _ hx)⟩, hc1⟩)
      vs g ⟨hf, rfl, rfl, hop.2.2⟩ (fun _ => hc) hfine'
    exact .inl ⟨g', h1, h3⟩

theorem cache_step_ixor {g : G} (hf : ForestInv g) (hc : CacheInv g) {p : Nat}
    {s : Slot} {vs : List Nat} (hop : OpOK g (.ixor p s vs)) (hfine : DistinctFine g (.ixor p s vs)) :
    CacheGoal g (.ixor p s vs) := by
  show CacheGood (foldE (cache_ixorStep p s) vs g) _
  obtain ⟨g', h1, _, h3⟩ := cache_foldE_good (F := cache_ixorStep p s)
    (fun R gk => ForestInv gk ∧ gk.n = g.n ∧ gk.kind = g.kind ∧ ∀ v, v ∈ R → ChildOK g p s v)
    (by
      rintro gk v R ⟨hfk, hnk, hkk, hR⟩ hdk hck
      have hv := hR v List.mem_cons_self
      have hRR : ∀ x, x ∈ R → ChildOK g p s x := fun x hx => hR x (List.mem_cons_of_mem _ hx)
      unfold cache_ixorStep
      by_cases hm : v ∈ gk.kids p s
      · rw [if_pos hm]
        obtain ⟨g1, h1, hdet, hf1⟩ := cache_setDiscard_ok hfk hck hdk (by rw [hnk]; exact hv.2.1)
          (by rw [hkk]; exact cache_childOK_kind hv) hm
        exact ⟨g1, h1, ⟨hf1, hdet.n.trans hnk, hdet.kind.trans hkk, hRR⟩, fun _ => hdet.cacheInv⟩
      · rw [if_neg hm]
        obtain ⟨g1, h1, h2, h3, _, _, h6, h7⟩ := cache_nodeSetAdd_ok hfk hck hdk (p := p) (v := v) (s := s)
          (by rw [hnk]; exact hv.2.1) (by rw [hnk]; exact hv.1) (by rw [hkk]; exact hv.2.2.1)
          (by rw [hkk]; exact hv.2.2.2)
        exact ⟨g1, h1, ⟨h6, h2.trans hnk, h3.trans hkk, hRR⟩, h7⟩)
    vs g ⟨hf, rfl, rfl, hop.2.2⟩ (fun _ => hc) hfine
  exact .inl ⟨g', h1, h3⟩

theorem cache_childOK_mods {g : G} {i v : Nat} (h : ChildOK g i .mods v) :
    v < g.n ∧ i < g.n ∧ g.kind v = .module ∧ g.kind i = .ir := by
  have hk := cache_slot_mods h.2.2.1
  have := h.2.2.2
  rw [hk] at this
  exact ⟨h.2.1, h.1, hk, cache_parent_of_module this⟩

theorem cache_step_extend {g : G} (hf : ForestInv g) (hc : CacheInv g) {i : Nat}
    {vs : List Nat} (hop : OpOK g (.extend i vs)) (hfine : DistinctFine g (.extend i vs)) :
    CacheGoal g (.extend i vs) := by
  show CacheGood (foldE (fun g v => modAppend g i v) vs g) _
  obtain ⟨g', h1, _, h3⟩ := cache_foldE_good (F := fun g v => modAppend g i v)
    (fun R gk => ForestInv gk ∧ gk.n = g.n ∧ gk.kind = g.kind ∧ ∀ v, v ∈ R → ChildOK g i .mods v)
    (by
      rintro gk v R ⟨hfk, hnk, hkk, hR⟩ hdk hck
      obtain ⟨a, b, c, d⟩ := cache_childOK_mods (hR v List.mem_cons_self)
      obtain ⟨g1, h1, hA, hf1, hc1⟩ := cache_modAppend_ok hfk hck hdk (i := i) (v := v)
        (by rw [hnk]; exact a) (by rw [hnk]; exact b) (by rw [hkk]; exact c) (by rw [hkk]; exact d)
      exact ⟨g1, h1, ⟨hf1, hA.n.trans hnk, hA.kind.trans hkk,
        fun x hx => hR x (List.mem_cons_of_mem _ hx)⟩, hc1⟩)
    vs g ⟨hf, rfl, rfl, hop.2.2⟩ (fun _ => hc) hfine
  exact .inl ⟨g', h1, h3⟩

theorem cache_step_insert {g : G} (hf : ForestInv g) (hc : CacheInv g) (hd : Distinct g) {i v : Nat}
    {k : Int} (hop : ChildOK g i .mods v) : CacheGoal g (.insert i k v) := by
  obtain ⟨a, b, c, d⟩ := cache_childOK_mods hop
  obtain ⟨g', h1, _, _, h3⟩ := cache_modInsert_ok hf hc hd (k := k) a b c d
  exact .inl ⟨g', h1, h3⟩

theorem cache_step_append {g : G} (hf : ForestInv g) (hc : CacheInv g) (hd : Distinct g) {i v : Nat}
    (hop : ChildOK g i .mods v) : CacheGoal g (.append i v) := by
  obtain ⟨a, b, c, d⟩ := cache_childOK_mods hop
  obtain ⟨g', h1, _, _, h3⟩ := cache_modAppend_ok hf hc hd a b c d
  exact .inl ⟨g', h1, h3⟩

theorem cache_modDelItem_all {g0 g : G} (h : CacheAll g0 g) (i : Nat) (k : Int) :
    CacheGood (modDelItem g i k) (CacheAll g0) := by
  rcases cache_modDelItem_ok h.forest h.cacheInv h.distinct (i := i) (k := k) with
    ⟨g', v, h1, _, hdet, hf', _⟩ | h1
  · exact .inl ⟨g', h1, hf', hdet.cacheInv, hdet.distinct, hdet.n.trans h.n, hdet.kind.trans h.kind,
      hdet.uuid.trans h.uuid⟩
  · exact .inr ⟨_, h1, by decide⟩

theorem cache_step_delItem {g : G} (hf : ForestInv g) (hc : CacheInv g) (hd : Distinct g) {i : Nat}
    {k : Int} : CacheGoal g (.delItem i k) :=
  (cache_modDelItem_all (CacheAll.rfl' hf hc hd) i k).mono (fun _ h _ => h.cacheInv)

theorem cache_step_listPop {g : G} (hf : ForestInv g) (hc : CacheInv g) (hd : Distinct g) {i : Nat}
    {k : Int} : CacheGoal g (.listPop i k) := by
  show CacheGood (match pyIndex (g.kids i .mods).length k with
    | none => .error .indexError
    | some _ => modDelItem g i k) _
  split
  · exact .inr ⟨_, rfl, by decide⟩
  · exact cache_step_delItem hf hc hd

theorem cache_step_listRemove {g : G} (hf : ForestInv g) (hc : CacheInv g) (hd : Distinct g) {i v : Nat} :
    CacheGoal g (.listRemove i v) := by
  show CacheGood (modListRemove g i v) _
  by_cases hm : v ∈ g.kids i .mods
  · obtain ⟨g', h1, hdet, _⟩ := cache_modListRemove_ok hf hc hd hm
    exact .inl ⟨g', h1, fun _ => hdet.cacheInv⟩
  · exact .inr ⟨.valueError, by unfold modListRemove; rw [if_neg hm], by decide⟩

theorem cache_step_setItem {g : G} (hf : ForestInv g) (hc : CacheInv g) (hd : Distinct g) {i v : Nat}
    {k : Int} (hop : ChildOK g i .mods v) : CacheGoal g (.setItem i k v) := by
  obtain ⟨a, b, c, d⟩ := cache_childOK_mods hop
  exact cache_modSetItem_good hf hc hd a b c d

theorem cache_step_listClear {g : G} (hf : ForestInv g) (hc : CacheInv g) (hd : Distinct g) {i : Nat} :
    CacheGoal g (.listClear i) := by
  show CacheGood (foldE (fun g _ => modDelItem g i (-1)) (g.kids i .mods) g) _
  exact (cache_foldE_inv (CacheAll g) _ g (fun gk _ _ hk => cache_modDelItem_all hk i (-1))
    (CacheAll.rfl' hf hc hd)).mono (fun _ h _ => h.cacheInv)

theorem cache_step_reverse {g : G} (hc : CacheInv g) {i : Nat} : CacheGoal g (.reverse i) :=
  .inl ⟨modReverse g i, rfl, fun _ => cache_cacheInv_congr (g := g) rfl rfl rfl rfl rfl hc⟩

theorem cache_step_mkIR {g : G} (hf : ForestInv g) (hc : CacheInv g) {u : Nat} : CacheGoal g (.mkIR u) :=
  .inl ⟨mkIR g u, rfl, fun _ => cache_mkIR_cacheInv hf hc u⟩

theorem cache_step_setName {g : G} (hc : CacheInv g) {v nm : Nat} : CacheGoal g (.setName v nm) :=
  .inl ⟨setName g v nm, rfl, fun _ => (cache_setName_same g v nm).cacheInv hc⟩

theorem cache_step_setPayload {g : G} (hc : CacheInv g) {v : Nat} {pl : Payload} :
    CacheGoal g (.setPayload v pl) :=
  .inl ⟨setPayload g v pl, rfl, fun _ => (cache_setPayload_same g v pl).cacheInv hc⟩

theorem cache_alloc_all {g : G} (hf : ForestInv g) (hc : CacheInv g) (hd : Distinct g) {k : Kind}
    (hk : k ≠ .ir) (u : Nat) : CacheAll (alloc g k u).1 (alloc g k u).1 :=
  CacheAll.rfl' (cache_alloc_forest hf k u) (cache_alloc_cacheInv hf hc hk u) (cache_alloc_distinct hf hd k u)

theorem cache_alloc_kind_old (g : G) (k : Kind) (u : Nat) {x : Nat} (hx : x < g.n) :
    (alloc g k u).1.kind x = g.kind x := by
  show (if x = g.n then k else g.kind x) = _; rw [if_neg (by omega)]

theorem cache_alloc_kind_new (g : G) (k : Kind) (u : Nat) : (alloc g k u).1.kind g.n = k := by
  show (if g.n = g.n then k else g.kind g.n) = _; simp

theorem cache_step_mkSym {g : G} (hf : ForestInv g) (hc : CacheInv g) (hd : Distinct g) {u nm : Nat}
    {pl : Payload} {parent : Option Nat} (hop : OpOK g (.mkSym u nm pl parent)) :
    CacheGoal g (.mkSym u nm pl parent) := by
  have hall := cache_alloc_all hf hc hd (k := .symbol) (by decide) u
  have hsame : CacheSame (alloc g .symbol u).1
      { (alloc g .symbol u).1 with
        name := fun x => if x = g.n then nm else (alloc g .symbol u).1.name x,
        payload := fun x => if x = g.n then pl else (alloc g .symbol u).1.payload x } :=
    ⟨rfl, rfl, rfl, rfl, rfl, rfl⟩
  cases parent with
  | none =>
    show CacheGood (.ok { (alloc g .symbol u).1 with
        name := fun x => if x = g.n then nm else (alloc g .symbol u).1.name x,
        payload := fun x => if x = g.n then pl else (alloc g .symbol u).1.payload x }) _
    exact .inl ⟨_, rfl, fun _ => hsame.cacheInv hall.cacheInv⟩
  | some p =>
    show CacheGood (setParent { (alloc g .symbol u).1 with
        name := fun x => if x = g.n then nm else (alloc g .symbol u).1.name x,
        payload := fun x => if x = g.n then pl else (alloc g .symbol u).1.payload x } g.n (some p)) _
    obtain ⟨hpn, hkp⟩ := hop.2 p rfl
    obtain ⟨g', h1, _, _, _, _, h6⟩ := cache_setParent_ok (hsame.forest hall.forest)
      (hsame.cacheInv hall.cacheInv) (hsame.distinct hall.distinct) (c := g.n) (p := some p)
      (show g.n < g.n + 1 by omega)
      (by show (alloc g .symbol u).1.kind g.n ≠ .ir; rw [cache_alloc_kind_new]; decide)
      (by
        intro q hq; cases hq
        refine ⟨show p < g.n + 1 by omega, ?_⟩
        show parentKind ((alloc g .symbol u).1.kind g.n) = some ((alloc g .symbol u).1.kind p)
        rw [cache_alloc_kind_new, cache_alloc_kind_old g _ u hpn, hkp]; rfl)
    exact .inl ⟨g', h1, h6⟩

theorem cache_step_mk {g : G} (hf : ForestInv g) (hc : CacheInv g) (hd : Distinct g) {k : Kind} {u : Nat}
    {kids : List (Slot × List Nat)} {parent : Option Nat} (hop : OpOK g (.mk k u kids parent)) :
    CacheGoal g (.mk k u kids parent) := by
  obtain ⟨hk1, hk2, hkids, hpar⟩ := hop
  have hall := cache_alloc_all hf hc hd hk1 u
  have hdt : CacheDT (alloc g k u).1 g.n (alloc g k u).1 :=
    ⟨hall, by show (if g.n = g.n then none else g.par g.n) = none; simp,
     by rw [cache_alloc_kind_new]; exact hk1, show g.n < g.n + 1 by omega⟩
  obtain ⟨g2, h2, hdt2⟩ := cache_DT_children kids (alloc g k u).1 hdt (by
    intro sv hsv x hx
    obtain ⟨a, b, c⟩ := hkids sv hsv x hx
    refine ⟨show x < g.n + 1 by omega, ?_, ?_⟩
    · rw [cache_alloc_kind_old g k u a]; exact b
    · rw [cache_alloc_kind_old g k u a, cache_alloc_kind_new]; exact c)
  have hkk : ¬ (k = .ir ∨ k = .symbol) := by intro h; rcases h with h | h; exact hk1 h; exact hk2 h
  cases parent with
  | none =>
    show CacheGood (if k = .ir ∨ k = .symbol then .error .badOp else
      bindE (kids.foldl (fun acc (sv : Slot × List Nat) =>
               bindE acc fun g' =>
                 if sv.1 = .blocks then blkUpdate g' g.n sv.2
                 else foldE (fun g' x => setAdd g' g.n sv.1 x) sv.2 g') (.ok (alloc g k u).1))
        fun g2 => .ok g2) _
    rw [if_neg hkk, h2]
    exact .inl ⟨g2, rfl, fun _ => hdt2.cacheInv⟩
  | some p =>
    show CacheGood (if k = .ir ∨ k = .symbol then .error .badOp else
      bindE (kids.foldl (fun acc (sv : Slot × List Nat) =>
               bindE acc fun g' =>
                 if sv.1 = .blocks then blkUpdate g' g.n sv.2
                 else foldE (fun g' x => setAdd g' g.n sv.1 x) sv.2 g') (.ok (alloc g k u).1))
        fun g2 => setParent g2 g.n (some p)) _
    rw [if_neg hkk, h2]
    show CacheGood (setParent g2 g.n (some p)) _
    obtain ⟨hpn, hkp⟩ := hpar p rfl
    obtain ⟨g', h1, _, _, _, _, h6⟩ := cache_setParent_ok hdt2.forest hdt2.cacheInv hdt2.distinct
      (c := g.n) (p := some p) (by rw [hdt2.n]; exact hdt2.tn) (by rw [hdt2.kind]; exact hdt2.kt)
      (by
        intro q hq; cases hq
        refine ⟨by rw [hdt2.n]; show p < g.n + 1; omega, ?_⟩
        rw [hdt2.kind, cache_alloc_kind_new, cache_alloc_kind_old g k u hpn]; exact hkp)
    exact .inl ⟨g', h1, h6⟩

/-- every public operation: no `KeyError` from the table, and the table stays exact -/
theorem cache_step_good (g : G) (op : Op) (hf : ForestInv g) (hc : CacheInv g) (hd : Distinct g)
    (hop : OpOK g op) (hfine : DistinctFine g op) : CacheGoal g op := by
  cases op with
  | mkIR u => exact cache_step_mkIR hf hc
  | mk k u kids parent => exact cache_step_mk hf hc hd hop
  | mkSym u nm pl parent => exact cache_step_mkSym hf hc hd hop
  | setParent c p => exact cache_step_setParent hf hc hd hop
  | add p s v => exact cache_step_add hf hc hd hop
  | discard p s v => exact cache_step_discard hf hc hd hop
  | remove p s v => exact cache_step_remove hf hc hd hop
  | pop p s v => exact cache_step_pop hf hc hd hop
  | clear p s order => exact cache_step_clear hf hc hd hop
  | update p s vs => exact cache_step_update hf hc hop hfine
  | isub p s vs => exact cache_step_isub hf hc hd hop
  | iand p s vs order => exact cache_step_iand hf hc hd hop
  | ixor p s vs => exact cache_step_ixor hf hc hop hfine
  | insert i k v => exact cache_step_insert hf hc hd hop
  | append i v => exact cache_step_append hf hc hd hop
  | extend i vs => exact cache_step_extend hf hc hop hfine
  | delItem i k => exact cache_step_delItem hf hc hd
  | setItem i k v => exact cache_step_setItem hf hc hd hop
  | listRemove i v => exact cache_step_listRemove hf hc hd
  | listPop i k => exact cache_step_listPop hf hc hd
  | reverse i => exact cache_step_reverse hc
  | listClear i => exact cache_step_listClear hf hc hd
  | setName v nm => exact cache_step_setName hc
  | setPayload v pl => exact cache_step_setPayload hc

/-- the operations for which distinctness before and after the operation is enough -/
def cacheNotIxor : Op → Bool
  | .ixor _ _ _ => false
  | _ => true

/-- the operations that perform at most one attach (their `DistinctFine` is `True`) -/
def cacheSingleAttach : Op → Bool
  | .ixor _ _ _ | .update _ _ _ | .extend _ _ => false
  | _ => true

theorem cache_distinctFine_single {g : G} {op : Op} (h : cacheSingleAttach op = true) : DistinctFine g op := by
  cases op <;> first | trivial | (simp [cacheSingleAttach] at h)

/-- for `update` and `extend` distinctness inside follows from distinctness before and after -/
theorem cache_distinctFine_of_ends {g g' : G} {op : Op} (hf : ForestInv g) (hd : Distinct g)
    (hd' : Distinct g') (hop : OpOK g op) (hs : step g op = .ok g') (hx : cacheNotIxor op = true) :
    DistinctFine g op := by
  have hp := hf.cache_parInv
  cases op with
  | ixor p s vs => simp [cacheNotIxor] at hx
  | update p s vs =>
    have hs' : (if s = .blocks then blkUpdate g p vs else foldE (fun g v => setAdd g p s v) vs g) = .ok g' := hs
    show if s = .blocks then cache_DistinctFold (cache_blkStep (irOf g p) p) g (cache_blkNew g p vs)
      else cache_DistinctFold (fun g v => setAdd g p s v) g vs
    by_cases hsb : s = .blocks
    · rw [if_pos hsb] at hs' ⊢
      rw [cache_blkUpdate_eq] at hs'
      cases hfold : foldE (cache_blkStep (irOf g p) p) (cache_blkNew g p vs) g with
      | error e => rw [hfold] at hs'; cases hs'
      | ok gf =>
        rw [hfold] at hs'
        cases hs'
        obtain ⟨k1, k2, k3, k4, _, _⟩ := cache_foldl_kidsInsert p .blocks (cache_blkNew g p vs) gf
        have hdf : Distinct gf := by
          intro a b i ha hb hia hib hab
          exact hd' a b i (by rw [k1]; exact ha) (by rw [k1]; exact hb)
            (by rw [cache_irOf_congr k2 k4]; exact hia) (by rw [cache_irOf_congr k2 k4]; exact hib)
            (by rw [k3]; exact hab)
        exact cache_distinctFold_of_ends (g0 := g) (p := p) (fun _ _ _ h => cache_blkStep_shape h) _ g gf
          ⟨rfl, rfl, rfl, hp, hop.2.1, fun v hv => by
            have := hop.2.2 v (cache_mem_blkNew.1 hv).1
            exact ⟨this.2.1, this.2.2.2⟩⟩ hfold hd hdf
    · rw [if_neg hsb] at hs' ⊢
      exact cache_distinctFold_of_ends (g0 := g) (p := p) (fun _ _ _ h => cache_setAdd_shape h) vs g g'
        ⟨rfl, rfl, rfl, hp, hop.2.1, fun v hv => ⟨(hop.2.2 v hv).2.1, (hop.2.2 v hv).2.2.2⟩⟩ hs' hd hd'
  | extend i vs =>
    have hs' : foldE (fun g v => modAppend g i v) vs g = .ok g' := hs
    exact cache_distinctFold_of_ends (g0 := g) (p := i) (fun _ _ _ h => cache_modAppend_shape h) vs g g'
      ⟨rfl, rfl, rfl, hp, hop.1, fun v hv => ⟨(hop.2.2 v hv).2.1, (hop.2.2 v hv).2.2.2⟩⟩ hs' hd hd'
  | _ => trivial

/-- `DistinctAlong`, plus the intermediate moments of the multi-attach operations -/
def DistinctAlongFine : G → List Op → Prop
  | g, [] => Distinct g
  | g, op :: ops => Distinct g ∧ DistinctFine g op ∧
    DistinctAlongFine (match step g op with | .ok g' => g' | .error _ => g) ops

/-- the other formulation of `cache_DistinctFold`: the UUIDs are distinct in the state reached after
every proper prefix of the loop -/
theorem cache_distinctFold_of_prefixes {F : G → Nat → Except Exc G} : ∀ (vs : List Nat) (g : G),
    (∀ vs' gk, vs' <+: vs → vs' ≠ vs → foldE F vs' g = .ok gk → Distinct gk) → cache_DistinctFold F g vs
  | [], _, _ => trivial
  | v :: vs, g, h => by
    refine ⟨h [] g List.nil_prefix (by simp) rfl, ?_⟩
    cases h1 : F g v with
    | error e => trivial
    | ok g1 =>
      apply cache_distinctFold_of_prefixes vs g1
      intro vs' gk hpre hne hfold
      apply h (v :: vs') gk (List.cons_prefix_cons.2 ⟨rfl, hpre⟩) (by intro e; cases e; exact hne rfl)
      simp only [foldE, h1]; exact hfold

/-- histories of single-attach operations: `DistinctAlong` is all that is needed -/
theorem cache_distinctAlongFine_of_single : ∀ (ops : List Op) (g : G), DistinctAlong g ops →
    (∀ op, op ∈ ops → cacheSingleAttach op = true) → DistinctAlongFine g ops
  | [], _, h, _ => h
  | op :: ops, _, h, hs =>
    ⟨h.1, cache_distinctFine_single (hs op List.mem_cons_self),
     cache_distinctAlongFine_of_single ops _ h.2 (fun o ho => hs o (List.mem_cons_of_mem _ ho))⟩

end Gtirb.Forest
