import GtirbModel.Index
/-! Helper lemmas for C12 / C05 / C06 (model D: lazily maintained interval
indexes). Core Lean only. -/
namespace Gtirb.Index

/-! ### trees as duplicate-free lists -/

theorem mem_treeAdd {t : Tree} {iv x : Iv} : x ∈ treeAdd t iv ↔ x ∈ t ∨ x = iv := by
  unfold treeAdd; split
  · constructor
    · exact Or.inl
    · rintro (h | h)
      · exact h
      · subst h; assumption
  · simp

theorem nodup_treeAdd {t : Tree} {iv : Iv} (h : t.Nodup) : (treeAdd t iv).Nodup := by
  unfold treeAdd; split
  · exact h
  · rename_i hn
    rw [List.nodup_append]
    refine ⟨h, by simp, ?_⟩
    intro a ha b hb
    simp at hb; subst hb
    intro hab; subst hab; exact hn ha

theorem mem_treeDiscard {t : Tree} {iv x : Iv} (h : t.Nodup) :
    x ∈ treeDiscard t iv ↔ x ∈ t ∧ x ≠ iv := by
  unfold treeDiscard
  rw [h.mem_erase_iff]; exact And.comm

theorem nodup_treeDiscard {t : Tree} {iv : Iv} (h : t.Nodup) : (treeDiscard t iv).Nodup :=
  h.erase iv

theorem treeOfList_aux (ivs : List Iv) : ∀ (t : Tree), t.Nodup →
    (ivs.foldl treeAdd t).Nodup ∧ ∀ x, x ∈ ivs.foldl treeAdd t ↔ x ∈ t ∨ x ∈ ivs := by
  induction ivs with
  | nil => intro t h; simp [h]
  | cons a l ih =>
    intro t h
    have := ih (treeAdd t a) (nodup_treeAdd h)
    refine ⟨this.1, ?_⟩
    intro x
    rw [List.foldl_cons, this.2, mem_treeAdd]
    simp only [List.mem_cons]
    constructor
    · rintro ((h | h) | h)
      · exact Or.inl h
      · exact Or.inr (Or.inl h)
      · exact Or.inr (Or.inr h)
    · rintro (h | h | h)
      · exact Or.inl (Or.inl h)
      · exact Or.inl (Or.inr h)
      · exact Or.inr h

theorem nodup_treeOfList (ivs : List Iv) : (treeOfList ivs).Nodup :=
  (treeOfList_aux ivs [] List.nodup_nil).1

theorem mem_treeOfList {ivs : List Iv} {x : Iv} : x ∈ treeOfList ivs ↔ x ∈ ivs := by
  unfold treeOfList
  rw [(treeOfList_aux ivs [] List.nodup_nil).2]; simp

/-- one replay step -/
def stepEv (t : Tree) (ev : Bool × Iv) : Tree :=
  if ev.1 then treeAdd t ev.2 else treeDiscard t ev.2

theorem replay_eq (t : Tree) (evs : List (Bool × Iv)) : replay t evs = evs.foldl stepEv t := rfl

theorem replay_nil (t : Tree) : replay t [] = t := rfl

theorem replay_snoc (t : Tree) (evs : List (Bool × Iv)) (ev : Bool × Iv) :
    replay t (evs ++ [ev]) = stepEv (replay t evs) ev := by
  simp [replay_eq, List.foldl_append]

theorem nodup_stepEv {t : Tree} {ev : Bool × Iv} (h : t.Nodup) : (stepEv t ev).Nodup := by
  unfold stepEv; split
  · exact nodup_treeAdd h
  · exact nodup_treeDiscard h

theorem nodup_replay (evs : List (Bool × Iv)) : ∀ {t : Tree}, t.Nodup → (replay t evs).Nodup := by
  induction evs with
  | nil => intro t h; exact h
  | cons a l ih =>
    intro t h
    rw [replay_eq, List.foldl_cons, ← replay_eq]
    exact ih (nodup_stepEv h)

/-! ### the lazy wrapper -/

/-- the lazy index, once all pending events are applied, is the set of current intervals -/
def LazyOK (l : Lazy) (cur : List Iv) : Prop :=
  ∀ t, l.tree = some t → t.Nodup ∧ ∀ iv, iv ∈ replay t l.events ↔ iv ∈ cur

/-- the same with the current set given as a predicate -/
def LazyOKp (l : Lazy) (P : Iv → Prop) : Prop :=
  ∀ t, l.tree = some t → t.Nodup ∧ ∀ iv, iv ∈ replay t l.events ↔ P iv

theorem lazyOK_iff_p (l : Lazy) (cur : List Iv) : LazyOK l cur ↔ LazyOKp l (· ∈ cur) := Iff.rfl

theorem lazyOKp_congr {l : Lazy} {P Q : Iv → Prop} (hpq : ∀ iv, P iv ↔ Q iv) (h : LazyOKp l P) :
    LazyOKp l Q := by
  intro t ht
  have := h t ht
  exact ⟨this.1, fun iv => (this.2 iv).trans (hpq iv)⟩

theorem lazyOKp_discard {l : Lazy} {P : Iv → Prop} (oi : Option Iv) (h : LazyOKp l P) :
    LazyOKp (l.discard oi) (fun iv => P iv ∧ oi ≠ some iv) := by
  cases oi with
  | none => simpa [Lazy.discard] using h
  | some i =>
    intro t ht
    have ht' : l.tree = some t := ht
    have := h t ht'
    refine ⟨this.1, ?_⟩
    intro iv
    show iv ∈ replay t (l.events ++ [(false, i)]) ↔ _
    rw [replay_snoc]
    simp only [stepEv, Bool.false_eq_true, if_false]
    rw [mem_treeDiscard (nodup_replay _ this.1), this.2]
    simp only [ne_eq, Option.some.injEq]
    constructor
    · rintro ⟨a, b⟩; exact ⟨a, fun e => b e.symm⟩
    · rintro ⟨a, b⟩; exact ⟨a, fun e => b e.symm⟩

theorem lazyOKp_add {l : Lazy} {P : Iv → Prop} (oi : Option Iv) (h : LazyOKp l P) :
    LazyOKp (l.add oi) (fun iv => P iv ∨ oi = some iv) := by
  cases oi with
  | none => simpa [Lazy.add] using h
  | some i =>
    intro t ht
    have ht' : l.tree = some t := ht
    have := h t ht'
    refine ⟨this.1, ?_⟩
    intro iv
    show iv ∈ replay t (l.events ++ [(true, i)]) ↔ _
    rw [replay_snoc]
    simp only [stepEv, if_true]
    rw [mem_treeAdd, this.2]
    simp only [Option.some.injEq]
    constructor
    · rintro (a | b); exact Or.inl a; exact Or.inr b.symm
    · rintro (a | b); exact Or.inl a; exact Or.inr b.symm

/-- all three branches of `get` -/
theorem lazy_get_spec (l : Lazy) (P : Iv → Prop) (cur : List Iv) (n : Nat) (h : LazyOKp l P)
    (hc : ∀ iv, iv ∈ cur ↔ P iv) :
    (l.get cur n).2.Nodup ∧ (∀ iv, iv ∈ (l.get cur n).2 ↔ P iv) ∧ LazyOKp (l.get cur n).1 P ∧
      (l.get cur n).1.events = [] ∧ (l.get cur n).1.tree = some (l.get cur n).2 := by
  have key : (l.get cur n).2.Nodup ∧ (∀ iv, iv ∈ (l.get cur n).2 ↔ P iv) := by
    unfold Lazy.get
    cases ht : l.tree with
    | none =>
      exact ⟨nodup_treeOfList _, fun iv => mem_treeOfList.trans (hc iv)⟩
    | some t =>
      simp only
      split
      · exact ⟨nodup_treeOfList _, fun iv => mem_treeOfList.trans (hc iv)⟩
      · have := h t ht
        exact ⟨nodup_replay _ this.1, this.2⟩
  refine ⟨key.1, key.2, ?_, rfl, rfl⟩
  intro t ht
  have : (l.get cur n).2 = t := by
    have : some (l.get cur n).2 = some t := ht
    exact Option.some.inj this
  subst this
  exact ⟨key.1, key.2⟩

/-! ### keyed lists -/
section Keyed
variable {α : Type} (key : α → Nat)

theorem key_inj {l : List α} (h : (l.map key).Nodup) {a b : α} (ha : a ∈ l) (hb : b ∈ l)
    (hk : key a = key b) : a = b := by
  induction l with
  | nil => cases ha
  | cons y ys ih =>
    simp only [List.map_cons, List.nodup_cons, List.mem_map, not_exists, not_and] at h
    simp only [List.mem_cons] at ha hb
    rcases ha with rfl | ha <;> rcases hb with rfl | hb
    · rfl
    · exact absurd hk.symm (h.1 b hb)
    · exact absurd hk (h.1 a ha)
    · exact ih h.2 ha hb

theorem kfind_some {l : List α} {x : Nat} {a : α}
    (h : l.find? (fun y => key y == x) = some a) : a ∈ l ∧ key a = x := by
  refine ⟨List.mem_of_find?_eq_some h, ?_⟩
  have := List.find?_some h
  simpa using this

theorem kfind_some_iff {l : List α} (h : (l.map key).Nodup) {x : Nat} {a : α} :
    l.find? (fun y => key y == x) = some a ↔ a ∈ l ∧ key a = x := by
  constructor
  · exact kfind_some key
  · rintro ⟨ha, hk⟩
    cases hf : l.find? (fun y => key y == x) with
    | none =>
      rw [List.find?_eq_none] at hf
      have := hf a ha
      simp [hk] at this
    | some b =>
      have hb := kfind_some key hf
      rw [key_inj key h ha hb.1 (hk.trans hb.2.symm)]

theorem kfind_none {l : List α} {x : Nat} :
    l.find? (fun y => key y == x) = none ↔ ∀ a ∈ l, key a ≠ x := by
  rw [List.find?_eq_none]; simp

theorem kset_keys (l : List α) (b : α) :
    (l.map (fun y => if key y == key b then b else y)).map key = l.map key := by
  rw [List.map_map]; apply List.map_congr_left; intro y _
  simp only [Function.comp]; split
  · rename_i h; simp at h; exact h.symm
  · rfl

theorem mem_kset {l : List α} {a b : α} (ha : a ∈ l) (hk : key a = key b) {y : α} :
    y ∈ l.map (fun z => if key z == key b then b else z) ↔ (y ∈ l ∧ key y ≠ key b) ∨ y = b := by
  simp only [List.mem_map]
  constructor
  · rintro ⟨z, hz, rfl⟩
    split
    · right; rfl
    · rename_i h; left; exact ⟨hz, by simpa using h⟩
  · rintro (⟨hy, hne⟩ | rfl)
    · exact ⟨y, hy, by simp [hne]⟩
    · exact ⟨a, ha, by simp [hk]⟩

/-- without a matching key the update is the identity -/
theorem kset_none {l : List α} {b : α} (h : ∀ a ∈ l, key a ≠ key b) :
    l.map (fun z => if key z == key b then b else z) = l := by
  conv => rhs; rw [← List.map_id l]
  apply List.map_congr_left; intro y hy
  simp [h y hy]

end Keyed

/-! ### structural facts about the primitive updates -/

abbrev blkIvs (d : D) (x : Nat) : List Iv := (d.blocksOf x).map offsetIv
abbrev biIvs (d : D) (s : Nat) : List Iv := (d.bisOf s).filterMap addrIvBI

theorem lzUpdBI_blks (d : D) (x : Nat) (f : Lazy → Lazy) : (lzUpdBI d x f).blks = d.blks := by
  unfold lzUpdBI; split <;> rfl
theorem lzUpdBI_secs (d : D) (x : Nat) (f : Lazy → Lazy) : (lzUpdBI d x f).secs = d.secs := by
  unfold lzUpdBI; split <;> rfl
theorem lzUpdSec_blks (d : D) (x : Nat) (f : Lazy → Lazy) : (lzUpdSec d x f).blks = d.blks := by
  unfold lzUpdSec; split <;> rfl
theorem lzUpdSec_bis (d : D) (x : Nat) (f : Lazy → Lazy) : (lzUpdSec d x f).bis = d.bis := by
  unfold lzUpdSec; split <;> rfl

theorem setBlk_ids (d : D) (b : Blk) : (d.setBlk b).blks.map (·.id) = d.blks.map (·.id) :=
  kset_keys Blk.id d.blks b
theorem setBI_ids (d : D) (b : BI) : (d.setBI b).bis.map (·.id) = d.bis.map (·.id) :=
  kset_keys BI.id d.bis b
theorem setSec_ids (d : D) (b : Sec) : (d.setSec b).secs.map (·.id) = d.secs.map (·.id) :=
  kset_keys Sec.id d.secs b

theorem lzUpdBI_ids (d : D) (x : Nat) (f : Lazy → Lazy) :
    (lzUpdBI d x f).bis.map (·.id) = d.bis.map (·.id) := by
  unfold lzUpdBI; split
  · exact setBI_ids _ _
  · rfl
theorem lzUpdSec_ids (d : D) (x : Nat) (f : Lazy → Lazy) :
    (lzUpdSec d x f).secs.map (·.id) = d.secs.map (·.id) := by
  unfold lzUpdSec; split
  · exact setSec_ids _ _
  · rfl

theorem lzUpdSec_bi? (d : D) (s : Nat) (f : Lazy → Lazy) (x : Nat) :
    (lzUpdSec d s f).bi? x = d.bi? x := by
  unfold D.bi?; rw [lzUpdSec_bis]

theorem mem_blkIvs {d : D} {x : Nat} {iv : Iv} :
    iv ∈ blkIvs d x ↔ ∃ b ∈ d.blks, b.bi = some x ∧ offsetIv b = iv := by
  simp [blkIvs, D.blocksOf, List.mem_map, List.mem_filter, and_assoc]

theorem mem_biIvs {d : D} {s : Nat} {iv : Iv} :
    iv ∈ biIvs d s ↔ ∃ y ∈ d.bis, y.sec = some s ∧ addrIvBI y = some iv := by
  simp [biIvs, D.bisOf, List.mem_filterMap, List.mem_filter, and_assoc]

theorem offsetIv_data (b : Blk) : (offsetIv b).data = b.id := rfl

theorem addrIvBI_data {y : BI} {iv : Iv} (h : addrIvBI y = some iv) : iv.data = y.id := by
  unfold addrIvBI at h
  cases ha : y.addr with
  | none => simp [ha] at h
  | some a => simp [ha] at h; rw [← h]


/-! ### the invariant -/

/-- well-formed structure: ids unique per list; every interval's / section's
lazy index is `LazyOK` w.r.t. the current members -/
structure DInv (d : D) : Prop where
  blk_ids : (d.blks.map (·.id)).Nodup
  bi_ids : (d.bis.map (·.id)).Nodup
  sec_ids : (d.secs.map (·.id)).Nodup
  bi_ok : ∀ bi ∈ d.bis, LazyOK bi.lz ((d.blocksOf bi.id).map offsetIv)
  sec_ok : ∀ sc ∈ d.secs, LazyOK sc.lz ((d.bisOf sc.id).filterMap addrIvBI)

/-- generalised invariant used between the primitive steps of an edit: the
"current" sets are given from outside -/
structure DInvG (d : D) (cB cS : Nat → Iv → Prop) : Prop where
  blk_ids : (d.blks.map (·.id)).Nodup
  bi_ids : (d.bis.map (·.id)).Nodup
  sec_ids : (d.secs.map (·.id)).Nodup
  bi_ok : ∀ bi ∈ d.bis, LazyOKp bi.lz (cB bi.id)
  sec_ok : ∀ sc ∈ d.secs, LazyOKp sc.lz (cS sc.id)

theorem dinv_iff_G (d : D) :
    DInv d ↔ DInvG d (fun x iv => iv ∈ blkIvs d x) (fun s iv => iv ∈ biIvs d s) :=
  ⟨fun h => ⟨h.1, h.2, h.3, h.4, h.5⟩, fun h => ⟨h.1, h.2, h.3, h.4, h.5⟩⟩

theorem dinvG_congr {d : D} {cB cS cB' cS' : Nat → Iv → Prop} (h : DInvG d cB cS)
    (hB : ∀ x iv, cB x iv ↔ cB' x iv) (hS : ∀ x iv, cS x iv ↔ cS' x iv) : DInvG d cB' cS' :=
  ⟨h.1, h.2, h.3, fun bi hbi => lazyOKp_congr (hB bi.id) (h.4 bi hbi),
    fun sc hsc => lazyOKp_congr (hS sc.id) (h.5 sc hsc)⟩

theorem dinvG_lzUpdBI {d : D} {cB cS : Nat → Iv → Prop} (h : DInvG d cB cS) (x : Nat)
    (f : Lazy → Lazy) (cB' : Nat → Iv → Prop)
    (hf : ∀ l, LazyOKp l (cB x) → LazyOKp (f l) (cB' x))
    (hy : ∀ y, y ≠ x → ∀ iv, cB y iv ↔ cB' y iv) : DInvG (lzUpdBI d x f) cB' cS := by
  refine ⟨by rw [lzUpdBI_blks]; exact h.1, by rw [lzUpdBI_ids]; exact h.2,
    by rw [lzUpdBI_secs]; exact h.3, ?_, by rw [lzUpdBI_secs]; exact h.5⟩
  unfold lzUpdBI
  cases hb : d.bi? x with
  | none =>
    intro bi hbi
    have hne : bi.id ≠ x := (kfind_none BI.id).1 hb bi hbi
    exact lazyOKp_congr (hy _ hne) (h.4 bi hbi)
  | some b0 =>
    have hb0 := kfind_some BI.id hb
    intro bi hbi
    have := (mem_kset BI.id (b := { b0 with lz := f b0.lz }) hb0.1 rfl).1 hbi
    rcases this with ⟨hm, hne⟩ | rfl
    · have hne' : bi.id ≠ x := by rw [← hb0.2]; exact hne
      exact lazyOKp_congr (hy _ hne') (h.4 bi hm)
    · show LazyOKp (f b0.lz) (cB' b0.id)
      rw [hb0.2]; apply hf; rw [← hb0.2]; exact h.4 b0 hb0.1

theorem dinvG_lzUpdSec {d : D} {cB cS : Nat → Iv → Prop} (h : DInvG d cB cS) (x : Nat)
    (f : Lazy → Lazy) (cS' : Nat → Iv → Prop)
    (hf : ∀ l, LazyOKp l (cS x) → LazyOKp (f l) (cS' x))
    (hy : ∀ y, y ≠ x → ∀ iv, cS y iv ↔ cS' y iv) : DInvG (lzUpdSec d x f) cB cS' := by
  refine ⟨by rw [lzUpdSec_blks]; exact h.1, by rw [lzUpdSec_bis]; exact h.2,
    by rw [lzUpdSec_ids]; exact h.3, by rw [lzUpdSec_bis]; exact h.4, ?_⟩
  unfold lzUpdSec
  cases hb : d.sec? x with
  | none =>
    intro bi hbi
    have hne : bi.id ≠ x := (kfind_none Sec.id).1 hb bi hbi
    exact lazyOKp_congr (hy _ hne) (h.5 bi hbi)
  | some b0 =>
    have hb0 := kfind_some Sec.id hb
    intro bi hbi
    have := (mem_kset Sec.id (b := { b0 with lz := f b0.lz }) hb0.1 rfl).1 hbi
    rcases this with ⟨hm, hne⟩ | rfl
    · have hne' : bi.id ≠ x := by rw [← hb0.2]; exact hne
      exact lazyOKp_congr (hy _ hne') (h.5 bi hm)
    · show LazyOKp (f b0.lz) (cS' b0.id)
      rw [hb0.2]; apply hf; rw [← hb0.2]; exact h.5 b0 hb0.1

/-- the optional forms the edits use -/
def optUpdBI (d : D) (o : Option Nat) (f : Lazy → Lazy) : D :=
  match o with
  | some x => lzUpdBI d x f
  | none => d

def optUpdSec (d : D) (o : Option Nat) (f : Lazy → Lazy) : D :=
  match o with
  | some x => lzUpdSec d x f
  | none => d

theorem dinvG_discardBI {d : D} {cB cS : Nat → Iv → Prop} (h : DInvG d cB cS) (o : Option Nat)
    (i : Iv) :
    DInvG (optUpdBI d o (·.discard (some i))) (fun y iv => cB y iv ∧ ¬(o = some y ∧ iv = i)) cS := by
  cases o with
  | none => exact dinvG_congr h (by simp) (by simp)
  | some x =>
    simp only [optUpdBI]
    refine dinvG_lzUpdBI h x _ _ ?_ ?_
    · intro l hl
      refine lazyOKp_congr ?_ (lazyOKp_discard (some i) hl)
      intro iv; simp only [ne_eq, Option.some.injEq, true_and]
      constructor
      · rintro ⟨a, b⟩; exact ⟨a, fun e => b e.symm⟩
      · rintro ⟨a, b⟩; exact ⟨a, fun e => b e.symm⟩
    · intro y hne iv
      simp only [Option.some.injEq]
      constructor
      · intro a; exact ⟨a, fun e => hne e.1.symm⟩
      · exact fun a => a.1

theorem dinvG_addBI {d : D} {cB cS : Nat → Iv → Prop} (h : DInvG d cB cS) (o : Option Nat)
    (i : Iv) :
    DInvG (optUpdBI d o (·.add (some i))) (fun y iv => cB y iv ∨ (o = some y ∧ iv = i)) cS := by
  cases o with
  | none => exact dinvG_congr h (by simp) (by simp)
  | some x =>
    simp only [optUpdBI]
    refine dinvG_lzUpdBI h x _ _ ?_ ?_
    · intro l hl
      refine lazyOKp_congr ?_ (lazyOKp_add (some i) hl)
      intro iv; simp only [Option.some.injEq, true_and]
      constructor
      · rintro (a | b); exact Or.inl a; exact Or.inr b.symm
      · rintro (a | b); exact Or.inl a; exact Or.inr b.symm
    · intro y hne iv
      simp only [Option.some.injEq]
      constructor
      · exact Or.inl
      · rintro (a | b); exact a; exact absurd b.1.symm hne

theorem dinvG_discardSec {d : D} {cB cS : Nat → Iv → Prop} (h : DInvG d cB cS) (o : Option Nat)
    (oi : Option Iv) :
    DInvG (optUpdSec d o (·.discard oi)) cB (fun y iv => cS y iv ∧ ¬(o = some y ∧ oi = some iv)) := by
  cases o with
  | none => exact dinvG_congr h (by simp) (by simp)
  | some x =>
    simp only [optUpdSec]
    refine dinvG_lzUpdSec h x _ _ ?_ ?_
    · intro l hl
      refine lazyOKp_congr ?_ (lazyOKp_discard oi hl)
      intro iv; simp
    · intro y hne iv
      simp only [Option.some.injEq]
      constructor
      · intro a; exact ⟨a, fun e => hne e.1.symm⟩
      · exact fun a => a.1

theorem dinvG_addSec {d : D} {cB cS : Nat → Iv → Prop} (h : DInvG d cB cS) (o : Option Nat)
    (oi : Option Iv) :
    DInvG (optUpdSec d o (·.add oi)) cB (fun y iv => cS y iv ∨ (o = some y ∧ oi = some iv)) := by
  cases o with
  | none => exact dinvG_congr h (by simp) (by simp)
  | some x =>
    simp only [optUpdSec]
    refine dinvG_lzUpdSec h x _ _ ?_ ?_
    · intro l hl
      refine lazyOKp_congr ?_ (lazyOKp_add oi hl)
      intro iv; simp
    · intro y hne iv
      simp only [Option.some.injEq]
      constructor
      · exact Or.inl
      · rintro (a | b); exact a; exact absurd b.1.symm hne

theorem dinvG_setBlk {d : D} {cB cS : Nat → Iv → Prop} (h : DInvG d cB cS) (b : Blk) :
    DInvG (d.setBlk b) cB cS :=
  ⟨by rw [setBlk_ids]; exact h.1, h.2, h.3, h.4, h.5⟩

theorem dinvG_setBI {d : D} {cB cS : Nat → Iv → Prop} (h : DInvG d cB cS) {b b0 : BI}
    (hb0 : b0 ∈ d.bis) (hid : b0.id = b.id) (hlz : b.lz = b0.lz) : DInvG (d.setBI b) cB cS := by
  refine ⟨h.1, by rw [setBI_ids]; exact h.2, h.3, ?_, h.5⟩
  intro bi hbi
  rcases (mem_kset BI.id hb0 hid).1 hbi with ⟨hm, _⟩ | rfl
  · exact h.4 bi hm
  · rw [hlz, ← hid]; exact h.4 b0 hb0

/-! ### how the current sets change under `setBlk` / `setBI` -/

theorem mem_blkIvs_setBlk {d : D} (hn : (d.blks.map (·.id)).Nodup) {blk blk' : Blk}
    (hm : blk ∈ d.blks) (hid : blk.id = blk'.id) (y : Nat) (iv : Iv) :
    iv ∈ blkIvs (d.setBlk blk') y ↔
      (iv ∈ blkIvs d y ∧ ¬(blk.bi = some y ∧ iv = offsetIv blk)) ∨
        (blk'.bi = some y ∧ iv = offsetIv blk') := by
  rw [mem_blkIvs, mem_blkIvs]
  constructor
  · rintro ⟨b, hb, hby, rfl⟩
    rcases (mem_kset Blk.id hm hid).1 hb with ⟨hb', hne⟩ | rfl
    · left
      refine ⟨⟨b, hb', hby, rfl⟩, ?_⟩
      rintro ⟨_, he⟩
      have : b.id = blk.id := congrArg Iv.data he
      exact hne (this.trans hid)
    · right; exact ⟨hby, rfl⟩
  · rintro (⟨⟨b, hb, hby, rfl⟩, hnot⟩ | ⟨hby, rfl⟩)
    · refine ⟨b, (mem_kset Blk.id hm hid).2 (Or.inl ⟨hb, ?_⟩), hby, rfl⟩
      intro he
      have : b = blk := key_inj Blk.id hn hb hm (he.trans hid.symm)
      subst this
      exact hnot ⟨hby, rfl⟩
    · exact ⟨blk', (mem_kset Blk.id hm hid).2 (Or.inr rfl), hby, rfl⟩

theorem mem_biIvs_setBI {d : D} (hn : (d.bis.map (·.id)).Nodup) {bi bi' : BI}
    (hm : bi ∈ d.bis) (hid : bi.id = bi'.id) (s : Nat) (iv : Iv) :
    iv ∈ biIvs (d.setBI bi') s ↔
      (iv ∈ biIvs d s ∧ ¬(bi.sec = some s ∧ addrIvBI bi = some iv)) ∨
        (bi'.sec = some s ∧ addrIvBI bi' = some iv) := by
  rw [mem_biIvs, mem_biIvs]
  constructor
  · rintro ⟨b, hb, hby, he⟩
    rcases (mem_kset BI.id hm hid).1 hb with ⟨hb', hne⟩ | rfl
    · left
      refine ⟨⟨b, hb', hby, he⟩, ?_⟩
      rintro ⟨_, he'⟩
      have : b.id = bi.id := (addrIvBI_data he).symm.trans (addrIvBI_data he')
      exact hne (this.trans hid)
    · right; exact ⟨hby, he⟩
  · rintro (⟨⟨b, hb, hby, he⟩, hnot⟩ | ⟨hby, he⟩)
    · refine ⟨b, (mem_kset BI.id hm hid).2 (Or.inl ⟨hb, ?_⟩), hby, he⟩
      intro he'
      have : b = bi := key_inj BI.id hn hb hm (he'.trans hid.symm)
      subst this
      exact hnot ⟨hby, he⟩
    · exact ⟨bi', (mem_kset BI.id hm hid).2 (Or.inr rfl), hby, he⟩

/-- changing only the lazy state of an interval does not change the sections' current sets -/
theorem mem_biIvs_setBI_same {d : D} (hn : (d.bis.map (·.id)).Nodup) {bi bi' : BI}
    (hm : bi ∈ d.bis) (hid : bi.id = bi'.id) (hsec : bi'.sec = bi.sec) (haddr : bi'.addr = bi.addr)
    (hsize : bi'.size = bi.size) (s : Nat) (iv : Iv) :
    iv ∈ biIvs (d.setBI bi') s ↔ iv ∈ biIvs d s := by
  rw [mem_biIvs_setBI hn hm hid]
  have he : addrIvBI bi' = addrIvBI bi := by unfold addrIvBI; rw [haddr, hsize, hid]
  rw [he, hsec]
  constructor
  · rintro (⟨a, _⟩ | ⟨h1, h2⟩)
    · exact a
    · exact mem_biIvs.2 ⟨bi, hm, h1, h2⟩
  · intro a
    by_cases hb : bi.sec = some s ∧ addrIvBI bi = some iv
    · exact Or.inr hb
    · exact Or.inl ⟨a, hb⟩

theorem mem_biIvs_lzUpdBI {d : D} (hn : (d.bis.map (·.id)).Nodup) (x : Nat) (f : Lazy → Lazy)
    (s : Nat) (iv : Iv) : iv ∈ biIvs (lzUpdBI d x f) s ↔ iv ∈ biIvs d s := by
  cases hb : d.bi? x with
  | none => simp only [lzUpdBI, hb]
  | some b0 =>
    have hb0 := kfind_some BI.id hb
    simp only [lzUpdBI, hb]
    exact mem_biIvs_setBI_same (bi' := { b0 with lz := f b0.lz }) hn hb0.1 rfl rfl rfl rfl s iv

/-! ### the edits keep the invariant -/

theorem optUpdBI_blks (d : D) (o : Option Nat) (f : Lazy → Lazy) : (optUpdBI d o f).blks = d.blks := by
  cases o <;> simp [optUpdBI, lzUpdBI_blks]
theorem optUpdBI_secs (d : D) (o : Option Nat) (f : Lazy → Lazy) : (optUpdBI d o f).secs = d.secs := by
  cases o <;> simp [optUpdBI, lzUpdBI_secs]
theorem optUpdSec_blks (d : D) (o : Option Nat) (f : Lazy → Lazy) : (optUpdSec d o f).blks = d.blks := by
  cases o <;> simp [optUpdSec, lzUpdSec_blks]
theorem optUpdSec_bis (d : D) (o : Option Nat) (f : Lazy → Lazy) : (optUpdSec d o f).bis = d.bis := by
  cases o <;> simp [optUpdSec, lzUpdSec_bis]

theorem blkIvs_congr {d1 d2 : D} (h : d1.blks = d2.blks) (y : Nat) : blkIvs d1 y = blkIvs d2 y := by
  simp only [blkIvs, D.blocksOf, h]
theorem biIvs_congr {d1 d2 : D} (h : d1.bis = d2.bis) (s : Nat) : biIvs d1 s = biIvs d2 s := by
  simp only [biIvs, D.bisOf, h]

theorem mem_biIvs_optUpdBI {d : D} (hn : (d.bis.map (·.id)).Nodup) (o : Option Nat) (f : Lazy → Lazy)
    (s : Nat) (iv : Iv) : iv ∈ biIvs (optUpdBI d o f) s ↔ iv ∈ biIvs d s := by
  cases o with
  | none => exact Iff.rfl
  | some x => exact mem_biIvs_lzUpdBI hn x f s iv

theorem blkSet_eq (d : D) (b o z : Nat) : blkSet d b o z =
    match d.blk? b with
    | none => d
    | some blk =>
      optUpdBI ((optUpdBI d blk.bi (·.discard (some (offsetIv blk)))).setBlk
        { blk with offset := o, size := z }) blk.bi
        (·.add (some (offsetIv { blk with offset := o, size := z }))) := by
  unfold blkSet
  cases d.blk? b with
  | none => rfl
  | some blk => cases hbi : blk.bi <;> rfl

theorem blkMove_eq (d : D) (b : Nat) (dst : Option Nat) (readd : Bool) : blkMove d b dst readd =
    match d.blk? b with
    | none => d
    | some blk =>
      if blk.bi == dst && !readd then d else
      optUpdBI ((optUpdBI d blk.bi (·.discard (some (offsetIv blk)))).setBlk
        { blk with bi := dst }) dst (·.add (some (offsetIv blk))) := by
  unfold blkMove
  cases d.blk? b with
  | none => rfl
  | some blk => cases hbi : blk.bi <;> cases dst <;> rfl

theorem biSet_eq (d : D) (x : Nat) (addr : Option Nat) (size : Nat) : biSet d x addr size =
    match d.bi? x with
    | none => d
    | some bi =>
      optUpdSec ((optUpdSec d bi.sec (·.discard (addrIvBI bi))).setBI
        { bi with addr := addr, size := size }) bi.sec
        (·.add (addrIvBI { bi with addr := addr, size := size })) := by
  unfold biSet
  cases hb : d.bi? x with
  | none => rfl
  | some bi =>
    cases hs : bi.sec with
    | none => simp only [optUpdSec, hb, hs]
    | some s => simp only [optUpdSec, lzUpdSec_bi?, hb, hs]

theorem biMove_eq (d : D) (x : Nat) (dst : Option Nat) (readd : Bool) : biMove d x dst readd =
    match d.bi? x with
    | none => d
    | some bi =>
      if bi.sec == dst && !readd then d else
      optUpdSec ((optUpdSec d bi.sec (·.discard (addrIvBI bi))).setBI
        { bi with sec := dst }) dst (·.add (addrIvBI bi)) := by
  unfold biMove
  cases hb : d.bi? x with
  | none => rfl
  | some bi =>
    cases hs : bi.sec with
    | none => cases dst <;> simp only [optUpdSec, hb, hs]
    | some s => cases dst <;> simp only [optUpdSec, lzUpdSec_bi?, hb, hs]

theorem blk_edit_inv {d : D} (h : DInv d) {blk blk' : Blk} (hm : blk ∈ d.blks)
    (hid : blk.id = blk'.id) :
    DInv (optUpdBI ((optUpdBI d blk.bi (·.discard (some (offsetIv blk)))).setBlk blk') blk'.bi
      (·.add (some (offsetIv blk')))) := by
  have h1 := dinvG_discardBI ((dinv_iff_G d).1 h) blk.bi (offsetIv blk)
  have h2 := dinvG_setBlk h1 blk'
  have h3 := dinvG_addBI h2 blk'.bi (offsetIv blk')
  rw [dinv_iff_G]
  refine dinvG_congr h3 ?_ ?_
  · intro y iv
    have e : ∀ d0 : D, (optUpdBI ((optUpdBI d0 blk.bi (·.discard (some (offsetIv blk)))).setBlk blk')
        blk'.bi (·.add (some (offsetIv blk')))).blks = (d0.setBlk blk').blks := by
      intro d0; rw [optUpdBI_blks]; simp only [D.setBlk]; rw [optUpdBI_blks]
    rw [blkIvs_congr (e d) y, mem_blkIvs_setBlk h.blk_ids hm hid]
  · intro s iv
    rw [mem_biIvs_optUpdBI h2.bi_ids]
    show _ ↔ iv ∈ biIvs (optUpdBI d blk.bi _) s
    rw [mem_biIvs_optUpdBI h.bi_ids]

theorem blkSet_inv (d : D) (b o z : Nat) (h : DInv d) : DInv (blkSet d b o z) := by
  rw [blkSet_eq]
  cases hb : d.blk? b with
  | none => exact h
  | some blk =>
    have hblk := kfind_some Blk.id hb
    exact blk_edit_inv h (blk' := { blk with offset := o, size := z }) hblk.1 rfl

theorem blkMove_inv (d : D) (b : Nat) (dst : Option Nat) (readd : Bool) (h : DInv d) :
    DInv (blkMove d b dst readd) := by
  rw [blkMove_eq]
  cases hb : d.blk? b with
  | none => exact h
  | some blk =>
    have hblk := kfind_some Blk.id hb
    simp only
    split
    · exact h
    · exact blk_edit_inv h (blk' := { blk with bi := dst }) hblk.1 rfl

theorem bi_edit_inv {d : D} (h : DInv d) {bi bi' : BI} (hm : bi ∈ d.bis)
    (hid : bi.id = bi'.id) (hlz : bi'.lz = bi.lz) :
    DInv (optUpdSec ((optUpdSec d bi.sec (·.discard (addrIvBI bi))).setBI bi') bi'.sec
      (·.add (addrIvBI bi'))) := by
  have h1 := dinvG_discardSec ((dinv_iff_G d).1 h) bi.sec (addrIvBI bi)
  have h2 := dinvG_setBI h1 (b := bi') (b0 := bi) (by rw [optUpdSec_bis]; exact hm) hid hlz
  have h3 := dinvG_addSec h2 bi'.sec (addrIvBI bi')
  rw [dinv_iff_G]
  refine dinvG_congr h3 ?_ ?_
  · intro y iv
    have e : (optUpdSec ((optUpdSec d bi.sec (·.discard (addrIvBI bi))).setBI bi') bi'.sec
        (·.add (addrIvBI bi'))).blks = d.blks := by
      rw [optUpdSec_blks]; simp only [D.setBI]; rw [optUpdSec_blks]
    rw [blkIvs_congr e y]
  · intro s iv
    have e : (optUpdSec ((optUpdSec d bi.sec (·.discard (addrIvBI bi))).setBI bi') bi'.sec
        (·.add (addrIvBI bi'))).bis = (d.setBI bi').bis := by
      rw [optUpdSec_bis]; simp only [D.setBI]; rw [optUpdSec_bis]
    rw [biIvs_congr e s, mem_biIvs_setBI h.bi_ids hm hid]

theorem biSet_inv (d : D) (x : Nat) (addr : Option Nat) (size : Nat) (h : DInv d) :
    DInv (biSet d x addr size) := by
  rw [biSet_eq]
  cases hb : d.bi? x with
  | none => exact h
  | some bi =>
    have hbi := kfind_some BI.id hb
    exact bi_edit_inv h (bi' := { bi with addr := addr, size := size }) hbi.1 rfl rfl

theorem biMove_inv (d : D) (x : Nat) (dst : Option Nat) (readd : Bool) (h : DInv d) :
    DInv (biMove d x dst readd) := by
  rw [biMove_eq]
  cases hb : d.bi? x with
  | none => exact h
  | some bi =>
    have hbi := kfind_some BI.id hb
    simp only
    split
    · exact h
    · exact bi_edit_inv h (bi' := { bi with sec := dst }) hbi.1 rfl rfl

theorem applyEdit_inv (d : D) (e : Edit) (h : DInv d) : DInv (applyEdit d e) := by
  cases e with
  | blkSet b o z => exact blkSet_inv d b o z h
  | blkMove b dst r => exact blkMove_inv d b dst r h
  | biSet x a z => exact biSet_inv d x a z h
  | biMove x dst r => exact biMove_inv d x dst r h


/-! ### the structure without the lazy state -/

/-- lookups do not change the structure (everything except the lazy state) -/
def strip (d : D) : List Blk × List (Nat × Option Nat × Nat × Option Nat) × List Nat :=
  (d.blks, d.bis.map (fun b => (b.id, b.addr, b.size, b.sec)), d.secs.map (·.id))

abbrev projBI (b : BI) : Nat × Option Nat × Nat × Option Nat := (b.id, b.addr, b.size, b.sec)

theorem strip_eq_iff {d d' : D} : strip d = strip d' ↔
    d.blks = d'.blks ∧ d.bis.map projBI = d'.bis.map projBI ∧ d.secs.map (·.id) = d'.secs.map (·.id) := by
  simp [strip, Prod.ext_iff]

theorem strip_setBI_same {d : D} (hn : (d.bis.map (·.id)).Nodup) {bi bi' : BI}
    (hm : bi ∈ d.bis) (hid : bi.id = bi'.id) (hp : projBI bi' = projBI bi) :
    strip (d.setBI bi') = strip d := by
  rw [strip_eq_iff]
  refine ⟨rfl, ?_, rfl⟩
  show (d.bis.map _).map projBI = _
  rw [List.map_map]
  apply List.map_congr_left
  intro y hy
  simp only [Function.comp]
  split
  · rename_i he
    have he' : y.id = bi'.id := by simpa using he
    rw [key_inj BI.id hn hy hm (he'.trans hid.symm)]
    exact hp
  · rfl

theorem strip_setSec_same {d : D} {sc' : Sec} : strip (d.setSec sc') = strip d := by
  rw [strip_eq_iff]
  exact ⟨rfl, rfl, setSec_ids d sc'⟩

theorem strip_lzUpdBI {d : D} (hn : (d.bis.map (·.id)).Nodup) (x : Nat) (f : Lazy → Lazy) :
    strip (lzUpdBI d x f) = strip d := by
  cases hb : d.bi? x with
  | none => simp only [lzUpdBI, hb]
  | some b0 =>
    have hb0 := kfind_some BI.id hb
    simp only [lzUpdBI, hb]
    exact strip_setBI_same (bi' := { b0 with lz := f b0.lz }) hn hb0.1 rfl rfl

theorem strip_lzUpdSec (d : D) (x : Nat) (f : Lazy → Lazy) : strip (lzUpdSec d x f) = strip d := by
  cases hb : d.sec? x with
  | none => simp only [lzUpdSec, hb]
  | some b0 =>
    simp only [lzUpdSec, hb]
    exact strip_setSec_same

theorem blks_of_strip {d d' : D} (h : strip d = strip d') : d.blks = d'.blks := (strip_eq_iff.1 h).1

theorem bi?_of_strip {d d' : D} (h : strip d = strip d') (x : Nat) :
    (d.bi? x).map projBI = (d'.bi? x).map projBI := by
  have := (strip_eq_iff.1 h).2.1
  have e : ∀ d0 : D, (d0.bi? x).map projBI = (d0.bis.map projBI).find? (fun t => t.1 == x) := by
    intro d0; rw [List.find?_map]; rfl
  rw [e, e, this]

theorem bisOf_of_strip {d d' : D} (h : strip d = strip d') (s : Nat) :
    (d.bisOf s).map projBI = (d'.bisOf s).map projBI := by
  have := (strip_eq_iff.1 h).2.1
  have e : ∀ d0 : D, (d0.bisOf s).map projBI = (d0.bis.map projBI).filter (fun t => t.2.2.2 == some s) := by
    intro d0; rw [List.filter_map]; rfl
  rw [e, e, this]

theorem sec?_of_strip {d d' : D} (h : strip d = strip d') (s : Nat) :
    (d.sec? s).isSome = (d'.sec? s).isSome := by
  have := (strip_eq_iff.1 h).2.2
  have e : ∀ d0 : D, (d0.sec? s).isSome = ((d0.secs.map (·.id)).find? (fun t => t == s)).isSome := by
    intro d0; rw [List.find?_map, Option.isSome_map]; rfl
  rw [e, e, this]

theorem blocksOf_of_strip {d d' : D} (h : strip d = strip d') (x : Nat) :
    d.blocksOf x = d'.blocksOf x := by
  simp only [D.blocksOf, blks_of_strip h]

/-! ### forcing an index keeps the invariant and the structure -/

theorem lzUpdBI_inv {d : D} (h : DInv d) (x : Nat) (f : Lazy → Lazy)
    (hf : ∀ l, LazyOKp l (· ∈ blkIvs d x) → LazyOKp (f l) (· ∈ blkIvs d x)) :
    DInv (lzUpdBI d x f) := by
  have h1 := dinvG_lzUpdBI ((dinv_iff_G d).1 h) x f (fun x iv => iv ∈ blkIvs d x) hf
    (fun _ _ _ => Iff.rfl)
  rw [dinv_iff_G]
  refine dinvG_congr h1 ?_ ?_
  · intro y iv; rw [blkIvs_congr (lzUpdBI_blks d x f) y]
  · intro s iv; rw [mem_biIvs_lzUpdBI h.bi_ids]

theorem lzUpdSec_inv {d : D} (h : DInv d) (x : Nat) (f : Lazy → Lazy)
    (hf : ∀ l, LazyOKp l (· ∈ biIvs d x) → LazyOKp (f l) (· ∈ biIvs d x)) :
    DInv (lzUpdSec d x f) := by
  have h1 := dinvG_lzUpdSec ((dinv_iff_G d).1 h) x f (fun x iv => iv ∈ biIvs d x) hf
    (fun _ _ _ => Iff.rfl)
  rw [dinv_iff_G]
  refine dinvG_congr h1 ?_ ?_
  · intro y iv; rw [blkIvs_congr (lzUpdSec_blks d x f) y]
  · intro s iv; rw [biIvs_congr (lzUpdSec_bis d x f) s]

theorem getBI_fst (d : D) (x : Nat) : (getBI d x).1 =
    lzUpdBI d x (fun l => (l.get (blkIvs d x) (d.blocksOf x).length).1) := by
  unfold getBI
  cases hb : d.bi? x with
  | none => simp only [lzUpdBI, hb]
  | some bi => simp only [lzUpdBI, hb]

theorem getSec_fst (d : D) (s : Nat) : (getSec d s).1 =
    lzUpdSec d s (fun l => (l.get (biIvs d s) (d.bisOf s).length).1) := by
  unfold getSec
  cases hb : d.sec? s with
  | none => simp only [lzUpdSec, hb]
  | some bi => simp only [lzUpdSec, hb]

theorem getBI_inv {d : D} (h : DInv d) (x : Nat) : DInv (getBI d x).1 := by
  rw [getBI_fst]
  apply lzUpdBI_inv h
  intro l hl
  exact (lazy_get_spec l _ _ _ hl (fun _ => Iff.rfl)).2.2.1

theorem getSec_inv {d : D} (h : DInv d) (s : Nat) : DInv (getSec d s).1 := by
  rw [getSec_fst]
  apply lzUpdSec_inv h
  intro l hl
  exact (lazy_get_spec l _ _ _ hl (fun _ => Iff.rfl)).2.2.1

theorem getBI_strip {d : D} (h : DInv d) (x : Nat) : strip (getBI d x).1 = strip d := by
  rw [getBI_fst]; exact strip_lzUpdBI h.bi_ids _ _

theorem getSec_strip (d : D) (s : Nat) : strip (getSec d s).1 = strip d := by
  rw [getSec_fst]; exact strip_lzUpdSec _ _ _

theorem getBI_none {d : D} {x : Nat} (hb : d.bi? x = none) : (getBI d x).2 = [] := by
  simp only [getBI, hb]

theorem getSec_none {d : D} {s : Nat} (hb : d.sec? s = none) : (getSec d s).2 = [] := by
  simp only [getSec, hb]

theorem getBI_tree {d : D} (h : DInv d) {x : Nat} {bi : BI} (hb : d.bi? x = some bi) :
    (getBI d x).2.Nodup ∧ ∀ iv, iv ∈ (getBI d x).2 ↔ iv ∈ blkIvs d x := by
  have hbi := kfind_some BI.id hb
  have hl : LazyOKp bi.lz (· ∈ blkIvs d x) := by rw [← hbi.2]; exact h.bi_ok bi hbi.1
  have := lazy_get_spec bi.lz _ (blkIvs d x) (d.blocksOf x).length hl (fun _ => Iff.rfl)
  simp only [getBI, hb]
  exact ⟨this.1, this.2.1⟩

theorem getSec_tree {d : D} (h : DInv d) {s : Nat} {sc : Sec} (hb : d.sec? s = some sc) :
    (getSec d s).2.Nodup ∧ ∀ iv, iv ∈ (getSec d s).2 ↔ iv ∈ biIvs d s := by
  have hbi := kfind_some Sec.id hb
  have hl : LazyOKp sc.lz (· ∈ biIvs d s) := by rw [← hbi.2]; exact h.sec_ok sc hbi.1
  have := lazy_get_spec sc.lz _ (biIvs d s) (d.bisOf s).length hl (fun _ => Iff.rfl)
  simp only [getSec, hb]
  exact ⟨this.1, this.2.1⟩


/-! ### `nodesOn` / `nodesAt` -/

/-- the `overlap` condition on a stored interval -/
def Ovl (r : Rng) (adj : Int) (iv : Iv) : Prop :=
  r.start + adj < r.stop + adj ∧ iv.lo < r.stop + adj ∧ iv.hi > r.start + adj

/-- the `on` filter applied to the recomputed interval -/
def KeepOn (r : Rng) (ni : Iv) : Prop := ni.hi - ni.lo - 1 ≠ 0 ∧ r.start < ni.hi - 1

theorem mem_overlap {t : Tree} {b e : Int} {iv : Iv} :
    iv ∈ overlap t b e ↔ iv ∈ t ∧ b < e ∧ iv.lo < e ∧ iv.hi > b := by
  unfold overlap
  split
  · rename_i h; simp; intro _ h'; omega
  · rename_i h
    simp only [List.mem_filter, decide_eq_true_eq]
    constructor
    · rintro ⟨a, b, c⟩; exact ⟨a, by omega, b, c⟩
    · rintro ⟨a, _, b, c⟩; exact ⟨a, b, c⟩

theorem overlap_sublist (t : Tree) (b e : Int) : (overlap t b e).Sublist t := by
  unfold overlap; split
  · exact List.nil_sublist _
  · exact List.filter_sublist

theorem mem_nodesOn {t : Tree} {r : Rng} {adj : Int} {g : Nat → Option Iv} {b : Nat} :
    b ∈ nodesOn t r adj g ↔
      ∃ iv ∈ t, Ovl r adj iv ∧ iv.data = b ∧ ∃ ni, g iv.data = some ni ∧ KeepOn r ni := by
  unfold nodesOn
  simp only [List.mem_filterMap, mem_overlap, Ovl, KeepOn]
  constructor
  · rintro ⟨iv, ⟨h1, h2⟩, h3⟩
    refine ⟨iv, h1, h2, ?_⟩
    cases hg : g iv.data with
    | none => simp [hg] at h3
    | some ni =>
      simp only [hg] at h3
      split at h3
      · cases h3
      · split at h3
        · cases h3
        · rename_i k1 k2
          refine ⟨Option.some.inj h3, ni, rfl, ?_, by omega⟩
          simpa using k1
  · rintro ⟨iv, h1, h2, h3, ni, h4, h5, h6⟩
    refine ⟨iv, ⟨h1, h2⟩, ?_⟩
    simp only [h4]
    rw [if_neg (by simpa using h5), if_neg (by omega), h3]

theorem mem_nodesAt {t : Tree} {r : Rng} {adj : Int} {g : Nat → Option Iv} {b : Nat} :
    b ∈ nodesAt t r adj g ↔
      ∃ iv ∈ t, Ovl r adj iv ∧ iv.data = b ∧ ∃ ni, g iv.data = some ni ∧ r.mem ni.lo = true := by
  unfold nodesAt
  simp only [List.mem_filterMap, mem_overlap, Ovl]
  constructor
  · rintro ⟨iv, ⟨h1, h2⟩, h3⟩
    refine ⟨iv, h1, h2, ?_⟩
    cases hg : g iv.data with
    | none => simp [hg] at h3
    | some ni =>
      simp only [hg] at h3
      split at h3
      · rename_i k
        exact ⟨Option.some.inj h3, ni, rfl, k⟩
      · cases h3
  · rintro ⟨iv, h1, h2, h3, ni, h4, h5⟩
    refine ⟨iv, ⟨h1, h2⟩, ?_⟩
    simp only [h4]
    rw [if_pos h5, h3]

theorem filterMap_data_sublist {t : List Iv} (f : Iv → Option Nat)
    (hf : ∀ iv b, f iv = some b → b = iv.data) : (t.filterMap f).Sublist (t.map (·.data)) := by
  induction t with
  | nil => exact List.Sublist.slnil
  | cons a l ih =>
    rw [List.filterMap_cons]
    cases h : f a with
    | none => exact List.Sublist.cons _ ih
    | some b =>
      simp only [List.map_cons]
      rw [hf a b h]
      exact List.Sublist.cons_cons _ ih

theorem nodup_nodesOn {t : Tree} (r : Rng) (adj : Int) (g : Nat → Option Iv)
    (h : (t.map (·.data)).Nodup) : (nodesOn t r adj g).Nodup := by
  unfold nodesOn
  refine List.Nodup.sublist (filterMap_data_sublist _ ?_)
    (List.Nodup.sublist ((overlap_sublist t _ _).map _) h)
  intro iv b hb
  cases hg : g iv.data with
  | none => simp [hg] at hb
  | some ni =>
    simp only [hg] at hb
    split at hb
    · cases hb
    · split at hb
      · cases hb
      · exact (Option.some.inj hb).symm

theorem nodup_nodesAt {t : Tree} (r : Rng) (adj : Int) (g : Nat → Option Iv)
    (h : (t.map (·.data)).Nodup) : (nodesAt t r adj g).Nodup := by
  unfold nodesAt
  refine List.Nodup.sublist (filterMap_data_sublist _ ?_)
    (List.Nodup.sublist ((overlap_sublist t _ _).map _) h)
  intro iv b hb
  cases hg : g iv.data with
  | none => simp [hg] at hb
  | some ni =>
    simp only [hg] at hb
    split at hb
    · exact (Option.some.inj hb).symm
    · cases hb

theorem nodup_map_of_inj_on {α β : Type} {f : α → β} {l : List α}
    (hinj : ∀ a ∈ l, ∀ b ∈ l, f a = f b → a = b) (h : l.Nodup) : (l.map f).Nodup := by
  induction l with
  | nil => exact List.nodup_nil
  | cons a l ih =>
    rw [List.nodup_cons] at h
    rw [List.map_cons, List.nodup_cons]
    refine ⟨?_, ih (fun x hx y hy => hinj x (List.mem_cons_of_mem _ hx) y (List.mem_cons_of_mem _ hy)) h.2⟩
    intro hm
    rcases List.mem_map.1 hm with ⟨b, hb, he⟩
    have := hinj a (List.mem_cons_self) b (List.mem_cons_of_mem _ hb) he.symm
    exact h.1 (this ▸ hb)

/-- the forced block index carries each block id once -/
theorem getBI_data_nodup {d : D} (h : DInv d) {x : Nat} {bi : BI} (hb : d.bi? x = some bi) :
    ((getBI d x).2.map (·.data)).Nodup := by
  have ht := getBI_tree h hb
  refine nodup_map_of_inj_on ?_ ht.1
  intro i1 h1 i2 h2 he
  rcases mem_blkIvs.1 ((ht.2 i1).1 h1) with ⟨b1, hb1, _, rfl⟩
  rcases mem_blkIvs.1 ((ht.2 i2).1 h2) with ⟨b2, hb2, _, rfl⟩
  rw [key_inj Blk.id h.blk_ids hb1 hb2 he]

theorem getSec_data_nodup {d : D} (h : DInv d) {s : Nat} {sc : Sec} (hb : d.sec? s = some sc) :
    ((getSec d s).2.map (·.data)).Nodup := by
  have ht := getSec_tree h hb
  refine nodup_map_of_inj_on ?_ ht.1
  intro i1 h1 i2 h2 he
  rcases mem_biIvs.1 ((ht.2 i1).1 h1) with ⟨b1, hb1, _, e1⟩
  rcases mem_biIvs.1 ((ht.2 i2).1 h2) with ⟨b2, hb2, _, e2⟩
  have : b1 = b2 := key_inj BI.id h.bi_ids hb1 hb2
    ((addrIvBI_data e1).symm.trans (he.trans (addrIvBI_data e2)))
  subst this
  exact Option.some.inj (e1.symm.trans e2)


/-! ### byte-interval scope lookups -/

theorem biBlocksOnOffset_eq (d : D) (x : Nat) (r : Rng) : biBlocksOnOffset d x r =
    ((getBI d x).1, nodesOn (getBI d x).2 r 0 (blkOffsetIv (getBI d x).1)) := rfl
theorem biBlocksAtOffset_eq (d : D) (x : Nat) (r : Rng) : biBlocksAtOffset d x r =
    ((getBI d x).1, nodesAt (getBI d x).2 r 0 (blkOffsetIv (getBI d x).1)) := rfl
theorem biBlocksOn_eq (d : D) (x : Nat) (r : Rng) : biBlocksOn d x r =
    match (d.bi? x).bind (·.addr) with
    | none => (d, [])
    | some a => ((getBI d x).1, nodesOn (getBI d x).2 r (-(a : Int)) (blkAddrIv (getBI d x).1)) := by
  unfold biBlocksOn; cases (d.bi? x).bind (·.addr) <;> rfl
theorem biBlocksAt_eq (d : D) (x : Nat) (r : Rng) : biBlocksAt d x r =
    match (d.bi? x).bind (·.addr) with
    | none => (d, [])
    | some a => ((getBI d x).1, nodesAt (getBI d x).2 r (-(a : Int)) (blkAddrIv (getBI d x).1)) := by
  unfold biBlocksAt; cases (d.bi? x).bind (·.addr) <;> rfl

theorem mem_scanBlocksOnOffset {d : D} {x : Nat} {r : Rng} {b : Nat} :
    b ∈ scanBlocksOnOffset d x r ↔ ∃ blk ∈ d.blks, blk.bi = some x ∧ blk.id = b ∧ blk.size ≠ 0 ∧
      r.start < r.stop ∧ (blk.offset : Int) < r.stop ∧ (blk.offset : Int) + blk.size > r.start := by
  simp only [scanBlocksOnOffset, D.blocksOf, List.mem_map, List.mem_filter, Bool.and_eq_true,
    bne_iff_ne, decide_eq_true_eq, beq_iff_eq]
  constructor
  · rintro ⟨a, ⟨⟨h1, h2⟩, h3, h4⟩, h5⟩; exact ⟨a, h1, h2, h5, h3, h4⟩
  · rintro ⟨a, h1, h2, h5, h3, h4⟩; exact ⟨a, ⟨⟨h1, h2⟩, h3, h4⟩, h5⟩

theorem mem_scanBlocksAtOffset {d : D} {x : Nat} {r : Rng} {b : Nat} :
    b ∈ scanBlocksAtOffset d x r ↔ ∃ blk ∈ d.blks, blk.bi = some x ∧ blk.id = b ∧
      r.mem blk.offset = true := by
  simp only [scanBlocksAtOffset, D.blocksOf, List.mem_map, List.mem_filter, beq_iff_eq]
  constructor
  · rintro ⟨a, ⟨⟨h1, h2⟩, h3⟩, h5⟩; exact ⟨a, h1, h2, h5, h3⟩
  · rintro ⟨a, h1, h2, h5, h3⟩; exact ⟨a, ⟨⟨h1, h2⟩, h3⟩, h5⟩

theorem mem_scanBlocksOn {d : D} {x : Nat} {r : Rng} {b : Nat} :
    b ∈ scanBlocksOn d x r ↔ ∃ a, (d.bi? x).bind (·.addr) = some a ∧
      ∃ blk ∈ d.blks, blk.bi = some x ∧ blk.id = b ∧ blk.size ≠ 0 ∧
      r.start < r.stop ∧ (a : Int) + blk.offset < r.stop ∧ (a : Int) + blk.offset + blk.size > r.start := by
  unfold scanBlocksOn
  cases (d.bi? x).bind (·.addr) with
  | none => simp
  | some a =>
    simp only [D.blocksOf, List.mem_map, List.mem_filter, Bool.and_eq_true,
      bne_iff_ne, decide_eq_true_eq, beq_iff_eq, Option.some.injEq, exists_eq_left']
    constructor
    · rintro ⟨a, ⟨⟨h1, h2⟩, h3, h4⟩, h5⟩; exact ⟨a, h1, h2, h5, h3, h4⟩
    · rintro ⟨a, h1, h2, h5, h3, h4⟩; exact ⟨a, ⟨⟨h1, h2⟩, h3, h4⟩, h5⟩

theorem mem_scanBlocksAt {d : D} {x : Nat} {r : Rng} {b : Nat} :
    b ∈ scanBlocksAt d x r ↔ ∃ a, (d.bi? x).bind (·.addr) = some a ∧
      ∃ blk ∈ d.blks, blk.bi = some x ∧ blk.id = b ∧ r.mem ((a : Int) + blk.offset) = true := by
  unfold scanBlocksAt
  cases (d.bi? x).bind (·.addr) with
  | none => simp
  | some a =>
    simp only [D.blocksOf, List.mem_map, List.mem_filter, beq_iff_eq, Option.some.injEq,
      exists_eq_left']
    constructor
    · rintro ⟨a, ⟨⟨h1, h2⟩, h3⟩, h5⟩; exact ⟨a, h1, h2, h5, h3⟩
    · rintro ⟨a, h1, h2, h5, h3⟩; exact ⟨a, ⟨⟨h1, h2⟩, h3⟩, h5⟩

theorem nodesOn_nil (r : Rng) (adj : Int) (g : Nat → Option Iv) : nodesOn [] r adj g = [] := by
  simp [nodesOn, overlap]
theorem nodesAt_nil (r : Rng) (adj : Int) (g : Nat → Option Iv) : nodesAt [] r adj g = [] := by
  simp [nodesAt, overlap]

theorem getBI_blks (d : D) (x : Nat) : (getBI d x).1.blks = d.blks := by
  rw [getBI_fst, lzUpdBI_blks]
theorem getSec_bis (d : D) (x : Nat) : (getSec d x).1.bis = d.bis := by
  rw [getSec_fst, lzUpdSec_bis]

theorem blkOffsetIv_get {d d' : D} (hn : (d.blks.map (·.id)).Nodup) (hb : d'.blks = d.blks)
    {blk : Blk} (hm : blk ∈ d.blks) : blkOffsetIv d' blk.id = some (offsetIv blk) := by
  unfold blkOffsetIv D.blk?
  rw [hb, (kfind_some_iff Blk.id hn).2 ⟨hm, rfl⟩]; rfl

theorem blkAddrIv_get {d d' : D} (hn : (d.blks.map (·.id)).Nodup) (hb : d'.blks = d.blks)
    {blk : Blk} (hm : blk ∈ d.blks) {x : Nat} (hbx : blk.bi = some x) {a : Nat}
    (ha : (d'.bi? x).bind (·.addr) = some a) :
    blkAddrIv d' blk.id =
      some ⟨(a : Int) + blk.offset, (a : Int) + blk.offset + blk.size + 1, blk.id⟩ := by
  unfold blkAddrIv D.blk?
  rw [hb, (kfind_some_iff Blk.id hn).2 ⟨hm, rfl⟩]
  simp only [hbx, Option.bind_some]
  cases hb' : d'.bi? x with
  | none => simp [hb'] at ha
  | some bi' =>
    simp only [hb', Option.bind_some] at ha
    simp [ha]

theorem bind_addr_of_strip {d d' : D} (h : strip d = strip d') (x : Nat) :
    (d.bi? x).bind (·.addr) = (d'.bi? x).bind (·.addr) := by
  have := bi?_of_strip h x
  cases h1 : d.bi? x <;> cases h2 : d'.bi? x <;> simp_all [projBI]

theorem mem_biBlocksOnOffset {d : D} (h : DInv d) (x : Nat) (r : Rng) (b : Nat) :
    b ∈ (biBlocksOnOffset d x r).2 ↔ (d.bi? x).isSome ∧ b ∈ scanBlocksOnOffset d x r := by
  rw [biBlocksOnOffset_eq]
  cases hb : d.bi? x with
  | none => simp [getBI_none hb, nodesOn_nil]
  | some bi =>
    have ht := getBI_tree h hb
    simp only [Option.isSome_some, true_and]
    rw [mem_nodesOn, mem_scanBlocksOnOffset]
    constructor
    · rintro ⟨iv, hiv, hov, hd, ni, hg, hk⟩
      rcases mem_blkIvs.1 ((ht.2 iv).1 hiv) with ⟨blk, hm, hbx, rfl⟩
      rw [offsetIv_data, blkOffsetIv_get h.blk_ids (getBI_blks d x) hm] at hg
      cases hg
      refine ⟨blk, hm, hbx, hd, ?_⟩
      simp only [Ovl, KeepOn, offsetIv] at hov hk
      omega
    · rintro ⟨blk, hm, hbx, hd, hc⟩
      refine ⟨offsetIv blk, (ht.2 _).2 (mem_blkIvs.2 ⟨blk, hm, hbx, rfl⟩), ?_, hd, offsetIv blk,
        blkOffsetIv_get h.blk_ids (getBI_blks d x) hm, ?_⟩
      · simp only [Ovl, offsetIv]; omega
      · simp only [KeepOn, offsetIv]; omega

theorem Rng.mem_bounds {r : Rng} {x : Int} (h : r.mem x = true) : r.start ≤ x ∧ x < r.stop := by
  unfold Rng.mem at h
  simp only [Bool.and_eq_true, decide_eq_true_eq] at h
  exact h.1

theorem mem_biBlocksAtOffset {d : D} (h : DInv d) (x : Nat) (r : Rng) (b : Nat) :
    b ∈ (biBlocksAtOffset d x r).2 ↔ (d.bi? x).isSome ∧ b ∈ scanBlocksAtOffset d x r := by
  rw [biBlocksAtOffset_eq]
  cases hb : d.bi? x with
  | none => simp [getBI_none hb, nodesAt_nil]
  | some bi =>
    have ht := getBI_tree h hb
    simp only [Option.isSome_some, true_and]
    rw [mem_nodesAt, mem_scanBlocksAtOffset]
    constructor
    · rintro ⟨iv, hiv, hov, hd, ni, hg, hk⟩
      rcases mem_blkIvs.1 ((ht.2 iv).1 hiv) with ⟨blk, hm, hbx, rfl⟩
      rw [offsetIv_data, blkOffsetIv_get h.blk_ids (getBI_blks d x) hm] at hg
      cases hg
      exact ⟨blk, hm, hbx, hd, hk⟩
    · rintro ⟨blk, hm, hbx, hd, hc⟩
      refine ⟨offsetIv blk, (ht.2 _).2 (mem_blkIvs.2 ⟨blk, hm, hbx, rfl⟩), ?_, hd, offsetIv blk,
        blkOffsetIv_get h.blk_ids (getBI_blks d x) hm, hc⟩
      have := Rng.mem_bounds hc
      simp only [Ovl, offsetIv]; omega

theorem mem_biBlocksOn {d : D} (h : DInv d) (x : Nat) (r : Rng) (b : Nat) :
    b ∈ (biBlocksOn d x r).2 ↔ b ∈ scanBlocksOn d x r := by
  rw [biBlocksOn_eq, mem_scanBlocksOn]
  cases ha : (d.bi? x).bind (·.addr) with
  | none => simp
  | some a =>
    cases hb : d.bi? x with
    | none => simp [hb] at ha
    | some bi =>
      have ht := getBI_tree h hb
      have ha' : ((getBI d x).1.bi? x).bind (·.addr) = some a := by
        rw [bind_addr_of_strip (getBI_strip h x) x]; exact ha
      simp only [Option.some.injEq, exists_eq_left']
      rw [mem_nodesOn]
      constructor
      · rintro ⟨iv, hiv, hov, hd, ni, hg, hk⟩
        rcases mem_blkIvs.1 ((ht.2 iv).1 hiv) with ⟨blk, hm, hbx, rfl⟩
        rw [offsetIv_data, blkAddrIv_get h.blk_ids (getBI_blks d x) hm hbx ha'] at hg
        cases hg
        refine ⟨blk, hm, hbx, hd, ?_⟩
        simp only [Ovl, KeepOn, offsetIv] at hov hk
        omega
      · rintro ⟨blk, hm, hbx, hd, hc⟩
        refine ⟨offsetIv blk, (ht.2 _).2 (mem_blkIvs.2 ⟨blk, hm, hbx, rfl⟩), ?_, hd, _,
          blkAddrIv_get h.blk_ids (getBI_blks d x) hm hbx ha', ?_⟩
        · simp only [Ovl, offsetIv]; omega
        · simp only [KeepOn]; omega

theorem mem_biBlocksAt {d : D} (h : DInv d) (x : Nat) (r : Rng) (b : Nat) :
    b ∈ (biBlocksAt d x r).2 ↔ b ∈ scanBlocksAt d x r := by
  rw [biBlocksAt_eq, mem_scanBlocksAt]
  cases ha : (d.bi? x).bind (·.addr) with
  | none => simp
  | some a =>
    cases hb : d.bi? x with
    | none => simp [hb] at ha
    | some bi =>
      have ht := getBI_tree h hb
      have ha' : ((getBI d x).1.bi? x).bind (·.addr) = some a := by
        rw [bind_addr_of_strip (getBI_strip h x) x]; exact ha
      simp only [Option.some.injEq, exists_eq_left']
      rw [mem_nodesAt]
      constructor
      · rintro ⟨iv, hiv, hov, hd, ni, hg, hk⟩
        rcases mem_blkIvs.1 ((ht.2 iv).1 hiv) with ⟨blk, hm, hbx, rfl⟩
        rw [offsetIv_data, blkAddrIv_get h.blk_ids (getBI_blks d x) hm hbx ha'] at hg
        cases hg
        exact ⟨blk, hm, hbx, hd, hk⟩
      · rintro ⟨blk, hm, hbx, hd, hc⟩
        refine ⟨offsetIv blk, (ht.2 _).2 (mem_blkIvs.2 ⟨blk, hm, hbx, rfl⟩), ?_, hd, _,
          blkAddrIv_get h.blk_ids (getBI_blks d x) hm hbx ha', hc⟩
        have := Rng.mem_bounds hc
        simp only [Ovl, offsetIv]; omega

theorem nodup_biBlocksOnOffset {d : D} (h : DInv d) (x : Nat) (r : Rng) :
    (biBlocksOnOffset d x r).2.Nodup := by
  rw [biBlocksOnOffset_eq]
  cases hb : d.bi? x with
  | none => simp [getBI_none hb, nodesOn_nil]
  | some bi => exact nodup_nodesOn _ _ _ (getBI_data_nodup h hb)

theorem nodup_biBlocksAtOffset {d : D} (h : DInv d) (x : Nat) (r : Rng) :
    (biBlocksAtOffset d x r).2.Nodup := by
  rw [biBlocksAtOffset_eq]
  cases hb : d.bi? x with
  | none => simp [getBI_none hb, nodesAt_nil]
  | some bi => exact nodup_nodesAt _ _ _ (getBI_data_nodup h hb)

theorem nodup_biBlocksOn {d : D} (h : DInv d) (x : Nat) (r : Rng) :
    (biBlocksOn d x r).2.Nodup := by
  rw [biBlocksOn_eq]
  cases ha : (d.bi? x).bind (·.addr) with
  | none => simp
  | some a =>
    cases hb : d.bi? x with
    | none => simp [hb] at ha
    | some bi => exact nodup_nodesOn _ _ _ (getBI_data_nodup h hb)

theorem nodup_biBlocksAt {d : D} (h : DInv d) (x : Nat) (r : Rng) :
    (biBlocksAt d x r).2.Nodup := by
  rw [biBlocksAt_eq]
  cases ha : (d.bi? x).bind (·.addr) with
  | none => simp
  | some a =>
    cases hb : d.bi? x with
    | none => simp [hb] at ha
    | some bi => exact nodup_nodesAt _ _ _ (getBI_data_nodup h hb)

/-- state after a byte-interval scope lookup -/
theorem biBlocksOnOffset_fst (d : D) (x : Nat) (r : Rng) : (biBlocksOnOffset d x r).1 = (getBI d x).1 := rfl
theorem biBlocksAtOffset_fst (d : D) (x : Nat) (r : Rng) : (biBlocksAtOffset d x r).1 = (getBI d x).1 := rfl
theorem biBlocksOn_fst (d : D) (x : Nat) (r : Rng) :
    (biBlocksOn d x r).1 = d ∨ (biBlocksOn d x r).1 = (getBI d x).1 := by
  rw [biBlocksOn_eq]; cases (d.bi? x).bind (·.addr) <;> simp
theorem biBlocksAt_fst (d : D) (x : Nat) (r : Rng) :
    (biBlocksAt d x r).1 = d ∨ (biBlocksAt d x r).1 = (getBI d x).1 := by
  rw [biBlocksAt_eq]; cases (d.bi? x).bind (·.addr) <;> simp

theorem biBlocksOn_inv {d : D} (h : DInv d) (x : Nat) (r : Rng) :
    DInv (biBlocksOn d x r).1 ∧ strip (biBlocksOn d x r).1 = strip d := by
  rcases biBlocksOn_fst d x r with e | e <;> rw [e]
  · exact ⟨h, rfl⟩
  · exact ⟨getBI_inv h x, getBI_strip h x⟩

theorem biBlocksAt_inv {d : D} (h : DInv d) (x : Nat) (r : Rng) :
    DInv (biBlocksAt d x r).1 ∧ strip (biBlocksAt d x r).1 = strip d := by
  rcases biBlocksAt_fst d x r with e | e <;> rw [e]
  · exact ⟨h, rfl⟩
  · exact ⟨getBI_inv h x, getBI_strip h x⟩

/-! ### section scope: intervals -/

theorem secBisOn_eq (d : D) (s : Nat) (r : Rng) : secBisOn d s r =
    ((getSec d s).1, nodesOn (getSec d s).2 r 0 (biAddrIv (getSec d s).1)) := rfl
theorem secBisAt_eq (d : D) (s : Nat) (r : Rng) : secBisAt d s r =
    ((getSec d s).1, nodesAt (getSec d s).2 r 0 (biAddrIv (getSec d s).1)) := rfl

theorem mem_scanBisOn {d : D} {s : Nat} {r : Rng} {x : Nat} :
    x ∈ scanBisOn d s r ↔ ∃ y ∈ d.bis, y.sec = some s ∧ y.id = x ∧ ∃ a, y.addr = some a ∧
      y.size ≠ 0 ∧ r.start < r.stop ∧ (a : Int) < r.stop ∧ (a : Int) + y.size > r.start := by
  simp only [scanBisOn, D.bisOf, List.mem_map, List.mem_filter, beq_iff_eq]
  constructor
  · rintro ⟨y, ⟨⟨h1, h2⟩, h3⟩, h4⟩
    refine ⟨y, h1, h2, h4, ?_⟩
    cases ha : y.addr with
    | none => simp [ha] at h3
    | some a =>
      simp only [ha, Bool.and_eq_true, bne_iff_ne, decide_eq_true_eq] at h3
      exact ⟨a, rfl, h3.1, h3.2⟩
  · rintro ⟨y, h1, h2, h4, a, ha, h3⟩
    refine ⟨y, ⟨⟨h1, h2⟩, ?_⟩, h4⟩
    simp only [ha, Bool.and_eq_true, bne_iff_ne, decide_eq_true_eq]
    exact ⟨h3.1, h3.2⟩

theorem mem_scanBisAt {d : D} {s : Nat} {r : Rng} {x : Nat} :
    x ∈ scanBisAt d s r ↔ ∃ y ∈ d.bis, y.sec = some s ∧ y.id = x ∧ ∃ a : Nat, y.addr = some a ∧
      r.mem a = true := by
  simp only [scanBisAt, D.bisOf, List.mem_map, List.mem_filter, beq_iff_eq]
  constructor
  · rintro ⟨y, ⟨⟨h1, h2⟩, h3⟩, h4⟩
    refine ⟨y, h1, h2, h4, ?_⟩
    cases ha : y.addr with
    | none => simp [ha] at h3
    | some a =>
      simp only [ha] at h3
      exact ⟨a, rfl, h3⟩
  · rintro ⟨y, h1, h2, h4, a, ha, h3⟩
    refine ⟨y, ⟨⟨h1, h2⟩, ?_⟩, h4⟩
    simp only [ha]
    exact h3

theorem biAddrIv_get {d d' : D} (hn : (d.bis.map (·.id)).Nodup) (hb : d'.bis = d.bis)
    {y : BI} (hm : y ∈ d.bis) : biAddrIv d' y.id = addrIvBI y := by
  unfold biAddrIv D.bi?
  rw [hb, (kfind_some_iff BI.id hn).2 ⟨hm, rfl⟩]; rfl

theorem addrIvBI_some {y : BI} {iv : Iv} :
    addrIvBI y = some iv ↔ ∃ a : Nat, y.addr = some a ∧ iv = ⟨a, (a : Int) + y.size + 1, y.id⟩ := by
  unfold addrIvBI
  cases y.addr with
  | none => simp
  | some a => simp [eq_comm]

theorem mem_secBisOn {d : D} (h : DInv d) (s : Nat) (r : Rng) (x : Nat) :
    x ∈ (secBisOn d s r).2 ↔ (d.sec? s).isSome ∧ x ∈ scanBisOn d s r := by
  rw [secBisOn_eq]
  cases hb : d.sec? s with
  | none => simp [getSec_none hb, nodesOn_nil]
  | some sc =>
    have ht := getSec_tree h hb
    simp only [Option.isSome_some, true_and]
    rw [mem_nodesOn, mem_scanBisOn]
    constructor
    · rintro ⟨iv, hiv, hov, hd, ni, hg, hk⟩
      rcases mem_biIvs.1 ((ht.2 iv).1 hiv) with ⟨y, hm, hys, he⟩
      rw [addrIvBI_data he, biAddrIv_get h.bi_ids (getSec_bis d s) hm, he] at hg
      cases hg
      rcases addrIvBI_some.1 he with ⟨a, ha, rfl⟩
      refine ⟨y, hm, hys, hd, a, ha, ?_⟩
      simp only [Ovl, KeepOn] at hov hk
      omega
    · rintro ⟨y, hm, hys, hd, a, ha, hc⟩
      have he : addrIvBI y = some ⟨a, (a : Int) + y.size + 1, y.id⟩ := addrIvBI_some.2 ⟨a, ha, rfl⟩
      refine ⟨_, (ht.2 _).2 (mem_biIvs.2 ⟨y, hm, hys, he⟩), ?_, hd, _,
        (biAddrIv_get h.bi_ids (getSec_bis d s) hm).trans he, ?_⟩
      · simp only [Ovl]; omega
      · simp only [KeepOn]; omega

theorem mem_secBisAt {d : D} (h : DInv d) (s : Nat) (r : Rng) (x : Nat) :
    x ∈ (secBisAt d s r).2 ↔ (d.sec? s).isSome ∧ x ∈ scanBisAt d s r := by
  rw [secBisAt_eq]
  cases hb : d.sec? s with
  | none => simp [getSec_none hb, nodesAt_nil]
  | some sc =>
    have ht := getSec_tree h hb
    simp only [Option.isSome_some, true_and]
    rw [mem_nodesAt, mem_scanBisAt]
    constructor
    · rintro ⟨iv, hiv, hov, hd, ni, hg, hk⟩
      rcases mem_biIvs.1 ((ht.2 iv).1 hiv) with ⟨y, hm, hys, he⟩
      rw [addrIvBI_data he, biAddrIv_get h.bi_ids (getSec_bis d s) hm, he] at hg
      cases hg
      rcases addrIvBI_some.1 he with ⟨a, ha, rfl⟩
      exact ⟨y, hm, hys, hd, a, ha, hk⟩
    · rintro ⟨y, hm, hys, hd, a, ha, hc⟩
      have he : addrIvBI y = some ⟨a, (a : Int) + y.size + 1, y.id⟩ := addrIvBI_some.2 ⟨a, ha, rfl⟩
      refine ⟨_, (ht.2 _).2 (mem_biIvs.2 ⟨y, hm, hys, he⟩), ?_, hd, _,
        (biAddrIv_get h.bi_ids (getSec_bis d s) hm).trans he, hc⟩
      have := Rng.mem_bounds hc
      simp only [Ovl]; omega

theorem nodup_secBisOn {d : D} (h : DInv d) (s : Nat) (r : Rng) : (secBisOn d s r).2.Nodup := by
  rw [secBisOn_eq]
  cases hb : d.sec? s with
  | none => simp [getSec_none hb, nodesOn_nil]
  | some sc => exact nodup_nodesOn _ _ _ (getSec_data_nodup h hb)

theorem nodup_secBisAt {d : D} (h : DInv d) (s : Nat) (r : Rng) : (secBisAt d s r).2.Nodup := by
  rw [secBisAt_eq]
  cases hb : d.sec? s with
  | none => simp [getSec_none hb, nodesAt_nil]
  | some sc => exact nodup_nodesAt _ _ _ (getSec_data_nodup h hb)


/-! ### `chain` -/

theorem chain_nil (f : D → Nat → D × List Nat) (d : D) : chain f d [] = (d, []) := rfl

theorem chain_acc (f : D → Nat → D × List Nat) : ∀ (xs : List Nat) (d : D) (acc : List Nat),
    xs.foldl (fun acc x => let (d', r) := f acc.1 x; (d', acc.2 ++ r)) (d, acc) =
      ((chain f d xs).1, acc ++ (chain f d xs).2) := by
  intro xs
  induction xs with
  | nil => intro d acc; simp [chain]
  | cons x xs ih =>
    intro d acc
    unfold chain
    rw [List.foldl_cons, List.foldl_cons]
    show List.foldl _ ((f d x).1, acc ++ (f d x).2) xs = (( List.foldl _ ((f d x).1, [] ++ (f d x).2) xs).1,
      acc ++ (List.foldl _ ((f d x).1, [] ++ (f d x).2) xs).2)
    rw [ih, ih]
    simp [List.append_assoc]

theorem chain_cons (f : D → Nat → D × List Nat) (d : D) (x : Nat) (xs : List Nat) :
    chain f d (x :: xs) = ((chain f (f d x).1 xs).1, (f d x).2 ++ (chain f (f d x).1 xs).2) := by
  show List.foldl _ ((f d x).1, [] ++ (f d x).2) xs = _
  rw [chain_acc]; simp

theorem chain_spec {I : D → Prop} {f : D → Nat → D × List Nat} {g : Nat → List Nat}
    (hI : ∀ d x, I d → I (f d x).1) (hg : ∀ d x b, I d → (b ∈ (f d x).2 ↔ b ∈ g x)) :
    ∀ (xs : List Nat) (d : D), I d →
      I (chain f d xs).1 ∧ ∀ b, b ∈ (chain f d xs).2 ↔ ∃ x ∈ xs, b ∈ g x := by
  intro xs
  induction xs with
  | nil => intro d hd; simp [chain_nil, hd]
  | cons x xs ih =>
    intro d hd
    rw [chain_cons]
    have := ih (f d x).1 (hI d x hd)
    refine ⟨this.1, ?_⟩
    intro b
    simp only [List.mem_append, this.2, hg d x b hd, List.mem_cons, exists_eq_or_imp]

theorem chain_nodup {I : D → Prop} {f : D → Nat → D × List Nat} {g : Nat → List Nat}
    (hI : ∀ d x, I d → I (f d x).1) (hg : ∀ d x b, I d → (b ∈ (f d x).2 ↔ b ∈ g x))
    (hnd : ∀ d x, I d → (f d x).2.Nodup)
    (hdis : ∀ x y b, x ≠ y → b ∈ g x → b ∉ g y) :
    ∀ (xs : List Nat) (d : D), I d → xs.Nodup → (chain f d xs).2.Nodup := by
  intro xs
  induction xs with
  | nil => intro d hd _; simp [chain_nil]
  | cons x xs ih =>
    intro d hd hx
    rw [chain_cons]
    rw [List.nodup_cons] at hx
    rw [List.nodup_append]
    refine ⟨hnd d x hd, ih _ (hI d x hd) hx.2, ?_⟩
    intro a ha b hb hab
    subst hab
    rcases ((chain_spec hI hg xs _ (hI d x hd)).2 a).1 hb with ⟨y, hy, hay⟩
    have hne : x ≠ y := fun e => hx.1 (e ▸ hy)
    exact hdis x y a hne ((hg d x a hd).1 ha) hay

/-! ### scans depend only on the structure -/

theorem scanBlocksOnOffset_of_strip {d d' : D} (h : strip d = strip d') (x : Nat) (r : Rng) :
    scanBlocksOnOffset d x r = scanBlocksOnOffset d' x r := by
  unfold scanBlocksOnOffset; rw [blocksOf_of_strip h]
theorem scanBlocksAtOffset_of_strip {d d' : D} (h : strip d = strip d') (x : Nat) (r : Rng) :
    scanBlocksAtOffset d x r = scanBlocksAtOffset d' x r := by
  unfold scanBlocksAtOffset; rw [blocksOf_of_strip h]
theorem scanBlocksOn_of_strip {d d' : D} (h : strip d = strip d') (x : Nat) (r : Rng) :
    scanBlocksOn d x r = scanBlocksOn d' x r := by
  unfold scanBlocksOn; rw [blocksOf_of_strip h, bind_addr_of_strip h]
theorem scanBlocksAt_of_strip {d d' : D} (h : strip d = strip d') (x : Nat) (r : Rng) :
    scanBlocksAt d x r = scanBlocksAt d' x r := by
  unfold scanBlocksAt; rw [blocksOf_of_strip h, bind_addr_of_strip h]

theorem scanBisOn_of_strip {d d' : D} (h : strip d = strip d') (s : Nat) (r : Rng) :
    scanBisOn d s r = scanBisOn d' s r := by
  have e : ∀ d0 : D, scanBisOn d0 s r = (((d0.bisOf s).map projBI).filter fun t => match t.2.1 with
      | none => false
      | some a => t.2.2.1 != 0 && decide (r.start < r.stop ∧ (a : Int) < r.stop ∧ (a : Int) + t.2.2.1 > r.start)).map (·.1) := by
    intro d0; rw [List.filter_map, List.map_map]; rfl
  rw [e, e, bisOf_of_strip h]

theorem scanBisAt_of_strip {d d' : D} (h : strip d = strip d') (s : Nat) (r : Rng) :
    scanBisAt d s r = scanBisAt d' s r := by
  have e : ∀ d0 : D, scanBisAt d0 s r = (((d0.bisOf s).map projBI).filter fun t => match t.2.1 with
      | none => false
      | some a => r.mem a).map (·.1) := by
    intro d0; rw [List.filter_map, List.map_map]; rfl
  rw [e, e, bisOf_of_strip h]

theorem biIvs_of_strip {d d' : D} (h : strip d = strip d') (s : Nat) : biIvs d s = biIvs d' s := by
  have e : ∀ d0 : D, biIvs d0 s = ((d0.bisOf s).map projBI).filterMap
      (fun t => t.2.1.map fun a => (⟨a, (a : Int) + t.2.2.1 + 1, t.1⟩ : Iv)) := by
    intro d0; rw [List.filterMap_map]; rfl
  rw [e, e, bisOf_of_strip h]

theorem bisOf_length_of_strip {d d' : D} (h : strip d = strip d') (s : Nat) :
    (d.bisOf s).length = (d'.bisOf s).length := by
  have := congrArg List.length (bisOf_of_strip h s)
  simpa using this

/-! ### section scope: blocks -/

theorem secBlocksOn_eq (d : D) (s : Nat) (r : Rng) : secBlocksOn d s r =
    chain (fun d x => biBlocksOn d x r) (secBisOn d s r).1 (secBisOn d s r).2 := rfl
theorem secBlocksAt_eq (d : D) (s : Nat) (r : Rng) : secBlocksAt d s r =
    chain (fun d x => biBlocksAt d x r) (secBisOn d s r).1 (secBisOn d s r).2 := rfl

theorem secBisOn_inv {d : D} (h : DInv d) (s : Nat) (r : Rng) :
    DInv (secBisOn d s r).1 ∧ strip (secBisOn d s r).1 = strip d :=
  ⟨getSec_inv h s, getSec_strip d s⟩
theorem secBisAt_inv {d : D} (h : DInv d) (s : Nat) (r : Rng) :
    DInv (secBisAt d s r).1 ∧ strip (secBisAt d s r).1 = strip d :=
  ⟨getSec_inv h s, getSec_strip d s⟩

theorem secBlocksOn_spec {d : D} (h : DInv d) (s : Nat) (r : Rng) :
    (DInv (secBlocksOn d s r).1 ∧ strip (secBlocksOn d s r).1 = strip d) ∧
    ∀ b, b ∈ (secBlocksOn d s r).2 ↔
      (d.sec? s).isSome ∧ ∃ x, x ∈ scanBisOn d s r ∧ b ∈ scanBlocksOn d x r := by
  rw [secBlocksOn_eq]
  have h0 := secBisOn_inv h s r
  have := chain_spec (I := fun d1 => DInv d1 ∧ strip d1 = strip d)
    (f := fun d x => biBlocksOn d x r) (g := fun x => scanBlocksOn d x r)
    (fun d1 x hd => ⟨(biBlocksOn_inv hd.1 x r).1, (biBlocksOn_inv hd.1 x r).2.trans hd.2⟩)
    (fun d1 x b hd => by rw [mem_biBlocksOn hd.1, scanBlocksOn_of_strip hd.2])
    (secBisOn d s r).2 (secBisOn d s r).1 h0
  refine ⟨this.1, ?_⟩
  intro b
  rw [this.2]
  constructor
  · rintro ⟨x, hx, hb⟩
    have := (mem_secBisOn h s r x).1 hx
    exact ⟨this.1, x, this.2, hb⟩
  · rintro ⟨hs, x, hx, hb⟩
    exact ⟨x, (mem_secBisOn h s r x).2 ⟨hs, hx⟩, hb⟩

theorem secBlocksAt_spec {d : D} (h : DInv d) (s : Nat) (r : Rng) :
    (DInv (secBlocksAt d s r).1 ∧ strip (secBlocksAt d s r).1 = strip d) ∧
    ∀ b, b ∈ (secBlocksAt d s r).2 ↔
      (d.sec? s).isSome ∧ ∃ x, x ∈ scanBisOn d s r ∧ b ∈ scanBlocksAt d x r := by
  rw [secBlocksAt_eq]
  have h0 := secBisOn_inv h s r
  have := chain_spec (I := fun d1 => DInv d1 ∧ strip d1 = strip d)
    (f := fun d x => biBlocksAt d x r) (g := fun x => scanBlocksAt d x r)
    (fun d1 x hd => ⟨(biBlocksAt_inv hd.1 x r).1, (biBlocksAt_inv hd.1 x r).2.trans hd.2⟩)
    (fun d1 x b hd => by rw [mem_biBlocksAt hd.1, scanBlocksAt_of_strip hd.2])
    (secBisOn d s r).2 (secBisOn d s r).1 h0
  refine ⟨this.1, ?_⟩
  intro b
  rw [this.2]
  constructor
  · rintro ⟨x, hx, hb⟩
    have := (mem_secBisOn h s r x).1 hx
    exact ⟨this.1, x, this.2, hb⟩
  · rintro ⟨hs, x, hx, hb⟩
    exact ⟨x, (mem_secBisOn h s r x).2 ⟨hs, hx⟩, hb⟩

/-- a block belongs to one interval -/
theorem scanBlocksOn_disjoint {d : D} (h : DInv d) (r : Rng) (x y b : Nat) (hne : x ≠ y)
    (hx : b ∈ scanBlocksOn d x r) : b ∉ scanBlocksOn d y r := by
  intro hy
  rcases mem_scanBlocksOn.1 hx with ⟨_, _, b1, hm1, hb1, hi1, _⟩
  rcases mem_scanBlocksOn.1 hy with ⟨_, _, b2, hm2, hb2, hi2, _⟩
  have : b1 = b2 := key_inj Blk.id h.blk_ids hm1 hm2 (hi1.trans hi2.symm)
  subst this
  exact hne (Option.some.inj (hb1.symm.trans hb2))

theorem scanBlocksAt_disjoint {d : D} (h : DInv d) (r : Rng) (x y b : Nat) (hne : x ≠ y)
    (hx : b ∈ scanBlocksAt d x r) : b ∉ scanBlocksAt d y r := by
  intro hy
  rcases mem_scanBlocksAt.1 hx with ⟨_, _, b1, hm1, hb1, hi1, _⟩
  rcases mem_scanBlocksAt.1 hy with ⟨_, _, b2, hm2, hb2, hi2, _⟩
  have : b1 = b2 := key_inj Blk.id h.blk_ids hm1 hm2 (hi1.trans hi2.symm)
  subst this
  exact hne (Option.some.inj (hb1.symm.trans hb2))

theorem nodup_secBlocksOn {d : D} (h : DInv d) (s : Nat) (r : Rng) : (secBlocksOn d s r).2.Nodup := by
  rw [secBlocksOn_eq]
  exact chain_nodup (I := fun d1 => DInv d1 ∧ strip d1 = strip d)
    (f := fun d x => biBlocksOn d x r) (g := fun x => scanBlocksOn d x r)
    (fun d1 x hd => ⟨(biBlocksOn_inv hd.1 x r).1, (biBlocksOn_inv hd.1 x r).2.trans hd.2⟩)
    (fun d1 x b hd => by rw [mem_biBlocksOn hd.1, scanBlocksOn_of_strip hd.2])
    (fun d1 x hd => nodup_biBlocksOn hd.1 x r)
    (scanBlocksOn_disjoint h r)
    (secBisOn d s r).2 (secBisOn d s r).1 (secBisOn_inv h s r) (nodup_secBisOn h s r)

theorem nodup_secBlocksAt {d : D} (h : DInv d) (s : Nat) (r : Rng) : (secBlocksAt d s r).2.Nodup := by
  rw [secBlocksAt_eq]
  exact chain_nodup (I := fun d1 => DInv d1 ∧ strip d1 = strip d)
    (f := fun d x => biBlocksAt d x r) (g := fun x => scanBlocksAt d x r)
    (fun d1 x hd => ⟨(biBlocksAt_inv hd.1 x r).1, (biBlocksAt_inv hd.1 x r).2.trans hd.2⟩)
    (fun d1 x b hd => by rw [mem_biBlocksAt hd.1, scanBlocksAt_of_strip hd.2])
    (fun d1 x hd => nodup_biBlocksAt hd.1 x r)
    (scanBlocksAt_disjoint h r)
    (secBisOn d s r).2 (secBisOn d s r).1 (secBisOn_inv h s r) (nodup_secBisOn h s r)

/-! ### extent -/

theorem foldMin_spec (l : List Iv) : ∀ m0 : Int,
    (l.foldl (fun m iv => if iv.lo < m then iv.lo else m) m0 = m0 ∨
      ∃ iv ∈ l, iv.lo = l.foldl (fun m iv => if iv.lo < m then iv.lo else m) m0) ∧
    l.foldl (fun m iv => if iv.lo < m then iv.lo else m) m0 ≤ m0 ∧
    ∀ iv ∈ l, l.foldl (fun m iv => if iv.lo < m then iv.lo else m) m0 ≤ iv.lo := by
  induction l with
  | nil => intro m0; simp
  | cons a l ih =>
    intro m0
    rw [List.foldl_cons]
    have := ih (if a.lo < m0 then a.lo else m0)
    by_cases hc : a.lo < m0
    · simp only [if_pos hc] at this ⊢
      rcases this with ⟨h1, h2, h3⟩
      refine ⟨?_, by omega, ?_⟩
      · rcases h1 with h1 | ⟨iv, hiv, he⟩
        · right; exact ⟨a, List.mem_cons_self, h1.symm⟩
        · right; exact ⟨iv, List.mem_cons_of_mem _ hiv, he⟩
      · intro iv hiv
        rcases List.mem_cons.1 hiv with rfl | hiv
        · exact h2
        · exact h3 iv hiv
    · simp only [if_neg hc] at this ⊢
      rcases this with ⟨h1, h2, h3⟩
      refine ⟨?_, h2, ?_⟩
      · rcases h1 with h1 | ⟨iv, hiv, he⟩
        · left; exact h1
        · right; exact ⟨iv, List.mem_cons_of_mem _ hiv, he⟩
      · intro iv hiv
        rcases List.mem_cons.1 hiv with rfl | hiv
        · omega
        · exact h3 iv hiv

theorem foldMax_spec (l : List Iv) : ∀ m0 : Int,
    (l.foldl (fun m iv => if iv.hi > m then iv.hi else m) m0 = m0 ∨
      ∃ iv ∈ l, iv.hi = l.foldl (fun m iv => if iv.hi > m then iv.hi else m) m0) ∧
    m0 ≤ l.foldl (fun m iv => if iv.hi > m then iv.hi else m) m0 ∧
    ∀ iv ∈ l, iv.hi ≤ l.foldl (fun m iv => if iv.hi > m then iv.hi else m) m0 := by
  induction l with
  | nil => intro m0; simp
  | cons a l ih =>
    intro m0
    rw [List.foldl_cons]
    have := ih (if a.hi > m0 then a.hi else m0)
    by_cases hc : a.hi > m0
    · simp only [if_pos hc] at this ⊢
      rcases this with ⟨h1, h2, h3⟩
      refine ⟨?_, by omega, ?_⟩
      · rcases h1 with h1 | ⟨iv, hiv, he⟩
        · right; exact ⟨a, List.mem_cons_self, h1.symm⟩
        · right; exact ⟨iv, List.mem_cons_of_mem _ hiv, he⟩
      · intro iv hiv
        rcases List.mem_cons.1 hiv with rfl | hiv
        · exact h2
        · exact h3 iv hiv
    · simp only [if_neg hc] at this ⊢
      rcases this with ⟨h1, h2, h3⟩
      refine ⟨?_, h2, ?_⟩
      · rcases h1 with h1 | ⟨iv, hiv, he⟩
        · left; exact h1
        · right; exact ⟨iv, List.mem_cons_of_mem _ hiv, he⟩
      · intro iv hiv
        rcases List.mem_cons.1 hiv with rfl | hiv
        · omega
        · exact h3 iv hiv

theorem treeBegin_spec {t : Tree} (hne : t ≠ []) :
    (∃ iv ∈ t, iv.lo = treeBegin t) ∧ ∀ iv ∈ t, treeBegin t ≤ iv.lo := by
  cases t with
  | nil => exact absurd rfl hne
  | cons a l =>
    have := foldMin_spec (a :: l) a.lo
    refine ⟨?_, this.2.2⟩
    rcases this.1 with h | h
    · exact ⟨a, List.mem_cons_self, h.symm⟩
    · exact h

theorem treeEnd_spec {t : Tree} (hne : t ≠ []) :
    (∃ iv ∈ t, iv.hi = treeEnd t) ∧ ∀ iv ∈ t, iv.hi ≤ treeEnd t := by
  cases t with
  | nil => exact absurd rfl hne
  | cons a l =>
    have := foldMax_spec (a :: l) a.hi
    refine ⟨?_, this.2.2⟩
    rcases this.1 with h | h
    · exact ⟨a, List.mem_cons_self, h.symm⟩
    · exact h

theorem treeBegin_congr {t t' : Tree} (hne : t ≠ []) (h : ∀ iv, iv ∈ t ↔ iv ∈ t') :
    treeBegin t = treeBegin t' := by
  have hne' : t' ≠ [] := by
    intro e; subst e
    cases t with
    | nil => exact hne rfl
    | cons a l => exact absurd ((h a).1 List.mem_cons_self) (by simp)
  rcases treeBegin_spec hne with ⟨⟨i1, m1, e1⟩, l1⟩
  rcases treeBegin_spec hne' with ⟨⟨i2, m2, e2⟩, l2⟩
  have a := l1 i2 ((h i2).2 m2)
  have b := l2 i1 ((h i1).1 m1)
  omega

theorem treeEnd_congr {t t' : Tree} (hne : t ≠ []) (h : ∀ iv, iv ∈ t ↔ iv ∈ t') :
    treeEnd t = treeEnd t' := by
  have hne' : t' ≠ [] := by
    intro e; subst e
    cases t with
    | nil => exact hne rfl
    | cons a l => exact absurd ((h a).1 List.mem_cons_self) (by simp)
  rcases treeEnd_spec hne with ⟨⟨i1, m1, e1⟩, l1⟩
  rcases treeEnd_spec hne' with ⟨⟨i2, m2, e2⟩, l2⟩
  have a := l1 i2 ((h i2).2 m2)
  have b := l2 i1 ((h i1).1 m1)
  omega

/-- the value `secExtent` computes from the forced tree -/
def extentOf (t : Tree) (n : Nat) : Option (Int × Int) :=
  if 0 < t.length ∧ t.length = n then some (treeBegin t, treeEnd t - treeBegin t - 1) else none

theorem secExtent_eq (d : D) (s : Nat) :
    secExtent d s = ((getSec d s).1, extentOf (getSec d s).2 (d.bisOf s).length) := by
  have e : ((getSec d s).1.bisOf s) = d.bisOf s := by simp only [D.bisOf, getSec_bis]
  rw [← e]
  unfold secExtent extentOf
  show (if (0 < (getSec d s).2.length ∧ (getSec d s).2.length = ((getSec d s).1.bisOf s).length)
    then _ else _) = _
  by_cases hc : 0 < (getSec d s).2.length ∧ (getSec d s).2.length = ((getSec d s).1.bisOf s).length
  · rw [if_pos hc, if_pos hc]; rfl
  · rw [if_neg hc, if_neg hc]; rfl

theorem length_eq_of_nodup_mem {t t' : List Iv} (h1 : t.Nodup) (h2 : t'.Nodup)
    (h : ∀ iv, iv ∈ t ↔ iv ∈ t') : t.length = t'.length :=
  ((List.perm_ext_iff_of_nodup h1 h2).2 h).length_eq

theorem extentOf_congr {t t' : Tree} (n : Nat) (h1 : t.Nodup) (h2 : t'.Nodup)
    (h : ∀ iv, iv ∈ t ↔ iv ∈ t') : extentOf t n = extentOf t' n := by
  unfold extentOf
  have hl := length_eq_of_nodup_mem h1 h2 h
  rw [hl]
  split
  · rename_i hc
    have hne : t ≠ [] := by intro e; subst e; simp at hl; omega
    rw [treeBegin_congr hne h, treeEnd_congr hne h]
  · rfl

theorem filterMap_key_sublist {α : Type} (key : α → Nat) {l : List α} (f : α → Option Nat)
    (hf : ∀ a b, f a = some b → b = key a) : (l.filterMap f).Sublist (l.map key) := by
  induction l with
  | nil => exact List.Sublist.slnil
  | cons a l ih =>
    rw [List.filterMap_cons]
    cases h : f a with
    | none => exact List.Sublist.cons _ ih
    | some b =>
      simp only [List.map_cons]
      rw [hf a b h]
      exact List.Sublist.cons_cons _ ih

theorem nodup_biIvs {d : D} (h : DInv d) (s : Nat) : (biIvs d s).Nodup := by
  have h1 : ((biIvs d s).map (·.data)).Nodup := by
    unfold biIvs
    rw [List.map_filterMap]
    refine List.Nodup.sublist (filterMap_key_sublist BI.id _ ?_)
      (List.Nodup.sublist (List.filter_sublist.map _) h.bi_ids)
    intro a b hb
    cases he : addrIvBI a with
    | none => simp [he] at hb
    | some iv =>
      simp only [he, Option.map_some, Option.some.injEq] at hb
      rw [← hb]; exact addrIvBI_data he
  exact List.Pairwise.of_map (·.data) (fun a b hab e => hab (congrArg _ e)) h1

theorem length_filterMap_addr (l : List BI) :
    (l.filterMap addrIvBI).length = l.length ↔ ∀ x ∈ l, x.addr.isSome = true := by
  induction l with
  | nil => simp
  | cons a l ih =>
    rw [List.filterMap_cons]
    cases ha : a.addr with
    | none =>
      have : addrIvBI a = none := by simp [addrIvBI, ha]
      simp only [this, List.length_cons, List.mem_cons, forall_eq_or_imp, ha, Option.isSome_none]
      have := List.length_filterMap_le addrIvBI l
      constructor
      · intro h; omega
      · intro h; exact absurd h.1 (by simp)
    | some v =>
      have : addrIvBI a = some ⟨v, (v : Int) + a.size + 1, a.id⟩ := by simp [addrIvBI, ha]
      simp only [this, List.length_cons, List.mem_cons, forall_eq_or_imp, ha, Option.isSome_some,
        true_and]
      rw [← ih]; omega

theorem secExtent_none {d : D} {s : Nat} (hb : d.sec? s = none) : (secExtent d s).2 = none := by
  rw [secExtent_eq]
  simp [getSec_none hb, extentOf]

theorem mem_bisOf {d : D} {s : Nat} {x : BI} : x ∈ d.bisOf s ↔ x ∈ d.bis ∧ x.sec = some s := by
  simp [D.bisOf, List.mem_filter]

theorem sec?_isSome_of_mem {d : D} {s : Nat} (hs : ∃ sc ∈ d.secs, sc.id = s) :
    (d.sec? s).isSome = true := by
  cases hb : d.sec? s with
  | some _ => rfl
  | none =>
    rcases hs with ⟨sc, hm, he⟩
    exact absurd he ((kfind_none Sec.id).1 hb sc hm)

theorem secExtent_spec {d : D} (h : DInv d) {s : Nat} (hs : (d.sec? s).isSome = true) :
    ((d.bisOf s ≠ [] ∧ ∀ x ∈ d.bisOf s, x.addr.isSome = true) →
      ∃ lo hi : Nat, (∃ x ∈ d.bisOf s, x.addr = some lo) ∧
        (∀ x ∈ d.bisOf s, ∀ a, x.addr = some a → lo ≤ a) ∧
        (∃ x ∈ d.bisOf s, ∃ a, x.addr = some a ∧ a + x.size = hi) ∧
        (∀ x ∈ d.bisOf s, ∀ a, x.addr = some a → a + x.size ≤ hi) ∧
        (secExtent d s).2 = some ((lo : Int), (hi : Int) - lo)) ∧
    (¬(d.bisOf s ≠ [] ∧ ∀ x ∈ d.bisOf s, x.addr.isSome = true) → (secExtent d s).2 = none) := by
  cases hb : d.sec? s with
  | none => simp [hb] at hs
  | some sc =>
    have ht := getSec_tree h hb
    have hlen : (getSec d s).2.length = (biIvs d s).length :=
      length_eq_of_nodup_mem ht.1 (nodup_biIvs h s) ht.2
    rw [secExtent_eq]
    show (_ → ∃ lo hi : Nat, _ ∧ _ ∧ _ ∧ _ ∧ extentOf _ _ = _) ∧ (_ → extentOf _ _ = none)
    constructor
    · rintro ⟨hne, hall⟩
      have hl2 := (length_filterMap_addr (d.bisOf s)).2 hall
      have hpos : 0 < (d.bisOf s).length := List.length_pos_iff.2 hne
      have htne : (getSec d s).2 ≠ [] := by
        intro e; rw [e] at hlen; simp at hlen
        have : (biIvs d s).length = (d.bisOf s).length := hl2
        omega
      have hcond : 0 < (getSec d s).2.length ∧ (getSec d s).2.length = (d.bisOf s).length := by
        have : (biIvs d s).length = (d.bisOf s).length := hl2
        omega
      rcases treeBegin_spec htne with ⟨⟨i1, m1, e1⟩, l1⟩
      rcases treeEnd_spec htne with ⟨⟨i2, m2, e2⟩, l2⟩
      rcases mem_biIvs.1 ((ht.2 i1).1 m1) with ⟨y1, hy1, hs1, he1⟩
      rcases mem_biIvs.1 ((ht.2 i2).1 m2) with ⟨y2, hy2, hs2, he2⟩
      rcases addrIvBI_some.1 he1 with ⟨a1, ha1, rfl⟩
      rcases addrIvBI_some.1 he2 with ⟨a2, ha2, rfl⟩
      have hmem : ∀ x ∈ d.bisOf s, ∀ a, x.addr = some a →
          (⟨a, (a : Int) + x.size + 1, x.id⟩ : Iv) ∈ (getSec d s).2 := by
        intro x hx a ha
        have := mem_bisOf.1 hx
        exact (ht.2 _).2 (mem_biIvs.2 ⟨x, this.1, this.2, addrIvBI_some.2 ⟨a, ha, rfl⟩⟩)
      refine ⟨a1, a2 + y2.size, ⟨y1, mem_bisOf.2 ⟨hy1, hs1⟩, ha1⟩, ?_,
        ⟨y2, mem_bisOf.2 ⟨hy2, hs2⟩, a2, ha2, rfl⟩, ?_, ?_⟩
      · intro x hx a ha
        have := l1 _ (hmem x hx a ha)
        simp only at this e1; omega
      · intro x hx a ha
        have := l2 _ (hmem x hx a ha)
        simp only at this e2; omega
      · unfold extentOf
        rw [if_pos hcond]
        simp only at e1 e2
        rw [← e1, ← e2]
        simp only [Option.some.injEq, Prod.mk.injEq, true_and]
        omega
    · intro hn
      unfold extentOf
      rw [if_neg]
      rintro ⟨hpos, hl⟩
      apply hn
      constructor
      · intro e; rw [e] at hl; simp only [List.length_nil] at hl; omega
      · apply (length_filterMap_addr (d.bisOf s)).1
        show (biIvs d s).length = _
        omega

/-! ### queries -/

def sameAnswer : Answer → Answer → Prop
  | .ids a, .ids b => ∀ x, x ∈ a ↔ x ∈ b
  | .extent a, .extent b => a = b
  | _, _ => False

theorem secExtent_fst (d : D) (s : Nat) : (secExtent d s).1 = (getSec d s).1 := by
  rw [secExtent_eq]

theorem runQuery_inv_strip {d : D} (h : DInv d) (q : Query) :
    DInv (runQuery d q).1 ∧ strip (runQuery d q).1 = strip d := by
  cases q with
  | bono x r => exact ⟨getBI_inv h x, getBI_strip h x⟩
  | bato x r => exact ⟨getBI_inv h x, getBI_strip h x⟩
  | bon x r => exact biBlocksOn_inv h x r
  | bat x r => exact biBlocksAt_inv h x r
  | sbison s r => exact secBisOn_inv h s r
  | sbisat s r => exact secBisAt_inv h s r
  | sbon s r => exact (secBlocksOn_spec h s r).1
  | sbat s r => exact (secBlocksAt_spec h s r).1
  | ext s =>
    show DInv (secExtent d s).1 ∧ strip (secExtent d s).1 = strip d
    rw [secExtent_fst]; exact ⟨getSec_inv h s, getSec_strip d s⟩

theorem bi?_isSome_of_strip {d d' : D} (h : strip d = strip d') (x : Nat) :
    (d.bi? x).isSome = (d'.bi? x).isSome := by
  have := congrArg Option.isSome (bi?_of_strip h x)
  simpa using this

theorem answer_of_strip {d d' : D} (q : Query) (h : DInv d) (h' : DInv d')
    (hs : strip d = strip d') : sameAnswer (runQuery d q).2 (runQuery d' q).2 := by
  cases q with
  | bono x r =>
    show ∀ b, b ∈ (biBlocksOnOffset d x r).2 ↔ b ∈ (biBlocksOnOffset d' x r).2
    intro b
    rw [mem_biBlocksOnOffset h, mem_biBlocksOnOffset h', bi?_isSome_of_strip hs,
      scanBlocksOnOffset_of_strip hs]
  | bato x r =>
    show ∀ b, b ∈ (biBlocksAtOffset d x r).2 ↔ b ∈ (biBlocksAtOffset d' x r).2
    intro b
    rw [mem_biBlocksAtOffset h, mem_biBlocksAtOffset h', bi?_isSome_of_strip hs,
      scanBlocksAtOffset_of_strip hs]
  | bon x r =>
    show ∀ b, b ∈ (biBlocksOn d x r).2 ↔ b ∈ (biBlocksOn d' x r).2
    intro b
    rw [mem_biBlocksOn h, mem_biBlocksOn h', scanBlocksOn_of_strip hs]
  | bat x r =>
    show ∀ b, b ∈ (biBlocksAt d x r).2 ↔ b ∈ (biBlocksAt d' x r).2
    intro b
    rw [mem_biBlocksAt h, mem_biBlocksAt h', scanBlocksAt_of_strip hs]
  | sbison s r =>
    show ∀ b, b ∈ (secBisOn d s r).2 ↔ b ∈ (secBisOn d' s r).2
    intro b
    rw [mem_secBisOn h, mem_secBisOn h', sec?_of_strip hs, scanBisOn_of_strip hs]
  | sbisat s r =>
    show ∀ b, b ∈ (secBisAt d s r).2 ↔ b ∈ (secBisAt d' s r).2
    intro b
    rw [mem_secBisAt h, mem_secBisAt h', sec?_of_strip hs, scanBisAt_of_strip hs]
  | sbon s r =>
    show ∀ b, b ∈ (secBlocksOn d s r).2 ↔ b ∈ (secBlocksOn d' s r).2
    intro b
    rw [(secBlocksOn_spec h s r).2, (secBlocksOn_spec h' s r).2, sec?_of_strip hs,
      scanBisOn_of_strip hs]
    simp only [scanBlocksOn_of_strip hs]
  | sbat s r =>
    show ∀ b, b ∈ (secBlocksAt d s r).2 ↔ b ∈ (secBlocksAt d' s r).2
    intro b
    rw [(secBlocksAt_spec h s r).2, (secBlocksAt_spec h' s r).2, sec?_of_strip hs,
      scanBisOn_of_strip hs]
    simp only [scanBlocksAt_of_strip hs]
  | ext s =>
    show (secExtent d s).2 = (secExtent d' s).2
    cases hb : d.sec? s with
    | none =>
      have hb' : d'.sec? s = none := by
        have := sec?_of_strip hs s
        rw [hb] at this
        cases hb'' : d'.sec? s with
        | none => rfl
        | some _ => rw [hb''] at this; simp at this
      rw [secExtent_none hb, secExtent_none hb']
    | some sc =>
      cases hb' : d'.sec? s with
      | none =>
        have := sec?_of_strip hs s
        rw [hb, hb'] at this; simp at this
      | some sc' =>
        have ht := getSec_tree h hb
        have ht' := getSec_tree h' hb'
        rw [secExtent_eq, secExtent_eq]
        show extentOf _ _ = extentOf _ _
        rw [bisOf_length_of_strip hs s]
        apply extentOf_congr _ ht.1 ht'.1
        intro iv
        rw [ht.2, ht'.2, biIvs_of_strip hs]

/-! ### the structural effect of an edit is a function of the structure -/

theorem strip_setBlk_congr {d d' : D} (h : strip d = strip d') (b : Blk) :
    strip (d.setBlk b) = strip (d'.setBlk b) := by
  rw [strip_eq_iff] at h ⊢
  refine ⟨?_, h.2.1, h.2.2⟩
  show d.blks.map _ = d'.blks.map _
  rw [h.1]

theorem map_projBI_setBI (d : D) (b : BI) : (d.setBI b).bis.map projBI =
    (d.bis.map projBI).map (fun t => if t.1 == b.id then projBI b else t) := by
  show (d.bis.map _).map projBI = _
  rw [List.map_map, List.map_map]
  apply List.map_congr_left
  intro y _
  simp only [Function.comp]
  split <;> rfl

theorem strip_setBI_congr {d d' : D} (h : strip d = strip d') {b b' : BI}
    (hp : projBI b = projBI b') : strip (d.setBI b) = strip (d'.setBI b') := by
  rw [strip_eq_iff] at h ⊢
  refine ⟨h.1, ?_, h.2.2⟩
  have hid : b.id = b'.id := congrArg Prod.fst hp
  rw [map_projBI_setBI, map_projBI_setBI, h.2.1, hp, hid]

theorem strip_lzUpdBI_congr {d d' : D} (h : strip d = strip d') (x : Nat) (f g : Lazy → Lazy) :
    strip (lzUpdBI d x f) = strip (lzUpdBI d' x g) := by
  have hb := bi?_of_strip h x
  cases h1 : d.bi? x with
  | none =>
    cases h2 : d'.bi? x with
    | none => simp only [lzUpdBI, h1, h2]; exact h
    | some b' => rw [h1, h2] at hb; simp at hb
  | some b =>
    cases h2 : d'.bi? x with
    | none => rw [h1, h2] at hb; simp at hb
    | some b' =>
      rw [h1, h2] at hb
      simp only [lzUpdBI, h1, h2]
      apply strip_setBI_congr h
      have : projBI b = projBI b' := by simpa using hb
      exact this

theorem strip_optUpdBI_congr {d d' : D} (h : strip d = strip d') (o : Option Nat)
    (f g : Lazy → Lazy) : strip (optUpdBI d o f) = strip (optUpdBI d' o g) := by
  cases o with
  | none => exact h
  | some x => exact strip_lzUpdBI_congr h x f g

theorem strip_optUpdSec (d : D) (o : Option Nat) (f : Lazy → Lazy) :
    strip (optUpdSec d o f) = strip d := by
  cases o with
  | none => rfl
  | some x => exact strip_lzUpdSec d x f

theorem blk?_of_strip {d d' : D} (h : strip d = strip d') (b : Nat) : d.blk? b = d'.blk? b := by
  unfold D.blk?; rw [blks_of_strip h]

theorem applyEdit_strip_congr {d d' : D} (e : Edit) (h : strip d = strip d') :
    strip (applyEdit d e) = strip (applyEdit d' e) := by
  cases e with
  | blkSet b o z =>
    show strip (blkSet d b o z) = strip (blkSet d' b o z)
    rw [blkSet_eq, blkSet_eq, blk?_of_strip h]
    cases d'.blk? b with
    | none => exact h
    | some blk =>
      exact strip_optUpdBI_congr (strip_setBlk_congr (strip_optUpdBI_congr h _ _ _) _) _ _ _
  | blkMove b dst r =>
    show strip (blkMove d b dst r) = strip (blkMove d' b dst r)
    rw [blkMove_eq, blkMove_eq, blk?_of_strip h]
    cases d'.blk? b with
    | none => exact h
    | some blk =>
      simp only
      split
      · exact h
      · exact strip_optUpdBI_congr (strip_setBlk_congr (strip_optUpdBI_congr h _ _ _) _) _ _ _
  | biSet x a z =>
    show strip (biSet d x a z) = strip (biSet d' x a z)
    rw [biSet_eq, biSet_eq]
    have hb := bi?_of_strip h x
    cases h1 : d.bi? x with
    | none =>
      cases h2 : d'.bi? x with
      | none => exact h
      | some b' => rw [h1, h2] at hb; simp at hb
    | some b =>
      cases h2 : d'.bi? x with
      | none => rw [h1, h2] at hb; simp at hb
      | some b' =>
        rw [h1, h2] at hb
        have hp : projBI b = projBI b' := by simpa using hb
        simp only [projBI, Prod.mk.injEq] at hp
        simp only
        rw [strip_optUpdSec, strip_optUpdSec]
        apply strip_setBI_congr
        · rw [strip_optUpdSec, strip_optUpdSec]; exact h
        · simp only [projBI, hp.1, hp.2.2.2]
  | biMove x dst r =>
    show strip (biMove d x dst r) = strip (biMove d' x dst r)
    rw [biMove_eq, biMove_eq]
    have hb := bi?_of_strip h x
    cases h1 : d.bi? x with
    | none =>
      cases h2 : d'.bi? x with
      | none => exact h
      | some b' => rw [h1, h2] at hb; simp at hb
    | some b =>
      cases h2 : d'.bi? x with
      | none => rw [h1, h2] at hb; simp at hb
      | some b' =>
        rw [h1, h2] at hb
        have hp : projBI b = projBI b' := by simpa using hb
        simp only [projBI, Prod.mk.injEq] at hp
        simp only
        rw [hp.2.2.2]
        split
        · exact h
        · rw [strip_optUpdSec, strip_optUpdSec]
          apply strip_setBI_congr
          · rw [strip_optUpdSec, strip_optUpdSec]; exact h
          · simp only [projBI, hp.1, hp.2.1, hp.2.2.1]

/-! ### histories -/

theorem exec_nil (d : D) : exec d [] = d := rfl
theorem exec_edit (d : D) (e : Edit) (as : List Act) :
    exec d (.edit e :: as) = exec (applyEdit d e) as := rfl
theorem exec_look (d : D) (q : Query) (as : List Act) :
    exec d (.look q :: as) = exec (runQuery d q).1 as := rfl

/-- running a history = running its edits only, as far as invariant and structure go -/
theorem exec_spec (as : List Act) : ∀ (d d' : D), DInv d → strip d = strip d' →
    DInv (exec d as) ∧ strip (exec d as) = strip ((editsOf as).foldl applyEdit d') := by
  induction as with
  | nil => intro d d' h hs; exact ⟨h, hs⟩
  | cons a as ih =>
    intro d d' h hs
    cases a with
    | edit e =>
      rw [exec_edit]
      show _ ∧ _ = strip (List.foldl applyEdit (applyEdit d' e) (editsOf as))
      exact ih _ _ (applyEdit_inv d e h) (applyEdit_strip_congr e hs)
    | look q =>
      rw [exec_look]
      show _ ∧ _ = strip (List.foldl applyEdit d' (editsOf as))
      have := runQuery_inv_strip h q
      exact ih _ _ this.1 (this.2.trans hs)

/-! ### initial state and the driver's construction lines -/

theorem dinv_init : DInv ({} : D) where
  blk_ids := List.nodup_nil
  bi_ids := List.nodup_nil
  sec_ids := List.nodup_nil
  bi_ok := by intro bi hbi; cases hbi
  sec_ok := by intro sc hsc; cases hsc

theorem lazyOK_empty (cur : List Iv) : LazyOK {} cur := by
  intro t ht; cases ht

theorem nodup_snoc {l : List Nat} {i : Nat} (h : l.Nodup) (hi : i ∉ l) : (l ++ [i]).Nodup := by
  rw [List.nodup_append]
  refine ⟨h, by simp, ?_⟩
  intro a ha b hb
  simp at hb; subst hb
  intro e; subst e; exact hi ha

/-- the driver's `blk` line: a fresh detached block -/
theorem dinv_add_blk {d : D} (h : DInv d) (i : Nat) (k : Bool) (o z : Nat)
    (hi : i ∉ d.blks.map (·.id)) :
    DInv { d with blks := d.blks ++ [⟨i, k, o, z, none⟩] } := by
  refine ⟨?_, h.bi_ids, h.sec_ids, ?_, h.sec_ok⟩
  · show (List.map Blk.id (d.blks ++ [_])).Nodup
    rw [List.map_append]; exact nodup_snoc h.blk_ids hi
  · intro bi hbi
    have e : ({ d with blks := d.blks ++ [⟨i, k, o, z, none⟩] } : D).blocksOf bi.id =
        d.blocksOf bi.id := by
      simp [D.blocksOf, List.filter_append]
    rw [e]; exact h.bi_ok bi hbi

/-- the driver's `bi` line: a fresh detached byte interval -/
theorem dinv_add_bi {d : D} (h : DInv d) (i : Nat) (a : Option Nat) (z : Nat)
    (hi : i ∉ d.bis.map (·.id)) :
    DInv { d with bis := d.bis ++ [{ id := i, addr := a, size := z, sec := none }] } := by
  refine ⟨h.blk_ids, ?_, h.sec_ids, ?_, ?_⟩
  · show (List.map BI.id (d.bis ++ [_])).Nodup
    rw [List.map_append]; exact nodup_snoc h.bi_ids hi
  · intro bi hbi
    rcases List.mem_append.1 hbi with hm | hm
    · exact h.bi_ok bi hm
    · simp at hm; subst hm; exact lazyOK_empty _
  · intro sc hsc
    have e : ({ d with bis := d.bis ++ [{ id := i, addr := a, size := z, sec := none }] } : D).bisOf
        sc.id = d.bisOf sc.id := by
      simp [D.bisOf, List.filter_append]
    rw [e]; exact h.sec_ok sc hsc

/-- the driver's `sec` line: a fresh section -/
theorem dinv_add_sec {d : D} (h : DInv d) (i : Nat) (hi : i ∉ d.secs.map (·.id)) :
    DInv { d with secs := d.secs ++ [{ id := i }] } := by
  refine ⟨h.blk_ids, h.bi_ids, ?_, h.bi_ok, ?_⟩
  · show (List.map Sec.id (d.secs ++ [_])).Nodup
    rw [List.map_append]; exact nodup_snoc h.sec_ids hi
  · intro sc hsc
    rcases List.mem_append.1 hsc with hm | hm
    · exact h.sec_ok sc hm
    · simp at hm; subst hm; exact lazyOK_empty _

end Gtirb.Index
