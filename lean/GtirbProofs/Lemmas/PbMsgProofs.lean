import GtirbProofs.Lemmas.PbMsgLemmas
import GtirbProofs.Lemmas.PbMsgLower
import GtirbProofs.Lemmas.PbMsgExtra
/-! Layer 2 round trip, all message types: `PbMsgLemmas` (combinators), `PbMsgLower`
(CodeBlock ... Section), `PbMsgExtra` (Symbol ... IR, `parseMIR_serMIR`, `fnoTable_ok`). -/
