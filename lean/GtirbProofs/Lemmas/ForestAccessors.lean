import GtirbProofs.Lemmas.ForestDefs
/-! The derived accessors of model C under `ForestInv`: every aggregate iterator
(`secBlocks`, `modBlocks`, `irBlocks`, `irCfgNodes`, ... in ForestDriver.lean) and
the scan `reachable` contain exactly the nodes of the right kind whose chained
back-pointer accessor (`irOf` / `moduleOf`) names the root, and are duplicate-free. -/
namespace Gtirb.Forest

/-! ### generic list lemmas -/

/-- membership in a `flatMap` when both levels are described by a kind predicate and a
partial "owner" function -/
theorem mem_flatMap_up {L : List Nat} {f : Nat → List Nat} {P Q : Nat → Prop} {w u : Nat → Option Nat} {i : Nat}
    (hL : ∀ m, m ∈ L ↔ Q m ∧ u m = some i) (hf : ∀ m x, x ∈ f m ↔ P x ∧ w x = some m)
    (hQ : ∀ x m, P x → w x = some m → Q m) (x : Nat) :
    x ∈ L.flatMap f ↔ P x ∧ (w x).bind u = some i := by
  rw [List.mem_flatMap]
  constructor
  · rintro ⟨m, hm, hx⟩
    rw [hL] at hm
    rw [hf] at hx
    refine ⟨hx.1, ?_⟩
    rw [hx.2]
    exact hm.2
  · rintro ⟨hP, hb⟩
    obtain ⟨m, hw, hu⟩ := Option.bind_eq_some_iff.1 hb
    exact ⟨m, (hL m).2 ⟨hQ x m hP hw, hu⟩, (hf m x).2 ⟨hP, hw⟩⟩

/-- a `flatMap` is duplicate-free when the pieces are and every element determines its piece -/
theorem nodup_flatMap_key {L : List Nat} {f : Nat → List Nat} (w : Nat → Option Nat) (hL : L.Nodup)
    (hf : ∀ m ∈ L, (f m).Nodup) (hw : ∀ m ∈ L, ∀ x ∈ f m, w x = some m) : (L.flatMap f).Nodup := by
  induction L with
  | nil => simp
  | cons a as ih =>
    rw [List.nodup_cons] at hL
    rw [List.flatMap_cons, List.nodup_append]
    refine ⟨hf a List.mem_cons_self,
      ih hL.2 (fun m hm => hf m (List.mem_cons_of_mem _ hm)) (fun m hm => hw m (List.mem_cons_of_mem _ hm)), ?_⟩
    intro x hx y hy hxy
    subst hxy
    obtain ⟨m, hm, hxm⟩ := List.mem_flatMap.1 hy
    have h1 := hw a List.mem_cons_self x hx
    have h2 := hw m (List.mem_cons_of_mem _ hm) x hxm
    rw [h1] at h2
    cases h2
    exact hL.1 hm

theorem nodup_append_of {l1 l2 : List Nat} {P : Nat → Prop} (h1 : l1.Nodup) (h2 : l2.Nodup)
    (hp1 : ∀ x ∈ l1, ¬ P x) (hp2 : ∀ x ∈ l2, P x) : (l1 ++ l2).Nodup := by
  rw [List.nodup_append]
  refine ⟨h1, h2, ?_⟩
  intro x hx y hy hxy
  subst hxy
  exact hp1 x hx (hp2 x hy)

/-! ### the chained accessors by kind -/

theorem irOf_ir {g : G} {x : Nat} (hk : g.kind x = .ir) : irOf g x = some x := by simp [irOf, hk]
theorem irOf_module {g : G} {x : Nat} (hk : g.kind x = .module) : irOf g x = g.par x := by simp [irOf, hk]
theorem irOf_section {g : G} {x : Nat} (hk : g.kind x = .section) : irOf g x = (g.par x).bind g.par := by
  simp [irOf, hk]
theorem irOf_symbol {g : G} {x : Nat} (hk : g.kind x = .symbol) : irOf g x = (g.par x).bind g.par := by
  simp [irOf, hk]
theorem irOf_proxy {g : G} {x : Nat} (hk : g.kind x = .proxy) : irOf g x = (g.par x).bind g.par := by
  simp [irOf, hk]
theorem irOf_interval {g : G} {x : Nat} (hk : g.kind x = .interval) :
    irOf g x = ((g.par x).bind g.par).bind g.par := by simp [irOf, hk]
theorem irOf_block {g : G} {x : Nat} (hk : g.kind x = .code ∨ g.kind x = .data) :
    irOf g x = (((g.par x).bind g.par).bind g.par).bind g.par := by
  rcases hk with hk | hk <;> simp [irOf, hk]

theorem moduleOf_mid {g : G} {x : Nat} (hk : g.kind x = .section ∨ g.kind x = .symbol ∨ g.kind x = .proxy) :
    moduleOf g x = g.par x := by
  rcases hk with hk | hk | hk <;> simp [moduleOf, hk]
theorem moduleOf_interval {g : G} {x : Nat} (hk : g.kind x = .interval) :
    moduleOf g x = (g.par x).bind g.par := by simp [moduleOf, hk]
theorem moduleOf_block {g : G} {x : Nat} (hk : g.kind x = .code ∨ g.kind x = .data) :
    moduleOf g x = ((g.par x).bind g.par).bind g.par := by
  rcases hk with hk | hk <;> simp [moduleOf, hk]

/-- below the module level, `.ir` is `.module.ir` -/
theorem irOf_eq_moduleOf_bind {g : G} {x : Nat} (h1 : g.kind x ≠ .ir) (h2 : g.kind x ≠ .module) :
    irOf g x = (moduleOf g x).bind g.par := by
  unfold irOf moduleOf
  cases hk : g.kind x <;> simp_all

/-! ### kinds along a back-pointer -/

section
variable {g : G} (h : ForestInv g)
include h

theorem ForestInv.kind_par_block {x p : Nat} (hp : g.par x = some p) (hk : g.kind x = .code ∨ g.kind x = .data) :
    g.kind p = .interval := by
  have := h.kind_ok x p hp
  rcases hk with hk | hk <;> (rw [hk] at this; simp [parentKind] at this; exact this.symm)

theorem ForestInv.kind_par_interval {x p : Nat} (hp : g.par x = some p) (hk : g.kind x = .interval) :
    g.kind p = .section := by
  have := h.kind_ok x p hp
  rw [hk] at this; simp [parentKind] at this; exact this.symm

theorem ForestInv.kind_par_mid {x p : Nat} (hp : g.par x = some p)
    (hk : g.kind x = .section ∨ g.kind x = .symbol ∨ g.kind x = .proxy) : g.kind p = .module := by
  have := h.kind_ok x p hp
  rcases hk with hk | hk | hk <;> (rw [hk] at this; simp [parentKind] at this; exact this.symm)

theorem ForestInv.kind_par_module {x p : Nat} (hp : g.par x = some p) (hk : g.kind x = .module) :
    g.kind p = .ir := by
  have := h.kind_ok x p hp
  rw [hk] at this; simp [parentKind] at this; exact this.symm

theorem ForestInv.par_ir {x : Nat} (hk : g.kind x = .ir) : g.par x = none := by
  cases hp : g.par x with
  | none => rfl
  | some p =>
    have := h.kind_ok x p hp
    rw [hk] at this; simp [parentKind] at this

/-! ### the owning collections by kind -/

theorem ForestInv.mem_mods {x i : Nat} : x ∈ g.kids i .mods ↔ g.kind x = .module ∧ g.par x = some i := by
  rw [h.mem_iff]
  cases hk : g.kind x <;> simp [slotOf]

theorem ForestInv.mem_secs {x m : Nat} : x ∈ g.kids m .secs ↔ g.kind x = .section ∧ g.par x = some m := by
  rw [h.mem_iff]
  cases hk : g.kind x <;> simp [slotOf]

theorem ForestInv.mem_syms {x m : Nat} : x ∈ g.kids m .syms ↔ g.kind x = .symbol ∧ g.par x = some m := by
  rw [h.mem_iff]
  cases hk : g.kind x <;> simp [slotOf]

theorem ForestInv.mem_proxies {x m : Nat} : x ∈ g.kids m .proxies ↔ g.kind x = .proxy ∧ g.par x = some m := by
  rw [h.mem_iff]
  cases hk : g.kind x <;> simp [slotOf]

theorem ForestInv.mem_bis {x s : Nat} : x ∈ g.kids s .bis ↔ g.kind x = .interval ∧ g.par x = some s := by
  rw [h.mem_iff]
  cases hk : g.kind x <;> simp [slotOf]

theorem ForestInv.mem_blocks {x b : Nat} :
    x ∈ g.kids b .blocks ↔ (g.kind x = .code ∨ g.kind x = .data) ∧ g.par x = some b := by
  rw [h.mem_iff]
  cases hk : g.kind x <;> simp [slotOf]

end

/-! ### aggregate iterators: membership -/

section
variable {g : G} (h : ForestInv g)
include h

theorem ForestInv.mem_secBlocks {x s : Nat} :
    x ∈ secBlocks g s ↔ (g.kind x = .code ∨ g.kind x = .data) ∧ (g.par x).bind g.par = some s :=
  mem_flatMap_up (Q := fun b => g.kind b = .interval) (u := g.par) (w := g.par)
    (fun _ => h.mem_bis) (fun _ _ => h.mem_blocks) (fun _ _ hk hp => h.kind_par_block hp hk) x

theorem ForestInv.mem_secCode {x s : Nat} :
    x ∈ secCode g s ↔ g.kind x = .code ∧ (g.par x).bind g.par = some s := by
  unfold secCode
  rw [List.mem_filter, h.mem_secBlocks]
  simp only [decide_eq_true_eq]
  constructor
  · rintro ⟨⟨_, h2⟩, h3⟩; exact ⟨h3, h2⟩
  · rintro ⟨h1, h2⟩; exact ⟨⟨Or.inl h1, h2⟩, h1⟩

theorem ForestInv.mem_secData {x s : Nat} :
    x ∈ secData g s ↔ g.kind x = .data ∧ (g.par x).bind g.par = some s := by
  unfold secData
  rw [List.mem_filter, h.mem_secBlocks]
  simp only [decide_eq_true_eq]
  constructor
  · rintro ⟨⟨_, h2⟩, h3⟩; exact ⟨h3, h2⟩
  · rintro ⟨h1, h2⟩; exact ⟨⟨Or.inr h1, h2⟩, h1⟩

/-- two steps up from a block is a section -/
theorem ForestInv.kind_up2_block {x s : Nat} (hk : g.kind x = .code ∨ g.kind x = .data)
    (hu : (g.par x).bind g.par = some s) : g.kind s = .section := by
  obtain ⟨b, hb, hs⟩ := Option.bind_eq_some_iff.1 hu
  exact h.kind_par_interval hs (h.kind_par_block hb hk)

theorem ForestInv.mem_modBis {x m : Nat} :
    x ∈ modBis g m ↔ g.kind x = .interval ∧ (g.par x).bind g.par = some m :=
  mem_flatMap_up (Q := fun b => g.kind b = .section) (u := g.par) (w := g.par)
    (fun _ => h.mem_secs) (fun _ _ => h.mem_bis) (fun _ _ hk hp => h.kind_par_interval hp hk) x

theorem ForestInv.mem_modBlocks' {x m : Nat} :
    x ∈ modBlocks g m ↔ (g.kind x = .code ∨ g.kind x = .data) ∧ ((g.par x).bind g.par).bind g.par = some m :=
  mem_flatMap_up (Q := fun b => g.kind b = .section) (u := g.par) (w := fun x => (g.par x).bind g.par)
    (fun _ => h.mem_secs) (fun _ _ => h.mem_secBlocks) (fun _ _ hk hp => h.kind_up2_block hk hp) x

theorem ForestInv.mem_modCode' {x m : Nat} :
    x ∈ modCode g m ↔ g.kind x = .code ∧ ((g.par x).bind g.par).bind g.par = some m :=
  mem_flatMap_up (Q := fun b => g.kind b = .section) (u := g.par) (w := fun x => (g.par x).bind g.par)
    (fun _ => h.mem_secs) (fun _ _ => h.mem_secCode) (fun _ _ hk hp => h.kind_up2_block (Or.inl hk) hp) x

theorem ForestInv.mem_modData' {x m : Nat} :
    x ∈ modData g m ↔ g.kind x = .data ∧ ((g.par x).bind g.par).bind g.par = some m :=
  mem_flatMap_up (Q := fun b => g.kind b = .section) (u := g.par) (w := fun x => (g.par x).bind g.par)
    (fun _ => h.mem_secs) (fun _ _ => h.mem_secData) (fun _ _ hk hp => h.kind_up2_block (Or.inr hk) hp) x

/-- `Module.byte_blocks` etc.: exactly the blocks whose `.module` is `m` -/
theorem ForestInv.mem_modBlocks {x m : Nat} :
    x ∈ modBlocks g m ↔ (g.kind x = .code ∨ g.kind x = .data) ∧ moduleOf g x = some m := by
  rw [h.mem_modBlocks']
  constructor
  · rintro ⟨h1, h2⟩; exact ⟨h1, by rw [moduleOf_block h1]; exact h2⟩
  · rintro ⟨h1, h2⟩; exact ⟨h1, by rw [moduleOf_block h1] at h2; exact h2⟩

theorem ForestInv.mem_modCode {x m : Nat} :
    x ∈ modCode g m ↔ g.kind x = .code ∧ moduleOf g x = some m := by
  rw [h.mem_modCode']
  constructor
  · rintro ⟨h1, h2⟩; exact ⟨h1, by rw [moduleOf_block (Or.inl h1)]; exact h2⟩
  · rintro ⟨h1, h2⟩; exact ⟨h1, by rw [moduleOf_block (Or.inl h1)] at h2; exact h2⟩

theorem ForestInv.mem_modData {x m : Nat} :
    x ∈ modData g m ↔ g.kind x = .data ∧ moduleOf g x = some m := by
  rw [h.mem_modData']
  constructor
  · rintro ⟨h1, h2⟩; exact ⟨h1, by rw [moduleOf_block (Or.inr h1)]; exact h2⟩
  · rintro ⟨h1, h2⟩; exact ⟨h1, by rw [moduleOf_block (Or.inr h1)] at h2; exact h2⟩

theorem ForestInv.mem_modBis_moduleOf {x m : Nat} :
    x ∈ modBis g m ↔ g.kind x = .interval ∧ moduleOf g x = some m := by
  rw [h.mem_modBis]
  constructor
  · rintro ⟨h1, h2⟩; exact ⟨h1, by rw [moduleOf_interval h1]; exact h2⟩
  · rintro ⟨h1, h2⟩; exact ⟨h1, by rw [moduleOf_interval h1] at h2; exact h2⟩

theorem ForestInv.mem_modCfgNodes {x m : Nat} :
    x ∈ modCfgNodes g m ↔ (g.kind x = .code ∨ g.kind x = .proxy) ∧ moduleOf g x = some m := by
  unfold modCfgNodes
  rw [List.mem_append, h.mem_modCode, h.mem_proxies]
  constructor
  · rintro (⟨h1, h2⟩ | ⟨h1, h2⟩)
    · exact ⟨Or.inl h1, h2⟩
    · exact ⟨Or.inr h1, by rw [moduleOf_mid (Or.inr (Or.inr h1))]; exact h2⟩
  · rintro ⟨h1 | h1, h2⟩
    · exact Or.inl ⟨h1, h2⟩
    · exact Or.inr ⟨h1, by rw [moduleOf_mid (Or.inr (Or.inr h1))] at h2; exact h2⟩

/-- the module of a block / proxy / section-level node is a module -/
theorem ForestInv.kind_moduleOf {x m : Nat} (hk : g.kind x ≠ .ir) (hk' : g.kind x ≠ .module)
    (hm : moduleOf g x = some m) : g.kind m = .module := by
  cases hkx : g.kind x with
  | ir => exact absurd hkx hk
  | module => exact absurd hkx hk'
  | «section» => rw [moduleOf_mid (Or.inl hkx)] at hm; exact h.kind_par_mid hm (Or.inl hkx)
  | symbol => rw [moduleOf_mid (Or.inr (Or.inl hkx))] at hm; exact h.kind_par_mid hm (Or.inr (Or.inl hkx))
  | proxy => rw [moduleOf_mid (Or.inr (Or.inr hkx))] at hm; exact h.kind_par_mid hm (Or.inr (Or.inr hkx))
  | interval =>
    rw [moduleOf_interval hkx] at hm
    obtain ⟨s, hs, hm⟩ := Option.bind_eq_some_iff.1 hm
    exact h.kind_par_mid hm (Or.inl (h.kind_par_interval hs hkx))
  | code =>
    rw [moduleOf_block (Or.inl hkx)] at hm
    obtain ⟨s, hs, hm⟩ := Option.bind_eq_some_iff.1 hm
    exact h.kind_par_mid hm (Or.inl (h.kind_up2_block (Or.inl hkx) hs))
  | data =>
    rw [moduleOf_block (Or.inr hkx)] at hm
    obtain ⟨s, hs, hm⟩ := Option.bind_eq_some_iff.1 hm
    exact h.kind_par_mid hm (Or.inl (h.kind_up2_block (Or.inr hkx) hs))

/-- generic IR-level iterator: the modules' pieces, each described through `moduleOf` -/
theorem ForestInv.mem_ir_flatMap {f : Nat → List Nat} {P : Nat → Prop}
    (hf : ∀ m x, x ∈ f m ↔ P x ∧ moduleOf g x = some m)
    (hP : ∀ x, P x → g.kind x ≠ .ir ∧ g.kind x ≠ .module) (x i : Nat) :
    x ∈ (g.kids i .mods).flatMap f ↔ P x ∧ irOf g x = some i := by
  rw [mem_flatMap_up (Q := fun b => g.kind b = .module) (u := g.par) (w := moduleOf g) (P := P)
    (fun _ => h.mem_mods) hf (fun x m hp hm => h.kind_moduleOf (hP x hp).1 (hP x hp).2 hm) x]
  constructor
  · rintro ⟨h1, h2⟩; exact ⟨h1, by rw [irOf_eq_moduleOf_bind (hP x h1).1 (hP x h1).2]; exact h2⟩
  · rintro ⟨h1, h2⟩; exact ⟨h1, by rw [irOf_eq_moduleOf_bind (hP x h1).1 (hP x h1).2] at h2; exact h2⟩

theorem ForestInv.mem_irSecs {x i : Nat} : x ∈ irSecs g i ↔ g.kind x = .section ∧ irOf g x = some i :=
  h.mem_ir_flatMap (P := fun x => g.kind x = .section)
    (fun m x => by rw [h.mem_secs]; exact ⟨fun ⟨a, b⟩ => ⟨a, by rw [moduleOf_mid (Or.inl a)]; exact b⟩,
      fun ⟨a, b⟩ => ⟨a, by rw [moduleOf_mid (Or.inl a)] at b; exact b⟩⟩)
    (fun x hx => by rw [hx]; simp) x i

theorem ForestInv.mem_irSyms {x i : Nat} : x ∈ irSyms g i ↔ g.kind x = .symbol ∧ irOf g x = some i :=
  h.mem_ir_flatMap (P := fun x => g.kind x = .symbol)
    (fun m x => by rw [h.mem_syms]; exact ⟨fun ⟨a, b⟩ => ⟨a, by rw [moduleOf_mid (Or.inr (Or.inl a))]; exact b⟩,
      fun ⟨a, b⟩ => ⟨a, by rw [moduleOf_mid (Or.inr (Or.inl a))] at b; exact b⟩⟩)
    (fun x hx => by rw [hx]; simp) x i

theorem ForestInv.mem_irProxies {x i : Nat} : x ∈ irProxies g i ↔ g.kind x = .proxy ∧ irOf g x = some i :=
  h.mem_ir_flatMap (P := fun x => g.kind x = .proxy)
    (fun m x => by rw [h.mem_proxies]; exact ⟨fun ⟨a, b⟩ => ⟨a, by rw [moduleOf_mid (Or.inr (Or.inr a))]; exact b⟩,
      fun ⟨a, b⟩ => ⟨a, by rw [moduleOf_mid (Or.inr (Or.inr a))] at b; exact b⟩⟩)
    (fun x hx => by rw [hx]; simp) x i

theorem ForestInv.mem_irBis {x i : Nat} : x ∈ irBis g i ↔ g.kind x = .interval ∧ irOf g x = some i :=
  h.mem_ir_flatMap (P := fun x => g.kind x = .interval) (fun _ _ => h.mem_modBis_moduleOf)
    (fun x hx => by rw [hx]; simp) x i

theorem ForestInv.mem_irBlocks {x i : Nat} :
    x ∈ irBlocks g i ↔ (g.kind x = .code ∨ g.kind x = .data) ∧ irOf g x = some i :=
  h.mem_ir_flatMap (P := fun x => g.kind x = .code ∨ g.kind x = .data) (fun _ _ => h.mem_modBlocks)
    (fun x hx => by rcases hx with hx | hx <;> (rw [hx]; simp)) x i

theorem ForestInv.mem_irCode {x i : Nat} : x ∈ irCode g i ↔ g.kind x = .code ∧ irOf g x = some i :=
  h.mem_ir_flatMap (P := fun x => g.kind x = .code) (fun _ _ => h.mem_modCode)
    (fun x hx => by rw [hx]; simp) x i

theorem ForestInv.mem_irData {x i : Nat} : x ∈ irData g i ↔ g.kind x = .data ∧ irOf g x = some i :=
  h.mem_ir_flatMap (P := fun x => g.kind x = .data) (fun _ _ => h.mem_modData)
    (fun x hx => by rw [hx]; simp) x i

theorem ForestInv.mem_irCfgNodes {x i : Nat} :
    x ∈ irCfgNodes g i ↔ (g.kind x = .code ∨ g.kind x = .proxy) ∧ irOf g x = some i :=
  h.mem_ir_flatMap (P := fun x => g.kind x = .code ∨ g.kind x = .proxy) (fun _ _ => h.mem_modCfgNodes)
    (fun x hx => by rcases hx with hx | hx <;> (rw [hx]; simp)) x i

end

/-! ### aggregate iterators: no duplicates -/

section
variable {g : G} (h : ForestInv g)
include h

theorem ForestInv.nodup_secBlocks (s : Nat) : (secBlocks g s).Nodup :=
  nodup_flatMap_key g.par (h.nodup s .bis) (fun b _ => h.nodup b .blocks) (fun _ _ _ hx => (h.mem_blocks.1 hx).2)

theorem ForestInv.nodup_secCode (s : Nat) : (secCode g s).Nodup :=
  (h.nodup_secBlocks s).sublist List.filter_sublist

theorem ForestInv.nodup_secData (s : Nat) : (secData g s).Nodup :=
  (h.nodup_secBlocks s).sublist List.filter_sublist

theorem ForestInv.nodup_modBis (m : Nat) : (modBis g m).Nodup :=
  nodup_flatMap_key g.par (h.nodup m .secs) (fun b _ => h.nodup b .bis) (fun _ _ _ hx => (h.mem_bis.1 hx).2)

theorem ForestInv.nodup_modBlocks (m : Nat) : (modBlocks g m).Nodup :=
  nodup_flatMap_key (fun x => (g.par x).bind g.par) (h.nodup m .secs) (fun b _ => h.nodup_secBlocks b)
    (fun _ _ _ hx => (h.mem_secBlocks.1 hx).2)

theorem ForestInv.nodup_modCode (m : Nat) : (modCode g m).Nodup :=
  nodup_flatMap_key (fun x => (g.par x).bind g.par) (h.nodup m .secs) (fun b _ => h.nodup_secCode b)
    (fun _ _ _ hx => (h.mem_secCode.1 hx).2)

theorem ForestInv.nodup_modData (m : Nat) : (modData g m).Nodup :=
  nodup_flatMap_key (fun x => (g.par x).bind g.par) (h.nodup m .secs) (fun b _ => h.nodup_secData b)
    (fun _ _ _ hx => (h.mem_secData.1 hx).2)

theorem ForestInv.nodup_modCfgNodes (m : Nat) : (modCfgNodes g m).Nodup :=
  nodup_append_of (P := fun x => g.kind x = .proxy) (h.nodup_modCode m) (h.nodup m .proxies)
    (fun x hx => by rw [(h.mem_modCode.1 hx).1]; simp) (fun x hx => (h.mem_proxies.1 hx).1)

theorem ForestInv.nodup_irSecs (i : Nat) : (irSecs g i).Nodup :=
  nodup_flatMap_key g.par (h.nodup i .mods) (fun b _ => h.nodup b .secs) (fun _ _ _ hx => (h.mem_secs.1 hx).2)

theorem ForestInv.nodup_irSyms (i : Nat) : (irSyms g i).Nodup :=
  nodup_flatMap_key g.par (h.nodup i .mods) (fun b _ => h.nodup b .syms) (fun _ _ _ hx => (h.mem_syms.1 hx).2)

theorem ForestInv.nodup_irProxies (i : Nat) : (irProxies g i).Nodup :=
  nodup_flatMap_key g.par (h.nodup i .mods) (fun b _ => h.nodup b .proxies) (fun _ _ _ hx => (h.mem_proxies.1 hx).2)

theorem ForestInv.nodup_irBis (i : Nat) : (irBis g i).Nodup :=
  nodup_flatMap_key (moduleOf g) (h.nodup i .mods) (fun b _ => h.nodup_modBis b)
    (fun _ _ _ hx => (h.mem_modBis_moduleOf.1 hx).2)

theorem ForestInv.nodup_irBlocks (i : Nat) : (irBlocks g i).Nodup :=
  nodup_flatMap_key (moduleOf g) (h.nodup i .mods) (fun b _ => h.nodup_modBlocks b)
    (fun _ _ _ hx => (h.mem_modBlocks.1 hx).2)

theorem ForestInv.nodup_irCode (i : Nat) : (irCode g i).Nodup :=
  nodup_flatMap_key (moduleOf g) (h.nodup i .mods) (fun b _ => h.nodup_modCode b)
    (fun _ _ _ hx => (h.mem_modCode.1 hx).2)

theorem ForestInv.nodup_irData (i : Nat) : (irData g i).Nodup :=
  nodup_flatMap_key (moduleOf g) (h.nodup i .mods) (fun b _ => h.nodup_modData b)
    (fun _ _ _ hx => (h.mem_modData.1 hx).2)

theorem ForestInv.nodup_irCfgNodes (i : Nat) : (irCfgNodes g i).Nodup :=
  nodup_flatMap_key (moduleOf g) (h.nodup i .mods) (fun b _ => h.nodup_modCfgNodes b)
    (fun _ _ _ hx => (h.mem_modCfgNodes.1 hx).2)

end

/-! ### the scan `reachable` -/

theorem irBis_eq (g : G) (i : Nat) : irBis g i = (irSecs g i).flatMap (g.kids · .bis) := by
  unfold irBis irSecs modBis
  rw [List.flatMap_assoc]

theorem modBlocks_eq (g : G) (m : Nat) : modBlocks g m = (modBis g m).flatMap (g.kids · .blocks) := by
  unfold modBlocks modBis secBlocks
  rw [List.flatMap_assoc]

theorem irBlocks_eq (g : G) (i : Nat) : irBlocks g i = (irBis g i).flatMap (g.kids · .blocks) := by
  unfold irBlocks irBis
  rw [List.flatMap_assoc]
  congr 1
  funext m
  exact modBlocks_eq g m

/-- the scan, in terms of the aggregate iterators -/
theorem reachable_eq (g : G) (i : Nat) :
    reachable g i = i :: g.kids i .mods ++ irProxies g i ++ irSecs g i ++ irSyms g i ++ irBis g i ++ irBlocks g i := by
  rw [irBlocks_eq, irBis_eq]
  rfl

theorem ForestInv.mem_reachable {g : G} (h : ForestInv g) {i : Nat} (hi : g.kind i = .ir) (x : Nat) :
    x ∈ reachable g i ↔ irOf g x = some i := by
  rw [reachable_eq]
  simp only [List.mem_append, List.mem_cons, h.mem_mods, h.mem_irProxies, h.mem_irSecs, h.mem_irSyms,
    h.mem_irBis, h.mem_irBlocks]
  constructor
  · rintro ((((((rfl | h1) | h1) | h1) | h1) | h1) | h1)
    · exact irOf_ir hi
    · rw [irOf_module h1.1]; exact h1.2
    · exact h1.2
    · exact h1.2
    · exact h1.2
    · exact h1.2
    · exact h1.2
  · intro hx
    cases hk : g.kind x with
    | ir =>
      rw [irOf_ir hk] at hx
      exact Or.inl (Or.inl (Or.inl (Or.inl (Or.inl (Or.inl (Option.some.inj hx))))))
    | module =>
      rw [irOf_module hk] at hx
      exact Or.inl (Or.inl (Or.inl (Or.inl (Or.inl (Or.inr ⟨rfl, hx⟩)))))
    | proxy => exact Or.inl (Or.inl (Or.inl (Or.inl (Or.inr ⟨rfl, hx⟩))))
    | «section» => exact Or.inl (Or.inl (Or.inl (Or.inr ⟨rfl, hx⟩)))
    | symbol => exact Or.inl (Or.inl (Or.inr ⟨rfl, hx⟩))
    | interval => exact Or.inl (Or.inr ⟨rfl, hx⟩)
    | code => exact Or.inr ⟨Or.inl rfl, hx⟩
    | data => exact Or.inr ⟨Or.inr rfl, hx⟩

theorem ForestInv.nodup_reachable {g : G} (h : ForestInv g) {i : Nat} (hi : g.kind i = .ir) :
    (reachable g i).Nodup := by
  rw [reachable_eq]
  have h0 : (i :: g.kids i .mods).Nodup := by
    rw [List.nodup_cons]
    refine ⟨?_, h.nodup i .mods⟩
    intro hm
    have := (h.mem_mods.1 hm).1
    rw [hi] at this; cases this
  have k0 : ∀ x ∈ i :: g.kids i .mods, g.kind x = .ir ∨ g.kind x = .module := by
    intro x hx
    rcases List.mem_cons.1 hx with rfl | hx
    · exact Or.inl hi
    · exact Or.inr (h.mem_mods.1 hx).1
  have h1 := nodup_append_of (P := fun x => g.kind x = .proxy) h0 (h.nodup_irProxies i)
    (fun x hx => by rcases k0 x hx with e | e <;> (rw [e]; simp)) (fun x hx => (h.mem_irProxies.1 hx).1)
  have k1 : ∀ x ∈ i :: g.kids i .mods ++ irProxies g i,
      g.kind x = .ir ∨ g.kind x = .module ∨ g.kind x = .proxy := by
    intro x hx
    rcases List.mem_append.1 hx with hx | hx
    · rcases k0 x hx with e | e
      · exact Or.inl e
      · exact Or.inr (Or.inl e)
    · exact Or.inr (Or.inr (h.mem_irProxies.1 hx).1)
  have h2 := nodup_append_of (P := fun x => g.kind x = .section) h1 (h.nodup_irSecs i)
    (fun x hx => by rcases k1 x hx with e | e | e <;> (rw [e]; simp)) (fun x hx => (h.mem_irSecs.1 hx).1)
  have k2 : ∀ x ∈ i :: g.kids i .mods ++ irProxies g i ++ irSecs g i,
      g.kind x = .ir ∨ g.kind x = .module ∨ g.kind x = .proxy ∨ g.kind x = .section := by
    intro x hx
    rcases List.mem_append.1 hx with hx | hx
    · rcases k1 x hx with e | e | e
      · exact Or.inl e
      · exact Or.inr (Or.inl e)
      · exact Or.inr (Or.inr (Or.inl e))
    · exact Or.inr (Or.inr (Or.inr (h.mem_irSecs.1 hx).1))
  have h3 := nodup_append_of (P := fun x => g.kind x = .symbol) h2 (h.nodup_irSyms i)
    (fun x hx => by rcases k2 x hx with e | e | e | e <;> (rw [e]; simp)) (fun x hx => (h.mem_irSyms.1 hx).1)
  have k3 : ∀ x ∈ i :: g.kids i .mods ++ irProxies g i ++ irSecs g i ++ irSyms g i,
      g.kind x = .ir ∨ g.kind x = .module ∨ g.kind x = .proxy ∨ g.kind x = .section ∨ g.kind x = .symbol := by
    intro x hx
    rcases List.mem_append.1 hx with hx | hx
    · rcases k2 x hx with e | e | e | e
      · exact Or.inl e
      · exact Or.inr (Or.inl e)
      · exact Or.inr (Or.inr (Or.inl e))
      · exact Or.inr (Or.inr (Or.inr (Or.inl e)))
    · exact Or.inr (Or.inr (Or.inr (Or.inr (h.mem_irSyms.1 hx).1)))
  have h4 := nodup_append_of (P := fun x => g.kind x = .interval) h3 (h.nodup_irBis i)
    (fun x hx => by rcases k3 x hx with e | e | e | e | e <;> (rw [e]; simp)) (fun x hx => (h.mem_irBis.1 hx).1)
  have k4 : ∀ x ∈ i :: g.kids i .mods ++ irProxies g i ++ irSecs g i ++ irSyms g i ++ irBis g i,
      g.kind x = .ir ∨ g.kind x = .module ∨ g.kind x = .proxy ∨ g.kind x = .section ∨ g.kind x = .symbol
        ∨ g.kind x = .interval := by
    intro x hx
    rcases List.mem_append.1 hx with hx | hx
    · rcases k3 x hx with e | e | e | e | e
      · exact Or.inl e
      · exact Or.inr (Or.inl e)
      · exact Or.inr (Or.inr (Or.inl e))
      · exact Or.inr (Or.inr (Or.inr (Or.inl e)))
      · exact Or.inr (Or.inr (Or.inr (Or.inr (Or.inl e))))
    · exact Or.inr (Or.inr (Or.inr (Or.inr (Or.inr (h.mem_irBis.1 hx).1))))
  exact nodup_append_of (P := fun x => g.kind x = .code ∨ g.kind x = .data) h4 (h.nodup_irBlocks i)
    (fun x hx => by rcases k4 x hx with e | e | e | e | e | e <;> (rw [e]; simp))
    (fun x hx => (h.mem_irBlocks.1 hx).1)

end Gtirb.Forest
